import PyAirtouch.Lemmas.SockHealFate
/-!
# No accepted message disappears without cause (model side of `dropsJustified` / `noSilentLoss`)

The invariant `TInv tr q fl` links the trace `tr`, the queue `q` and the entries `fl` held in flight by tasks
suspended in `drain()` (`drainAwait w e r`):

* every queue entry comes from an `accept` with the same expiry and encodability, and a re-queued one has a
  write attempt in the trace;
* every in-flight entry comes from an `accept` (same expiry / encodability) and has a write attempt in the trace
  (this is where `rw` pointing to an existing transport is needed: `doWrite` on a missing transport would be
  silent);
* every `qdrop` in the trace states a true reason (`DropOk`);
* every `accept sid` in the trace is still queued, or has a write attempt, or has a `qdrop`, or the session in which
  it was accepted has ended and a new one has begun (`reopenedSince`) (`Fated`).

It is preserved by every step of the model whose `apiSend` carries an identity that was not accepted before
(`step_tinv`), hence holds in every `ReachableWF` state (`tinv_reachableWF`).

**Change with /repo 3897b77** ("do not send messages of an earlier session after the socket is opened again"):
`open_socket()` on a socket that is not open now starts with `self._message_queue.clear()`.  Entries of the earlier
session that were still queued (waiting for a connection when `close()` ran, or put back by a sender's retry path after
`close()` had returned) disappear there, and the code logs nothing about them.  The accounting statement "still queued, or
attempted, or dropped with a reason" is therefore FALSE for such a message (`reopen_discards_silently` is the history), and
the fourth alternative `reopenedSince tr sid` was added: in the trace, the `accept` of `sid` is followed by an `apiClose`
that is followed by an `apiOpen`.  That is exact, not an over-approximation: `open_socket()` on a socket that is already
open (no `apiClose` in between) clears nothing and does not make the alternative true.  For messages of the current session
(`reopenedSince tr sid = false`, in particular when the trace has no `apiClose`) the old three-way statement holds verbatim
(`C01_accounted_current_session`).  The Spec monitor `noSilentLoss` never judged histories with a `close()` (`hasClose`),
so the monitor theorems are unchanged.
-/
namespace PyAirtouch.Lemmas.SockLoss
open PyAirtouch.Model.Sock PyAirtouch.Spec.Trace PyAirtouch.Lemmas.Sock PyAirtouch.Lemmas.SockConn
open PyAirtouch.Lemmas.SockHeal (rwValid rwValid_shrink hinv1_reachable Healed)

/-! ### trace functions under extension -/

/-- an acceptance, or the harness marker `heal` (which the model never emits) -/
def isAccept : Ev → Bool
  | .accept .. | .heal .. => true
  | _ => false

/-- neither an acceptance nor a drop nor the harness marker `heal` -/
def Plain : Ev → Bool
  | .accept .. | .qdrop .. | .heal .. => false
  | _ => true

theorem acceptedAt_ext (tr evs : List Ev) (s : Nat) (h : ∀ ev ∈ evs, isAccept ev = false) :
    acceptedAt (tr ++ evs) s = acceptedAt tr s := by
  rw [acceptedAt_append]
  have : acceptedAt evs s = none := by
    simp only [acceptedAt, List.findSome?_eq_none_iff]
    intro ev hev
    have := h ev hev
    cases ev <;> simp_all [isAccept]
  rw [this]; simp

theorem healTime_ext (tr evs : List Ev) (h : ∀ ev ∈ evs, isAccept ev = false) (h0 : healTime tr = none) :
    healTime (tr ++ evs) = none := by
  simp only [healTime, List.findSome?_append, List.findSome?_eq_none_iff, Option.or_eq_none_iff] at h0 ⊢
  refine ⟨h0, ?_⟩
  intro ev hev
  have := h ev hev
  cases ev <;> simp_all [isAccept]

theorem writeAttempts_le (tr evs : List Ev) (s : Nat) : writeAttempts tr s ≤ writeAttempts (tr ++ evs) s := by
  simp only [writeAttempts, List.countP_append]; exact Nat.le_add_right _ _

theorem dropped_mono {tr : List Ev} {s : Nat} (evs : List Ev) (h : dropped tr s = true) :
    dropped (tr ++ evs) s = true := by
  simp only [dropped, List.any_append, Bool.or_eq_true] at h ⊢; exact .inl h

theorem dropped_of_mem {tr : List Ev} {s t : Nat} {why : DropWhy} (h : Ev.qdrop s t why ∈ tr) :
    dropped tr s = true := by
  simp only [dropped, List.any_eq_true]
  exact ⟨_, h, by simp⟩

/-! ### sessions: what the trace says about `close()` / `open_socket()` after an acceptance -/

/-- where message `sid` stands with respect to the sessions of the socket: not accepted yet; accepted and the session of
    its acceptance still running; that session closed (`apiClose` after the `accept`); the socket opened again after that
    (`apiOpen` after that `apiClose`) -/
inductive Sess | notYet | current | closed | reopened
deriving DecidableEq, Repr

def sessStep (sid : Nat) : Sess → Ev → Sess
  | .notYet, .accept s _ _ _ _ => if s = sid then .current else .notYet
  | .current, .apiClose _ => .closed
  | .closed, .apiOpen _ => .reopened
  | st, _ => st

def sessionOf (tr : List Ev) (sid : Nat) : Sess := tr.foldl (sessStep sid) .notYet

/-- after the acceptance of `sid` the socket was closed and then opened again: the trace has the shape
    `… accept sid … apiClose … apiOpen …`.  Since /repo 3897b77 that `open_socket()` started with an empty queue: whatever the
    earlier session had left queued was discarded there, without a log record. -/
def reopenedSince (tr : List Ev) (sid : Nat) : Bool := sessionOf tr sid == .reopened

theorem sessionOf_append (tr evs : List Ev) (sid : Nat) :
    sessionOf (tr ++ evs) sid = evs.foldl (sessStep sid) (sessionOf tr sid) := by
  simp [sessionOf, List.foldl_append]

theorem sessStep_reopened (sid : Nat) (ev : Ev) : sessStep sid .reopened ev = .reopened := by
  cases ev <;> rfl

theorem sessFold_reopened (sid : Nat) (evs : List Ev) : evs.foldl (sessStep sid) .reopened = .reopened := by
  induction evs with
  | nil => rfl
  | cons ev evs ih => rw [List.foldl_cons, sessStep_reopened]; exact ih

theorem reopenedSince_mono {tr : List Ev} {sid : Nat} (evs : List Ev) (h : reopenedSince tr sid = true) :
    reopenedSince (tr ++ evs) sid = true := by
  simp only [reopenedSince, beq_iff_eq] at h ⊢
  rw [sessionOf_append, h, sessFold_reopened]

/-- only an `accept` makes a message "accepted in the running session" -/
theorem sessStep_ne_current {sid : Nat} {st : Sess} {ev : Ev} (hst : st ≠ .current)
    (hev : SockHeal.isAcc ev = false) : sessStep sid st ev ≠ .current := by
  cases st <;> cases ev <;> simp_all [sessStep, SockHeal.isAcc]

theorem sessFold_ne_current {sid : Nat} (evs : List Ev) (hev : ∀ ev ∈ evs, SockHeal.isAcc ev = false) :
    ∀ st : Sess, st ≠ .current → evs.foldl (sessStep sid) st ≠ .current := by
  induction evs with
  | nil => intro st h; exact h
  | cons ev evs ih =>
    intro st h
    rw [List.foldl_cons]
    exact ih (fun e he => hev e (List.mem_cons_of_mem _ he)) _ (sessStep_ne_current h (hev ev (by simp)))

theorem sessStep_close_ne_current (sid : Nat) (st : Sess) (t : Nat) : sessStep sid st (.apiClose t) ≠ .current := by
  cases st <;> simp [sessStep]

theorem sessStep_ne_notYet {sid : Nat} {st : Sess} (ev : Ev) (hst : st ≠ .notYet) : sessStep sid st ev ≠ .notYet := by
  cases st <;> cases ev <;> simp_all [sessStep]

theorem sessFold_ne_notYet {sid : Nat} (evs : List Ev) :
    ∀ st : Sess, st ≠ .notYet → evs.foldl (sessStep sid) st ≠ .notYet := by
  induction evs with
  | nil => intro st h; exact h
  | cons ev evs ih => intro st h; rw [List.foldl_cons]; exact ih _ (sessStep_ne_notYet ev h)

/-- a message whose `accept` is in the trace has been accepted -/
theorem sessionOf_of_mem {tr : List Ev} {sid t e r : Nat} {ok : Bool} (h : Ev.accept sid t e r ok ∈ tr) :
    sessionOf tr sid ≠ .notYet := by
  obtain ⟨pre, post, rfl⟩ := List.append_of_mem h
  rw [sessionOf_append, List.foldl_cons]
  refine sessFold_ne_notYet post _ ?_
  cases hs : sessionOf pre sid <;> simp [sessStep]

/-- an `apiOpen` after the session of the acceptance has been closed -/
theorem reopenedSince_open {tr : List Ev} {sid : Nat} (t : Nat) (h1 : sessionOf tr sid ≠ .notYet)
    (h2 : sessionOf tr sid ≠ .current) : reopenedSince (tr ++ [.apiOpen t]) sid = true := by
  simp only [reopenedSince, beq_iff_eq, sessionOf_append, List.foldl_cons, List.foldl_nil]
  cases hs : sessionOf tr sid <;> simp_all [sessStep]

/-- a trace without `close()` has no ended session -/
theorem reopenedSince_of_noClose {tr : List Ev} (h : hasClose tr = false) (sid : Nat) : reopenedSince tr sid = false := by
  have key : ∀ (evs : List Ev) (st : Sess), (st = .notYet ∨ st = .current) →
      (evs.any fun | .apiClose _ => true | _ => false) = false →
      (evs.foldl (sessStep sid) st = .notYet ∨ evs.foldl (sessStep sid) st = .current) := by
    intro evs
    induction evs with
    | nil => intro st h _; exact h
    | cons ev evs ih =>
      intro st hst hc
      simp only [List.any_cons, Bool.or_eq_false_iff] at hc
      rw [List.foldl_cons]
      refine ih _ ?_ hc.2
      rcases hst with rfl | rfl <;> cases ev <;> simp_all [sessStep] <;> omega
  have := key tr .notYet (.inl rfl) h
  simp only [reopenedSince, beq_eq_false_iff_ne, sessionOf]
  rcases this with h' | h' <;> rw [h'] <;> simp

/-! ### the invariant -/

/-- the stated reason of a drop is true -/
def Why (tr : List Ev) (s t e : Nat) (ok : Bool) : DropWhy → Prop
  | .expired => e ≤ t
  | .encErr => ok = false
  | .maxRetries => 1 ≤ writeAttempts tr s

/-- what the invariant says about one event of the trace -/
def DropOk (tr : List Ev) : Ev → Prop
  | .qdrop s t why => ∃ t0 e r ok, acceptedAt tr s = some (t0, e, r, ok) ∧ Why tr s t e ok why
  | _ => True

/-- `x` was accepted with its expiry and encodability -/
def Acc (tr : List Ev) (x : Entry) : Prop :=
  ∃ t0 r0, acceptedAt tr x.sid = some (t0, x.expiry, r0, x.encOk)

/-- message `s` is still queued, or the trace says what happened to it: a write attempt, a drop, or - since /repo
    3897b77 - the socket was closed and opened again after its acceptance (the re-open discards what is queued) -/
def Fated (tr : List Ev) (q : List Entry) (s : Nat) : Prop :=
  (∃ x ∈ q, x.sid = s) ∨ 1 ≤ writeAttempts tr s ∨ dropped tr s = true ∨ reopenedSince tr s = true

structure TInv (tr : List Ev) (q fl : List Entry) : Prop where
  queued : ∀ x ∈ q, Acc tr x ∧ (x.requeued = true → 1 ≤ writeAttempts tr x.sid)
  flying : ∀ x ∈ fl, Acc tr x ∧ 1 ≤ writeAttempts tr x.sid
  drops : ∀ ev ∈ tr, DropOk tr ev
  acct : ∀ s t e r ok, Ev.accept s t e r ok ∈ tr → Fated tr q s
  noHeal : healTime tr = none

theorem Acc.mono {tr : List Ev} {x : Entry} (evs : List Ev) (h : Acc tr x) : Acc (tr ++ evs) x := by
  obtain ⟨t0, r0, h⟩ := h
  exact ⟨t0, r0, acceptedAt_mono _ h⟩

theorem Why.mono {tr : List Ev} {s t e : Nat} {ok : Bool} {why : DropWhy} (evs : List Ev)
    (h : Why tr s t e ok why) : Why (tr ++ evs) s t e ok why := by
  cases why <;> simp only [Why] at h ⊢
  · exact h
  · exact Nat.le_trans h (writeAttempts_le _ _ _)
  · exact h

theorem DropOk.mono {tr : List Ev} {ev : Ev} (evs : List Ev) (h : DropOk tr ev) : DropOk (tr ++ evs) ev := by
  cases ev <;> simp only [DropOk] at h ⊢
  obtain ⟨t0, e, r, ok, h1, h2⟩ := h
  exact ⟨t0, e, r, ok, acceptedAt_mono _ h1, h2.mono _⟩

theorem DropOk.plain (tr : List Ev) {ev : Ev} (h : Plain ev = true) : DropOk tr ev := by
  cases ev <;> simp_all [Plain, DropOk]

theorem Fated.mono {tr : List Ev} {q q' : List Entry} {s : Nat} (evs : List Ev) (hq : ∀ x ∈ q, x ∈ q')
    (h : Fated tr q s) : Fated (tr ++ evs) q' s := by
  rcases h with ⟨x, hx, hs⟩ | h | h | h
  · exact .inl ⟨x, hq x hx, hs⟩
  · exact .inr (.inl (Nat.le_trans h (writeAttempts_le _ _ _)))
  · exact .inr (.inr (.inl (dropped_mono _ h)))
  · exact .inr (.inr (.inr (reopenedSince_mono _ h)))

/-- the trace grows by events that are not acceptances and whose drops (if any) are justified -/
theorem TInv.ext {tr : List Ev} {q fl : List Entry} (h : TInv tr q fl) (evs : List Ev)
    (hna : ∀ ev ∈ evs, isAccept ev = false) (hd : ∀ ev ∈ evs, DropOk (tr ++ evs) ev) :
    TInv (tr ++ evs) q fl := by
  constructor
  · intro x hx
    obtain ⟨h1, h2⟩ := h.queued x hx
    exact ⟨h1.mono _, fun hr => Nat.le_trans (h2 hr) (writeAttempts_le _ _ _)⟩
  · intro x hx
    obtain ⟨h1, h2⟩ := h.flying x hx
    exact ⟨h1.mono _, Nat.le_trans h2 (writeAttempts_le _ _ _)⟩
  · intro ev hev
    rcases List.mem_append.1 hev with hev | hev
    · exact (h.drops ev hev).mono _
    · exact hd ev hev
  · intro s t e r ok hmem
    rcases List.mem_append.1 hmem with hmem | hmem
    · exact (h.acct s t e r ok hmem).mono _ (fun _ hx => hx)
    · have := hna _ hmem; simp [isAccept] at this
  · exact healTime_ext _ _ hna h.noHeal

theorem TInv.plain {tr : List Ev} {q fl : List Entry} (h : TInv tr q fl) (ev : Ev) (hp : Plain ev = true) :
    TInv (tr ++ [ev]) q fl := by
  refine h.ext [ev] ?_ ?_
  · intro ev' hev'; rw [List.mem_singleton.1 hev']; cases ev <;> simp_all [Plain, isAccept]
  · intro ev' hev'; rw [List.mem_singleton.1 hev']; exact DropOk.plain _ hp

/-- entries leave the queue only with a write attempt or a drop in the trace -/
theorem TInv.shrinkQ {tr : List Ev} {q fl : List Entry} (h : TInv tr q fl) (q' : List Entry)
    (hsub : ∀ x ∈ q', x ∈ q)
    (hk : ∀ x ∈ q, (∃ y ∈ q', y.sid = x.sid) ∨ 1 ≤ writeAttempts tr x.sid ∨ dropped tr x.sid = true) :
    TInv tr q' fl := by
  refine ⟨fun x hx => h.queued x (hsub x hx), h.flying, h.drops, ?_, h.noHeal⟩
  intro s t e r ok hmem
  rcases h.acct s t e r ok hmem with ⟨x, hx, hs⟩ | h' | h'
  · subst hs
    rcases hk x hx with h1 | h1 | h1
    · exact .inl h1
    · exact .inr (.inl h1)
    · exact .inr (.inr (.inl h1))
  · exact .inr (.inl h')
  · exact .inr (.inr h')

/-- `open_socket()` on a closed socket: the queue is emptied; every message accepted so far belongs to an earlier
    session -/
theorem TInv.clear {tr : List Ev} {q fl : List Entry} (h : TInv tr q fl)
    (hs : ∀ s t e r ok, Ev.accept s t e r ok ∈ tr → reopenedSince tr s = true) : TInv tr [] fl :=
  ⟨fun x hx => (by cases hx), h.flying, h.drops, fun s t e r ok hmem => .inr (.inr (.inr (hs s t e r ok hmem))), h.noHeal⟩

theorem TInv.toFl {tr : List Ev} {q fl : List Entry} (h : TInv tr q fl) (x : Entry) (hx : x ∈ q)
    (hw : 1 ≤ writeAttempts tr x.sid) : TInv tr q (x :: fl) := by
  refine ⟨h.queued, ?_, h.drops, h.acct, h.noHeal⟩
  intro y hy
  rcases List.mem_cons.1 hy with rfl | hy
  · exact ⟨(h.queued _ hx).1, hw⟩
  · exact h.flying y hy

theorem TInv.subF {tr : List Ev} {q fl : List Entry} (h : TInv tr q fl) (fl' : List Entry)
    (hs : ∀ x ∈ fl', x ∈ fl) : TInv tr q fl' :=
  ⟨h.queued, fun x hx => h.flying x (hs x hx), h.drops, h.acct, h.noHeal⟩

theorem TInv.requeue {tr : List Ev} {q fl : List Entry} (h : TInv tr q fl) (e e' : Entry) (he : e ∈ fl)
    (h1 : e'.sid = e.sid) (h2 : e'.expiry = e.expiry) (h3 : e'.encOk = e.encOk) : TInv tr (e' :: q) fl := by
  obtain ⟨⟨t0, r0, ha⟩, hw⟩ := h.flying e he
  refine ⟨?_, h.flying, h.drops, ?_, h.noHeal⟩
  · intro x hx
    rcases List.mem_cons.1 hx with rfl | hx
    · exact ⟨⟨t0, r0, by rw [h1, h2, h3]; exact ha⟩, fun _ => by rw [h1]; exact hw⟩
    · exact h.queued x hx
  · intro s t e r ok hmem
    have := (h.acct s t e r ok hmem).mono [] (q' := e' :: q) (fun x hx => List.mem_cons_of_mem _ hx)
    simpa using this

theorem TInv.write {tr : List Ev} {e : Entry} {rest fl : List Entry} (h : TInv tr (e :: rest) fl) (wev : Ev)
    (now : Nat) (hw : IsWrite wev e.sid now) : TInv (tr ++ [wev]) rest (e :: fl) := by
  have hp : Plain wev = true := by obtain ⟨cid, rfl | rfl | rfl⟩ := hw <;> rfl
  have h1 := h.plain wev hp
  have hwa : 1 ≤ writeAttempts (tr ++ [wev]) e.sid := by
    rw [writeAttempts_write _ _ _ _ _ hw]; simp
  refine (h1.toFl e (by simp) hwa).shrinkQ rest (fun x hx => List.mem_cons_of_mem _ hx) ?_
  intro x hx
  rcases List.mem_cons.1 hx with rfl | hx
  · exact .inr (.inl hwa)
  · exact .inl ⟨x, hx, rfl⟩

/-- the head of the queue is dropped with a reason that is true of the `accept` it comes from -/
theorem TInv.drop {tr : List Ev} {e : Entry} {rest fl : List Entry} (h : TInv tr (e :: rest) fl) (now : Nat)
    (why : DropWhy) (hy : Why tr e.sid now e.expiry e.encOk why) :
    TInv (tr ++ [.qdrop e.sid now why]) rest fl := by
  obtain ⟨⟨t0, r0, ha⟩, _⟩ := h.queued e (by simp)
  have h1 : TInv (tr ++ [.qdrop e.sid now why]) (e :: rest) fl := by
    refine h.ext _ ?_ ?_
    · intro ev hev; rw [List.mem_singleton.1 hev]; rfl
    · intro ev hev; rw [List.mem_singleton.1 hev]
      exact ⟨t0, e.expiry, r0, e.encOk, acceptedAt_mono _ ha, hy.mono _⟩
  refine h1.shrinkQ rest (fun x hx => List.mem_cons_of_mem _ hx) ?_
  intro x hx
  rcases List.mem_cons.1 hx with rfl | hx
  · exact .inr (.inr (dropped_of_mem (t := now) (why := why) (by simp)))
  · exact .inl ⟨x, hx, rfl⟩

/-- an in-flight entry is dropped after its last retry -/
theorem TInv.dropMax {tr : List Ev} {q fl : List Entry} (h : TInv tr q fl) (e : Entry) (he : e ∈ fl) (now : Nat) :
    TInv (tr ++ [.qdrop e.sid now .maxRetries]) q fl := by
  obtain ⟨⟨t0, r0, ha⟩, hw⟩ := h.flying e he
  refine h.ext _ ?_ ?_
  · intro ev hev; rw [List.mem_singleton.1 hev]; rfl
  · intro ev hev; rw [List.mem_singleton.1 hev]
    exact ⟨t0, e.expiry, r0, e.encOk, acceptedAt_mono _ ha, Nat.le_trans hw (writeAttempts_le _ _ _)⟩

theorem TInv.purge {tr : List Ev} {q fl : List Entry} (h : TInv tr q fl) (now : Nat) :
    TInv (tr ++ purgeEvents now q) (purged now q) fl := by
  have hmem : ∀ ev ∈ purgeEvents now q, ∃ e ∈ q, now ≥ e.expiry ∧ ev = .qdrop e.sid now .expired := by
    intro ev hev
    simp only [purgeEvents, List.mem_map, List.mem_filter, List.mem_reverse, decide_eq_true_eq] at hev
    obtain ⟨e, ⟨he, hx⟩, rfl⟩ := hev
    exact ⟨e, he, hx, rfl⟩
  have h1 : TInv (tr ++ purgeEvents now q) q fl := by
    refine h.ext _ ?_ ?_
    · intro ev hev; obtain ⟨e, _, _, rfl⟩ := hmem ev hev; rfl
    · intro ev hev
      obtain ⟨e, he, hx, rfl⟩ := hmem ev hev
      obtain ⟨⟨t0, r0, ha⟩, _⟩ := h.queued e he
      exact ⟨t0, e.expiry, r0, e.encOk, acceptedAt_mono _ ha, hx⟩
  refine h1.shrinkQ _ (fun x hx => (List.mem_filter.1 hx).1) ?_
  intro x hx
  by_cases hlt : now < x.expiry
  · exact .inl ⟨x, by simp [purged, hx, hlt], rfl⟩
  · refine .inr (.inr (dropped_mono_right _ ?_))
    refine dropped_of_mem (t := now) (why := .expired) ?_
    simp only [purgeEvents, List.mem_map, List.mem_filter, List.mem_reverse, decide_eq_true_eq]
    exact ⟨x, ⟨hx, by omega⟩, rfl⟩
where
  dropped_mono_right {tr' : List Ev} {s : Nat} (pre : List Ev) (h : dropped tr' s = true) :
      dropped (pre ++ tr') s = true := by
    simp only [dropped, List.any_append, Bool.or_eq_true] at h ⊢; exact .inr h

theorem TInv.accept {tr : List Ev} {q fl : List Entry} (h : TInv tr q fl) (sid now life r : Nat) (ok : Bool)
    (hnone : acceptedAt tr sid = none) :
    TInv (tr ++ [.accept sid now (now + life) r ok]) (q ++ [⟨sid, r, now + life, ok, false⟩]) fl := by
  have hnew : acceptedAt (tr ++ [.accept sid now (now + life) r ok]) sid = some (now, now + life, r, ok) := by
    rw [acceptedAt_accept, hnone]; simp
  constructor
  · intro x hx
    rcases List.mem_append.1 hx with hx | hx
    · obtain ⟨h1, h2⟩ := h.queued x hx
      exact ⟨h1.mono _, fun hr => Nat.le_trans (h2 hr) (writeAttempts_le _ _ _)⟩
    · rw [List.mem_singleton.1 hx]
      exact ⟨⟨now, r, hnew⟩, fun hr => by simp at hr⟩
  · intro x hx
    obtain ⟨h1, h2⟩ := h.flying x hx
    exact ⟨h1.mono _, Nat.le_trans h2 (writeAttempts_le _ _ _)⟩
  · intro ev hev
    rcases List.mem_append.1 hev with hev | hev
    · exact (h.drops ev hev).mono _
    · rw [List.mem_singleton.1 hev]; trivial
  · intro s t e r' ok' hmem
    rcases List.mem_append.1 hmem with hmem | hmem
    · exact (h.acct s t e r' ok' hmem).mono _ (fun x hx => List.mem_append_left _ hx)
    · have := List.mem_singleton.1 hmem
      injection this with h1
      subst h1
      exact .inl ⟨_, List.mem_append_right _ (List.mem_singleton.2 rfl), rfl⟩
  · have := h.noHeal
    simp only [healTime, List.findSome?_append, Option.or_eq_none_iff] at this ⊢
    exact ⟨this, rfl⟩

/-! ### the code between two suspension points -/

theorem doWrite_tinv (c : Core) (w : Nat) (e : Entry) (rest fl : List Entry) (hw : w < c.conns.length)
    (h : TInv c.trace (e :: rest) fl) : TInv (doWrite c w e).1.trace rest (e :: fl) := by
  unfold doWrite
  split
  · exact h.write _ c.now ⟨w, .inl rfl⟩
  · have h1 : TInv (c.trace ++ [.writeFault w e.sid c.now]) rest (e :: fl) :=
      h.write _ c.now ⟨w, .inr (.inr rfl)⟩
    exact h1.plain (.lost w c.now) rfl
  · exact h.write _ c.now ⟨w, .inr (.inl rfl)⟩
  · exact h.write _ c.now ⟨w, .inr (.inl rfl)⟩
  · exact h.write _ c.now ⟨w, .inr (.inl rfl)⟩
  · exfalso
    rename_i hn
    rw [List.getElem?_eq_getElem hw] at hn
    cases hn

theorem drainLoop_tinv (w : Nat) : ∀ (q : List Entry) (c : Core) (fl : List Entry), w < c.conns.length →
    TInv c.trace q fl →
    TInv (drainLoop c w q).1.trace (drainLoop c w q).1.queue (stopHeld (drainLoop c w q).2 ++ fl) := by
  intro q
  induction q with
  | nil => intro c fl _ h; exact h
  | cons e rest ih =>
    intro c fl hw h
    unfold drainLoop
    split
    · exact h
    split
    · rename_i hexp
      exact ih (c.emit (.qdrop e.sid c.now .expired)) fl hw (h.drop c.now .expired hexp)
    · split
      · rename_i henc
        refine ih (c.emit (.qdrop e.sid c.now .encErr)) fl hw (h.drop c.now .encErr ?_)
        simpa [Why] using henc
      · have hd := doWrite_tinv c w e rest fl hw h
        have hl := (shrink_doWrite c w e).len
        split
        · rename_i c' heq
          rw [heq] at hd hl
          have := ih c' (e :: fl) (by rw [hl]; exact hw) hd
          exact this.subF _ (fun x hx => by
            rcases List.mem_append.1 hx with hx | hx
            · exact List.mem_append_left _ hx
            · exact List.mem_append_right _ (List.mem_cons_of_mem _ hx))
        · rename_i c' heq
          rw [heq] at hd
          exact hd
        · rename_i c' heq
          rw [heq] at hd
          exact hd

theorem requeue_tinv (c : Core) (e : Entry) (fl : List Entry) (he : e ∈ fl) (h : TInv c.trace c.queue fl) :
    TInv (requeue c e).trace (requeue c e).queue fl := by
  unfold requeue
  split
  · exact h.dropMax e he c.now
  · exact h.requeue e _ he rfl rfl rfl

theorem closeConn_tinv (c : Core) (w : Nat) (fl : List Entry) (h : TInv c.trace c.queue fl) :
    TInv (closeConn c w).trace (closeConn c w).queue fl := by
  unfold closeConn
  split
  · exact h.plain (.clientClose w c.now) rfl
  · exact h

theorem exec_tinv (fuel : Nat) (c : Core) (sp : List Pc) (k : Kont) :
    ∀ fl, rwValid c → TInv c.trace c.queue fl →
      TInv (exec fuel c sp k).core.trace (exec fuel c sp k).core.queue (hold (exec fuel c sp k).pc ++ fl) := by
  fun_induction exec fuel c sp k
  case case4 fuel c sp r hcon w hw c' hd ih =>
    intro fl hrw h
    have h1 := drainLoop_tinv w c.queue c fl (hrw w hw) h
    rw [hd] at h1
    exact ih fl (rwValid_shrink (shrink_drainLoop' hd) hrw) h1
  case case5 fuel c sp r hcon w hw c' e hd =>
    intro fl hrw h
    have h1 := drainLoop_tinv w c.queue c fl (hrw w hw) h
    rw [hd] at h1
    exact h1
  case case6 fuel c sp r hcon w hw c' e hd ih =>
    intro fl hrw h
    have h1 := drainLoop_tinv w c.queue c fl (hrw w hw) h
    rw [hd] at h1
    have h2 := requeue_tinv c' e _ (List.mem_append_left _ (List.mem_singleton.2 rfl)) h1
    have h3 := ih _ (rwValid_shrink ((shrink_drainLoop' hd).trans (shrink_requeue c' e)) hrw) h2
    exact h3.subF _ (fun x hx => by
      rcases List.mem_append.1 hx with hx | hx
      · exact List.mem_append_left _ hx
      · exact List.mem_append_right _ (List.mem_append_right _ hx))
  case case7 => intro fl _ h; exact closeConn_tinv _ _ _ h
  case case9 fuel c sp r =>
    intro fl _ h; exact h.plain (.notify false c.now) rfl
  case case12 fuel c sp => intro fl _ h; exact h.plain (.apiCloseDone c.now) rfl
  all_goals first | (intro fl _ h; exact h) | (rename_i ih; exact ih)

/-! ### the task table -/

/-- the invariant of a whole state -/
def SInv (s : Sys) : Prop := TInv s.core.trace s.core.queue (flOf s.tasks)

theorem flOf_upd_sub {s : Sys} {t : Nat} {out : Out} {k0 : Task} (hk : s.tasks[t]? = some k0)
    (hsp : ∀ p ∈ out.spawned, hold p = []) :
    ∀ x ∈ flOf (upd s t out).tasks, x ∈ hold out.pc ++ flOf s.tasks := by
  intro x hx
  simp only [upd, flOf_append, flOf_spawn _ hsp, List.append_nil] at hx
  have hs := flOf_split (fun k => { k with pc := out.pc }) s.tasks t k0 hk
  have hx' := hs.2.subset hx
  rcases List.mem_append.1 hx' with hx' | hx'
  · exact List.mem_append_left _ hx'
  · exact List.mem_append_right _ (hs.1.symm.subset (List.mem_append_right _ hx'))

theorem upd_tinv {s : Sys} {t : Nat} {out : Out} {k0 : Task} (hk : s.tasks[t]? = some k0)
    (hsp : ∀ p ∈ out.spawned, hold p = [])
    (h : TInv out.core.trace out.core.queue (hold out.pc ++ flOf s.tasks)) : SInv (upd s t out) :=
  h.subF _ (flOf_upd_sub hk hsp)

theorem spawnApi_tinv {s : Sys} {out : Out} (hsp : ∀ p ∈ out.spawned, hold p = [])
    (h : TInv out.core.trace out.core.queue (hold out.pc ++ flOf s.tasks)) : SInv (spawnApi s out) := by
  refine h.subF _ ?_
  intro x hx
  simp only [spawnApi, flOf_append, flOf_spawn _ hsp, List.append_nil] at hx
  rcases List.mem_append.1 hx with hx | hx
  · exact List.mem_append_right _ hx
  · refine List.mem_append_left _ ?_
    simpa [flOf] using hx

theorem mem_flOf {s : Sys} {t : Nat} {k0 : Task} {w : Nat} {e : Entry} {r : Ret} (hk : s.tasks[t]? = some k0)
    (hpc : k0.pc = .drainAwait w e r) : e ∈ flOf s.tasks := by
  simp only [flOf, List.mem_flatMap]
  exact ⟨k0, List.mem_of_getElem? hk, by rw [hpc]; simp [hold]⟩

theorem execCase_tinv {s : Sys} {t : Nat} {k0 : Task} {pc : Pc} {c0 : Core} {kont : Kont}
    (hk : s.tasks[t]? = some k0) (hpc : k0.pc = pc) (hc : ExecCase s pc c0 kont) (h : SInv s) :
    TInv c0.trace c0.queue (flOf s.tasks) := by
  cases hc <;> first | exact h | exact requeue_tinv _ _ _ (mem_flOf hk hpc) h

/-! ### `is_open` and the sessions recorded in the trace -/

/-- while the socket is not open no message is "accepted in the running session": every `accept` of the trace is
    followed by an `apiClose` -/
def OInv (c : Core) : Prop := c.isOpen = false → ∀ sid, sessionOf c.trace sid ≠ .current

theorem OInv.ext {c c' : Core} (h : OInv c) (ho : c'.isOpen = false → c.isOpen = false) (evs : List Ev)
    (ht : c'.trace = c.trace ++ evs) (hna : ∀ ev ∈ evs, SockHeal.isAcc ev = false) : OInv c' := by
  intro hc sid
  rw [ht, sessionOf_append]
  exact sessFold_ne_current evs hna _ (h (ho hc) sid)

theorem OInv.of_open {c : Core} (h : c.isOpen = true) : OInv c := fun hc => by rw [h] at hc; cases hc

/-- after the `apiClose` event nothing is "accepted in the running session", whatever else (no `accept`) follows -/
theorem OInv.closed {c' : Core} (tr : List Ev) (t : Nat) (evs : List Ev) (ht : c'.trace = tr ++ [.apiClose t] ++ evs)
    (hna : ∀ ev ∈ evs, SockHeal.isAcc ev = false) : OInv c' := by
  intro _ sid
  rw [ht, sessionOf_append, sessionOf_append]
  exact sessFold_ne_current evs hna _ (sessStep_close_ne_current sid _ t)

theorem step_oinv {s s' : Sys} {l : Label} (h : OInv s.core) (hst : step s l = some s') : OInv s'.core := by
  have same : (∀ sid r life ok, l ≠ .apiSend sid r life ok) → (s'.core.isOpen = false → s.core.isOpen = false) →
      OInv s'.core := by
    intro hl ho
    obtain ⟨evs, ht, hna⟩ := SockHeal.step_ext_noacc hst hl
    exact h.ext ho evs ht hna
  cases l with
  | advance t =>
    refine same (by intros; simp) ?_
    simp only [step] at hst; split at hst <;> cases hst; exact id
  | envLost cid =>
    refine same (by intros; simp) ?_
    simp only [step] at hst; split at hst <;> cases hst; exact id
  | envLostRan cid =>
    refine same (by intros; simp) ?_
    simp only [step] at hst; split at hst <;> cases hst; exact id
  | envPause cid b =>
    refine same (by intros; simp) ?_
    simp only [step] at hst; split at hst <;> cases hst; exact id
  | envFailWrites cid b =>
    refine same (by intros; simp) ?_
    simp only [step] at hst; split at hst <;> cases hst; exact id
  | apiReset =>
    refine same (by intros; simp) ?_
    simp only [step] at hst; cases hst
    have := (exec_frame FUEL (s.core.emit (.apiReset s.core.now)) [] (.disconnect (.resetTail .done))).isOpen
    intro hc; exact (this.symm.trans hc)
  | run t a =>
    refine same (by intros; simp) ?_
    rw [(SockHeal.run_isOpen hst).1]; exact id
  | apiOpen =>
    simp only [step] at hst
    split at hst
    · rename_i ho; cases hst; exact OInv.of_open ho
    · cases hst; exact OInv.of_open rfl
  | apiClose =>
    simp only [step] at hst
    split at hst
    · cases hst
      exact OInv.closed s.core.trace s.core.now [.apiCloseDone s.core.now] rfl
        (fun ev hev => by rw [List.mem_singleton.1 hev]; rfl)
    · split at hst
      · cases hst
        exact OInv.closed s.core.trace s.core.now [] (by simp [spawnApi, Core.emit]) (fun ev hev => by cases hev)
      · cases hst
        obtain ⟨evs, ht, hna⟩ := SockHeal.exec_ext_noacc { s.core.emit (.apiClose s.core.now) with isOpen := false }
          (.disconnect .closeTail)
        exact OInv.closed s.core.trace s.core.now evs ht hna
  | apiSend sid retries life encOk =>
    simp only [step] at hst
    split at hst
    · cases hst
      exact h.ext id [.reject sid s.core.now .notOpen] rfl (fun ev hev => by rw [List.mem_singleton.1 hev]; rfl)
    · rename_i ho
      have ho' : s.core.isOpen = true := by simpa using ho
      split at hst
      · cases hst; exact OInv.of_open ho'
      · cases hst
        refine OInv.of_open ?_
        exact (exec_frame FUEL _ [] (.drain .done)).isOpen.trans ho'

theorem oinv_reachable {s : Sys} (h : Reachable s) : OInv s.core :=
  Reachable.induction (P := fun s => OInv s.core) (fun _ sid => by simp [init, sessionOf]) (fun _ _ _ _ hp hst => step_oinv hp hst) s h

/-- one step of the model; a `send` must carry an identity that was not accepted before -/
theorem step_tinv {s s' : Sys} {l : Label} (h : SInv s) (hrw : rwValid s.core) (hoi : OInv s.core)
    (hfresh : ∀ sid r life ok, l = .apiSend sid r life ok → acceptedAt s.core.trace sid = none)
    (hst : step s l = some s') : SInv s' := by
  cases l with
  | advance t => simp only [step] at hst; split at hst <;> cases hst; exact h
  | envLost cid =>
    simp only [step] at hst; split at hst <;> cases hst
    exact h.plain (.lost cid s.core.now) rfl
  | envLostRan cid => simp only [step] at hst; split at hst <;> cases hst; exact h
  | envPause cid b => simp only [step] at hst; split at hst <;> cases hst; exact h
  | envFailWrites cid b => simp only [step] at hst; split at hst <;> cases hst; exact h
  | apiOpen =>
    simp only [step] at hst
    have h0 : TInv (s.core.trace ++ [.apiOpen s.core.now]) s.core.queue (flOf s.tasks) := h.plain _ rfl
    split at hst
    · cases hst; exact spawnApi_tinv (by simp) h0
    · rename_i hc
      have hclosed : s.core.isOpen = false := by simpa [Core.emit] using hc
      cases hst
      -- `self._message_queue.clear()`: every message accepted so far was accepted before the `apiClose` that made
      -- `is_open` false (`OInv`); with this `apiOpen` its session has ended and a new one begun
      refine spawnApi_tinv ?_ (h0.clear ?_)
      · intro p hp; simp only [List.mem_singleton] at hp; subst hp; rfl
      · intro sid t e r ok hmem
        have hmem' : Ev.accept sid t e r ok ∈ s.core.trace := by
          rcases List.mem_append.1 hmem with hm | hm
          · exact hm
          · cases List.mem_singleton.1 hm
        exact reopenedSince_open _ (sessionOf_of_mem hmem') (hoi hclosed sid)
  | apiClose =>
    simp only [step] at hst
    have h0 : TInv (s.core.trace ++ [.apiClose s.core.now]) s.core.queue (flOf s.tasks) := h.plain _ rfl
    split at hst
    · cases hst
      exact spawnApi_tinv (by simp) (h0.plain (.apiCloseDone s.core.now) rfl)
    · have h1 : TInv (s.core.trace ++ [.apiClose s.core.now]) s.core.queue (flOf (s.tasks.map cancelTask)) :=
        h0.subF _ (flOf_cancel s.tasks).subset
      split at hst
      · cases hst
        exact spawnApi_tinv (s := { core := _, tasks := s.tasks.map cancelTask }) (by simp) h1
      · cases hst
        have hrw' : rwValid { s.core.emit (.apiClose s.core.now) with isOpen := false } := hrw
        have he := exec_tinv FUEL { s.core.emit (.apiClose s.core.now) with isOpen := false } []
          (.disconnect .closeTail) _ hrw' h1
        exact spawnApi_tinv (s := { core := _, tasks := s.tasks.map cancelTask }) (exec_abs' [] _ _ []).2 he
  | apiReset =>
    simp only [step] at hst
    cases hst
    have h0 : TInv (s.core.trace ++ [.apiReset s.core.now]) s.core.queue (flOf s.tasks) := h.plain _ rfl
    have hrw' : rwValid (s.core.emit (.apiReset s.core.now)) := hrw
    exact spawnApi_tinv (exec_abs' [] _ _ []).2 (exec_tinv FUEL _ [] _ _ hrw' h0)
  | apiSend sid retries life encOk =>
    have hnone := hfresh sid retries life encOk rfl
    simp only [step] at hst
    split at hst
    · cases hst
      exact spawnApi_tinv (by simp) (h.plain (.reject sid s.core.now .notOpen) rfl)
    · have hp := TInv.purge h s.core.now
      split at hst
      · cases hst
        exact spawnApi_tinv (by simp) (hp.plain (.reject sid s.core.now .overflow) rfl)
      · cases hst
        have hnone' : acceptedAt (s.core.trace ++ purgeEvents s.core.now s.core.queue) sid = none := by
          rw [acceptedAt_ext _ _ _ ?_]; exact hnone
          intro ev hev
          simp only [purgeEvents, List.mem_map] at hev
          obtain ⟨e, _, rfl⟩ := hev; rfl
        have ha := hp.accept sid s.core.now life retries encOk hnone'
        refine spawnApi_tinv (exec_abs' [] _ _ []).2 (exec_tinv FUEL _ [] _ _ ?_ ha)
        exact hrw
  | run t a =>
    cases step_run_cases hst with
    | exec k0 pc c0 kont hk0 hpc hc =>
      have h0 := execCase_tinv hk0 hpc hc h
      exact upd_tinv hk0 (exec_abs' [] _ _ []).2 (exec_tinv FUEL c0 [] kont _ (rwValid_shrink hc.shrink hrw) h0)
    | connect k0 hk0 hpc =>
      refine upd_tinv hk0 (connectBlock_abs [] s.core []).2 ?_
      unfold connectBlock
      split
      · exact h
      · exact h.plain (.attempt s.core.now) rfl
    | openOk k0 hk0 hpc =>
      exact upd_tinv hk0 (by simp)
        ((h.plain (.opened s.core.conns.length s.core.now) rfl).plain (.notify true s.core.now) rfl)
    | openRefused k0 hk0 hpc =>
      refine upd_tinv hk0 ?_ (h.plain (.refused s.core.now) rfl)
      intro p hp
      split at hp
      · simp only [List.mem_singleton] at hp; subst hp; rfl
      · simp at hp
    | cancelled k0 hk0 hpc => exact upd_tinv hk0 (by simp) h
    | readMsg k0 c tag hk0 hpc =>
      exact upd_tinv hk0 (by simp) (h.plain (.deliver (s.core.rw.getD 0) tag s.core.now) rfl)
    | readEof k0 c hk0 hpc => exact upd_tinv hk0 (by simp) h

theorem sinv_init : SInv init := by
  constructor <;> simp [init, flOf, healTime]

/-- the invariant holds after every history whose sends carry pairwise distinct identities -/
theorem tinv_reachableWF {s : Sys} (h : ReachableWF s) : SInv s := by
  obtain ⟨ls, hn, hr⟩ := h
  refine run_induction (P := fun ls s => (sendSids ls).Nodup → SInv s) (fun _ => sinv_init) ?_ ls s hr hn
  intro ls s l s' hrun hp hst hnd
  rw [sendSids_append] at hnd
  have hnd0 : (sendSids ls).Nodup := (List.nodup_append.1 hnd).1
  have hinv : AInv (abs (sendSids ls) s) := (run_abs ls s hrun).inv (fun _ => AInv.init) hnd0
  refine step_tinv (hp hnd0) (hinv1_reachable ⟨ls, hrun⟩).rwv (oinv_reachable ⟨ls, hrun⟩) ?_ hst
  intro sid r life ok hl
  subst hl
  cases hx : acceptedAt s.core.trace sid with
  | none => rfl
  | some x =>
    exfalso
    have hu : sid ∈ sendSids ls := hinv.accUsed sid x hx
    have := (List.nodup_append.1 hnd).2.2 sid hu sid (by simp [sendSids])
    exact this rfl

/-! ### the theorems -/

theorem dropsJustified_of_dropOk {tr : List Ev} (h : ∀ ev ∈ tr, DropOk tr ev) : dropsJustified tr = true := by
  simp only [dropsJustified, List.all_eq_true]
  intro ev hev
  have hd := h ev hev
  cases ev <;> try rfl
  rename_i s t why
  obtain ⟨t0, e, r, ok, h1, h2⟩ := hd
  simp only [h1]
  cases why <;> simpa [Why] using h2

/-- every `qdrop` of the model states a true reason -/
theorem C01_drops_justified {s : Sys} (h : ReachableWF s) : dropsJustified s.core.trace = true :=
  dropsJustified_of_dropOk (tinv_reachableWF h).drops

/-- the strong form of the accounting invariant: an accepted message is still queued, or the trace contains a
    write attempt or a drop for it (an entry held in flight by a task suspended in `drain()` already has its
    write attempt in the trace), **or the socket was closed and opened again after its acceptance**.

    Statement changed with /repo 3897b77 (`open_socket()` on a closed socket clears the queue, logging nothing): the fourth
    alternative `reopenedSince` is new; without it the statement is false (`reopen_discards_silently`).  For messages of
    the current session the old statement is `C01_accounted_current_session`. -/
theorem C01_accounted_strong {s : Sys} (h : ReachableWF s) {sid t e r : Nat} {ok : Bool}
    (hmem : Ev.accept sid t e r ok ∈ s.core.trace) :
    (∃ x ∈ s.core.queue, x.sid = sid) ∨ 1 ≤ writeAttempts s.core.trace sid ∨ dropped s.core.trace sid = true ∨
      reopenedSince s.core.trace sid = true :=
  (tinv_reachableWF h).acct sid t e r ok hmem

/-- the accounting statement as it was before /repo 3897b77, for the messages it is still true of: those accepted in the
    session that is running, or in the last one if the socket has not been opened again
    (`reopenedSince s.core.trace sid = false`) -/
theorem C01_accounted_current_session {s : Sys} (h : ReachableWF s) {sid t e r : Nat} {ok : Bool}
    (hmem : Ev.accept sid t e r ok ∈ s.core.trace) (hcur : reopenedSince s.core.trace sid = false) :
    (∃ x ∈ s.core.queue, x.sid = sid) ∨ 1 ≤ writeAttempts s.core.trace sid ∨ dropped s.core.trace sid = true := by
  rcases C01_accounted_strong h hmem with h1 | h1 | h1 | h1
  · exact .inl h1
  · exact .inr (.inl h1)
  · exact .inr (.inr h1)
  · rw [hcur] at h1; cases h1

/-- … in particular in every history without `close()` -/
theorem C01_accounted_no_close {s : Sys} (h : ReachableWF s) {sid t e r : Nat} {ok : Bool}
    (hmem : Ev.accept sid t e r ok ∈ s.core.trace) (hnc : hasClose s.core.trace = false) :
    (∃ x ∈ s.core.queue, x.sid = sid) ∨ 1 ≤ writeAttempts s.core.trace sid ∨ dropped s.core.trace sid = true :=
  C01_accounted_current_session h hmem (reopenedSince_of_noClose hnc sid)

/-- **The history in which the unrestricted statement fails since /repo 3897b77.**  `open_socket()`; `send(1)` is accepted
    while the link is down (queued, nothing written); `close()` runs to completion - the entry stays queued; `open_socket()`
    again: the queue is empty, the trace has no write attempt and no drop for message 1, no task holds it, and the only
    events after its `accept` are `apiClose`, `notify false`, `apiCloseDone`, `apiOpen`.  Nothing in the trace says the
    message was discarded - except that it was accepted before a `close()` / `open_socket()` pair (`reopenedSince`). -/
theorem reopen_discards_silently : ∃ s, ReachableWF s ∧ Ev.accept 1 0 240 2 true ∈ s.core.trace ∧
    s.core.queue = [] ∧ writeAttempts s.core.trace 1 = 0 ∧ dropped s.core.trace 1 = false ∧
    (∀ k ∈ s.tasks, k.pc = .finished ∨ k.pc = .connStart) ∧
    s.core.trace = [.apiOpen 0, .accept 1 0 240 2 true, .apiClose 0, .notify false 0, .apiCloseDone 0, .apiOpen 0] ∧
    reopenedSince s.core.trace 1 = true ∧
    ¬ ((∃ x ∈ s.core.queue, x.sid = 1) ∨ 1 ≤ writeAttempts s.core.trace 1 ∨ dropped s.core.trace 1 = true) :=
  ⟨_, ⟨[.apiOpen, .apiSend 1 2 240 true, .apiClose, .run 3 .go, .run 3 .go, .apiOpen], by decide, rfl⟩,
    by decide, by decide, by decide, by decide, by decide, by decide, by decide, by decide⟩

/-- the state before that re-open: the socket is closed (`close()` has returned) and message 1 is still queued -/
example : ∃ s, ReachableWF s ∧ s.core.isOpen = false ∧ s.core.queue.map (·.sid) = [1] ∧
    (∃ x ∈ s.core.queue, x.sid = 1) :=
  ⟨_, ⟨[.apiOpen, .apiSend 1 2 240 true, .apiClose, .run 3 .go, .run 3 .go], by decide, rfl⟩, by decide, by decide,
    by decide⟩

/-- `open_socket()` on a socket that is already open discards nothing and is not counted as a re-open -/
example : ∃ s, ReachableWF s ∧ s.core.queue.map (·.sid) = [1] ∧ reopenedSince s.core.trace 1 = false ∧
    s.core.trace = [.apiOpen 0, .accept 1 0 240 2 true, .apiOpen 0] :=
  ⟨_, ⟨[.apiOpen, .apiSend 1 2 240 true, .apiOpen], by decide, rfl⟩, by decide, by decide, by decide⟩

/-- an entry held in flight by a task suspended in `drain()` has a write attempt in the trace -/
theorem C01_in_flight_attempted {s : Sys} (h : ReachableWF s) {k : Task} (hk : k ∈ s.tasks) {w : Nat} {x : Entry}
    {r : Ret} (hpc : k.pc = .drainAwait w x r) : 1 ≤ writeAttempts s.core.trace x.sid := by
  refine ((tinv_reachableWF h).flying x ?_).2
  simp only [flOf, List.mem_flatMap]
  exact ⟨k, hk, by rw [hpc]; simp [hold]⟩

/-- the accounting invariant: an accepted message is still queued, or in flight in some task, or the trace
    contains a write attempt or a drop for it, or (new with /repo 3897b77, see `C01_accounted_strong`) the socket was
    closed and opened again after its acceptance -/
theorem C01_accounted {s : Sys} (h : ReachableWF s) {sid t e r : Nat} {ok : Bool}
    (hmem : Ev.accept sid t e r ok ∈ s.core.trace) :
    (∃ x ∈ s.core.queue, x.sid = sid) ∨
    (∃ k ∈ s.tasks, ∃ w x r', k.pc = .drainAwait w x r' ∧ x.sid = sid) ∨
    1 ≤ writeAttempts s.core.trace sid ∨ dropped s.core.trace sid = true ∨ reopenedSince s.core.trace sid = true := by
  rcases C01_accounted_strong h hmem with h1 | h1
  · exact .inl h1
  · exact .inr (.inr h1)

/-- no task is suspended in `drain()` -/
def noDrainAwait (s : Sys) : Prop := ∀ k ∈ s.tasks, ∀ w x r, k.pc ≠ .drainAwait w x r

/-- quiescent states: with an empty queue every accepted message has a write attempt or a drop in the trace - or was
    accepted before the socket was closed and opened again (new with /repo 3897b77: the re-open is one of the ways a queue
    becomes empty) - and every drop in the trace is justified.  (`noDrainAwait s` is not needed, see `C01_accounted_strong`;
    it is kept in `C01_no_silent_loss_quiescent'` for the statement as asked.) -/
theorem C01_no_silent_loss_quiescent {s : Sys} (h : ReachableWF s) (hq : s.core.queue = []) :
    dropsJustified s.core.trace = true ∧
    ∀ sid t e r ok, Ev.accept sid t e r ok ∈ s.core.trace →
      1 ≤ writeAttempts s.core.trace sid ∨ dropped s.core.trace sid = true ∨ reopenedSince s.core.trace sid = true := by
  refine ⟨C01_drops_justified h, ?_⟩
  intro sid t e r ok hmem
  rcases C01_accounted_strong h hmem with ⟨x, hx, _⟩ | h1
  · rw [hq] at hx; cases hx
  · exact h1

theorem C01_no_silent_loss_quiescent' {s : Sys} (h : ReachableWF s) (hq : s.core.queue = []) (_ : noDrainAwait s) :
    dropsJustified s.core.trace = true ∧
    ∀ sid t e r ok, Ev.accept sid t e r ok ∈ s.core.trace →
      1 ≤ writeAttempts s.core.trace sid ∨ dropped s.core.trace sid = true ∨ reopenedSince s.core.trace sid = true :=
  C01_no_silent_loss_quiescent h hq

/-- the statement as it was before /repo 3897b77, for histories without `close()` (the histories the Spec monitor
    `noSilentLoss` judges) -/
theorem C01_no_silent_loss_quiescent_no_close {s : Sys} (h : ReachableWF s) (hq : s.core.queue = [])
    (hnc : hasClose s.core.trace = false) :
    dropsJustified s.core.trace = true ∧
    ∀ sid t e r ok, Ev.accept sid t e r ok ∈ s.core.trace →
      1 ≤ writeAttempts s.core.trace sid ∨ dropped s.core.trace sid = true := by
  obtain ⟨h1, h2⟩ := C01_no_silent_loss_quiescent h hq
  refine ⟨h1, fun sid t e r ok hmem => ?_⟩
  rcases h2 sid t e r ok hmem with h3 | h3 | h3
  · exact .inl h3
  · exact .inr h3
  · rw [reopenedSince_of_noClose hnc sid] at h3; cases h3

theorem healed_noDrainAwait {s : Sys} (h : Healed s) : noDrainAwait s := by
  obtain ⟨w, _, _, _, hall⟩ := h.conn
  intro k hk w' x r hpc
  rcases hall k hk with h1 | h1 <;> rw [hpc] at h1 <;> cases h1

theorem C01_no_silent_loss_healed {s : Sys} (h : ReachableWF s) (hh : Healed s) :
    dropsJustified s.core.trace = true ∧
    ∀ sid t e r ok, Ev.accept sid t e r ok ∈ s.core.trace →
      1 ≤ writeAttempts s.core.trace sid ∨ dropped s.core.trace sid = true ∨ reopenedSince s.core.trace sid = true :=
  C01_no_silent_loss_quiescent h hh.queue

/-! ### the monitor `noSilentLoss` on the model's trace with the harness marker `heal` inserted -/

theorem acceptedAt_insert_heal (pre post : List Ev) (th s : Nat) :
    acceptedAt (pre ++ Ev.heal th :: post) s = acceptedAt (pre ++ post) s := by
  simp [acceptedAt, List.findSome?_append]

theorem writeAttempts_insert_heal (pre post : List Ev) (th s : Nat) :
    writeAttempts (pre ++ Ev.heal th :: post) s = writeAttempts (pre ++ post) s := by
  simp [writeAttempts, List.countP_append]

theorem dropped_insert_heal (pre post : List Ev) (th s : Nat) :
    dropped (pre ++ Ev.heal th :: post) s = dropped (pre ++ post) s := by
  simp [dropped, List.any_append, List.any_cons]

theorem mem_insert_heal {pre post : List Ev} {th : Nat} {ev : Ev} (h : ev ∈ pre ++ Ev.heal th :: post) :
    ev = .heal th ∨ ev ∈ pre ++ post := by
  simp only [List.mem_append, List.mem_cons] at h ⊢
  rcases h with h | h | h
  · exact .inr (.inl h)
  · exact .inl h
  · exact .inr (.inr h)

theorem dropsJustified_insert_heal (pre post : List Ev) (th : Nat) (h : dropsJustified (pre ++ post) = true) :
    dropsJustified (pre ++ Ev.heal th :: post) = true := by
  simp only [dropsJustified, List.all_eq_true] at h ⊢
  intro ev hev
  rcases mem_insert_heal hev with rfl | hev
  · rfl
  · have := h ev hev
    cases ev <;> try rfl
    simpa only [acceptedAt_insert_heal, writeAttempts_insert_heal] using this

/-- the monitor `noSilentLoss` accepts the trace of every reachable state with an empty queue, wherever the harness
    marker `heal th` is inserted in it (the model itself never emits `heal`) -/
theorem C01_noSilentLoss_quiescent {s : Sys} (h : ReachableWF s) (hq : s.core.queue = []) (pre post : List Ev)
    (th : Nat) (htr : s.core.trace = pre ++ post) : noSilentLoss (pre ++ Ev.heal th :: post) = true := by
  have h1 := C01_drops_justified h
  rw [htr] at h1
  simp only [noSilentLoss, Bool.and_eq_true]
  refine ⟨dropsJustified_insert_heal _ _ _ h1, ?_⟩
  split
  · rfl
  · simp only [Bool.or_eq_true, List.all_eq_true]
    -- the monitor does not judge histories in which the client was closed
    cases hc : hasClose (pre ++ Ev.heal th :: post) with
    | true => exact .inl rfl
    | false =>
      right
      have hnc : hasClose s.core.trace = false := by
        rw [htr]
        simp only [hasClose, List.any_append, List.any_cons, Bool.or_eq_false_iff] at hc ⊢
        exact ⟨hc.1, hc.2.2⟩
      obtain ⟨_, h2⟩ := C01_no_silent_loss_quiescent_no_close h hq hnc
      rw [htr] at h2
      intro ev hev
      rcases mem_insert_heal hev with rfl | hev
      · rfl
      · cases ev with
        | accept sid t e r ok =>
          simp only [Bool.or_eq_true, decide_eq_true_eq, writeAttempts_insert_heal, dropped_insert_heal]
          rcases h2 sid t e r ok hev with h3 | h3
          · exact .inl (.inr h3)
          · exact .inr h3
        | _ => rfl

/-- the model never emits the harness marker, so on its own trace the monitor reduces to `dropsJustified` -/
theorem C01_noSilentLoss_unmarked {s : Sys} (h : ReachableWF s) : noSilentLoss s.core.trace = true := by
  simp [noSilentLoss, C01_drops_justified h, (tinv_reachableWF h).noHeal]

end PyAirtouch.Lemmas.SockLoss
