import PyAirtouch.Lemmas.Api5Frame
/-!
# The handshake of the AirTouch 5 API model: states in order, requests, answers, monotonicity under frames
-/
namespace PyAirtouch.Lemmas.Api5
open PyAirtouch.Model PyAirtouch.Model.Api5 PyAirtouch.Model.At5 PyAirtouch.Model.At5.Registry
open PyAirtouch.Model.TimerCommon (AcTimerState AcTimerStatusData)
open PyAirtouch.Model.Heartbeat
open PyAirtouch.Gen PyAirtouch.Gen.Api5

/-- position in the state machine -/
def rank : AirTouchState → Nat
  | .CLOSED => 0 | .CONNECTING => 1 | .INIT_VERSION => 2 | .INIT_ZONE_NAMES => 3 | .INIT_AC_ABILITY => 4
  | .INIT_AC_STATUS => 5 | .INIT_AC_TIMER_STATUS => 6 | .INIT_ZONE_STATUS => 7 | .CONNECTED => 8

def nextState : AirTouchState → AirTouchState
  | .CLOSED => .CONNECTING | .CONNECTING => .INIT_VERSION | .INIT_VERSION => .INIT_ZONE_NAMES
  | .INIT_ZONE_NAMES => .INIT_AC_ABILITY | .INIT_AC_ABILITY => .INIT_AC_STATUS
  | .INIT_AC_STATUS => .INIT_AC_TIMER_STATUS | .INIT_AC_TIMER_STATUS => .INIT_ZONE_STATUS
  | .INIT_ZONE_STATUS => .CONNECTED | .CONNECTED => .CONNECTED

/-- the request sent on entering a handshake state (the one request outstanding while in it) -/
def requestFor : AirTouchState → Option Msg
  | .INIT_VERSION => some msgConsoleVersionRequest
  | .INIT_ZONE_NAMES => some msgZoneNamesRequestAll
  | .INIT_AC_ABILITY => some msgAcAbilityRequestAll
  | .INIT_AC_STATUS => some msgAcStatusRequest
  | .INIT_AC_TIMER_STATUS => some msgAcTimerStatusRequest
  | .INIT_ZONE_STATUS => some msgZoneStatusRequest
  | _ => none

/-- the frame `(toAddr, m)` is an answer to the request outstanding in state `st` -/
def answers (st : AirTouchState) (toAddr : Nat) (m : Msg) : Bool :=
  match st, m with
  | .INIT_VERSION, .extended (.consoleVer (.message _)) => true
  | .INIT_ZONE_NAMES, .extended (.zoneNames (.message _)) => true
  | .INIT_ZONE_NAMES, .extended (.zoneNames (.request _)) => toAddr == Gen.At5.Hdr.ADDRESS_CLIENT
  | .INIT_AC_ABILITY, .extended (.acAbility (.ability _)) => true
  | .INIT_AC_STATUS, .controlStatus (.acStatus (.status _)) => true
  | .INIT_AC_TIMER_STATUS, .controlStatus (.acTimerStatus (.status _)) => true
  | .INIT_AC_TIMER_STATUS, .controlStatus (.acTimerCtrl _) => true
  | .INIT_ZONE_STATUS, .controlStatus (.zoneStatus (.status _)) => true
  | .INIT_ZONE_STATUS, .controlStatus (.zoneStatus .request) => toAddr == Gen.At5.Hdr.ADDRESS_CLIENT
  | _, _ => false

/-- an AC-ability answer that the API can digest in state `s`: every zone it refers to is known (and the support
dicts are complete, as the decoder builds them) -/
def abilityOk (s : State) : Msg → Prop
  | .extended (.acAbility (.ability acs)) => (processAcAbility acs s).exc = none
  | _ => True

/-- what a frame can do to the control part of the state -/
structure Mono (s s' : State) : Prop where
  sockOpen : s'.sockOpen = s.sockOpen
  sockSubscribed : s'.sockSubscribed = s.sockSubscribed
  now : s'.now = s.now
  st : s'.st = s.st ∨ (s'.st = nextState s.st ∧ 2 ≤ rank s.st ∧ rank s.st ≤ 7)
  initialised : s.initialised = true → s'.initialised = true
  connected : s'.st = .CONNECTED → s.st ≠ .CONNECTED → s'.initialised = true
  -- nothing but the final step touches the event, the waiting `init()` calls or the heartbeat manager
  quiet : s'.st ≠ .CONNECTED ∨ s.st = .CONNECTED →
    s'.initialised = s.initialised ∧ s'.pendingInits = s.pendingInits ∧ (HbIdle s.hb → HbIdle s'.hb)

theorem mono_of_sameCtl {s s' : State} (h : SameCtl s s') : Mono s s' :=
  ⟨h.sockOpen, h.sockSubscribed, h.now, .inl h.st, fun hi => by rw [h.initialised]; exact hi,
   fun h1 h2 => absurd (h.st ▸ h1) h2, fun _ => ⟨h.initialised, h.pendingInits, fun hi => by rw [h.hb]; exact hi⟩⟩

/-- a step that moves to the next state (not into CONNECTED) and is otherwise control-neutral -/
theorem mono_advance {s s1 : State} (h : SameCtl s s1) (st' : AirTouchState) (cv : FF30.ConsoleVersionMessage)
    (hn : st' = nextState s.st) (h2 : 2 ≤ rank s.st) (h6 : rank s.st ≤ 6) :
    Mono s { s1 with st := st', consoleVersion := cv } := by
  refine ⟨h.sockOpen, h.sockSubscribed, h.now, .inr ⟨hn, h2, by omega⟩, fun hi => by simp only [h.initialised]; exact hi,
    ?_, fun _ => ⟨h.initialised, h.pendingInits, fun hi => by simp only [h.hb]; exact hi⟩⟩
  intro h1 _
  simp only at h1
  subst hn
  revert h6 h1
  cases s.st <;> simp [nextState, rank]

theorem finishInit_mono {s s1 : State} (h : SameCtl s s1) (hs : s.st = .INIT_ZONE_STATUS) : Mono s (finishInit s1).s := by
  simp only [finishInit, hbFeed, setInitialised]
  refine ⟨h.sockOpen, h.sockSubscribed, h.now, .inr ⟨by simp [hs, nextState], by simp [hs, rank], by simp [hs, rank]⟩,
    fun _ => rfl, fun _ _ => rfl, ?_⟩
  intro hq
  rcases hq with hq | hq
  · exact absurd rfl hq
  · simp [hs] at hq

theorem sendMsg_s (s : State) (p : Policy) (m : Msg) (b : Bool) : (sendMsg s p m b).s = s := by
  unfold sendMsg; split <;> rfl

theorem andThen_s (r : HR) (f : State → HR) :
    (r.andThen f).s = r.s ∨ (r.exc = none ∧ (r.andThen f).s = (f r.s).s) := by
  unfold HR.andThen
  split
  · exact .inl rfl
  · rename_i h; exact .inr ⟨h, rfl⟩

theorem handleMessage_mono (s : State) (toAddr : Nat) (m : Msg) : Mono s (handleMessage s toAddr m).s := by
  unfold handleMessage
  dsimp only
  split
  all_goals (repeat' split)
  all_goals (try simp only [sendMsg_s])
  all_goals first
    | exact mono_of_sameCtl (SameCtl.refl s)
    | exact mono_of_sameCtl (sameCtl_processAcStatus _ _)
    | exact mono_of_sameCtl (sameCtl_processAcTimer _ _)
    | exact mono_of_sameCtl (sameCtl_processZoneStatus _ _)
    | exact mono_of_sameCtl (sameCtl_processErrInfo _ _)
    | skip
  -- INIT_VERSION: console version stored, next request
  · rename_i v hst
    exact mono_advance (SameCtl.refl s) _ v (by simp [hst, nextState]) (by simp [hst, rank]) (by simp [hst, rank])
  -- CONNECTED: version update
  · unfold processConsoleVersionUpdate
    split
    · exact mono_of_sameCtl (SameCtl.refl s)
    · exact ⟨rfl, rfl, rfl, .inl rfl, fun h => h, fun h1 h2 => absurd h1 h2, fun _ => ⟨rfl, rfl, fun h => h⟩⟩
  -- INIT_ZONE_NAMES: names message
  · rename_i zn hst
    have := mono_advance (sameCtl_processZoneNames zn.zone_names s) .INIT_AC_ABILITY (processZoneNames zn.zone_names s).consoleVersion
      (by simp [hst, nextState]) (by simp [hst, rank]) (by simp [hst, rank])
    exact this
  -- INIT_ZONE_NAMES: request echo addressed to the client
  · rename_i hc
    have hst : s.st = .INIT_ZONE_NAMES := by simp at hc; exact hc.2
    exact mono_advance (SameCtl.refl s) .INIT_AC_ABILITY s.consoleVersion (by simp [hst, nextState]) (by simp [hst, rank]) (by simp [hst, rank])
  -- INIT_AC_ABILITY
  · rename_i acs hst
    rcases andThen_s (processAcAbility acs s) (fun s => sendMsg { s with st := .INIT_AC_STATUS } .connected msgAcStatusRequest) with h | ⟨_, h⟩
    · rw [h]; exact mono_of_sameCtl (sameCtl_processAcAbility _ _)
    · rw [h, sendMsg_s]
      exact mono_advance (sameCtl_processAcAbility acs s) .INIT_AC_STATUS (processAcAbility acs s).s.consoleVersion
        (by simp [hst, nextState]) (by simp [hst, rank]) (by simp [hst, rank])
  -- INIT_AC_STATUS
  · rename_i l hst
    rcases andThen_s (processAcStatus l s) (fun s => sendMsg { s with st := .INIT_AC_TIMER_STATUS } .connected msgAcTimerStatusRequest) with h | ⟨_, h⟩
    · rw [h]; exact mono_of_sameCtl (sameCtl_processAcStatus _ _)
    · rw [h, sendMsg_s]
      exact mono_advance (sameCtl_processAcStatus l s) .INIT_AC_TIMER_STATUS (processAcStatus l s).s.consoleVersion
        (by simp [hst, nextState]) (by simp [hst, rank]) (by simp [hst, rank])
  -- INIT_AC_TIMER_STATUS (status message)
  · rename_i l hst
    rcases andThen_s (processAcTimer l s) (fun s => sendMsg { s with st := .INIT_ZONE_STATUS } .connected msgZoneStatusRequest) with h | ⟨_, h⟩
    · rw [h]; exact mono_of_sameCtl (sameCtl_processAcTimer _ _)
    · rw [h, sendMsg_s]
      exact mono_advance (sameCtl_processAcTimer l s) .INIT_ZONE_STATUS (processAcTimer l s).s.consoleVersion
        (by simp [hst, nextState]) (by simp [hst, rank]) (by simp [hst, rank])
  -- INIT_AC_TIMER_STATUS (control message)
  · rename_i c hst
    rcases andThen_s (processAcTimer c.ac_timer_status s) (fun s => sendMsg { s with st := .INIT_ZONE_STATUS } .connected msgZoneStatusRequest) with h | ⟨_, h⟩
    · rw [h]; exact mono_of_sameCtl (sameCtl_processAcTimer _ _)
    · rw [h, sendMsg_s]
      exact mono_advance (sameCtl_processAcTimer c.ac_timer_status s) .INIT_ZONE_STATUS (processAcTimer c.ac_timer_status s).s.consoleVersion
        (by simp [hst, nextState]) (by simp [hst, rank]) (by simp [hst, rank])
  -- INIT_ZONE_STATUS (status message)
  · rename_i l hst
    rcases andThen_s (processZoneStatus l s) finishInit with h | ⟨_, h⟩
    · rw [h]; exact mono_of_sameCtl (sameCtl_processZoneStatus _ _)
    · rw [h]; exact finishInit_mono (sameCtl_processZoneStatus l s) hst
  -- INIT_ZONE_STATUS (request echo addressed to the client)
  · rename_i hc
    have hst : s.st = .INIT_ZONE_STATUS := by simp at hc; exact hc.2
    exact finishInit_mono (SameCtl.refl s) hst


/-! ### the frame op as a whole -/

theorem hbFeed_ctl (s : State) (i : HIn) : ∃ hb', (hbFeed s i).1 = { s with hb := hb' } := ⟨_, rfl⟩

theorem feed_resp_idle (h : HB) (t : Nat) (hi : HbIdle h) : HbIdle (feed 0 h (.resp t)) := by
  unfold feed
  simp only [HIn.time]
  rw [settle_idle _ _ _ _ _ hi]
  obtain ⟨n', hn⟩ := advance_idle h t hi
  rw [hn]
  have hi' : HbIdle { h with now := n' } := hi
  have h1 : apply! { h with now := n' } .response = { h with now := n' } := by
    simp [apply!, step, hi.1]
  rw [h1]
  have h2 : apply! { h with now := n' } .tlWake = { h with now := n' } := by
    simp [apply!, step, hi.1]
  rw [h2]
  exact hi'

theorem feed_conn_idle (h : HB) (up : Bool) (t : Nat) (hi : HbIdle h) : HbIdle (feed 0 h (.conn up t)) := by
  unfold feed
  simp only [HIn.time]
  rw [settle_idle _ _ _ _ _ hi]
  obtain ⟨n', hn⟩ := advance_idle h t hi
  rw [hn]
  simp only [apply!, step, HB.emit, Option.getD_some]
  exact hi

theorem hbFeed_idle (s : State) (i : HIn) (hi : HbIdle s.hb) (h : (∃ t, i = .resp t) ∨ (∃ up t, i = .conn up t) ∨ (∃ t, i = .finish t)) :
    HbIdle (hbFeed s i).1.hb := by
  have hi' : HbIdle { s.hb with trace := [], expiries := [] } := hi
  rcases h with ⟨t, rfl⟩ | ⟨up, t, rfl⟩ | ⟨t, rfl⟩
  · exact feed_resp_idle _ t hi'
  · exact feed_conn_idle _ up t hi'
  · exact (hbFeed_finish_idle s t hi).2.1

theorem doMsg_mono (s : State) (toAddr : Nat) (m : Msg) : Mono s (doMsg s toAddr m).1 := by
  unfold doMsg
  split
  · have h := handleMessage_mono s toAddr m
    split
    · simp only [hbFeed]
      refine ⟨h.sockOpen, h.sockSubscribed, h.now, h.st, h.initialised, h.connected, ?_⟩
      intro hq
      obtain ⟨q1, q2, q3⟩ := h.quiet hq
      exact ⟨q1, q2, fun hi => feed_resp_idle _ _ (q3 hi)⟩
    · exact h
  · exact mono_of_sameCtl (SameCtl.refl s)

/-- the API is open, subscribed to the socket, and somewhere between INIT_VERSION and CONNECTED -/
structure Handshaking (s : State) : Prop where
  sockOpen : s.sockOpen = true
  sockSubscribed : s.sockSubscribed = true
  rank : 2 ≤ rank s.st

theorem rank_nextState (st : AirTouchState) (h : rank st ≤ 7) : rank (nextState st) = rank st + 1 := by
  cases st <;> simp [rank, nextState] at h ⊢

theorem mono_handshaking {s s' : State} (h : Mono s s') (hs : Handshaking s) :
    Handshaking s' ∧ rank s.st ≤ rank s'.st := by
  have hr : rank s.st ≤ rank s'.st := by
    rcases h.st with h1 | ⟨h1, _, h3⟩
    · rw [h1]; exact Nat.le_refl _
    · rw [h1, rank_nextState _ h3]; omega
  exact ⟨⟨h.sockOpen ▸ hs.sockOpen, h.sockSubscribed ▸ hs.sockSubscribed, Nat.le_trans hs.rank hr⟩, hr⟩

/-- an answer to the outstanding request moves the state machine on -/
theorem answer_advances (s : State) (toAddr : Nat) (m : Msg) (hs : Handshaking s)
    (ha : answers s.st toAddr m = true) (hok : abilityOk s m) :
    (doMsg s toAddr m).1.st = nextState s.st := by
  have hsub := hs.sockSubscribed
  have hopen := hs.sockOpen
  unfold answers at ha
  split at ha
  all_goals (rename_i hst)
  all_goals (try (cases ha))
  · simp [doMsg, hsub, handleMessage, hst, sendMsg_s, hbFeed, nextState]
    split <;> rfl
  · simp [doMsg, hsub, handleMessage, hst, sendMsg_s, isHeartbeatResponse, ExtSub.messageId, nextState,
      Gen.At5.X1FFF13ZoneNames.MESSAGE_ID, Gen.At5.X1FFF30ConsoleVer.MESSAGE_ID]
  · simp [doMsg, hsub, handleMessage, hst, ha, sendMsg_s, isHeartbeatResponse, ExtSub.messageId, nextState,
      Gen.At5.X1FFF13ZoneNames.MESSAGE_ID, Gen.At5.X1FFF30ConsoleVer.MESSAGE_ID]
  · simp only [abilityOk] at hok
    simp [doMsg, hsub, handleMessage, hst, sendMsg_s, isHeartbeatResponse, ExtSub.messageId, nextState,
      Gen.At5.X1FFF11AcAbility.MESSAGE_ID, Gen.At5.X1FFF30ConsoleVer.MESSAGE_ID, HR.andThen, hok]
  · rename_i l
    simp [doMsg, hsub, handleMessage, hst, sendMsg_s, isHeartbeatResponse, nextState, HR.andThen,
      (processAcStatus_eq l s hopen).1]
  · rename_i l
    simp [doMsg, hsub, handleMessage, hst, sendMsg_s, isHeartbeatResponse, nextState, HR.andThen, processAcTimer_eq l s]
  · rename_i c
    simp [doMsg, hsub, handleMessage, hst, sendMsg_s, isHeartbeatResponse, nextState, HR.andThen,
      processAcTimer_eq c.ac_timer_status s]
  · rename_i l
    simp [doMsg, hsub, handleMessage, hst, isHeartbeatResponse, nextState, HR.andThen, processZoneStatus_eq l s,
      finishInit, hbFeed, setInitialised]
  · simp [doMsg, hsub, handleMessage, hst, ha, isHeartbeatResponse, nextState, finishInit, hbFeed, setInitialised]


theorem processErrInfo_quiet (e : FF10.AcErrorInformationMessage) (s : State) :
    (processErrInfo e s).exc = none ∧ ∀ o ∈ (processErrInfo e s).out, o.isNotify = true := by
  unfold processErrInfo
  split
  · unfold updateAcErrInfo
    repeat' split
    all_goals first
      | exact ⟨rfl, acNotifyAll_isNotify _⟩
      | exact ⟨rfl, by simp⟩
  · exact ⟨rfl, by simp⟩

/-- a frame that does not answer the outstanding request (handshake not yet complete): control state untouched, nothing
sent; at most an error-information update with its notifications -/
theorem handleMessage_not_answer (s : State) (toAddr : Nat) (m : Msg) (h : answers s.st toAddr m = false)
    (hne : s.st ≠ .CONNECTED) :
    SameCtl s (handleMessage s toAddr m).s ∧ (handleMessage s toAddr m).exc = none ∧
      ∀ o ∈ (handleMessage s toAddr m).out, o.isNotify = true := by
  unfold handleMessage
  dsimp only
  split
  all_goals (repeat' split)
  all_goals (try (simp_all [answers]; done))
  all_goals first
    | exact ⟨SameCtl.refl s, rfl, by simp⟩
    | exact ⟨sameCtl_processErrInfo _ _, (processErrInfo_quiet _ _).1, (processErrInfo_quiet _ _).2⟩

theorem feed_resp_idle_eq (h : HB) (t : Nat) (hi : HbIdle h) : ∃ n', feed 0 h (.resp t) = { h with now := n' } := by
  unfold feed
  simp only [HIn.time]
  rw [settle_idle _ _ _ _ _ hi]
  obtain ⟨n', hn⟩ := advance_idle h t hi
  rw [hn]
  have h1 : apply! { h with now := n' } .response = { h with now := n' } := by
    simp [apply!, step, hi.1]
  rw [h1]
  have h2 : apply! { h with now := n' } .tlWake = { h with now := n' } := by
    simp [apply!, step, hi.1]
  rw [h2]
  exact ⟨n', rfl⟩

theorem hbFeed_resp_idle_out (s : State) (t : Nat) (hi : HbIdle s.hb) : (hbFeed s (.resp t)).2 = [] := by
  have hi' : HbIdle { s.hb with trace := [], expiries := [] } := hi
  obtain ⟨n', hn⟩ := feed_resp_idle_eq _ t hi'
  simp only [hbFeed, hn]
  rfl

theorem feed_conn_idle_eq (h : HB) (up : Bool) (t : Nat) (hi : HbIdle h) :
    HbIdle (feed 0 h (.conn up t)) ∧ (feed 0 h (.conn up t)).trace.filterMap hbOut = h.trace.filterMap hbOut := by
  unfold feed
  simp only [HIn.time]
  rw [settle_idle _ _ _ _ _ hi]
  obtain ⟨n', hn⟩ := advance_idle h t hi
  rw [hn]
  simp only [apply!, step, HB.emit, Option.getD_some]
  exact ⟨hi, by simp [hbOut]⟩

theorem hbFeed_conn_idle_out (s : State) (up : Bool) (t : Nat) (hi : HbIdle s.hb) : (hbFeed s (.conn up t)).2 = [] := by
  have hi' : HbIdle { s.hb with trace := [], expiries := [] } := hi
  have := (feed_conn_idle_eq _ up t hi').2
  simp only [hbFeed, this]
  rfl

end PyAirtouch.Lemmas.Api5
