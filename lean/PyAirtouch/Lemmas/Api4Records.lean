import PyAirtouch.Lemmas.Api4Basic
/-!
# Record updates of the AirTouch 4 API model: what `update_*` and the `_process_*` loops store
-/
set_option linter.unusedSimpArgs false
set_option linter.unusedVariables false
namespace PyAirtouch.Lemmas.Api4
open PyAirtouch.Model PyAirtouch.Model.Api4 PyAirtouch.Model.At4
open PyAirtouch.Model.TimerCommon (AcTimerState AcTimerStatusData)

/-- the last element of `l` whose key is `k` -/
def lastFor {α} (key : α → Nat) (k : Nat) : List α → Option α
  | [] => none
  | r :: rs =>
    match lastFor key k rs with
    | some x => some x
    | none => if key r = k then some r else none

theorem lastFor_getD_cons {α} (key : α → Nat) (k : Nat) (r : α) (rs : List α) (old : α) :
    (lastFor key k (r :: rs)).getD old = (lastFor key k rs).getD (if key r = k then r else old) := by
  simp only [lastFor]
  cases lastFor key k rs with
  | some x => rfl
  | none => by_cases h : key r = k <;> simp [h]

theorem lastFor_append {α} (key : α → Nat) (k : Nat) (l₁ l₂ : List α) :
    lastFor key k (l₁ ++ l₂) = (lastFor key k l₂).or (lastFor key k l₁) := by
  induction l₁ with
  | nil => simp [lastFor]
  | cons r rs ih =>
    simp only [List.cons_append, lastFor, ih]
    cases lastFor key k l₂ <;> simp

theorem lastFor_mem {α} (key : α → Nat) (k : Nat) (l : List α) (x : α) (h : lastFor key k l = some x) :
    x ∈ l ∧ key x = k := by
  induction l with
  | nil => simp [lastFor] at h
  | cons r rs ih =>
    simp only [lastFor] at h
    cases hr : lastFor key k rs with
    | some y =>
      rw [hr] at h; cases h
      exact ⟨List.mem_cons_of_mem _ (ih hr).1, (ih hr).2⟩
    | none =>
      rw [hr] at h
      by_cases hk : key r = k
      · simp [hk] at h; subst h; exact ⟨List.mem_cons_self, hk⟩
      · simp [hk] at h

theorem lastFor_none {α} (key : α → Nat) (k : Nat) (l : List α) (h : ∀ x ∈ l, key x ≠ k) :
    lastFor key k l = none := by
  induction l with
  | nil => rfl
  | cons r rs ih =>
    simp only [lastFor, ih (fun x hx => h x (List.mem_cons_of_mem _ hx))]
    simp [h r List.mem_cons_self]

/-! ### AC status -/

/-- the object after `update_ac_status(r)` -/
def acAfterStatus (r : X2D.AcStatusData) (a : AcObj) : AcObj :=
  if a.status = r then a else { a with status := r, errInfo := if r.error_code ≠ 0 then a.errInfo else none }

theorem updateAcStatus_frame (s : State) (r : X2D.AcStatusData) :
    (updateAcStatus s r).1 = { s with acObjs := (updateAcStatus s r).1.acObjs } := by
  unfold updateAcStatus
  split
  · rfl
  · split
    · rfl
    · exact setAc_frame _ _ _

theorem findAc_updateAcStatus {s : State} (hinv : Inv s) (r : X2D.AcStatusData) (k : Nat) :
    (updateAcStatus s r).1.findAc k =
      (s.findAc k).map fun a => if k = r.ac_number then acAfterStatus r a else a := by
  unfold updateAcStatus
  cases hf : s.findAc r.ac_number with
  | none =>
    simp only
    by_cases hk : k = r.ac_number
    · subst hk; simp [hf]
    · simp [hk]
  | some a =>
    simp only
    by_cases hst : a.status = r
    · simp only [hst, ↓reduceIte]
      by_cases hk : k = r.ac_number
      · subst hk; simp [hf, acAfterStatus, hst]
      · simp [hk]
    · simp only [hst, ↓reduceIte, findAc_setAc hinv]
      by_cases hk : k = r.ac_number
      · subst hk; simp [hf, acAfterStatus, hst]
      · simp [hk]

theorem Inv_updateAcStatus {s : State} (hinv : Inv s) (r : X2D.AcStatusData) : Inv (updateAcStatus s r).1 := by
  unfold updateAcStatus
  cases hf : s.findAc r.ac_number with
  | none => exact hinv
  | some a =>
    simp only
    split
    · exact hinv
    · exact Inv_setAc hinv rfl (hinv.findAc_number hf).2

/-! ### AC timer status -/

def acAfterTimer (r : AcTimerStatusData) (a : AcObj) : AcObj := if a.timer = r then a else { a with timer := r }

theorem updateAcTimer_frame (s : State) (r : AcTimerStatusData) :
    (updateAcTimer s r).1 = { s with acObjs := (updateAcTimer s r).1.acObjs } := by
  unfold updateAcTimer
  split
  · rfl
  · split
    · rfl
    · exact setAc_frame _ _ _

theorem findAc_updateAcTimer {s : State} (hinv : Inv s) (r : AcTimerStatusData) (k : Nat) :
    (updateAcTimer s r).1.findAc k =
      (s.findAc k).map fun a => if k = r.ac_number then acAfterTimer r a else a := by
  unfold updateAcTimer
  cases hf : s.findAc r.ac_number with
  | none =>
    simp only
    by_cases hk : k = r.ac_number
    · subst hk; simp [hf]
    · simp [hk]
  | some a =>
    simp only
    by_cases hst : a.timer = r
    · simp only [hst, ↓reduceIte]
      by_cases hk : k = r.ac_number
      · subst hk; simp [hf, acAfterTimer, hst]
      · simp [hk]
    · simp only [hst, ↓reduceIte, findAc_setAc hinv]
      by_cases hk : k = r.ac_number
      · subst hk; simp [hf, acAfterTimer, hst]
      · simp [hk]

theorem Inv_updateAcTimer {s : State} (hinv : Inv s) (r : AcTimerStatusData) : Inv (updateAcTimer s r).1 := by
  unfold updateAcTimer
  cases hf : s.findAc r.ac_number with
  | none => exact hinv
  | some a =>
    simp only
    split
    · exact hinv
    · exact Inv_setAc hinv (hinv.findAc_number hf).1 rfl

/-! ### AC error information -/

def acAfterErr (e : Option Bytes) (a : AcObj) : AcObj := { a with errInfo := e }

theorem updateErrInfo_frame (s : State) (m : FF10.AcErrorInformationMessage) :
    (updateErrInfo s m).1 = { s with acObjs := (updateErrInfo s m).1.acObjs } := by
  unfold updateErrInfo
  split
  · rfl
  · split
    · rfl
    · exact setAc_frame _ _ _

theorem findAc_updateErrInfo {s : State} (hinv : Inv s) (m : FF10.AcErrorInformationMessage) (k : Nat) :
    (updateErrInfo s m).1.findAc k =
      (s.findAc k).map fun a => if k = m.ac_number then acAfterErr m.error_info a else a := by
  unfold updateErrInfo
  cases hf : s.findAc m.ac_number with
  | none =>
    simp only
    by_cases hk : k = m.ac_number
    · subst hk; simp [hf]
    · simp [hk]
  | some a =>
    simp only
    by_cases hst : a.errInfo = m.error_info
    · simp only [hst, ↓reduceIte]
      by_cases hk : k = m.ac_number
      · subst hk; simp [hf, acAfterErr, ← hst]
      · simp [hk]
    · simp only [hst, ↓reduceIte, findAc_setAc hinv]
      by_cases hk : k = m.ac_number
      · subst hk; simp [hf, acAfterErr]
      · simp [hk]

theorem Inv_updateErrInfo {s : State} (hinv : Inv s) (m : FF10.AcErrorInformationMessage) :
    Inv (updateErrInfo s m).1 := by
  unfold updateErrInfo
  cases hf : s.findAc m.ac_number with
  | none => exact hinv
  | some a =>
    simp only
    split
    · exact hinv
    · exact Inv_setAc hinv (hinv.findAc_number hf).1 (hinv.findAc_number hf).2

/-! ### group status -/

theorem updateGroupStatus_frame (s : State) (g : X2B.GroupStatusData) :
    (updateGroupStatus s g).1 = { s with zoneObjs := (updateGroupStatus s g).1.zoneObjs } := by
  unfold updateGroupStatus
  split
  · rfl
  · split
    · rfl
    · exact setZone_frame _ _ _

theorem zoneOf_updateGroupStatus {s : State} (hinv : Inv s) (g : X2B.GroupStatusData) (k : Nat) :
    (updateGroupStatus s g).1.zoneOf k =
      (s.zoneOf k).map fun z => if k = g.group_number then { z with status := g } else z := by
  unfold updateGroupStatus
  cases hf : s.zoneOf g.group_number with
  | none =>
    simp only
    by_cases hk : k = g.group_number
    · subst hk; simp [hf]
    · simp [hk]
  | some z =>
    simp only
    by_cases hst : z.status = g
    · simp only [hst, ↓reduceIte]
      by_cases hk : k = g.group_number
      · subst hk; rw [hf]; subst hst; simp
      · simp [hk]
    · simp only [hst, ↓reduceIte, zoneOf_setZone hinv]
      by_cases hk : k = g.group_number
      · subst hk; simp [hf]
      · simp [hk]

theorem Inv_updateGroupStatus {s : State} (hinv : Inv s) (g : X2B.GroupStatusData) :
    Inv (updateGroupStatus s g).1 := by
  unfold updateGroupStatus
  cases hf : s.zoneOf g.group_number with
  | none => exact hinv
  | some z =>
    simp only
    split
    · exact hinv
    · exact Inv_setZone hinv rfl


/-! ### the `_process_*` loops -/

theorem foldEv_frame_ac {α} (f : State → α → State × List Ev)
    (hf : ∀ s x, (f s x).1 = { s with acObjs := (f s x).1.acObjs }) (s : State) (l : List α) :
    (foldEv f s l).1 = { s with acObjs := (foldEv f s l).1.acObjs } := by
  induction l generalizing s with
  | nil => rfl
  | cons x xs ih =>
    show (foldEv f (f s x).1 xs).1 = { s with acObjs := (foldEv f (f s x).1 xs).1.acObjs }
    have h1 := ih (f s x).1
    generalize (foldEv f (f s x).1 xs).1.acObjs = A at h1 ⊢
    rw [h1, hf s x]

theorem foldEv_frame_zone {α} (f : State → α → State × List Ev)
    (hf : ∀ s x, (f s x).1 = { s with zoneObjs := (f s x).1.zoneObjs }) (s : State) (l : List α) :
    (foldEv f s l).1 = { s with zoneObjs := (foldEv f s l).1.zoneObjs } := by
  induction l generalizing s with
  | nil => rfl
  | cons x xs ih =>
    show (foldEv f (f s x).1 xs).1 = { s with zoneObjs := (foldEv f (f s x).1 xs).1.zoneObjs }
    have h1 := ih (f s x).1
    generalize (foldEv f (f s x).1 xs).1.zoneObjs = A at h1 ⊢
    rw [h1, hf s x]

theorem findAc_foldEv {α} (f : State → α → State × List Ev) (k : Nat) (g : α → AcObj → AcObj)
    (hI : ∀ s x, Inv s → Inv (f s x).1)
    (hg : ∀ s x, Inv s → (f s x).1.findAc k = (s.findAc k).map (g x))
    (s : State) (hinv : Inv s) (l : List α) :
    (foldEv f s l).1.findAc k = (s.findAc k).map fun a => l.foldl (fun a x => g x a) a := by
  induction l generalizing s with
  | nil => simp [foldEv]
  | cons x xs ih =>
    show (foldEv f (f s x).1 xs).1.findAc k = _
    rw [ih _ (hI s x hinv), hg s x hinv, Option.map_map]
    rfl

theorem zoneOf_foldEv {α} (f : State → α → State × List Ev) (k : Nat) (g : α → ZoneObj → ZoneObj)
    (hI : ∀ s x, Inv s → Inv (f s x).1)
    (hg : ∀ s x, Inv s → (f s x).1.zoneOf k = (s.zoneOf k).map (g x))
    (s : State) (hinv : Inv s) (l : List α) :
    (foldEv f s l).1.zoneOf k = (s.zoneOf k).map fun z => l.foldl (fun z x => g x z) z := by
  induction l generalizing s with
  | nil => simp [foldEv]
  | cons x xs ih =>
    show (foldEv f (f s x).1 xs).1.zoneOf k = _
    rw [ih _ (hI s x hinv), hg s x hinv, Option.map_map]
    rfl

/-- how the air-conditioner object numbered `k` evolves when a message is processed in state `CONNECTED` -/
def acStep (k : Nat) : RMsg → AcObj → AcObj
  | .acStatus (.status l), a => l.foldl (fun a r => if k = r.ac_number then acAfterStatus r a else a) a
  | .acTimerStatus (.status l), a => l.foldl (fun a r => if k = r.ac_number then acAfterTimer r a else a) a
  | .acTimerCtrl c, a => c.ac_timer_status.foldl (fun a r => if k = r.ac_number then acAfterTimer r a else a) a
  | .extended (.errInfo (.message e)), a => if k = e.ac_number then acAfterErr e.error_info a else a
  | _, a => a

/-- how the zone object numbered `k` evolves -/
def zoneStep (k : Nat) : RMsg → ZoneObj → ZoneObj
  | .groupStatus (.status l), z => l.foldl (fun z g => if k = g.group_number then { z with status := g } else z) z
  | _, z => z

theorem findAc_hbOnMessage (s : State) (m : RMsg) (k : Nat) : (hbOnMessage s m).findAc k = s.findAc k := by
  unfold hbOnMessage; split <;> rfl

theorem zoneOf_hbOnMessage (s : State) (m : RMsg) (k : Nat) : (hbOnMessage s m).zoneOf k = s.zoneOf k := by
  unfold hbOnMessage; split <;> rfl

theorem Inv_hbOnMessage {s : State} (h : Inv s) (m : RMsg) : Inv (hbOnMessage s m) := by
  unfold hbOnMessage; split
  · exact ⟨h.acKey, h.zoneKey⟩
  · exact h

theorem Inv_foldStatus {s : State} (h : Inv s) (l : List X2D.AcStatusData) : Inv (foldEv updateAcStatus s l).1 :=
  foldEv_inv Inv _ (fun s x hs => Inv_updateAcStatus hs x) s l h

theorem Inv_foldTimer {s : State} (h : Inv s) (l : List AcTimerStatusData) : Inv (foldEv updateAcTimer s l).1 :=
  foldEv_inv Inv _ (fun s x hs => Inv_updateAcTimer hs x) s l h

theorem Inv_foldGroup {s : State} (h : Inv s) (l : List X2B.GroupStatusData) : Inv (foldEv updateGroupStatus s l).1 :=
  foldEv_inv Inv _ (fun s x hs => Inv_updateGroupStatus hs x) s l h

end PyAirtouch.Lemmas.Api4
