import PyAirtouch.Lemmas.Crc
/-!
# Error detection of CRC-16/MODBUS as deployed (check bytes high byte first)

A frame carries covered bytes `d` followed by `checkBytes d`.  A damaged frame is
`(xorL d e, xorL (checkBytes d) ke)`.  It passes the check iff `reg0 e = word2 ke`
(`undetected_iff`).  From this: every single-bit and (for `d.length ≤ 4093`) every double-bit
error is detected, every burst of at most 16 bits inside the covered bytes is detected, every error
confined to the check bytes is detected - and there are undetected bursts of at most 16 bits that
straddle the boundary between the covered bytes and the check bytes.
-/
namespace PyAirtouch.Lemmas.CrcDetect
open PyAirtouch.Spec PyAirtouch.Lemmas.Crc

/-- bits of a byte in the order the CRC consumes them: least significant first -/
def bits8 (b : Nat) : List Bool := (List.range 8).map (fun j => b.testBit j)
def bitsOf (bs : List Nat) : List Bool := bs.flatMap bits8
/-- number of damaged bits -/
def weight (bs : List Nat) : Nat := (bitsOf bs).count true
/-- register reached from 0 over the error pattern alone -/
def reg0 (es : List Nat) : Nat := es.foldl PyAirtouch.Spec.stepBitwise 0
/-- value of a two-byte check error as a 16-bit word (high byte first) -/
def word2 (k : List Nat) : Nat := k.getD 0 0 * 256 + k.getD 1 0
def Bytes (bs : List Nat) : Prop := ∀ b ∈ bs, b < 256
/-- all set bits of the pattern lie in a window of 16 consecutive bit positions -/
def Burst16 (bits : List Bool) : Prop := ∃ s, ∀ i, bits.getD i false = true → s ≤ i ∧ i < s + 16

/-! ### xor cancellation -/

theorem xor_eq_zero {a b : Nat} (h : a ^^^ b = 0) : a = b := by
  have : (a ^^^ b) ^^^ b = b := by rw [h, Nat.zero_xor]
  rwa [Nat.xor_assoc, Nat.xor_self, Nat.xor_zero] at this

theorem xor_left_cancel {a b c : Nat} (h : a ^^^ b = a ^^^ c) : b = c := by
  have : a ^^^ (a ^^^ b) = a ^^^ (a ^^^ c) := by rw [h]
  simpa [← Nat.xor_assoc] using this

/-! ### the shift map `M = bitStep` on 16-bit words -/

theorem bitStep_zero : bitStep 0 = 0 := by decide

theorem bitStepN_zero (n : Nat) : bitStepN n 0 = 0 := by
  induction n with
  | zero => rfl
  | succ n ih => simp only [bitStepN, bitStep_zero, ih]

theorem bitStepN_lt (n : Nat) : ∀ c, c < 65536 → bitStepN n c < 65536 := by
  induction n with
  | zero => intro c h; exact h
  | succ n ih => intro c h; exact ih _ (bitStep_lt c h)

theorem bitStepN_add (a b : Nat) : ∀ x, bitStepN (a + b) x = bitStepN b (bitStepN a x) := by
  induction a with
  | zero => intro x; simp [bitStepN]
  | succ a ih => intro x; rw [Nat.add_right_comm]; simp only [bitStepN]; exact ih _

/-- `M` has trivial kernel on 16-bit words -/
theorem bitStep_eq_zero (x : Nat) (hx : x < 65536) (h : bitStep x = 0) : x = 0 := by
  rw [bitStep_eq] at h
  unfold fb at h
  split at h
  · have := xor_eq_zero h
    omega
  · rw [Nat.xor_zero] at h
    omega

theorem bitStepN_eq_zero (n : Nat) : ∀ x, x < 65536 → bitStepN n x = 0 → x = 0 := by
  induction n with
  | zero => intro x _ h; exact h
  | succ n ih =>
    intro x hx h
    exact bitStep_eq_zero x hx (ih _ (bitStep_lt x hx) h)

/-! ### bit-serial view of the register -/

def bitVal (b : Bool) : Nat := if b then 1 else 0
def feedBit (r : Nat) (b : Bool) : Nat := bitStep (r ^^^ bitVal b)
def feedBits (r : Nat) (bits : List Bool) : Nat := bits.foldl feedBit r

/-- little-endian value of a bit list -/
def val : List Bool → Nat
  | [] => 0
  | b :: bs => bitVal b ^^^ (2 * val bs)

theorem feedBits_nil (r : Nat) : feedBits r [] = r := rfl
theorem feedBits_cons (r : Nat) (b : Bool) (bs : List Bool) :
    feedBits r (b :: bs) = feedBits (feedBit r b) bs := rfl
theorem feedBits_append (r : Nat) (as bs : List Bool) :
    feedBits r (as ++ bs) = feedBits (feedBits r as) bs := by
  unfold feedBits; exact List.foldl_append

/-- feeding `n` bits is xoring their little-endian value into the register and shifting `n` times -/
theorem feedBits_val (w : List Bool) : ∀ r, feedBits r w = bitStepN w.length (r ^^^ val w) := by
  induction w with
  | nil => intro r; simp [feedBits_nil, val, bitStepN]
  | cons b bs ih =>
    intro r
    rw [feedBits_cons, ih]
    simp only [List.length_cons, bitStepN, val]
    congr 1
    unfold feedBit
    have h2 : (2 * val bs) % 2 = 0 := by omega
    have h3 : r ^^^ (bitVal b ^^^ 2 * val bs) = (r ^^^ bitVal b) ^^^ (2 * val bs) :=
      (Nat.xor_assoc _ _ _).symm
    rw [h3, bitStep_xor_even (r ^^^ bitVal b) (2 * val bs) h2]
    congr 1
    omega

theorem val_lt (w : List Bool) : val w < 2 ^ w.length := by
  induction w with
  | nil => simp [val]
  | cons b bs ih =>
    simp only [val, List.length_cons]
    apply Nat.xor_lt_two_pow
    · have : 2 ≤ 2 ^ (bs.length + 1) := by
        have := Nat.one_le_two_pow (n := bs.length)
        rw [Nat.pow_succ]; omega
      unfold bitVal; split <;> omega
    · rw [Nat.pow_succ]; omega

theorem val_true_ne_zero (bs : List Bool) : val (true :: bs) ≠ 0 := by
  intro h
  have := xor_even_mod2 (bitVal true) (2 * val bs) (by omega)
  simp only [val] at h
  rw [h] at this
  simp [bitVal] at this

theorem feedBits_replicate_false (c : Nat) : ∀ r, feedBits r (List.replicate c false) = bitStepN c r := by
  induction c with
  | zero => intro r; rfl
  | succ c ih =>
    intro r
    rw [List.replicate_succ, feedBits_cons, ih]
    simp [feedBit, bitVal, bitStepN]

theorem feedBits_zero_replicate_append (a : Nat) (l : List Bool) :
    feedBits 0 (List.replicate a false ++ l) = feedBits 0 l := by
  rw [feedBits_append, feedBits_replicate_false, bitStepN_zero]

theorem val_bits8 : ∀ b : Fin 256, val (bits8 b.val) = b.val := by decide +kernel

theorem length_bits8 (b : Nat) : (bits8 b).length = 8 := by simp [bits8]

theorem stepBitwise_eq_feedBits (r b : Nat) (hb : b < 256) :
    stepBitwise r b = feedBits r (bits8 b) := by
  rw [stepBitwise_eq, feedBits_val, length_bits8, val_bits8 ⟨b, hb⟩]

theorem foldl_eq_feedBits (e : List Nat) (he : Bytes e) :
    ∀ r, e.foldl stepBitwise r = feedBits r (bitsOf e) := by
  induction e with
  | nil => intro r; rfl
  | cons b bs ih =>
    intro r
    have hb : b < 256 := he b (by simp)
    have hbs : Bytes bs := fun x hx => he x (by simp [hx])
    simp only [List.foldl_cons, bitsOf, List.flatMap_cons]
    rw [feedBits_append, ← stepBitwise_eq_feedBits r b hb]
    exact ih hbs _

theorem reg0_eq_feedBits (e : List Nat) (he : Bytes e) : reg0 e = feedBits 0 (bitsOf e) :=
  foldl_eq_feedBits e he 0

theorem length_bitsOf (e : List Nat) : (bitsOf e).length = 8 * e.length := by
  induction e with
  | nil => rfl
  | cons b bs ih =>
    simp only [bitsOf, List.flatMap_cons, List.length_append, List.length_cons] at *
    rw [ih, length_bits8]; omega

/-! ### shape of bit lists with zero, one, two set bits -/

theorem count_zero_eq (bs : List Bool) (h : bs.count true = 0) :
    bs = List.replicate bs.length false := by
  induction bs with
  | nil => rfl
  | cons b bs ih =>
    cases b with
    | true => simp at h
    | false =>
      simp only [List.count_cons] at h
      simp only [List.length_cons, List.replicate_succ]
      congr 1
      exact ih (by simpa using h)

theorem count_succ_split (bs : List Bool) (n : Nat) (h : bs.count true = n + 1) :
    ∃ a rest, bs = List.replicate a false ++ true :: rest ∧ rest.count true = n := by
  induction bs with
  | nil => simp at h
  | cons b bs ih =>
    cases b with
    | true =>
      refine ⟨0, bs, by simp, ?_⟩
      simpa using h
    | false =>
      have h' : bs.count true = n + 1 := by simpa using h
      obtain ⟨a, rest, h1, h2⟩ := ih h'
      refine ⟨a + 1, rest, ?_, h2⟩
      rw [List.replicate_succ, List.cons_append, ← h1]

theorem feedBits_zero_of_count_zero (bs : List Bool) (h : bs.count true = 0) : feedBits 0 bs = 0 := by
  rw [count_zero_eq bs h, feedBits_replicate_false, bitStepN_zero]

theorem feedBits_one (bs : List Bool) (h : bs.count true = 1) :
    ∃ k, 1 ≤ k ∧ k ≤ bs.length ∧ feedBits 0 bs = bitStepN k 1 := by
  obtain ⟨a, rest, h1, h2⟩ := count_succ_split bs 0 h
  refine ⟨rest.length + 1, by omega, ?_, ?_⟩
  · rw [h1]; simp <;> omega
  · rw [h1, feedBits_zero_replicate_append, feedBits_cons, count_zero_eq rest h2,
      feedBits_replicate_false]
    simp [feedBit, bitVal, bitStepN]

theorem feedBits_two (bs : List Bool) (h : bs.count true = 2) :
    ∃ j k, 1 ≤ j ∧ 1 ≤ k ∧ j + k ≤ bs.length ∧
      feedBits 0 bs = bitStepN k (bitStepN j 1 ^^^ 1) := by
  obtain ⟨a, rest, h1, h2⟩ := count_succ_split bs 1 h
  obtain ⟨b, rest', h3, h4⟩ := count_succ_split rest 0 h2
  refine ⟨b + 1, rest'.length + 1, by omega, by omega, ?_, ?_⟩
  · rw [h1, h3]; simp <;> omega
  · rw [h1, feedBits_zero_replicate_append, feedBits_cons, h3, feedBits_append,
      feedBits_replicate_false, feedBits_cons, count_zero_eq rest' h4, feedBits_replicate_false]
    simp [feedBit, bitVal, bitStepN]

/-! ### the order loop (kernel evaluation) -/

/-- `s` is a power of two -/
def isPow2 (s : Nat) : Bool := s != 0 && (s &&& (s - 1)) == 0

/-- none of the first `n` shifts of `s` is a power of two -/
def noPow2 : Nat → Nat → Bool
  | 0, _ => true
  | n+1, s => let s' := bitStep s; if isPow2 s' then false else noPow2 n s'

/-- `M^k 1` is not a single-bit word for `1 ≤ k ≤ 32751` (the first one is `M^32752 1 = 0x8000`) -/
theorem noPow2_run : noPow2 32751 1 = true := by decide +kernel

theorem noPow2_spec (n : Nat) : ∀ s, noPow2 n s = true → ∀ k, 1 ≤ k → k ≤ n →
    isPow2 (bitStepN k s) = false := by
  induction n with
  | zero => intro s _ k h1 h2; omega
  | succ n ih =>
    intro s h k h1 h2
    simp only [noPow2] at h
    cases hp : isPow2 (bitStep s) with
    | true => simp [hp] at h
    | false =>
      simp only [hp, Bool.false_eq_true, if_false] at h
      match k, h1, h2 with
      | 1, _, _ => simpa [bitStepN] using hp
      | k+2, _, h2 =>
        simp only [bitStepN]
        have := ih _ h (k+1) (by omega) (by omega)
        simpa [bitStepN] using this

theorem shift_not_pow2 (k : Nat) (h1 : 1 ≤ k) (h2 : k ≤ 32751) : isPow2 (bitStepN k 1) = false :=
  noPow2_spec 32751 1 noPow2_run k h1 h2

/-! ### facts about bytes and the two check bytes -/

theorem byte_facts : ∀ b : Fin 256,
    ((bits8 b.val).count true = 0 → b.val = 0) ∧
    ((bits8 b.val).count true = 1 → isPow2 b.val = true ∧ isPow2 (b.val * 256) = true) := by
  decide +kernel

theorem byte_facts' (b : Nat) (hb : b < 256) :
    ((bits8 b).count true = 0 → b = 0) ∧
    ((bits8 b).count true = 1 → isPow2 b = true ∧ isPow2 (b * 256) = true) :=
  byte_facts ⟨b, hb⟩

theorem weight_pair (a b : Nat) : weight [a, b] = (bits8 a).count true + (bits8 b).count true := by
  simp [weight, bitsOf]

theorem weight_eq_zero_word2 (a b : Nat) (ha : a < 256) (hb : b < 256) (h : weight [a, b] = 0) :
    word2 [a, b] = 0 := by
  rw [weight_pair] at h
  have h1 := (byte_facts' a ha).1 (by omega)
  have h2 := (byte_facts' b hb).1 (by omega)
  subst h1; subst h2; rfl

theorem word2_eq_zero_weight (a b : Nat) (h : word2 [a, b] = 0) : weight [a, b] = 0 := by
  have h' : a * 256 + b = 0 := h
  have ha : a = 0 := by omega
  have hb : b = 0 := by omega
  subst ha; subst hb; decide

theorem weight_eq_one_word2 (a b : Nat) (ha : a < 256) (hb : b < 256) (h : weight [a, b] = 1) :
    isPow2 (word2 [a, b]) = true := by
  rw [weight_pair] at h
  have fa := byte_facts' a ha
  have fb := byte_facts' b hb
  show isPow2 (a * 256 + b) = true
  by_cases h0 : (bits8 a).count true = 0
  · have := fa.1 h0
    subst this
    simpa using (fb.2 (by omega)).1
  · have hb0 := fb.1 (by omega)
    subst hb0
    simpa using (fa.2 (by omega)).2

theorem pair_of_length_two (ke : List Nat) (h : ke.length = 2) : ∃ a b, ke = [a, b] := by
  match ke, h with
  | [a, b], _ => exact ⟨a, b, rfl⟩

theorem reg0_lt (e : List Nat) (he : Bytes e) : reg0 e < 65536 :=
  foldl_stepBitwise_lt e he 0 (by decide)

theorem reg0_zero_of_weight_zero (e : List Nat) (he : Bytes e) (h : weight e = 0) : reg0 e = 0 := by
  rw [reg0_eq_feedBits e he]
  exact feedBits_zero_of_count_zero _ h

-- the six theorems share one list of side hypotheses, not all of which every proof needs
set_option linter.unusedVariables false

/-! ### 1. when a damaged frame passes the check -/

theorem undetected_iff (d e ke : List Nat) (hd : Bytes d) (he : Bytes e) (hk : Bytes ke)
    (hlen : e.length = d.length) (hk2 : ke.length = 2) :
    checkBytes (xorL d e) = xorL (checkBytes d) ke ↔ reg0 e = word2 ke := by
  obtain ⟨a, b, rfl⟩ := pair_of_length_two ke hk2
  have hb : b < 256 := hk b (by simp)
  have hdam := crc_damage d e hlen.symm
  have hdiv : (crc16Modbus d ^^^ reg0 e) / 256 = crc16Modbus d / 256 ^^^ reg0 e / 256 :=
    Nat.xor_div_two_pow (n := 8)
  have hmod : (crc16Modbus d ^^^ reg0 e) % 256 = crc16Modbus d % 256 ^^^ reg0 e % 256 :=
    Nat.xor_mod_two_pow (n := 8)
  have hcb : checkBytes (xorL d e) =
      [crc16Modbus d / 256 ^^^ reg0 e / 256, crc16Modbus d % 256 ^^^ reg0 e % 256] := by
    unfold checkBytes
    simp only [hdam]
    rw [← hdiv, ← hmod]; rfl
  have hx : xorL (checkBytes d) [a, b] = [crc16Modbus d / 256 ^^^ a, crc16Modbus d % 256 ^^^ b] := rfl
  have hw : word2 [a, b] = a * 256 + b := rfl
  rw [hcb, hx, hw]
  constructor
  · intro h
    simp only [List.cons.injEq, and_true] at h
    have h1 := xor_left_cancel h.1
    have h2 := xor_left_cancel h.2
    omega
  · intro h
    have h1 : reg0 e / 256 = a := by omega
    have h2 : reg0 e % 256 = b := by omega
    rw [h1, h2]

/-! ### 5. errors confined to the check bytes -/

theorem detects_errors_confined_to_check_bytes (d e ke : List Nat) (hd : Bytes d) (he : Bytes e)
    (hk : Bytes ke) (hlen : e.length = d.length) (hk2 : ke.length = 2) :
    weight e = 0 → weight ke ≠ 0 → reg0 e ≠ word2 ke := by
  intro h0 hne heq
  obtain ⟨a, b, rfl⟩ := pair_of_length_two ke hk2
  rw [reg0_zero_of_weight_zero e he h0] at heq
  exact hne (word2_eq_zero_weight a b heq.symm)

/-! ### 2. single-bit errors -/

theorem detects_single_bit (d e ke : List Nat) (hd : Bytes d) (he : Bytes e) (hk : Bytes ke)
    (hlen : e.length = d.length) (hk2 : ke.length = 2) :
    weight e + weight ke = 1 → reg0 e ≠ word2 ke := by
  intro hw
  by_cases h0 : weight e = 0
  · exact detects_errors_confined_to_check_bytes d e ke hd he hk hlen hk2 h0 (by omega)
  · obtain ⟨a, b, rfl⟩ := pair_of_length_two ke hk2
    have ha : a < 256 := hk a (by simp)
    have hb : b < 256 := hk b (by simp)
    rw [weight_eq_zero_word2 a b ha hb (by omega), reg0_eq_feedBits e he]
    obtain ⟨k, _, _, hk⟩ := feedBits_one (bitsOf e) (by unfold weight at *; omega)
    rw [hk]
    intro hz
    have := bitStepN_eq_zero k 1 (by decide) hz
    omega

/-! ### 3. double-bit errors -/

theorem detects_double_bit (d e ke : List Nat) (hd : Bytes d) (he : Bytes e) (hk : Bytes ke)
    (hlen : e.length = d.length) (hk2 : ke.length = 2) :
    weight e + weight ke = 2 → d.length ≤ 4093 → reg0 e ≠ word2 ke := by
  intro hw hlen4
  by_cases h0 : weight e = 0
  · exact detects_errors_confined_to_check_bytes d e ke hd he hk hlen hk2 h0 (by omega)
  · obtain ⟨a, b, rfl⟩ := pair_of_length_two ke hk2
    have ha : a < 256 := hk a (by simp)
    have hb : b < 256 := hk b (by simp)
    have hbits := length_bitsOf e
    rw [reg0_eq_feedBits e he]
    by_cases h1 : weight e = 1
    · -- one bit in the covered bytes, one in the check bytes
      obtain ⟨k, hk1, hk2', hk⟩ := feedBits_one (bitsOf e) h1
      have hp := weight_eq_one_word2 a b ha hb (by omega)
      intro heq
      rw [← heq, hk, shift_not_pow2 k hk1 (by omega)] at hp
      exact Bool.noConfusion hp
    · -- both bits in the covered bytes
      have h2 : (bitsOf e).count true = 2 := by unfold weight at *; omega
      obtain ⟨j, k, hj1, hk1, hjk, hfe⟩ := feedBits_two (bitsOf e) h2
      rw [weight_eq_zero_word2 a b ha hb (by omega), hfe]
      intro hz
      have hlt : bitStepN j 1 ^^^ 1 < 65536 :=
        Nat.xor_lt_two_pow (n := 16) (bitStepN_lt j 1 (by decide)) (by decide)
      have hx := bitStepN_eq_zero k _ hlt hz
      have hone : bitStepN j 1 = 1 := xor_eq_zero hx
      have hp := shift_not_pow2 j hj1 (by omega)
      rw [hone] at hp
      exact absurd hp (by decide)

/-! ### 4. bursts of at most 16 bits inside the covered bytes -/

theorem feedBits_burst_ne_zero (bits : List Bool) (hb : Burst16 bits) (hw : bits.count true ≠ 0) :
    feedBits 0 bits ≠ 0 := by
  obtain ⟨s, hs⟩ := hb
  obtain ⟨a, rest, h1, _⟩ := count_succ_split bits (bits.count true - 1) (by omega)
  have hsa : s ≤ a := by
    have := hs a (by rw [h1]; simp [List.getD_eq_getElem?_getD])
    exact this.1
  have hrest : ∀ x ∈ rest.drop 15, x = false := by
    intro x hx
    obtain ⟨i, hi, rfl⟩ := List.mem_iff_getElem.mp hx
    cases hxx : (List.drop 15 rest)[i] with
    | false => rfl
    | true =>
      exfalso
      have hi' : 15 + i < rest.length := by simp at hi; omega
      have : bits.getD (a + 1 + (15 + i)) false = true := by
        rw [h1, List.getD_eq_getElem?_getD, List.getElem?_append_right (by simp; omega)]
        simp only [List.length_replicate]
        have e1 : a + 1 + (15 + i) - a = (15 + i) + 1 := by omega
        rw [e1, List.getElem?_cons_succ, List.getElem?_eq_getElem hi']
        simpa using hxx
      have := hs _ this
      omega
  have hdrop : rest.drop 15 = List.replicate (rest.drop 15).length false :=
    List.eq_replicate_iff.mpr ⟨rfl, hrest⟩
  have hsplit : bits = List.replicate a false ++
      ((true :: rest.take 15) ++ List.replicate (rest.drop 15).length false) := by
    rw [← hdrop, List.cons_append, List.take_append_drop]; exact h1
  rw [hsplit, feedBits_zero_replicate_append, feedBits_append, feedBits_replicate_false,
    feedBits_val, Nat.zero_xor]
  intro hz
  have hlen : (true :: rest.take 15).length ≤ 16 := by simp; omega
  have hv := val_lt (true :: rest.take 15)
  have hv' : val (true :: rest.take 15) < 65536 :=
    Nat.lt_of_lt_of_le hv (Nat.pow_le_pow_right (by decide) hlen)
  have h2 := bitStepN_eq_zero _ _ (bitStepN_lt _ _ hv') hz
  exact val_true_ne_zero _ (bitStepN_eq_zero _ _ hv' h2)

theorem detects_burst16_in_covered_bytes (d e ke : List Nat) (hd : Bytes d) (he : Bytes e)
    (hk : Bytes ke) (hlen : e.length = d.length) (hk2 : ke.length = 2) :
    ke = [0, 0] → Burst16 (bitsOf e) → weight e ≠ 0 → reg0 e ≠ 0 := by
  intro _ hb hw
  rw [reg0_eq_feedBits e he]
  exact feedBits_burst_ne_zero _ hb hw

/-- the same, phrased against the check-byte error word (which is 0 for `ke = [0,0]`) -/
theorem detects_burst16_in_covered_bytes' (d e ke : List Nat) (hd : Bytes d) (he : Bytes e)
    (hk : Bytes ke) (hlen : e.length = d.length) (hk2 : ke.length = 2) :
    ke = [0, 0] → Burst16 (bitsOf e) → weight e ≠ 0 → reg0 e ≠ word2 ke := by
  intro hke hb hw
  have := detects_burst16_in_covered_bytes d e ke hd he hk hlen hk2 hke hb hw
  subst hke
  exact this

/-! ### 6. an undetected burst of at most 16 bits across the boundary to the check bytes -/

/-- decidable form of `Burst16` with an explicit window start -/
def burstAt (bits : List Bool) (s : Nat) : Bool :=
  (List.range bits.length).all (fun i => !(bits.getD i false) || (decide (s ≤ i) && decide (i < s + 16)))

theorem burst16_of_burstAt (bits : List Bool) (s : Nat) (h : burstAt bits s = true) : Burst16 bits := by
  refine ⟨s, fun i hi => ?_⟩
  by_cases hlt : i < bits.length
  · have := (List.all_eq_true.mp h) i (List.mem_range.mpr hlt)
    rw [List.getD_eq_getElem?_getD] at hi
    simpa [hi] using this
  · rw [List.getD_eq_getElem?_getD, List.getElem?_eq_none (by omega)] at hi
    simp at hi

/-- Covered bytes `12 34`, error `00 0c` on them and `05 00` on the check bytes: the damaged bits are
    wire positions 10, 11 (last covered byte) and 16, 18 (first check byte) - a 9-bit burst - and the
    damaged frame passes the check. -/
theorem burst16_across_check_boundary_witness :
    ∃ d e ke : List Nat, Bytes d ∧ Bytes e ∧ Bytes ke ∧ e.length = d.length ∧ ke.length = 2 ∧
      Burst16 (bitsOf (e ++ ke)) ∧ weight e + weight ke ≠ 0 ∧ weight e ≠ 0 ∧ weight ke ≠ 0 ∧
      checkBytes (xorL d e) = xorL (checkBytes d) ke := by
  refine ⟨[0x12, 0x34], [0x00, 0x0c], [0x05, 0x00], ?_, ?_, ?_, rfl, rfl, ?_, ?_, ?_, ?_, ?_⟩
  · intro b hb; simp at hb; omega
  · intro b hb; simp at hb; omega
  · intro b hb; simp at hb; omega
  · exact burst16_of_burstAt _ 10 (by decide +kernel)
  · decide +kernel
  · decide +kernel
  · decide +kernel
  · decide +kernel

end PyAirtouch.Lemmas.CrcDetect

