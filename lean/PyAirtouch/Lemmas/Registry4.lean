import PyAirtouch.Model.At4.Registry
import PyAirtouch.Lemmas.RegistryCommon
import PyAirtouch.Lemmas.Frame
import PyAirtouch.Lemmas.At4X2A
import PyAirtouch.Lemmas.At4X2B
import PyAirtouch.Lemmas.At4X2C
import PyAirtouch.Lemmas.At4X2D
import PyAirtouch.Lemmas.At4X36
import PyAirtouch.Lemmas.At4X37
import PyAirtouch.Lemmas.At4FF10
import PyAirtouch.Lemmas.At4FF11
import PyAirtouch.Lemmas.At4FF12
import PyAirtouch.Lemmas.At4FF20
import PyAirtouch.Lemmas.At4FF30
/-!
# AirTouch 4: registry, 0x1F wrapper and whole-frame theorems

* `size_eq_length`      the length announced in the header is the number of payload bytes written
* `decodeMsg_encodeMsg` the registry's decoder undoes the registry's encoder (wrappers included)
* `frame_roundtrip`     what `socket.send` writes, `_read_one_message` delivers, under the factory's header
* `frameOf_ok`          the send path does not raise on well-formed messages whose payload fits 16 bits
* `mkHeader_*`          addressing
* `decodeMsg_unknown*`  unknown type bytes / sub-ids are preserved as `UnsupportedMessage` (C17)
* `wfMsgBool_iff`       the run-time well-formedness test is `WFMsg`
-/
namespace PyAirtouch.Lemmas.Registry4
open PyAirtouch.Model PyAirtouch.Model.At4 PyAirtouch.Model.At4.Registry
open PyAirtouch.Lemmas.RegistryCommon
open PyAirtouch.Gen.At4

/-! ### leaf facts: length, round trip and byte range of what each registered encoder writes -/

/-- what the wrappers need to know about one leaf codec on one message -/
structure LeafOK {M : Type} (decode : Bytes → Nat → Except DecErr (M × Bytes)) (m : M) (size : Nat)
    (bs : Bytes) : Prop where
  len : bs.length = size
  dec : decode bs size = .ok (m, [])
  bytes : AllBytes bs

theorem x2a_ok (m : X2A.Msg) (bs : Bytes) (h : X2A.encode m = .ok bs) :
    LeafOK X2A.decode m (X2A.size m) bs := by
  refine ⟨At4X2A.encode_length m bs h, ?_, ?_⟩
  · have := At4X2A.decode_encode' m bs [] h
    rwa [List.append_nil] at this
  · unfold X2A.encode at h
    split at h
    · rename_i hc
      cases h
      intro b hb
      simp only [X2A.encodeBytes, List.mem_cons, List.not_mem_nil, or_false] at hb
      omega
    · cases h

theorem ps_lt (p : X2BGroupStatus.GroupPowerState) : p.toNat < 4 := by cases p <;> decide
theorem cm_lt (p : X2BGroupStatus.GroupControlMethod) : p.toNat < 2 := by cases p <;> decide
theorem bat_lt (p : X2BGroupStatus.SensorBatteryStatus) : p.toNat < 2 := by cases p <;> decide

theorem x2b_encRec_bytes (g : X2B.GroupStatusData) : AllBytes (X2B.encRec g) := by
  have h1 := ps_lt g.power_state
  have h2 := cm_lt g.control_method
  have h3 := bat_lt g.battery_status
  have h4 := boolToBit_le g.supports_turbo 6
  have h5 := boolToBit_le g.has_sensor 7
  have h6 : X2B.encSetPoint g.set_point < 64 := by
    unfold X2B.encSetPoint
    split
    · omega
    · decide
  unfold X2B.encRec
  simp only
  refine allBytes_append.mpr ⟨?_, allBytes_be16Bytes _⟩
  intro b hb
  simp only [List.mem_cons, List.not_mem_nil, or_false] at hb
  omega

theorem x2b_ok (m : X2B.Msg) (hwf : X2B.WF m) :
    LeafOK X2B.decode m (X2B.size m) (X2B.encode m) := by
  refine ⟨At4X2B.encode_length m, ?_, ?_⟩
  · have := At4X2B.decode_encode m hwf []
    rwa [List.append_nil] at this
  · cases m with
    | request => exact allBytes_nil
    | status gs => exact allBytes_flatMap _ _ (fun g _ => x2b_encRec_bytes g)

theorem x2c_ok (m : X2C.Msg) (hwf : X2C.WF m) (bs : Bytes) (h : X2C.encode m = .ok bs) :
    LeafOK X2C.decode m (X2C.size m) bs := by
  have hb : bs = X2C.encodeBytes m := (except_ok_inj ((At4X2C.encode_ok m).symm.trans h)).symm
  refine ⟨At4X2C.encode_length m bs h, ?_, ?_⟩
  · subst hb
    have := At4X2C.decode_encodeBytes m hwf [] (X2C.size m)
    rwa [List.append_nil] at this
  · subst hb
    have h1 := At4X2C.encB1_lt m
    have h2 := At4X2C.encB2_lt m
    have h3 := At4X2C.encSetPointControl_lt m.set_point_control
    intro b hb
    simp only [X2C.encodeBytes, List.mem_cons, List.not_mem_nil, or_false] at hb
    omega

theorem x2d_encRec_bytes (a : X2D.AcStatusData) : AllBytes (X2D.encRec a) := by
  have h1 := At4X2D.encB1_lt a
  have h2 := At4X2D.encB2_lt a
  have h3 := At4X2D.encB3_lt a
  unfold X2D.encRec
  refine allBytes_append.mpr ⟨allBytes_append.mpr ⟨?_, allBytes_be16Bytes _⟩, allBytes_be16Bytes _⟩
  intro b hb
  simp only [List.mem_cons, List.not_mem_nil, or_false] at hb
  omega

theorem x2d_ok (m : X2D.Msg) (hwf : X2D.WF m) (bs : Bytes) (h : X2D.encode m = .ok bs) :
    LeafOK X2D.decode m (X2D.size m) bs := by
  obtain ⟨bs', h1, h2⟩ := At4X2D.decode_encode m hwf []
  have hb : bs' = bs := except_ok_inj (h1.symm.trans h)
  subst hb
  refine ⟨At4X2D.encode_length m bs' h, by rwa [List.append_nil] at h2, ?_⟩
  cases m with
  | request =>
    have hb : bs' = [] := except_ok_inj (h.symm.trans (At4X2D.encode_ok .request hwf))
    rw [hb]; exact allBytes_nil
  | status acs =>
    have hb : bs' = acs.flatMap X2D.encRec := except_ok_inj (h.symm.trans (At4X2D.encode_ok (.status acs) hwf))
    rw [hb]; exact allBytes_flatMap _ _ (fun a _ => x2d_encRec_bytes a)

theorem x37_encodeBytes_bytes (m : X37.Msg) (hwf : X37.WF m) : AllBytes (X37.encodeBytes m) := by
  cases m with
  | request => exact allBytes_nil
  | status l =>
    obtain ⟨on0, off0, on1, off1, on2, off2, on3, off3, rfl, -⟩ := At4X37.wfList_shape l hwf
    rw [At4X37.encodeBytes_wf]
    have z : AllBytes [0, 0, 0, 0] := by
      intro b hb
      simp only [List.mem_cons, List.not_mem_nil, or_false] at hb
      omega
    simp only [allBytes_append, allBytes_encTimerState, z, and_self]

theorem x37_ok (m : X37.Msg) (hwf : X37.WF m) (bs : Bytes) (h : X37.encode m = .ok bs) :
    LeafOK X37.decode m (X37.size m) bs := by
  have hb : bs = X37.encodeBytes m := (except_ok_inj ((At4X37.encode_ok m hwf).symm.trans h)).symm
  subst hb
  refine ⟨At4X37.encodeBytes_length m, ?_, x37_encodeBytes_bytes m hwf⟩
  have := At4X37.decode_encode m hwf []
  rwa [List.append_nil] at this

theorem x36_ok (m : X36.Msg) (hwf : X36.WF m) (bs : Bytes) (h : X36.encode m = .ok bs) :
    LeafOK X36.decode m (X36.size m) bs := by
  have hb : bs = X36.encodeBytes m := (except_ok_inj ((At4X36.encode_ok m hwf).symm.trans h)).symm
  subst hb
  refine ⟨At4X36.encodeBytes_length m, ?_, x37_encodeBytes_bytes m.toStatus hwf⟩
  have := At4X36.decode_encode m hwf []
  rwa [List.append_nil] at this

theorem ff10_ok (m : FF10.Msg) (hwf : FF10.WF m) (ht : ∀ t ∈ (ExtSub.errInfo m).texts, AllBytes t)
    (bs : Bytes) (h : FF10.encodeE m = .ok bs) : LeafOK FF10.decode m (FF10.size m) bs := by
  have hb : bs = FF10.encode m := (except_ok_inj ((At4FF10.encodeE_ok m hwf).symm.trans h)).symm
  subst hb
  refine ⟨At4FF10.encode_length m, ?_, ?_⟩
  · have := At4FF10.decode_encode m hwf []
    rwa [List.append_nil] at this
  · cases m with
    | request r =>
      intro b hb
      simp only [FF10.encode, List.mem_cons, List.not_mem_nil, or_false] at hb
      omega
    | message mm =>
      obtain ⟨-, hs⟩ := hwf
      rcases mm with ⟨ac, e⟩
      cases e with
      | none =>
        intro b hb
        simp only [FF10.encode, FF10.errText, Option.getD_none, List.length_nil, List.append_nil,
          List.mem_cons, List.not_mem_nil, or_false] at hb
        omega
      | some t =>
        obtain ⟨-, hl, -⟩ := hs t rfl
        have hbt : AllBytes t := ht t (by simp [ExtSub.texts])
        simp only [FF10.encode, FF10.errText, Option.getD_some]
        refine allBytes_append.mpr ⟨?_, hbt⟩
        intro b hb
        simp only [List.mem_cons, List.not_mem_nil, or_false] at hb
        omega

theorem ff11_ok (m : FF11.Msg) (hwf : FF11.WF m) (bs : Bytes) (h : FF11.encodeE m = .ok bs) :
    LeafOK FF11.decode m (FF11.size m) bs := by
  have hb : bs = FF11.encode m := (except_ok_inj ((At4FF11.encodeE_ok m hwf).symm.trans h)).symm
  subst hb
  refine ⟨At4FF11.encode_length m, ?_, At4FF11.encode_allBytes m hwf⟩
  have := At4FF11.decode_encode m hwf []
  rwa [List.append_nil] at this

theorem ff12_ok (m : FF12.Msg) (hwf : FF12.WF m) (ht : ∀ t ∈ (ExtSub.groupNames m).texts, AllBytes t)
    (bs : Bytes) (h : FF12.encodeE m = .ok bs) : LeafOK FF12.decode m (FF12.size m) bs := by
  have hb : bs = FF12.encode m := (except_ok_inj ((At4FF12.encodeE_ok m hwf).symm.trans h)).symm
  subst hb
  refine ⟨At4FF12.encode_length m, ?_, ?_⟩
  · have := At4FF12.decode_encode m hwf []
    rwa [List.append_nil] at this
  · cases m with
    | request r =>
      rcases r with ⟨g⟩
      cases g with
      | none => exact allBytes_nil
      | some n =>
        have hn : n < 256 := hwf n rfl
        intro b hb
        simp only [FF12.encode, List.mem_cons, List.not_mem_nil, or_false] at hb
        omega
    | message mm =>
      obtain ⟨-, -, hp⟩ := hwf
      refine allBytes_flatMap _ _ (fun p hpm => ?_)
      have hbt : AllBytes p.2 := ht p.2 (by simp only [ExtSub.texts]; exact List.mem_map.mpr ⟨p, hpm, rfl⟩)
      exact allBytes_cons.mpr ⟨(hp p hpm).1, allBytes_encodeCString _ _ hbt⟩

theorem ff20_ok (m : FF20.Msg) (hwf : FF20.WF m) (bs : Bytes) (h : FF20.encode m = .ok bs) :
    LeafOK FF20.decode m (FF20.size m) bs := by
  have hb : bs = FF20.encodeBytes m := (except_ok_inj ((At4FF20.encode_ok m hwf).symm.trans h)).symm
  subst hb
  refine ⟨At4FF20.encodeBytes_length m, ?_, ?_⟩
  · have := At4FF20.decode_encode m hwf []
    rwa [List.append_nil] at this
  · have hac : m.ac_number < 256 := hwf.1
    intro b hb
    simp only [FF20.encodeBytes, TimerCommon.QuickTimer.encodeBytes, TimerCommon.QuickTimer.encodeDuration,
      List.mem_cons, List.not_mem_nil, or_false] at hb
    omega

theorem ff30_ok (m : FF30.Msg) (hwf : FF30.WF m) (ht : ∀ t ∈ (ExtSub.consoleVer m).texts, AllBytes t)
    (bs : Bytes) (h : FF30.encodeE m = .ok bs) : LeafOK FF30.decode m (FF30.size m) bs := by
  have hb : bs = FF30.encode m := (except_ok_inj ((At4FF30.encodeE_ok m hwf).symm.trans h)).symm
  subst hb
  refine ⟨At4FF30.encode_length m, ?_, ?_⟩
  · have := At4FF30.decode_encode m hwf []
    rwa [List.append_nil] at this
  · cases m with
    | request => exact allBytes_nil
    | message mm =>
      obtain ⟨-, -, hl⟩ := hwf
      have hj : AllBytes (FF30.joined mm) :=
        allBytes_joinSep _ (by decide) _ (fun v hv => ht v (by simpa [ExtSub.texts] using hv))
      simp only [FF30.encode]
      refine allBytes_append.mpr ⟨?_, hj⟩
      intro b hb
      simp only [List.mem_cons, List.not_mem_nil, or_false] at hb
      rcases hb with rfl | rfl
      · split <;> omega
      · omega

/-! ### the 0x1F wrapper -/

theorem mapMsg_ok {M N : Type} (f : M → N) {r : Except DecErr (M × Bytes)} {m : M} {rest : Bytes}
    (h : r = .ok (m, rest)) : mapMsg f r = .ok (f m, rest) := by
  subst h; rfl

theorem mapMsg_ok_inv {M N : Type} (f : M → N) {r : Except DecErr (M × Bytes)} {n : N} {rest : Bytes}
    (h : mapMsg f r = .ok (n, rest)) : ∃ m, r = .ok (m, rest) ∧ n = f m := by
  cases r with
  | error e => cases h
  | ok v =>
    obtain ⟨m, r'⟩ := v
    simp only [mapMsg, Except.ok.injEq, Prod.mk.injEq] at h
    exact ⟨m, by rw [h.2], h.1.symm⟩

/-- the sub-message layer: the size handed to the wrapper is the number of bytes the sub-encoder writes,
    the sub-decoder selected by the sub-id undoes it, and only bytes are written -/
theorem ext_ok (s : ExtSub) (hwf : WFSub s) (body : Bytes) (h : ExtSub.encode s = .ok body) :
    ExtSub.size s = .ok body.length ∧ decodeSub s.messageId body.length body = .ok (s, []) ∧
    AllBytes body ∧ s.messageId < 65536 := by
  cases s with
  | errInfo m =>
    have L := ff10_ok m hwf.1 hwf.2 body h
    refine ⟨by rw [L.len]; rfl, ?_, L.bytes, by simp only [ExtSub.messageId]; decide⟩
    rw [L.len]
    simp only [decodeSub, ExtSub.messageId, ↓reduceIte]
    exact mapMsg_ok _ L.dec
  | acAbility m =>
    have L := ff11_ok m hwf.1 body h
    refine ⟨by rw [L.len]; rfl, ?_, L.bytes, by simp only [ExtSub.messageId]; decide⟩
    rw [L.len]
    simp only [decodeSub, ExtSub.messageId, X1FFF10ErrInfo.MESSAGE_ID, X1FFF11AcAbility.MESSAGE_ID,
      Nat.reduceEqDiff, ↓reduceIte]
    exact mapMsg_ok _ L.dec
  | groupNames m =>
    have L := ff12_ok m hwf.1 hwf.2 body h
    refine ⟨by rw [L.len]; rfl, ?_, L.bytes, by simp only [ExtSub.messageId]; decide⟩
    rw [L.len]
    simp only [decodeSub, ExtSub.messageId, X1FFF10ErrInfo.MESSAGE_ID, X1FFF11AcAbility.MESSAGE_ID,
      X1FFF12GroupNames.MESSAGE_ID, Nat.reduceEqDiff, ↓reduceIte]
    exact mapMsg_ok _ L.dec
  | quickTimer m =>
    have L := ff20_ok m hwf.1 body h
    refine ⟨by rw [L.len]; rfl, ?_, L.bytes, by simp only [ExtSub.messageId]; decide⟩
    rw [L.len]
    simp only [decodeSub, ExtSub.messageId, X1FFF10ErrInfo.MESSAGE_ID, X1FFF11AcAbility.MESSAGE_ID,
      X1FFF12GroupNames.MESSAGE_ID, X1FFF20QuickTimer.MESSAGE_ID, Nat.reduceEqDiff, ↓reduceIte]
    exact mapMsg_ok _ L.dec
  | consoleVer m =>
    have L := ff30_ok m hwf.1 hwf.2 body h
    refine ⟨by rw [L.len]; rfl, ?_, L.bytes, by simp only [ExtSub.messageId]; decide⟩
    rw [L.len]
    simp only [decodeSub, ExtSub.messageId, X1FFF10ErrInfo.MESSAGE_ID, X1FFF11AcAbility.MESSAGE_ID,
      X1FFF12GroupNames.MESSAGE_ID, X1FFF20QuickTimer.MESSAGE_ID, X1FFF30ConsoleVer.MESSAGE_ID,
      Nat.reduceEqDiff, ↓reduceIte]
    exact mapMsg_ok _ L.dec
  | unsupported id raw => exact hwf.1.elim

/-- what `ExtendedMessageEncoder.encode` writes: the big-endian sub-id, then the sub-message -/
theorem encodeExt_inv (s : ExtSub) (bs : Bytes) (h : encodeExt s = .ok bs) :
    ∃ n body, ExtSub.size s = .ok n ∧ ExtSub.encode s = .ok body ∧ bs = be16Bytes s.messageId ++ body := by
  unfold encodeExt at h
  cases hs : ExtSub.size s with
  | error e => simp [hs, bind, Except.bind] at h
  | ok n =>
    cases he : ExtSub.encode s with
    | error e => simp [hs, he, bind, Except.bind] at h
    | ok body =>
      simp only [hs, he, bind, Except.bind, pure, Except.pure, Except.ok.injEq] at h
      exact ⟨n, body, rfl, rfl, h.symm⟩

/-! ### the registry: size, round trip, byte range -/

theorem decodeMsg_leaf (t f pid id len : Nat) (bs : Bytes) :
    decodeMsg ⟨t, f, pid, id, len⟩ bs =
      if id = X1FExt.MESSAGE_ID then decodeExt ⟨t, f, pid, id, len⟩ bs
      else if id = X2AGroupCtrl.MESSAGE_ID then mapMsg .groupCtrl (X2A.decode bs len)
      else if id = X2BGroupStatus.MESSAGE_ID then mapMsg .groupStatus (X2B.decode bs len)
      else if id = X2CAcCtrl.MESSAGE_ID then mapMsg .acCtrl (X2C.decode bs len)
      else if id = X2DAcStatus.MESSAGE_ID then mapMsg .acStatus (X2D.decode bs len)
      else if id = X36AcTimerCtrl.MESSAGE_ID then mapMsg .acTimerCtrl (X36.decode bs len)
      else if id = X37AcTimerStatus.MESSAGE_ID then mapMsg .acTimerStatus (X37.decode bs len)
      else .ok (.unsupported id (bs.take len), bs.drop len) := rfl

theorem msg_ok (m : Msg) (hwf : WFMsg m) (bs : Bytes) (h : encodeMsg m = .ok bs) :
    sizeMsg m = .ok bs.length ∧
    (∀ t f pid, decodeMsg ⟨t, f, pid, m.messageId, bs.length⟩ bs = .ok (m, [])) ∧ AllBytes bs := by
  cases m with
  | extended s =>
    obtain ⟨n, body, -, henc, rfl⟩ := encodeExt_inv s bs h
    obtain ⟨hsz, hdec, hb, hid⟩ := ext_ok s hwf body henc
    have hlen : (be16Bytes s.messageId ++ body).length = 2 + body.length := by
      simp only [be16Bytes, List.length_append, List.length_cons, List.length_nil]
    refine ⟨?_, ?_, allBytes_append.mpr ⟨allBytes_be16Bytes _, hb⟩⟩
    · rw [hlen]
      simp only [sizeMsg, hsz, Except.map, subHeaderSize, X1FExt.SUB_HEADER_STRUCT_size]
    · intro t f pid
      rw [hlen, decodeMsg_leaf]
      simp only [Msg.messageId, ↓reduceIte, decodeExt, be16Bytes, List.cons_append, List.nil_append,
        subHeaderSize, X1FExt.SUB_HEADER_STRUCT_size, Nat.add_sub_cancel_left, be16_be16Bytes _ hid]
      exact mapMsg_ok _ hdec
  | groupCtrl m =>
    have L := x2a_ok m bs h
    refine ⟨by rw [L.len]; rfl, ?_, L.bytes⟩
    intro t f pid
    rw [L.len, decodeMsg_leaf]
    simp only [Msg.messageId, X1FExt.MESSAGE_ID, X2AGroupCtrl.MESSAGE_ID, Nat.reduceEqDiff, ↓reduceIte]
    exact mapMsg_ok _ L.dec
  | groupStatus m =>
    have hb : bs = X2B.encode m := (except_ok_inj h).symm
    subst hb
    have L := x2b_ok m hwf
    refine ⟨by rw [L.len]; rfl, ?_, L.bytes⟩
    intro t f pid
    rw [L.len, decodeMsg_leaf]
    simp only [Msg.messageId, X1FExt.MESSAGE_ID, X2AGroupCtrl.MESSAGE_ID, X2BGroupStatus.MESSAGE_ID,
      Nat.reduceEqDiff, ↓reduceIte]
    exact mapMsg_ok _ L.dec
  | acCtrl m =>
    have L := x2c_ok m hwf bs h
    refine ⟨by rw [L.len]; rfl, ?_, L.bytes⟩
    intro t f pid
    rw [L.len, decodeMsg_leaf]
    simp only [Msg.messageId, X1FExt.MESSAGE_ID, X2AGroupCtrl.MESSAGE_ID, X2BGroupStatus.MESSAGE_ID,
      X2CAcCtrl.MESSAGE_ID, Nat.reduceEqDiff, ↓reduceIte]
    exact mapMsg_ok _ L.dec
  | acStatus m =>
    have L := x2d_ok m hwf bs h
    refine ⟨by rw [L.len]; rfl, ?_, L.bytes⟩
    intro t f pid
    rw [L.len, decodeMsg_leaf]
    simp only [Msg.messageId, X1FExt.MESSAGE_ID, X2AGroupCtrl.MESSAGE_ID, X2BGroupStatus.MESSAGE_ID,
      X2CAcCtrl.MESSAGE_ID, X2DAcStatus.MESSAGE_ID, Nat.reduceEqDiff, ↓reduceIte]
    exact mapMsg_ok _ L.dec
  | acTimerCtrl m =>
    have L := x36_ok m hwf bs h
    refine ⟨by rw [L.len]; rfl, ?_, L.bytes⟩
    intro t f pid
    rw [L.len, decodeMsg_leaf]
    simp only [Msg.messageId, X1FExt.MESSAGE_ID, X2AGroupCtrl.MESSAGE_ID, X2BGroupStatus.MESSAGE_ID,
      X2CAcCtrl.MESSAGE_ID, X2DAcStatus.MESSAGE_ID, X36AcTimerCtrl.MESSAGE_ID, Nat.reduceEqDiff, ↓reduceIte]
    exact mapMsg_ok _ L.dec
  | acTimerStatus m =>
    have L := x37_ok m hwf bs h
    refine ⟨by rw [L.len]; rfl, ?_, L.bytes⟩
    intro t f pid
    rw [L.len, decodeMsg_leaf]
    simp only [Msg.messageId, X1FExt.MESSAGE_ID, X2AGroupCtrl.MESSAGE_ID, X2BGroupStatus.MESSAGE_ID,
      X2CAcCtrl.MESSAGE_ID, X2DAcStatus.MESSAGE_ID, X36AcTimerCtrl.MESSAGE_ID, X37AcTimerStatus.MESSAGE_ID,
      Nat.reduceEqDiff, ↓reduceIte]
    exact mapMsg_ok _ L.dec
  | unsupported id raw => exact hwf.elim

/-- the length computed in advance for the header (`encoder.size(message)`, nested sub-message included:
    `2 + size sub`) is the number of payload bytes the encoder writes -/
theorem size_eq_length (m : Msg) (bs : Bytes) (hwf : WFMsg m) (h : encodeMsg m = .ok bs) :
    sizeMsg m = .ok bs.length := (msg_ok m hwf bs h).1

/-- the registry's decoder, called with the header the factory builds, undoes the registry's encoder -/
theorem decodeMsg_encodeMsg (m : Msg) (bs : Bytes) (pid : Nat) (hwf : WFMsg m) (h : encodeMsg m = .ok bs) :
    decodeMsg (mkHeader pid m bs.length) bs = .ok (m, []) := (msg_ok m hwf bs h).2.1 _ _ _

theorem encodeMsg_bytes (m : Msg) (bs : Bytes) (hwf : WFMsg m) (h : encodeMsg m = .ok bs) : AllBytes bs :=
  (msg_ok m hwf bs h).2.2

/-- the extended wrapper's size is `2 + ` the sub-message's size, and what it writes starts with the
    big-endian sub-message id -/
theorem extended_layout (s : ExtSub) (bs : Bytes) (hwf : WFSub s) (h : encodeMsg (.extended s) = .ok bs) :
    ∃ body, ExtSub.encode s = .ok body ∧ ExtSub.size s = .ok body.length ∧
      sizeMsg (.extended s) = .ok (2 + body.length) ∧ bs = be16Bytes s.messageId ++ body := by
  obtain ⟨n, body, -, henc, rfl⟩ := encodeExt_inv s bs h
  obtain ⟨hsz, -, -, -⟩ := ext_ok s hwf body henc
  refine ⟨body, henc, hsz, ?_, rfl⟩
  simp only [sizeMsg, hsz, Except.map, subHeaderSize, X1FExt.SUB_HEADER_STRUCT_size]

/-! ### whole frames -/

theorem writeFrame_inv (h : Hdr) (m : Msg) (fr : Bytes) (hfr : writeFrame h m = .ok fr) :
    ∃ hb ck payload, At4.Hdr.encode h = .ok (hb, ck) ∧ encodeMsg m = .ok payload ∧
      Frame.frame hb ck payload = some fr := by
  unfold writeFrame at hfr
  cases he : At4.Hdr.encode h with
  | error e => simp [he, bind, Except.bind] at hfr
  | ok v =>
    obtain ⟨hb, ck⟩ := v
    cases hm : encodeMsg m with
    | error e => simp [he, hm, bind, Except.bind] at hfr
    | ok payload =>
      cases hf : Frame.frame hb ck payload with
      | none => simp [he, hm, hf, bind, Except.bind] at hfr
      | some fr' =>
        simp only [he, hm, hf, bind, Except.bind, pure, Except.pure, Except.ok.injEq] at hfr
        exact ⟨hb, ck, payload, rfl, rfl, by rw [← hfr]; exact hf⟩

theorem frameOf_inv (pid : Nat) (m : Msg) (fr : Bytes) (hfr : frameOf pid m = .ok fr) :
    ∃ n hb ck payload, sizeMsg m = .ok n ∧ At4.Hdr.encode (mkHeader pid m n) = .ok (hb, ck) ∧
      encodeMsg m = .ok payload ∧ Frame.frame hb ck payload = some fr := by
  unfold frameOf at hfr
  cases hs : sizeMsg m with
  | error e => simp [hs, bind, Except.bind] at hfr
  | ok n =>
    simp only [hs, bind, Except.bind] at hfr
    obtain ⟨hb, ck, payload, h1, h2, h3⟩ := writeFrame_inv _ m fr hfr
    exact ⟨n, hb, ck, payload, rfl, h1, h2, h3⟩

/-- **whole-frame round trip**: the bytes `socket.send(m)` hands to the stream writer (size → header factory
    with packet id `pid` → header encoder → message encoder → CRC) are parsed by `_read_one_message` into the
    factory's header and the message `m`, and whatever follows the frame is left untouched.
    (`pid < 256` and "the payload fits the 16-bit length field" follow from `frameOf pid m = .ok fr`.) -/
theorem frame_roundtrip (m : Msg) (pid : Nat) (fr rest : Bytes) (hwf : WFMsg m)
    (hfr : frameOf pid m = .ok fr) :
    ∃ n, sizeMsg m = .ok n ∧ fr.length = At4.Hdr.headerLength + n + 2 ∧
      Frame.parseOne proto (fr ++ rest) = .deliver (mkHeader pid m n) m rest := by
  obtain ⟨n, hb, ck, payload, hs, he, hm, hf⟩ := frameOf_inv pid m fr hfr
  obtain ⟨hsz, hdec, hbytes⟩ := msg_ok m hwf payload hm
  have hn : n = payload.length := except_ok_inj (hs.symm.trans hsz)
  subst hn
  have hwfh : At4.Hdr.WF (mkHeader pid m payload.length) := (Frame.at4_encode_eq _ hb ck he).1
  refine ⟨payload.length, hs, ?_, ?_⟩
  · obtain ⟨hl, -, -⟩ := Frame.at4_hdr_roundtrip _ hb ck [] hwfh he
    obtain ⟨-, -, -, hck⟩ := Frame.at4_hdr_checksum_span _ hb ck hwfh he
    rw [Frame.frame_eq hb ck payload fr hck hbytes hf]
    simp only [List.length_append, hl]
    rfl
  · exact Frame.at4_frame_roundtrip proto rfl rfl rfl (mkHeader pid m payload.length) m hb ck payload fr rest
      hwfh he rfl (hdec _ _ _) hbytes hf

/-- on a well-formed message every registered encoder succeeds -/
theorem encodeMsg_ok (m : Msg) (hwf : WFMsg m) : ∃ bs, encodeMsg m = .ok bs := by
  cases m with
  | extended s =>
    have hs : ∃ n, ExtSub.size s = .ok n := by
      cases s <;> first | exact ⟨_, rfl⟩ | exact hwf.1.elim
    have he : ∃ body, ExtSub.encode s = .ok body := by
      cases s with
      | errInfo m => exact ⟨_, At4FF10.encodeE_ok m hwf.1⟩
      | acAbility m => exact ⟨_, At4FF11.encodeE_ok m hwf.1⟩
      | groupNames m => exact ⟨_, At4FF12.encodeE_ok m hwf.1⟩
      | quickTimer m => exact ⟨_, At4FF20.encode_ok m hwf.1⟩
      | consoleVer m => exact ⟨_, At4FF30.encodeE_ok m hwf.1⟩
      | unsupported id raw => exact hwf.1.elim
    obtain ⟨n, hn⟩ := hs
    obtain ⟨body, hb⟩ := he
    refine ⟨be16Bytes s.messageId ++ body, ?_⟩
    simp only [encodeMsg, encodeExt, hn, hb, bind, Except.bind, pure, Except.pure]
  | groupCtrl m => exact ⟨_, At4X2A.encode_ok m hwf⟩
  | groupStatus m => exact ⟨_, rfl⟩
  | acCtrl m => exact ⟨_, At4X2C.encode_ok m⟩
  | acStatus m => exact ⟨_, At4X2D.encode_ok m hwf⟩
  | acTimerCtrl m => exact ⟨_, At4X36.encode_ok m hwf⟩
  | acTimerStatus m => exact ⟨_, At4X37.encode_ok m hwf⟩
  | unsupported id raw => exact hwf.elim

theorem messageId_lt (m : Msg) (hwf : WFMsg m) : m.messageId < 256 := by
  cases m <;> first | exact hwf.elim | (simp only [Msg.messageId]; decide)

/-- the send path does not raise on a well-formed message whose payload fits the 16-bit length field -/
theorem frameOf_ok (m : Msg) (pid : Nat) (hwf : WFMsg m) (hpid : pid < 256)
    (hfit : ∀ n, sizeMsg m = .ok n → n < 65536) : ∃ fr, frameOf pid m = .ok fr := by
  obtain ⟨payload, hm⟩ := encodeMsg_ok m hwf
  obtain ⟨hsz, -, hbytes⟩ := msg_ok m hwf payload hm
  have hid := messageId_lt m hwf
  have hwfh : At4.Hdr.WF (mkHeader pid m payload.length) := by
    refine ⟨?_, by simp only [mkHeader]; decide, hpid, hid, hfit _ hsz⟩
    simp only [mkHeader]
    split <;> decide
  obtain ⟨⟨hb, ck⟩, he⟩ := (Frame.at4_encode_ok_iff _).mpr hwfh
  obtain ⟨-, -, -, hck⟩ := Frame.at4_hdr_checksum_span _ hb ck hwfh he
  refine ⟨hb ++ payload ++ PyAirtouch.Spec.checkBytes (ck ++ payload), ?_⟩
  simp only [frameOf, writeFrame, hsz, he, hm, Frame.frame_isSome hb ck payload hck hbytes, bind,
    Except.bind, pure, Except.pure]

/-! ### addressing (against the constants the translator read off the real header factory) -/

theorem mkHeader_to_address (pid : Nat) (m : Msg) (n : Nat) :
    (mkHeader pid m n).to_address =
      if m.messageId = X1FExt.MESSAGE_ID then Registry.toAddressExtended else Registry.toAddressNormal := rfl

theorem mkHeader_from_address (pid : Nat) (m : Msg) (n : Nat) :
    (mkHeader pid m n).from_address = Registry.fromAddress := rfl

theorem mkHeader_fields (pid : Nat) (m : Msg) (n : Nat) :
    (mkHeader pid m n).packet_id = pid ∧ (mkHeader pid m n).message_id = m.messageId ∧
    (mkHeader pid m n).message_length = n := ⟨rfl, rfl, rfl⟩

/-- to-address 0x90 exactly for extended messages, else 0x80 -/
theorem mkHeader_to_address_wf (pid : Nat) (m : Msg) (n : Nat) (hwf : WFMsg m) :
    (mkHeader pid m n).to_address =
      if m.isExtended then Registry.toAddressExtended else Registry.toAddressNormal := by
  cases m <;> first | exact hwf.elim | rfl

theorem toAddress_values : Registry.toAddressExtended = 0x90 ∧ Registry.toAddressNormal = 0x80 ∧
    Registry.fromAddress = 0xB0 := ⟨rfl, rfl, rfl⟩

/-- the packet id counter stays a byte -/
theorem nextPacketId_lt (pid : Nat) : nextPacketId pid < Registry.packetIdModulus := by
  unfold nextPacketId Registry.packetIdModulus; omega

/-! ### unknown message types are preserved (C17) -/

/-- every type byte without a registered decoder: the whole payload is preserved, unchanged, in an
    `UnsupportedMessage` carrying the type byte; nothing is left over, nothing is raised -/
theorem decodeMsg_unknown (id : Nat) (hid : id ∉ Registry.decoderIds) (t f pid : Nat) (b : Bytes) :
    decodeMsg ⟨t, f, pid, id, b.length⟩ b = .ok (.unsupported id b, []) := by
  simp only [Registry.decoderIds, List.mem_cons, List.not_mem_nil, or_false, not_or] at hid
  obtain ⟨h1, h2, h3, h4, h5, h6, h7⟩ := hid
  rw [decodeMsg_leaf]
  simp only [X1FExt.MESSAGE_ID, X2AGroupCtrl.MESSAGE_ID, X2BGroupStatus.MESSAGE_ID, X2CAcCtrl.MESSAGE_ID,
    X2DAcStatus.MESSAGE_ID, X36AcTimerCtrl.MESSAGE_ID, X37AcTimerStatus.MESSAGE_ID, h1, h2, h3, h4, h5, h6, h7,
    ↓reduceIte, List.take_length, List.drop_length]

/-- every 0x1F sub-id without a registered sub-decoder: the bytes behind the two id bytes are preserved in
    `ExtendedMessage(UnsupportedMessage(sub_id, rest))`; nothing is left over -/
theorem decodeMsg_unknown_sub (hi lo : Nat) (hid : be16 hi lo ∉ Registry.extDecoderIds) (t f pid : Nat)
    (rest : Bytes) :
    decodeMsg ⟨t, f, pid, X1FExt.MESSAGE_ID, 2 + rest.length⟩ (hi :: lo :: rest) =
      .ok (.extended (.unsupported (be16 hi lo) rest), []) := by
  simp only [Registry.extDecoderIds, List.mem_cons, List.not_mem_nil, or_false, not_or] at hid
  obtain ⟨h1, h2, h3, h4, h5⟩ := hid
  rw [decodeMsg_leaf]
  simp only [↓reduceIte, decodeExt, subHeaderSize, X1FExt.SUB_HEADER_STRUCT_size, Nat.add_sub_cancel_left,
    decodeSub, X1FFF10ErrInfo.MESSAGE_ID, X1FFF11AcAbility.MESSAGE_ID, X1FFF12GroupNames.MESSAGE_ID,
    X1FFF20QuickTimer.MESSAGE_ID, X1FFF30ConsoleVer.MESSAGE_ID, h1, h2, h3, h4, h5, List.take_length,
    List.drop_length, mapMsg]

/-- the same through the receive path's eyes: for every sub-id value (two bytes) -/
theorem decodeMsg_unknown_sub' (subId : Nat) (hlt : subId < 65536) (hid : subId ∉ Registry.extDecoderIds)
    (t f pid : Nat) (rest : Bytes) :
    decodeMsg ⟨t, f, pid, X1FExt.MESSAGE_ID, (be16Bytes subId ++ rest).length⟩ (be16Bytes subId ++ rest) =
      .ok (.extended (.unsupported subId rest), []) := by
  have := decodeMsg_unknown_sub (subId / 256 % 256) (subId % 256) (by rw [be16_be16Bytes _ hlt]; exact hid)
    t f pid rest
  rw [be16_be16Bytes _ hlt] at this
  have hl : (be16Bytes subId ++ rest).length = 2 + rest.length := by
    simp only [be16Bytes, List.length_append, List.length_cons, List.length_nil]
  rw [hl]
  exact this

/-- a decoder only ever answers `UnsupportedMessage` for an unregistered type byte, and then it carries
    exactly the announced part of the buffer -/
theorem decodeMsg_unsupported_inv (h : Hdr) (b : Bytes) (id : Nat) (raw rest : Bytes)
    (hd : decodeMsg h b = .ok (.unsupported id raw, rest)) :
    id = h.message_id ∧ id ∉ Registry.decoderIds ∧ raw = b.take h.message_length ∧
    rest = b.drop h.message_length := by
  unfold decodeMsg at hd
  split at hd
  · unfold decodeExt at hd
    split at hd
    · obtain ⟨x, -, hx⟩ := mapMsg_ok_inv _ hd; cases hx
    · cases hd
  · split at hd
    · obtain ⟨x, -, hx⟩ := mapMsg_ok_inv _ hd; cases hx
    · split at hd
      · obtain ⟨x, -, hx⟩ := mapMsg_ok_inv _ hd; cases hx
      · split at hd
        · obtain ⟨x, -, hx⟩ := mapMsg_ok_inv _ hd; cases hx
        · split at hd
          · obtain ⟨x, -, hx⟩ := mapMsg_ok_inv _ hd; cases hx
          · split at hd
            · obtain ⟨x, -, hx⟩ := mapMsg_ok_inv _ hd; cases hx
            · split at hd
              · obtain ⟨x, -, hx⟩ := mapMsg_ok_inv _ hd; cases hx
              · rename_i h1 h2 h3 h4 h5 h6 h7
                simp only [Except.ok.injEq, Prod.mk.injEq, Msg.unsupported.injEq] at hd
                obtain ⟨⟨rfl, rfl⟩, rfl⟩ := hd
                refine ⟨rfl, ?_, rfl, rfl⟩
                simp only [Registry.decoderIds, List.mem_cons, List.not_mem_nil, or_false, not_or]
                exact ⟨h1, h2, h3, h4, h5, h6, h7⟩

/-! ### the run-time well-formedness test -/

theorem allBytesBool_iff' (bs : Bytes) : allBytesBool bs = true ↔ AllBytes bs :=
  allBytesBool_iff allBytesBool (fun _ => rfl) bs

theorem ff11NameBool_iff (s : Bytes) : ff11NameBool s = true ↔ FF11.WFName s := by
  simp only [ff11NameBool, FF11.WFName, Bool.and_eq_true, decide_eq_true_eq, List.all_eq_true,
    allBytesBool_iff', and_assoc]

theorem ff11RecBool_iff (ac : FF11.AcAbility) : ff11RecBool ac = true ↔ FF11.WFRec ac := by
  have hg : ff11GroupsBool ac.groups = true ↔
      (∀ gs, ac.groups = some gs → gs.Pairwise (· < ·) ∧ ∀ g ∈ gs, g ≤ X1FFF11AcAbility.MAX_GROUP_NUMBER) := by
    cases ac.groups with
    | none => simp [ff11GroupsBool]
    | some gs =>
      simp only [ff11GroupsBool, Bool.and_eq_true, decide_eq_true_eq, List.all_eq_true, Option.some.injEq]
      constructor
      · rintro h gs' rfl; exact h
      · intro h; exact h gs rfl
  simp only [ff11RecBool, FF11.WFRec, Bool.and_eq_true, decide_eq_true_eq, ff11NameBool_iff, and_assoc]
  rw [hg]

theorem ff11WfBool_iff (m : FF11.Msg) : ff11WfBool m = true ↔ FF11.WF m := by
  cases m with
  | request n =>
    cases n with
    | none => simp [ff11WfBool, FF11.WF]
    | some n => simp [ff11WfBool, FF11.WF]
  | ability acs =>
    simp only [ff11WfBool, FF11.WF, Bool.and_eq_true, Bool.not_eq_true', List.isEmpty_eq_false_iff,
      List.all_eq_true, ff11RecBool_iff, ne_eq]

theorem extSub_wfBool_iff (s : ExtSub) : s.wfBool = true ↔ s.WF := by
  cases s with
  | errInfo m => exact At4FF10.wfBool_iff m
  | acAbility m => exact ff11WfBool_iff m
  | groupNames m => exact At4FF12.wfBool_iff m
  | quickTimer m => exact At4FF20.wfBool_iff m
  | consoleVer m => exact At4FF30.wfBool_iff m
  | unsupported id raw => simp [ExtSub.wfBool, ExtSub.WF]

theorem wfSubBool_iff (s : ExtSub) : wfSubBool s = true ↔ WFSub s := by
  simp only [wfSubBool, WFSub, Bool.and_eq_true, extSub_wfBool_iff, List.all_eq_true, allBytesBool_iff']

theorem wfMsgBool_iff (m : Msg) : wfMsgBool m = true ↔ WFMsg m := by
  cases m with
  | extended s => exact wfSubBool_iff s
  | groupCtrl m => exact At4X2A.wfBool_iff m
  | groupStatus m => exact At4X2B.wfBool_iff m
  | acCtrl m => exact At4X2C.wfBool_iff m
  | acStatus m => exact At4X2D.wfBool_iff m
  | acTimerCtrl m => exact At4X36.wfBool_iff m
  | acTimerStatus m => exact At4X37.wfBool_iff m
  | unsupported id raw => simp [wfMsgBool, WFMsg]

/-- every message the AC-ability decoder produces from bytes is well formed (so is every extended
    AC-ability message the receive path delivers) -/
theorem ff11_decoded_wf (buffer : Bytes) (hb : AllBytes buffer) (msgLen : Nat) (m : FF11.Msg) (rest : Bytes)
    (h : FF11.decode buffer msgLen = .ok (m, rest)) : WFMsg (.extended (.acAbility m)) :=
  ⟨At4FF11.decode_WF buffer hb msgLen m rest h, fun _ ht => by cases ht⟩

/-! ### non-vacuity: concrete frames -/

-- the vendor's group-status request `55 55 80 b0 01 2b 00 00 f5 2f`
example : frameOf 1 (.groupStatus .request) = .ok [0x55, 0x55, 0x80, 0xb0, 0x01, 0x2b, 0x00, 0x00, 0xf5, 0x2f] := by
  decide +kernel
example : WFMsg (.groupStatus .request) := trivial
-- an extended message goes to address 0x90 and carries the two-byte sub-id: "AC ability of all ACs"
example : frameOf 1 (.extended (.acAbility (.request none))) =
    .ok [0x55, 0x55, 0x90, 0xb0, 0x01, 0x1f, 0x00, 0x02, 0xff, 0x11, 0x83, 0x4c] := by decide +kernel
-- received: it comes back as the same message, the next frame's bytes stay in the buffer
example : Frame.parseOne proto ([0x55, 0x55, 0x90, 0xb0, 0x01, 0x1f, 0x00, 0x02, 0xff, 0x11, 0x83, 0x4c] ++ [0x55]) =
    .deliver (mkHeader 1 (.extended (.acAbility (.request none))) 2) (.extended (.acAbility (.request none))) [0x55] := by
  decide +kernel
-- an unknown type byte 0x45 and an unknown sub-id 0xFF77 are delivered as unsupported messages
example : decodeMsg ⟨0xb0, 0x80, 7, 0x45, 3⟩ [1, 2, 3] = .ok (.unsupported 0x45 [1, 2, 3], []) := by decide +kernel
example : decodeMsg ⟨0xb0, 0x90, 7, 0x1f, 5⟩ [0xff, 0x77, 1, 2, 3] =
    .ok (.extended (.unsupported 0xff77 [1, 2, 3]), []) := by decide +kernel
-- an `UnsupportedMessage` cannot be sent: `get_encoder` raises `NotImplementedError`
example : frameOf 1 (.unsupported 0x45 [1, 2, 3]) = .error .notImplemented := by decide +kernel

end PyAirtouch.Lemmas.Registry4
