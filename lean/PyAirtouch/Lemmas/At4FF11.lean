import PyAirtouch.Model.At4.FF11
/-!
Round trip, length and termination-related lemmas for the AirTouch 4 AC Ability codec
(`at4/comms/x1FFF11_ac_ability.py`).  The general C-string / bitmap lemmas at the top are reused by
`Lemmas/At5FF11.lean`.
-/
namespace PyAirtouch.Lemmas.At4FF11
open PyAirtouch.Model

/-! ### C strings -/

theorem encodeCString_length (s : Bytes) (n : Nat) : (encodeCString s n).length = n := by
  simp only [encodeCString, List.length_take, List.length_append, List.length_replicate]
  omega

theorem takeWhile_ne_zero_append_replicate (s : Bytes) (k : Nat) (h0 : ∀ b ∈ s, b ≠ 0) :
    (s ++ List.replicate k 0).takeWhile (· ≠ 0) = s := by
  induction s with
  | nil => cases k <;> simp [List.replicate_succ]
  | cons b s ih =>
    have hb : b ≠ 0 := h0 b (by simp)
    simp only [List.cons_append, List.takeWhile_cons, hb, ne_eq, not_false_eq_true, decide_true, ↓reduceIte]
    rw [ih (fun x hx => h0 x (by simp [hx]))]

theorem cStringPrefix_encodeCString (s : Bytes) (n : Nat) (hl : s.length ≤ n) (h0 : ∀ b ∈ s, b ≠ 0) :
    cStringPrefix (encodeCString s n) = s := by
  have hlen : (s ++ List.replicate (n - s.length) 0).length ≤ n := by
    simp only [List.length_append, List.length_replicate]; omega
  simp only [cStringPrefix, encodeCString, List.take_of_length_le hlen]
  exact takeWhile_ne_zero_append_replicate s _ h0

/-- `decode_c_string(struct.pack("<n>s", name.encode()))` gives the name back -/
theorem decodeCString_encodeCString (s : Bytes) (n : Nat) (hl : s.length ≤ n) (h0 : ∀ b ∈ s, b ≠ 0)
    (hu : utf8Valid s = true) : decodeCString (encodeCString s n) = .ok s := by
  simp only [decodeCString, cStringPrefix_encodeCString s n hl h0, hu, ↓reduceIte]

theorem allBytes_encodeCString (s : Bytes) (n : Nat) (hs : AllBytes s) : AllBytes (encodeCString s n) := by
  intro b hb
  have hb' := List.mem_of_mem_take hb
  rcases List.mem_append.mp hb' with h | h
  · exact hs b h
  · have := (List.mem_replicate.mp h).2
    omega

theorem mem_takeWhile_imp {p : Nat → Bool} (l : Bytes) (x : Nat) (h : x ∈ l.takeWhile p) : p x = true := by
  induction l with
  | nil => simp at h
  | cons a l ih =>
    by_cases hp : p a = true
    · simp only [List.takeWhile_cons, hp, ↓reduceIte, List.mem_cons] at h
      rcases h with rfl | h
      · exact hp
      · exact ih h
    · simp [hp] at h

/-- what `decode_c_string` returns: a NUL-free valid UTF-8 prefix of the field -/
theorem decodeCString_ok (raw name : Bytes) (h : decodeCString raw = .ok name) (hb : AllBytes raw) :
    name.length ≤ raw.length ∧ (∀ b ∈ name, b ≠ 0) ∧ utf8Valid name = true ∧ AllBytes name := by
  simp only [decodeCString] at h
  split at h
  · rename_i hu
    have hn : name = cStringPrefix raw := by injection h with h; exact h.symm
    subst hn
    refine ⟨(List.takeWhile_prefix _).length_le, fun b hbm => ?_, hu, fun b hbm => ?_⟩
    · have := mem_takeWhile_imp raw b hbm
      simpa using this
    · exact hb b ((List.takeWhile_prefix _).subset hbm)
  · cases h

/-! ### group bitmaps: a strictly increasing list below `n` ↔ an `n`-bit mask -/

/-- the bitmask `Σ 2^g` (what `_encode_group_display` adds up) -/
def mask (gs : List Nat) : Nat := (gs.map (fun g => 2 ^ g)).sum

theorem bitToBool_eq_testBit (x i : Nat) : bitToBool x i = x.testBit i := by
  simp [bitToBool, Nat.testBit_eq_decide_div_mod_eq]

/-- for a strictly decreasing list below `n`: the mask is below `2^n` and its set bits are the members -/
theorem mask_desc (gs : List Nat) : ∀ n, gs.Pairwise (· > ·) → (∀ g ∈ gs, g < n) →
    mask gs < 2 ^ n ∧ ∀ k, (mask gs).testBit k = decide (k ∈ gs) := by
  induction gs with
  | nil => intro n _ _; exact ⟨by simp [mask, Nat.two_pow_pos], fun k => by simp [mask]⟩
  | cons g tl ih =>
    intro n hp hlt
    have hp' := List.pairwise_cons.mp hp
    obtain ⟨hlt', hbits⟩ := ih g hp'.2 (fun x hx => hp'.1 x hx)
    have hg : g < n := hlt g (by simp)
    have hm : mask (g :: tl) = 2 ^ g + mask tl := by simp [mask]
    have hpow : 2 ^ (g + 1) ≤ 2 ^ n := Nat.pow_le_pow_right (by decide) hg
    have hlt2 : 2 ^ g + mask tl < 2 ^ (g + 1) := by rw [Nat.pow_succ]; omega
    refine ⟨by rw [hm]; omega, fun k => ?_⟩
    rw [hm]
    rcases Nat.lt_trichotomy k g with hk | hk | hk
    · rw [Nat.testBit_two_pow_add_gt hk, hbits]
      have : k ≠ g := by omega
      simp [this]
    · subst hk
      rw [Nat.testBit_two_pow_add_eq, Nat.testBit_lt_two_pow hlt']
      simp
    · have h1 : 2 ^ g + mask tl < 2 ^ k :=
        Nat.lt_of_lt_of_le hlt2 (Nat.pow_le_pow_right (by decide) hk)
      rw [Nat.testBit_lt_two_pow h1]
      have hne : k ≠ g := by omega
      have hnm : k ∉ tl := fun hx => by have := hp'.1 k hx; omega
      simp [hne, hnm]

theorem mask_reverse (gs : List Nat) : mask gs.reverse = mask gs := by
  simp only [mask, List.map_reverse, List.sum_reverse]

/-- the same for a strictly increasing list -/
theorem mask_asc (gs : List Nat) (n : Nat) (hp : gs.Pairwise (· < ·)) (hlt : ∀ g ∈ gs, g < n) :
    mask gs < 2 ^ n ∧ ∀ k, bitToBool (mask gs) k = decide (k ∈ gs) := by
  have hr : gs.reverse.Pairwise (· > ·) := List.pairwise_reverse.mpr hp
  have := mask_desc gs.reverse n hr (fun g hg => hlt g (List.mem_reverse.mp hg))
  rw [mask_reverse] at this
  refine ⟨this.1, fun k => ?_⟩
  rw [bitToBool_eq_testBit, this.2 k]
  simp

/-- a strictly increasing list inside `[lo, lo+len)` is what membership filtering leaves of that range -/
theorem filter_mem_range' (len : Nat) : ∀ (lo : Nat) (gs : List Nat), gs.Pairwise (· < ·) →
    (∀ g ∈ gs, lo ≤ g ∧ g < lo + len) →
    (List.range' lo len).filter (fun k => decide (k ∈ gs)) = gs := by
  induction len with
  | zero =>
    intro lo gs _ hb
    cases gs with
    | nil => rfl
    | cons g tl => have := hb g (by simp); omega
  | succ len ih =>
    intro lo gs hp hb
    rw [List.range'_succ]
    cases gs with
    | nil => simp
    | cons g tl =>
      have hp' := List.pairwise_cons.mp hp
      by_cases hlo : lo = g
      · subst hlo
        have hrest : (List.range' (lo + 1) len).filter (fun k => decide (k ∈ lo :: tl))
            = (List.range' (lo + 1) len).filter (fun k => decide (k ∈ tl)) := by
          apply List.filter_congr
          intro x hx
          have : lo + 1 ≤ x := (List.mem_range'_1.mp hx).1
          have hne : x ≠ lo := by omega
          simp [hne]
        simp only [List.filter_cons, List.mem_cons, true_or, decide_true, ↓reduceIte]
        rw [show (fun k => decide (k = lo ∨ k ∈ tl)) = (fun k => decide (k ∈ lo :: tl)) from by
          funext k; simp]
        rw [hrest, ih (lo + 1) tl hp'.2 (fun x hx => by
          have h1 := hp'.1 x hx
          have h2 := hb x (by simp [hx])
          omega)]
      · have hg := hb g (by simp)
        have hnot : lo ∉ g :: tl := by
          intro hm
          rcases List.mem_cons.mp hm with h | h
          · exact hlo h
          · have := hp'.1 lo h; omega
        simp only [List.filter_cons, hnot, decide_false, Bool.false_eq_true, ↓reduceIte]
        exact ih (lo + 1) (g :: tl) hp (fun x hx => by
          have h2 := hb x hx
          have : x ≠ lo := fun hx' => hnot (hx' ▸ hx)
          omega)

/-- decoding the bitmask of a strictly increasing list below `n` returns the list -/
theorem filter_range_mask (gs : List Nat) (n : Nat) (hp : gs.Pairwise (· < ·)) (hlt : ∀ g ∈ gs, g < n) :
    (List.range n).filter (fun g => bitToBool (mask gs) g) = gs := by
  have hbits := (mask_asc gs n hp hlt).2
  rw [show (fun g => bitToBool (mask gs) g) = (fun k => decide (k ∈ gs)) from funext hbits]
  rw [List.range_eq_range']
  exact filter_mem_range' n 0 gs hp (fun g hg => ⟨Nat.zero_le _, by have := hlt g hg; omega⟩)

/-! ### the AirTouch 4 AC Ability codec -/
section At4
open PyAirtouch.Model.At4.FF11 PyAirtouch.Gen.At4.X1FFF11AcAbility
open PyAirtouch.Gen.At4.X2CAcCtrl (AcModeControl AcFanSpeedControl)

theorem encGroupDisplay_eq_mask (gs : List Nat) : encGroupDisplay gs = mask gs := by
  simp [encGroupDisplay, mask, boolToBit]

theorem encGroups_length (g : Option (List Nat)) :
    (encGroups g).length = if g.isSome then GROUP_DISPLAY_STRUCT_size else 0 := by
  cases g <;> simp [encGroups, le16Bytes, GROUP_DISPLAY_STRUCT_size]

theorem encRec_length (ac : AcAbility) : (encRec ac).length = recSize ac := by
  simp only [encRec, recSize, List.length_append, List.length_cons, List.length_nil,
    encodeCString_length, encGroups_length, nameLen, STRUCT_size]
  omega

/-- `len(encode(m)) == size(m)` -/
theorem encode_length (m : Msg) : (encode m).length = size m := by
  cases m with
  | request n => cases n <;> rfl
  | ability acs =>
    simp only [encode, size]
    induction acs with
    | nil => rfl
    | cons ac acs ih =>
      simp only [List.flatMap_cons, List.length_append, encRec_length, ih, List.map_cons, List.sum_cons]

/-! #### the support dicts -/

theorem mode_shape (d : List (AcModeControl × Bool)) (h : d.map (·.1) = modeKeys) :
    ∃ v0 v1 v2 v3 v4 v5, d = [(.AUTO, v0), (.HEAT, v1), (.DRY, v2), (.FAN, v3), (.COOL, v4), (.UNCHANGED, v5)] := by
  unfold modeKeys at h
  rcases d with _ | ⟨⟨k0, v0⟩, _ | ⟨⟨k1, v1⟩, _ | ⟨⟨k2, v2⟩, _ | ⟨⟨k3, v3⟩, _ | ⟨⟨k4, v4⟩, _ | ⟨⟨k5, v5⟩, _ | ⟨x, d⟩⟩⟩⟩⟩⟩⟩ <;>
    simp only [List.map_cons, List.map_nil, List.cons.injEq, reduceCtorEq, and_false, and_true] at h
  obtain ⟨rfl, rfl, rfl, rfl, rfl, rfl⟩ := h
  exact ⟨v0, v1, v2, v3, v4, v5, rfl⟩

theorem fan_shape (d : List (AcFanSpeedControl × Bool)) (h : d.map (·.1) = fanKeys) :
    ∃ v0 v1 v2 v3 v4 v5 v6 v7, d = [(.AUTO, v0), (.QUIET, v1), (.LOW, v2), (.MEDIUM, v3), (.HIGH, v4),
      (.POWERFUL, v5), (.TURBO, v6), (.UNCHANGED, v7)] := by
  unfold fanKeys at h
  rcases d with _ | ⟨⟨k0, v0⟩, _ | ⟨⟨k1, v1⟩, _ | ⟨⟨k2, v2⟩, _ | ⟨⟨k3, v3⟩, _ | ⟨⟨k4, v4⟩, _ | ⟨⟨k5, v5⟩,
      _ | ⟨⟨k6, v6⟩, _ | ⟨⟨k7, v7⟩, _ | ⟨x, d⟩⟩⟩⟩⟩⟩⟩⟩⟩ <;>
    simp only [List.map_cons, List.map_nil, List.cons.injEq, reduceCtorEq, and_false, and_true] at h
  obtain ⟨rfl, rfl, rfl, rfl, rfl, rfl, rfl, rfl⟩ := h
  exact ⟨v0, v1, v2, v3, v4, v5, v6, v7, rfl⟩

theorem decModeSupport_enc (d : List (AcModeControl × Bool)) (hk : d.map (·.1) = modeKeys)
    (hu : d.lookup .UNCHANGED = some true) : decModeSupport (encModeSupport d) = d := by
  obtain ⟨v0, v1, v2, v3, v4, v5, rfl⟩ := mode_shape d hk
  have h5 : v5 = true := Option.some.inj (show some v5 = some true from hu)
  subst h5
  cases v0 <;> cases v1 <;> cases v2 <;> cases v3 <;> cases v4 <;> rfl

theorem decFanSpeedSupport_enc (d : List (AcFanSpeedControl × Bool)) (hk : d.map (·.1) = fanKeys)
    (hu : d.lookup .UNCHANGED = some true) : decFanSpeedSupport (encFanSpeedSupport d) = d := by
  obtain ⟨v0, v1, v2, v3, v4, v5, v6, v7, rfl⟩ := fan_shape d hk
  have h7 : v7 = true := Option.some.inj (show some v7 = some true from hu)
  subst h7
  cases v0 <;> cases v1 <;> cases v2 <;> cases v3 <;> cases v4 <;> cases v5 <;> cases v6 <;> rfl

theorem encModeSupport_lt (d : List (AcModeControl × Bool)) : encModeSupport d < 256 := by
  simp only [encModeSupport, boolToBit]
  repeat' split
  all_goals omega

theorem encFanSpeedSupport_lt (d : List (AcFanSpeedControl × Bool)) : encFanSpeedSupport d < 256 := by
  simp only [encFanSpeedSupport, boolToBit]
  repeat' split
  all_goals omega

/-! #### one record -/

theorem decGroups_encGroups (ac : AcAbility)
    (hg : ∀ gs, ac.groups = some gs → gs.Pairwise (· < ·) ∧ ∀ g ∈ gs, g ≤ MAX_GROUP_NUMBER) (rest : Bytes) :
    decGroups (followingLength ac) (encGroups ac.groups ++ rest) = .ok ac.groups := by
  cases hgr : ac.groups with
  | none =>
    simp [decGroups, followingLength, followingWithGroups, hgr, FOLLOWING_LENGTH_BASE, GROUP_DISPLAY_STRUCT_size]
  | some gs =>
    obtain ⟨hp, hb⟩ := hg gs hgr
    have hlt : ∀ g ∈ gs, g < 16 := fun g hgm => by
      have := hb g hgm; simp only [MAX_GROUP_NUMBER] at this; omega
    have hm : mask gs < 65536 := (mask_asc gs 16 hp hlt).1
    have hv : mask gs % 256 + 256 * (mask gs / 256 % 256) = mask gs := by omega
    simp only [decGroups, followingLength, followingWithGroups, hgr, Option.isSome_some, ↓reduceIte,
      encGroups, le16Bytes, List.cons_append, encGroupDisplay_eq_mask, hv, decGroupDisplay, Nat.le_refl]
    have := filter_range_mask gs 16 hp hlt
    simp only [MAX_GROUP_NUMBER]
    rw [this]

/-- the encoder's records are as long as their following-length byte says -/
theorem recSize_eq (ac : AcAbility) : recSize ac = 2 + followingLength ac := by
  simp only [recSize, followingLength, STRUCT_size, FOLLOWING_LENGTH_BASE]; omega

/-- decoding the bytes of one encoded record (whatever follows, whenever the announced length leaves room for
    it) gives the record back, and its following length -/
theorem decRec_encRec (ac : AcAbility) (h : WFRec ac) (rest : Bytes) (avail : Nat) (hav : recSize ac ≤ avail) :
    decRec (encRec ac ++ rest) avail = .ok (ac, followingLength ac) := by
  obtain ⟨_, _, _, _, _, ⟨hnl, hn0, hnu, _⟩, ⟨hmk, hmu⟩, ⟨hfk, hfu⟩, hg⟩ := h
  have hlen := encodeCString_length ac.ac_name nameLen
  have hchk : ¬ (followingLength ac < FOLLOWING_LENGTH_BASE ∨ avail < 2 + followingLength ac) := by
    rw [recSize_eq] at hav
    simp only [followingLength] at hav ⊢
    omega
  simp only [encRec, List.cons_append, List.nil_append, List.append_assoc, decRec,
    List.drop_left' hlen, List.take_left' hlen, hchk, ↓reduceIte,
    decGroups_encGroups ac hg rest, decodeCString_encodeCString ac.ac_name nameLen hnl hn0 hnu,
    decModeSupport_enc _ hmk hmu, decFanSpeedSupport_enc _ hfk hfu]

/-! #### the `while offset < message_length` loop -/

/-- run of the loop from offset `pre.length` over the encoded records `acs`, announced length exactly
    where they end: all records come back and the loop stops at that offset -/
theorem decLoop_encode (acs : List AcAbility) (hwf : ∀ ac ∈ acs, WFRec ac) (rest : Bytes) :
    ∀ pre : Bytes, decLoop (pre ++ (acs.flatMap encRec ++ rest)) (pre.length + (acs.map recSize).sum) pre.length
      = .ok (acs, pre.length + (acs.map recSize).sum) := by
  induction acs with
  | nil =>
    intro pre
    rw [decLoop]
    simp
  | cons ac acs ih =>
    intro pre
    have hpos := recSize_pos ac
    simp only [STRUCT_size] at hpos
    rw [decLoop]
    have hlt : pre.length < pre.length + ((ac :: acs).map recSize).sum := by
      simp only [List.map_cons, List.sum_cons]; omega
    simp only [hlt, ↓reduceDIte, List.drop_left, List.flatMap_cons, List.append_assoc]
    rw [decRec_encRec ac (hwf ac (by simp)) _ _ (by simp only [List.map_cons, List.sum_cons]; omega)]
    have hih := ih (fun x hx => hwf x (by simp [hx])) (pre ++ encRec ac)
    simp only [List.length_append, encRec_length, List.append_assoc] at hih
    simp only [List.map_cons, List.sum_cons, ← Nat.add_assoc, ← recSize_eq]
    rw [hih]

/-- `decode(encode(m) + rest, header with message_length = size(m))` gives `m` back and leaves `rest` -/
theorem decode_encode (m : Msg) (h : WF m) (rest : Bytes) :
    decode (encode m ++ rest) (size m) = .ok (m, rest) := by
  cases m with
  | request n =>
    cases n with
    | none => rfl
    | some n => rfl
  | ability acs =>
    obtain ⟨hne, hwf⟩ := h
    cases acs with
    | nil => exact absurd rfl hne
    | cons ac acs =>
      have hpos := recSize_pos ac
      simp only [STRUCT_size] at hpos
      have h0 : size (.ability (ac :: acs)) ≠ 0 := by
        simp only [size, List.map_cons, List.sum_cons]; omega
      have h1 : size (.ability (ac :: acs)) ≠ 1 := by
        simp only [size, List.map_cons, List.sum_cons]; omega
      have hl := decLoop_encode (ac :: acs) hwf rest []
      simp only [List.nil_append, List.length_nil, Nat.zero_add] at hl
      simp only [decode, h0, h1, ↓reduceIte, encode]
      simp only [size] at hl ⊢
      rw [hl]
      simp only [ne_eq, not_true_eq_false, ↓reduceIte]
      have hlen : ((ac :: acs).flatMap encRec).length = ((ac :: acs).map recSize).sum :=
        encode_length (.ability (ac :: acs))
      rw [List.drop_left' hlen]

/-! #### the checked encoder does not raise on well-formed messages, and produces bytes -/

theorem encRecErr_none (ac : AcAbility) (h : WFRec ac) : encRecErr ac = none := by
  obtain ⟨h1, h2, h3, h4, h5, _, ⟨hmk, _⟩, ⟨hfk, _⟩, hg⟩ := h
  obtain ⟨v0, v1, v2, v3, v4, v5, hm⟩ := mode_shape _ hmk
  obtain ⟨w0, w1, w2, w3, w4, w5, w6, w7, hf⟩ := fan_shape _ hfk
  have hmode : ([AcModeControl.AUTO, .HEAT, .DRY, .FAN, .COOL].any
      fun k => (ac.ac_mode_support.lookup k).isNone) = false := by rw [hm]; rfl
  have hfan : ([AcFanSpeedControl.AUTO, .QUIET, .LOW, .MEDIUM, .HIGH, .POWERFUL, .TURBO].any
      fun k => (ac.fan_speed_support.lookup k).isNone) = false := by rw [hf]; rfl
  have hrange : ¬ (256 ≤ ac.ac_number ∨ 256 ≤ ac.start_group ∨ 256 ≤ ac.group_count ∨
      256 ≤ ac.min_set_point ∨ 256 ≤ ac.max_set_point) := by omega
  simp only [encRecErr, hmode, hfan, hrange, Bool.false_eq_true, ↓reduceIte]
  cases hgr : ac.groups with
  | none => rfl
  | some gs =>
    obtain ⟨hp, hb⟩ := hg gs hgr
    have hlt : ∀ g ∈ gs, g < 16 := fun g hgm => by
      have := hb g hgm; simp only [MAX_GROUP_NUMBER] at this; omega
    have hmask : mask gs < 65536 := (mask_asc gs 16 hp hlt).1
    have : ¬ 65536 ≤ encGroupDisplay gs := by rw [encGroupDisplay_eq_mask]; omega
    simp only [this, ↓reduceIte]

/-- on a well-formed message `AcAbilityEncoder.encode` raises nothing and returns `encode m` -/
theorem encodeE_ok (m : Msg) (h : WF m) : encodeE m = .ok (encode m) := by
  cases m with
  | request n =>
    cases n with
    | none => rfl
    | some n =>
      have : ¬ 256 ≤ n := by simp only [WF] at h; omega
      simp only [encodeE, this, ↓reduceIte, encode]
  | ability acs =>
    have hnone : acs.findSome? encRecErr = none := by
      rw [List.findSome?_eq_none_iff]
      exact fun ac hac => encRecErr_none ac (h.2 ac hac)
    simp only [encodeE, hnone, encode]

theorem encRec_allBytes (ac : AcAbility) (h : WFRec ac) : AllBytes (encRec ac) := by
  obtain ⟨h1, h2, h3, h4, h5, ⟨_, _, _, hnb⟩, _, _, hg⟩ := h
  have hmode := encModeSupport_lt ac.ac_mode_support
  have hfan := encFanSpeedSupport_lt ac.fan_speed_support
  have hfl : followingLength ac < 256 := by
    simp only [followingLength, FOLLOWING_LENGTH_BASE, GROUP_DISPLAY_STRUCT_size]; split <;> omega
  intro b hb
  simp only [encRec, List.mem_append, List.mem_cons, List.not_mem_nil, or_false] at hb
  rcases hb with (rfl | rfl) | hb | (rfl | rfl | rfl | rfl | rfl | rfl) | hb
  all_goals try assumption
  · exact allBytes_encodeCString _ _ hnb b hb
  · cases hgr : ac.groups with
    | none => simp [hgr, encGroups] at hb
    | some gs =>
      simp only [hgr, encGroups, le16Bytes, List.mem_cons, List.not_mem_nil, or_false] at hb
      rcases hb with rfl | rfl <;> omega

/-- the encoder output is a byte string -/
theorem encode_allBytes (m : Msg) (h : WF m) : AllBytes (encode m) := by
  cases m with
  | request n =>
    cases n with
    | none => intro b hb; simp [encode] at hb
    | some n => intro b hb; simp only [encode, List.mem_singleton] at hb; subst hb; exact h
  | ability acs =>
    intro b hb
    simp only [encode, List.mem_flatMap] at hb
    obtain ⟨ac, hac, hb⟩ := hb
    exact encRec_allBytes ac (h.2 ac hac) b hb

/-! #### facts about every run of the decoder (any buffer, any announced length) -/

/-- a successful iteration: the following length is at least the documented base 22, the record (`2 + L`
    bytes) fits the rest of the announced length, and the record the encoder would write for the result is not
    longer than the one read -/
theorem decRec_following (bs : Bytes) (avail : Nat) (ac : AcAbility) (fl : Nat)
    (h : decRec bs avail = .ok (ac, fl)) :
    FOLLOWING_LENGTH_BASE ≤ fl ∧ 2 + fl ≤ avail ∧ recSize ac ≤ 2 + fl := by
  unfold decRec at h
  split at h
  · rename_i acNumber following r
    split at h
    · split at h
      · cases h
      · rename_i hchk
        split at h
        · cases h
        · rename_i groups hgroups
          split at h
          · cases h
          · injection h with h; injection h with h1 h2
            subst h1 h2
            refine ⟨by omega, by omega, ?_⟩
            simp only [recSize, STRUCT_size, GROUP_DISPLAY_STRUCT_size]
            simp only [FOLLOWING_LENGTH_BASE] at hchk
            have hfw : followingWithGroups = 24 := rfl
            simp only [decGroups] at hgroups
            by_cases hc : followingWithGroups ≤ following
            · split <;> omega
            · rw [if_neg hc] at hgroups
              injection hgroups with hgroups
              subst hgroups
              simp only [Option.isSome_none, Bool.false_eq_true, ↓reduceIte]
              omega
    · cases h
  · cases h

/-- the loop stops exactly at the announced length when it starts at or below it (every record lies inside the
    announced length) and does nothing when it starts beyond it; the records the encoder would write for the
    result fit between the start and the final offset; it runs at least once when it starts below the
    announced length -/
theorem decLoop_spec (buffer : Bytes) (msgLen offset : Nat) :
    ∀ acs off, decLoop buffer msgLen offset = .ok (acs, off) →
      offset + (acs.map recSize).sum ≤ off ∧ (offset ≤ msgLen → off = msgLen) ∧
      (offset < msgLen → acs ≠ []) ∧ (msgLen ≤ offset → acs = [] ∧ off = offset) := by
  fun_induction decLoop buffer msgLen offset with
  | case1 offset hlt e hrec => intro acs off h; cases h
  | case2 offset hlt ac fl hrec e hloop ih => intro acs off h; cases h
  | case3 offset hlt ac fl hrec acs' off' hloop ih =>
    intro acs off h
    injection h with h; injection h with h1 h2
    subst h1 h2
    obtain ⟨hsum, hend, _, hstop⟩ := ih acs' off' hloop
    obtain ⟨_, hfit, hsz⟩ := decRec_following _ _ _ _ hrec
    refine ⟨by simp only [List.map_cons, List.sum_cons]; omega, fun _ => hend (by omega),
      fun _ => by simp, fun hc => absurd hlt (by omega)⟩
  | case4 offset hnlt =>
    intro acs off h
    injection h with h; injection h with h1 h2
    subst h1 h2
    exact ⟨by simp, fun _ => by omega, fun hc => absurd hc hnlt, fun _ => ⟨rfl, rfl⟩⟩

/-- number of loop iterations: at most one per 24 announced bytes -/
theorem decLoop_iterations (buffer : Bytes) (msgLen offset : Nat) (acs : List AcAbility) (off : Nat)
    (h : decLoop buffer msgLen offset = .ok (acs, off)) :
    acs.length * STRUCT_size ≤ off - offset := by
  have ho := (decLoop_spec buffer msgLen offset acs off h).1
  have : acs.length * STRUCT_size ≤ (acs.map recSize).sum := by
    clear ho h
    induction acs with
    | nil => simp
    | cons a acs ih =>
      have := recSize_pos a
      simp only [List.length_cons, List.map_cons, List.sum_cons, Nat.add_mul]
      omega
  omega

theorem decGroupDisplay_wf (v : Nat) :
    (decGroupDisplay v).Pairwise (· < ·) ∧ ∀ g ∈ decGroupDisplay v, g ≤ MAX_GROUP_NUMBER := by
  refine ⟨List.Pairwise.filter _ List.pairwise_lt_range, fun g hg => ?_⟩
  have := (List.mem_filter.mp hg).1
  have := List.mem_range.mp this
  omega

/-- every record the decoder produces from a byte string is well-formed -/
theorem decRec_WF (bs : Bytes) (hb : AllBytes bs) (avail : Nat) (ac : AcAbility) (fl : Nat)
    (h : decRec bs avail = .ok (ac, fl)) : WFRec ac := by
  unfold decRec at h
  split at h
  · rename_i acNumber following r
    split at h
    · rename_i sg gc b23 b24 mn mx after hdrop
      split at h
      · cases h
      · split at h
        · cases h
        · rename_i groups hgroups
          split at h
          · cases h
          · rename_i name hname
            injection h with h; injection h with h _
            subst h
            have hr : ∀ x ∈ r, x < 256 := fun x hx => hb x (by simp [hx])
            have hd : ∀ x ∈ r.drop nameLen, x < 256 := fun x hx => hr x (List.mem_of_mem_drop hx)
            rw [hdrop] at hd
            have hraw : AllBytes (r.take nameLen) := fun x hx => hr x (List.mem_of_mem_take hx)
            obtain ⟨hl, h0, hu, hab⟩ := decodeCString_ok _ _ hname hraw
            have hl' : name.length ≤ nameLen := by
              have : (r.take nameLen).length ≤ nameLen := by simp only [List.length_take]; omega
              omega
            refine ⟨hb _ (by simp), hd _ (by simp), hd _ (by simp), hd _ (by simp), hd _ (by simp),
              ⟨hl', h0, hu, hab⟩, ⟨rfl, rfl⟩, ⟨rfl, rfl⟩, fun gs hgs => ?_⟩
            simp only at hgs
            subst hgs
            simp only [decGroups] at hgroups
            split at hgroups
            · split at hgroups
              · injection hgroups with hg; injection hg with hg
                subst hg
                exact decGroupDisplay_wf _
              · cases hgroups
            · cases hgroups
    · cases h
  · cases h

theorem decLoop_WF (buffer : Bytes) (hb : AllBytes buffer) (msgLen offset : Nat) :
    ∀ acs off, decLoop buffer msgLen offset = .ok (acs, off) → ∀ ac ∈ acs, WFRec ac := by
  fun_induction decLoop buffer msgLen offset with
  | case1 offset hlt e hrec => intro acs off h; cases h
  | case2 offset hlt ac fl hrec e hloop ih => intro acs off h; cases h
  | case3 offset hlt ac fl hrec acs' off' hloop ih =>
    intro acs off h
    injection h with h; injection h with h1 h2
    subst h1 h2
    intro x hx
    rcases List.mem_cons.mp hx with rfl | hx
    · exact decRec_WF _ (fun b hbm => hb b (List.mem_of_mem_drop hbm)) _ _ _ hrec
    · exact ih acs' off' hloop x hx
  | case4 offset hnlt =>
    intro acs off h
    injection h with h; injection h with h1 h2
    subst h1
    intro x hx; cases hx

/-- every message the decoder produces from a byte string is well-formed: `WF` is not stronger than
    "can be produced by decoding", so the round trip holds for all decodable payloads -/
theorem decode_WF (buffer : Bytes) (hb : AllBytes buffer) (msgLen : Nat) (m : Msg) (rest : Bytes)
    (h : decode buffer msgLen = .ok (m, rest)) : WF m := by
  unfold decode at h
  split at h
  · injection h with h; injection h with h1 h2; subst h1; trivial
  · split at h
    · split at h
      · cases h
      · rename_i b rest'
        injection h with h; injection h with h1 h2; subst h1
        exact hb b (by simp)
    · rename_i h0 h1
      split at h
      · cases h
      · rename_i acs off hloop
        split at h
        · cases h
        · injection h with h; injection h with h1' h2; subst h1'
          have hspec := decLoop_spec buffer msgLen 0 acs off hloop
          exact ⟨hspec.2.2.1 (by omega), decLoop_WF buffer hb msgLen 0 acs off hloop⟩

/-- a successful decode consumes exactly the announced number of bytes; the encoder's `size` of the decoded
    message is at most that number (it is smaller exactly when a record carried bytes after the known ones,
    which the decoder skips: `00 2e <46 bytes>` with announced length 48 decodes to one AC whose encoding has
    26 bytes) -/
theorem decode_size (buffer : Bytes) (msgLen : Nat) (m : Msg) (rest : Bytes)
    (h : decode buffer msgLen = .ok (m, rest)) : size m ≤ msgLen ∧ rest = buffer.drop msgLen := by
  unfold decode at h
  split at h
  · rename_i h0
    injection h with h; injection h with h1 h2; subst h1 h2 h0
    exact ⟨Nat.le_refl _, rfl⟩
  · split at h
    · rename_i h1
      split at h
      · cases h
      · injection h with h; injection h with h1' h2; subst h1' h2 h1
        exact ⟨Nat.le_refl _, rfl⟩
    · split at h
      · cases h
      · rename_i acs off hloop
        split at h
        · cases h
        · rename_i hoff
          injection h with h; injection h with h1' h2; subst h1' h2
          have hspec := decLoop_spec buffer msgLen 0 acs off hloop
          have : off = msgLen := by omega
          subst this
          exact ⟨by simp only [size]; omega, rfl⟩

/-- re-encoding any decoded message and decoding it again gives the same message (the re-encoding is not
    longer than the payload it was decoded from) -/
theorem decode_reencode (buffer : Bytes) (hb : AllBytes buffer) (msgLen : Nat) (m : Msg) (rest : Bytes)
    (h : decode buffer msgLen = .ok (m, rest)) (rest' : Bytes) :
    encodeE m = .ok (encode m) ∧ (encode m).length ≤ msgLen ∧
    decode (encode m ++ rest') (size m) = .ok (m, rest') := by
  have hwf := decode_WF buffer hb msgLen m rest h
  exact ⟨encodeE_ok m hwf, by rw [encode_length]; exact (decode_size buffer msgLen m rest h).1,
    decode_encode m hwf rest'⟩

end At4

end PyAirtouch.Lemmas.At4FF11
