import PyAirtouch.Lemmas.Api5
/-!
# Lemmas about subscriber sets and the entity look-ups of the AirTouch 5 API model
-/
namespace PyAirtouch.Lemmas.Api5
open PyAirtouch.Model PyAirtouch.Model.Api5 PyAirtouch.Model.At5 PyAirtouch.Model.At5.Registry
open PyAirtouch.Gen PyAirtouch.Gen.Api5

theorem mem_subAdd (l : List Sub) (x y : Sub) : y ∈ subAdd l x ↔ y ∈ l ∨ y = x := by
  unfold subAdd
  split
  · rename_i h
    have hx : x ∈ l := by simpa using h
    constructor
    · exact .inl
    · rintro (h | rfl)
      · exact h
      · exact hx
  · simp

theorem subAdd_of_mem (l : List Sub) (x : Sub) (h : x ∈ l) : subAdd l x = l := by
  unfold subAdd
  simp [h]

theorem subAdd_idem (l : List Sub) (x : Sub) : subAdd (subAdd l x) x = subAdd l x := by
  by_cases hx : x ∈ l
  · rw [subAdd_of_mem l x hx, subAdd_of_mem l x hx]
  · exact subAdd_of_mem _ _ ((mem_subAdd l x x).2 (.inr rfl))

/-- a duplicate-free set stays duplicate-free -/
theorem subAdd_nodup (l : List Sub) (x : Sub) (h : l.Nodup) : (subAdd l x).Nodup := by
  unfold subAdd
  split
  · exact h
  · rename_i hx
    have hx : x ∉ l := by simpa using hx
    rw [List.nodup_append]
    refine ⟨h, by simp, ?_⟩
    intro a ha b hb
    simp at hb; subst hb
    intro hab; subst hab; exact hx ha

theorem mem_subDel (l : List Sub) (x y : Sub) : y ∈ subDel l x ↔ y ∈ l ∧ y ≠ x := by
  simp [subDel]

theorem not_mem_subDel (l : List Sub) (x : Sub) : x ∉ subDel l x := by
  simp [mem_subDel]

theorem subDel_of_not_mem (l : List Sub) (x : Sub) (h : x ∉ l) : subDel l x = l := by
  unfold subDel
  rw [List.filter_eq_self]
  intro a ha
  simp
  intro hax; subst hax; exact h ha

/-! ### look-ups after an object update -/

theorem modifyAt_const_twice {α} (l : List α) (i : Nat) (x y : α) :
    modifyAt (modifyAt l i (fun _ => x)) i (fun _ => y) = modifyAt l i (fun _ => y) := by
  induction l generalizing i with
  | nil => simp [modifyAt]
  | cons z zs ih => cases i <;> simp [modifyAt, ih]

theorem setAc_setAc (s : State) (r : Nat) (a b : AcObj) : (s.setAc r a).setAc r b = s.setAc r b := by
  simp [State.setAc, modifyAt_const_twice]

theorem setZone_setZone (s : State) (r : Nat) (a b : ZoneObj) : (s.setZone r a).setZone r b = s.setZone r b := by
  simp [State.setZone, modifyAt_const_twice]


theorem ac?_eq {s : State} {id r : Nat} {a : AcObj} :
    s.ac? id = some (r, a) ↔ s.acRef id = some r ∧ s.aobjs[r]? = some a := by
  simp only [State.ac?, bind, Option.bind_eq_some_iff, pure, Option.some.injEq, Prod.mk.injEq]
  constructor
  · rintro ⟨r', h1, a', h2, rfl, rfl⟩; exact ⟨h1, h2⟩
  · rintro ⟨h1, h2⟩; exact ⟨r, h1, a, h2, rfl, rfl⟩

theorem ac?_setAc {s : State} {id r : Nat} {a a' : AcObj} (h : s.ac? id = some (r, a)) :
    (s.setAc r a').ac? id = some (r, a') := by
  obtain ⟨h1, h2⟩ := ac?_eq.1 h
  refine ac?_eq.2 ⟨h1, ?_⟩
  simp [State.setAc, modifyAt_get_same, h2]

theorem zone?_eq {s : State} {id r : Nat} {z : ZoneObj} :
    s.zone? id = some (r, z) ↔ s.zoneRefOf id = some r ∧ s.zobjs[r]? = some z := by
  simp only [State.zone?, bind, Option.bind_eq_some_iff, pure, Option.some.injEq, Prod.mk.injEq]
  constructor
  · rintro ⟨r', h1, z', h2, rfl, rfl⟩; exact ⟨h1, h2⟩
  · rintro ⟨h1, h2⟩; exact ⟨r, h1, z, h2, rfl, rfl⟩

theorem zoneRefOf_setZone {s : State} {r : Nat} {z z' : ZoneObj} (n : Nat) (hz : s.zobjs[r]? = some z) (hid : z'.id = z.id) :
    (s.setZone r z').zoneRefOf n = s.zoneRefOf n := by
  have hp : (s.setZone r z').zoneHasId n = s.zoneHasId n := by
    funext r'
    simp only [State.zoneHasId, State.setZone, modifyAt_get]
    by_cases h : r = r'
    · subst h; simp [hz, hid]
    · simp [h]
  unfold State.zoneRefOf
  rw [hp]
  rfl

theorem zone?_setZone {s : State} {id r : Nat} {z z' : ZoneObj} (h : s.zone? id = some (r, z)) (hid : z'.id = z.id) :
    (s.setZone r z').zone? id = some (r, z') := by
  obtain ⟨h1, h2⟩ := zone?_eq.1 h
  refine zone?_eq.2 ⟨by rw [zoneRefOf_setZone id h2 hid]; exact h1, ?_⟩
  simp [State.setZone, modifyAt_get_same, h2]

end PyAirtouch.Lemmas.Api5
