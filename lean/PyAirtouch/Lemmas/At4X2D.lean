import PyAirtouch.Model.At4.X2D
/-! Round trip and length lemmas for the AirTouch 4 AC status codec (0x2D). -/
namespace PyAirtouch.Lemmas.At4X2D
open PyAirtouch.Model PyAirtouch.Model.At4.X2D PyAirtouch.Gen.At4.X2DAcStatus

theorem encRec_length (a : AcStatusData) : (encRec a).length = recSize := by
  simp [encRec, be16Bytes, recSize, STRUCT_size]

theorem flatMap_encRec_length (acs : List AcStatusData) :
    (acs.flatMap encRec).length = recSize * acs.length := by
  induction acs with
  | nil => simp
  | cons a acs ih => simp [List.flatMap_cons, encRec_length, ih, Nat.mul_add, Nat.add_comm]

theorem encode_length (m : Msg) (bs : Bytes) (h : encode m = .ok bs) : bs.length = size m := by
  cases m with
  | request => cases h; rfl
  | status acs =>
    simp only [encode] at h
    split at h
    · cases h; exact flatMap_encRec_length acs
    · cases h

/-! ### when `struct.pack` accepts a record -/

theorem encB1_lt (a : AcStatusData) : encB1 a < 256 := by
  rcases a with ⟨ac, ps, md, fs, spill, timer, sp, t, ec⟩
  simp only [encB1]
  have : ps.toNat * 64 % 256 ≤ 64 := by cases ps <;> decide
  omega

theorem encB2_lt (a : AcStatusData) : encB2 a < 256 := by
  rcases a with ⟨ac, ps, md, fs, spill, timer, sp, t, ec⟩
  simp only [encB2]
  cases md <;> cases fs <;> decide

theorem encB3_lt (a : AcStatusData) : encB3 a < 256 := by
  rcases a with ⟨ac, ps, md, fs, spill, timer, sp, t, ec⟩
  simp only [encB3, boolToBit]
  cases spill <;> cases timer <;> simp <;> omega

theorem encodeTemperature_lt (t : Int) : encodeTemperature t < 65536 := by
  simp only [encodeTemperature]
  omega

/-- only the error code is handed to `struct.pack` unmasked -/
theorem recFits_iff (a : AcStatusData) : recFits a = true ↔ a.error_code < 65536 := by
  simp [recFits, encB1_lt, encB2_lt, encB3_lt, encodeTemperature_lt]

theorem encode_status_ok (acs : List AcStatusData) (h : ∀ a ∈ acs, a.error_code < 65536) :
    encode (.status acs) = .ok (acs.flatMap encRec) := by
  have : acs.all recFits = true := by
    rw [List.all_eq_true]
    intro a ha
    exact (recFits_iff a).2 (h a ha)
  simp [encode, this]

/-- the encoder raises `struct.error` exactly when some error code does not fit 16 bits -/
theorem encode_status_error (acs : List AcStatusData) (h : ∃ a ∈ acs, ¬ a.error_code < 65536) :
    encode (.status acs) = .error .structError := by
  obtain ⟨a, ha, hn⟩ := h
  have : ¬ (acs.all recFits = true) := by
    rw [List.all_eq_true]
    intro hall
    exact hn ((recFits_iff a).1 (hall a ha))
  simp [encode, this]

/-! ### round trip -/

theorem decRec_encRec (a : AcStatusData) (h : WFRec a) (rest : Bytes) :
    decRec (encRec a ++ rest) = .ok (a, rest) := by
  obtain ⟨hac, hsp, hec, ht1, ht2⟩ := h
  rcases a with ⟨ac, ps, md, fs, spill, timer, sp, t, ec⟩
  simp only at hac hsp hec ht1 ht2
  have hps : ps.toNat * 64 % 256 = ps.toNat * 64 ∧ ps.toNat < 2 := by cases ps <;> decide
  have hps' : AcPowerState.ofNat? ps.toNat = some ps := by cases ps <;> rfl
  have e1 : (ps.toNat * 64 % 256 + ac % 64) / 64 % 4 = ps.toNat := by omega
  have e2 : (ps.toNat * 64 % 256 + ac % 64) % 64 = ac := by omega
  have e3 : AcMode.ofNat? ((md.toNat * 16 % 256 + fs.toNat % 16) / 16 % 16) = some md := by
    cases md <;> cases fs <;> decide
  have e4 : AcFanSpeed.ofNat? ((md.toNat * 16 % 256 + fs.toNat % 16) % 16) = some fs := by
    cases md <;> cases fs <;> decide
  -- temperature word: `t + 500 = r` with `r < 2048`, encoded as `r * 32`
  obtain ⟨r, hr⟩ : ∃ r : Nat, t + 500 = (r : Int) := ⟨(t + 500).toNat, by omega⟩
  have hr1 : r < 2048 := by omega
  have hT : encodeTemperature t = r * 32 := by
    simp only [encodeTemperature]; omega
  have e5 : decodeTemperature (be16 (r * 32 / 256 % 256) (r * 32 % 256)) = t := by
    have : be16 (r * 32 / 256 % 256) (r * 32 % 256) / 32 % 2048 = r := by
      simp only [be16]; omega
    simp only [decodeTemperature, this]; omega
  have e6 : be16 (ec / 256 % 256) (ec % 256) = ec := by
    simp only [be16]; omega
  simp only [encRec, encB1, encB2, encB3, hT, be16Bytes, List.cons_append, List.nil_append, decRec,
    e1, e2, e3, e4, e5, e6, hps']
  have e7 : bitToBool (boolToBit spill 7 + boolToBit timer 6 + sp % 64) 7 = spill := by
    cases spill <;> cases timer <;> simp [boolToBit, bitToBool] <;> omega
  have e8 : bitToBool (boolToBit spill 7 + boolToBit timer 6 + sp % 64) 6 = timer := by
    cases spill <;> cases timer <;> simp [boolToBit, bitToBool] <;> omega
  have e9 : (boolToBit spill 7 + boolToBit timer 6 + sp % 64) % 64 = sp := by
    cases spill <;> cases timer <;> simp [boolToBit] <;> omega
  rw [e7, e8, e9]

theorem decRecs_encode (acs : List AcStatusData) (h : ∀ a ∈ acs, WFRec a) (rest : Bytes) :
    decRecs acs.length (acs.flatMap encRec ++ rest) = .ok (acs, rest) := by
  induction acs with
  | nil => rfl
  | cons a acs ih =>
    simp only [List.length_cons, List.flatMap_cons, List.append_assoc, decRecs]
    rw [decRec_encRec a (h a (by simp))]
    simp only [bind, Except.bind]
    rw [ih (fun x hx => h x (by simp [hx]))]
    rfl

theorem encode_ok (m : Msg) (h : WF m) :
    encode m = .ok (match m with | .request => [] | .status acs => acs.flatMap encRec) := by
  cases m with
  | request => rfl
  | status acs => exact encode_status_ok acs (fun a ha => (h.2 a ha).2.2.1)

/-- `decode(encode(m) ++ rest, header with message_length = size(m))` gives `m` back and leaves `rest` -/
theorem decode_encode (m : Msg) (h : WF m) (rest : Bytes) :
    ∃ bs, encode m = .ok bs ∧ decode (bs ++ rest) (size m) = .ok (m, rest) := by
  refine ⟨_, encode_ok m h, ?_⟩
  cases m with
  | request => simp [decode, size]
  | status acs =>
    obtain ⟨hne, hwf⟩ := h
    have hlen : acs.length ≠ 0 := by simpa using hne
    have hsz : recSize * acs.length ≠ 0 := by simp only [recSize, STRUCT_size]; omega
    simp only [decode, size, hsz, ↓reduceIte, Nat.mul_mod_right, ne_eq, not_true_eq_false]
    have hdiv : recSize * acs.length / recSize = acs.length := by simp [recSize, STRUCT_size]
    rw [hdiv, decRecs_encode acs hwf]
    rfl

/-- a status message without any AC is announced with length 0 and read back as the request
    (the reason for `acs ≠ []` in `WF`) -/
theorem decode_encode_empty_status (rest : Bytes) :
    encode (.status []) = .ok [] ∧ decode ([] ++ rest) (size (.status [])) = .ok (.request, rest) := by
  constructor <;> rfl

theorem wfRecBool_iff (a : AcStatusData) : wfRecBool a = true ↔ WFRec a := by
  simp [wfRecBool, WFRec, and_assoc]

theorem wfBool_iff (m : Msg) : wfBool m = true ↔ WF m := by
  cases m with
  | request => simp [wfBool, WF]
  | status acs =>
    simp only [wfBool, WF, Bool.and_eq_true, Bool.not_eq_true', List.all_eq_true, wfRecBool_iff]
    cases acs <;> simp

end PyAirtouch.Lemmas.At4X2D
