import PyAirtouch.Lemmas.Api5
/-!
# Lemmas about what the AirTouch 5 API model emits: every output of the connection / frame / timer handlers
-/
namespace PyAirtouch.Lemmas.Api5
open PyAirtouch.Model PyAirtouch.Model.Api5 PyAirtouch.Model.At5 PyAirtouch.Model.At5.Registry
open PyAirtouch.Model.TimerCommon (AcTimerState AcTimerStatusData)
open PyAirtouch.Gen PyAirtouch.Gen.Api5

/-- every output of a handler result satisfies `O` -/
def AllOut (O : Out → Prop) (r : HR) : Prop := ∀ o ∈ r.out, O o

theorem allOut_nil (O : Out → Prop) (s : State) (e : Option String) : AllOut O { s := s, out := [], exc := e } := by
  intro o ho; simp at ho

theorem allOut_andThen {O : Out → Prop} {r : HR} {f : State → HR} (h1 : AllOut O r) (h2 : ∀ s, AllOut O (f s)) :
    AllOut O (r.andThen f) := by
  unfold HR.andThen
  split
  · exact h1
  · intro o ho
    simp only [List.mem_append] at ho
    rcases ho with ho | ho
    · exact h1 o ho
    · exact h2 _ o ho

theorem allOut_forEach {α} {O : Out → Prop} (xs : List α) (f : State → α → HR) (h : ∀ s x, AllOut O (f s x)) (s : State) :
    AllOut O (forEach xs f s) := by
  induction xs generalizing s with
  | nil => exact allOut_nil O s none
  | cons x xs ih => exact allOut_andThen (h s x) ih

theorem allOut_sendMsg {O : Out → Prop} (s : State) (p : Policy) (m : Msg) (b : Bool) (h : O (.send p m b)) :
    AllOut O (sendMsg s p m b) := by
  unfold sendMsg
  split
  · intro o ho; simp at ho; subst ho; exact h
  · exact allOut_nil O s _

theorem allOut_of_list {O : Out → Prop} (s : State) (l : List Out) (e : Option String) (h : ∀ o ∈ l, O o) :
    AllOut O { s := s, out := l, exc := e } := h

/-! ### notifications -/

theorem acNotifyAll_isNotify (a : AcObj) : ∀ o ∈ acNotifyAll a, o.isNotify = true := by
  intro o ho
  simp only [acNotifyAll, acNotifyGeneral, List.mem_append, List.mem_map] at ho
  rcases ho with ⟨x, _, rfl⟩ | ⟨x, _, rfl⟩ <;> rfl

theorem mem_fwdNotify (aobjs : List AcObj) (fwd : List Nat) (o : Out) :
    o ∈ fwdNotify aobjs fwd ↔ ∃ r ∈ fwd, ∃ a, aobjs[r]? = some a ∧ ∃ sid ∈ a.subs, o = .notifyAc a.id false sid := by
  simp only [fwdNotify, List.mem_flatMap]
  constructor
  · rintro ⟨r, hr, ho⟩
    split at ho
    · rename_i a ha
      simp only [acNotifyGeneral, List.mem_map] at ho
      obtain ⟨x, hx, rfl⟩ := ho
      exact ⟨r, hr, a, ha, x, hx, rfl⟩
    · simp at ho
  · rintro ⟨r, hr, a, ha, x, hx, rfl⟩
    refine ⟨r, hr, ?_⟩
    simp only [ha, acNotifyGeneral, List.mem_map]
    exact ⟨x, hx, rfl⟩

theorem zoneNotify_isNotify (aobjs : List AcObj) (z : ZoneObj) : ∀ o ∈ zoneNotify aobjs z, o.isNotify = true := by
  intro o ho
  simp only [zoneNotify, List.mem_append, List.mem_map] at ho
  rcases ho with ⟨x, _, rfl⟩ | ho
  · rfl
  · obtain ⟨_, _, _, _, _, _, rfl⟩ := (mem_fwdNotify _ _ _).1 ho
    rfl

/-! ### the request messages -/

/-- handshake / refresh / heartbeat / error-information requests -/
def isRequest : Msg → Bool
  | .extended (.consoleVer .request) => true
  | .extended (.zoneNames (.request _)) => true
  | .extended (.acAbility (.request _)) => true
  | .extended (.errInfo (.request _)) => true
  | .controlStatus (.acStatus .request) => true
  | .controlStatus (.acTimerStatus .request) => true
  | .controlStatus (.zoneStatus .request) => true
  | _ => false

/-- what the connection, frame and timer handlers may emit: a request with the CONNECTED policy, or something that is
not a send at all -/
def ConnReq (o : Out) : Prop :=
  match o with
  | .send p m b => p = .connected ∧ isRequest m = true ∧ b = false
  | _ => True

theorem connReq_of_notify {o : Out} (h : o.isNotify = true) : ConnReq o := by
  cases o <;> simp [Out.isNotify] at h <;> trivial

theorem hbFeed_out (s : State) (i : Heartbeat.HIn) :
    ∀ o ∈ (hbFeed s i).2, o = .send .connected hbMessage false ∨ o = .reset := by
  intro o ho
  simp only [hbFeed, List.mem_filterMap] at ho
  obtain ⟨e, _, he⟩ := ho
  cases e <;> simp [hbOut] at he
  · exact .inl he.symm
  · exact .inr he.symm

theorem hbFeed_connReq (s : State) (i : Heartbeat.HIn) : ∀ o ∈ (hbFeed s i).2, ConnReq o := by
  intro o ho
  rcases hbFeed_out s i o ho with rfl | rfl
  · exact ⟨rfl, rfl, rfl⟩
  · trivial

theorem updateAcStatus_connReq (s : State) (r : Nat) (d : C023.AcStatusData) : AllOut ConnReq (updateAcStatus s r d) := by
  unfold updateAcStatus
  split
  · exact allOut_nil _ _ _
  · split
    · exact allOut_nil _ _ _
    · split
      · refine allOut_andThen (allOut_sendMsg _ _ _ _ ⟨rfl, rfl, rfl⟩) ?_
        intro s'
        exact allOut_of_list _ _ _ (fun o ho => connReq_of_notify (acNotifyAll_isNotify _ o ho))
      · exact allOut_of_list _ _ _ (fun o ho => connReq_of_notify (acNotifyAll_isNotify _ o ho))

theorem updateAcTimer_connReq (s : State) (r : Nat) (d : AcTimerStatusData) : AllOut ConnReq (updateAcTimer s r d) := by
  unfold updateAcTimer
  repeat' split
  all_goals first
    | exact allOut_nil _ _ _
    | exact allOut_of_list _ _ _ (fun o ho => connReq_of_notify (acNotifyAll_isNotify _ o ho))

theorem updateAcErrInfo_connReq (s : State) (r : Nat) (e : Option Bytes) : AllOut ConnReq (updateAcErrInfo s r e) := by
  unfold updateAcErrInfo
  repeat' split
  all_goals first
    | exact allOut_nil _ _ _
    | exact allOut_of_list _ _ _ (fun o ho => connReq_of_notify (acNotifyAll_isNotify _ o ho))

theorem updateZoneStatus_connReq (s : State) (r : Nat) (d : C021.ZoneStatusData) : AllOut ConnReq (updateZoneStatus s r d) := by
  unfold updateZoneStatus
  repeat' split
  all_goals first
    | exact allOut_nil _ _ _
    | exact allOut_of_list _ _ _ (fun o ho => connReq_of_notify (zoneNotify_isNotify _ _ o ho))

theorem processAcStatus_connReq (l : List C023.AcStatusData) (s : State) : AllOut ConnReq (processAcStatus l s) := by
  unfold processAcStatus
  refine allOut_forEach _ _ ?_ s
  intro s d; split
  · exact updateAcStatus_connReq _ _ _
  · exact allOut_nil _ _ _

theorem processAcTimer_connReq (l : List AcTimerStatusData) (s : State) : AllOut ConnReq (processAcTimer l s) := by
  unfold processAcTimer
  refine allOut_forEach _ _ ?_ s
  intro s d; split
  · exact updateAcTimer_connReq _ _ _
  · exact allOut_nil _ _ _

theorem processZoneStatus_connReq (l : List C021.ZoneStatusData) (s : State) : AllOut ConnReq (processZoneStatus l s) := by
  unfold processZoneStatus
  refine allOut_forEach _ _ ?_ s
  intro s d; split
  · exact updateZoneStatus_connReq _ _ _
  · exact allOut_nil _ _ _

theorem processAcAbility_connReq (l : List FF11.AcAbility) (s : State) : AllOut ConnReq (processAcAbility l s) := by
  unfold processAcAbility
  refine allOut_forEach _ _ ?_ s
  intro s d; split <;> exact allOut_nil _ _ _

theorem processErrInfo_connReq (m : FF10.AcErrorInformationMessage) (s : State) : AllOut ConnReq (processErrInfo m s) := by
  unfold processErrInfo
  split
  · exact updateAcErrInfo_connReq _ _ _
  · exact allOut_nil _ _ _

theorem processConsoleVersionUpdate_connReq (m : FF30.ConsoleVersionMessage) (s : State) :
    AllOut ConnReq (processConsoleVersionUpdate m s) := by
  unfold processConsoleVersionUpdate
  split
  · exact allOut_nil _ _ _
  · intro o ho
    simp only [List.mem_map] at ho
    obtain ⟨x, _, rfl⟩ := ho
    trivial

theorem finishInit_connReq (s : State) : AllOut ConnReq (finishInit s) := by
  intro o ho
  simp only [finishInit, setInitialised, List.mem_append, List.mem_singleton, List.mem_map] at ho
  rcases ho with (rfl | ⟨_, _, rfl⟩) | ho
  · trivial
  · trivial
  · exact hbFeed_connReq _ _ o ho

theorem handleMessage_connReq (s : State) (toAddr : Nat) (m : Msg) : AllOut ConnReq (handleMessage s toAddr m) := by
  unfold handleMessage
  dsimp only
  split
  all_goals (repeat' split)
  all_goals first
    | exact allOut_nil _ _ _
    | exact allOut_sendMsg _ _ _ _ ⟨rfl, rfl, rfl⟩
    | exact processConsoleVersionUpdate_connReq _ _
    | exact processAcStatus_connReq _ _
    | exact processAcTimer_connReq _ _
    | exact processZoneStatus_connReq _ _
    | exact processErrInfo_connReq _ _
    | exact finishInit_connReq _
    | exact allOut_andThen (processAcAbility_connReq _ _) (fun _ => allOut_sendMsg _ _ _ _ ⟨rfl, rfl, rfl⟩)
    | exact allOut_andThen (processAcStatus_connReq _ _) (fun _ => allOut_sendMsg _ _ _ _ ⟨rfl, rfl, rfl⟩)
    | exact allOut_andThen (processAcTimer_connReq _ _) (fun _ => allOut_sendMsg _ _ _ _ ⟨rfl, rfl, rfl⟩)
    | exact allOut_andThen (processZoneStatus_connReq _ _) (fun _ => finishInit_connReq _)

theorem handleConnection_connReq (s : State) (up : Bool) : AllOut ConnReq (handleConnection s up) := by
  unfold handleConnection
  repeat' split
  all_goals first
    | exact allOut_nil _ _ _
    | exact allOut_sendMsg _ _ _ _ ⟨rfl, rfl, rfl⟩
    | exact allOut_andThen (allOut_sendMsg _ _ _ _ ⟨rfl, rfl, rfl⟩) (fun _ => allOut_sendMsg _ _ _ _ ⟨rfl, rfl, rfl⟩)

theorem excOut_connReq (r : HR) (h : AllOut ConnReq r) : ∀ o ∈ excOut r, ConnReq o := by
  intro o ho
  simp only [excOut, List.mem_append] at ho
  rcases ho with ho | ho
  · exact h o ho
  · split at ho <;> simp at ho
    subst ho; trivial

/-- notifications in the output of a frame are exactly those of the API's frame handler -/
theorem doMsg_notify_mem (s : State) (toAddr : Nat) (m : Msg) (o : Out) (ho : o.isNotify = true) :
    o ∈ (doMsg s toAddr m).2 ↔ s.sockSubscribed = true ∧ o ∈ (handleMessage s toAddr m).out := by
  have hb : ∀ s' i, o ∉ (hbFeed s' i).2 := by
    intro s' i h
    rcases hbFeed_out s' i o h with rfl | rfl <;> simp [Out.isNotify] at ho
  have he : ∀ r : HR, o ∈ excOut r ↔ o ∈ r.out := by
    intro r
    simp only [excOut, List.mem_append]
    constructor
    · rintro (h | h)
      · exact h
      · split at h <;> simp at h
        subst h; simp [Out.isNotify] at ho
    · exact .inl
  unfold doMsg
  by_cases hs : s.sockSubscribed = true
  · simp only [hs, if_true, true_and, List.mem_append, he]
    constructor
    · rintro (h | h)
      · exact h
      · split at h
        · exact absurd h (hb _ _)
        · simp at h
    · exact .inl
  · simp [hs]

theorem subTarget_out (s : State) (t : Target) (f : List Sub → List Sub) :
    ∀ o ∈ (subTarget s t f).2, o = .result "KeyError" := by
  intro o ho
  unfold subTarget at ho
  split at ho
  · simp at ho
  · split at ho <;> simp at ho
    exact ho
  · split at ho <;> simp at ho
    exact ho

/-- `adv`: a time-out of a waiting `init()`, a heartbeat request, or the heartbeat's connection reset — nothing else -/
def AdvOut (o : Out) : Prop := o = .result "init False" ∨ o = .send .connected hbMessage false ∨ o = .reset

theorem doAdv_out (s : State) (n : Nat) : ∀ o ∈ (doAdv s n).2, AdvOut o := by
  unfold doAdv
  simp only
  -- the fold over the due deadlines
  have key : ∀ (due : List Nat) (acc : State × List Out), (∀ o ∈ acc.2, AdvOut o) →
      ∀ o ∈ (due.foldl (fun (acc : State × List Out) d =>
        ((hbFeed acc.1 (.finish d)).1, acc.2 ++ (hbFeed acc.1 (.finish d)).2 ++ [.result "init False"])) acc).2, AdvOut o := by
    intro due
    induction due with
    | nil => intro acc h; exact h
    | cons d due ih =>
      intro acc h
      apply ih
      intro o ho
      simp only [List.mem_append, List.mem_singleton] at ho
      rcases ho with (ho | ho) | rfl
      · exact h o ho
      · exact .inr (hbFeed_out _ _ o ho)
      · exact .inl rfl
  intro o ho
  simp only [List.mem_append] at ho
  rcases ho with ho | ho
  · exact key _ (s, []) (by simp) o ho
  · exact .inr (hbFeed_out _ _ o ho)

end PyAirtouch.Lemmas.Api5
