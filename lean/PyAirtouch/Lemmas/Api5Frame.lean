import PyAirtouch.Lemmas.Api5Time
/-!
# Frame lemmas for the AirTouch 5 API model: what the entity updates leave alone
-/
namespace PyAirtouch.Lemmas.Api5
open PyAirtouch.Model PyAirtouch.Model.Api5 PyAirtouch.Model.At5 PyAirtouch.Model.At5.Registry
open PyAirtouch.Model.TimerCommon (AcTimerState AcTimerStatusData)
open PyAirtouch.Model.Heartbeat
open PyAirtouch.Gen PyAirtouch.Gen.Api5

/-- everything but the two heaps and the two dicts is the same -/
structure SameCtl (s s' : State) : Prop where
  st : s'.st = s.st
  sockOpen : s'.sockOpen = s.sockOpen
  sockSubscribed : s'.sockSubscribed = s.sockSubscribed
  initialised : s'.initialised = s.initialised
  pendingInits : s'.pendingInits = s.pendingInits
  hb : s'.hb = s.hb
  now : s'.now = s.now
  subs : s'.subs = s.subs
  consoleVersion : s'.consoleVersion = s.consoleVersion

theorem SameCtl.refl (s : State) : SameCtl s s := ⟨rfl, rfl, rfl, rfl, rfl, rfl, rfl, rfl, rfl⟩

theorem SameCtl.trans {a b c : State} (h1 : SameCtl a b) (h2 : SameCtl b c) : SameCtl a c :=
  ⟨h2.st.trans h1.st, h2.sockOpen.trans h1.sockOpen, h2.sockSubscribed.trans h1.sockSubscribed,
   h2.initialised.trans h1.initialised, h2.pendingInits.trans h1.pendingInits, h2.hb.trans h1.hb,
   h2.now.trans h1.now, h2.subs.trans h1.subs, h2.consoleVersion.trans h1.consoleVersion⟩

theorem sameCtl_setAc (s : State) (r : Nat) (a : AcObj) : SameCtl s (s.setAc r a) := ⟨rfl, rfl, rfl, rfl, rfl, rfl, rfl, rfl, rfl⟩
theorem sameCtl_setZone (s : State) (r : Nat) (z : ZoneObj) : SameCtl s (s.setZone r z) := ⟨rfl, rfl, rfl, rfl, rfl, rfl, rfl, rfl, rfl⟩

theorem sameCtl_sendMsg (s : State) (p : Policy) (m : Msg) (b : Bool) : SameCtl s (sendMsg s p m b).s := by
  unfold sendMsg; split <;> exact SameCtl.refl s

theorem sameCtl_andThen {s : State} {r : HR} {f : State → HR} (h1 : SameCtl s r.s) (h2 : ∀ s', SameCtl s' (f s').s) :
    SameCtl s (r.andThen f).s := by
  unfold HR.andThen
  split
  · exact h1
  · exact h1.trans (h2 _)

theorem sameCtl_forEach {α} (xs : List α) (f : State → α → HR) (h : ∀ s x, SameCtl s (f s x).s) (s : State) :
    SameCtl s (forEach xs f s).s := by
  induction xs generalizing s with
  | nil => exact SameCtl.refl s
  | cons x xs ih => exact sameCtl_andThen (h s x) ih

theorem sameCtl_updateAcStatus (s : State) (r : Nat) (d : C023.AcStatusData) : SameCtl s (updateAcStatus s r d).s := by
  unfold updateAcStatus
  repeat' split
  all_goals first
    | exact SameCtl.refl s
    | exact sameCtl_setAc _ _ _
    | exact sameCtl_andThen ((sameCtl_setAc _ _ _).trans (sameCtl_sendMsg _ _ _ _)) (fun s' => SameCtl.refl s')

theorem sameCtl_updateAcTimer (s : State) (r : Nat) (d : AcTimerStatusData) : SameCtl s (updateAcTimer s r d).s := by
  unfold updateAcTimer
  repeat' split
  all_goals first
    | exact SameCtl.refl s
    | exact sameCtl_setAc _ _ _

theorem sameCtl_updateAcErrInfo (s : State) (r : Nat) (e : Option Bytes) : SameCtl s (updateAcErrInfo s r e).s := by
  unfold updateAcErrInfo
  repeat' split
  all_goals first
    | exact SameCtl.refl s
    | exact sameCtl_setAc _ _ _

theorem sameCtl_updateZoneStatus (s : State) (r : Nat) (d : C021.ZoneStatusData) : SameCtl s (updateZoneStatus s r d).s := by
  unfold updateZoneStatus
  repeat' split
  all_goals first
    | exact SameCtl.refl s
    | exact sameCtl_setZone _ _ _

theorem sameCtl_processAcStatus (l : List C023.AcStatusData) (s : State) : SameCtl s (processAcStatus l s).s := by
  unfold processAcStatus
  refine sameCtl_forEach _ _ ?_ s
  intro s d; split
  · exact sameCtl_updateAcStatus _ _ _
  · exact SameCtl.refl s

theorem sameCtl_processAcTimer (l : List AcTimerStatusData) (s : State) : SameCtl s (processAcTimer l s).s := by
  unfold processAcTimer
  refine sameCtl_forEach _ _ ?_ s
  intro s d; split
  · exact sameCtl_updateAcTimer _ _ _
  · exact SameCtl.refl s

theorem sameCtl_processZoneStatus (l : List C021.ZoneStatusData) (s : State) : SameCtl s (processZoneStatus l s).s := by
  unfold processZoneStatus
  refine sameCtl_forEach _ _ ?_ s
  intro s d; split
  · exact sameCtl_updateZoneStatus _ _ _
  · exact SameCtl.refl s

theorem sameCtl_processErrInfo (m : FF10.AcErrorInformationMessage) (s : State) : SameCtl s (processErrInfo m s).s := by
  unfold processErrInfo
  split
  · exact sameCtl_updateAcErrInfo _ _ _
  · exact SameCtl.refl s

theorem sameCtl_addAc (s s' : State) (ab : FF11.AcAbility) (h : addAc s ab = some s') : SameCtl s s' := by
  unfold addAc at h
  split at h
  · cases h; exact ⟨rfl, rfl, rfl, rfl, rfl, rfl, rfl, rfl, rfl⟩
  · cases h

theorem sameCtl_processAcAbility (l : List FF11.AcAbility) (s : State) : SameCtl s (processAcAbility l s).s := by
  unfold processAcAbility
  refine sameCtl_forEach _ _ ?_ s
  intro s ab
  split
  · rename_i s' h; exact sameCtl_addAc s s' ab h
  · exact SameCtl.refl s

theorem sameCtl_processZoneNames (names : List (Nat × Bytes)) (s : State) : SameCtl s (processZoneNames names s) := by
  unfold processZoneNames
  induction names generalizing s with
  | nil => exact SameCtl.refl s
  | cons p ps ih =>
    simp only [List.foldl_cons]
    exact SameCtl.trans (b := addZone s p) ⟨rfl, rfl, rfl, rfl, rfl, rfl, rfl, rfl, rfl⟩ (ih _)

end PyAirtouch.Lemmas.Api5
