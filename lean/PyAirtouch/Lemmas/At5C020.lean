import PyAirtouch.Model.At5.C020
/-! Round trip and length lemmas for the AirTouch 5 zone control codec (0xC020). -/
namespace PyAirtouch.Lemmas.At5C020
open PyAirtouch.Model PyAirtouch.Model.At5.Utils PyAirtouch.Model.At5.C020 PyAirtouch.Gen.At5.XC020ZoneCtrl

/-- what `struct.pack` produces for a well-formed record -/
def recBytes (z : ZoneControlData) : Bytes :=
  [z.zone_number, (encSetting z.zone_setting).1 * 32 + z.zone_power.toNat, (encSetting z.zone_setting).2.toNat, 0]

theorem encRec_length (z : ZoneControlData) (bs : Bytes) (h : encRec z = .ok bs) : bs.length = recSize := by
  simp only [encRec, bind, Except.bind, pure, Except.pure] at h
  split at h
  · cases h
  · split at h
    · cases h
    · split at h
      · cases h
      · cases h; rfl

theorem encRecs_length (zs : List ZoneControlData) (bs : Bytes) (h : encRecs zs = .ok bs) :
    bs.length = recSize * zs.length := by
  induction zs generalizing bs with
  | nil => cases h; rfl
  | cons z zs ih =>
    simp only [encRecs, bind, Except.bind, pure, Except.pure] at h
    split at h
    · cases h
    · rename_i b hb
      split at h
      · cases h
      · rename_i bs' hbs'
        cases h
        simp only [List.length_append, List.length_cons, encRec_length z b hb, ih bs' hbs', Nat.mul_add,
          Nat.mul_one, Nat.add_comm]

/-- the announced sizes describe the bytes produced -/
theorem encode_length (m : Msg) (bs : Bytes) (h : encode m = .ok bs) :
    bs.length = nonRepeatSize m + repeatSize m * repeatCount m := by
  simp only [nonRepeatSize, repeatSize, repeatCount, Nat.zero_add]
  exact encRecs_length m.zone_control bs h

theorem encRec_ok (z : ZoneControlData) (h : WFRec z) : encRec z = .ok (recBytes z) := by
  obtain ⟨hz, hs⟩ := h
  rcases z with ⟨zn, pw, st⟩
  simp only at hz hs
  have hp : pw.toNat < 8 := by cases pw <;> decide
  have h1 : packB (zn : Int) = .ok zn := packB_nat hz
  have hcode : (encSetting st).1 < 8 := by
    rcases st with _ | (v | p | sp)
    · simp [encSetting, UNCHANGED]
    · cases v <;> simp [encSetting, ZoneIncreaseDecrease.toNat]
    · simp [encSetting, SET_PERCENTAGE]
    · simp [encSetting, SET_SETPOINT]
  have h2 : packB (((encSetting st).1 * 32 + pw.toNat : Nat) : Int) = .ok ((encSetting st).1 * 32 + pw.toNat) :=
    packB_nat (by omega)
  have h3 : packB (encSetting st).2 = .ok (encSetting st).2.toNat := by
    rcases st with _ | (v | p | sp)
    · exact packB_ok (by simp [encSetting, SETTING_VALUE_UNCHANGED]) (by simp [encSetting, SETTING_VALUE_UNCHANGED])
    · exact packB_ok (by simp [encSetting, SETTING_VALUE_UNCHANGED]) (by simp [encSetting, SETTING_VALUE_UNCHANGED])
    · simp only [WFSetting] at hs
      exact packB_ok (by simp only [encSetting]; omega) (by simp only [encSetting]; omega)
    · simp only [WFSetting] at hs
      exact packB_ok (by simp only [encSetting, encodeSetPoint]; omega)
        (by simp only [encSetting, encodeSetPoint]; omega)
  simp only [encRec, h1, h2, h3, bind, Except.bind, pure, Except.pure, recBytes]

theorem decRec_recBytes (z : ZoneControlData) (h : WFRec z) (rest : Bytes) :
    decRec (recBytes z ++ rest) = .ok (z, rest) := by
  obtain ⟨hz, hs⟩ := h
  rcases z with ⟨zn, pw, st⟩
  simp only at hz hs
  rcases st with _ | (v | p | sp)
  · cases pw <;>
      simp [recBytes, encSetting, decRec, decSetting, ZonePowerControl.toNat, ZonePowerControl.ofNat?,
        ZoneIncreaseDecrease.ofNat?, SET_PERCENTAGE, SET_SETPOINT, UNCHANGED, SETTING_VALUE_UNCHANGED]
  · cases pw <;> cases v <;>
      simp [recBytes, encSetting, decRec, decSetting, ZonePowerControl.toNat, ZonePowerControl.ofNat?,
        ZoneIncreaseDecrease.ofNat?, ZoneIncreaseDecrease.toNat, SETTING_VALUE_UNCHANGED]
  · cases pw <;>
      simp [recBytes, encSetting, decRec, decSetting, ZonePowerControl.toNat, ZonePowerControl.ofNat?,
        ZoneIncreaseDecrease.ofNat?, SET_PERCENTAGE, SET_SETPOINT]
  · simp only [WFSetting] at hs
    cases pw <;>
      simp [recBytes, encSetting, decRec, decSetting, ZonePowerControl.toNat, ZonePowerControl.ofNat?,
        ZoneIncreaseDecrease.ofNat?, SET_SETPOINT, encodeSetPoint, decodeSetPoint] <;> omega

theorem encRecs_ok (zs : List ZoneControlData) (h : ∀ z ∈ zs, WFRec z) :
    encRecs zs = .ok (zs.flatMap recBytes) := by
  induction zs with
  | nil => rfl
  | cons z zs ih =>
    simp only [encRecs, encRec_ok z (h z (by simp)), ih (fun x hx => h x (by simp [hx])), bind, Except.bind,
      pure, Except.pure, List.flatMap_cons]

theorem decRecs_recBytes (zs : List ZoneControlData) (h : ∀ z ∈ zs, WFRec z) (rest : Bytes) :
    decRecs zs.length (zs.flatMap recBytes ++ rest) = .ok (zs, rest) := by
  induction zs with
  | nil => rfl
  | cons z zs ih =>
    simp only [List.length_cons, List.flatMap_cons, List.append_assoc, decRecs]
    rw [decRec_recBytes z (h z (by simp))]
    simp only [bind, Except.bind]
    rw [ih (fun x hx => h x (by simp [hx]))]
    rfl

/-- a well-formed message can be encoded (no `struct.error`) -/
theorem encode_ok (m : Msg) (h : WF m) : ∃ bs, encode m = .ok bs :=
  ⟨_, encRecs_ok m.zone_control h⟩

/-- `decode(encode(m), header built from m)` gives `m` back, nothing left over -/
theorem decode_encode (m : Msg) (h : WF m) (rest : Bytes) :
    ∃ bs, encode m = .ok bs ∧
      decode (bs ++ rest) (nonRepeatSize m) (repeatSize m) (repeatCount m) = .ok (m, rest) := by
  refine ⟨_, encRecs_ok m.zone_control h, ?_⟩
  simp only [decode, repeatCount]
  rw [decRecs_recBytes m.zone_control h]
  rfl

/-! ### the run-time well-formedness test decides `WF` -/

theorem wfSettingBool_iff (s : Option ZoneSetting) : wfSettingBool s = true ↔ WFSetting s := by
  rcases s with _ | (v | p | sp) <;>
    simp [wfSettingBool, WFSetting]

theorem wfRecBool_iff (z : ZoneControlData) : wfRecBool z = true ↔ WFRec z := by
  simp only [wfRecBool, WFRec, Bool.and_eq_true, decide_eq_true_eq, wfSettingBool_iff]

theorem wfBool_iff (m : Msg) : wfBool m = true ↔ WF m := by
  simp only [wfBool, WF, List.all_eq_true]
  exact ⟨fun h z hz => (wfRecBool_iff z).1 (h z hz), fun h z hz => (wfRecBool_iff z).2 (h z hz)⟩

end PyAirtouch.Lemmas.At5C020
