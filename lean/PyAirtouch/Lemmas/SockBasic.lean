import PyAirtouch.Model.Sock
/-!
# General-purpose lemmas about the socket model

* `sendSids`, `ReachableWF`, `run` over `++`, induction principles for `Reachable`/`ReachableWF`;
* an *abstract transition system* `AStep` over the part of the state the queue / retry properties
  talk about (`Abs`: identities used so far, clock, queue, trace, entries held in flight by tasks
  suspended in `drain()`), and the theorem `step_abs` that every `step` of the model is a finite
  composition of abstract steps.  Invariants about queue and trace are then proved once per abstract
  step (in `SockQueue.lean`) instead of once per label × code path.
-/
namespace PyAirtouch.Lemmas.Sock
open PyAirtouch.Model.Sock PyAirtouch.Spec.Trace

/-! ### label sequences -/

def sendSids (ls : List Label) : List Nat :=
  ls.filterMap fun | .apiSend sid _ _ _ => some sid | _ => none

/-- reachable by a label sequence whose sends carry pairwise distinct ids -/
def ReachableWF (s : Sys) : Prop := ∃ ls, (sendSids ls).Nodup ∧ run init ls = some s

theorem ReachableWF.reachable {s : Sys} (h : ReachableWF s) : Reachable s :=
  let ⟨ls, _, h⟩ := h; ⟨ls, h⟩

theorem sendSids_append (l₁ l₂ : List Label) : sendSids (l₁ ++ l₂) = sendSids l₁ ++ sendSids l₂ := by
  simp [sendSids, List.filterMap_append]

theorem run_append (s : Sys) (l₁ l₂ : List Label) :
    run s (l₁ ++ l₂) = (run s l₁).bind (fun s' => run s' l₂) := by
  induction l₁ generalizing s with
  | nil => simp [run]
  | cons l ls ih =>
    simp only [List.cons_append, run]
    cases step s l with
    | none => simp
    | some s' => simpa using ih s'

theorem run_snoc (s s' : Sys) (ls : List Label) (l : Label) :
    run s (ls ++ [l]) = some s' ↔ ∃ m, run s ls = some m ∧ step m l = some s' := by
  rw [run_append]
  cases h : run s ls with
  | none => simp
  | some m =>
    simp only [Option.bind_some, run, Option.some.injEq, exists_eq_left']
    cases step m l <;> simp

/-- induction over the history, newest label last -/
theorem run_induction {P : List Label → Sys → Prop} (h0 : P [] init)
    (hs : ∀ ls s l s', run init ls = some s → P ls s → step s l = some s' → P (ls ++ [l]) s') :
    ∀ ls s, run init ls = some s → P ls s := by
  have key : ∀ ls pre m s, run init pre = some m → P pre m → run m ls = some s → P (pre ++ ls) s := by
    intro ls
    induction ls with
    | nil => intro pre m s _ hp h; simp only [run, Option.some.injEq] at h; subst h; simpa using hp
    | cons l ls ih =>
      intro pre m s hm hp h
      simp only [run] at h
      cases hst : step m l with
      | none => simp [hst] at h
      | some m' =>
        simp only [hst, Option.bind_some] at h
        have hm' : run init (pre ++ [l]) = some m' := (run_snoc _ _ _ _).2 ⟨m, hm, hst⟩
        have := ih (pre ++ [l]) m' s hm' (hs pre m l m' hm hp hst) h
        simpa using this
  intro ls s h
  simpa using key ls [] init s rfl h0 h

theorem Reachable.induction {P : Sys → Prop} (h0 : P init)
    (hs : ∀ s l s', Reachable s → P s → step s l = some s' → P s') : ∀ s, Reachable s → P s := by
  intro s ⟨ls, h⟩
  exact run_induction (P := fun _ s => P s) h0 (fun ls s l s' hr hp hst => hs s l s' ⟨ls, hr⟩ hp hst) ls s h


/-! ### the abstract queue / trace / in-flight system -/

/-- the entry a task suspended inside `drain()` is holding -/
def hold : Pc → List Entry
  | .drainAwait _ e _ => [e]
  | _ => []

/-- every entry held in flight by some task -/
def flOf (ts : List Task) : List Entry := ts.flatMap (fun k => hold k.pc)

structure Abs where
  used : List Nat
  now : Nat
  queue : List Entry
  trace : List Ev
  fl : List Entry

/-- events that are neither an acceptance nor a write attempt -/
def Quiet : Ev → Bool
  | .accept .. | .wire .. | .wireUnknown .. | .deadWrite .. | .writeFault .. => false
  | _ => true

/-- `ev` records an attempt to write `sid` at time `now` -/
def IsWrite (ev : Ev) (sid now : Nat) : Prop :=
  ∃ cid, ev = .wire cid sid now ∨ ev = .deadWrite cid sid now ∨ ev = .writeFault cid sid now

/-- what the model can do to `(used, now, queue, trace, in-flight)`; reflexive and transitive -/
inductive AStep : Abs → Abs → Prop
  | refl (a : Abs) : AStep a a
  | trans {a b c : Abs} : AStep a b → AStep b c → AStep a c
  | tick (a : Abs) (t : Nat) (h : a.now ≤ t) : AStep a { a with now := t }
  | note (a : Abs) (ev : Ev) (h : Quiet ev = true) : AStep a { a with trace := a.trace ++ [ev] }
  | dropQ (a : Abs) (q' : List Entry) (h : q'.Sublist a.queue) : AStep a { a with queue := q' }
  | dropF (a : Abs) (fl' : List Entry) (h : fl'.Sublist a.fl) : AStep a { a with fl := fl' }
  | permF (a : Abs) (fl' : List Entry) (h : fl'.Perm a.fl) : AStep a { a with fl := fl' }
  | write (a : Abs) (e : Entry) (rest : List Entry) (wev : Ev) (hq : a.queue = e :: rest)
      (hlt : a.now < e.expiry) (hw : IsWrite wev e.sid a.now) :
      AStep a { a with queue := rest, trace := a.trace ++ [wev], fl := e :: a.fl }
  | writeNone (a : Abs) (e : Entry) (rest : List Entry) (hq : a.queue = e :: rest) :
      AStep a { a with queue := rest, fl := e :: a.fl }
  | requeue (a : Abs) (e : Entry) (fl' : List Entry) (hf : a.fl = e :: fl') (hk : e.retries ≠ 0) :
      AStep a { a with queue := { e with retries := e.retries - 1, requeued := true } :: a.queue, fl := fl' }
  | burn (a : Abs) (sid : Nat) : AStep a { a with used := a.used ++ [sid] }
  | accept (a : Abs) (sid r life : Nat) (ok : Bool) (hcap : a.queue.length < CAP) :
      AStep a { a with used := a.used ++ [sid]
                       queue := a.queue ++ [⟨sid, r, a.now + life, ok, false⟩]
                       trace := a.trace ++ [.accept sid a.now (a.now + life) r ok] }

def absC (used : List Nat) (c : Core) (fl : List Entry) : Abs := ⟨used, c.now, c.queue, c.trace, fl⟩

def abs (used : List Nat) (s : Sys) : Abs := absC used s.core (flOf s.tasks)

section mk
variable {u : List Nat} {n : Nat} {q : List Entry} {tr : List Ev} {fl : List Entry}

theorem AStep.note' {ev : Ev} (h : Quiet ev = true) : AStep ⟨u, n, q, tr, fl⟩ ⟨u, n, q, tr ++ [ev], fl⟩ :=
  AStep.note _ ev h

theorem AStep.notes (evs : List Ev) (h : ∀ ev ∈ evs, Quiet ev = true) :
    AStep ⟨u, n, q, tr, fl⟩ ⟨u, n, q, tr ++ evs, fl⟩ := by
  induction evs generalizing tr with
  | nil => simpa using AStep.refl _
  | cons ev evs ih =>
    have h1 : AStep ⟨u, n, q, tr, fl⟩ ⟨u, n, q, tr ++ [ev], fl⟩ := AStep.note' (h ev (by simp))
    have h2 := ih (tr := tr ++ [ev]) (fun e he => h e (by simp [he]))
    simpa using h1.trans h2

theorem AStep.dropQ' {q' : List Entry} (h : q'.Sublist q) : AStep ⟨u, n, q, tr, fl⟩ ⟨u, n, q', tr, fl⟩ :=
  AStep.dropQ _ q' h

theorem AStep.dropF' {fl' : List Entry} (h : fl'.Sublist fl) : AStep ⟨u, n, q, tr, fl⟩ ⟨u, n, q, tr, fl'⟩ :=
  AStep.dropF _ fl' h

theorem AStep.permF' {fl' : List Entry} (h : fl'.Perm fl) : AStep ⟨u, n, q, tr, fl⟩ ⟨u, n, q, tr, fl'⟩ :=
  AStep.permF _ fl' h

theorem AStep.write' {e : Entry} {rest : List Entry} {wev : Ev} (hlt : n < e.expiry) (hw : IsWrite wev e.sid n) :
    AStep ⟨u, n, e :: rest, tr, fl⟩ ⟨u, n, rest, tr ++ [wev], e :: fl⟩ :=
  AStep.write _ e rest wev rfl hlt hw

theorem AStep.writeNone' {e : Entry} {rest : List Entry} :
    AStep ⟨u, n, e :: rest, tr, fl⟩ ⟨u, n, rest, tr, e :: fl⟩ :=
  AStep.writeNone _ e rest rfl

theorem AStep.requeue' {e : Entry} (hk : e.retries ≠ 0) :
    AStep ⟨u, n, q, tr, e :: fl⟩ ⟨u, n, { e with retries := e.retries - 1, requeued := true } :: q, tr, fl⟩ :=
  AStep.requeue _ e fl rfl hk

end mk

/-! ### the code between two suspension points, abstractly -/

theorem doWrite_abs (u : List Nat) (c : Core) (w : Nat) (e : Entry) (rest fl : List Entry)
    (hlt : c.now < e.expiry) :
    (doWrite c w e).1.now = c.now ∧ (doWrite c w e).1.queue = c.queue ∧
    AStep ⟨u, c.now, e :: rest, c.trace, fl⟩ ⟨u, c.now, rest, (doWrite c w e).1.trace, e :: fl⟩ := by
  unfold doWrite
  split
  · refine ⟨rfl, rfl, AStep.write' hlt ⟨w, .inl rfl⟩⟩
  · refine ⟨rfl, rfl, ?_⟩
    have h1 : AStep ⟨u, c.now, e :: rest, c.trace, fl⟩ ⟨u, c.now, rest, c.trace ++ [.writeFault w e.sid c.now], e :: fl⟩ :=
      AStep.write' hlt ⟨w, .inr (.inr rfl)⟩
    exact h1.trans (AStep.note' (ev := .lost w c.now) rfl)
  · exact ⟨rfl, rfl, AStep.write' hlt ⟨w, .inr (.inl rfl)⟩⟩
  · exact ⟨rfl, rfl, AStep.write' hlt ⟨w, .inr (.inl rfl)⟩⟩
  · exact ⟨rfl, rfl, AStep.write' hlt ⟨w, .inr (.inl rfl)⟩⟩
  · exact ⟨rfl, rfl, AStep.writeNone'⟩

def stopHeld : DrainStop → List Entry
  | .empty => []
  | .suspended e => [e]
  | .raised e => [e]

theorem drainLoop_abs (u : List Nat) (w : Nat) : ∀ (q : List Entry) (c : Core) (fl : List Entry),
    (drainLoop c w q).1.now = c.now ∧
    AStep ⟨u, c.now, q, c.trace, fl⟩
      ⟨u, c.now, (drainLoop c w q).1.queue, (drainLoop c w q).1.trace, stopHeld (drainLoop c w q).2 ++ fl⟩ := by
  intro q
  induction q with
  | nil => intro c fl; exact ⟨rfl, AStep.refl _⟩
  | cons e rest ih =>
    intro c fl
    unfold drainLoop
    split
    · exact ⟨rfl, AStep.refl _⟩
    split
    · have := ih (c.emit (.qdrop e.sid c.now .expired)) fl
      refine ⟨this.1, ?_⟩
      have h1 : AStep ⟨u, c.now, e :: rest, c.trace, fl⟩ ⟨u, c.now, rest, c.trace, fl⟩ :=
        AStep.dropQ' (List.sublist_cons_self _ _)
      exact (h1.trans (AStep.note' (ev := .qdrop e.sid c.now .expired) rfl)).trans this.2
    · split
      · have := ih (c.emit (.qdrop e.sid c.now .encErr)) fl
        refine ⟨this.1, ?_⟩
        have h1 : AStep ⟨u, c.now, e :: rest, c.trace, fl⟩ ⟨u, c.now, rest, c.trace, fl⟩ :=
          AStep.dropQ' (List.sublist_cons_self _ _)
        exact (h1.trans (AStep.note' (ev := .qdrop e.sid c.now .encErr) rfl)).trans this.2
      · rename_i hexp _
        have hlt : c.now < e.expiry := by omega
        have hw := doWrite_abs u c w e rest fl hlt
        split
        · rename_i c' heq
          rw [heq] at hw
          have := ih c' fl
          simp only at hw
          rw [hw.1] at this
          refine ⟨this.1, ?_⟩
          exact (hw.2.2.trans (AStep.dropF' (List.sublist_cons_self _ _))).trans this.2
        · rename_i c' heq
          rw [heq] at hw
          exact ⟨hw.1, hw.2.2⟩
        · rename_i c' heq
          rw [heq] at hw
          exact ⟨hw.1, hw.2.2⟩

theorem drainLoop_abs' (u : List Nat) (w : Nat) (c c' : Core) (stop : DrainStop) (fl : List Entry)
    (h : drainLoop c w c.queue = (c', stop)) :
    c'.now = c.now ∧ AStep (absC u c fl) (absC u c' (stopHeld stop ++ fl)) := by
  have hd := drainLoop_abs u w c.queue c fl
  rw [h] at hd
  have hn : c'.now = c.now := hd.1
  refine ⟨hn, ?_⟩
  have e1 : absC u c' (stopHeld stop ++ fl) = ⟨u, c.now, c'.queue, c'.trace, stopHeld stop ++ fl⟩ := by
    simp [absC, hn]
  rw [e1]; exact hd.2

theorem requeue_abs (u : List Nat) (c : Core) (e : Entry) (fl : List Entry) :
    (requeue c e).now = c.now ∧ AStep (absC u c (e :: fl)) (absC u (requeue c e) fl) := by
  unfold requeue
  split
  · refine ⟨rfl, ?_⟩
    have h1 : AStep (absC u c (e :: fl)) (absC u c fl) := AStep.dropF' (List.sublist_cons_self _ _)
    exact h1.trans (AStep.note' (ev := .qdrop e.sid c.now .maxRetries) rfl)
  · rename_i hk
    exact ⟨rfl, AStep.requeue' hk⟩

theorem closeConn_abs (u : List Nat) (c : Core) (w : Nat) (fl : List Entry) :
    (closeConn c w).now = c.now ∧ (closeConn c w).rw = c.rw ∧
      AStep (absC u c fl) (absC u (closeConn c w) fl) := by
  unfold closeConn
  split
  · exact ⟨rfl, rfl, AStep.note' (ev := .clientClose w c.now) rfl⟩
  · exact ⟨rfl, rfl, AStep.refl _⟩

theorem exec_abs (u : List Nat) (fuel : Nat) : ∀ (c : Core) (sp : List Pc) (k : Kont) (fl : List Entry),
    (∀ p ∈ sp, hold p = []) →
    (exec fuel c sp k).core.now = c.now ∧
    AStep (absC u c fl) (absC u (exec fuel c sp k).core (hold (exec fuel c sp k).pc ++ fl)) ∧
    ∀ p ∈ (exec fuel c sp k).spawned, hold p = [] := by
  induction fuel with
  | zero => intro c sp k fl h; exact ⟨rfl, AStep.refl _, h⟩
  | succ n ih =>
    intro c sp k fl h
    cases k with
    | drain r =>
      simp only [exec]
      split
      · exact ih _ _ _ _ h
      · split
        · exact ih _ _ _ _ h
        · rename_i w _
          split
          · rename_i c' heq
            have hd := drainLoop_abs' u w c c' _ fl heq
            have := ih c' sp (.ret r) fl h
            exact ⟨this.1.trans hd.1, hd.2.trans this.2.1, this.2.2⟩
          · rename_i c' e heq
            have hd := drainLoop_abs' u w c c' _ fl heq
            exact ⟨hd.1, hd.2, h⟩
          · rename_i c' e heq
            have hd := drainLoop_abs' u w c c' _ fl heq
            have hr := requeue_abs u c' e fl
            have := ih (requeue c' e) sp (.disconnect (.resetTail r)) fl h
            refine ⟨this.1.trans (hr.1.trans hd.1), ?_, this.2.2⟩
            exact (hd.2.trans hr.2).trans this.2.1
    | disconnect r =>
      simp only [exec]
      split
      · rename_i w _
        have hc := closeConn_abs u c w fl
        exact ⟨hc.1, hc.2.2, h⟩
      · exact ih _ _ _ _ h
    | discTail w r =>
      simp only [exec]
      split
      · exact ⟨rfl, AStep.note' (ev := .notify false c.now) rfl, h⟩
      · exact ih _ _ _ _ h
    | ret r =>
      cases r with
      | done => exact ⟨rfl, AStep.refl _, h⟩
      | closeTail => exact ⟨rfl, AStep.note' (ev := .apiCloseDone c.now) rfl, h⟩
      | connAfterNotify => simp only [exec]; exact ih _ _ _ _ h
      | connAfterDrain =>
        refine ⟨rfl, AStep.refl _, ?_⟩
        simp only [exec]
        intro p hp
        simp only [List.mem_append, List.mem_singleton] at hp
        rcases hp with (hp | hp) | hp
        · exact h p hp
        · subst hp; rfl
        · split at hp
          · simp only [List.mem_singleton] at hp; subst hp; rfl
          · simp at hp
      | resetTail r =>
        simp only [exec]
        apply ih
        split
        · intro p hp
          simp only [List.mem_append, List.mem_singleton] at hp
          rcases hp with hp | hp
          · exact h p hp
          · subst hp; rfl
        · exact h
      | readLoop =>
        simp only [exec]
        split
        · exact ⟨rfl, AStep.refl _, h⟩
        · exact ⟨rfl, AStep.refl _, h⟩

/-! ### the task table and one step of the whole system, abstractly -/

theorem flOf_append (a b : List Task) : flOf (a ++ b) = flOf a ++ flOf b := by
  simp [flOf, List.flatMap_append]

theorem flOf_spawn (sp : List Pc) (h : ∀ p ∈ sp, hold p = []) :
    flOf (sp.map (fun p => ⟨p, true⟩)) = [] := by
  induction sp with
  | nil => rfl
  | cons p sp ih =>
    have h1 := h p (by simp)
    have h2 := ih (fun q hq => h q (by simp [hq]))
    simp only [flOf, List.map_cons, List.flatMap_cons] at h2 ⊢
    rw [h1, h2]; rfl

theorem flOf_split (f : Task → Task) : ∀ (ts : List Task) (t : Nat) (k : Task), ts[t]? = some k →
    (flOf ts).Perm (hold k.pc ++ flOf (ts.eraseIdx t)) ∧
    (flOf (ts.modify t f)).Perm (hold (f k).pc ++ flOf (ts.eraseIdx t)) := by
  intro ts
  induction ts with
  | nil => intro t k h; simp at h
  | cons x xs ih =>
    intro t k h
    cases t with
    | zero =>
      simp only [List.getElem?_cons_zero, Option.some.injEq] at h; subst h
      simp [flOf, List.modify]
    | succ t =>
      simp only [List.getElem?_cons_succ] at h
      have := ih t k h
      simp only [flOf, List.flatMap_cons, List.eraseIdx_cons_succ, List.modify_succ_cons] at this ⊢
      constructor
      · exact (List.Perm.append_left _ this.1).trans (by
          simp only [← List.append_assoc]; exact List.Perm.append_right _ List.perm_append_comm)
      · exact (List.Perm.append_left _ this.2).trans (by
          simp only [← List.append_assoc]; exact List.Perm.append_right _ List.perm_append_comm)

theorem hold_cancel (k : Task) : (hold (cancelTask k).pc).Sublist (hold k.pc) := by
  unfold cancelTask
  split
  · split <;> simp [hold]
  · exact List.Sublist.refl _

theorem flOf_cancel (ts : List Task) : (flOf (ts.map cancelTask)).Sublist (flOf ts) := by
  induction ts with
  | nil => exact List.Sublist.refl _
  | cons k ts ih =>
    simp only [flOf, List.map_cons, List.flatMap_cons] at ih ⊢
    exact List.Sublist.append (hold_cancel k) ih

theorem spawnApi_abs (u : List Nat) (s : Sys) (out : Out) (a : Abs) (hsp : ∀ p ∈ out.spawned, hold p = [])
    (h : AStep a (absC u out.core (hold out.pc ++ flOf s.tasks))) : AStep a (abs u (spawnApi s out)) := by
  refine h.trans ?_
  unfold abs spawnApi
  simp only [flOf_append, flOf_spawn _ hsp, List.append_nil]
  apply AStep.permF'
  have : flOf [{ pc := out.pc, bg := false }] = hold out.pc := by simp [flOf]
  rw [this]
  exact List.perm_append_comm

theorem upd_abs (u u' : List Nat) (s : Sys) (t : Nat) (p : Pc) (out : Out) (hp : pcAt s t = some p)
    (hsp : ∀ p' ∈ out.spawned, hold p' = [])
    (h : AStep (absC u s.core (hold p ++ flOf (s.tasks.eraseIdx t)))
               (absC u' out.core (hold out.pc ++ flOf (s.tasks.eraseIdx t)))) :
    AStep (abs u s) (abs u' (upd s t out)) := by
  unfold pcAt at hp
  cases hk : s.tasks[t]? with
  | none => simp [hk] at hp
  | some k =>
    simp only [hk, Option.map_some, Option.some.injEq] at hp
    subst hp
    have hs := flOf_split (fun k => { k with pc := out.pc }) s.tasks t k hk
    have h1 : AStep (abs u s) (absC u s.core (hold k.pc ++ flOf (s.tasks.eraseIdx t))) :=
      AStep.permF' hs.1.symm
    refine (h1.trans h).trans ?_
    unfold abs upd
    simp only [flOf_append, flOf_spawn _ hsp, List.append_nil]
    exact AStep.permF' hs.2


def usedAfter (u : List Nat) : Label → List Nat
  | .apiSend sid _ _ _ => u ++ [sid]
  | _ => u

theorem usedAfter_eq (u : List Nat) (l : Label) : usedAfter u l = u ++ sendSids [l] := by
  cases l <;> simp [usedAfter, sendSids]

theorem connectBlock_abs (u : List Nat) (c : Core) (fl : List Entry) :
    AStep (absC u c fl) (absC u (connectBlock c).core (hold (connectBlock c).pc ++ fl)) ∧
    ∀ p ∈ (connectBlock c).spawned, hold p = [] := by
  unfold connectBlock
  split
  · exact ⟨AStep.refl _, by simp⟩
  · exact ⟨AStep.note' (ev := .attempt c.now) rfl, by simp⟩

theorem exec_abs' (u : List Nat) (c : Core) (k : Kont) (fl : List Entry) :
    AStep (absC u c fl) (absC u (exec FUEL c [] k).core (hold (exec FUEL c [] k).pc ++ fl)) ∧
    ∀ p ∈ (exec FUEL c [] k).spawned, hold p = [] :=
  (exec_abs u FUEL c [] k fl (by simp)).2

theorem step_run_abs (u : List Nat) (s s' : Sys) (t : Nat) (a : Answer) (h : step s (.run t a) = some s') :
    AStep (abs u s) (abs u s') := by
  simp only [step] at h
  split at h
  · -- connDelay
    rename_i due hp
    split at h
    · injection h with h; subst h
      have := connectBlock_abs u s.core (flOf (s.tasks.eraseIdx t))
      exact upd_abs u u s t _ _ hp this.2 this.1
    · simp at h
  · rename_i hp
    injection h with h; subst h
    have := connectBlock_abs u s.core (flOf (s.tasks.eraseIdx t))
    exact upd_abs u u s t _ _ hp this.2 this.1
  · -- openOk
    rename_i hp
    injection h with h; subst h
    refine upd_abs u u s t _ _ hp (by simp) ?_
    have h1 : AStep (absC u s.core (flOf (s.tasks.eraseIdx t)))
        ⟨u, s.core.now, s.core.queue, s.core.trace ++ [.opened s.core.conns.length s.core.now], flOf (s.tasks.eraseIdx t)⟩ :=
      AStep.note' rfl
    exact h1.trans (AStep.note' (ev := .notify true s.core.now) rfl)
  · -- openRefused
    rename_i hp
    injection h with h; subst h
    refine upd_abs u u s t _ _ hp ?_ (AStep.note' (ev := .refused s.core.now) rfl)
    intro p hp'
    split at hp'
    · simp only [List.mem_singleton] at hp'; subst hp'; rfl
    · simp at hp'
  · -- cancelledOpening
    rename_i hp
    injection h with h; subst h
    exact upd_abs u u s t _ _ hp (by simp) (AStep.refl _)
  · -- drainOk
    rename_i w e r hp
    injection h with h; subst h
    have := exec_abs' u s.core (.drain r) (flOf (s.tasks.eraseIdx t))
    refine upd_abs u u s t _ _ hp this.2 ?_
    have h1 : AStep (absC u s.core (hold (.drainAwait w e r) ++ flOf (s.tasks.eraseIdx t)))
        (absC u s.core (flOf (s.tasks.eraseIdx t))) := AStep.dropF' (List.sublist_cons_self _ _)
    exact h1.trans this.1
  · -- drainErr
    rename_i w e r hp
    split at h
    · simp at h
    · injection h with h; subst h
      have hr := requeue_abs u s.core e (flOf (s.tasks.eraseIdx t))
      have := exec_abs' u (requeue s.core e) (.disconnect (.resetTail r)) (flOf (s.tasks.eraseIdx t))
      exact upd_abs u u s t _ _ hp this.2 (hr.2.trans this.1)
  · -- discWait
    rename_i w r hp
    split at h
    · injection h with h; subst h
      have := exec_abs' u s.core (.discTail (some w) r) (flOf (s.tasks.eraseIdx t))
      exact upd_abs u u s t _ _ hp this.2 this.1
    · simp at h
  · -- notifyWait
    rename_i r hp
    injection h with h; subst h
    have := exec_abs' u s.core (.ret r) (flOf (s.tasks.eraseIdx t))
    exact upd_abs u u s t _ _ hp this.2 this.1
  · -- readStart
    rename_i hp
    injection h with h; subst h
    have := exec_abs' u s.core (.ret .readLoop) (flOf (s.tasks.eraseIdx t))
    exact upd_abs u u s t _ _ hp this.2 this.1
  · -- readMsg
    rename_i c tag hp
    injection h with h; subst h
    exact upd_abs u u s t _ _ hp (by simp) (AStep.note' (ev := .deliver (s.core.rw.getD 0) tag s.core.now) rfl)
  · -- readBad
    rename_i hp
    injection h with h; subst h
    have := exec_abs' u s.core (.disconnect (.resetTail .readLoop)) (flOf (s.tasks.eraseIdx t))
    exact upd_abs u u s t _ _ hp this.2 this.1
  · -- readEof
    rename_i hp
    split at h
    · split at h
      · injection h with h; subst h
        have := exec_abs' u s.core (.disconnect (.resetTail .done)) (flOf (s.tasks.eraseIdx t))
        exact upd_abs u u s t _ _ hp this.2 this.1
      · injection h with h; subst h
        exact upd_abs u u s t _ _ hp (by simp) (AStep.refl _)
    · injection h with h; subst h
      exact upd_abs u u s t _ _ hp (by simp) (AStep.refl _)
  · -- readErr
    rename_i hp
    injection h with h; subst h
    have := exec_abs' u s.core (.disconnect (.resetTail .done)) (flOf (s.tasks.eraseIdx t))
    exact upd_abs u u s t _ _ hp this.2 this.1
  · -- closeGather
    rename_i hp
    split at h
    · simp at h
    · injection h with h; subst h
      have := exec_abs' u s.core (.disconnect .closeTail) (flOf (s.tasks.eraseIdx t))
      exact upd_abs u u s t _ _ hp this.2 this.1
  · simp at h


theorem purgeEvents_quiet (now : Nat) (q : List Entry) : ∀ ev ∈ purgeEvents now q, Quiet ev = true := by
  intro ev hev
  simp only [purgeEvents, List.mem_map] at hev
  obtain ⟨e, _, rfl⟩ := hev
  rfl

theorem step_send_abs (u : List Nat) (s s' : Sys) (sid r life : Nat) (ok : Bool)
    (h : step s (.apiSend sid r life ok) = some s') : AStep (abs u s) (abs (u ++ [sid]) s') := by
  simp only [step] at h
  split at h
  · injection h with h; subst h
    refine spawnApi_abs _ s _ _ (by simp) ?_
    have h1 : AStep (abs u s) (absC (u ++ [sid]) s.core (flOf s.tasks)) := AStep.burn _ sid
    exact h1.trans (AStep.note' (ev := .reject sid s.core.now .notOpen) rfl)
  · have hp : AStep (abs u s)
        ⟨u, s.core.now, purged s.core.now s.core.queue, s.core.trace ++ purgeEvents s.core.now s.core.queue, flOf s.tasks⟩ := by
      have h1 : AStep (abs u s) ⟨u, s.core.now, purged s.core.now s.core.queue, s.core.trace, flOf s.tasks⟩ :=
        AStep.dropQ' (List.filter_sublist)
      exact h1.trans (AStep.notes _ (purgeEvents_quiet _ _))
    split at h
    · injection h with h; subst h
      refine spawnApi_abs _ s _ _ (by simp) ?_
      refine hp.trans ?_
      have h1 : AStep
          ⟨u, s.core.now, purged s.core.now s.core.queue, s.core.trace ++ purgeEvents s.core.now s.core.queue, flOf s.tasks⟩
          ⟨u ++ [sid], s.core.now, purged s.core.now s.core.queue, s.core.trace ++ purgeEvents s.core.now s.core.queue, flOf s.tasks⟩ :=
        AStep.burn _ sid
      exact h1.trans (AStep.note' (ev := .reject sid s.core.now .overflow) rfl)
    · rename_i hcap
      injection h with h; subst h
      have he := exec_abs' (u ++ [sid])
        ({ s.core with queue := purged s.core.now s.core.queue ++ [(⟨sid, r, s.core.now + life, ok, false⟩ : Entry)],
                       trace := s.core.trace ++ purgeEvents s.core.now s.core.queue ++
                         [.accept sid s.core.now (s.core.now + life) r ok] }) (.drain .done) (flOf s.tasks)
      refine spawnApi_abs _ s _ _ he.2 ?_
      refine (hp.trans ?_).trans he.1
      exact AStep.accept _ sid r life ok (by simpa using hcap)

theorem step_abs (u : List Nat) (s s' : Sys) (l : Label) (h : step s l = some s') :
    AStep (abs u s) (abs (usedAfter u l) s') := by
  cases l with
  | advance t =>
    simp only [step] at h
    split at h
    · rename_i hle
      injection h with h; subst h
      exact AStep.tick _ t hle
    · simp at h
  | envLost cid =>
    simp only [step] at h
    split at h
    · injection h with h; subst h
      exact AStep.note' (ev := .lost cid s.core.now) rfl
    · simp at h
  | envLostRan cid =>
    simp only [step] at h
    split at h
    · injection h with h; subst h; exact AStep.refl _
    · simp at h
  | envPause cid b =>
    simp only [step] at h
    split at h
    · injection h with h; subst h; exact AStep.refl _
    · simp at h
  | envFailWrites cid b =>
    simp only [step] at h
    split at h
    · injection h with h; subst h; exact AStep.refl _
    · simp at h
  | apiOpen =>
    simp only [step] at h
    split at h
    · injection h with h; subst h
      exact spawnApi_abs _ s _ _ (by simp) (AStep.note' (ev := .apiOpen s.core.now) rfl)
    · injection h with h; subst h
      -- a socket that was not open starts its new session with an empty queue (`_message_queue.clear()`)
      have h0 : AStep (abs u s) ⟨u, s.core.now, s.core.queue, s.core.trace ++ [.apiOpen s.core.now], flOf s.tasks⟩ :=
        AStep.note' rfl
      refine spawnApi_abs _ s _ _ ?_ (h0.trans (AStep.dropQ' (List.nil_sublist _)))
      intro p hp; simp only [List.mem_singleton] at hp; subst hp; rfl
  | apiClose =>
    simp only [step] at h
    have h0 : AStep (abs u s) ⟨u, s.core.now, s.core.queue, s.core.trace ++ [.apiClose s.core.now], flOf s.tasks⟩ :=
      AStep.note' rfl
    split at h
    · injection h with h; subst h
      refine spawnApi_abs _ s _ _ (by simp) ?_
      exact h0.trans (AStep.note' (ev := .apiCloseDone s.core.now) rfl)
    · have h1 : AStep (abs u s)
          ⟨u, s.core.now, s.core.queue, s.core.trace ++ [.apiClose s.core.now], flOf (s.tasks.map cancelTask)⟩ :=
        h0.trans (AStep.dropF' (flOf_cancel _))
      split at h
      · injection h with h; subst h
        exact spawnApi_abs _ _ _ _ (by simp) h1
      · injection h with h; subst h
        have he := exec_abs' u ({ s.core.emit (.apiClose s.core.now) with isOpen := false }) (.disconnect .closeTail)
          (flOf (s.tasks.map cancelTask))
        exact spawnApi_abs _ _ _ _ he.2 (h1.trans he.1)
  | apiReset =>
    simp only [step] at h
    injection h with h; subst h
    have he := exec_abs' u (s.core.emit (.apiReset s.core.now)) (.disconnect (.resetTail .done)) (flOf s.tasks)
    refine spawnApi_abs _ s _ _ he.2 ?_
    have h0 : AStep (abs u s) (absC u (s.core.emit (.apiReset s.core.now)) (flOf s.tasks)) := AStep.note' rfl
    exact h0.trans he.1
  | apiSend sid r life ok => exact step_send_abs u s s' sid r life ok h
  | run t a => exact step_run_abs u s s' t a h

/-- every run of the model is a run of the abstract system -/
theorem run_abs (ls : List Label) (s : Sys) (h : run init ls = some s) :
    AStep (abs [] init) (abs (sendSids ls) s) := by
  refine run_induction (P := fun ls s => AStep (abs [] init) (abs (sendSids ls) s)) (AStep.refl _) ?_ ls s h
  intro ls s l s' _ hp hst
  have := step_abs (sendSids ls) s s' l hst
  rw [usedAfter_eq, ← sendSids_append] at this
  exact hp.trans this

end PyAirtouch.Lemmas.Sock
