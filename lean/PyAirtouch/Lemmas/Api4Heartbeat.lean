import PyAirtouch.Lemmas.Api4Poll
import PyAirtouch.Lemmas.Api4Handshake
import PyAirtouch.Lemmas.Api4Demo
import PyAirtouch.Lemmas.Heartbeat
/-!
# The heartbeat embedded in the AirTouch 4 API model

How `apiStep` drives the embedded `Heartbeat.HB`: every op acts on `s.hb` as a sequence of enabled labels of
`Heartbeat.step` (`apiStep_hb_run`), so every theorem of `Props/C08.lean` about `Reachable` heartbeat states
applies to `s.hb` of every reachable API state.
-/
set_option linter.unusedSimpArgs false
set_option linter.unusedVariables false
namespace PyAirtouch.Lemmas.Api4
open PyAirtouch.Model PyAirtouch.Model.Api4 PyAirtouch.Model.At4 PyAirtouch.Gen
open PyAirtouch.Model.Heartbeat (HB TL HL Label step Reachable enterTimeout)
open PyAirtouch.Spec.Heartbeat (HEv)
open PyAirtouch.Lemmas.Heartbeat (reachable_step reachable_run reachable_basic run_append Basic)

/-- the heartbeat interval and timeout of the API object, in ticks -/
abbrev hbI : Nat := heartbeatDefaultIntervalField
abbrev hbT : Nat := heartbeatDefaultTimeoutField

/-- the heartbeat request as an output event -/
def hbEv : Ev := Ev.send .connected hbMessage

/-! ## the embedded heartbeat alone -/

theorem hbApply_of_some {h h' : HB} {l : Label} (hs : step h l = some h') : hbApply h l = h' := by
  simp [hbApply, hs]

theorem hbApply_of_none {h : HB} {l : Label} (hs : step h l = none) : hbApply h l = h := by
  simp [hbApply, hs]

/-- `hbApply` is a run of at most one label -/
theorem hbApply_run (h : HB) (l : Label) : ∃ ls, Model.Heartbeat.run h ls = some (hbApply h l) ∧
    (ls = [l] ∨ (ls = [] ∧ step h l = none)) := by
  cases hs : step h l with
  | none => exact ⟨[], by simp [Model.Heartbeat.run, hbApply, hs], Or.inr ⟨rfl, rfl⟩⟩
  | some h' => exact ⟨[l], by simp [Model.Heartbeat.run, hbApply, hs], Or.inl rfl⟩

theorem reachable_hbApply {i t : Nat} {h : HB} (l : Label) (hr : Reachable i t h) :
    Reachable i t (hbApply h l) := by
  cases hs : step h l with
  | none => rw [hbApply_of_none hs]; exact hr
  | some h' => rw [hbApply_of_some hs]; exact reachable_step hr hs

theorem hb_now_self (h : HB) (n : Nat) (hn : h.now = n) : { h with now := n } = h := by
  subst hn; rfl

/-- the heartbeat part of the API-level invariant, as a predicate of the clock `n`, the socket's connection
    flag `c` and the embedded heartbeat -/
structure HbOk (n : Nat) (c : Bool) (h : HB) : Prop where
  now_eq : h.now = n
  reach : Reachable hbI hbT h
  flag : h.flag = false
  not_resetting : h.tl ≠ .resetting
  deadline : ∀ d, h.tl = .waiting d → n < d
  wake : ∀ u, h.hl = .sleeping u → n < u
  conn : h.connected = c

theorem hbOk_init : HbOk 0 false (Model.Heartbeat.init hbI hbT) := by
  refine ⟨rfl, ⟨[], rfl⟩, rfl, ?_, ?_, ?_, rfl⟩ <;> simp [Model.Heartbeat.init]

theorem HbOk.timeout_eq {n c h} (ok : HbOk n c h) : h.timeout = 2640 := (reachable_basic ok.reach).timeout_eq
theorem HbOk.interval_eq {n c h} (ok : HbOk n c h) : h.interval = 2400 := (reachable_basic ok.reach).interval_eq
theorem HbOk.both {n c h} (ok : HbOk n c h) : h.tl = .idle ↔ h.hl = .idle := (reachable_basic ok.reach).both

/-- the connection flag changes -/
theorem hbOk_conn {n c h} (up : Bool) (ok : HbOk n c h) : HbOk n up (hbApply h (.conn up)) := by
  obtain ⟨h1, h2, h3, h4, h5, h6, h7⟩ := ok
  refine ⟨?_, reachable_hbApply _ h2, ?_, ?_, ?_, ?_, ?_⟩ <;>
    simp only [hbApply, step, HB.emit, Option.getD_some] <;> assumption

/-- `stop()` then the socket closes -/
theorem hbOk_stop {n c h} (ok : HbOk n c h) :
    HbOk n false (hbApply (hbApply h .stop) (.conn false)) ∧
    hbIdle (hbApply (hbApply h .stop) (.conn false)) = true := by
  obtain ⟨h1, h2, h3, h4, h5, h6, h7⟩ := ok
  have hb := (reachable_basic h2).both
  refine ⟨⟨?_, reachable_hbApply _ (reachable_hbApply _ h2), ?_, ?_, ?_, ?_, ?_⟩, ?_⟩ <;>
    simp only [hbApply, step, HB.emit, Option.getD_some, hbIdle] <;> split <;> simp_all

/-- `start()` on an idle heartbeat: both loops take their first step (`hbStart`) -/
def startedHB (h : HB) : HB := hbApply (hbApply h .start) .hlBeat

theorem startedHB_fields {h : HB} (hi : hbIdle h = true) :
    (startedHB h).tl = .waiting (h.now + h.timeout) ∧ (startedHB h).hl = .sleeping (h.now + h.interval) ∧
    (startedHB h).lastArm = h.now ∧ (startedHB h).flag = false ∧ (startedHB h).now = h.now ∧
    (startedHB h).interval = h.interval ∧ (startedHB h).timeout = h.timeout ∧
    (startedHB h).connected = h.connected ∧
    (startedHB h).trace = h.trace ++ [.start h.now] ++ (if h.connected then [.beat h.now] else []) ∧
    Model.Heartbeat.run h [.start, .hlBeat] = some (startedHB h) := by
  have h1 : h.tl = .idle ∧ h.hl = .idle := by simpa [hbIdle] using hi
  cases hc : h.connected <;>
    simp [startedHB, hbApply, step, h1.1, h1.2, enterTimeout, HB.emit, Model.Heartbeat.run, hc]

theorem hbOk_started {n c h} (ok : HbOk n c h) (hi : hbIdle h = true) : HbOk n c (startedHB h) := by
  obtain ⟨f1, f2, f3, f4, f5, f6, f7, f8, f9, f10⟩ := startedHB_fields hi
  have ht := ok.timeout_eq
  have hiv := ok.interval_eq
  obtain ⟨h1, h2, h3, h4, h5, h6, h7⟩ := ok
  refine ⟨f5.trans h1, reachable_run h2 f10, f4, ?_, ?_, ?_, f8.trans h7⟩
  · rw [f1]; intro hh; cases hh
  · intro d hd; rw [f1] at hd; cases hd; omega
  · intro u hu; rw [f2] at hu; cases hu; omega

/-- a heartbeat response is delivered and the timeout loop consumes it (`hbOnMessage`) -/
def respondedHB (h : HB) : HB := hbApply (hbApply h .response) .tlWake

theorem respondedHB_idle {h : HB} (hi : h.tl = .idle) : respondedHB h = h := by
  simp [respondedHB, hbApply, step, hi]

theorem respondedHB_waiting {h : HB} {d : Nat} (hw : h.tl = .waiting d) :
    (respondedHB h).tl = .waiting (h.now + h.timeout) ∧ (respondedHB h).lastArm = h.now ∧
    (respondedHB h).hl = h.hl ∧ (respondedHB h).flag = false ∧ (respondedHB h).now = h.now ∧
    (respondedHB h).connected = h.connected ∧ (respondedHB h).trace = h.trace ++ [.resp h.now] ∧
    (respondedHB h).interval = h.interval ∧ (respondedHB h).timeout = h.timeout ∧
    Model.Heartbeat.run h [.response, .tlWake] = some (respondedHB h) := by
  simp [respondedHB, hbApply, step, hw, HB.emit, Model.Heartbeat.run]

theorem respondedHB_run {h : HB} (hnr : h.tl ≠ .resetting) :
    ∃ ls, Model.Heartbeat.run h ls = some (respondedHB h) ∧ (ls = [] ∨ ls = [.response, .tlWake]) := by
  cases htl : h.tl with
  | idle => exact ⟨[], by rw [respondedHB_idle htl]; rfl, Or.inl rfl⟩
  | waiting d => exact ⟨_, (respondedHB_waiting htl).2.2.2.2.2.2.2.2.2, Or.inr rfl⟩
  | resetting => exact absurd htl hnr

theorem hbOk_responded {n c h} (ok : HbOk n c h) : HbOk n c (respondedHB h) := by
  have ht := ok.timeout_eq
  cases htl : h.tl with
  | idle => rw [respondedHB_idle htl]; exact ok
  | resetting => exact absurd htl ok.not_resetting
  | waiting d =>
    obtain ⟨f1, f2, f3, f4, f5, f6, f7, f8, f9, f10⟩ := respondedHB_waiting htl
    obtain ⟨h1, h2, h3, h4, h5, h6, h7⟩ := ok
    refine ⟨f5.trans h1, reachable_run h2 f10, f4, ?_, ?_, ?_, f6.trans h7⟩
    · rw [f1]; intro hh; cases hh
    · intro d hd; rw [f1] at hd; cases hd; omega
    · intro u hu; rw [f3] at hu; exact h6 u hu

/-! ### one tick of the clock -/

/-- `fireHbTimeout` on the heartbeat: the timeout loop at time `t`, socket connection flag `c` -/
def timeoutHB (c : Bool) (t : Nat) (h : HB) : HB :=
  match h.tl with
  | .waiting d => if d ≤ t then (if c then hbApply (hbApply h .tlFire) .tlResetDone else hbApply h .tlFire) else h
  | _ => h

def timeoutEvs (c : Bool) (t : Nat) (h : HB) : List Ev :=
  match h.tl with
  | .waiting d => if d ≤ t then (if c then [Ev.reset] else []) else []
  | _ => []

/-- `fireBeat` on the heartbeat -/
def beatHB (t : Nat) (h : HB) : HB :=
  match h.hl with
  | .sleeping u => if u ≤ t then hbApply h .hlBeat else h
  | .idle => h

def beatEvs (c : Bool) (t : Nat) (h : HB) : List Ev :=
  match h.hl with
  | .sleeping u => if u ≤ t then (if c then [hbEv] else []) else []
  | .idle => []

/-- what one `tick` to time `t` does to the embedded heartbeat -/
def tickHB (c : Bool) (t : Nat) (h : HB) : HB := beatHB t (timeoutHB c t { h with now := t })

/-- … as labels of the heartbeat model -/
def tickLabels (c : Bool) (t : Nat) (h : HB) : List Label :=
  [.advance t] ++
  (match h.tl with
   | .waiting d => if d ≤ t then (if c then [.tlFire, .tlResetDone] else [.tlFire]) else []
   | _ => []) ++
  (match h.hl with
   | .sleeping u => if u ≤ t then [.hlBeat] else []
   | .idle => [])

/-- … and the events it records -/
def tickTrace (c : Bool) (t : Nat) (h : HB) : List HEv :=
  (match h.tl with
   | .waiting d => if d ≤ t then (if c then [.reset t, .resetDone t] else []) else []
   | _ => []) ++
  (match h.hl with
   | .sleeping u => if u ≤ t then (if c then [.beat t] else []) else []
   | .idle => [])

def tickTl (t T : Nat) : TL → TL
  | .waiting d => if d ≤ t then .waiting (t + T) else .waiting d
  | x => x

def tickHl (t I : Nat) : HL → HL
  | .sleeping u => if u ≤ t then .sleeping (t + I) else .sleeping u
  | .idle => .idle

theorem tickHB_calc (h : HB) (n : Nat) (c : Bool) (h1 : h.now = n) (h3 : h.flag = false)
    (h4 : h.tl ≠ .resetting) (h5 : ∀ d, h.tl = .waiting d → n < d) (h6 : ∀ u, h.hl = .sleeping u → n < u)
    (h7 : h.connected = c) :
    Model.Heartbeat.run h (tickLabels c (n + 1) h) = some (tickHB c (n + 1) h) ∧
    (tickHB c (n + 1) h).now = n + 1 ∧ (tickHB c (n + 1) h).flag = false ∧
    (tickHB c (n + 1) h).connected = c ∧
    (tickHB c (n + 1) h).tl = tickTl (n + 1) h.timeout h.tl ∧
    (tickHB c (n + 1) h).hl = tickHl (n + 1) h.interval h.hl ∧
    (tickHB c (n + 1) h).trace = h.trace ++ tickTrace c (n + 1) h ∧
    (tickHB c (n + 1) h).lastArm =
      (match h.tl with | .waiting d => if d ≤ n + 1 then n + 1 else h.lastArm | _ => h.lastArm) ∧
    (tickHB c (n + 1) h).interval = h.interval ∧ (tickHB c (n + 1) h).timeout = h.timeout := by
  obtain ⟨now, interval, timeout, flag, tl, hl, connected, lastArm, resetAt, expiries, trace⟩ := h
  simp only at h1 h3 h4 h5 h6 h7
  subst h1 h3 h7
  cases tl with
  | resetting => exact absurd rfl h4
  | idle =>
    cases hl with
    | idle =>
      simp [tickHB, tickLabels, tickTrace, tickTl, tickHl, timeoutHB, beatHB, Model.Heartbeat.run, step]
    | sleeping u =>
      have := h6 u rfl
      by_cases hu : u ≤ now + 1
      · have : u = now + 1 := by omega
        subst this
        cases connected <;>
          simp [tickHB, tickLabels, tickTrace, tickTl, tickHl, timeoutHB, beatHB, Model.Heartbeat.run, step,
            hbApply, HB.emit]
      · have : now + 1 ≤ u := by omega
        simp [tickHB, tickLabels, tickTrace, tickTl, tickHl, timeoutHB, beatHB, Model.Heartbeat.run, step, hu, this]
  | waiting d =>
    have := h5 d rfl
    cases hl with
    | idle =>
      by_cases hd : d ≤ now + 1
      · have : d = now + 1 := by omega
        subst this
        cases connected <;>
          simp [tickHB, tickLabels, tickTrace, tickTl, tickHl, timeoutHB, beatHB, Model.Heartbeat.run, step,
            hbApply, HB.emit, enterTimeout]
      · have : now + 1 ≤ d := by omega
        simp [tickHB, tickLabels, tickTrace, tickTl, tickHl, timeoutHB, beatHB, Model.Heartbeat.run, step, hd, this]
    | sleeping u =>
      have := h6 u rfl
      by_cases hd : d ≤ now + 1
      · have : d = now + 1 := by omega
        subst this
        by_cases hu : u ≤ now + 1
        · have : u = now + 1 := by omega
          subst this
          cases connected <;>
            simp [tickHB, tickLabels, tickTrace, tickTl, tickHl, timeoutHB, beatHB, Model.Heartbeat.run, step,
              hbApply, HB.emit, enterTimeout]
        · have : now + 1 ≤ u := by omega
          cases connected <;>
            simp [tickHB, tickLabels, tickTrace, tickTl, tickHl, timeoutHB, beatHB, Model.Heartbeat.run, step,
              hbApply, HB.emit, enterTimeout, hu, this]
      · have hd' : now + 1 ≤ d := by omega
        by_cases hu : u ≤ now + 1
        · have : u = now + 1 := by omega
          subst this
          cases connected <;>
            simp [tickHB, tickLabels, tickTrace, tickTl, tickHl, timeoutHB, beatHB, Model.Heartbeat.run, step,
              hbApply, HB.emit, enterTimeout, hd, hd']
        · have : now + 1 ≤ u := by omega
          simp [tickHB, tickLabels, tickTrace, tickTl, tickHl, timeoutHB, beatHB, Model.Heartbeat.run, step,
              hbApply, HB.emit, enterTimeout, hu, this, hd, hd']

theorem hbOk_tick {n c h} (ok : HbOk n c h) : HbOk (n + 1) c (tickHB c (n + 1) h) := by
  have ht := ok.timeout_eq
  have hiv := ok.interval_eq
  obtain ⟨h1, h2, h3, h4, h5, h6, h7⟩ := ok
  obtain ⟨f1, f2, f3, f4, f5, f6, f7, f8, f9, f10⟩ := tickHB_calc h n c h1 h3 h4 h5 h6 h7
  refine ⟨f2, reachable_run h2 f1, f3, ?_, ?_, ?_, f4⟩
  · rw [f5]; cases htl : h.tl with
    | idle => simp [tickTl]
    | resetting => exact absurd htl h4
    | waiting d => simp only [tickTl]; split <;> simp
  · intro d hd
    rw [f5] at hd
    cases htl : h.tl with
    | idle => rw [htl] at hd; simp [tickTl] at hd
    | resetting => exact absurd htl h4
    | waiting d0 =>
      have := h5 d0 htl
      rw [htl] at hd; simp only [tickTl] at hd
      split at hd <;> cases hd <;> omega
  · intro u hu
    rw [f6] at hu
    cases hhl : h.hl with
    | idle => rw [hhl] at hu; simp [tickHl] at hu
    | sleeping u0 =>
      have := h6 u0 hhl
      rw [hhl] at hu; simp only [tickHl] at hu
      split at hu <;> cases hu <;> omega

/-! ### what never stops the heartbeat -/

/-- the parameters are kept and a running heartbeat keeps running -/
structure HbKeep (h h' : HB) : Prop where
  interval_eq : h'.interval = h.interval
  timeout_eq : h'.timeout = h.timeout
  running : hbIdle h = false → hbIdle h' = false

theorem HbKeep.refl (h : HB) : HbKeep h h := ⟨rfl, rfl, id⟩

theorem HbKeep.trans {a b c : HB} (h1 : HbKeep a b) (h2 : HbKeep b c) : HbKeep a c :=
  ⟨h2.1.trans h1.1, h2.2.trans h1.2, fun h => h2.3 (h1.3 h)⟩

theorem hbKeep_now (h : HB) (t : Nat) : HbKeep h { h with now := t } := ⟨rfl, rfl, id⟩

theorem hbApply_params (h : HB) (l : Label) :
    (hbApply h l).interval = h.interval ∧ (hbApply h l).timeout = h.timeout := by
  cases hs : step h l with
  | none => rw [hbApply_of_none hs]; exact ⟨rfl, rfl⟩
  | some h' =>
    rw [hbApply_of_some hs]
    cases l <;> simp only [step, HB.emit, enterTimeout] at hs
    all_goals (repeat' split at hs)
    all_goals (first | cases hs | skip)
    all_goals simp

theorem hbKeep_apply (h : HB) (l : Label) (hl : l ≠ .stop) : HbKeep h (hbApply h l) := by
  refine ⟨(hbApply_params h l).1, (hbApply_params h l).2, ?_⟩
  cases hs : step h l with
  | none => rw [hbApply_of_none hs]; exact id
  | some h' =>
    rw [hbApply_of_some hs]
    cases l <;> simp only [step, HB.emit, enterTimeout] at hs
    all_goals (repeat' split at hs)
    all_goals (first | cases hs | skip)
    all_goals simp_all [hbIdle]

/-! ## the API state -/

/-- what the heartbeat wiring looks at -/
structure HbView where
  hb : HB
  now : Nat
  sockConnected : Bool

def hbView (s : State) : HbView := { hb := s.hb, now := s.now, sockConnected := s.sockConnected }

/-- events that say something about the heartbeat: `RESET`, `HBSTART`, `HBSTOP`, a `RESULT`, the request -/
def hbRelevant : Ev → Bool
  | .reset | .hbStart | .hbStop => true
  | .result _ => true
  | .send .connected m => m == hbMessage
  | _ => false

theorem hbView_processGroupNames (s : State) (l : List (Nat × Bytes)) : hbView (processGroupNames s l) = hbView s := by
  unfold processGroupNames
  induction l generalizing s with
  | nil => rfl
  | cons p ps ih => rw [List.foldl_cons, ih]; rfl

theorem hbView_processAbility (s : State) (single : Bool) (l : List FF11.AcAbility) :
    hbView (processAbility s single l).1 = hbView s := by
  induction l generalizing s with
  | nil => rfl
  | cons ab rest ih =>
    simp only [processAbility]
    cases ha : addAc s single ab with
    | none => rfl
    | some s' =>
      simp only
      rw [ih]
      unfold addAc at ha
      cases hz : zonesForAbility s single ab with
      | none => simp [hz] at ha
      | some zs =>
        cases hm : mkAc ab zs with
        | none => simp [hz, hm] at ha
        | some a => simp [hz, hm] at ha; subst ha; rfl

theorem hbView_foldStatus (s : State) (l : List X2D.AcStatusData) : hbView (foldEv updateAcStatus s l).1 = hbView s := by
  rw [foldEv_frame_ac _ updateAcStatus_frame]; rfl
theorem hbView_foldTimer (s : State) (l : List TimerCommon.AcTimerStatusData) :
    hbView (foldEv updateAcTimer s l).1 = hbView s := by
  rw [foldEv_frame_ac _ updateAcTimer_frame]; rfl
theorem hbView_foldGroup (s : State) (l : List X2B.GroupStatusData) : hbView (foldEv updateGroupStatus s l).1 = hbView s := by
  rw [foldEv_frame_zone _ updateGroupStatus_frame]; rfl
theorem hbView_updateErrInfo (s : State) (e : FF10.AcErrorInformationMessage) : hbView (updateErrInfo s e).1 = hbView s := by
  rw [updateErrInfo_frame]; rfl
theorem hbView_updateVersion (s : State) (v : FF30.ConsoleVersionMessage) : hbView (updateVersion s v).1 = hbView s := by
  unfold updateVersion; split <;> rfl

theorem hbView_processTimers (s : State) (l : List TimerCommon.AcTimerStatusData) :
    hbView (processTimers s l).1 = hbView s := by
  unfold processTimers
  split
  · exact hbView_foldTimer s l
  · split
    · exact hbView_foldTimer s l
    · rfl

/-- the message is the group status that completes the handshake -/
def completes (s : State) (m : RMsg) : Bool :=
  s.st == .INIT_GROUP_STATUS && (match m with | .groupStatus (.status _) => true | _ => false)

theorem completes_iff (s : State) (m : RMsg) :
    completes s m = true ↔ s.st = .INIT_GROUP_STATUS ∧ ∃ l, m = .groupStatus (.status l) := by
  unfold completes
  constructor
  · intro h
    simp only [Bool.and_eq_true, beq_iff_eq] at h
    refine ⟨h.1, ?_⟩
    have h2 := h.2
    split at h2
    · exact ⟨_, rfl⟩
    · cases h2
  · rintro ⟨h1, l, rfl⟩
    simp [h1]

/-- `HeartbeatManager.start()` at time `n` -/
def startHB (n : Nat) (h : HB) : HB := if hbIdle h then startedHB { h with now := n } else h

theorem hbStart_hb (s : State) : (hbStart s).1.hb = startHB s.now s.hb := by
  unfold hbStart startHB startedHB
  split <;> rfl

theorem hbView_enterConnected (s : State) :
    hbView (enterConnected s).1 = { hb := startHB s.now s.hb, now := s.now, sockConnected := s.sockConnected } := by
  unfold enterConnected
  simp only
  rw [hbStart_frame]
  simp only [hbView, hbStart_hb]

theorem hbView_onMessage (s : State) (m : RMsg) :
    hbView (onMessage s m).1 =
      if completes s m then { hb := startHB s.now s.hb, now := s.now, sockConnected := s.sockConnected }
      else hbView s := by
  cases m with
  | extended sub =>
    have hc : completes s (.extended sub) = false := by simp [completes]
    rw [hc]
    cases sub with
    | consoleVer v =>
      cases v with
      | message v =>
        simp only [onMessage]
        split
        · rfl
        · split
          · exact hbView_updateVersion s v
          · rfl
      | request => rfl
    | groupNames n =>
      cases n with
      | message n =>
        simp only [onMessage]
        split
        · exact hbView_processGroupNames s _
        · rfl
      | request r => rfl
    | acAbility a =>
      cases a with
      | ability acs =>
        simp only [onMessage]
        split
        · have := hbView_processAbility s (acs.length == 1) acs
          split
          · next s' heq => rw [heq] at this; exact this
          · next s' heq => rw [heq] at this; exact this
        · rfl
      | request r => rfl
    | errInfo e =>
      cases e with
      | message e => exact hbView_updateErrInfo s e
      | request r => rfl
    | quickTimer q => rfl
    | unsupported i r => rfl
  | groupCtrl c => simp [completes]; rfl
  | groupStatus g =>
    cases g with
    | request => simp [completes]; rfl
    | status l =>
      simp only [onMessage, completes]
      split
      · next hst =>
        rw [hbView_enterConnected]
        have := hbView_foldGroup s l
        simp only [hst, beq_self_eq_true, Bool.and_true, ↓reduceIte]
        rw [show (foldEv updateGroupStatus s l).1.hb = s.hb from congrArg HbView.hb this,
          show (foldEv updateGroupStatus s l).1.now = s.now from congrArg HbView.now this,
          show (foldEv updateGroupStatus s l).1.sockConnected = s.sockConnected from congrArg HbView.sockConnected this]
      · next hst =>
        have hb : (s.st == Api4.AirTouchState.INIT_GROUP_STATUS) = false := by simpa using hst
        simp only [hb, Bool.false_and, Bool.false_eq_true, ↓reduceIte]
        split
        · exact hbView_foldGroup (rearmPolls s) l
        · rfl
  | acCtrl c => simp [completes]; rfl
  | acStatus a =>
    have hc : completes s (.acStatus a) = false := by simp [completes]
    rw [hc]
    cases a with
    | request => rfl
    | status l =>
      simp only [onMessage]
      split
      · exact hbView_foldStatus s l
      · split
        · exact hbView_foldStatus s l
        · rfl
  | acTimerCtrl c => simp [completes]; exact hbView_processTimers s _
  | acTimerStatus t =>
    have hc : completes s (.acTimerStatus t) = false := by simp [completes]
    rw [hc]
    cases t with
    | request => rfl
    | status l => exact hbView_processTimers s _
  | unsupported i r => simp [completes]; rfl

/-! ### events that do not concern the heartbeat -/

/-- no `RESET`, `HBSTART`, `HBSTOP`, `RESULT`, heartbeat request in the list -/
def Plain (l : List Ev) : Prop := ∀ e ∈ l, hbRelevant e = false

theorem plain_nil : Plain [] := by intro e he; cases he

theorem plain_append {l₁ l₂ : List Ev} (h1 : Plain l₁) (h2 : Plain l₂) : Plain (l₁ ++ l₂) := by
  intro e he
  rcases List.mem_append.mp he with h | h
  · exact h1 e h
  · exact h2 e h

theorem plain_single {e : Ev} (h : hbRelevant e = false) : Plain [e] := by
  intro e' he; simp only [List.mem_singleton] at he; subst he; exact h

theorem Plain.count_zero {l : List Ev} (h : Plain l) {e : Ev} (he : hbRelevant e = true) : l.count e = 0 :=
  List.count_eq_zero.mpr (fun hm => by rw [h e hm] at he; cases he)

theorem Plain.not_mem {l : List Ev} (h : Plain l) {e : Ev} (he : hbRelevant e = true) : e ∉ l :=
  fun hm => by rw [h e hm] at he; cases he

theorem plain_notifyAcAll (a : AcObj) : Plain (notifyAcAll a) := by
  intro e he
  simp only [notifyAcAll, List.mem_append, List.mem_map] at he
  rcases he with ⟨_, _, rfl⟩ | ⟨_, _, rfl⟩ <;> rfl

theorem plain_updateAcStatus (s : State) (r : X2D.AcStatusData) : Plain (updateAcStatus s r).2 := by
  unfold updateAcStatus
  split
  · exact plain_nil
  · split
    · exact plain_nil
    · apply plain_append
      · split
        · exact plain_single (by simp [hbRelevant, errInfoRequest, hbMessage, versionRequest])
        · exact plain_nil
      · exact plain_notifyAcAll _

theorem plain_updateAcTimer (s : State) (r : TimerCommon.AcTimerStatusData) : Plain (updateAcTimer s r).2 := by
  unfold updateAcTimer
  split
  · exact plain_nil
  · split
    · exact plain_nil
    · exact plain_notifyAcAll _

theorem plain_updateErrInfo (s : State) (r : FF10.AcErrorInformationMessage) : Plain (updateErrInfo s r).2 := by
  unfold updateErrInfo
  split
  · exact plain_nil
  · split
    · exact plain_nil
    · exact plain_notifyAcAll _

theorem plain_updateGroupStatus (s : State) (g : X2B.GroupStatusData) : Plain (updateGroupStatus s g).2 := by
  unfold updateGroupStatus
  split
  · exact plain_nil
  · split
    · exact plain_nil
    · intro e he
      simp only [List.mem_append, List.mem_map, List.mem_flatMap, notifyAcGeneral] at he
      rcases he with ⟨_, _, rfl⟩ | ⟨_, _, _, _, rfl⟩ <;> rfl

theorem plain_updateVersion (s : State) (v : FF30.ConsoleVersionMessage) : Plain (updateVersion s v).2 := by
  unfold updateVersion
  split
  · exact plain_nil
  · intro e he
    simp only [List.mem_map] at he
    obtain ⟨_, _, rfl⟩ := he
    rfl

theorem plain_processTimers (s : State) (l : List TimerCommon.AcTimerStatusData) : Plain (processTimers s l).2.1 := by
  unfold processTimers
  split
  · exact plain_append (foldEv_events _ _ plain_updateAcTimer s l) (plain_single (by decide))
  · split
    · exact foldEv_events _ _ plain_updateAcTimer s l
    · exact plain_nil

/-- the outputs of the message handler: nothing about the heartbeat, unless the message completes the handshake -/
theorem plain_onMessage (s : State) (m : RMsg) (hc : completes s m = false) : Plain (onMessage s m).2.1 := by
  cases m with
  | extended sub =>
    cases sub with
    | consoleVer v =>
      cases v with
      | message v =>
        simp only [onMessage]
        split
        · exact plain_single (by decide)
        · split
          · exact plain_updateVersion s v
          · exact plain_nil
      | request => exact plain_nil
    | groupNames n =>
      cases n with
      | message n =>
        simp only [onMessage]
        split
        · exact plain_single (by decide)
        · exact plain_nil
      | request r => exact plain_nil
    | acAbility a =>
      cases a with
      | ability acs =>
        simp only [onMessage]
        split
        · split
          · exact plain_single (by decide)
          · exact plain_nil
        · exact plain_nil
      | request r => exact plain_nil
    | errInfo e =>
      cases e with
      | message e => exact plain_updateErrInfo s e
      | request r => exact plain_nil
    | quickTimer q => exact plain_nil
    | unsupported i r => exact plain_nil
  | groupCtrl c => exact plain_nil
  | groupStatus g =>
    cases g with
    | request => exact plain_nil
    | status l =>
      have hst : s.st ≠ .INIT_GROUP_STATUS := by
        intro h; simp [completes, h] at hc
      simp only [onMessage, hst, ↓reduceIte]
      split
      · exact foldEv_events _ _ plain_updateGroupStatus _ l
      · exact plain_nil
  | acCtrl c => exact plain_nil
  | acStatus a =>
    cases a with
    | request => exact plain_nil
    | status l =>
      simp only [onMessage]
      split
      · exact plain_append (foldEv_events _ _ plain_updateAcStatus s l) (plain_single (by decide))
      · split
        · exact foldEv_events _ _ plain_updateAcStatus s l
        · exact plain_nil
  | acTimerCtrl c => exact plain_processTimers s _
  | acTimerStatus t =>
    cases t with
    | request => exact plain_nil
    | status l => exact plain_processTimers s _
  | unsupported i r => exact plain_nil

/-! ### a received message -/

theorem completes_not_response {s : State} {m : RMsg} (h : completes s m = true) : isHeartbeatResponse m = false := by
  obtain ⟨_, l, rfl⟩ := (completes_iff s m).mp h
  rfl

theorem hbOnMessage_eq (s : State) (m : RMsg) :
    hbOnMessage s m =
      if isHeartbeatResponse m then { s with hb := respondedHB { s.hb with now := s.now } } else s := rfl

/-- the embedded heartbeat after `recv m` -/
def recvHB (s : State) (m : RMsg) : HB :=
  if s.subscribed && completes s m then startHB s.now s.hb
  else if isHeartbeatResponse m then respondedHB { s.hb with now := s.now } else s.hb

theorem hbView_recv (s : State) (m : RMsg) :
    hbView (recv s m).1 = { hb := recvHB s m, now := s.now, sockConnected := s.sockConnected } := by
  unfold recv recvHB
  simp only [hbOnMessage_eq]
  cases hsub : s.subscribed with
  | false =>
    simp only [Bool.false_eq_true, ↓reduceIte, Bool.false_and]
    split <;> rfl
  | true =>
    simp only [↓reduceIte, Bool.true_and]
    have hv := hbView_onMessage s m
    cases hc : completes s m with
    | true =>
      rw [hc] at hv
      simp only [↓reduceIte] at hv
      rw [completes_not_response hc]
      simp only [Bool.false_eq_true, ↓reduceIte]
      exact hv
    | false =>
      rw [hc] at hv
      simp only [Bool.false_eq_true, ↓reduceIte] at hv
      have e1 : (onMessage s m).1.hb = s.hb := congrArg HbView.hb hv
      have e2 : (onMessage s m).1.now = s.now := congrArg HbView.now hv
      have e3 : (onMessage s m).1.sockConnected = s.sockConnected := congrArg HbView.sockConnected hv
      simp only [Bool.false_eq_true, ↓reduceIte]
      split
      · simp only [hbView, e1, e2, e3]
      · exact hv

/-- a message that does not complete the handshake: no output concerns the heartbeat -/
theorem plain_recv (s : State) (m : RMsg) (hc : (s.subscribed && completes s m) = false) : Plain (recv s m).2 := by
  unfold recv
  cases hsub : s.subscribed with
  | false =>
    simp only [Bool.false_eq_true, ↓reduceIte, List.nil_append]
    exact plain_nil
  | true =>
    rw [hsub] at hc
    simp only [Bool.true_and] at hc
    simp only [↓reduceIte]
    apply plain_append (plain_onMessage s m hc)
    split
    · exact plain_single rfl
    · exact plain_nil

/-- the message that completes the handshake: `HBSTART`, the `init()` results, the first heartbeat request -/
theorem recv_completes_events (s : State) (l : List X2B.GroupStatusData) (hsub : s.subscribed = true)
    (hst : s.st = .INIT_GROUP_STATUS) :
    ∃ E, Plain E ∧
      (recv s (.groupStatus (.status l))).2 =
        E ++ [Ev.hbStart] ++ s.initWaits.map (fun _ => Ev.result "init True") ++
          (if hbIdle s.hb && s.sockConnected then [hbEv] else []) := by
  refine ⟨(foldEv updateGroupStatus s l).2, foldEv_events _ _ plain_updateGroupStatus s l, ?_⟩
  have hv := hbView_foldGroup s l
  have e1 : (foldEv updateGroupStatus s l).1.hb = s.hb := congrArg HbView.hb hv
  have e3 : (foldEv updateGroupStatus s l).1.sockConnected = s.sockConnected := congrArg HbView.sockConnected hv
  have e4 : (foldEv updateGroupStatus s l).1.initWaits = s.initWaits := by
    rw [foldEv_frame_zone _ updateGroupStatus_frame]
  simp only [recv, hsub, ↓reduceIte, onMessage, hst, enterConnected, hbStart_events, e1, e3, e4, List.append_nil,
    List.append_assoc, hbEv]

theorem recv_state_completes (s : State) (l : List X2B.GroupStatusData) (hsub : s.subscribed = true)
    (hst : s.st = .INIT_GROUP_STATUS) :
    (recv s (.groupStatus (.status l))).1.st = .CONNECTED ∧
    (recv s (.groupStatus (.status l))).1.initialised = true :=
  ⟨(recv_final_answer s hsub l hst).1, (recv_final_answer s hsub l hst).2.1⟩

/-- a message that does not complete the handshake leaves the initialised event alone -/
theorem recv_initialised (s : State) (m : RMsg) (hc : (s.subscribed && completes s m) = false) :
    (recv s m).1.initialised = s.initialised := by
  cases hsub : s.subscribed with
  | false => simp only [recv, hsub, Bool.false_eq_true, ↓reduceIte, hbOnMessage_eq]; split <;> rfl
  | true =>
    rw [hsub] at hc
    simp only [Bool.true_and] at hc
    have : s.st ≠ .INIT_GROUP_STATUS ∨ s.st = .INIT_GROUP_STATUS := by
      by_cases h : s.st = .INIT_GROUP_STATUS
      · exact Or.inr h
      · exact Or.inl h
    rcases this with h | h
    · exact congrArg Prod.fst (initView_recv s m h)
    · have ha : answerKind s.st m = false := by
        rw [h]
        cases m with
        | groupStatus g =>
          cases g with
          | request => rfl
          | status l => simp [completes, h] at hc
        | _ => rfl
      exact congrArg HsView.initialised (hsView_recv_not_answer s m ha)

/-! ### the timers -/

theorem fireHbTimeout_eq (s : State) :
    fireHbTimeout s = ({ s with hb := timeoutHB s.sockConnected s.now s.hb }, timeoutEvs s.sockConnected s.now s.hb) := by
  unfold fireHbTimeout timeoutHB timeoutEvs
  cases s.hb.tl <;> simp only <;> (try split) <;> (try split) <;> rfl

theorem fireBeat_eq (s : State) :
    fireBeat s = ({ s with hb := beatHB s.now s.hb }, beatEvs s.sockConnected s.now s.hb) := by
  unfold fireBeat beatHB beatEvs
  cases s.hb.hl <;> simp only <;> (try split) <;> (try split) <;> rfl

theorem hbView_tick (s : State) :
    hbView (tick s).1 =
      { hb := tickHB s.sockConnected (s.now + 1) s.hb, now := s.now + 1, sockConnected := s.sockConnected } := by
  unfold tick
  simp only [fireHbTimeout_eq, fireBeat_eq]
  rfl

theorem hbApply_hl_tlFire (h : HB) : (hbApply h .tlFire).hl = h.hl := by
  cases hs : step h .tlFire with
  | none => rw [hbApply_of_none hs]
  | some h' =>
    rw [hbApply_of_some hs]
    simp only [step, HB.emit, enterTimeout] at hs
    repeat' split at hs
    all_goals (first | cases hs | skip)
    all_goals rfl

theorem hbApply_hl_tlResetDone (h : HB) : (hbApply h .tlResetDone).hl = h.hl := by
  cases hs : step h .tlResetDone with
  | none => rw [hbApply_of_none hs]
  | some h' =>
    rw [hbApply_of_some hs]
    simp only [step, HB.emit, enterTimeout] at hs
    repeat' split at hs
    all_goals (first | cases hs | skip)
    all_goals rfl

theorem timeoutHB_hl (c : Bool) (t : Nat) (h : HB) : (timeoutHB c t h).hl = h.hl := by
  unfold timeoutHB
  split
  · split
    · split
      · rw [hbApply_hl_tlResetDone, hbApply_hl_tlFire]
      · rw [hbApply_hl_tlFire]
    · rfl
  · rfl

/-- events that only the heartbeat machinery produces -/
def hbCore : Ev → Bool
  | .reset | .hbStart | .hbStop => true
  | .send .connected m => m == hbMessage
  | _ => false

theorem hbRelevant_of_core {e : Ev} (h : hbCore e = true) : hbRelevant e = true := by
  cases e <;> simp_all [hbCore, hbRelevant]
  next p m => cases p <;> simp_all [hbCore, hbRelevant]

theorem plain_firePolls (s : State) : Plain (firePolls s).2 := by
  have hp : ∀ c o t d, Plain (firePoll c o t d).2 := by
    intro c o t d
    unfold firePoll
    split
    · split
      · split
        · exact plain_single (by decide)
        · exact plain_nil
      · exact plain_nil
    · exact plain_nil
  unfold firePolls
  apply plain_append
  · intro e he
    simp only [List.mem_flatMap, List.mem_map] at he
    obtain ⟨_, ⟨d, _, rfl⟩, he⟩ := he
    exact hp _ _ _ _ e he
  · cases s.pollCur with
    | none => exact plain_nil
    | some d => exact hp _ _ _ _

theorem count_fireInitWaits_core (s : State) {e : Ev} (he : hbCore e = true) : (fireInitWaits s).2.count e = 0 := by
  simp only [fireInitWaits]
  apply List.count_eq_zero.mpr
  intro h
  simp only [List.mem_map] at h
  obtain ⟨_, _, rfl⟩ := h
  cases he

/-- the heartbeat events of one tick are those of the timeout loop and of the heartbeat loop -/
theorem tick_count (s : State) {e : Ev} (he : hbCore e = true) :
    (tick s).2.count e =
      (timeoutEvs s.sockConnected (s.now + 1) s.hb).count e + (beatEvs s.sockConnected (s.now + 1) s.hb).count e := by
  unfold tick
  simp only [fireHbTimeout_eq, fireBeat_eq, List.count_append, count_fireInitWaits_core _ he,
    (plain_firePolls _).count_zero (hbRelevant_of_core he), Nat.add_zero]
  congr 1
  show (beatEvs s.sockConnected (s.now + 1)
    (timeoutHB s.sockConnected (s.now + 1) { s.hb with now := s.now + 1 })).count e = _
  unfold beatEvs
  rw [timeoutHB_hl]

/-! ### `adv n` -/

/-- `n` ticks from time `t` on the embedded heartbeat -/
def advHB (c : Bool) : Nat → Nat → HB → HB
  | 0, _, h => h
  | k+1, t, h => advHB c k (t + 1) (tickHB c (t + 1) h)

def advLabels (c : Bool) : Nat → Nat → HB → List Label
  | 0, _, _ => []
  | k+1, t, h => tickLabels c (t + 1) h ++ advLabels c k (t + 1) (tickHB c (t + 1) h)

def advTrace (c : Bool) : Nat → Nat → HB → List HEv
  | 0, _, _ => []
  | k+1, t, h => tickTrace c (t + 1) h ++ advTrace c k (t + 1) (tickHB c (t + 1) h)

theorem hbView_advance (k : Nat) (s : State) :
    hbView (advance k s).1 =
      { hb := advHB s.sockConnected k s.now s.hb, now := s.now + k, sockConnected := s.sockConnected } := by
  induction k generalizing s with
  | zero => rfl
  | succ k ih =>
    have hv := hbView_tick s
    have e1 : (tick s).1.hb = _ := congrArg HbView.hb hv
    have e2 : (tick s).1.now = _ := congrArg HbView.now hv
    have e3 : (tick s).1.sockConnected = _ := congrArg HbView.sockConnected hv
    simp only [advance, ih, e1, e2, e3, advHB]
    congr 1
    omega

theorem hbOk_adv {c : Bool} (k : Nat) {n : Nat} {h : HB} (ok : HbOk n c h) :
    HbOk (n + k) c (advHB c k n h) ∧
    Model.Heartbeat.run h (advLabels c k n h) = some (advHB c k n h) ∧
    (advHB c k n h).trace = h.trace ++ advTrace c k n h := by
  induction k generalizing n h with
  | zero => exact ⟨ok, rfl, by simp [advHB, advTrace]⟩
  | succ k ih =>
    obtain ⟨i1, i2, i3⟩ := ih (hbOk_tick ok)
    have hc := tickHB_calc h n c ok.now_eq ok.flag ok.not_resetting ok.deadline ok.wake ok.conn
    refine ⟨?_, ?_, ?_⟩
    · have : n + (k + 1) = n + 1 + k := by omega
      rw [this]; exact i1
    · simp only [advLabels, advHB]; rw [Lemmas.Heartbeat.run_append, hc.1]; exact i2
    · simp only [advHB, advTrace, i3, hc.2.2.2.2.2.2.1, List.append_assoc]

/-! ### the invariant -/

/-- the embedded heartbeat is a reachable state of the heartbeat model, in step with the API object's clock and
    socket, with no event pending, no reset in progress, and its deadline and wake-up strictly ahead -/
structure HbWf (s : State) : Prop where
  now_eq : s.hb.now = s.now
  reach : Reachable heartbeatDefaultIntervalField heartbeatDefaultTimeoutField s.hb
  flag : s.hb.flag = false
  not_resetting : s.hb.tl ≠ .resetting
  deadline : ∀ d, s.hb.tl = .waiting d → s.now < d
  wake : ∀ u, s.hb.hl = .sleeping u → s.now < u
  conn : s.hb.connected = s.sockConnected

theorem hbWf_iff (s : State) : HbWf s ↔ HbOk s.now s.sockConnected s.hb :=
  ⟨fun ⟨a, b, c, d, e, f, g⟩ => ⟨a, b, c, d, e, f, g⟩, fun ⟨a, b, c, d, e, f, g⟩ => ⟨a, b, c, d, e, f, g⟩⟩

theorem hbWf_of_view {s' : State} {h : HB} {n : Nat} {c : Bool}
    (hv : hbView s' = { hb := h, now := n, sockConnected := c }) (ok : HbOk n c h) : HbWf s' := by
  have e1 : s'.hb = h := congrArg HbView.hb hv
  have e2 : s'.now = n := congrArg HbView.now hv
  have e3 : s'.sockConnected = c := congrArg HbView.sockConnected hv
  rw [hbWf_iff, e1, e2, e3]; exact ok

theorem hbWf_initial : HbWf State.initial := (hbWf_iff _).mpr hbOk_init

theorem hbView_subUnsub (s : State) (t : Target) (f : List Sub → List Sub) :
    hbView (subUnsub s t f).1 = hbView s := by
  unfold subUnsub
  cases t with
  | airtouch => rfl
  | ac i general =>
    simp only
    cases s.findAc i with
    | none => rfl
    | some a => simp only; rw [setAc_frame]; rfl
  | zone i =>
    simp only
    cases s.findZone i with
    | none => rfl
    | some zi =>
      simp only
      cases s.zoneObjs[zi]? with
      | none => rfl
      | some z => rfl

theorem hbView_onConn (s : State) (up : Bool) : hbView (onConn s up).1 = hbView s := by
  unfold onConn
  split
  · rfl
  · split
    · split <;> rfl
    · split
      · split <;> rfl
      · rfl

/-- the embedded heartbeat after the op, as a function of the state before -/
def opHB (s : State) : Op → HB
  | .shutdown => hbApply (hbApply { s.hb with now := s.now } .stop) (.conn false)
  | .conn up => hbApply { s.hb with now := s.now } (.conn up)
  | .msg mid payload =>
    match decodeTop mid payload with
    | .ok m => recvHB s m
    | .error _ => s.hb
  | .recv m => recvHB s m
  | .adv n => advHB s.sockConnected n s.now s.hb
  | _ => s.hb

/-- what every op does to the clock, the socket's connection flag and the embedded heartbeat -/
theorem hbView_apiStep (s : State) (op : Op) :
    hbView (apiStep s op).1 =
      { hb := opHB s op
        now := (match op with | .adv n => s.now + n | _ => s.now)
        sockConnected := (match op with | .shutdown => false | .conn up => up | _ => s.sockConnected) } := by
  cases op with
  | init => simp only [apiStep, doInit]; split <;> rfl
  | shutdown => rfl
  | conn up => simp only [apiStep]; rw [hbView_onConn]; rfl
  | msg mid payload =>
    simp only [apiStep, opHB]
    cases decodeTop mid payload with
    | ok m => exact hbView_recv s m
    | error e => rfl
  | recv m => exact hbView_recv s m
  | call c => rfl
  | callBad c => rfl
  | sub t sid r => exact hbView_subUnsub s t _
  | unsub t sid => exact hbView_subUnsub s t _
  | adv n => exact hbView_advance n s
  | view => simp only [apiStep]; split <;> rfl

theorem hbOk_recvHB {s : State} (m : RMsg) (wf : HbWf s) : HbOk s.now s.sockConnected (recvHB s m) := by
  have ok := (hbWf_iff s).mp wf
  have hn := hb_now_self s.hb s.now wf.now_eq
  unfold recvHB startHB
  rw [hn]
  split
  · split
    · next hi => exact hbOk_started ok hi
    · exact ok
  · split
    · exact hbOk_responded ok
    · exact ok

/-- **the invariant is preserved by every op** -/
theorem hbWf_apiStep {s : State} (op : Op) (wf : HbWf s) : HbWf (apiStep s op).1 := by
  have ok := (hbWf_iff s).mp wf
  have hn := hb_now_self s.hb s.now wf.now_eq
  apply hbWf_of_view (hbView_apiStep s op)
  cases op with
  | shutdown => simp only [opHB, hn]; exact (hbOk_stop ok).1
  | conn up => simp only [opHB, hn]; exact hbOk_conn up ok
  | msg mid payload =>
    simp only [opHB]
    split
    · exact hbOk_recvHB _ wf
    · exact ok
  | recv m => exact hbOk_recvHB m wf
  | adv n => exact (hbOk_adv n ok).1
  | _ => exact ok

theorem hbWf_run {s : State} (ops : List Op) (wf : HbWf s) : HbWf (run s ops).1 := by
  induction ops generalizing s with
  | nil => exact wf
  | cons op ops ih => exact ih (hbWf_apiStep op wf)

/-- the embedded heartbeat of every state reachable from the initial one is a reachable state of the
    heartbeat model with the pinned parameters -/
theorem hb_reachable (ops : List Op) :
    Reachable heartbeatDefaultIntervalField heartbeatDefaultTimeoutField (run State.initial ops).1.hb :=
  (hbWf_run ops hbWf_initial).reach

/-! ### the bridge: every op is a run of the heartbeat model -/

def isResetEv : HEv → Bool
  | .reset _ => true
  | _ => false

def isBeatEv : HEv → Bool
  | .beat _ => true
  | _ => false

/-- number of `reset` / `beat` events in a piece of heartbeat trace -/
def numResets (tr : List HEv) : Nat := tr.countP isResetEv
def numBeats (tr : List HEv) : Nat := tr.countP isBeatEv

theorem numResets_append (a b : List HEv) : numResets (a ++ b) = numResets a + numResets b := by
  simp [numResets, List.countP_append]
theorem numBeats_append (a b : List HEv) : numBeats (a ++ b) = numBeats a + numBeats b := by
  simp [numBeats, List.countP_append]

/-- the labels by which `recv m` drives the heartbeat -/
def recvLabels (s : State) (m : RMsg) : List Label :=
  if s.subscribed && completes s m then (if hbIdle s.hb then [.start, .hlBeat] else [])
  else if isHeartbeatResponse m then (match s.hb.tl with | .waiting _ => [.response, .tlWake] | _ => [])
  else []

/-- … and the events the heartbeat records -/
def recvTrace (s : State) (m : RMsg) : List HEv :=
  if s.subscribed && completes s m then
    (if hbIdle s.hb then [.start s.now] ++ (if s.sockConnected then [.beat s.now] else []) else [])
  else if isHeartbeatResponse m then (match s.hb.tl with | .waiting _ => [.resp s.now] | _ => [])
  else []

/-- the labels by which each op drives the embedded heartbeat (in a state satisfying `HbWf`) -/
def opLabels (s : State) : Op → List Label
  | .shutdown => [.stop, .conn false]
  | .conn up => [.conn up]
  | .msg mid payload =>
    match decodeTop mid payload with
    | .ok m => recvLabels s m
    | .error _ => []
  | .recv m => recvLabels s m
  | .adv n => advLabels s.sockConnected n s.now s.hb
  | _ => []

/-- the events the embedded heartbeat records during each op -/
def opTrace (s : State) : Op → List HEv
  | .shutdown => (if hbIdle s.hb then [] else [.stop s.now]) ++ [.conn false s.now]
  | .conn up => [.conn up s.now]
  | .msg mid payload =>
    match decodeTop mid payload with
    | .ok m => recvTrace s m
    | .error _ => []
  | .recv m => recvTrace s m
  | .adv n => advTrace s.sockConnected n s.now s.hb
  | _ => []

theorem recvHB_run {s : State} (m : RMsg) (wf : HbWf s) :
    Model.Heartbeat.run s.hb (recvLabels s m) = some (recvHB s m) ∧
    (recvHB s m).trace = s.hb.trace ++ recvTrace s m := by
  have hn := hb_now_self s.hb s.now wf.now_eq
  have hnow := wf.now_eq
  have hconn := wf.conn
  unfold recvHB recvLabels recvTrace startHB
  rw [hn]
  split
  · split
    · next hi =>
      obtain ⟨f1, f2, f3, f4, f5, f6, f7, f8, f9, f10⟩ := startedHB_fields hi
      rw [hnow, hconn] at f9
      exact ⟨f10, by rw [f9, List.append_assoc]⟩
    · exact ⟨rfl, by simp⟩
  · split
    · cases htl : s.hb.tl with
      | idle => simp only []; rw [respondedHB_idle htl]; exact ⟨rfl, by simp⟩
      | resetting => exact absurd htl wf.not_resetting
      | waiting d =>
        obtain ⟨f1, f2, f3, f4, f5, f6, f7, f8, f9, f10⟩ := respondedHB_waiting htl
        rw [hnow] at f7
        exact ⟨f10, f7⟩
    · exact ⟨rfl, by simp⟩

/-- **the bridge**: in a state satisfying `HbWf` every op acts on the embedded heartbeat as the run
    `opLabels s op` of the heartbeat model (every label enabled), which records the events `opTrace s op` -/
theorem opHB_run {s : State} (op : Op) (wf : HbWf s) :
    Model.Heartbeat.run s.hb (opLabels s op) = some (opHB s op) ∧
    (opHB s op).trace = s.hb.trace ++ opTrace s op := by
  have ok := (hbWf_iff s).mp wf
  have hn := hb_now_self s.hb s.now wf.now_eq
  have hnow := wf.now_eq
  cases op with
  | shutdown =>
    simp only [opHB, opLabels, opTrace, hn]
    by_cases hi : hbIdle s.hb = true
    · have h1 : s.hb.tl = .idle ∧ s.hb.hl = .idle := by simpa [hbIdle] using hi
      simp [hbApply, step, h1.1, h1.2, HB.emit, Model.Heartbeat.run, hi, hnow]
    · have hi' : hbIdle s.hb = false := by simpa using hi
      have h1 : ¬ (s.hb.tl = .idle ∧ s.hb.hl = .idle) := by simpa [hbIdle] using hi
      cases htl : s.hb.tl <;> cases hhl : s.hb.hl <;>
        simp_all [hbApply, step, HB.emit, Model.Heartbeat.run, hbIdle]
  | conn up => simp [opHB, opLabels, opTrace, hn, hbApply, step, HB.emit, Model.Heartbeat.run, hnow]
  | msg mid payload =>
    simp only [opHB, opLabels, opTrace]
    cases decodeTop mid payload with
    | ok m => exact recvHB_run m wf
    | error e => exact ⟨rfl, by simp⟩
  | recv m => exact recvHB_run m wf
  | adv n => exact (hbOk_adv n ok).2
  | _ => exact ⟨rfl, by simp [opTrace, opHB]⟩

/-! ### output events against recorded events -/

theorem tick_reset_count (c : Bool) (t : Nat) (h : HB) :
    (timeoutEvs c t h).count Ev.reset + (beatEvs c t h).count Ev.reset = numResets (tickTrace c t h) := by
  unfold timeoutEvs beatEvs tickTrace numResets
  cases h.tl <;> cases h.hl <;> cases c <;> simp only [] <;> (repeat' split) <;>
    simp [List.count_cons, List.countP_cons, isResetEv, hbEv]

theorem tick_beat_count (c : Bool) (t : Nat) (h : HB) :
    (timeoutEvs c t h).count hbEv + (beatEvs c t h).count hbEv = numBeats (tickTrace c t h) := by
  unfold timeoutEvs beatEvs tickTrace numBeats
  cases h.tl <;> cases h.hl <;> cases c <;> simp only [] <;> (repeat' split) <;>
    simp [List.count_cons, List.countP_cons, isBeatEv, hbEv]

theorem tick_other_count (c : Bool) (t : Nat) (h : HB) (e : Ev) (h1 : e ≠ Ev.reset) (h2 : e ≠ hbEv) :
    (timeoutEvs c t h).count e + (beatEvs c t h).count e = 0 := by
  unfold timeoutEvs beatEvs
  cases h.tl <;> cases h.hl <;> cases c <;> simp only [] <;> (repeat' split) <;>
    simp [List.count_cons, Ne.symm h1, Ne.symm h2]

/-- heartbeat events output by `k` ticks -/
def advCount (c : Bool) (e : Ev) : Nat → Nat → HB → Nat
  | 0, _, _ => 0
  | k+1, t, h => (timeoutEvs c (t + 1) h).count e + (beatEvs c (t + 1) h).count e + advCount c e k (t + 1) (tickHB c (t + 1) h)

theorem advance_count (k : Nat) (s : State) {e : Ev} (he : hbCore e = true) :
    (advance k s).2.count e = advCount s.sockConnected e k s.now s.hb := by
  induction k generalizing s with
  | zero => rfl
  | succ k ih =>
    have hv := hbView_tick s
    have e1 : (tick s).1.hb = _ := congrArg HbView.hb hv
    have e2 : (tick s).1.now = _ := congrArg HbView.now hv
    have e3 : (tick s).1.sockConnected = _ := congrArg HbView.sockConnected hv
    simp only [advance, List.count_append, ih, e1, e2, e3, advCount, tick_count s he]

theorem advCount_reset (c : Bool) (k t : Nat) (h : HB) : advCount c Ev.reset k t h = numResets (advTrace c k t h) := by
  induction k generalizing t h with
  | zero => rfl
  | succ k ih => simp only [advCount, advTrace, numResets_append, ih, tick_reset_count]

theorem advCount_beat (c : Bool) (k t : Nat) (h : HB) : advCount c hbEv k t h = numBeats (advTrace c k t h) := by
  induction k generalizing t h with
  | zero => rfl
  | succ k ih => simp only [advCount, advTrace, numBeats_append, ih, tick_beat_count]

theorem advCount_other (c : Bool) (e : Ev) (h1 : e ≠ Ev.reset) (h2 : e ≠ hbEv) (k t : Nat) (h : HB) :
    advCount c e k t h = 0 := by
  induction k generalizing t h with
  | zero => rfl
  | succ k ih => simp only [advCount, ih, tick_other_count c _ _ e h1 h2]

theorem tickTrace_time (c : Bool) (t : Nat) (h : HB) : ∀ e ∈ tickTrace c t h, e.time = t := by
  unfold tickTrace
  cases h.tl <;> cases h.hl <;> cases c <;> simp only [] <;> (repeat' split) <;> simp [HEv.time]

/-- the events recorded during `adv k` from time `t` are stamped with the ticks `t + 1 … t + k` -/
theorem advTrace_time (c : Bool) (k t : Nat) (h : HB) : ∀ e ∈ advTrace c k t h, t < e.time ∧ e.time ≤ t + k := by
  induction k generalizing t h with
  | zero => intro e he; cases he
  | succ k ih =>
    intro e he
    simp only [advTrace, List.mem_append] at he
    rcases he with he | he
    · have := tickTrace_time c _ h e he; omega
    · have := ih _ _ e he; omega

/-! ### which op outputs `RESET`, `HBSTART`, `HBSTOP` -/

/-- the events of the heartbeat's life cycle -/
def hbSys : Ev → Bool
  | .reset | .hbStart | .hbStop => true
  | _ => false

theorem hbCore_of_sys {e : Ev} (h : hbSys e = true) : hbCore e = true := by
  cases e <;> simp_all [hbSys, hbCore]

theorem hbSys_of_plain {l : List Ev} (h : Plain l) : ∀ e ∈ l, hbSys e = false := by
  intro e he
  cases hs : hbSys e with
  | false => rfl
  | true => exact absurd (h e he) (by rw [hbRelevant_of_core (hbCore_of_sys hs)]; simp)

/-- ops that have nothing to do with the heartbeat's life cycle -/
def lifeless : Op → Bool
  | .init | .conn _ | .call _ | .callBad _ | .sub _ _ _ | .unsub _ _ | .view => true
  | _ => false

theorem noSys_subUnsub (s : State) (t : Target) (f : List Sub → List Sub) : ∀ e ∈ (subUnsub s t f).2, hbSys e = false := by
  unfold subUnsub
  cases t with
  | airtouch => intro e he; cases he
  | ac i general =>
    simp only
    cases s.findAc i with
    | none => intro e he; simp only [List.mem_singleton] at he; subst he; rfl
    | some a => intro e he; cases he
  | zone i =>
    simp only
    cases s.findZone i with
    | none => intro e he; simp only [List.mem_singleton] at he; subst he; rfl
    | some zi =>
      simp only
      cases s.zoneObjs[zi]? with
      | none => intro e he; simp only [List.mem_singleton] at he; subst he; rfl
      | some z => intro e he; cases he

theorem noSys_lifeless (s : State) (op : Op) (h : lifeless op = true) : ∀ e ∈ (apiStep s op).2, hbSys e = false := by
  cases op with
  | init =>
    simp only [apiStep, doInit]
    split <;> intro e he <;> simp at he <;> rcases he with rfl | rfl <;> rfl
  | conn up =>
    simp only [apiStep, onConn]
    intro e he
    repeat' split at he
    all_goals simp at he
    all_goals (try rcases he with rfl | rfl)
    all_goals (try subst he)
    all_goals rfl
  | call c =>
    simp only [apiStep, doCall]
    intro e he
    repeat' split at he
    all_goals simp at he
    all_goals (try rcases he with rfl | rfl)
    all_goals (try subst he)
    all_goals rfl
  | callBad c => intro e he; simp [apiStep] at he; subst he; rfl
  | sub t sid r => exact noSys_subUnsub s t _
  | unsub t sid => exact noSys_subUnsub s t _
  | view =>
    simp only [apiStep]
    split <;> intro e he <;> simp at he <;> subst he <;> rfl
  | shutdown => cases h
  | msg _ _ => cases h
  | recv _ => cases h
  | adv _ => cases h

theorem count_map_result (l : List Nat) (t : String) (e : Ev) (he : ∀ x, e ≠ Ev.result x) :
    (l.map (fun _ => Ev.result t)).count e = 0 := by
  apply List.count_eq_zero.mpr
  intro h
  simp only [List.mem_map] at h
  obtain ⟨_, _, h⟩ := h
  exact he t h.symm

theorem numResets_recvTrace (s : State) (m : RMsg) : numResets (recvTrace s m) = 0 := by
  unfold recvTrace numResets
  repeat' split
  all_goals simp [isResetEv]

/-- the heartbeat-related outputs of `recv m` -/
theorem recv_counts (s : State) (m : RMsg) :
    (recv s m).2.count Ev.reset = 0 ∧ (recv s m).2.count Ev.hbStop = 0 ∧
    (recv s m).2.count Ev.hbStart = (if s.subscribed && completes s m then 1 else 0) ∧
    (recv s m).2.count hbEv = numBeats (recvTrace s m) := by
  cases hc : (s.subscribed && completes s m) with
  | false =>
    have hp := plain_recv s m hc
    refine ⟨hp.count_zero rfl, hp.count_zero rfl, by simpa using hp.count_zero rfl, ?_⟩
    rw [hp.count_zero (by decide)]
    unfold recvTrace numBeats
    rw [hc]
    simp only [Bool.false_eq_true, ↓reduceIte]
    repeat' split
    all_goals simp [isBeatEv]
  | true =>
    simp only [Bool.and_eq_true] at hc
    obtain ⟨hst, l, rfl⟩ := (completes_iff s m).mp hc.2
    obtain ⟨E, hE, hev⟩ := recv_completes_events s l hc.1 hst
    rw [hev]
    simp only [List.count_append, hE.count_zero (e := Ev.reset) rfl, hE.count_zero (e := Ev.hbStop) rfl,
      hE.count_zero (e := Ev.hbStart) rfl, hE.count_zero (e := hbEv) (by decide),
      count_map_result _ _ Ev.reset (fun x h => by cases h), count_map_result _ _ Ev.hbStop (fun x h => by cases h),
      count_map_result _ _ Ev.hbStart (fun x h => by cases h), count_map_result _ _ hbEv (fun x h => by cases h)]
    unfold recvTrace numBeats
    rw [hc.1, hc.2]
    cases hi : hbIdle s.hb <;> cases hcn : s.sockConnected <;>
      simp [List.count_cons, List.countP_cons, isBeatEv, hbEv]

/-- `RESET` events output by an op = `reset` events recorded by the embedded heartbeat during the op -/
theorem reset_count_apiStep (s : State) (op : Op) :
    (apiStep s op).2.count Ev.reset = numResets (opTrace s op) := by
  by_cases hl : lifeless op = true
  · have h0 : (apiStep s op).2.count Ev.reset = 0 :=
      List.count_eq_zero.mpr (fun hm => by have := noSys_lifeless s op hl _ hm; cases this)
    rw [h0]
    cases op <;> first | rfl | cases hl
  · cases op with
    | shutdown =>
      simp only [apiStep, doShutdown, opTrace, numResets]
      split <;> simp [List.count_cons, List.countP_cons, isResetEv]
    | msg mid payload =>
      simp only [apiStep, opTrace]
      cases decodeTop mid payload with
      | ok m => simp only []; rw [(recv_counts s m).1, numResets_recvTrace]
      | error e => simp [List.count_cons, numResets]
    | recv m => simp only [apiStep, opTrace]; rw [(recv_counts s m).1, numResets_recvTrace]
    | adv n => simp only [apiStep, opTrace]; rw [advance_count n s rfl, advCount_reset]
    | _ => exact absurd rfl hl

/-- heartbeat requests output by a message or by the clock = `beat` events recorded during the op -/
theorem beat_count_apiStep (s : State) (op : Op)
    (hop : (∃ n, op = .adv n) ∨ (∃ m, op = .recv m) ∨ ∃ mid p, op = .msg mid p) :
    (apiStep s op).2.count hbEv = numBeats (opTrace s op) := by
  rcases hop with ⟨n, rfl⟩ | ⟨m, rfl⟩ | ⟨mid, p, rfl⟩
  · simp only [apiStep, opTrace]; rw [advance_count n s (by decide), advCount_beat]
  · simp only [apiStep, opTrace]; exact (recv_counts s m).2.2.2
  · simp only [apiStep, opTrace]
    cases decodeTop mid p with
    | ok m => exact (recv_counts s m).2.2.2
    | error e => simp [List.count_cons, numBeats, hbEv]

/-- no op but `adv` outputs `RESET` -/
theorem reset_only_adv (s : State) (op : Op) (h : Ev.reset ∈ (apiStep s op).2) : ∃ n, op = .adv n := by
  have hc : (apiStep s op).2.count Ev.reset ≠ 0 := fun h0 => List.count_eq_zero.mp h0 h
  cases op with
  | adv n => exact ⟨n, rfl⟩
  | msg mid payload =>
    exfalso; apply hc
    simp only [apiStep]
    cases decodeTop mid payload with
    | ok m => exact (recv_counts s m).1
    | error e => simp [List.count_cons]
  | recv m => exact absurd (recv_counts s m).1 hc
  | shutdown => simp [apiStep, doShutdown] at h
  | init => have := noSys_lifeless s .init rfl _ h; cases this
  | conn up => have := noSys_lifeless s (.conn up) rfl _ h; cases this
  | call c => have := noSys_lifeless s (.call c) rfl _ h; cases this
  | callBad c => have := noSys_lifeless s (.callBad c) rfl _ h; cases this
  | sub t i r => have := noSys_lifeless s (.sub t i r) rfl _ h; cases this
  | unsub t i => have := noSys_lifeless s (.unsub t i) rfl _ h; cases this
  | view => have := noSys_lifeless s .view rfl _ h; cases this

/-- `HBSTOP` is output by `shutdown()` and by nothing else -/
theorem hbStop_iff_shutdown (s : State) (op : Op) : Ev.hbStop ∈ (apiStep s op).2 ↔ op = .shutdown := by
  constructor
  · intro h
    cases op with
    | shutdown => rfl
    | adv n =>
      have := advance_count n s (e := Ev.hbStop) rfl
      rw [advCount_other _ _ (by decide) (by decide)] at this
      exact absurd h (List.count_eq_zero.mp this)
    | msg mid payload =>
      exfalso
      simp only [apiStep] at h
      cases hd : decodeTop mid payload with
      | ok m => rw [hd] at h; exact List.count_eq_zero.mp (recv_counts s m).2.1 h
      | error e => rw [hd] at h; simp at h
    | recv m => exact absurd h (List.count_eq_zero.mp (recv_counts s m).2.1)
    | init => have := noSys_lifeless s .init rfl _ h; cases this
    | conn up => have := noSys_lifeless s (.conn up) rfl _ h; cases this
    | call c => have := noSys_lifeless s (.call c) rfl _ h; cases this
    | callBad c => have := noSys_lifeless s (.callBad c) rfl _ h; cases this
    | sub t i r => have := noSys_lifeless s (.sub t i r) rfl _ h; cases this
    | unsub t i => have := noSys_lifeless s (.unsub t i) rfl _ h; cases this
    | view => have := noSys_lifeless s .view rfl _ h; cases this
  · rintro rfl; simp [apiStep, doShutdown]

/-- the message an op delivers to the API object -/
def opMsg : Op → Option RMsg
  | .recv m => some m
  | .msg mid payload =>
    match decodeTop mid payload with
    | .ok m => some m
    | .error _ => none
  | _ => none

theorem apiStep_of_opMsg {s : State} {op : Op} {m : RMsg} (h : opMsg op = some m) : apiStep s op = recv s m := by
  cases op with
  | recv m' => simp only [opMsg, Option.some.injEq] at h; subst h; rfl
  | msg mid payload =>
    simp only [opMsg] at h
    simp only [apiStep]
    cases hd : decodeTop mid payload with
    | ok m' => rw [hd] at h; simp only [Option.some.injEq] at h; subst h; rfl
    | error e => rw [hd] at h; cases h
  | _ => cases h

/-- `HBSTART` is output exactly by the delivery of the group status that completes the handshake -/
theorem hbStart_iff_completes (s : State) (op : Op) :
    Ev.hbStart ∈ (apiStep s op).2 ↔ ∃ m, opMsg op = some m ∧ s.subscribed = true ∧ completes s m = true := by
  constructor
  · intro h
    cases op with
    | shutdown => simp [apiStep, doShutdown] at h
    | adv n =>
      have := advance_count n s (e := Ev.hbStart) rfl
      rw [advCount_other _ _ (by decide) (by decide)] at this
      exact absurd h (List.count_eq_zero.mp this)
    | msg mid payload =>
      simp only [apiStep] at h
      cases hd : decodeTop mid payload with
      | ok m =>
        rw [hd] at h
        refine ⟨m, by simp [opMsg, hd], ?_⟩
        have hc := (recv_counts s m).2.2.1
        by_cases hx : (s.subscribed && completes s m) = true
        · simpa using hx
        · simp only [hx, Bool.false_eq_true, ↓reduceIte] at hc
          exact absurd h (List.count_eq_zero.mp hc)
      | error e => rw [hd] at h; simp at h
    | recv m =>
      refine ⟨m, rfl, ?_⟩
      have hc := (recv_counts s m).2.2.1
      by_cases hx : (s.subscribed && completes s m) = true
      · simpa using hx
      · simp only [hx, Bool.false_eq_true, ↓reduceIte] at hc
        exact absurd h (List.count_eq_zero.mp hc)
    | init => have := noSys_lifeless s .init rfl _ h; cases this
    | conn up => have := noSys_lifeless s (.conn up) rfl _ h; cases this
    | call c => have := noSys_lifeless s (.call c) rfl _ h; cases this
    | callBad c => have := noSys_lifeless s (.callBad c) rfl _ h; cases this
    | sub t i r => have := noSys_lifeless s (.sub t i r) rfl _ h; cases this
    | unsub t i => have := noSys_lifeless s (.unsub t i) rfl _ h; cases this
    | view => have := noSys_lifeless s .view rfl _ h; cases this
  · rintro ⟨m, hm, hsub, hc⟩
    rw [apiStep_of_opMsg hm]
    have := (recv_counts s m).2.2.1
    rw [hsub, hc] at this
    simp only [Bool.and_self, ↓reduceIte] at this
    exact List.count_pos_iff.mp (by omega)

/-! ### the bridge, stated on `tick` and `apiStep` -/

theorem tick_hb_run {s : State} (wf : HbWf s) :
    Model.Heartbeat.run s.hb (tickLabels s.sockConnected (s.now + 1) s.hb) = some (tick s).1.hb ∧
    (tick s).1.hb.trace = s.hb.trace ++ tickTrace s.sockConnected (s.now + 1) s.hb ∧
    (tick s).2.count Ev.reset = numResets (tickTrace s.sockConnected (s.now + 1) s.hb) ∧
    (tick s).2.count hbEv = numBeats (tickTrace s.sockConnected (s.now + 1) s.hb) ∧
    (∀ e ∈ tickTrace s.sockConnected (s.now + 1) s.hb, e.time = s.now + 1) ∧
    HbWf (tick s).1 := by
  have ok := (hbWf_iff s).mp wf
  have hv := hbView_tick s
  have e1 : (tick s).1.hb = _ := congrArg HbView.hb hv
  have hc := tickHB_calc s.hb s.now s.sockConnected ok.now_eq ok.flag ok.not_resetting ok.deadline ok.wake ok.conn
  refine ⟨by rw [e1]; exact hc.1, by rw [e1]; exact hc.2.2.2.2.2.2.1, ?_, ?_, tickTrace_time _ _ _, ?_⟩
  · rw [tick_count s rfl, tick_reset_count]
  · rw [tick_count s (by decide), tick_beat_count]
  · exact hbWf_of_view hv (hbOk_tick ok)

theorem apiStep_hb_run {s : State} (op : Op) (wf : HbWf s) :
    Model.Heartbeat.run s.hb (opLabels s op) = some (apiStep s op).1.hb ∧
    (apiStep s op).1.hb.trace = s.hb.trace ++ opTrace s op ∧
    (apiStep s op).2.count Ev.reset = numResets (opTrace s op) ∧
    (∀ e ∈ opTrace s op, s.now ≤ e.time ∧ e.time ≤ (apiStep s op).1.now) := by
  have e1 : (apiStep s op).1.hb = opHB s op := congrArg HbView.hb (hbView_apiStep s op)
  have e2 : (apiStep s op).1.now = _ := congrArg HbView.now (hbView_apiStep s op)
  rw [e1, e2]
  refine ⟨(opHB_run op wf).1, (opHB_run op wf).2, reset_count_apiStep s op, ?_⟩
  cases op with
  | adv n =>
    intro e he
    have := advTrace_time _ _ _ _ e he
    simp only; omega
  | shutdown =>
    intro e he
    simp only [opTrace] at he
    split at he <;> simp at he <;> (try rcases he with rfl | rfl) <;> (try subst he) <;> simp [HEv.time]
  | conn up => intro e he; simp [opTrace] at he; subst he; simp [HEv.time]
  | recv m =>
    intro e he
    simp only [opTrace, recvTrace] at he
    repeat' split at he
    all_goals simp at he
    all_goals (try rcases he with rfl | rfl)
    all_goals (try subst he)
    all_goals simp [HEv.time]
  | msg mid payload =>
    intro e he
    simp only [opTrace] at he
    cases hd : decodeTop mid payload with
    | error x => rw [hd] at he; cases he
    | ok m =>
      rw [hd] at he
      simp only [recvTrace] at he
      repeat' split at he
      all_goals simp at he
      all_goals (try rcases he with rfl | rfl)
      all_goals (try subst he)
      all_goals simp [HEv.time]
  | _ => intro e he; cases he

/-! ### started by the completed handshake, stopped by `shutdown()` only -/

theorem hbKeep_startHB (n : Nat) (h : HB) : HbKeep h (startHB n h) := by
  unfold startHB
  split
  · exact (hbKeep_now h n).trans ((hbKeep_apply _ .start (by decide)).trans (hbKeep_apply _ .hlBeat (by decide)))
  · exact HbKeep.refl h

theorem hbKeep_recvHB (s : State) (m : RMsg) : HbKeep s.hb (recvHB s m) := by
  unfold recvHB
  split
  · exact hbKeep_startHB _ _
  · split
    · exact (hbKeep_now _ _).trans ((hbKeep_apply _ .response (by decide)).trans (hbKeep_apply _ .tlWake (by decide)))
    · exact HbKeep.refl _

theorem hbKeep_tickHB (c : Bool) (t : Nat) (h : HB) : HbKeep h (tickHB c t h) := by
  unfold tickHB
  refine (hbKeep_now h t).trans (HbKeep.trans (b := timeoutHB c t { h with now := t }) ?_ ?_)
  · unfold timeoutHB
    split
    · split
      · split
        · exact (hbKeep_apply _ .tlFire (by decide)).trans (hbKeep_apply _ .tlResetDone (by decide))
        · exact hbKeep_apply _ .tlFire (by decide)
      · exact HbKeep.refl _
    · exact HbKeep.refl _
  · unfold beatHB
    split
    · split
      · exact hbKeep_apply _ .hlBeat (by decide)
      · exact HbKeep.refl _
    · exact HbKeep.refl _

theorem hbKeep_advHB (c : Bool) (k t : Nat) (h : HB) : HbKeep h (advHB c k t h) := by
  induction k generalizing t h with
  | zero => exact HbKeep.refl h
  | succ k ih => exact (hbKeep_tickHB c (t + 1) h).trans (ih _ _)

theorem hbKeep_opHB (s : State) (op : Op) (hop : op ≠ .shutdown) : HbKeep s.hb (opHB s op) := by
  cases op with
  | shutdown => exact absurd rfl hop
  | conn up => exact (hbKeep_now _ _).trans (hbKeep_apply _ _ (by simp))
  | msg mid payload =>
    simp only [opHB]
    cases decodeTop mid payload with
    | ok m => exact hbKeep_recvHB s m
    | error e => exact HbKeep.refl _
  | recv m => exact hbKeep_recvHB s m
  | adv n => exact hbKeep_advHB _ _ _ _
  | _ => exact HbKeep.refl _

theorem opHB_params (s : State) (op : Op) :
    (opHB s op).interval = s.hb.interval ∧ (opHB s op).timeout = s.hb.timeout := by
  by_cases hop : op = .shutdown
  · subst hop
    simp only [opHB]
    exact ⟨((hbApply_params _ _).1.trans (hbApply_params _ _).1), ((hbApply_params _ _).2.trans (hbApply_params _ _).2)⟩
  · exact ⟨(hbKeep_opHB s op hop).1, (hbKeep_opHB s op hop).2⟩

/-! ### the initialised event -/

theorem initialised_subUnsub (s : State) (t : Target) (f : List Sub → List Sub) :
    (subUnsub s t f).1.initialised = s.initialised := by
  unfold subUnsub
  cases t with
  | airtouch => rfl
  | ac i general =>
    simp only
    cases s.findAc i with
    | none => rfl
    | some a => simp only; rw [setAc_frame]
  | zone i =>
    simp only
    cases s.findZone i with
    | none => rfl
    | some zi =>
      simp only
      cases s.zoneObjs[zi]? with
      | none => rfl
      | some z => rfl

/-- the initialised event is set only by the op that outputs `HBSTART` -/
theorem initialised_set_only_with_hbStart (s : State) (op : Op) (h0 : s.initialised = false)
    (h1 : (apiStep s op).1.initialised = true) : Ev.hbStart ∈ (apiStep s op).2 := by
  have hrecv : ∀ m, (recv s m).1.initialised = true → Ev.hbStart ∈ (recv s m).2 := by
    intro m hm
    by_cases hx : (s.subscribed && completes s m) = true
    · have := (recv_counts s m).2.2.1
      rw [hx] at this
      simp only [↓reduceIte] at this
      exact List.count_pos_iff.mp (by omega)
    · have := recv_initialised s m (by simpa using hx)
      rw [this, h0] at hm; cases hm
  cases op with
  | init => simp only [apiStep, doInit] at h1; split at h1 <;> simp_all
  | shutdown => simp [apiStep, doShutdown] at h1
  | conn up =>
    exfalso
    simp only [apiStep, onConn] at h1
    repeat' split at h1
    all_goals simp_all
  | msg mid payload =>
    simp only [apiStep] at h1 ⊢
    cases hd : decodeTop mid payload with
    | ok m => rw [hd] at h1; exact hrecv m h1
    | error e => rw [hd] at h1; simp_all
  | recv m => exact hrecv m h1
  | call c => simp_all [apiStep]
  | callBad c => simp_all [apiStep]
  | sub t i r => simp only [apiStep, initialised_subUnsub] at h1; simp_all
  | unsub t i => simp only [apiStep, initialised_subUnsub] at h1; simp_all
  | adv n =>
    have := congrArg Core.initialised (core_advance n s)
    simp only [core] at this
    simp only [apiStep] at h1
    simp_all
  | view => simp only [apiStep] at h1; split at h1 <;> simp_all

/-! ### `adv n` in closed form -/

theorem hbT_pos : 0 < hbT := by decide
theorem hbI_pos : 0 < hbI := by decide

theorem HbOk.timeout_eq' {n c h} (ok : HbOk n c h) : h.timeout = hbT := (reachable_basic ok.reach).timeout_eq
theorem HbOk.interval_eq' {n c h} (ok : HbOk n c h) : h.interval = hbI := (reachable_basic ok.reach).interval_eq

theorem numResets_tickTrace (c : Bool) (t : Nat) (h : HB) :
    numResets (tickTrace c t h) =
      (match h.tl with | .waiting d => if d ≤ t then (if c then 1 else 0) else 0 | _ => 0) := by
  unfold tickTrace numResets
  cases h.tl <;> cases h.hl <;> cases c <;> simp only [] <;> (repeat' split) <;>
    simp [List.countP_cons, isResetEv]

theorem numBeats_tickTrace (c : Bool) (t : Nat) (h : HB) :
    numBeats (tickTrace c t h) =
      (match h.hl with | .sleeping u => if u ≤ t then (if c then 1 else 0) else 0 | .idle => 0) := by
  unfold tickTrace numBeats
  cases h.tl <;> cases h.hl <;> cases c <;> simp only [] <;> (repeat' split) <;>
    simp [List.countP_cons, isBeatEv]

/-- the timeout loop over `k` ticks without a response: it expires at `d`, `d + T`, `d + 2T`, …; each expiry
    resets the connection iff the socket is connected, and re-arms at once -/
theorem adv_deadline (c : Bool) (k : Nat) {n : Nat} {h : HB} {d : Nat} (ok : HbOk n c h) (hw : h.tl = .waiting d) :
    (advHB c k n h).tl = .waiting (d + hbT * deadlinesUpTo d hbT (n + k)) ∧
    numResets (advTrace c k n h) = (if c then deadlinesUpTo d hbT (n + k) else 0) := by
  induction k generalizing n h d with
  | zero =>
    have := ok.deadline d hw
    constructor
    · simp only [advHB, Nat.add_zero, deadlinesUpTo_before _ _ _ this, Nat.mul_zero, hw]
    · simp only [advTrace, Nat.add_zero, deadlinesUpTo_before _ _ _ this]
      cases c <;> rfl
  | succ k ih =>
    have hlt := ok.deadline d hw
    have hT := ok.timeout_eq'
    have hc := tickHB_calc h n c ok.now_eq ok.flag ok.not_resetting ok.deadline ok.wake ok.conn
    have htl := hc.2.2.2.2.1
    rw [hw, hT] at htl
    have hnn : n + 1 + k = n + (k + 1) := by omega
    simp only [advHB, advTrace, numResets_append, numResets_tickTrace, hw]
    by_cases hd : d ≤ n + 1
    · have hdeq : n + 1 = d := by omega
      simp only [tickTl, hd, ↓reduceIte] at htl
      have htl' : (tickHB c (n + 1) h).tl = .waiting (d + hbT) := by rw [htl, hdeq]
      obtain ⟨i1, i2⟩ := ih (hbOk_tick ok) htl'
      rw [hnn] at i1 i2
      have hshift := deadlinesUpTo_shift d hbT (n + (k + 1)) hbT_pos (by omega)
      rw [i1, i2, hshift]
      constructor
      · congr 1; rw [Nat.mul_add, Nat.mul_one]; omega
      · simp only [hd, ↓reduceIte]; cases c <;> simp
    · simp only [tickTl, hd, ↓reduceIte] at htl
      obtain ⟨i1, i2⟩ := ih (hbOk_tick ok) htl
      rw [hnn] at i1 i2
      rw [i1, i2]
      simp only [hd, ↓reduceIte, Nat.zero_add]
      exact ⟨trivial, trivial⟩

/-- the heartbeat loop over `k` ticks: it wakes at `u`, `u + I`, `u + 2I`, … and sends a request each time iff the
    socket is connected -/
theorem adv_wake (c : Bool) (k : Nat) {n : Nat} {h : HB} {u : Nat} (ok : HbOk n c h) (hw : h.hl = .sleeping u) :
    (advHB c k n h).hl = .sleeping (u + hbI * deadlinesUpTo u hbI (n + k)) ∧
    numBeats (advTrace c k n h) = (if c then deadlinesUpTo u hbI (n + k) else 0) := by
  induction k generalizing n h u with
  | zero =>
    have := ok.wake u hw
    constructor
    · simp only [advHB, Nat.add_zero, deadlinesUpTo_before _ _ _ this, Nat.mul_zero, hw]
    · simp only [advTrace, Nat.add_zero, deadlinesUpTo_before _ _ _ this]
      cases c <;> rfl
  | succ k ih =>
    have hlt := ok.wake u hw
    have hI := ok.interval_eq'
    have hc := tickHB_calc h n c ok.now_eq ok.flag ok.not_resetting ok.deadline ok.wake ok.conn
    have hhl := hc.2.2.2.2.2.1
    rw [hw, hI] at hhl
    have hnn : n + 1 + k = n + (k + 1) := by omega
    simp only [advHB, advTrace, numBeats_append, numBeats_tickTrace, hw]
    by_cases hd : u ≤ n + 1
    · have hdeq : n + 1 = u := by omega
      simp only [tickHl, hd, ↓reduceIte] at hhl
      have hhl' : (tickHB c (n + 1) h).hl = .sleeping (u + hbI) := by rw [hhl, hdeq]
      obtain ⟨i1, i2⟩ := ih (hbOk_tick ok) hhl'
      rw [hnn] at i1 i2
      have hshift := deadlinesUpTo_shift u hbI (n + (k + 1)) hbI_pos (by omega)
      rw [i1, i2, hshift]
      constructor
      · congr 1; rw [Nat.mul_add, Nat.mul_one]; omega
      · simp only [hd, ↓reduceIte]; cases c <;> simp
    · simp only [tickHl, hd, ↓reduceIte] at hhl
      obtain ⟨i1, i2⟩ := ih (hbOk_tick ok) hhl
      rw [hnn] at i1 i2
      rw [i1, i2]
      simp only [hd, ↓reduceIte, Nat.zero_add]
      exact ⟨trivial, trivial⟩

/-- `adv n` with the timeout loop waiting for `d`: the number of `RESET`s and the deadline afterwards -/
theorem advance_resets {s : State} (n d : Nat) (wf : HbWf s) (hw : s.hb.tl = .waiting d) :
    (apiStep s (.adv n)).2.count Ev.reset = (if s.sockConnected then deadlinesUpTo d hbT (s.now + n) else 0) ∧
    (apiStep s (.adv n)).1.hb.tl = .waiting (d + hbT * deadlinesUpTo d hbT (s.now + n)) := by
  have ok := (hbWf_iff s).mp wf
  have e1 : (apiStep s (.adv n)).1.hb = _ := congrArg HbView.hb (hbView_apiStep s (.adv n))
  obtain ⟨a1, a2⟩ := adv_deadline s.sockConnected n ok hw
  rw [e1, reset_count_apiStep]
  exact ⟨a2, a1⟩

/-- `adv n` with the heartbeat loop sleeping until `u`: the number of heartbeat requests and the wake-up afterwards -/
theorem advance_beats {s : State} (n u : Nat) (wf : HbWf s) (hw : s.hb.hl = .sleeping u) :
    (apiStep s (.adv n)).2.count hbEv = (if s.sockConnected then deadlinesUpTo u hbI (s.now + n) else 0) ∧
    (apiStep s (.adv n)).1.hb.hl = .sleeping (u + hbI * deadlinesUpTo u hbI (s.now + n)) := by
  have ok := (hbWf_iff s).mp wf
  have e1 : (apiStep s (.adv n)).1.hb = _ := congrArg HbView.hb (hbView_apiStep s (.adv n))
  obtain ⟨a1, a2⟩ := adv_wake s.sockConnected n ok hw
  rw [e1, beat_count_apiStep s _ (Or.inl ⟨n, rfl⟩)]
  exact ⟨a2, a1⟩

/-! ### no false reset -/

/-- A check on an op list alone.  `rem` is the number of ticks left until the heartbeat's deadline.  An `adv n`
    must stay strictly below it; a delivered message accepted by `isHeartbeatResponse` puts it back to the full
    timeout; `shutdown` is not allowed; every other op leaves it alone. -/
def responsive : Nat → List Op → Bool
  | _, [] => true
  | rem, op :: ops =>
    match op with
    | .adv n => decide (n < rem) && responsive (rem - n) ops
    | .shutdown => false
    | _ =>
      match opMsg op with
      | some m => responsive (if isHeartbeatResponse m then hbT else rem) ops
      | none => responsive rem ops

theorem recvHB_tl_waiting {s : State} {d : Nat} (m : RMsg) (wf : HbWf s) (hw : s.hb.tl = .waiting d) :
    (recvHB s m).tl = if isHeartbeatResponse m then .waiting (s.now + hbT) else .waiting d := by
  have ok := (hbWf_iff s).mp wf
  have hn := hb_now_self s.hb s.now wf.now_eq
  have hni : hbIdle s.hb = false := by simp [hbIdle, hw]
  unfold recvHB startHB
  rw [hn]
  split
  · next hc =>
    simp only [Bool.and_eq_true] at hc
    rw [completes_not_response hc.2]
    simp [hni, hw]
  · split
    · rw [(respondedHB_waiting hw).1, wf.now_eq, ok.timeout_eq']
    · exact hw

/-- the clock after an op -/
def opNow (s : State) : Op → Nat
  | .adv n => s.now + n
  | _ => s.now

theorem apiStep_now (s : State) (op : Op) : (apiStep s op).1.now = opNow s op := by
  have := congrArg HbView.now (hbView_apiStep s op)
  cases op <;> exact this

/-- the deadline after an op that is neither `shutdown` nor an `adv` reaching the deadline -/
def opDeadline (s : State) (d : Nat) (op : Op) : TL :=
  match opMsg op with
  | some m => if isHeartbeatResponse m then .waiting (s.now + hbT) else .waiting d
  | none => .waiting d

/-- one op of a responsive run: no `RESET`, and the deadline afterwards -/
theorem responsive_step {s : State} {d : Nat} (op : Op) (wf : HbWf s) (hw : s.hb.tl = .waiting d)
    (hop : op ≠ .shutdown) (hadv : ∀ n, op = .adv n → n < d - s.now) :
    Ev.reset ∉ (apiStep s op).2 ∧
    (apiStep s op).1.hb.tl = opDeadline s d op ∧
    (apiStep s op).1.now = opNow s op := by
  have e1 : (apiStep s op).1.hb = opHB s op := congrArg HbView.hb (hbView_apiStep s op)
  have hn := hb_now_self s.hb s.now wf.now_eq
  refine ⟨?_, ?_, apiStep_now s op⟩
  · intro hm
    obtain ⟨n, rfl⟩ := reset_only_adv s op hm
    have hlt := hadv n rfl
    have := (advance_resets n d wf hw).1
    rw [deadlinesUpTo_before _ _ _ (by omega)] at this
    have h0 : (apiStep s (.adv n)).2.count Ev.reset = 0 := by rw [this]; split <;> rfl
    exact List.count_eq_zero.mp h0 hm
  · rw [e1]
    unfold opDeadline
    cases op with
    | shutdown => exact absurd rfl hop
    | adv n =>
      have hlt := hadv n rfl
      have := (advance_resets n d wf hw).2
      rw [deadlinesUpTo_before _ _ _ (by omega), e1] at this
      simpa [opMsg] using this
    | recv m => exact recvHB_tl_waiting m wf hw
    | msg mid payload =>
      simp only [opHB, opMsg]
      cases decodeTop mid payload with
      | ok m => exact recvHB_tl_waiting m wf hw
      | error e => exact hw
    | conn up => simp only [opHB, opMsg, hn, hbApply, step, HB.emit, Option.getD_some]; exact hw
    | _ => exact hw

/-- **no false reset**: along a responsive run the connection is never reset and the timeout loop keeps waiting -/
theorem responsive_run (ops : List Op) {s : State} {d : Nat} (wf : HbWf s) (hw : s.hb.tl = .waiting d)
    (hr : responsive (d - s.now) ops = true) :
    Ev.reset ∉ (run s ops).2 ∧ ∃ d', (run s ops).1.hb.tl = .waiting d' ∧ (run s ops).1.now < d' := by
  induction ops generalizing s d with
  | nil => exact ⟨by simp [run], d, hw, wf.deadline d hw⟩
  | cons op ops ih =>
    have hlt := wf.deadline d hw
    have wf' := hbWf_apiStep op wf
    have hop : op ≠ .shutdown := by
      rintro rfl; simp [responsive] at hr
    have hadv : ∀ n, op = .adv n → n < d - s.now := by
      rintro n rfl; simp only [responsive, Bool.and_eq_true, decide_eq_true_eq] at hr; exact hr.1
    obtain ⟨s1, s2, s3⟩ := responsive_step op wf hw hop hadv
    have key : ∃ d1, (apiStep s op).1.hb.tl = .waiting d1 ∧ responsive (d1 - (apiStep s op).1.now) ops = true := by
      cases op with
      | shutdown => exact absurd rfl hop
      | adv n =>
        simp only [responsive, Bool.and_eq_true, decide_eq_true_eq] at hr
        refine ⟨d, by simpa [opMsg, opDeadline] using s2, ?_⟩
        rw [s3]
        simp only [opNow]
        have : d - (s.now + n) = d - s.now - n := by omega
        rw [this]; exact hr.2
      | recv m =>
        simp only [responsive, opMsg] at hr
        simp only [opMsg, opDeadline] at s2
        rw [s3]
        simp only [opNow]
        by_cases hm : isHeartbeatResponse m = true
        · simp only [hm, ↓reduceIte] at hr s2
          exact ⟨_, s2, by rw [Nat.add_sub_cancel_left]; exact hr⟩
        · simp only [hm, Bool.false_eq_true, ↓reduceIte] at hr s2
          exact ⟨_, s2, hr⟩
      | msg mid payload =>
        simp only [responsive] at hr
        rw [s3]
        simp only [opNow]
        unfold opDeadline at s2
        cases hd : opMsg (.msg mid payload) with
        | none => rw [hd] at hr s2; exact ⟨_, s2, hr⟩
        | some m =>
          rw [hd] at hr s2
          by_cases hm : isHeartbeatResponse m = true
          · simp only [hm, ↓reduceIte] at hr s2
            exact ⟨_, s2, by rw [Nat.add_sub_cancel_left]; exact hr⟩
          · simp only [hm, Bool.false_eq_true, ↓reduceIte] at hr s2
            exact ⟨_, s2, hr⟩
      | init => exact ⟨d, s2, by rw [s3]; simpa [responsive, opMsg, opNow] using hr⟩
      | conn up => exact ⟨d, s2, by rw [s3]; simpa [responsive, opMsg, opNow] using hr⟩
      | call c => exact ⟨d, s2, by rw [s3]; simpa [responsive, opMsg, opNow] using hr⟩
      | callBad c => exact ⟨d, s2, by rw [s3]; simpa [responsive, opMsg, opNow] using hr⟩
      | sub t i r => exact ⟨d, s2, by rw [s3]; simpa [responsive, opMsg, opNow] using hr⟩
      | unsub t i => exact ⟨d, s2, by rw [s3]; simpa [responsive, opMsg, opNow] using hr⟩
      | view => exact ⟨d, s2, by rw [s3]; simpa [responsive, opMsg, opNow] using hr⟩
    obtain ⟨d1, k1, k2⟩ := key
    obtain ⟨i1, i2⟩ := ih wf' k1 k2
    refine ⟨?_, i2⟩
    simp only [run, List.mem_append]
    rintro (h | h)
    · exact s1 h
    · exact i1 h

/-! ### whole scripts -/

/-- the labels by which a script drives the embedded heartbeat -/
def runLabels (s : State) : List Op → List Label
  | [] => []
  | op :: ops => opLabels s op ++ runLabels (apiStep s op).1 ops

/-- the events the embedded heartbeat records during a script -/
def runTrace (s : State) : List Op → List HEv
  | [] => []
  | op :: ops => opTrace s op ++ runTrace (apiStep s op).1 ops

/-- a script acts on the embedded heartbeat as a run of the heartbeat model; the `RESET`s it outputs are the
    `reset` events the heartbeat records -/
theorem run_hb_run (ops : List Op) {s : State} (wf : HbWf s) :
    Model.Heartbeat.run s.hb (runLabels s ops) = some (run s ops).1.hb ∧
    (run s ops).1.hb.trace = s.hb.trace ++ runTrace s ops ∧
    (run s ops).2.count Ev.reset = numResets (runTrace s ops) := by
  induction ops generalizing s with
  | nil => exact ⟨rfl, by simp [run, runTrace], rfl⟩
  | cons op ops ih =>
    obtain ⟨a1, a2, a3, _⟩ := apiStep_hb_run op wf
    obtain ⟨i1, i2, i3⟩ := ih (hbWf_apiStep op wf)
    refine ⟨?_, ?_, ?_⟩
    · simp only [runLabels, run]; rw [Lemmas.Heartbeat.run_append, a1]; exact i1
    · simp only [runTrace, run]; rw [i2, a2, List.append_assoc]
    · simp only [runTrace, run, List.count_append, numResets_append, a3, i3]

/-- from the initial state: the heartbeat's whole trace -/
theorem run_initial_trace (ops : List Op) :
    (run State.initial ops).1.hb.trace = runTrace State.initial ops ∧
    (run State.initial ops).2.count Ev.reset = numResets (run State.initial ops).1.hb.trace := by
  obtain ⟨_, a2, a3⟩ := run_hb_run ops hbWf_initial
  have : State.initial.hb.trace = [] := rfl
  rw [this, List.nil_append] at a2
  exact ⟨a2, by rw [a3, a2]⟩

end PyAirtouch.Lemmas.Api4
