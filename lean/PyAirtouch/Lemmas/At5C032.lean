import PyAirtouch.Model.At5.C032
import PyAirtouch.Lemmas.At5C033
/-! Round trip and length lemmas for the AirTouch 5 AC timer control codec (sub-message 0x32);
everything is inherited from the AC timer status codec. -/
namespace PyAirtouch.Lemmas.At5C032
open PyAirtouch.Model PyAirtouch.Model.At5 PyAirtouch.Model.At5.C032

theorem encodeBytes_length (m : Msg) :
    (encodeBytes m).length = nonRepeatSize m + repeatSize m * repeatCount m :=
  At5C033.encodeBytes_length m.toStatus

/-- whenever the encoder returns bytes, their number is what the header announces -/
theorem encode_length (m : Msg) (bs : Bytes) (h : encode m = .ok bs) :
    bs.length = nonRepeatSize m + repeatSize m * repeatCount m :=
  At5C033.encode_length m.toStatus bs h

/-- on well-formed messages the encoder does not raise -/
theorem encode_ok (m : Msg) (h : WF m) : encode m = .ok (encodeBytes m) :=
  At5C033.encode_ok m.toStatus h

/-- `decode(encode(m), header with the lengths the encoder announces)` gives `m` back, nothing
    left over -/
theorem decode_encode (m : Msg) (h : WF m) (rest : Bytes) :
    decode (encodeBytes m ++ rest) (nonRepeatSize m) (repeatSize m) (repeatCount m) = .ok (m, rest) := by
  have h33 := At5C033.decode_encode m.toStatus h rest
  simp only [decode, encodeBytes, nonRepeatSize, repeatSize, repeatCount, h33]
  rfl

theorem wfBool_iff (m : Msg) : wfBool m = true ↔ WF m := At5C033.wfBool_iff m.toStatus

/-- the control decoder never yields the request form: an empty header is a `DecodeError` -/
theorem decode_empty_header (buffer : Bytes) (nonRepeat : Nat) :
    decode buffer nonRepeat 0 0 = .error .decodeError := by
  simp [decode, C033.decode]

end PyAirtouch.Lemmas.At5C032
