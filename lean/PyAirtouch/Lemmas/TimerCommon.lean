import PyAirtouch.Model.TimerCommon
/-! Lemmas shared by the timer codecs: the two-byte timer state and the generic quick-timer round trip. -/
namespace PyAirtouch.Lemmas.TimerCommon
open PyAirtouch.Model PyAirtouch.Model.TimerCommon

/-- decoding the two packed values of a well-formed timer state gives it back -/
theorem timerStateOf_enc (t : AcTimerState) (h : WFState t) :
    timerStateOf (boolToBit t.disabled 7 + t.hour % 32) (t.minute % 64) = t := by
  obtain ⟨hh, hm⟩ := h
  rcases t with ⟨d, hr, mi⟩
  simp only at hh hm
  cases d <;> simp [timerStateOf, boolToBit, bitToBool] <;> omega

theorem decTimerState_enc (t : AcTimerState) (h : WFState t) (rest : Bytes) :
    decTimerState ((boolToBit t.disabled 7 + t.hour % 32) :: (t.minute % 64) :: rest) = .ok t := by
  simp only [decTimerState, timerStateOf_enc t h]

theorem decTimerState_encTimerState (t : AcTimerState) (h : WFState t) (rest : Bytes) :
    decTimerState (encTimerState t ++ rest) = .ok t := by
  simp only [encTimerState, List.cons_append, List.nil_append, decTimerState_enc t h]

theorem wfStateBool_iff (t : AcTimerState) : wfStateBool t = true ↔ WFState t := by
  simp only [wfStateBool, WFState, Bool.and_eq_true, decide_eq_true_eq]

theorem encTimerState_length (t : AcTimerState) : (encTimerState t).length = 2 := rfl

namespace QuickTimer
open PyAirtouch.Model.TimerCommon.QuickTimer

variable {T : Type}

theorem encodeBytes_length (ops : Ops T) (m : QuickTimerMessage T) :
    (encodeBytes ops m).length = size m := rfl

theorem encode_length (ops : Ops T) (m : QuickTimerMessage T) (bs : Bytes)
    (h : encode ops m = .ok bs) : bs.length = size m := by
  simp only [encode] at h
  split at h
  · cases h; rfl
  · cases h

theorem encode_ok (ops : Ops T) (m : QuickTimerMessage T) (h : WF m) :
    encode ops m = .ok (encodeBytes ops m) := by
  simp only [encode, h.1, ↓reduceIte]

/-- round trip, for any enum whose `ofNat?` inverts `toNat` on byte-sized values -/
theorem decode_encode (ops : Ops T) (hinv : ∀ t, ops.ofNat? (ops.toNat t) = some t)
    (hlt : ∀ t, ops.toNat t < 256) (m : QuickTimerMessage T) (h : WF m) (rest : Bytes) (msgLen : Nat) :
    decode ops (encodeBytes ops m ++ rest) msgLen = .ok (m, rest) := by
  obtain ⟨_, h60, hday⟩ := h
  rcases m with ⟨ac, ty, d⟩
  simp only at h60 hday
  simp only [encodeBytes, encodeDuration, List.cons_append, List.nil_append, decode,
    Nat.mod_eq_of_lt (hlt ty), hinv ty]
  have e : d / 3600 % 24 % 256 * 3600 + d % 3600 / 60 % 256 * 60 = d := by omega
  rw [e]

theorem wfBool_iff (m : QuickTimerMessage T) : wfBool m = true ↔ WF m := by
  simp only [wfBool, WF, Bool.and_eq_true, decide_eq_true_eq, and_assoc]

/-- why `WF` bounds the duration: 24 h (payload `.. .. 18 00`) is re-encoded as 0 h 0 min -/
theorem roundtrip_fails_24h (ops : Ops T) (ac : Nat) (ty : T) :
    encodeBytes ops ⟨ac, ty, 24 * 3600⟩ = encodeBytes ops ⟨ac, ty, 0⟩ := by
  simp [encodeBytes, encodeDuration]

/-- ... and 60 minutes (payload `.. .. 00 3c`) as 1 h 0 min -/
theorem reencode_60min (ops : Ops T) (ac : Nat) (ty : T) :
    encodeBytes ops ⟨ac, ty, 0 * 3600 + 60 * 60⟩ = [ac, ops.toNat ty % 256, 1, 0] := by
  simp [encodeBytes, encodeDuration]

end QuickTimer

end PyAirtouch.Lemmas.TimerCommon
