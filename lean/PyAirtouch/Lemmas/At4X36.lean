import PyAirtouch.Model.At4.X36
import PyAirtouch.Lemmas.At4X37
/-! Round trip and length lemmas for the AirTouch 4 AC timer control codec (0x36); everything is
inherited from the AC timer status codec. -/
namespace PyAirtouch.Lemmas.At4X36
open PyAirtouch.Model PyAirtouch.Model.At4 PyAirtouch.Model.At4.X36

theorem encodeBytes_length (m : Msg) : (encodeBytes m).length = size m :=
  At4X37.encodeBytes_length m.toStatus

/-- whenever the encoder returns bytes, there are `size m` of them -/
theorem encode_length (m : Msg) (bs : Bytes) (h : encode m = .ok bs) : bs.length = size m :=
  At4X37.encode_length m.toStatus bs h

/-- on well-formed messages the encoder does not raise -/
theorem encode_ok (m : Msg) (h : WF m) : encode m = .ok (encodeBytes m) :=
  At4X37.encode_ok m.toStatus h

/-- `decode(encode(m), header with message_length = size(m))` gives `m` back, nothing left over -/
theorem decode_encode (m : Msg) (h : WF m) (rest : Bytes) :
    decode (encodeBytes m ++ rest) (size m) = .ok (m, rest) := by
  have h37 := At4X37.decode_encode m.toStatus h rest
  simp only [decode, encodeBytes, size, h37]
  rfl

theorem wfBool_iff (m : Msg) : wfBool m = true ↔ WF m := At4X37.wfBool_iff m.toStatus

/-- the control decoder never yields the request form: an empty message is a `DecodeError` -/
theorem decode_empty (buffer : Bytes) : decode buffer 0 = .error .decodeError := by
  simp [decode, X37.decode]

end PyAirtouch.Lemmas.At4X36
