import PyAirtouch.Lemmas.Api4Inv
/-!
# Messages processed in state `CONNECTED`: what is stored, what cannot change
-/
set_option linter.unusedSimpArgs false
set_option linter.unusedVariables false
namespace PyAirtouch.Lemmas.Api4
open PyAirtouch.Model PyAirtouch.Model.Api4 PyAirtouch.Model.At4
open PyAirtouch.Model.TimerCommon (AcTimerState AcTimerStatusData)

theorem map_id_of {α} (o : Option α) (f : α → α) (h : ∀ a, f a = a) : o = o.map f := by
  cases o with
  | none => rfl
  | some a => simp [h]

theorem zoneOf_updateErrInfo (s : State) (e : FF10.AcErrorInformationMessage) (k : Nat) :
    (updateErrInfo s e).1.zoneOf k = s.zoneOf k := by
  rw [updateErrInfo_frame]; rfl

theorem zoneOf_recv_connected {s : State} (hinv : Inv s) (hst : s.st = .CONNECTED) (hsub : s.subscribed = true)
    (m : RMsg) (k : Nat) : (recv s m).1.zoneOf k = (s.zoneOf k).map (zoneStep k m) := by
  unfold recv
  simp only [hsub, ↓reduceIte, zoneOf_hbOnMessage]
  cases m with
  | extended sub =>
    cases sub with
    | consoleVer v =>
      cases v with
      | message v =>
        simp only [onMessage, hst, reduceCtorEq, ↓reduceIte, zoneOf_updateVersion]
        exact map_id_of _ _ (fun a => rfl)
      | request => exact map_id_of _ _ (fun a => rfl)
    | groupNames n => cases n <;> simp only [onMessage, hst] <;> exact map_id_of _ _ (fun a => rfl)
    | acAbility a => cases a <;> simp only [onMessage, hst] <;> exact map_id_of _ _ (fun a => rfl)
    | errInfo e =>
      cases e with
      | message e => simp only [onMessage, zoneOf_updateErrInfo]; exact map_id_of _ _ (fun a => rfl)
      | request r => exact map_id_of _ _ (fun a => rfl)
    | quickTimer q => exact map_id_of _ _ (fun a => rfl)
    | unsupported i r => exact map_id_of _ _ (fun a => rfl)
  | groupCtrl c => exact map_id_of _ _ (fun a => rfl)
  | groupStatus g =>
    cases g with
    | request => exact map_id_of _ _ (fun a => rfl)
    | status l =>
      simp only [onMessage, hst, reduceCtorEq, ↓reduceIte]
      rw [zoneOf_foldGroup (s := rearmPolls s) ⟨hinv.acKey, hinv.zoneKey⟩]
      rfl
  | acCtrl c => exact map_id_of _ _ (fun a => rfl)
  | acStatus a =>
    cases a with
    | request => exact map_id_of _ _ (fun a => rfl)
    | status l =>
      simp only [onMessage, hst, reduceCtorEq, ↓reduceIte, zoneOf_foldStatus]
      exact map_id_of _ _ (fun a => rfl)
  | acTimerCtrl c =>
    simp only [onMessage, processTimers, hst, reduceCtorEq, ↓reduceIte, zoneOf_foldTimer]
    exact map_id_of _ _ (fun a => rfl)
  | acTimerStatus t =>
    cases t with
    | request => exact map_id_of _ _ (fun a => rfl)
    | status l =>
      simp only [onMessage, processTimers, hst, reduceCtorEq, ↓reduceIte, zoneOf_foldTimer]
      exact map_id_of _ _ (fun a => rfl)
  | unsupported i r => exact map_id_of _ _ (fun a => rfl)

/-- the part of the state that neither status messages nor the clock touch -/
structure Static where
  st : AState
  zoneDict : List (Nat × Nat)
  acDict : List (Nat × Nat)
  subs : List Sub
  initialised : Bool
  sockOpen : Bool
  sockConnected : Bool
  subscribed : Bool
  airtouchId : Bytes

def static (s : State) : Static :=
  { st := s.st, zoneDict := s.zoneDict, acDict := s.acDict, subs := s.subs, initialised := s.initialised,
    sockOpen := s.sockOpen, sockConnected := s.sockConnected, subscribed := s.subscribed, airtouchId := s.airtouchId }

theorem static_hbOnMessage (s : State) (m : RMsg) : static (hbOnMessage s m) = static s := by
  unfold hbOnMessage; split <;> rfl

theorem static_updateVersion (s : State) (v : FF30.ConsoleVersionMessage) : static (updateVersion s v).1 = static s := by
  unfold updateVersion; split <;> rfl

theorem static_foldStatus (s : State) (l : List X2D.AcStatusData) : static (foldEv updateAcStatus s l).1 = static s := by
  rw [foldEv_frame_ac _ updateAcStatus_frame]; rfl

theorem static_foldTimer (s : State) (l : List AcTimerStatusData) : static (foldEv updateAcTimer s l).1 = static s := by
  rw [foldEv_frame_ac _ updateAcTimer_frame]; rfl

theorem static_foldGroup (s : State) (l : List X2B.GroupStatusData) : static (foldEv updateGroupStatus s l).1 = static s := by
  rw [foldEv_frame_zone _ updateGroupStatus_frame]; rfl

theorem static_updateErrInfo (s : State) (e : FF10.AcErrorInformationMessage) : static (updateErrInfo s e).1 = static s := by
  rw [updateErrInfo_frame]; rfl

/-- in state `CONNECTED` no message changes the API state, the dictionaries, the subscriber set of the
    AirTouch object or the socket flags -/
theorem static_recv_connected {s : State} (hst : s.st = .CONNECTED) (m : RMsg) : static (recv s m).1 = static s := by
  unfold recv
  simp only [static_hbOnMessage]
  split
  · cases m with
    | extended sub =>
      cases sub with
      | consoleVer v =>
        cases v with
        | message v => simp only [onMessage, hst, reduceCtorEq, ↓reduceIte, static_updateVersion]
        | request => rfl
      | groupNames n => cases n <;> simp only [onMessage, hst, reduceCtorEq, ↓reduceIte]
      | acAbility a => cases a <;> simp only [onMessage, hst, reduceCtorEq, ↓reduceIte]
      | errInfo e =>
        cases e with
        | message e => simp only [onMessage, static_updateErrInfo]
        | request r => rfl
      | quickTimer q => rfl
      | unsupported i r => rfl
    | groupCtrl c => rfl
    | groupStatus g =>
      cases g with
      | request => rfl
      | status l => simp only [onMessage, hst, reduceCtorEq, ↓reduceIte, static_foldGroup]; rfl
    | acCtrl c => rfl
    | acStatus a =>
      cases a with
      | request => rfl
      | status l => simp only [onMessage, hst, reduceCtorEq, ↓reduceIte, static_foldStatus]
    | acTimerCtrl c => simp only [onMessage, processTimers, hst, reduceCtorEq, ↓reduceIte, static_foldTimer]
    | acTimerStatus t =>
      cases t with
      | request => rfl
      | status l => simp only [onMessage, processTimers, hst, reduceCtorEq, ↓reduceIte, static_foldTimer]
    | unsupported i r => rfl
  · rfl


/-! ### sequences of messages -/

/-- `msgs` arrive one after the other -/
def recvAll (s : State) (msgs : List RMsg) : State × List Ev := run s (msgs.map Op.recv)

theorem recvAll_cons (s : State) (m : RMsg) (ms : List RMsg) :
    (recvAll s (m :: ms)).1 = (recvAll (recv s m).1 ms).1 := rfl

/-- invariants of a run of messages in state `CONNECTED` -/
theorem connected_recvAll {s : State} (hinv : Inv s) (hst : s.st = .CONNECTED) (msgs : List RMsg) :
    Inv (recvAll s msgs).1 ∧ static (recvAll s msgs).1 = static s := by
  induction msgs generalizing s with
  | nil => exact ⟨hinv, rfl⟩
  | cons m ms ih =>
    have hs := static_recv_connected hst m
    have hst' : (recv s m).1.st = .CONNECTED := (congrArg Static.st hs).trans hst
    obtain ⟨h1, h2⟩ := ih (Inv_recv hinv m) hst'
    exact ⟨h1, h2.trans hs⟩

theorem findAc_recvAll {s : State} (hinv : Inv s) (hst : s.st = .CONNECTED) (hsub : s.subscribed = true)
    (msgs : List RMsg) (k : Nat) :
    (recvAll s msgs).1.findAc k = (s.findAc k).map fun a => msgs.foldl (fun a m => acStep k m a) a := by
  induction msgs generalizing s with
  | nil => simp [recvAll, run]
  | cons m ms ih =>
    have hs := static_recv_connected hst m
    have hst' : (recv s m).1.st = .CONNECTED := (congrArg Static.st hs).trans hst
    have hsub' : (recv s m).1.subscribed = true := (congrArg Static.subscribed hs).trans hsub
    rw [recvAll_cons, ih (Inv_recv hinv m) hst' hsub', findAc_recv_connected hinv hst hsub, Option.map_map]
    rfl

theorem zoneOf_recvAll {s : State} (hinv : Inv s) (hst : s.st = .CONNECTED) (hsub : s.subscribed = true)
    (msgs : List RMsg) (k : Nat) :
    (recvAll s msgs).1.zoneOf k = (s.zoneOf k).map fun z => msgs.foldl (fun z m => zoneStep k m z) z := by
  induction msgs generalizing s with
  | nil => simp [recvAll, run]
  | cons m ms ih =>
    have hs := static_recv_connected hst m
    have hst' : (recv s m).1.st = .CONNECTED := (congrArg Static.st hs).trans hst
    have hsub' : (recv s m).1.subscribed = true := (congrArg Static.subscribed hs).trans hsub
    rw [recvAll_cons, ih (Inv_recv hinv m) hst' hsub', zoneOf_recv_connected hinv hst hsub, Option.map_map]
    rfl

/-! ### projections of the object evolution -/

/-- the version a message carries -/
def versionOf : RMsg → Option FF30.ConsoleVersionMessage
  | .extended (.consoleVer (.message v)) => some v
  | _ => none

def acStatusRecords : RMsg → List X2D.AcStatusData
  | .acStatus (.status l) => l
  | _ => []

/-- `AcTimerControlMessage` is an `AcTimerStatusMessage` -/
def acTimerRecords : RMsg → List AcTimerStatusData
  | .acTimerStatus (.status l) => l
  | .acTimerCtrl c => c.ac_timer_status
  | _ => []

def groupRecords : RMsg → List X2B.GroupStatusData
  | .groupStatus (.status l) => l
  | _ => []

theorem foldl_status_status (k : Nat) (l : List X2D.AcStatusData) (a : AcObj) :
    (l.foldl (fun a r => if k = r.ac_number then acAfterStatus r a else a) a).status =
      (lastFor (·.ac_number) k l).getD a.status := by
  induction l generalizing a with
  | nil => rfl
  | cons r rs ih =>
    rw [List.foldl_cons, ih, lastFor_getD_cons]
    congr 1
    by_cases hk : k = r.ac_number
    · subst hk
      simp only [↓reduceIte, acAfterStatus]
      split
      · assumption
      · rfl
    · have : ¬ r.ac_number = k := fun e => hk e.symm
      simp [hk, this]

theorem foldl_status_timer (k : Nat) (l : List X2D.AcStatusData) (a : AcObj) :
    (l.foldl (fun a r => if k = r.ac_number then acAfterStatus r a else a) a).timer = a.timer := by
  induction l generalizing a with
  | nil => rfl
  | cons r rs ih =>
    rw [List.foldl_cons, ih]
    split
    · simp only [acAfterStatus]; split <;> rfl
    · rfl

theorem foldl_timer_timer (k : Nat) (l : List AcTimerStatusData) (a : AcObj) :
    (l.foldl (fun a r => if k = r.ac_number then acAfterTimer r a else a) a).timer =
      (lastFor (·.ac_number) k l).getD a.timer := by
  induction l generalizing a with
  | nil => rfl
  | cons r rs ih =>
    rw [List.foldl_cons, ih, lastFor_getD_cons]
    congr 1
    by_cases hk : k = r.ac_number
    · subst hk
      simp only [↓reduceIte, acAfterTimer]
      split
      · assumption
      · rfl
    · have : ¬ r.ac_number = k := fun e => hk e.symm
      simp [hk, this]

theorem foldl_timer_status (k : Nat) (l : List AcTimerStatusData) (a : AcObj) :
    (l.foldl (fun a r => if k = r.ac_number then acAfterTimer r a else a) a).status = a.status := by
  induction l generalizing a with
  | nil => rfl
  | cons r rs ih =>
    rw [List.foldl_cons, ih]
    split
    · simp only [acAfterTimer]; split <;> rfl
    · rfl

theorem foldl_group_status (k : Nat) (l : List X2B.GroupStatusData) (z : ZoneObj) :
    (l.foldl (fun z g => if k = g.group_number then { z with status := g } else z) z).status =
      (lastFor (·.group_number) k l).getD z.status := by
  induction l generalizing z with
  | nil => rfl
  | cons r rs ih =>
    rw [List.foldl_cons, ih, lastFor_getD_cons]
    congr 1
    by_cases hk : k = r.group_number
    · subst hk; simp
    · have : ¬ r.group_number = k := fun e => hk e.symm
      simp [hk, this]

theorem acStep_status (k : Nat) (m : RMsg) (a : AcObj) :
    (acStep k m a).status = (lastFor (·.ac_number) k (acStatusRecords m)).getD a.status := by
  cases m with
  | extended sub =>
    cases sub with
    | errInfo e =>
      cases e with
      | message e => simp only [acStep, acStatusRecords, lastFor, Option.getD_none]; split <;> rfl
      | request r => rfl
    | consoleVer v => cases v <;> rfl
    | groupNames n => cases n <;> rfl
    | acAbility x => cases x <;> rfl
    | quickTimer q => rfl
    | unsupported i r => rfl
  | acStatus x =>
    cases x with
    | request => rfl
    | status l => exact foldl_status_status k l a
  | acTimerStatus x =>
    cases x with
    | request => rfl
    | status l => exact foldl_timer_status k l a
  | acTimerCtrl c => exact foldl_timer_status k _ a
  | groupCtrl c => rfl
  | groupStatus g => cases g <;> rfl
  | acCtrl c => rfl
  | unsupported i r => rfl

theorem acStep_timer (k : Nat) (m : RMsg) (a : AcObj) :
    (acStep k m a).timer = (lastFor (·.ac_number) k (acTimerRecords m)).getD a.timer := by
  cases m with
  | extended sub =>
    cases sub with
    | errInfo e =>
      cases e with
      | message e => simp only [acStep, acTimerRecords, lastFor, Option.getD_none]; split <;> rfl
      | request r => rfl
    | consoleVer v => cases v <;> rfl
    | groupNames n => cases n <;> rfl
    | acAbility x => cases x <;> rfl
    | quickTimer q => rfl
    | unsupported i r => rfl
  | acStatus x =>
    cases x with
    | request => rfl
    | status l => exact foldl_status_timer k l a
  | acTimerStatus x =>
    cases x with
    | request => rfl
    | status l => exact foldl_timer_timer k l a
  | acTimerCtrl c => exact foldl_timer_timer k _ a
  | groupCtrl c => rfl
  | groupStatus g => cases g <;> rfl
  | acCtrl c => rfl
  | unsupported i r => rfl

theorem zoneStep_status (k : Nat) (m : RMsg) (z : ZoneObj) :
    (zoneStep k m z).status = (lastFor (·.group_number) k (groupRecords m)).getD z.status := by
  cases m with
  | groupStatus g =>
    cases g with
    | request => rfl
    | status l => exact foldl_group_status k l z
  | extended sub => rfl
  | acStatus x => rfl
  | acTimerStatus x => rfl
  | acTimerCtrl c => rfl
  | groupCtrl c => rfl
  | acCtrl c => rfl
  | unsupported i r => rfl

theorem or_getD {α} (o₁ o₂ : Option α) (x : α) : (o₂.or o₁).getD x = o₂.getD (o₁.getD x) := by
  cases o₂ <;> cases o₁ <;> rfl

theorem foldl_steps_proj {α β γ} (step : β → α → α) (proj : α → γ) (key : γ → Nat) (k : Nat) (recs : β → List γ)
    (h : ∀ m a, proj (step m a) = (lastFor key k (recs m)).getD (proj a)) (msgs : List β) (a : α) :
    proj (msgs.foldl (fun a m => step m a) a) = (lastFor key k (msgs.flatMap recs)).getD (proj a) := by
  induction msgs generalizing a with
  | nil => rfl
  | cons m ms ih =>
    rw [List.foldl_cons, ih, h, List.flatMap_cons, lastFor_append, or_getD]

end PyAirtouch.Lemmas.Api4
