import PyAirtouch.Model.At5.C033
import PyAirtouch.Lemmas.TimerCommon
/-! Round trip and length lemmas for the AirTouch 5 AC timer status codec (sub-message 0x33). -/
namespace PyAirtouch.Lemmas.At5C033
open PyAirtouch.Model PyAirtouch.Model.TimerCommon PyAirtouch.Model.At5.C033
open PyAirtouch.Gen.At5.XC033AcTimerStatus PyAirtouch.Lemmas.TimerCommon

theorem encRec_length (d : AcTimerStatusData) : (encRec d).length = recSize := rfl

theorem encodeBytes_length (m : Msg) :
    (encodeBytes m).length = nonRepeatSize m + repeatSize m * repeatCount m := by
  cases m with
  | request => rfl
  | status l =>
    simp only [encodeBytes, nonRepeatSize, repeatSize, repeatCount, Nat.zero_add]
    induction l with
    | nil => simp
    | cons d ds ih => simp [List.flatMap_cons, encRec_length, ih, Nat.mul_add, Nat.add_comm]

theorem encLoop_eq (l : List AcTimerStatusData) (bs : Bytes) (h : encLoop l = .ok bs) :
    bs = l.flatMap encRec := by
  induction l generalizing bs with
  | nil => simp only [encLoop] at h; cases h; rfl
  | cons d ds ih =>
    simp only [encLoop] at h
    split at h
    · cases hds : encLoop ds with
      | error e => rw [hds] at h; cases h
      | ok b =>
        rw [hds] at h
        cases h
        simp only [List.flatMap_cons, ih b hds]
    · cases h

/-- whenever the encoder returns bytes, they are the bytes of `encodeBytes` -/
theorem encode_eq (m : Msg) (bs : Bytes) (h : encode m = .ok bs) : bs = encodeBytes m := by
  cases m with
  | request => simp only [encode] at h; cases h; rfl
  | status l => exact encLoop_eq l bs h

/-- whenever the encoder returns bytes, their number is what the header announces -/
theorem encode_length (m : Msg) (bs : Bytes) (h : encode m = .ok bs) :
    bs.length = nonRepeatSize m + repeatSize m * repeatCount m := by
  rw [encode_eq m bs h, encodeBytes_length]

theorem encLoop_ok (l : List AcTimerStatusData) (h : ∀ d ∈ l, WFRec d) :
    encLoop l = .ok (l.flatMap encRec) := by
  induction l with
  | nil => rfl
  | cons d ds ih =>
    have hd : d.ac_number < 256 := (h d (by simp)).1
    simp only [encLoop, hd, ↓reduceIte, ih (fun x hx => h x (by simp [hx])), List.flatMap_cons]
    rfl

/-- on well-formed messages the encoder does not raise -/
theorem encode_ok (m : Msg) (h : WF m) : encode m = .ok (encodeBytes m) := by
  cases m with
  | request => rfl
  | status l => exact encLoop_ok l h

theorem decRec_encRec (d : AcTimerStatusData) (h : WFRec d) (rest : Bytes) :
    decRec (encRec d ++ rest) = .ok d := by
  obtain ⟨_, hon, hoff⟩ := h
  rcases d with ⟨ac, on, off⟩
  simp only at hon hoff
  simp only [encRec, encTimerState, PADDING_BYTES, List.cons_append, List.nil_append, decRec,
    TIMER_STATE_STRUCT_size, List.drop_succ_cons, List.drop_zero, decTimerState_enc on hon,
    decTimerState_enc off hoff, bind, Except.bind, pure, Except.pure]

theorem drop_encRec (d : AcTimerStatusData) (rest : Bytes) :
    (encRec d ++ rest).drop recSize = rest := by
  simp [encRec, encTimerState, PADDING_BYTES, recSize, TIMER_STATUS_REPEAT_SIZE]

theorem decRecs_encode (l : List AcTimerStatusData) (h : ∀ d ∈ l, WFRec d) (rest : Bytes) :
    decRecs l.length recSize (l.flatMap encRec ++ rest) = .ok (l, rest) := by
  induction l with
  | nil => rfl
  | cons d ds ih =>
    simp only [List.length_cons, List.flatMap_cons, List.append_assoc, decRecs]
    rw [decRec_encRec d (h d (by simp)), drop_encRec]
    simp only [bind, Except.bind]
    rw [ih (fun x hx => h x (by simp [hx]))]
    rfl

/-- `decode(encode(m), header with the lengths the encoder announces)` gives `m` back, nothing
    left over -/
theorem decode_encode (m : Msg) (h : WF m) (rest : Bytes) :
    decode (encodeBytes m ++ rest) (nonRepeatSize m) (repeatSize m) (repeatCount m) = .ok (m, rest) := by
  cases m with
  | request => simp [decode, encodeBytes, repeatSize, repeatCount]
  | status l =>
    have hrs : recSize ≠ 0 := by decide
    simp only [decode, encodeBytes, repeatSize, repeatCount, hrs, and_false, ↓reduceIte, Nat.lt_irrefl]
    rw [decRecs_encode l h]
    rfl

theorem wfRecBool_iff (d : AcTimerStatusData) : wfRecBool d = true ↔ WFRec d := by
  simp only [wfRecBool, WFRec, Bool.and_eq_true, decide_eq_true_eq, wfStateBool_iff, and_assoc]

theorem wfBool_iff (m : Msg) : wfBool m = true ↔ WF m := by
  cases m with
  | request => simp only [wfBool, WF]
  | status l => simp only [wfBool, WF, List.all_eq_true, wfRecBool_iff]

end PyAirtouch.Lemmas.At5C033
