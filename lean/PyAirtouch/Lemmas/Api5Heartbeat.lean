import PyAirtouch.Lemmas.HeartbeatSim
import PyAirtouch.Lemmas.Api5Entities
set_option linter.unusedSimpArgs false
set_option linter.unusedVariables false
/-!
# The heartbeat manager embedded in the AirTouch 5 API model (property C08 at the API level)

Part 1: the deterministic scheduler `settle` / `feed` of `Model.Heartbeat` in normal form (`pick`, `Act`), its loop
invariant `SInv`, termination within the fuel (`settle_complete`), an induction principle (`settle_induct`).
Part 2: what one `feed` does to a well-formed manager (`HQ`).
Part 3: the API object: which ops feed the manager, the invariant `HbOk`, the ghost manager with the full trace.
-/
namespace PyAirtouch.Lemmas.Api5
open PyAirtouch.Model PyAirtouch.Model.Api5 PyAirtouch.Model.At5 PyAirtouch.Model.At5.Registry
open PyAirtouch.Model.Heartbeat PyAirtouch.Spec.Heartbeat PyAirtouch.Lemmas.Heartbeat
open PyAirtouch.Gen PyAirtouch.Gen.Api5

/-! ## 1. the scheduler in normal form -/

/-- `settle`'s limit test -/
def lim (t : Nat) (incl : Bool) (d : Nat) : Bool := if incl then decide (d ≤ t) else decide (d < t)

def dueTl (rt : Nat) (h : HB) : Option Nat :=
  match h.tl with
  | .waiting d => some d
  | .resetting => some (h.resetAt + rt)
  | .idle => none

def dueHl (h : HB) : Option Nat :=
  match h.hl with
  | .sleeping u => some u
  | .idle => none

/-- the timeout loop's action: the expiry, or the completion of the reset in progress -/
def tlAct (h : HB) : HB :=
  match h.tl with
  | .resetting => apply! h .tlResetDone
  | _ => apply! h .tlFire

def tlBranch (h : HB) (t : Nat) (incl : Bool) (d : Nat) : Option HB :=
  if lim t incl d then some (tlAct (apply! h (.advance d))) else none

def hlBranch (h : HB) (t : Nat) (incl : Bool) (u : Nat) : Option HB :=
  if lim t incl u then some (apply! (apply! h (.advance u)) .hlBeat) else none

/-- the state after the earliest internal action that is due, if any -/
def pick (rt : Nat) (h : HB) (t : Nat) (incl : Bool) : Option HB :=
  match dueTl rt h, dueHl h with
  | some d, some u => if d ≤ u then tlBranch h t incl d else hlBranch h t incl u
  | some d, none => tlBranch h t incl d
  | none, some u => hlBranch h t incl u
  | none, none => none

theorem settle_succ' (rt fuel : Nat) (h : HB) (t : Nat) (incl : Bool) :
    settle rt (fuel + 1) h t incl =
      match pick rt (if h.flag then apply! h .tlWake else h) t incl with
      | some h' => settle rt fuel h' t incl
      | none => (if h.flag then apply! h .tlWake else h) := by
  rw [settle]
  simp only
  generalize (if h.flag then apply! h .tlWake else h) = k
  unfold pick dueTl dueHl tlBranch hlBranch lim tlAct
  cases htl : k.tl <;> cases hhl : k.hl <;> simp only
  all_goals (repeat' split)
  all_goals first | rfl | simp_all

theorem settle_succ (rt fuel : Nat) (h : HB) (t : Nat) (incl : Bool) (hf : h.flag = false) :
    settle rt (fuel + 1) h t incl =
      match pick rt h t incl with
      | some h' => settle rt fuel h' t incl
      | none => h := by
  rw [settle_succ']
  simp [hf]


/-- the loop invariant of `settle 0 · · t incl`: the event is clear, nothing that is pending lies in the past, a reset in
progress began at the current instant (which is within the limit) -/
structure SInv (t : Nat) (incl : Bool) (h : HB) : Prop where
  flag : h.flag = false
  now_le : h.now ≤ t
  deadline : ∀ d, h.tl = .waiting d → h.now ≤ d
  wake : ∀ u, h.hl = .sleeping u → h.now ≤ u
  resetting : h.tl = .resetting → h.resetAt = h.now ∧ lim t incl h.now = true

/-- the state after the expiry at `d` while the link is up -/
abbrev fireUpRec (h : HB) (d : Nat) : HB :=
  { h with now := d, expiries := h.expiries ++ [d], tl := .resetting, resetAt := d, trace := h.trace ++ [.reset d] }
/-- … while the link is down -/
abbrev fireDownRec (h : HB) (d : Nat) : HB :=
  { h with now := d, tl := .waiting (d + h.timeout), flag := false, lastArm := d, expiries := h.expiries ++ [d] ++ [d + h.timeout] }
/-- the state after the completion of the reset -/
abbrev doneRec (h : HB) : HB :=
  { h with tl := .waiting (h.now + h.timeout), flag := false, lastArm := h.now, expiries := h.expiries ++ [h.now + h.timeout],
           trace := h.trace ++ [.resetDone h.now] }
/-- the state after the wake-up of the heartbeat loop at `u` -/
abbrev beatRec (h : HB) (u : Nat) : HB :=
  { h with now := u, hl := .sleeping (u + h.interval), trace := if h.connected then h.trace ++ [.beat u] else h.trace }

/-- one internal action of the scheduler, spelled out -/
inductive Act (t : Nat) (incl : Bool) (h : HB) : HB → Prop
  /-- the deadline `d` is reached while the link is up: a reset begins -/
  | fireUp (d : Nat) : h.tl = .waiting d → (∀ u, h.hl = .sleeping u → d ≤ u) → lim t incl d = true → h.connected = true →
      Act t incl h (fireUpRec h d)
  /-- … while the link is down: the next period starts at once -/
  | fireDown (d : Nat) : h.tl = .waiting d → (∀ u, h.hl = .sleeping u → d ≤ u) → lim t incl d = true → h.connected = false →
      Act t incl h (fireDownRec h d)
  /-- the reset (which takes no time) is complete: the next period starts -/
  | done : h.tl = .resetting → (∀ u, h.hl = .sleeping u → h.now ≤ u) → lim t incl h.now = true →
      Act t incl h (doneRec h)
  /-- the heartbeat loop wakes up at `u`: a request if the link is up, the next wake-up `interval` later -/
  | beat (u : Nat) : h.hl = .sleeping u → (∀ d, h.tl = .waiting d → u < d) → h.tl ≠ .resetting → lim t incl u = true →
      Act t incl h (beatRec h u)

theorem advance_ok {h : HB} {d : Nat} (h1 : h.now ≤ d) (h2 : ∀ d', h.tl = .waiting d' → d ≤ d' ∧ h.flag = false)
    (h3 : ∀ u, h.hl = .sleeping u → d ≤ u) : apply! h (.advance d) = { h with now := d } := by
  cases h with | mk n iv to f tl hl c la ra ex tr =>
  simp only at h1 h2 h3
  cases tl <;> cases hl <;> simp_all [apply!, step]

theorem fire_up {h : HB} {d : Nat} (h1 : h.tl = .waiting d) (h2 : d ≤ h.now) (hc : h.connected = true) :
    apply! h .tlFire = { h with expiries := h.expiries ++ [h.now], tl := .resetting, resetAt := h.now,
                                trace := h.trace ++ [.reset h.now] } := by
  simp [apply!, step, h1, h2, hc, HB.emit]

theorem fire_down {h : HB} {d : Nat} (h1 : h.tl = .waiting d) (h2 : d ≤ h.now) (hc : h.connected = false) :
    apply! h .tlFire = { h with tl := .waiting (h.now + h.timeout), flag := false, lastArm := h.now,
                                expiries := h.expiries ++ [h.now] ++ [h.now + h.timeout] } := by
  simp [apply!, step, h1, h2, hc, HB.emit, enterTimeout]

theorem done_spec {h : HB} (h1 : h.tl = .resetting) :
    apply! h .tlResetDone = { h with tl := .waiting (h.now + h.timeout), flag := false, lastArm := h.now,
                                     expiries := h.expiries ++ [h.now + h.timeout], trace := h.trace ++ [.resetDone h.now] } := by
  simp [apply!, step, h1, HB.emit, enterTimeout]

theorem beat_spec {h : HB} {u : Nat} (h1 : h.hl = .sleeping u) (h2 : u ≤ h.now) :
    apply! h .hlBeat = { h with hl := .sleeping (h.now + h.interval),
                                trace := if h.connected then h.trace ++ [.beat h.now] else h.trace } := by
  cases hc : h.connected <;> simp [apply!, step, h1, h2, hc, HB.emit]

theorem tlBranch_spec {t : Nat} {incl : Bool} {h h' : HB} (hi : SInv t incl h) {d : Nat} (hd : dueTl 0 h = some d)
    (hu : ∀ u, h.hl = .sleeping u → d ≤ u) (hp : tlBranch h t incl d = some h') : Act t incl h h' := by
  obtain ⟨i1, i2, i3, i4, i5⟩ := hi
  unfold tlBranch at hp
  split at hp
  · rename_i hl
    cases hp
    unfold dueTl at hd
    split at hd
    · rename_i d' htl
      cases hd
      rw [advance_ok (i3 d htl) (fun d' e => by rw [htl] at e; cases e; exact ⟨Nat.le_refl _, i1⟩) hu]
      have ta : tlAct { h with now := d } = apply! { h with now := d } .tlFire := by
        simp [tlAct, htl]
      rw [ta]
      by_cases hc : h.connected = true
      · rw [fire_up (h := { h with now := d }) (d := d) htl (Nat.le_refl _) hc]
        exact Act.fireUp d htl hu hl hc
      · have hc : h.connected = false := by simpa using hc
        rw [fire_down (h := { h with now := d }) (d := d) htl (Nat.le_refl _) hc]
        exact Act.fireDown d htl hu hl hc
    · rename_i htl
      cases hd
      obtain ⟨e1, e2⟩ := i5 htl
      simp only [Nat.add_zero] at hl hu ⊢
      rw [e1] at hl hu ⊢
      have e : apply! h (.advance h.now) = h := by
        rw [advance_ok (Nat.le_refl _) (fun d' e => by rw [htl] at e; cases e) hu]
      rw [e]
      have ta : tlAct h = apply! h .tlResetDone := by simp [tlAct, htl]
      rw [ta, done_spec htl]
      exact Act.done htl hu hl
    · cases hd
  · cases hp

theorem hlBranch_spec {t : Nat} {incl : Bool} {h h' : HB} (hi : SInv t incl h) {u : Nat} (hu : h.hl = .sleeping u)
    (hd : ∀ d, dueTl 0 h = some d → u < d) (hp : hlBranch h t incl u = some h') : Act t incl h h' := by
  obtain ⟨i1, i2, i3, i4, i5⟩ := hi
  unfold hlBranch at hp
  split at hp
  · rename_i hl
    cases hp
    have hnr : h.tl ≠ .resetting := by
      intro htl
      have := hd (h.resetAt + 0) (by simp [dueTl, htl])
      have := (i5 htl).1
      have := i4 u hu
      omega
    have hw : ∀ d, h.tl = .waiting d → u < d := fun d htl => hd d (by simp [dueTl, htl])
    rw [advance_ok (i4 u hu) (fun d' e => ⟨Nat.le_of_lt (hw d' e), i1⟩) (fun u' e => by rw [hu] at e; cases e; exact Nat.le_refl _)]
    rw [beat_spec (h := { h with now := u }) (u := u) hu (Nat.le_refl _)]
    exact Act.beat u hu hw hnr hl
  · cases hp

theorem pick_spec {t : Nat} {incl : Bool} {h h' : HB} (hi : SInv t incl h) (hp : pick 0 h t incl = some h') :
    Act t incl h h' := by
  unfold pick at hp
  split at hp
  · rename_i d u hd hu
    have hu' : h.hl = .sleeping u := by
      unfold dueHl at hu; split at hu <;> simp_all
    split at hp
    · rename_i hle
      exact tlBranch_spec hi hd (fun u' e => by rw [hu'] at e; cases e; exact hle) hp
    · rename_i hle
      exact hlBranch_spec hi hu' (fun d' e => by rw [hd] at e; cases e; omega) hp
  · rename_i d hd hu
    have hu' : h.hl = .idle := by
      unfold dueHl at hu; split at hu <;> simp_all
    exact tlBranch_spec hi hd (fun u' e => by rw [hu'] at e; cases e) hp
  · rename_i u hd hu
    have hu' : h.hl = .sleeping u := by
      unfold dueHl at hu; split at hu <;> simp_all
    exact hlBranch_spec hi hu' (fun d' e => by rw [hd] at e; cases e) hp
  · cases hp


theorem lim_iff (t : Nat) (incl : Bool) (d : Nat) :
    lim t incl d = true ↔ (incl = true ∧ d ≤ t) ∨ (incl = false ∧ d < t) := by
  cases incl <;> simp [lim]

theorem lim_le {t : Nat} {incl : Bool} {d : Nat} (h : lim t incl d = true) : d ≤ t := by
  rw [lim_iff] at h; omega

theorem lim_mono {t : Nat} {incl : Bool} {d d' : Nat} (hle : d ≤ d') (h : lim t incl d' = true) : lim t incl d = true := by
  cases incl <;> simp [lim] at h ⊢ <;> omega

theorem lim_false_iff (t : Nat) (incl : Bool) (d : Nat) :
    lim t incl d = false ↔ (incl = true ∧ t < d) ∨ (incl = false ∧ t ≤ d) := by
  cases incl <;> simp [lim]

theorem lim_false_incl {t d : Nat} (h : lim t true d = false) : t < d := by simpa [lim] using h
theorem lim_false_excl {t d : Nat} (h : lim t false d = false) : t ≤ d := by simpa [lim] using h

/-- nothing is due: no reset in progress, the pending deadline and wake-up are beyond the limit -/
theorem pick_none {t : Nat} {incl : Bool} {h : HB} (hi : SInv t incl h) (hp : pick 0 h t incl = none) :
    h.tl ≠ .resetting ∧ (∀ d, h.tl = .waiting d → lim t incl d = false) ∧ (∀ u, h.hl = .sleeping u → lim t incl u = false) := by
  obtain ⟨i1, i2, i3, i4, i5⟩ := hi
  have bf : ∀ b : Bool, b ≠ true → b = false := by intro b; cases b <;> simp
  unfold pick dueTl dueHl tlBranch hlBranch at hp
  cases htl : h.tl <;> cases hhl : h.hl <;> simp only [htl, hhl] at hp i3 i4 i5
  all_goals (repeat' split at hp)
  all_goals (first | cases hp | skip)
  all_goals (cases incl <;> simp_all [lim] <;> omega)


theorem act_sinv {t : Nat} {incl : Bool} {h h' : HB} (hi : SInv t incl h) (ha : Act t incl h h') : SInv t incl h' := by
  obtain ⟨i1, i2, i3, i4, i5⟩ := hi
  cases ha with
  | fireUp d htl hu hl hc =>
    exact ⟨i1, lim_le hl, fun d' e => (by cases e), hu, fun _ => ⟨rfl, hl⟩⟩
  | fireDown d htl hu hl hc =>
    refine ⟨rfl, lim_le hl, fun d' e => ?_, hu, fun e => (by cases e)⟩
    simp only [TL.waiting.injEq] at e; subst e; exact Nat.le_add_right _ _
  | done htl hu hl =>
    refine ⟨rfl, i2, fun d' e => ?_, i4, fun e => (by cases e)⟩
    simp only [TL.waiting.injEq] at e; subst e; exact Nat.le_add_right _ _
  | beat u hhl hw hnr hl =>
    refine ⟨i1, lim_le hl, fun d' e => Nat.le_of_lt (hw d' e), fun u' e => ?_, fun e => absurd e hnr⟩
    simp only [HL.sleeping.injEq] at e; subst e; exact Nat.le_add_right _ _

theorem act_params {t : Nat} {incl : Bool} {h h' : HB} (ha : Act t incl h h') :
    h'.interval = h.interval ∧ h'.timeout = h.timeout ∧ h'.connected = h.connected := by
  cases ha <;> exact ⟨rfl, rfl, rfl⟩

/-- induction over the actions of one `settle` -/
theorem settle_induct {t : Nat} {incl : Bool} (P : HB → Prop)
    (hP : ∀ h h', SInv t incl h → P h → Act t incl h h' → P h') :
    ∀ (fuel : Nat) (h : HB), SInv t incl h → P h →
      SInv t incl (settle 0 fuel h t incl) ∧ P (settle 0 fuel h t incl) := by
  intro fuel
  induction fuel with
  | zero => intro h hi hp; exact ⟨hi, hp⟩
  | succ fuel ih =>
    intro h hi hp
    rw [settle_succ _ _ _ _ _ hi.flag]
    cases hpk : pick 0 h t incl with
    | none => exact ⟨hi, hp⟩
    | some h' =>
      have ha := pick_spec hi hpk
      exact ih h' (act_sinv hi ha) (hP h h' hi hp ha)

/-- how far the scheduler is from having nothing to do before `t` (every action lowers it by at least 1320 when
`interval ≥ 1320` and `timeout ≥ 2640`) -/
def pot (h : HB) (t : Nat) : Nat :=
  (match h.tl with
    | .waiting d => if d ≤ t then t - d + h.timeout else 0
    | .resetting => t - h.now + h.timeout - 1320
    | .idle => 0) +
  (match h.hl with
    | .sleeping u => if u ≤ t then t - u + h.interval else 0
    | .idle => 0)

theorem act_pot {t : Nat} {incl : Bool} {h h' : HB} (hi : SInv t incl h) (h1 : 1320 ≤ h.interval) (h2 : 2640 ≤ h.timeout)
    (ha : Act t incl h h') : pot h' t + 1320 ≤ pot h t := by
  obtain ⟨i1, i2, i3, i4, i5⟩ := hi
  cases ha with
  | fireUp d htl hu hl hc =>
    have := lim_le hl
    simp only [pot, htl, this, if_true]
    omega
  | fireDown d htl hu hl hc =>
    have := lim_le hl
    simp only [pot, htl, this, if_true]
    by_cases hx : d + h.timeout ≤ t <;> simp only [hx, if_true, if_false] <;> omega
  | done htl hu hl =>
    simp only [pot, htl]
    by_cases hx : h.now + h.timeout ≤ t <;> simp only [hx, if_true, if_false] <;> omega
  | beat u hhl hw hnr hl =>
    have := lim_le hl
    cases htl : h.tl with
    | resetting => exact absurd htl hnr
    | idle =>
      simp only [pot, hhl, htl, this, if_true]
      by_cases hx : u + h.interval ≤ t <;> simp only [hx, if_true, if_false] <;> omega
    | waiting d =>
      simp only [pot, hhl, htl, this, if_true]
      by_cases hx : u + h.interval ≤ t <;> simp only [hx, if_true, if_false] <;> omega

/-- with enough fuel `settle` ends with nothing due -/
theorem settle_complete {t : Nat} {incl : Bool} :
    ∀ (fuel : Nat) (h : HB), SInv t incl h → 1320 ≤ h.interval → 2640 ≤ h.timeout → pot h t < 1320 * (fuel + 1) →
      pick 0 (settle 0 fuel h t incl) t incl = none := by
  intro fuel
  induction fuel with
  | zero =>
    intro h hi h1 h2 hpot
    show pick 0 h t incl = none
    cases hpk : pick 0 h t incl with
    | none => rfl
    | some h' =>
      have := act_pot hi h1 h2 (pick_spec hi hpk)
      omega
  | succ fuel ih =>
    intro h hi h1 h2 hpot
    rw [settle_succ _ _ _ _ _ hi.flag]
    cases hpk : pick 0 h t incl with
    | none => exact hpk
    | some h' =>
      have ha := pick_spec hi hpk
      have hd := act_pot hi h1 h2 ha
      obtain ⟨p1, p2, _⟩ := act_params ha
      exact ih h' (act_sinv hi ha) (by omega) (by omega) (by omega)


theorem settle_stable {t : Nat} {incl : Bool} {h : HB} (fuel : Nat) (hf : h.flag = false) (hp : pick 0 h t incl = none) :
    settle 0 fuel h t incl = h := by
  cases fuel with
  | zero => rfl
  | succ fuel => rw [settle_succ _ _ _ _ _ hf, hp]

theorem pick_none_of {t : Nat} {incl : Bool} {h : HB} (h1 : h.tl ≠ .resetting)
    (h2 : ∀ d, h.tl = .waiting d → lim t incl d = false) (h3 : ∀ u, h.hl = .sleeping u → lim t incl u = false) :
    pick 0 h t incl = none := by
  unfold pick dueTl dueHl tlBranch hlBranch
  cases htl : h.tl <;> cases hhl : h.hl <;> simp only [htl, hhl] at h1 h2 h3 ⊢
  all_goals simp_all

/-! ## 2. one `feed` of a well-formed manager -/

/-- nothing is due strictly before `t` -/
structure Quiet (h : HB) (t : Nat) : Prop where
  flag : h.flag = false
  notResetting : h.tl ≠ .resetting
  now_le : h.now ≤ t
  deadline : ∀ d, h.tl = .waiting d → t ≤ d
  wake : ∀ u, h.hl = .sleeping u → t ≤ u

/-- the common prefix of every `feed`: catch up to `t`, move the clock there -/
def pre (h : HB) (t : Nat) : HB := apply! (settle 0 100000 h t false) (.advance t)

theorem feed_eq (h : HB) (i : HIn) :
    feed 0 h i = match i with
      | .conn up t => apply! (pre h t) (.conn up)
      | .start t => settle 0 8 (apply! (pre h t) .start) t true
      | .stop t => apply! (pre h t) .stop
      | .resp t => apply! (apply! (pre h t) .response) .tlWake
      | .resetDone t => apply! (pre h t) .tlResetDone
      | .finish t => settle 0 100000 (pre h t) t true := by
  cases i <;> rfl

theorem pre_quiet {h : HB} {t : Nat} (q : Quiet h t) : pre h t = { h with now := t } := by
  unfold pre
  rw [settle_stable _ q.flag (pick_none_of q.notResetting
    (fun d e => by rw [lim_false_iff]; exact .inr ⟨rfl, q.deadline d e⟩)
    (fun u e => by rw [lim_false_iff]; exact .inr ⟨rfl, q.wake u e⟩))]
  exact advance_ok q.now_le (fun d e => ⟨q.deadline d e, q.flag⟩) q.wake

/-- well-formed between two feeds: the timing invariant of `Lemmas.Heartbeat` for the AirTouch 5 parameters, the event
consumed, no reset in progress -/
structure HQ (h : HB) : Prop where
  basic : Basic 2400 2640 h
  flag : h.flag = false
  notResetting : h.tl ≠ .resetting

theorem HQ.interval {h : HB} (q : HQ h) : h.interval = 2400 := q.basic.interval_eq
theorem HQ.timeout {h : HB} (q : HQ h) : h.timeout = 2640 := q.basic.timeout_eq

theorem hq_init : HQ (Heartbeat.init 2400 2640) := ⟨basic_init _ _, rfl, by simp [Heartbeat.init]⟩

/-- clearing the trace (and the ghost list of expiries) as `hbFeed` does -/
theorem HQ.clear {h : HB} (q : HQ h) : HQ { h with trace := [], expiries := [] } :=
  ⟨⟨q.basic.timeout_eq, q.basic.interval_eq, q.basic.arm_le, q.basic.deadline, q.basic.wake, q.basic.both⟩, q.flag, q.notResetting⟩

theorem HQ.quiet {h : HB} (q : HQ h) : Quiet h h.now :=
  ⟨q.flag, q.notResetting, Nat.le_refl _, fun d e => (q.basic.deadline d e).1, fun u e => (q.basic.wake u e).1⟩

theorem HQ.sinv {h : HB} (q : HQ h) {t : Nat} (incl : Bool) (hle : h.now ≤ t) : SInv t incl h :=
  ⟨q.flag, hle, fun d e => (q.basic.deadline d e).1, fun u e => (q.basic.wake u e).1, fun e => absurd e q.notResetting⟩

theorem basic_apply {i t : Nat} {h : HB} (b : Basic i t h) (l : Label) : Basic i t (apply! h l) := by
  unfold apply!
  cases hs : step h l with
  | none => exact b
  | some g => exact basic_step b hs

theorem basic_run {i t : Nat} {h g : HB} {ls : List Label} (b : Basic i t h) (hr : run h ls = some g) : Basic i t g :=
  run_inv (P := Basic i t) (fun _ _ _ hp hs => basic_step hp hs) ls h g b hr

theorem basic_settle {i t : Nat} {h : HB} (b : Basic i t h) (rt fuel t' : Nat) (incl : Bool) :
    Basic i t (settle rt fuel h t' incl) := by
  obtain ⟨ls, hr⟩ := settle_run rt t' incl fuel h
  exact basic_run b hr

theorem basic_feed {i t : Nat} {h : HB} (b : Basic i t h) (rt : Nat) (x : HIn) : Basic i t (feed rt h x) := by
  obtain ⟨ls, hr⟩ := feed_run rt h x
  exact basic_run b hr

theorem pot_le {h : HB} (q : HQ h) (t : Nat) : pot h t ≤ 2 * (t - h.now) + 5040 := by
  have hi := q.interval
  have ht := q.timeout
  have hd := q.basic.deadline
  have hw := q.basic.wake
  have hn := q.notResetting
  unfold pot
  cases htl : h.tl <;> cases hhl : h.hl <;> simp only [htl, hhl] at hd hw hn ⊢
  all_goals (first | exact absurd rfl hn | skip)
  all_goals (repeat' split)
  all_goals (try have := hd _ rfl)
  all_goals (try have := hw _ rfl)
  all_goals omega

/-- a `settle` with enough fuel: well-formed again, the clock within `[h.now, t]`, nothing within the limit left -/
theorem settle_hq {h : HB} {t : Nat} {incl : Bool} (fuel : Nat) (q : HQ h) (hle : h.now ≤ t)
    (hfuel : pot h t < 1320 * (fuel + 1)) :
    HQ (settle 0 fuel h t incl) ∧ h.now ≤ (settle 0 fuel h t incl).now ∧ (settle 0 fuel h t incl).now ≤ t ∧
    (∀ d, (settle 0 fuel h t incl).tl = .waiting d → lim t incl d = false) ∧
    (∀ u, (settle 0 fuel h t incl).hl = .sleeping u → lim t incl u = false) ∧
    (settle 0 fuel h t incl).connected = h.connected ∧ ((settle 0 fuel h t incl).tl = .idle ↔ h.tl = .idle) := by
  have hs := q.sinv incl hle
  obtain ⟨r1, r2, r3, r4⟩ := settle_induct (t := t) (incl := incl)
    (fun g => h.now ≤ g.now ∧ g.connected = h.connected ∧ (g.tl = .idle ↔ h.tl = .idle))
    (fun a b ia pa ab => by
      cases ab with
      | fireUp d htl hu hl hc => exact ⟨Nat.le_trans pa.1 (ia.deadline d htl), pa.2.1, by rw [← pa.2.2, htl]; simp⟩
      | fireDown d htl hu hl hc => exact ⟨Nat.le_trans pa.1 (ia.deadline d htl), pa.2.1, by rw [← pa.2.2, htl]; simp⟩
      | done htl hu hl => exact ⟨pa.1, pa.2.1, by rw [← pa.2.2, htl]; simp⟩
      | beat u hhl hw hnr hl => exact ⟨Nat.le_trans pa.1 (ia.wake u hhl), pa.2⟩) fuel h hs ⟨Nat.le_refl _, rfl, Iff.rfl⟩
  have hc := settle_complete fuel h hs (by rw [q.interval]; omega) (by rw [q.timeout]; omega) hfuel
  obtain ⟨n1, n2, n3⟩ := pick_none r1 hc
  exact ⟨⟨basic_settle q.basic _ _ _ _, r1.flag, n1⟩, r2, r1.now_le, n2, n3, r3, r4⟩


/-! ### the next action, forwards -/

theorem pick_eq_tl {t : Nat} {incl : Bool} {h : HB} {d : Nat} (hd : dueTl 0 h = some d) (hu : ∀ u, dueHl h = some u → d ≤ u) :
    pick 0 h t incl = tlBranch h t incl d := by
  unfold pick
  rw [hd]
  cases hh : dueHl h with
  | none => rfl
  | some u => simp only [if_pos (hu u hh)]

theorem pick_eq_hl {t : Nat} {incl : Bool} {h : HB} {u : Nat} (hu : dueHl h = some u) (hd : ∀ d, dueTl 0 h = some d → u < d) :
    pick 0 h t incl = hlBranch h t incl u := by
  unfold pick
  rw [hu]
  cases hh : dueTl 0 h with
  | none => rfl
  | some d => have := hd d hh; simp only [show ¬ d ≤ u by omega, if_false]

theorem pick_beat {t : Nat} {incl : Bool} {h : HB} {u : Nat} (hf : h.flag = false) (hn : h.now ≤ u) (hhl : h.hl = .sleeping u)
    (hw : ∀ d, h.tl = .waiting d → u < d) (hnr : h.tl ≠ .resetting) (hl : lim t incl u = true) :
    pick 0 h t incl = some (beatRec h u) := by
  rw [pick_eq_hl (u := u) (by simp [dueHl, hhl])]
  · unfold hlBranch
    rw [if_pos hl, advance_ok hn (fun d' e => ⟨Nat.le_of_lt (hw d' e), hf⟩) (fun u' e => by rw [hhl] at e; cases e; exact Nat.le_refl _),
      beat_spec (h := { h with now := u }) (u := u) hhl (Nat.le_refl _)]
  · intro d hd
    unfold dueTl at hd
    split at hd
    · rename_i d' htl; cases hd; exact hw d htl
    · rename_i htl; exact absurd htl hnr
    · cases hd

theorem pick_fire {t : Nat} {incl : Bool} {h : HB} {d : Nat} (hf : h.flag = false) (hn : h.now ≤ d) (htl : h.tl = .waiting d)
    (hu : ∀ u, h.hl = .sleeping u → d ≤ u) (hl : lim t incl d = true) :
    pick 0 h t incl = some (if h.connected then fireUpRec h d else fireDownRec h d) := by
  rw [pick_eq_tl (d := d) (by simp [dueTl, htl])]
  · unfold tlBranch
    rw [if_pos hl, advance_ok hn (fun d' e => by rw [htl] at e; cases e; exact ⟨Nat.le_refl _, hf⟩) hu]
    have ta : tlAct { h with now := d } = apply! { h with now := d } .tlFire := by simp [tlAct, htl]
    rw [ta]
    by_cases hc : h.connected = true
    · rw [fire_up (h := { h with now := d }) (d := d) htl (Nat.le_refl _) hc, if_pos hc]
    · have hc' : h.connected = false := by simpa using hc
      rw [fire_down (h := { h with now := d }) (d := d) htl (Nat.le_refl _) hc', if_neg hc]
  · intro u hh
    unfold dueHl at hh
    split at hh
    · rename_i u' hhl; cases hh; exact hu u hhl
    · cases hh

theorem pick_done {t : Nat} {incl : Bool} {h : HB} (htl : h.tl = .resetting) (hra : h.resetAt = h.now)
    (hu : ∀ u, h.hl = .sleeping u → h.now ≤ u) (hl : lim t incl h.now = true) :
    pick 0 h t incl = some (doneRec h) := by
  rw [pick_eq_tl (d := h.now) (by simp [dueTl, htl, hra])]
  · unfold tlBranch
    have e : apply! h (.advance h.now) = h := by
      rw [advance_ok (Nat.le_refl _) (fun d' e => by rw [htl] at e; cases e) hu]
    have ta : tlAct h = apply! h .tlResetDone := by simp [tlAct, htl]
    rw [if_pos hl, e, ta, done_spec htl]
  · intro u hh
    unfold dueHl at hh
    split at hh
    · rename_i u' hhl; cases hh; exact hu u hhl
    · cases hh


/-! ### `feed` -/

/-- the largest `adv` for which the fuel of `settle` (100000 actions) is certainly enough: 6·10⁷ ticks, 86 days -/
def advBound : Nat := 60000000

theorem pre_hq {h : HB} {t : Nat} (q : HQ h) (hle : h.now ≤ t) (hb : t - h.now ≤ advBound) :
    HQ (pre h t) ∧ (pre h t).now = t ∧ (pre h t).connected = h.connected ∧ ((pre h t).tl = .idle ↔ h.tl = .idle) := by
  have hp := pot_le q t
  obtain ⟨r1, r2, r3, r4, r5, r6, r7⟩ := settle_hq (incl := false) 100000 q hle (by unfold advBound at hb; omega)
  have e : pre h t = { settle 0 100000 h t false with now := t } := by
    unfold pre
    exact advance_ok r3 (fun d e => ⟨lim_false_excl (r4 d e), r1.flag⟩) (fun u e => lim_false_excl (r5 u e))
  have hb : Basic 2400 2640 (pre h t) := basic_apply r1.basic _
  rw [e] at hb ⊢
  exact ⟨⟨hb, r1.flag, r1.notResetting⟩, rfl, r6, r7⟩

/-- time passes until `t` (not more than `advBound` ticks): the manager is well-formed again, its clock shows `t`, and
everything that is pending lies strictly after `t` -/
theorem feed_finish_hq {h : HB} {t : Nat} (q : HQ h) (hle : h.now ≤ t) (hb : t - h.now ≤ advBound) :
    HQ (feed 0 h (.finish t)) ∧ (feed 0 h (.finish t)).now = t ∧
    (∀ d, (feed 0 h (.finish t)).tl = .waiting d → t < d) ∧ (∀ u, (feed 0 h (.finish t)).hl = .sleeping u → t < u) ∧
    (feed 0 h (.finish t)).connected = h.connected ∧ ((feed 0 h (.finish t)).tl = .idle ↔ h.tl = .idle) := by
  obtain ⟨k1, k2, k3, k4⟩ := pre_hq q hle hb
  rw [feed_eq]
  simp only
  have hp := pot_le k1 t
  obtain ⟨r1, r2, r3, r4, r5, r6, r7⟩ := settle_hq (incl := true) 100000 k1 (Nat.le_of_eq k2) (by rw [k2] at hp; omega)
  refine ⟨r1, by omega, ?_, ?_, r6.trans k3, r7.trans k4⟩
  · intro d e; exact lim_false_incl (r4 d e)
  · intro u e; exact lim_false_incl (r5 u e)

/-- a time in the past: nothing happens -/
theorem feed_finish_past {h : HB} {t : Nat} (q : HQ h) (hlt : t < h.now) : feed 0 h (.finish t) = h := by
  have pn : ∀ incl, pick 0 h t incl = none := fun incl =>
    pick_none_of q.notResetting
      (fun d e => by have := (q.basic.deadline d e).1; rw [lim_false_iff]; cases incl <;> simp <;> omega)
      (fun u e => by have := (q.basic.wake u e).1; rw [lim_false_iff]; cases incl <;> simp <;> omega)
  rw [feed_eq]
  simp only
  have e : pre h t = h := by
    unfold pre
    rw [settle_stable _ q.flag (pn false)]
    simp [apply!, step, show ¬ h.now ≤ t by omega]
  rw [e, settle_stable _ q.flag (pn true)]

theorem feed_conn_quiet {h : HB} {t : Nat} (q : Quiet h t) (up : Bool) :
    feed 0 h (.conn up t) = { h with now := t, connected := up, trace := h.trace ++ [.conn up t] } := by
  rw [feed_eq]; simp only
  rw [pre_quiet q]
  simp [apply!, step, HB.emit]

theorem feed_stop_quiet {h : HB} {t : Nat} (q : Quiet h t) :
    (feed 0 h (.stop t)).tl = .idle ∧ (feed 0 h (.stop t)).hl = .idle ∧ (feed 0 h (.stop t)).now = t ∧
    (feed 0 h (.stop t)).flag = h.flag ∧ (feed 0 h (.stop t)).connected = h.connected ∧
    (feed 0 h (.stop t)).lastArm = h.lastArm ∧
    (feed 0 h (.stop t)).trace = if h.tl = .idle ∧ h.hl = .idle then h.trace else h.trace ++ [.stop t] := by
  rw [feed_eq]; simp only
  rw [pre_quiet q]
  cases htl : h.tl <;> cases hhl : h.hl <;> simp [apply!, step, HB.emit, htl, hhl]

/-- a response is consumed at once: the deadline is re-armed -/
theorem feed_resp_quiet {h : HB} {t d : Nat} (q : Quiet h t) (htl : h.tl = .waiting d) :
    feed 0 h (.resp t) = { h with now := t, tl := .waiting (t + h.timeout), flag := false, lastArm := t,
                                  expiries := h.expiries ++ [t + h.timeout], trace := h.trace ++ [.resp t] } := by
  rw [feed_eq]; simp only
  rw [pre_quiet q]
  simp [apply!, step, HB.emit, htl]

theorem feed_resp_quiet_idle {h : HB} {t : Nat} (q : Quiet h t) (htl : h.tl = .idle) :
    feed 0 h (.resp t) = { h with now := t } := by
  rw [feed_eq]; simp only
  rw [pre_quiet q]
  simp [apply!, step, HB.emit, htl]

theorem pre_idle {h : HB} {t : Nat} (hi : HbIdle h) (hn : h.now ≤ t) : pre h t = { h with now := t } := by
  unfold pre
  rw [settle_idle _ _ _ _ _ hi]
  exact advance_ok hn (fun d e => by rw [hi.1] at e; cases e) (fun u e => by rw [hi.2] at e; cases e)

/-- `start()` on a manager that is not running: both tasks take their first step at once -/
theorem feed_start_idle {h : HB} {t : Nat} (hi : HbIdle h) (hn : h.now ≤ t)
    (hiv : 0 < h.interval) (hto : 0 < h.timeout) :
    feed 0 h (.start t) =
      { h with now := t, tl := .waiting (t + h.timeout), flag := false, lastArm := t, hl := .sleeping (t + h.interval),
               expiries := h.expiries ++ [t + h.timeout],
               trace := if h.connected then h.trace ++ [.start t] ++ [.beat t] else h.trace ++ [.start t] } := by
  rw [feed_eq]; simp only
  rw [pre_idle hi hn]
  have e1 : apply! { h with now := t } .start =
      { h with now := t, tl := .waiting (t + h.timeout), flag := false, lastArm := t, hl := .sleeping t,
               expiries := h.expiries ++ [t + h.timeout], trace := h.trace ++ [.start t] } := by
    simp [apply!, step, HB.emit, enterTimeout, hi.1, hi.2]
  rw [e1, settle_succ _ _ _ _ _ rfl,
    pick_beat (u := t) rfl (Nat.le_refl _) rfl (fun d e => by simp only [TL.waiting.injEq] at e; omega) (by simp)
      (by simp [lim])]
  simp only
  rw [settle_stable _ rfl (pick_none_of (by simp)
    (fun d e => by simp only [TL.waiting.injEq] at e; subst e; simp [lim]; omega)
    (fun u e => by simp only [HL.sleeping.injEq] at e; subst e; simp [lim]; omega))]

/-- `start()` on a running manager does nothing but let what is due at this very instant happen -/
theorem feed_start_running {h : HB} {t : Nat} (q : Quiet h t) (hr : h.tl ≠ .idle) :
    feed 0 h (.start t) = settle 0 8 { h with now := t } t true := by
  rw [feed_eq]; simp only
  rw [pre_quiet q]
  have : apply! { h with now := t } .start = { h with now := t } := by
    cases htl : h.tl <;> cases hhl : h.hl <;> simp_all [apply!, step]
  rw [this]


/-- what an input does to "the manager is running" -/
def idleAfter (i : HIn) (before after : HB) : Prop :=
  match i with
  | .start _ => after.tl ≠ .idle
  | .stop _ => after.tl = .idle
  | _ => (after.tl = .idle ↔ before.tl = .idle)

/-- an input at the manager's own instant keeps it well-formed (no assumption about the fuel: nothing has to be caught up) -/
theorem feed_hq_now {h : HB} (q : HQ h) (i : HIn) (hi : i.time = h.now) :
    HQ (feed 0 h i) ∧ (feed 0 h i).now = h.now ∧ idleAfter i h (feed 0 h i) := by
  have hb := basic_feed q.basic 0 i
  have qq := q.quiet
  cases i with
  | conn up t =>
    simp only [HIn.time] at hi; subst hi
    rw [feed_conn_quiet qq] at hb ⊢
    exact ⟨⟨hb, q.flag, q.notResetting⟩, rfl, Iff.rfl⟩
  | stop t =>
    simp only [HIn.time] at hi; subst hi
    obtain ⟨e1, e2, e3, e4, _⟩ := feed_stop_quiet qq
    exact ⟨⟨hb, by rw [e4]; exact q.flag, by rw [e1]; simp⟩, e3, e1⟩
  | resp t =>
    simp only [HIn.time] at hi; subst hi
    cases htl : h.tl with
    | resetting => exact absurd htl q.notResetting
    | idle =>
      rw [feed_resp_quiet_idle qq htl] at hb ⊢
      exact ⟨⟨hb, q.flag, q.notResetting⟩, rfl, by simp [idleAfter]⟩
    | waiting d =>
      rw [feed_resp_quiet qq htl] at hb ⊢
      exact ⟨⟨hb, rfl, by simp⟩, rfl, by simp [idleAfter, htl]⟩
  | start t =>
    simp only [HIn.time] at hi; subst hi
    by_cases hidle : h.tl = .idle
    · have hid : HbIdle h := ⟨hidle, q.basic.both.1 hidle⟩
      rw [feed_start_idle hid (Nat.le_refl _) (by rw [q.interval]; omega) (by rw [q.timeout]; omega)] at hb ⊢
      exact ⟨⟨hb, rfl, by simp⟩, rfl, by simp [idleAfter]⟩
    · have e : feed 0 h (.start h.now) = settle 0 8 h h.now true := feed_start_running qq hidle
      rw [e] at hb ⊢
      have hp := pot_le q h.now
      obtain ⟨r1, r2, r3, _, _, _, r7⟩ := settle_hq (incl := true) 8 q (Nat.le_refl _) (by omega)
      exact ⟨r1, by omega, fun e => hidle (r7.1 e)⟩
  | resetDone t =>
    simp only [HIn.time] at hi; subst hi
    rw [feed_eq]; simp only
    have e : pre h h.now = h := pre_quiet qq
    rw [e]
    have : apply! h .tlResetDone = h := by
      cases htl : h.tl <;> simp_all [apply!, step]
      exact absurd htl q.notResetting
    rw [this]
    exact ⟨q, rfl, Iff.rfl⟩
  | finish t =>
    simp only [HIn.time] at hi; subst hi
    obtain ⟨r1, r2, _, _, _, r6⟩ := feed_finish_hq q (Nat.le_refl _) (by simp [advBound])
    exact ⟨r1, r2, r6⟩

/-! ### only `stop` ends the two tasks -/

theorem step_idle_back {h g : HB} {l : Label} (hs : step h l = some g) (hl : l ≠ .stop) :
    (g.tl = .idle → h.tl = .idle) ∧ (g.hl = .idle → h.hl = .idle) := by
  cases l <;> simp only [step, HB.emit, enterTimeout] at hs
  all_goals (repeat' split at hs)
  all_goals (first | cases hs | skip)
  all_goals (first | exact absurd rfl hl | simp_all)

theorem apply_idle_back {h : HB} {l : Label} (hl : l ≠ .stop) (hi : HbIdle (apply! h l)) : HbIdle h := by
  unfold apply! at hi
  cases hs : step h l with
  | none => simpa [hs] using hi
  | some g =>
    simp only [hs, Option.getD_some] at hi
    have := step_idle_back hs hl
    exact ⟨this.1 hi.1, this.2 hi.2⟩

theorem pick_idle_back {rt : Nat} {k h' : HB} {t : Nat} {incl : Bool} (hp : pick rt k t incl = some h') (hi : HbIdle h') :
    HbIdle k := by
  have tb : ∀ d, tlBranch k t incl d = some h' → HbIdle k := by
    intro d e
    unfold tlBranch at e
    split at e
    · cases e
      unfold tlAct at hi
      split at hi
      · exact apply_idle_back (by simp) (apply_idle_back (by simp) hi)
      · exact apply_idle_back (by simp) (apply_idle_back (by simp) hi)
    · cases e
  have hb : ∀ u, hlBranch k t incl u = some h' → HbIdle k := by
    intro u e
    unfold hlBranch at e
    split at e
    · cases e
      exact apply_idle_back (by simp) (apply_idle_back (by simp) hi)
    · cases e
  unfold pick at hp
  split at hp
  · split at hp
    · exact tb _ hp
    · exact hb _ hp
  · exact tb _ hp
  · exact hb _ hp
  · cases hp

theorem settle_idle_back (rt t : Nat) (incl : Bool) : ∀ (fuel : Nat) (h : HB), HbIdle (settle rt fuel h t incl) → HbIdle h := by
  intro fuel
  induction fuel with
  | zero => intro h hi; exact hi
  | succ fuel ih =>
    intro h hi
    rw [settle_succ'] at hi
    have k0 : HbIdle (if h.flag then apply! h .tlWake else h) → HbIdle h := by
      split
      · exact apply_idle_back (by simp)
      · exact id
    apply k0
    split at hi
    · rename_i h' hp
      exact pick_idle_back hp (ih h' hi)
    · exact hi

/-- a manager that is running is still running after any input but `stop` -/
theorem feed_idle_back (rt : Nat) (h : HB) (i : HIn) (hi : ∀ t, i ≠ .stop t) (hid : HbIdle (feed rt h i)) : HbIdle h := by
  have p : ∀ t, HbIdle (apply! (settle rt 100000 h t false) (.advance t)) → HbIdle h :=
    fun t e => settle_idle_back rt t false _ h (apply_idle_back (by simp) e)
  unfold feed at hid
  cases i <;> simp only [HIn.time] at hid
  · exact p _ (apply_idle_back (by simp) hid)
  · exact p _ (apply_idle_back (by simp) (settle_idle_back _ _ _ _ _ hid))
  · exact absurd rfl (hi _)
  · exact p _ (apply_idle_back (by simp) (apply_idle_back (by simp) hid))
  · exact p _ (apply_idle_back (by simp) hid)
  · exact p _ (settle_idle_back _ _ _ _ _ hid)


/-! ## 3. the API object -/

def HEv.isReset : HEv → Bool
  | .reset _ => true
  | _ => false

/-- number of `reset` events -/
def resetEvs (evs : List HEv) : Nat := evs.countP HEv.isReset

theorem resetEvs_append (a b : List HEv) : resetEvs (a ++ b) = resetEvs a + resetEvs b := by
  simp [resetEvs, List.countP_append]

theorem count_reset_hbOut (evs : List HEv) : (evs.filterMap hbOut).count .reset = resetEvs evs := by
  induction evs with
  | nil => rfl
  | cons e evs ih =>
    cases e <;> simp [hbOut, resetEvs, List.countP_cons, HEv.isReset, List.filterMap_cons, List.count_cons, hbMessage] at ih ⊢ <;> omega

theorem mem_reset_iff (evs : List HEv) : 0 < resetEvs evs ↔ ∃ r, HEv.reset r ∈ evs := by
  simp only [resetEvs, List.countP_pos_iff]
  constructor
  · rintro ⟨e, he, hr⟩
    cases e <;> simp [HEv.isReset] at hr
    exact ⟨_, he⟩
  · rintro ⟨r, hr⟩
    exact ⟨_, hr, rfl⟩


/-- `hbFeed` clears the trace (and the ghost list of expiries) before it feeds the manager -/
def clr (h : HB) : HB := { h with trace := [], expiries := [] }

theorem HQ.clr {h : HB} (q : HQ h) : HQ (clr h) := q.clear

theorem Quiet.clr {h : HB} {t : Nat} (q : Quiet h t) : Quiet (clr h) t :=
  ⟨q.flag, q.notResetting, q.now_le, q.deadline, q.wake⟩

/-- what one `hbFeed` does to the embedded manager -/
def hbStep (h : HB) (i : HIn) : HB := feed 0 (clr h) i

theorem hbStep_stop_quiet {h : HB} {t : Nat} (q : Quiet h t) :
    (hbStep h (.stop t)).tl = .idle ∧ (hbStep h (.stop t)).hl = .idle ∧ (hbStep h (.stop t)).now = t ∧
    (hbStep h (.stop t)).flag = h.flag ∧ (hbStep h (.stop t)).connected = h.connected ∧
    resetEvs (hbStep h (.stop t)).trace = 0 := by
  obtain ⟨e1, e2, e3, e4, e5, e6, e7⟩ := feed_stop_quiet q.clr
  refine ⟨e1, e2, e3, e4, e5, ?_⟩
  unfold hbStep
  rw [e7]
  split <;> simp [resetEvs, HEv.isReset, clr]

theorem hbStep_conn_quiet {h : HB} {t : Nat} (q : Quiet h t) (up : Bool) :
    hbStep h (.conn up t) = { clr h with now := t, connected := up, trace := [.conn up t] } := by
  unfold hbStep
  rw [feed_conn_quiet q.clr]
  rfl

theorem hbFeed_fst (s : State) (i : HIn) : (hbFeed s i).1 = { s with hb := hbStep s.hb i } := rfl
theorem hbFeed_snd (s : State) (i : HIn) : (hbFeed s i).2 = (hbStep s.hb i).trace.filterMap hbOut := rfl

/-- the heartbeat manager, the clock, the event and the waiting `init()` calls are untouched -/
structure SameHb (s s' : State) : Prop where
  hb : s'.hb = s.hb
  now : s'.now = s.now
  initialised : s'.initialised = s.initialised
  pendingInits : s'.pendingInits = s.pendingInits
  sockSubscribed : s'.sockSubscribed = s.sockSubscribed
  sockOpen : s'.sockOpen = s.sockOpen

theorem SameHb.refl (s : State) : SameHb s s := ⟨rfl, rfl, rfl, rfl, rfl, rfl⟩

theorem sameHb_of_sameCtl {s s' : State} (h : SameCtl s s') : SameHb s s' :=
  ⟨h.hb, h.now, h.initialised, h.pendingInits, h.sockSubscribed, h.sockOpen⟩

theorem sameHb_st {s s' : State} (h : SameHb s s') (st : AirTouchState) (cv : FF30.ConsoleVersionMessage) :
    SameHb s { s' with st := st, consoleVersion := cv } :=
  ⟨h.hb, h.now, h.initialised, h.pendingInits, h.sockSubscribed, h.sockOpen⟩

/-- no `RESULT`, no `HBSTART`, no `RESET`, … -/
theorem sn_ne {o : Out} (h : SendOrNotify o) :
    o ≠ .reset ∧ o ≠ .hbStart ∧ o ≠ .hbStop ∧ ∀ txt, o ≠ .result txt := by
  cases o <;> simp [SendOrNotify, Out.isSend, Out.isNotify] at h <;> simp

theorem sameHb_andThen_send {s : State} {r : HR} (h : SameCtl s r.s) (st : AirTouchState) (m : Msg) :
    SameHb s (r.andThen fun s' => sendMsg { s' with st := st } .connected m).s := by
  rcases andThen_s r (fun s' => sendMsg { s' with st := st } .connected m) with e | ⟨_, e⟩
  · rw [e]; exact sameHb_of_sameCtl h
  · rw [e, sendMsg_s]; exact sameHb_st (sameHb_of_sameCtl h) st _

/-- outside the last handshake state a frame never touches the manager, the event or the waiting `init()` calls -/
theorem handleMessage_sameHb (s : State) (toAddr : Nat) (m : Msg) (hst : s.st ≠ .INIT_ZONE_STATUS) :
    SameHb s (handleMessage s toAddr m).s := by
  unfold handleMessage
  dsimp only
  split
  all_goals (repeat' split)
  all_goals (try simp only [sendMsg_s])
  all_goals first
    | exact SameHb.refl s
    | exact ⟨rfl, rfl, rfl, rfl, rfl, rfl⟩
    | exact sameHb_of_sameCtl (sameCtl_processAcStatus _ _)
    | exact sameHb_of_sameCtl (sameCtl_processAcTimer _ _)
    | exact sameHb_of_sameCtl (sameCtl_processZoneStatus _ _)
    | exact sameHb_of_sameCtl (sameCtl_processErrInfo _ _)
    | exact sameHb_st (sameHb_of_sameCtl (sameCtl_processZoneNames _ _)) _ _
    | exact sameHb_andThen_send (sameCtl_processAcAbility _ _) _ _
    | exact sameHb_andThen_send (sameCtl_processAcStatus _ _) _ _
    | exact sameHb_andThen_send (sameCtl_processAcTimer _ _) _ _
    | (simp_all; done)
    | (unfold processConsoleVersionUpdate; split <;> exact ⟨rfl, rfl, rfl, rfl, rfl, rfl⟩)

/-- a frame either leaves the manager alone and makes the API only send and notify, or it is the answer that completes the
handshake: some entity updates (with their notifications), then `finishInit` -/
theorem handleMessage_cases (s : State) (toAddr : Nat) (m : Msg) :
    (¬ (s.st = .INIT_ZONE_STATUS ∧ answers .INIT_ZONE_STATUS toAddr m = true) ∧
      SameHb s (handleMessage s toAddr m).s ∧ AllOut SendOrNotify (handleMessage s toAddr m) ∧
      ((handleMessage s toAddr m).s.st = s.st ∨ s.st ≠ .CONNECTED ∧ (handleMessage s toAddr m).s.st ≠ .CONNECTED)) ∨
    (s.st = .INIT_ZONE_STATUS ∧ answers .INIT_ZONE_STATUS toAddr m = true ∧ isHeartbeatResponse m = false ∧
      ∃ s1 pre, SameCtl s s1 ∧ (handleMessage s toAddr m).s = (finishInit s1).s ∧
        (handleMessage s toAddr m).out = pre ++ (finishInit s1).out ∧ (handleMessage s toAddr m).exc = none ∧
        ∀ o ∈ pre, o.isNotify = true) := by
  by_cases hfin : s.st = .INIT_ZONE_STATUS ∧ answers .INIT_ZONE_STATUS toAddr m = true
  · right
    obtain ⟨hst, ha⟩ := hfin
    rcases answers_zoneStatus_inv ha with ⟨l, rfl⟩ | ⟨rfl, hc⟩
    · have e : handleMessage s toAddr (.controlStatus (.zoneStatus (.status l))) = (processZoneStatus l s).andThen finishInit := by
        simp [handleMessage, hst]
      have hexc : (processZoneStatus l s).exc = none := by rw [processZoneStatus_eq l s]
      refine ⟨hst, ha, rfl, (processZoneStatus l s).s, (processZoneStatus l s).out, sameCtl_processZoneStatus l s, ?_, ?_, ?_,
        processZoneStatus_notify l s⟩
      · rw [e, andThen_none _ _ hexc]
      · rw [e, andThen_none _ _ hexc]
      · rw [e, andThen_none _ _ hexc]; rfl
    · have e : handleMessage s toAddr (.controlStatus (.zoneStatus .request)) = finishInit s := by
        simp [handleMessage, hst, hc]
      exact ⟨hst, ha, rfl, s, [], SameCtl.refl s, by rw [e], by rw [e]; rfl, by rw [e]; rfl, by simp⟩
  · left
    have hsn : AllOut SendOrNotify (handleMessage s toAddr m) := by
      by_cases ha : answers .INIT_ZONE_STATUS toAddr m = true
      · have hst : s.st ≠ .INIT_ZONE_STATUS := fun e => hfin ⟨e, ha⟩
        rcases answers_zoneStatus_inv ha with ⟨l, rfl⟩ | ⟨rfl, hc⟩
        · unfold handleMessage
          simp only [hst, if_false]
          split
          · exact processZoneStatus_sn _ _
          · exact allOut_nil _ _ _
        · unfold handleMessage
          simp only [hst, and_false, Bool.and_false, if_false]
          simp
          exact allOut_nil _ _ _
      · exact handleMessage_sn s toAddr m (by simpa using ha)
    have hm := handleMessage_mono s toAddr m
    by_cases hst : s.st = .INIT_ZONE_STATUS
    · have ha : answers s.st toAddr m = false := by
        rw [hst]
        cases hx : answers .INIT_ZONE_STATUS toAddr m
        · rfl
        · exact absurd ⟨hst, hx⟩ hfin
      have h1 := (handleMessage_not_answer s toAddr m ha (by rw [hst]; simp)).1
      exact ⟨hfin, sameHb_of_sameCtl h1, hsn, .inl h1.st⟩
    · refine ⟨hfin, handleMessage_sameHb s toAddr m hst, hsn, ?_⟩
      rcases hm.st with h1 | ⟨h1, h2, h3⟩
      · exact .inl h1
      · right
        rw [h1]
        revert hst h3
        cases s.st <;> simp [nextState, rank]


/-! ### ops that do not involve the manager -/

/-- neither the manager nor the clock is involved -/
def Op.isPlain : Op → Bool
  | .init | .undecodable _ | .callAt | .callAc _ _ | .callZone _ _ | .sub _ _ _ | .unsub _ _ | .view => true
  | _ => false

/-- not one of the heartbeat manager's marks -/
def Inert (o : Out) : Prop := o ≠ .reset ∧ o ≠ .hbStart ∧ o ≠ .hbStop

theorem inert_of_sn {o : Out} (h : SendOrNotify o) : Inert o := ⟨(sn_ne h).1, (sn_ne h).2.1, (sn_ne h).2.2.1⟩

theorem callOut_inert (r : HR) (h : ∀ o ∈ r.out, o.isSend = true) : ∀ o ∈ callOut r, Inert o := by
  intro o ho
  simp only [callOut, List.mem_append, List.mem_singleton] at ho
  rcases ho with ho | rfl
  · exact inert_of_sn (.inl (h o ho))
  · exact ⟨by simp, by simp, by simp⟩

theorem subTarget_same (s : State) (t : Target) (f : List Sub → List Sub) :
    SameHb s (subTarget s t f).1 ∧ (subTarget s t f).1.st = s.st := by
  unfold subTarget
  repeat' split
  all_goals exact ⟨⟨rfl, rfl, rfl, rfl, rfl, rfl⟩, rfl⟩

theorem plain_step (s : State) (op : Op) (h : Op.isPlain op = true) :
    (apiStep s op).1.hb = s.hb ∧ (apiStep s op).1.now = s.now ∧ (apiStep s op).1.initialised = s.initialised ∧
    (∀ o ∈ (apiStep s op).2, Inert o) ∧
    (s.initialised = true → (apiStep s op).1.pendingInits = s.pendingInits) ∧
    (op ≠ .init → (apiStep s op).1.st = s.st ∧ (apiStep s op).1.pendingInits = s.pendingInits ∧
      (apiStep s op).1.sockSubscribed = s.sockSubscribed) ∧
    (s.sockSubscribed = true → (apiStep s op).1.sockSubscribed = true) := by
  cases op
  all_goals (try (simp [Op.isPlain] at h; done))
  all_goals dsimp only [apiStep]
  case init =>
    unfold doInit
    simp only
    split
    · rename_i hi
      refine ⟨rfl, rfl, rfl, ?_, fun _ => rfl, fun e => absurd rfl e, fun _ => rfl⟩
      intro o ho; simp at ho; rcases ho with rfl | rfl <;> exact ⟨by simp, by simp, by simp⟩
    · rename_i hi
      refine ⟨rfl, rfl, rfl, ?_, fun e => absurd e hi, fun e => absurd rfl e, fun _ => rfl⟩
      intro o ho; simp at ho; subst ho; exact ⟨by simp, by simp, by simp⟩
  case undecodable c =>
    refine ⟨rfl, rfl, rfl, ?_, fun _ => rfl, fun _ => ⟨rfl, rfl, rfl⟩, fun h => h⟩
    intro o ho; simp at ho; subst ho; exact ⟨by simp, by simp, by simp⟩
  case callAt =>
    rw [sendMsg_s]
    refine ⟨rfl, rfl, rfl, ?_, fun _ => rfl, fun _ => ⟨rfl, rfl, rfl⟩, fun h => h⟩
    apply callOut_inert
    intro o ho
    unfold sendMsg at ho; split at ho <;> simp at ho
    subst ho; rfl
  case callAc id c =>
    split
    · rename_i r a _
      obtain ⟨e1, e2⟩ := acCall_shape s a c
      refine ⟨congrArg State.hb e1, congrArg State.now e1, congrArg State.initialised e1, ?_,
        fun _ => congrArg State.pendingInits e1,
        fun _ => ⟨congrArg State.st e1, congrArg State.pendingInits e1, congrArg State.sockSubscribed e1⟩,
        fun h => (congrArg State.sockSubscribed e1).trans h⟩
      apply callOut_inert
      intro o ho
      rcases e2 with ⟨p, m, b, e3, _⟩ | ⟨e, e3, _⟩ <;> rw [e3] at ho <;> simp at ho
      subst ho; rfl
    · refine ⟨rfl, rfl, rfl, ?_, fun _ => rfl, fun _ => ⟨rfl, rfl, rfl⟩, fun h => h⟩
      intro o ho; simp at ho; subst ho; exact ⟨by simp, by simp, by simp⟩
  case callZone id c =>
    split
    · rename_i r z _
      obtain ⟨e1, e2⟩ := zoneCall_shape s z c
      refine ⟨congrArg State.hb e1, congrArg State.now e1, congrArg State.initialised e1, ?_,
        fun _ => congrArg State.pendingInits e1,
        fun _ => ⟨congrArg State.st e1, congrArg State.pendingInits e1, congrArg State.sockSubscribed e1⟩,
        fun h => (congrArg State.sockSubscribed e1).trans h⟩
      apply callOut_inert
      intro o ho
      rcases e2 with ⟨p, m, b, e3, _⟩ | ⟨e, e3, _⟩ <;> rw [e3] at ho <;> simp at ho
      subst ho; rfl
    · refine ⟨rfl, rfl, rfl, ?_, fun _ => rfl, fun _ => ⟨rfl, rfl, rfl⟩, fun h => h⟩
      intro o ho; simp at ho; subst ho; exact ⟨by simp, by simp, by simp⟩
  case sub t sid r =>
    obtain ⟨e1, e2⟩ := subTarget_same s t (fun l => subAdd l sid)
    refine ⟨e1.hb, e1.now, e1.initialised, ?_, fun _ => e1.pendingInits, fun _ => ⟨e2, e1.pendingInits, e1.sockSubscribed⟩,
      fun h => e1.sockSubscribed.trans h⟩
    intro o ho; rw [subTarget_out _ _ _ o ho]; exact ⟨by simp, by simp, by simp⟩
  case unsub t sid =>
    obtain ⟨e1, e2⟩ := subTarget_same s t (fun l => subDel l sid)
    refine ⟨e1.hb, e1.now, e1.initialised, ?_, fun _ => e1.pendingInits, fun _ => ⟨e2, e1.pendingInits, e1.sockSubscribed⟩,
      fun h => e1.sockSubscribed.trans h⟩
    intro o ho; rw [subTarget_out _ _ _ o ho]; exact ⟨by simp, by simp, by simp⟩
  case view =>
    split
    all_goals refine ⟨rfl, rfl, rfl, ?_, fun _ => rfl, fun _ => ⟨rfl, rfl, rfl⟩, fun h => h⟩
    all_goals (intro o ho; simp at ho; subst ho; exact ⟨by simp, by simp, by simp⟩)


/-! ### the frame op in normal form -/

theorem finishInit_hbStep (s : State) :
    finishInit s = { s := { s with st := .CONNECTED, hb := hbStep s.hb (.start s.now), initialised := true, pendingInits := [] },
                     out := [.hbStart] ++ s.pendingInits.map (fun _ => Out.result "init True") ++
                       (hbStep s.hb (.start s.now)).trace.filterMap hbOut,
                     exc := none } := by
  simp only [finishInit, hbFeed, setInitialised, hbStep, clr]

theorem doMsg_spec (s : State) (toAddr : Nat) (m : Msg) :
    (s.sockSubscribed = false ∧ doMsg s toAddr m = (s, [])) ∨
    (s.sockSubscribed = true ∧ ¬ (s.st = .INIT_ZONE_STATUS ∧ answers .INIT_ZONE_STATUS toAddr m = true) ∧
      SameHb s (handleMessage s toAddr m).s ∧ AllOut SendOrNotify (handleMessage s toAddr m) ∧
      ((handleMessage s toAddr m).s.st = s.st ∨ s.st ≠ .CONNECTED ∧ (handleMessage s toAddr m).s.st ≠ .CONNECTED) ∧
      ((isHeartbeatResponse m = false ∧
          doMsg s toAddr m = ((handleMessage s toAddr m).s, excOut (handleMessage s toAddr m))) ∨
       (isHeartbeatResponse m = true ∧ doMsg s toAddr m =
          ({ (handleMessage s toAddr m).s with hb := hbStep s.hb (.resp s.now) },
           excOut (handleMessage s toAddr m) ++ (hbStep s.hb (.resp s.now)).trace.filterMap hbOut)))) ∨
    (s.sockSubscribed = true ∧ s.st = .INIT_ZONE_STATUS ∧ answers .INIT_ZONE_STATUS toAddr m = true ∧
      isHeartbeatResponse m = false ∧
      ∃ s1 pre, SameCtl s s1 ∧ (∀ o ∈ pre, o.isNotify = true) ∧
        doMsg s toAddr m =
          ({ s1 with st := .CONNECTED, hb := hbStep s.hb (.start s.now), initialised := true, pendingInits := [] },
           pre ++ [.hbStart] ++ s.pendingInits.map (fun _ => Out.result "init True") ++
             (hbStep s.hb (.start s.now)).trace.filterMap hbOut)) := by
  by_cases hsub : s.sockSubscribed = true
  · right
    rcases handleMessage_cases s toAddr m with ⟨h0, h1, h2, h3⟩ | ⟨hst, ha, hr, s1, pre, c1, c2, c3, c4, c5⟩
    · left
      refine ⟨hsub, h0, h1, h2, h3, ?_⟩
      cases hr : isHeartbeatResponse m
      · exact .inl ⟨rfl, doMsg_nonHb s toAddr m hsub hr⟩
      · right
        refine ⟨rfl, ?_⟩
        unfold doMsg
        rw [if_pos hsub]
        simp only [hr, if_true, hbFeed, hbStep, clr, h1.hb, h1.now]
    · right
      refine ⟨hsub, hst, ha, hr, s1, pre, c1, c5, ?_⟩
      rw [doMsg_nonHb s toAddr m hsub hr]
      have e2 : excOut (handleMessage s toAddr m) = (handleMessage s toAddr m).out := by
        simp [excOut, c4]
      rw [e2, c2, c3, finishInit_hbStep, c1.hb, c1.now, c1.pendingInits]
      simp only [List.append_assoc]
  · left
    have hsub' : s.sockSubscribed = false := by simpa using hsub
    exact ⟨hsub', by simp [doMsg, hsub']⟩


/-! ### connection changes, shutdown, time -/

theorem handleConnection_shape (s : State) (up : Bool) :
    ∃ st', (handleConnection s up).s = { s with st := st' } ∧ (st' = s.st ∨ st' = .INIT_VERSION ∧ s.st = .CONNECTING) ∧
      ∀ o ∈ (handleConnection s up).out, o.isSend = true := by
  have hsend : ∀ (s' : State) (m : Msg), ∀ o ∈ (sendMsg s' .connected m).out, o.isSend = true := by
    intro s' m o ho
    unfold sendMsg at ho; split at ho <;> simp at ho
    subst ho; rfl
  unfold handleConnection
  split
  · rename_i hc
    simp only [Bool.and_eq_true, decide_eq_true_eq] at hc
    exact ⟨.INIT_VERSION, by rw [sendMsg_s], .inr ⟨rfl, hc.2⟩, hsend _ _⟩
  · split
    · refine ⟨s.st, ?_, .inl rfl, ?_⟩
      · rcases andThen_s (sendMsg s .connected msgAcStatusRequest) (fun s => sendMsg s .connected msgZoneStatusRequest) with e | ⟨_, e⟩
        · rw [e, sendMsg_s]
        · rw [e, sendMsg_s, sendMsg_s]
      · have : AllOut (fun o => o.isSend = true)
            ((sendMsg s .connected msgAcStatusRequest).andThen fun s => sendMsg s .connected msgZoneStatusRequest) :=
          allOut_andThen (hsend _ _) (fun s' => hsend s' _)
        exact this
    · exact ⟨s.st, rfl, .inl rfl, by simp⟩

/-- not one of the heartbeat manager's marks, and no `RESULT` -/
def Quiet' (o : Out) : Prop := Inert o ∧ ∀ txt, o ≠ .result txt

theorem excOut_quiet (r : HR) (h : AllOut SendOrNotify r) : ∀ o ∈ excOut r, Quiet' o := by
  intro o ho
  simp only [excOut, List.mem_append] at ho
  rcases ho with ho | ho
  · exact ⟨inert_of_sn (h o ho), (sn_ne (h o ho)).2.2.2⟩
  · split at ho <;> simp at ho
    subst ho; exact ⟨⟨by simp, by simp, by simp⟩, by simp⟩

theorem doConn_spec (s : State) (up : Bool) :
    ∃ st', (doConn s up).1 = { s with hb := hbStep s.hb (.conn up s.now), st := st' } ∧
      (st' = s.st ∨ st' = .INIT_VERSION ∧ s.st = .CONNECTING) ∧ ∀ o ∈ (doConn s up).2, Quiet' o := by
  have e : doConn s up = if s.sockSubscribed = true then
      ((handleConnection { s with hb := hbStep s.hb (.conn up s.now) } up).s,
        excOut (handleConnection { s with hb := hbStep s.hb (.conn up s.now) } up))
      else ({ s with hb := hbStep s.hb (.conn up s.now) }, []) := by
    simp only [doConn, hbFeed_fst]
    rfl
  rw [e]
  by_cases hsub : s.sockSubscribed = true
  · rw [if_pos hsub]
    obtain ⟨st', e1, e2, e3⟩ := handleConnection_shape { s with hb := hbStep s.hb (.conn up s.now) } up
    exact ⟨st', e1, e2, excOut_quiet _ (fun o ho => .inl (e3 o ho))⟩
  · rw [if_neg hsub]
    exact ⟨s.st, rfl, .inl rfl, by simp⟩

theorem doShutdown_feeds (s : State) :
    doShutdown s =
      ({ s with hb := hbStep (hbStep s.hb (.stop s.now)) (.conn false s.now), st := .CLOSED, initialised := false,
                sockOpen := false, zobjs := [], aobjs := [], zones := [], acs := [] },
       [.hbStop, .closed, .result "shutdown OK"]) := by
  simp only [doShutdown, hbFeed, hbStep, clr]

/-- a sequence of inputs to the embedded manager: the final manager and everything it recorded on the way -/
def hbSteps (h : HB) : List HIn → HB × List HEv
  | [] => (h, [])
  | i :: is => ((hbSteps (hbStep h i) is).1, (hbStep h i).trace ++ (hbSteps (hbStep h i) is).2)

theorem hbSteps_append (h : HB) (a b : List HIn) :
    hbSteps h (a ++ b) = ((hbSteps (hbSteps h a).1 b).1, (hbSteps h a).2 ++ (hbSteps (hbSteps h a).1 b).2) := by
  induction a generalizing h with
  | nil => simp [hbSteps]
  | cons i is ih => simp [hbSteps, ih]

theorem doAdv_fold (due : List Nat) (acc : State × List Out) :
    let res := due.foldl (fun (acc : State × List Out) d =>
      ((hbFeed acc.1 (.finish d)).1, acc.2 ++ (hbFeed acc.1 (.finish d)).2 ++ [Out.result "init False"])) acc
    res.1 = { acc.1 with hb := (hbSteps acc.1.hb (due.map .finish)).1 } ∧
    res.2.count .reset = acc.2.count .reset + resetEvs (hbSteps acc.1.hb (due.map .finish)).2 := by
  induction due generalizing acc with
  | nil => simp [hbSteps, resetEvs]
  | cons d due ih =>
    obtain ⟨h1, h2⟩ := ih ((hbFeed acc.1 (.finish d)).1, acc.2 ++ (hbFeed acc.1 (.finish d)).2 ++ [Out.result "init False"])
    simp only [List.foldl_cons, List.map_cons, hbSteps]
    refine ⟨?_, ?_⟩
    · rw [h1]; simp only [hbFeed_fst]
    · rw [h2]
      simp only [hbFeed_fst, hbFeed_snd, List.count_append, count_reset_hbOut, resetEvs_append]
      simp [List.count_cons]
      omega

/-- `adv n` in normal form: the manager is fed the due `init()` deadlines and the target time; the `RESET`s in the output
are the `reset` events it recorded -/
theorem doAdv_spec (s : State) (n : Nat) :
    (doAdv s n).1 = { s with hb := (hbSteps s.hb ((s.pendingInits.filter (· ≤ s.now + n)).map .finish ++ [.finish (s.now + n)])).1,
                             now := s.now + n, pendingInits := s.pendingInits.filter (s.now + n < ·) } ∧
    (doAdv s n).2.count .reset =
      resetEvs (hbSteps s.hb ((s.pendingInits.filter (· ≤ s.now + n)).map .finish ++ [.finish (s.now + n)])).2 := by
  obtain ⟨h1, h2⟩ := doAdv_fold (s.pendingInits.filter (· ≤ s.now + n)) (s, [])
  simp only at h1 h2
  unfold doAdv
  simp only [hbSteps_append, hbSteps]
  refine ⟨?_, ?_⟩
  · rw [hbFeed_fst, h1]
  · rw [List.count_append, h2, hbFeed_snd, count_reset_hbOut, h1, resetEvs_append, resetEvs_append]
    simp [resetEvs]


/-! ### every op as a sequence of inputs to the manager -/

/-- the inputs an op feeds to the embedded manager, in order -/
def feedsOf (s : State) : Op → List HIn
  | .shutdown => [.stop s.now, .conn false s.now]
  | .conn up => [.conn up s.now]
  | .msg toAddr m =>
    if s.sockSubscribed then
      (if s.st = .INIT_ZONE_STATUS ∧ answers .INIT_ZONE_STATUS toAddr m = true then [.start s.now] else []) ++
      (if isHeartbeatResponse m then [.resp s.now] else [])
    else []
  | .adv n => (s.pendingInits.filter (· ≤ s.now + n)).map .finish ++ [.finish (s.now + n)]
  | _ => []

/-- ops whose code discards what the manager did while it was fed (`shutdown()`, a connection change) -/
def Op.hidesHb : Op → Bool
  | .shutdown | .conn _ => true
  | _ => false

theorem count_reset_zero {l : List Out} (h : ∀ o ∈ l, o ≠ .reset) : l.count .reset = 0 := by
  rw [List.count_eq_zero]
  intro hm
  exact h _ hm rfl

/-- the manager after an op is the manager fed the inputs `feedsOf`; the `RESET`s the op outputs are the `reset` events
recorded on the way, unless the op discards them -/
theorem apiStep_feeds (s : State) (op : Op) :
    (apiStep s op).1.hb = (hbSteps s.hb (feedsOf s op)).1 ∧
    (apiStep s op).2.count .reset = if Op.hidesHb op then 0 else resetEvs (hbSteps s.hb (feedsOf s op)).2 := by
  by_cases hp : Op.isPlain op = true
  · obtain ⟨h1, _, _, h4, _⟩ := plain_step s op hp
    have hf : feedsOf s op = [] := by cases op <;> simp [Op.isPlain] at hp <;> rfl
    have hh : Op.hidesHb op = false := by cases op <;> simp [Op.isPlain] at hp <;> rfl
    rw [hf, hh, h1]
    exact ⟨rfl, by rw [count_reset_zero (fun o ho => (h4 o ho).1)]; rfl⟩
  · cases op
    all_goals (try (exfalso; exact hp rfl))
    case shutdown =>
      simp only [apiStep, doShutdown_feeds, feedsOf, hbSteps, Op.hidesHb, if_true]
      exact ⟨trivial, by decide⟩
    case conn up =>
      obtain ⟨st', e1, _, e3⟩ := doConn_spec s up
      simp only [apiStep, feedsOf, hbSteps, Op.hidesHb, if_true]
      rw [e1]
      exact ⟨rfl, count_reset_zero (fun o ho => (e3 o ho).1.1)⟩
    case msg toAddr m =>
      simp only [apiStep, Op.hidesHb, Bool.false_eq_true, if_false]
      rcases doMsg_spec s toAddr m with ⟨hsub, e⟩ | ⟨hsub, hn, h1, h2, h3, h4⟩ | ⟨hsub, hst, ha, hr, s1, pre, c1, c2, e⟩
      · rw [e]
        simp [feedsOf, hsub, hbSteps, resetEvs]
      · have hq := excOut_quiet _ h2
        rcases h4 with ⟨hr, e⟩ | ⟨hr, e⟩
        · rw [e]
          simp only [feedsOf, hsub, hn, hr, if_true, if_false, Bool.false_eq_true, List.append_nil, hbSteps]
          exact ⟨h1.hb, by rw [count_reset_zero (fun o ho => (hq o ho).1.1)]; rfl⟩
        · rw [e]
          simp only [feedsOf, hsub, hn, hr, if_true, if_false, List.nil_append, hbSteps]
          refine ⟨trivial, ?_⟩
          rw [List.count_append, count_reset_zero (fun o ho => (hq o ho).1.1), count_reset_hbOut]
          simp
      · rw [e]
        simp only [feedsOf, hsub, hst, ha, hr, if_true, and_self, Bool.false_eq_true, if_false, List.append_nil, hbSteps]
        refine ⟨trivial, ?_⟩
        rw [List.count_append, List.count_append, List.count_append, count_reset_hbOut,
          count_reset_zero (l := pre) (fun o ho hr => by subst hr; simpa [Out.isNotify] using c2 _ ho),
          count_reset_zero (l := s.pendingInits.map _) (fun o ho hr => by subst hr; simp at ho)]
        simp
    case adv n =>
      obtain ⟨e1, e2⟩ := doAdv_spec s n
      simp only [apiStep, Op.hidesHb, Bool.false_eq_true, if_false, feedsOf]
      rw [e1, e2]
      exact ⟨rfl, rfl⟩


/-! ### the ghost manager: the same inputs, the trace never cleared -/

theorem hbStep_track {g h : HB} (e : HbEquiv g h) (i : HIn) :
    (∃ ls, run g ls = some (feed 0 g i)) ∧ HbEquiv (feed 0 g i) (hbStep h i) ∧
      (feed 0 g i).trace = g.trace ++ (hbStep h i).trace := by
  have e' : HbEquiv g (clr h) := e.trans (HbEquiv.ghost h h.lastArm [] [])
  obtain ⟨q, evs, t1, t2⟩ := HbSim.feed 0 e' i
  refine ⟨feed_run 0 g i, q, ?_⟩
  have t2' : (feed 0 (clr h) i).trace = evs := by rw [t2]; rfl
  rw [t1]
  unfold hbStep
  rw [t2']

/-- one `hbFeed` of the API, followed by a ghost `g` that keeps the whole trace: a run of the heartbeat model, the same
visible state afterwards, and the API outputs exactly what the ghost recorded meanwhile -/
theorem hbFeed_track {g : HB} {s : State} (e : HbEquiv g s.hb) (i : HIn) :
    ∃ ls g', run g ls = some g' ∧ HbEquiv g' (hbFeed s i).1.hb ∧ (hbFeed s i).2 = (newEvents g g').filterMap hbOut := by
  obtain ⟨⟨ls, r⟩, e', t⟩ := hbStep_track e i
  refine ⟨ls, _, r, e', ?_⟩
  rw [hbFeed_snd]
  simp [newEvents, t]

theorem hbSteps_track {g h : HB} (e : HbEquiv g h) (ins : List HIn) :
    ∃ ls g', run g ls = some g' ∧ HbEquiv g' (hbSteps h ins).1 ∧ g'.trace = g.trace ++ (hbSteps h ins).2 := by
  induction ins generalizing g h with
  | nil => exact ⟨[], g, rfl, e, by simp [hbSteps]⟩
  | cons i is ih =>
    obtain ⟨⟨l1, r1⟩, e1, t1⟩ := hbStep_track e i
    obtain ⟨l2, g2, r2, e2, t2⟩ := ih e1
    exact ⟨l1 ++ l2, g2, run_trans r1 r2, e2, by rw [t2, t1]; simp [hbSteps]⟩

theorem newEvents_append (g g' : HB) (evs : List HEv) (h : g'.trace = g.trace ++ evs) : newEvents g g' = evs := by
  simp [newEvents, h]

/-- nothing that the embedded manager of `s` has pending is due before the API's clock: what `shutdown()` and a connection
change feed it then makes it record no `reset` -/
theorem hidden_no_reset {s : State} (q : Quiet s.hb s.now) (op : Op) (hh : Op.hidesHb op = true) :
    resetEvs (hbSteps s.hb (feedsOf s op)).2 = 0 := by
  cases op <;> simp only [Op.hidesHb, Bool.false_eq_true] at hh
  case shutdown =>
    simp only [feedsOf, hbSteps, List.append_nil]
    obtain ⟨e1, e2, e3, e4, e5, e6⟩ := hbStep_stop_quiet q
    have q2 : Quiet (hbStep s.hb (.stop s.now)) s.now :=
      ⟨by rw [e4]; exact q.flag, by rw [e1]; simp, by rw [e3]; exact Nat.le_refl _,
       fun d e => (by rw [e1] at e; cases e), fun u e => (by rw [e2] at e; cases e)⟩
    rw [resetEvs_append, e6, hbStep_conn_quiet q2]
    simp [resetEvs, HEv.isReset]
  case conn up =>
    simp only [feedsOf, hbSteps, List.append_nil]
    rw [hbStep_conn_quiet q]
    simp [resetEvs, HEv.isReset]

/-- **the bridge, one op**: a ghost manager `g` that is equivalent to the embedded one (same visible state, any trace) can
follow the op by a run of the heartbeat model; it stays equivalent, and it records as many new `reset` events as the op
outputs `RESET`s.  The hypothesis `Quiet` (nothing pending is overdue - part of the invariant `HbOk`) is needed for
`shutdown` and `conn` only, whose code discards what the manager reports -/
theorem apiStep_track_count {g : HB} {s : State} (e : HbEquiv g s.hb) (q : Quiet s.hb s.now) (op : Op) :
    ∃ ls g', run g ls = some g' ∧ HbEquiv g' (apiStep s op).1.hb ∧
      ∃ evs, g'.trace = g.trace ++ evs ∧ (apiStep s op).2.count .reset = resetEvs evs := by
  obtain ⟨f1, f2⟩ := apiStep_feeds s op
  obtain ⟨ls, g', r, e', t⟩ := hbSteps_track e (feedsOf s op)
  refine ⟨ls, g', r, by rw [f1]; exact e', _, t, ?_⟩
  rw [f2]
  split
  · rename_i hh; exact (hidden_no_reset q op hh).symm
  · rfl

theorem count_pos_iff_mem {l : List Out} : 0 < l.count .reset ↔ Out.reset ∈ l := List.count_pos_iff

theorem apiStep_track {g : HB} {s : State} (e : HbEquiv g s.hb) (q : Quiet s.hb s.now) (op : Op) :
    ∃ ls g', run g ls = some g' ∧ HbEquiv g' (apiStep s op).1.hb ∧
      (Out.reset ∈ (apiStep s op).2 ↔ ∃ r, HEv.reset r ∈ newEvents g g') := by
  obtain ⟨ls, g', r, e', evs, t, c⟩ := apiStep_track_count e q op
  refine ⟨ls, g', r, e', ?_⟩
  rw [newEvents_append g g' evs t, ← mem_reset_iff, ← c, count_pos_iff_mem]

/-- the bridge without any hypothesis: the ghost follows (equivalence only; every `RESET` that is output is a recorded
`reset`, but `shutdown` / `conn` on a manager with overdue timers may hide some) -/
theorem apiStep_track_any {g : HB} {s : State} (e : HbEquiv g s.hb) (op : Op) :
    ∃ ls g', run g ls = some g' ∧ HbEquiv g' (apiStep s op).1.hb ∧
      ∃ evs, g'.trace = g.trace ++ evs ∧ (apiStep s op).2.count .reset ≤ resetEvs evs := by
  obtain ⟨f1, f2⟩ := apiStep_feeds s op
  obtain ⟨ls, g', r, e', t⟩ := hbSteps_track e (feedsOf s op)
  refine ⟨ls, g', r, by rw [f1]; exact e', _, t, ?_⟩
  rw [f2]
  split
  · exact Nat.zero_le _
  · exact Nat.le_refl _


/-! ### the invariant of the API object -/

theorem hbStep_hq_now {h : HB} (q : HQ h) (i : HIn) (hi : i.time = h.now) :
    HQ (hbStep h i) ∧ (hbStep h i).now = h.now ∧ idleAfter i h (hbStep h i) :=
  feed_hq_now q.clr i hi

theorem hbStep_finish {h : HB} {t : Nat} (q : HQ h) (hb : t - h.now ≤ advBound) :
    HQ (hbStep h (.finish t)) ∧ (hbStep h (.finish t)).now = max h.now t ∧
    ((hbStep h (.finish t)).tl = .idle ↔ h.tl = .idle) ∧
    (h.now ≤ t → (∀ d, (hbStep h (.finish t)).tl = .waiting d → t < d) ∧ (∀ u, (hbStep h (.finish t)).hl = .sleeping u → t < u)) := by
  by_cases hle : h.now ≤ t
  · obtain ⟨r1, r2, r3, r4, r5, r6⟩ := feed_finish_hq q.clr (t := t) hle hb
    exact ⟨r1, by rw [Nat.max_eq_right hle]; exact r2, r6, fun _ => ⟨r3, r4⟩⟩
  · have hlt : t < h.now := by omega
    have e : hbStep h (.finish t) = clr h := feed_finish_past q.clr hlt
    rw [e]
    exact ⟨q.clr, by rw [Nat.max_eq_left (by omega)]; rfl, Iff.rfl, fun h => absurd h hle⟩

theorem hbSteps_finish {h : HB} {T : Nat} (ds : List Nat) (q : HQ h) (hle : h.now ≤ T) (hds : ∀ d ∈ ds, d ≤ T)
    (hb : T - h.now ≤ advBound) :
    HQ (hbSteps h (ds.map .finish)).1 ∧ h.now ≤ (hbSteps h (ds.map .finish)).1.now ∧
    (hbSteps h (ds.map .finish)).1.now ≤ T ∧ ((hbSteps h (ds.map .finish)).1.tl = .idle ↔ h.tl = .idle) := by
  induction ds generalizing h with
  | nil => exact ⟨q, Nat.le_refl _, hle, Iff.rfl⟩
  | cons d ds ih =>
    have hd := hds d (by simp)
    obtain ⟨r1, r2, r3, _⟩ := hbStep_finish (t := d) q (by omega)
    have hmax : max h.now d ≤ T := Nat.max_le.2 ⟨hle, hd⟩
    have hge : h.now ≤ max h.now d := Nat.le_max_left _ _
    obtain ⟨g1, g2, g3, g4⟩ := ih r1 (by rw [r2]; exact hmax) (fun x hx => hds x (by simp [hx])) (by rw [r2]; omega)
    simp only [List.map_cons, hbSteps]
    exact ⟨g1, by rw [r2] at g2; omega, g3, g4.trans r3⟩

/-- **the invariant**: the embedded manager is well-formed (`HQ`: the timing invariant `Basic 2400 2640` - parameters
constant, `now ≤ deadline = lastArm + 2640`, `now ≤ wake ≤ now + 2400`, both tasks exist together - plus the event
consumed and no reset in progress), its clock is the API's clock, it runs exactly while the API is initialised, and then
no `init()` is waiting -/
structure HbOk (s : State) : Prop where
  hq : HQ s.hb
  now_eq : s.hb.now = s.now
  running : s.initialised = true ↔ s.hb.tl ≠ .idle
  pending : s.initialised = true → s.pendingInits = []
  subscribed : s.initialised = true → s.sockSubscribed = true

theorem HbOk.quiet {s : State} (h : HbOk s) : Quiet s.hb s.now := by
  have := h.hq.quiet
  rw [h.now_eq] at this
  exact this

theorem hbOk_new (a b c d : Bytes) : HbOk (State.new a b c d) :=
  ⟨hq_init, rfl, by simp [State.new, Heartbeat.init], by simp [State.new], by simp [State.new]⟩

/-- every op preserves the invariant; for `adv n` the fuel of the scheduler is known to suffice when `n ≤ advBound`
(6·10⁷ ticks) -/
theorem hbOk_step (s : State) (op : Op) (h : HbOk s) (hn : ∀ n, op = .adv n → n ≤ advBound) : HbOk (apiStep s op).1 := by
  obtain ⟨q, hnow, hrun, hpend, hsubs⟩ := h
  by_cases hp : Op.isPlain op = true
  · obtain ⟨h1, h2, h3, _, h5, _, h7⟩ := plain_step s op hp
    exact ⟨by rw [h1]; exact q, by rw [h1, h2]; exact hnow, by rw [h1, h3]; exact hrun,
      fun e => by rw [h3] at e; rw [h5 e]; exact hpend e, fun e => by rw [h3] at e; exact h7 (hsubs e)⟩
  · cases op
    all_goals (try (exfalso; exact hp rfl))
    case shutdown =>
      simp only [apiStep, doShutdown_feeds]
      obtain ⟨a1, a2, a3⟩ := hbStep_hq_now q (.stop s.now) hnow.symm
      obtain ⟨b1, b2, b3⟩ := hbStep_hq_now a1 (.conn false s.now) (by rw [a2]; exact hnow.symm)
      refine ⟨b1, by rw [b2, a2]; exact hnow, ?_, fun e => (by cases e), fun e => (by cases e)⟩
      simp only [idleAfter] at a3 b3
      constructor
      · intro e; cases e
      · intro e; exact absurd (b3.2 a3) e
    case conn up =>
      obtain ⟨st', e1, _, _⟩ := doConn_spec s up
      simp only [apiStep]
      rw [e1]
      obtain ⟨a1, a2, a3⟩ := hbStep_hq_now q (.conn up s.now) hnow.symm
      simp only [idleAfter] at a3
      exact ⟨a1, a2.trans hnow, hrun.trans (not_congr a3.symm), hpend, hsubs⟩
    case msg toAddr m =>
      simp only [apiStep]
      rcases doMsg_spec s toAddr m with ⟨hsub, e⟩ | ⟨hsub, hn, h1, h2, h3, h4⟩ | ⟨hsub, hst, ha, hr, s1, pre, c1, c2, e⟩
      · rw [e]; exact ⟨q, hnow, hrun, hpend, hsubs⟩
      · rcases h4 with ⟨hr, e⟩ | ⟨hr, e⟩
        · rw [e]
          exact ⟨by rw [h1.hb]; exact q, by rw [h1.hb, h1.now]; exact hnow, by rw [h1.hb, h1.initialised]; exact hrun,
            by rw [h1.initialised, h1.pendingInits]; exact hpend, by rw [h1.initialised, h1.sockSubscribed]; exact hsubs⟩
        · rw [e]
          obtain ⟨a1, a2, a3⟩ := hbStep_hq_now q (.resp s.now) hnow.symm
          simp only [idleAfter] at a3
          have i1 : (handleMessage s toAddr m).s.initialised = true ↔ s.initialised = true := by rw [h1.initialised]
          exact ⟨a1, a2.trans (hnow.trans h1.now.symm), (i1.trans hrun).trans (not_congr a3.symm),
            fun e => h1.pendingInits.trans (hpend (i1.1 e)), fun e => h1.sockSubscribed.trans (hsubs (i1.1 e))⟩
      · rw [e]
        obtain ⟨a1, a2, a3⟩ := hbStep_hq_now q (.start s.now) hnow.symm
        simp only [idleAfter] at a3
        exact ⟨a1, a2.trans (hnow.trans c1.now.symm), ⟨fun _ => a3, fun _ => rfl⟩, fun _ => rfl, fun _ => c1.sockSubscribed.trans hsub⟩
    case adv n =>
      obtain ⟨e1, _⟩ := doAdv_spec s n
      simp only [apiStep]
      rw [e1]
      have hb := hn n rfl
      simp only [hbSteps_append, hbSteps]
      obtain ⟨g1, g2, g3, g4⟩ := hbSteps_finish (T := s.now + n) (s.pendingInits.filter (· ≤ s.now + n)) q (by omega)
        (fun d hd => by simpa using (List.mem_filter.1 hd).2) (by omega)
      obtain ⟨r1, r2, r3, _⟩ := hbStep_finish (t := s.now + n) g1 (by omega)
      refine ⟨r1, r2.trans (Nat.max_eq_right g3), hrun.trans (not_congr (r3.trans g4).symm), ?_, hsubs⟩
      intro e
      show s.pendingInits.filter _ = []
      rw [hpend e]; rfl


/-- no single `adv` of the list exceeds `advBound` ticks -/
def AdvBounded (ops : List Op) : Prop := ∀ o ∈ ops, ∀ n, o = Op.adv n → n ≤ advBound

theorem hbOk_run (s : State) (ops : List Op) (h : HbOk s) (hb : AdvBounded ops) : HbOk (runS s ops) := by
  induction ops generalizing s with
  | nil => exact h
  | cons o ops ih =>
    rw [runS_cons]
    exact ih _ (hbOk_step s o h (fun n e => hb o (by simp) n e)) (fun o' ho' => hb o' (by simp [ho']))

/-- **the bridge, op lists**: the ghost follows a whole op list; the `RESET`s output are the `reset` events recorded -/
theorem run_track_count {g : HB} {s : State} (e : HbEquiv g s.hb) (h : HbOk s) (ops : List Op) (hb : AdvBounded ops) :
    ∃ ls g', run g ls = some g' ∧ HbEquiv g' (runS s ops).hb ∧
      ∃ evs, g'.trace = g.trace ++ evs ∧ (runOut s ops).count .reset = resetEvs evs := by
  induction ops generalizing s g with
  | nil => exact ⟨[], g, rfl, e, [], by simp, by simp [resetEvs]⟩
  | cons o ops ih =>
    obtain ⟨l1, g1, r1, e1, evs1, t1, c1⟩ := apiStep_track_count e h.quiet o
    obtain ⟨l2, g2, r2, e2, evs2, t2, c2⟩ := ih e1 (hbOk_step s o h (fun n e => hb o (by simp) n e))
      (fun o' ho' => hb o' (by simp [ho']))
    refine ⟨l1 ++ l2, g2, run_trans r1 r2, by rw [runS_cons]; exact e2, evs1 ++ evs2, by rw [t2, t1, List.append_assoc], ?_⟩
    rw [runOut_cons, List.count_append, c1, c2, resetEvs_append]

/-- … without the bound on `adv` (the fuel may run out: `RESET`s may then be hidden by a later `shutdown` / `conn`) -/
theorem run_track_any {g : HB} {s : State} (e : HbEquiv g s.hb) (ops : List Op) :
    ∃ ls g', run g ls = some g' ∧ HbEquiv g' (runS s ops).hb ∧
      ∃ evs, g'.trace = g.trace ++ evs ∧ (runOut s ops).count .reset ≤ resetEvs evs := by
  induction ops generalizing s g with
  | nil => exact ⟨[], g, rfl, e, [], by simp, by simp [resetEvs]⟩
  | cons o ops ih =>
    obtain ⟨l1, g1, r1, e1, evs1, t1, c1⟩ := apiStep_track_any e o
    obtain ⟨l2, g2, r2, e2, evs2, t2, c2⟩ := ih e1
    refine ⟨l1 ++ l2, g2, run_trans r1 r2, by rw [runS_cons]; exact e2, evs1 ++ evs2, by rw [t2, t1, List.append_assoc], ?_⟩
    rw [runOut_cons, List.count_append, resetEvs_append]
    omega

/-- from a fresh API object: a reachable state of the heartbeat model shadows the embedded manager -/
theorem new_track (a b c d : Bytes) (ops : List Op) (hb : AdvBounded ops) :
    ∃ g, Reachable 2400 2640 g ∧ HbEquiv g (runS (State.new a b c d) ops).hb ∧
      (runOut (State.new a b c d) ops).count .reset = resetEvs g.trace := by
  obtain ⟨ls, g', r, e, evs, t, c⟩ := run_track_count (g := Heartbeat.init 2400 2640) (s := State.new a b c d)
    (HbEquiv.refl _) (hbOk_new a b c d) ops hb
  refine ⟨g', ⟨ls, r⟩, e, ?_⟩
  rw [c, t]; simp [Heartbeat.init]

theorem new_track_any (a b c d : Bytes) (ops : List Op) :
    ∃ g, Reachable 2400 2640 g ∧ HbEquiv g (runS (State.new a b c d) ops).hb ∧
      (runOut (State.new a b c d) ops).count .reset ≤ resetEvs g.trace := by
  obtain ⟨ls, g', r, e, evs, t, c⟩ := run_track_any (g := Heartbeat.init 2400 2640) (s := State.new a b c d)
    (HbEquiv.refl _) ops
  refine ⟨g', ⟨ls, r⟩, e, ?_⟩
  rw [t]; simpa [Heartbeat.init] using c


/-! ## 4. started when the handshake completes, stopped by `shutdown()` only -/

/-- the op is the frame that completes the handshake: the API listens to the socket, waits for the zone status, and the
frame is an answer to that request -/
def Finishing (s : State) (op : Op) : Prop :=
  ∃ toAddr m, op = .msg toAddr m ∧ s.sockSubscribed = true ∧ s.st = .INIT_ZONE_STATUS ∧
    answers .INIT_ZONE_STATUS toAddr m = true

/-- every output of every op: an ordinary one (not a mark of the heartbeat manager; no `RESULT` at all if the op is a
frame), a `RESET`, or one of `HBSTART` / `RESULT init True` (completing frame only), `HBSTOP` (`shutdown` only) -/
theorem apiStep_out (s : State) (op : Op) : ∀ o ∈ (apiStep s op).2,
    (Inert o ∧ (∀ a m, op = .msg a m → ∀ txt, o ≠ .result txt)) ∨ o = .reset ∨
    ((o = .hbStart ∨ o = .result "init True") ∧ Finishing s op) ∨ (o = .hbStop ∧ op = .shutdown) := by
  intro o ho
  have hbo : ∀ (h : HB), o ∈ h.trace.filterMap hbOut →
      (Inert o ∧ (∀ a m, op = .msg a m → ∀ txt, o ≠ .result txt)) ∨ o = .reset := by
    intro h hm
    simp only [List.mem_filterMap] at hm
    obtain ⟨e, _, he⟩ := hm
    cases e <;> simp [hbOut] at he
    · subst he; exact .inl ⟨⟨by simp, by simp, by simp⟩, fun _ _ _ _ => by simp⟩
    · exact .inr he.symm
  by_cases hp : Op.isPlain op = true
  · obtain ⟨_, _, _, h4, _⟩ := plain_step s op hp
    exact .inl ⟨h4 o ho, fun a m e => by subst e; simp [Op.isPlain] at hp⟩
  · cases op
    all_goals (try (exfalso; exact hp rfl))
    case shutdown =>
      simp only [apiStep, doShutdown_feeds, List.mem_cons, List.mem_nil_iff, or_false] at ho
      rcases ho with rfl | rfl | rfl
      · exact .inr (.inr (.inr ⟨rfl, rfl⟩))
      · exact .inl ⟨⟨by simp, by simp, by simp⟩, fun _ _ e => by cases e⟩
      · exact .inl ⟨⟨by simp, by simp, by simp⟩, fun _ _ e => by cases e⟩
    case conn up =>
      obtain ⟨_, _, _, e3⟩ := doConn_spec s up
      exact .inl ⟨(e3 o ho).1, fun _ _ e => by cases e⟩
    case msg toAddr m =>
      simp only [apiStep] at ho
      rcases doMsg_spec s toAddr m with ⟨hsub, e⟩ | ⟨hsub, hn, h1, h2, h3, h4⟩ | ⟨hsub, hst, ha, hr, s1, pre, c1, c2, e⟩
      · rw [e] at ho; simp at ho
      · have hq := excOut_quiet _ h2
        rcases h4 with ⟨hr, e⟩ | ⟨hr, e⟩
        · rw [e] at ho
          exact .inl ⟨(hq o ho).1, fun _ _ _ => (hq o ho).2⟩
        · rw [e] at ho
          simp only [List.mem_append] at ho
          rcases ho with ho | ho
          · exact .inl ⟨(hq o ho).1, fun _ _ _ => (hq o ho).2⟩
          · rcases hbo _ ho with h | h
            · exact .inl h
            · exact .inr (.inl h)
      · have hf : Finishing s (.msg toAddr m) := ⟨toAddr, m, rfl, hsub, hst, ha⟩
        rw [e] at ho
        simp only [List.mem_append, List.mem_singleton, List.mem_map] at ho
        rcases ho with ((ho | rfl) | ⟨_, _, rfl⟩) | ho
        · have := c2 o ho
          exact .inl ⟨inert_of_sn (.inr this), fun _ _ _ => (sn_ne (.inr this)).2.2.2⟩
        · exact .inr (.inr (.inl ⟨.inl rfl, hf⟩))
        · exact .inr (.inr (.inl ⟨.inr rfl, hf⟩))
        · rcases hbo _ ho with h | h
          · exact .inl h
          · exact .inr (.inl h)
    case adv n =>
      rcases doAdv_out s n o ho with rfl | rfl | rfl
      · exact .inl ⟨⟨by simp, by simp, by simp⟩, fun _ _ e => by cases e⟩
      · exact .inl ⟨⟨by simp, by simp, by simp⟩, fun _ _ e => by cases e⟩
      · exact .inr (.inl rfl)

/-- `HBSTART` is output exactly by the frame that completes the handshake -/
theorem hbStart_iff (s : State) (op : Op) : Out.hbStart ∈ (apiStep s op).2 ↔ Finishing s op := by
  constructor
  · intro h
    rcases apiStep_out s op _ h with ⟨⟨_, h1, _⟩, _⟩ | h | ⟨_, h⟩ | ⟨h, _⟩
    · exact absurd rfl h1
    · cases h
    · exact h
    · cases h
  · rintro ⟨toAddr, m, rfl, hsub, hst, ha⟩
    rcases doMsg_spec s toAddr m with ⟨hsub', _⟩ | ⟨_, hn, _⟩ | ⟨_, _, _, _, s1, pre, _, _, e⟩
    · rw [hsub] at hsub'; cases hsub'
    · exact absurd ⟨hst, ha⟩ hn
    · simp only [apiStep]; rw [e]; simp

theorem finishing_post {s : State} {op : Op} (h : Finishing s op) :
    (apiStep s op).1.st = .CONNECTED ∧ (apiStep s op).1.initialised = true ∧ (apiStep s op).1.pendingInits = [] := by
  obtain ⟨toAddr, m, rfl, hsub, hst, ha⟩ := h
  exact ⟨(last_answer_spec s toAddr m hsub hst ha).1, (last_answer_spec s toAddr m hsub hst ha).2.1,
    (last_answer_spec s toAddr m hsub hst ha).2.2.1⟩

/-- only the completing frame sets the event -/
theorem initialised_only_by_finishing (s : State) (op : Op) (h0 : s.initialised = false)
    (h1 : (apiStep s op).1.initialised = true) : Finishing s op := by
  by_cases hp : Op.isPlain op = true
  · obtain ⟨_, _, h3, _⟩ := plain_step s op hp
    rw [h3, h0] at h1; cases h1
  · cases op
    all_goals (try (exfalso; exact hp rfl))
    case shutdown => simp only [apiStep, doShutdown_feeds] at h1; cases h1
    case conn up =>
      obtain ⟨st', e1, _, _⟩ := doConn_spec s up
      simp only [apiStep] at h1; rw [e1] at h1
      have : s.initialised = true := h1
      rw [h0] at this; cases this
    case msg toAddr m =>
      simp only [apiStep] at h1
      rcases doMsg_spec s toAddr m with ⟨hsub, e⟩ | ⟨hsub, hn, g1, g2, g3, g4⟩ | ⟨hsub, hst, ha, _⟩
      · rw [e, h0] at h1; cases h1
      · rcases g4 with ⟨_, e⟩ | ⟨_, e⟩
        · rw [e] at h1
          have : (handleMessage s toAddr m).s.initialised = true := h1
          rw [g1.initialised, h0] at this; cases this
        · rw [e] at h1
          have : (handleMessage s toAddr m).s.initialised = true := h1
          rw [g1.initialised, h0] at this; cases this
      · exact ⟨toAddr, m, rfl, hsub, hst, ha⟩
    case adv n =>
      obtain ⟨e1, _⟩ := doAdv_spec s n
      simp only [apiStep] at h1; rw [e1] at h1
      have : s.initialised = true := h1
      rw [h0] at this; cases this

theorem hbStop_iff (s : State) (op : Op) : Out.hbStop ∈ (apiStep s op).2 ↔ op = .shutdown := by
  constructor
  · intro h
    rcases apiStep_out s op _ h with ⟨⟨_, _, h1⟩, _⟩ | h | ⟨h | h, _⟩ | ⟨_, h⟩
    · exact absurd rfl h1
    · cases h
    · cases h
    · cases h
    · exact h
  · rintro rfl
    simp [apiStep, doShutdown_feeds]

theorem hbSteps_idle_back {h : HB} (ins : List HIn) (hns : ∀ i ∈ ins, ∀ t, i ≠ .stop t) (hi : HbIdle (hbSteps h ins).1) :
    HbIdle h := by
  induction ins generalizing h with
  | nil => exact hi
  | cons i is ih =>
    have h1 : HbIdle (hbStep h i) := ih (fun j hj => hns j (by simp [hj])) hi
    exact feed_idle_back 0 (clr h) i (hns i (by simp)) h1

theorem hbSteps_params (h : HB) (ins : List HIn) :
    (hbSteps h ins).1.interval = h.interval ∧ (hbSteps h ins).1.timeout = h.timeout := by
  induction ins generalizing h with
  | nil => exact ⟨rfl, rfl⟩
  | cons i is ih =>
    obtain ⟨a, b⟩ := ih (hbStep h i)
    obtain ⟨c, d⟩ := feed_params 0 (clr h) i
    exact ⟨a.trans c, b.trans d⟩

theorem feedsOf_no_stop (s : State) (op : Op) :
    (∃ t, HIn.stop t ∈ feedsOf s op) → op = .shutdown := by
  rintro ⟨t, ht⟩
  cases op <;> simp [feedsOf] at ht
  rfl

/-- a running manager is stopped by `shutdown()` only -/
theorem hb_stopped_only_by_shutdown (s : State) (op : Op) (h0 : ¬ HbIdle s.hb) (h1 : HbIdle (apiStep s op).1.hb) :
    op = .shutdown := by
  rw [(apiStep_feeds s op).1] at h1
  apply Classical.byContradiction
  intro hne
  apply h0
  refine hbSteps_idle_back _ ?_ h1
  intro i hi t e
  subst e
  exact hne (feedsOf_no_stop s op ⟨t, hi⟩)

theorem hb_params_const (s : State) (op : Op) :
    (apiStep s op).1.hb.interval = s.hb.interval ∧ (apiStep s op).1.hb.timeout = s.hb.timeout := by
  rw [(apiStep_feeds s op).1]
  exact hbSteps_params _ _


/-- the frame that completes the handshake, on a manager that is not running: `start()` arms the deadline `timeout` ahead,
sends the first request at once if the link is up and schedules the next one `interval` ahead -/
theorem hb_started_on_connected (s : State) (toAddr : Nat) (m : Msg) (hsub : s.sockSubscribed = true)
    (hst : s.st = .INIT_ZONE_STATUS) (ha : answers .INIT_ZONE_STATUS toAddr m = true)
    (hi : HbIdle s.hb) (hn : s.hb.now ≤ s.now) (hiv : s.hb.interval = Gen.Api5.heartbeatInterval) (hto : s.hb.timeout = Gen.Api5.heartbeatTimeout) :
    (apiStep s (.msg toAddr m)).1.st = .CONNECTED ∧ (apiStep s (.msg toAddr m)).1.initialised = true ∧
    (apiStep s (.msg toAddr m)).1.pendingInits = [] ∧
    (apiStep s (.msg toAddr m)).1.hb.tl = .waiting (s.now + 2640) ∧
    (apiStep s (.msg toAddr m)).1.hb.hl = .sleeping (s.now + 2400) ∧
    (apiStep s (.msg toAddr m)).1.hb.now = s.now ∧ (apiStep s (.msg toAddr m)).1.hb.flag = false ∧
    (apiStep s (.msg toAddr m)).1.hb.lastArm = s.now ∧
    (apiStep s (.msg toAddr m)).1.hb.interval = Gen.Api5.heartbeatInterval ∧ (apiStep s (.msg toAddr m)).1.hb.timeout = Gen.Api5.heartbeatTimeout ∧
    (apiStep s (.msg toAddr m)).1.hb.connected = s.hb.connected ∧
    ∃ pre, (∀ o ∈ pre, o.isNotify = true) ∧
      (apiStep s (.msg toAddr m)).2 = pre ++ [.hbStart] ++ s.pendingInits.map (fun _ => Out.result "init True") ++
        (if s.hb.connected then [.send .connected hbMessage false] else []) := by
  have hiv' : s.hb.interval = 2400 := hiv
  have hto' : s.hb.timeout = 2640 := hto
  rcases doMsg_spec s toAddr m with ⟨hsub', _⟩ | ⟨_, hnf, _⟩ | ⟨_, _, _, _, s1, pre, c1, c2, e⟩
  · rw [hsub] at hsub'; cases hsub'
  · exact absurd ⟨hst, ha⟩ hnf
  · have hic : HbIdle (clr s.hb) := hi
    have ef : hbStep s.hb (.start s.now) = _ :=
      feed_start_idle (h := clr s.hb) (t := s.now) hic hn (by show 0 < s.hb.interval; omega) (by show 0 < s.hb.timeout; omega)
    simp only [apiStep]
    rw [e, ef]
    refine ⟨rfl, rfl, rfl, ?_, ?_, rfl, rfl, rfl, hiv, hto, rfl, pre, c2, ?_⟩
    · show TL.waiting (s.now + s.hb.timeout) = _; rw [hto']
    · show HL.sleeping (s.now + s.hb.interval) = _; rw [hiv']
    · show _ ++ List.filterMap hbOut (if s.hb.connected = true then _ else _) = _
      cases hc : s.hb.connected <;> simp [clr, hbOut, List.filterMap_cons]

/-! ## 5. the response matcher -/

theorem isHeartbeatResponse_iff (m : Msg) :
    isHeartbeatResponse m = true ↔ ∃ sub, m = .extended sub ∧ sub.messageId = Gen.At5.X1FFF30ConsoleVer.MESSAGE_ID := by
  cases m <;> simp [isHeartbeatResponse]

/-- concretely: the extended messages that carry a console-version sub-message (the version message or the request - the
matcher looks at the message id only), and unknown extended sub-messages whose id happens to be that of the console
version (the registry never produces those: it decodes that id) -/
theorem isHeartbeatResponse_cases (m : Msg) :
    isHeartbeatResponse m = true ↔
      (∃ c, m = .extended (.consoleVer c)) ∨ (∃ raw, m = .extended (.unsupported Gen.At5.X1FFF30ConsoleVer.MESSAGE_ID raw)) := by
  cases m with
  | extended sub =>
    cases sub <;> simp [isHeartbeatResponse, ExtSub.messageId, Gen.At5.X1FFF30ConsoleVer.MESSAGE_ID,
      Gen.At5.X1FFF10ErrInfo.MESSAGE_ID, Gen.At5.X1FFF11AcAbility.MESSAGE_ID, Gen.At5.X1FFF13ZoneNames.MESSAGE_ID,
      Gen.At5.X1FFF49QuickTimer.MESSAGE_ID]
  | controlStatus sub => simp [isHeartbeatResponse]
  | unsupported id raw => simp [isHeartbeatResponse]

/-- a frame that is not a response and does not complete the handshake leaves the manager exactly as it is -/
theorem non_response_keeps_hb (s : State) (toAddr : Nat) (m : Msg) (hr : isHeartbeatResponse m = false)
    (hnf : ¬ Finishing s (.msg toAddr m)) : (apiStep s (.msg toAddr m)).1.hb = s.hb := by
  simp only [apiStep]
  rcases doMsg_spec s toAddr m with ⟨_, e⟩ | ⟨_, _, g1, _, _, g4⟩ | ⟨hsub, hst, ha, _⟩
  · rw [e]
  · rcases g4 with ⟨_, e⟩ | ⟨hr', _⟩
    · rw [e]; exact g1.hb
    · rw [hr] at hr'; cases hr'
  · exact absurd ⟨toAddr, m, rfl, hsub, hst, ha⟩ hnf

theorem not_finishing_of_st {s : State} {op : Op} (h : s.st ≠ .INIT_ZONE_STATUS) : ¬ Finishing s op := by
  rintro ⟨_, _, _, _, hst, _⟩
  exact h hst

/-- a response while the manager waits for one: the deadline is re-armed to `now + timeout`; nothing else happens -/
theorem response_rearms (s : State) (toAddr : Nat) (m : Msg) (d u : Nat) (hsub : s.sockSubscribed = true)
    (hr : isHeartbeatResponse m = true) (htl : s.hb.tl = .waiting d) (hf : s.hb.flag = false) (hhl : s.hb.hl = .sleeping u)
    (hn : s.hb.now ≤ s.now) (hd : s.now ≤ d) (hu : s.now ≤ u) :
    (apiStep s (.msg toAddr m)).1.hb.tl = .waiting (s.now + s.hb.timeout) ∧
    (apiStep s (.msg toAddr m)).1.hb.lastArm = s.now ∧ (apiStep s (.msg toAddr m)).1.hb.now = s.now ∧
    (apiStep s (.msg toAddr m)).1.hb.flag = false ∧ (apiStep s (.msg toAddr m)).1.hb.hl = .sleeping u ∧
    (apiStep s (.msg toAddr m)).1.hb.connected = s.hb.connected ∧
    Out.reset ∉ (apiStep s (.msg toAddr m)).2 ∧ Out.hbStart ∉ (apiStep s (.msg toAddr m)).2 := by
  have q : Quiet s.hb s.now := ⟨hf, by rw [htl]; simp, hn, fun d' e => by rw [htl] at e; cases e; exact hd,
    fun u' e => by rw [hhl] at e; cases e; exact hu⟩
  have ef : hbStep s.hb (.resp s.now) = _ := feed_resp_quiet q.clr (d := d) htl
  simp only [apiStep]
  rcases doMsg_spec s toAddr m with ⟨hsub', _⟩ | ⟨_, hnf, g1, g2, g3, g4⟩ | ⟨_, _, _, hr', _⟩
  · rw [hsub] at hsub'; cases hsub'
  · rcases g4 with ⟨hr', _⟩ | ⟨_, e⟩
    · rw [hr] at hr'; cases hr'
    · rw [e, ef]
      refine ⟨rfl, rfl, rfl, rfl, hhl, rfl, ?_, ?_⟩
      · intro hm
        simp only [List.mem_append] at hm
        rcases hm with hm | hm
        · exact (excOut_quiet _ g2 _ hm).1.1 rfl
        · simp [clr, hbOut] at hm
      · intro hm
        simp only [List.mem_append] at hm
        rcases hm with hm | hm
        · exact (excOut_quiet _ g2 _ hm).1.2.1 rfl
        · simp [clr, hbOut] at hm
  · rw [hr] at hr'; cases hr'


/-! ## 6. time passing -/

/-- the deadline `d` is pending, the event clear, no `reset` recorded -/
def Keep (d : Nat) (h : HB) : Prop := h.tl = .waiting d ∧ h.flag = false ∧ resetEvs h.trace = 0

theorem apply_keep {d : Nat} {h : HB} {l : Label} (hl : (∃ t, l = .advance t) ∨ l = .hlBeat) (k : Keep d h) :
    Keep d (apply! h l) := by
  unfold apply!
  cases hs : step h l with
  | none => exact k
  | some g =>
    obtain ⟨k1, k2, k3⟩ := k
    simp only [Option.getD_some]
    rcases hl with ⟨t, rfl⟩ | rfl <;> simp only [step, HB.emit] at hs
    all_goals (repeat' split at hs)
    all_goals (first | cases hs | skip)
    all_goals refine ⟨?_, ?_, ?_⟩
    all_goals (first | assumption | skip)
    all_goals (simp only [resetEvs_append, k3]; rfl)

theorem pick_keep {d t : Nat} {incl : Bool} {h h' : HB} (k : Keep d h) (hl : lim t incl d = false)
    (hp : pick 0 h t incl = some h') : Keep d h' := by
  have hd : dueTl 0 h = some d := by simp [dueTl, k.1]
  have tb : tlBranch h t incl d = none := by simp [tlBranch, hl]
  have hb : ∀ u, hlBranch h t incl u = some h' → Keep d h' := by
    intro u e
    unfold hlBranch at e
    split at e
    · cases e
      exact apply_keep (.inr rfl) (apply_keep (.inl ⟨_, rfl⟩) k)
    · cases e
  unfold pick at hp
  rw [hd] at hp
  cases hh : dueHl h with
  | none => rw [hh] at hp; simp only [tb] at hp; cases hp
  | some u =>
    rw [hh] at hp
    simp only at hp
    split at hp
    · rw [tb] at hp; cases hp
    · exact hb u hp

/-- before the deadline nothing but heartbeat requests happens - whatever the fuel -/
theorem settle_keep {d t : Nat} {incl : Bool} (hl : lim t incl d = false) :
    ∀ (fuel : Nat) (h : HB), Keep d h → Keep d (settle 0 fuel h t incl) := by
  intro fuel
  induction fuel with
  | zero => intro h k; exact k
  | succ fuel ih =>
    intro h k
    rw [settle_succ _ _ _ _ _ k.2.1]
    cases hp : pick 0 h t incl with
    | none => exact k
    | some h' => exact ih h' (pick_keep k hl hp)

theorem feed_finish_keep {d t : Nat} {h : HB} (k : Keep d h) (hlt : t < d) : Keep d (feed 0 h (.finish t)) := by
  rw [feed_eq]
  simp only
  have l1 : lim t false d = false := by simp [lim]; omega
  have l2 : lim t true d = false := by simp [lim]; omega
  exact settle_keep l2 _ _ (apply_keep (.inl ⟨_, rfl⟩) (settle_keep l1 _ _ k))

theorem hbSteps_finish_keep {d : Nat} {h : HB} (ts : List Nat) (h1 : h.tl = .waiting d) (h2 : h.flag = false)
    (hts : ∀ t ∈ ts, t < d) :
    (hbSteps h (ts.map .finish)).1.tl = .waiting d ∧ (hbSteps h (ts.map .finish)).1.flag = false ∧
    resetEvs (hbSteps h (ts.map .finish)).2 = 0 := by
  induction ts generalizing h with
  | nil => exact ⟨h1, h2, rfl⟩
  | cons t ts ih =>
    have k : Keep d (hbStep h (.finish t)) := feed_finish_keep (h := clr h) ⟨h1, h2, rfl⟩ (hts t (by simp))
    obtain ⟨g1, g2, g3⟩ := ih k.1 k.2.1 (fun x hx => hts x (by simp [hx]))
    simp only [List.map_cons, hbSteps]
    exact ⟨g1, g2, by rw [resetEvs_append, k.2.2, g3]⟩

/-- **no reset before the deadline**: whatever else the state is (no assumption on the fuel, the other timers, the waiting
`init()` calls), an `adv` that ends before the pending deadline outputs no `RESET` and leaves the deadline pending -/
theorem adv_before_deadline (s : State) (n d : Nat) (htl : s.hb.tl = .waiting d) (hf : s.hb.flag = false)
    (hlt : s.now + n < d) :
    Out.reset ∉ (apiStep s (.adv n)).2 ∧ (apiStep s (.adv n)).1.hb.tl = .waiting d ∧
    (apiStep s (.adv n)).1.hb.flag = false := by
  obtain ⟨e1, e2⟩ := doAdv_spec s n
  have hts : ∀ t ∈ s.pendingInits.filter (· ≤ s.now + n) ++ [s.now + n], t < d := by
    intro t ht
    simp only [List.mem_append, List.mem_filter, List.mem_singleton, decide_eq_true_eq] at ht
    omega
  obtain ⟨g1, g2, g3⟩ := hbSteps_finish_keep (h := s.hb) _ htl hf hts
  simp only [List.map_append, List.map_cons, List.map_nil] at g1 g2 g3
  simp only [apiStep]
  refine ⟨?_, by rw [e1]; exact g1, by rw [e1]; exact g2⟩
  rw [← count_pos_iff_mem, e2, g3]
  exact Nat.lt_irrefl 0


/-! ### what exactly happens within one `adv` -/

theorem pre_eq {h : HB} {t : Nat} (q : HQ h) (hle : h.now ≤ t) (hb : t - h.now ≤ advBound) :
    pre h t = { settle 0 100000 h t false with now := t } := by
  have hp := pot_le q t
  obtain ⟨r1, r2, r3, r4, r5, r6, r7⟩ := settle_hq (incl := false) 100000 q hle (by unfold advBound at hb; omega)
  unfold pre
  exact advance_ok r3 (fun d e => ⟨lim_false_excl (r4 d e), r1.flag⟩) (fun u e => lim_false_excl (r5 u e))

/-- induction over everything the scheduler does while time passes until `t` -/
theorem finish_induct {h : HB} {t : Nat} (q : HQ h) (hle : h.now ≤ t) (hb : t - h.now ≤ advBound) (P : HB → Prop)
    (hP : ∀ incl a b, SInv t incl a → P a → Act t incl a b → P b) (hadv : ∀ a, P a → P { a with now := t }) (h0 : P h) :
    P (feed 0 h (.finish t)) := by
  obtain ⟨_, p1⟩ := settle_induct (t := t) (incl := false) P (hP false) 100000 h (q.sinv false hle) h0
  obtain ⟨k1, k2, _⟩ := pre_hq q hle hb
  have p2 : P (pre h t) := by rw [pre_eq q hle hb]; exact hadv _ p1
  rw [feed_eq]
  simp only
  exact (settle_induct (t := t) (incl := true) P (hP true) 100000 (pre h t) (k1.sinv true (Nat.le_of_eq k2)) p2).2

theorem resetEvs_snoc (tr : List HEv) (e : HEv) : resetEvs (tr ++ [e]) = resetEvs tr + (if HEv.isReset e then 1 else 0) := by
  rw [resetEvs_append]
  cases e <;> simp [resetEvs, HEv.isReset]

theorem resetEvs_beatRec (h : HB) (u : Nat) : resetEvs (beatRec h u).trace = resetEvs h.trace := by
  show resetEvs (if h.connected = true then _ else _) = _
  split
  · rw [resetEvs_snoc]; simp [HEv.isReset]
  · rfl

/-- (A) nothing is due up to `t`: only the clock moves -/
theorem finish_nothing {h : HB} {t : Nat} (q : Quiet h t) (hd : ∀ d, h.tl = .waiting d → t < d)
    (hu : ∀ u, h.hl = .sleeping u → t < u) : feed 0 h (.finish t) = { h with now := t } := by
  rw [feed_eq]
  simp only
  rw [pre_quiet q]
  exact settle_stable _ q.flag (pick_none_of q.notResetting
    (fun d e => by have := hd d e; simp [lim]; omega) (fun u e => by have := hu u e; simp [lim]; omega))

/-- (B) time passes exactly until the wake-up `u` of the heartbeat loop, which is before the deadline: one iteration -/
theorem finish_one_beat {h : HB} {u d : Nat} (hf : h.flag = false) (hn : h.now ≤ u) (htl : h.tl = .waiting d)
    (hhl : h.hl = .sleeping u) (hud : u < d) (hiv : 0 < h.interval) :
    feed 0 h (.finish u) = beatRec h u := by
  have q : Quiet h u := ⟨hf, by rw [htl]; simp, hn, fun d' e => by rw [htl] at e; cases e; omega,
    fun u' e => by rw [hhl] at e; cases e; exact Nat.le_refl _⟩
  rw [feed_eq]
  simp only
  have hf' : ({ h with now := u } : HB).flag = false := hf
  rw [pre_quiet q, settle_succ _ 99999 _ _ _ hf',
    pick_beat (u := u) hf' (Nat.le_refl _) hhl (fun d' e => by rw [show ({ h with now := u } : HB).tl = h.tl from rfl, htl] at e; cases e; exact hud)
      (by rw [show ({ h with now := u } : HB).tl = h.tl from rfl, htl]; simp) (by simp [lim])]
  simp only
  have hb : beatRec { h with now := u } u = beatRec h u := rfl
  rw [hb]
  have hf2 : (beatRec h u).flag = false := hf
  rw [settle_stable _ hf2 (pick_none_of (by show h.tl ≠ _; rw [htl]; simp)
    (fun d' e => by
      have e' : h.tl = .waiting d' := e
      rw [htl] at e'; cases e'; simp [lim]; omega)
    (fun u' e => by
      have e' : HL.sleeping (u + h.interval) = .sleeping u' := e
      cases e'; simp [lim]; omega))]

/-- (C) time passes exactly until the deadline `d` while the link is up: one `reset` is recorded, the reset completes at
once and the next deadline is `d + 2640` -/
theorem finish_reset_exact {h : HB} {d : Nat} (q : HQ h) (htl : h.tl = .waiting d) (hc : h.connected = true)
    (hb : d - h.now ≤ advBound) :
    resetEvs (feed 0 h (.finish d)).trace = resetEvs h.trace + 1 ∧ (feed 0 h (.finish d)).tl = .waiting (d + 2640) := by
  have hle : h.now ≤ d := (q.basic.deadline d htl).1
  have key := finish_induct q hle hb
    (fun a => a.connected = true ∧ a.timeout = 2640 ∧
      ((a.tl = .waiting d ∧ resetEvs a.trace = resetEvs h.trace) ∨
       (a.tl = .resetting ∧ a.now = d ∧ resetEvs a.trace = resetEvs h.trace + 1) ∨
       (a.tl = .waiting (d + 2640) ∧ resetEvs a.trace = resetEvs h.trace + 1)))
    (by
      intro incl a b ia ⟨c1, c2, c3⟩ ab
      cases ab with
      | fireUp d' htl' hu hl hc' =>
        refine ⟨c1, c2, ?_⟩
        rcases c3 with ⟨e1, e2⟩ | ⟨e1, _⟩ | ⟨e1, e2⟩
        · rw [htl'] at e1; cases e1
          exact .inr (.inl ⟨rfl, rfl, by show resetEvs (a.trace ++ _) = _; rw [resetEvs_snoc, e2]; rfl⟩)
        · rw [htl'] at e1; cases e1
        · rw [htl'] at e1; cases e1
          have := lim_le hl; omega
      | fireDown d' htl' hu hl hc' => rw [c1] at hc'; cases hc'
      | done htl' hu hl =>
        refine ⟨c1, c2, ?_⟩
        rcases c3 with ⟨e1, _⟩ | ⟨e1, e2, e3⟩ | ⟨e1, _⟩
        · rw [htl'] at e1; cases e1
        · refine .inr (.inr ⟨?_, ?_⟩)
          · show TL.waiting (a.now + a.timeout) = _; rw [e2, c2]
          · show resetEvs (a.trace ++ _) = _; rw [resetEvs_snoc, e3]; rfl
        · rw [htl'] at e1; cases e1
      | beat u hhl hw hnr hl =>
        refine ⟨c1, c2, ?_⟩
        rcases c3 with ⟨e1, e2⟩ | ⟨e1, _⟩ | ⟨e1, e2⟩
        · exact .inl ⟨e1, by rw [resetEvs_beatRec]; exact e2⟩
        · exact absurd e1 hnr
        · exact .inr (.inr ⟨e1, by rw [resetEvs_beatRec]; exact e2⟩))
    (fun a ⟨c1, c2, c3⟩ => ⟨c1, c2, by
      rcases c3 with c | ⟨e1, _, e3⟩ | c
      · exact .inl c
      · exact .inr (.inl ⟨e1, rfl, e3⟩)
      · exact .inr (.inr c)⟩)
    ⟨hc, q.timeout, .inl ⟨htl, rfl⟩⟩
  obtain ⟨r1, r2, r3, r4, r5, r6⟩ := feed_finish_hq q hle hb
  obtain ⟨_, _, c3⟩ := key
  rcases c3 with ⟨e1, _⟩ | ⟨e1, _⟩ | ⟨e1, e2⟩
  · have := r3 d e1; omega
  · exact absurd e1 r1.notResetting
  · exact ⟨e2, e1⟩

/-- (D) time passes to or beyond the deadline `d` while the link is up: at least one `reset` is recorded -/
theorem finish_reset_some {h : HB} {d t : Nat} (q : HQ h) (htl : h.tl = .waiting d) (hc : h.connected = true)
    (hle : h.now ≤ t) (hdt : d ≤ t) (hb : t - h.now ≤ advBound) :
    resetEvs h.trace < resetEvs (feed 0 h (.finish t)).trace := by
  have key := finish_induct q hle hb
    (fun a => a.connected = true ∧ resetEvs h.trace ≤ resetEvs a.trace ∧
      (a.tl = .waiting d ∨ resetEvs h.trace < resetEvs a.trace))
    (by
      intro incl a b ia ⟨c1, c2, c3⟩ ab
      cases ab with
      | fireUp d' htl' hu hl hc' =>
        have e : resetEvs (fireUpRec a d').trace = resetEvs a.trace + 1 := by
          show resetEvs (a.trace ++ _) = _; rw [resetEvs_snoc]; rfl
        exact ⟨c1, by omega, .inr (by omega)⟩
      | fireDown d' htl' hu hl hc' => rw [c1] at hc'; cases hc'
      | done htl' hu hl =>
        have e : resetEvs (doneRec a).trace = resetEvs a.trace := by
          show resetEvs (a.trace ++ _) = _; rw [resetEvs_snoc]; rfl
        refine ⟨c1, by omega, ?_⟩
        rcases c3 with e1 | e1
        · rw [htl'] at e1; cases e1
        · exact .inr (by omega)
      | beat u hhl hw hnr hl =>
        refine ⟨c1, by rw [resetEvs_beatRec]; exact c2, ?_⟩
        rcases c3 with e1 | e1
        · exact .inl e1
        · right; rw [resetEvs_beatRec]; exact e1)
    (fun a c => c) ⟨hc, Nat.le_refl _, .inl htl⟩
  obtain ⟨r1, r2, r3, r4, r5, r6⟩ := feed_finish_hq q hle hb
  rcases key.2.2 with e1 | e1
  · have := r3 d e1; omega
  · exact e1

/-- (E) while the link is down no `reset` is recorded; at the deadline the next period simply starts -/
theorem finish_down {h : HB} {t : Nat} (q : HQ h) (hc : h.connected = false) (hle : h.now ≤ t) (hb : t - h.now ≤ advBound) :
    resetEvs (feed 0 h (.finish t)).trace = resetEvs h.trace :=
  (finish_induct q hle hb (fun a => a.connected = false ∧ resetEvs a.trace = resetEvs h.trace)
    (by
      intro incl a b ia ⟨c1, c2⟩ ab
      cases ab with
      | fireUp d' htl' hu hl hc' => rw [c1] at hc'; cases hc'
      | fireDown d' htl' hu hl hc' => exact ⟨c1, c2⟩
      | done htl' hu hl => exact ⟨c1, by show resetEvs (a.trace ++ _) = _; rw [resetEvs_snoc, c2]; rfl⟩
      | beat u hhl hw hnr hl => exact ⟨c1, by rw [resetEvs_beatRec]; exact c2⟩)
    (fun a c => c) ⟨hc, rfl⟩).2

theorem finish_down_exact {h : HB} {d : Nat} (q : HQ h) (htl : h.tl = .waiting d) (hc : h.connected = false)
    (hb : d - h.now ≤ advBound) : (feed 0 h (.finish d)).tl = .waiting (d + 2640) := by
  have hle : h.now ≤ d := (q.basic.deadline d htl).1
  have key := finish_induct q hle hb
    (fun a => a.connected = false ∧ a.timeout = 2640 ∧ (a.tl = .waiting d ∨ a.tl = .waiting (d + 2640)))
    (by
      intro incl a b ia ⟨c1, c2, c3⟩ ab
      cases ab with
      | fireUp d' htl' hu hl hc' => rw [c1] at hc'; cases hc'
      | fireDown d' htl' hu hl hc' =>
        refine ⟨c1, c2, ?_⟩
        rcases c3 with e1 | e1
        · rw [htl'] at e1; cases e1
          right; show TL.waiting (d + a.timeout) = _; rw [c2]
        · rw [htl'] at e1; cases e1
          have := lim_le hl; omega
      | done htl' hu hl => rcases c3 with e1 | e1 <;> rw [htl'] at e1 <;> cases e1
      | beat u hhl hw hnr hl => exact ⟨c1, c2, c3⟩)
    (fun a c => c) ⟨hc, q.timeout, .inl htl⟩
  obtain ⟨r1, r2, r3, r4, r5, r6⟩ := feed_finish_hq q hle hb
  rcases key.2.2 with e1 | e1
  · have := r3 d e1; omega
  · exact e1


/-! ### `adv` on the API object -/

theorem adv_now (s : State) (n : Nat) : (apiStep s (.adv n)).1.now = s.now + n := by
  simp only [apiStep, (doAdv_spec s n).1]

theorem adv_st (s : State) (n : Nat) : (apiStep s (.adv n)).1.st = s.st := by
  simp only [apiStep, (doAdv_spec s n).1]

/-- nobody waits in `init()`: `adv` is one input to the manager, and its output is what the manager reports -/
theorem doAdv_running (s : State) (n : Nat) (hp : s.pendingInits = []) :
    doAdv s n = ({ s with hb := hbStep s.hb (.finish (s.now + n)), now := s.now + n, pendingInits := [] },
                 (hbStep s.hb (.finish (s.now + n))).trace.filterMap hbOut) := by
  simp [doAdv, hp, hbFeed, hbStep, clr]

theorem HbOk.running_pending {s : State} (h : HbOk s) (hr : s.hb.tl ≠ .idle) : s.pendingInits = [] :=
  h.pending (h.running.2 hr)

theorem HbOk.deadline_le {s : State} (h : HbOk s) {d : Nat} (htl : s.hb.tl = .waiting d) : s.now ≤ d ∧ d ≤ s.now + 2640 := by
  have b := h.hq.basic
  obtain ⟨b1, b2⟩ := b.deadline d htl
  have := b.arm_le
  have := h.hq.timeout
  have := h.now_eq
  omega

theorem HbOk.wake_le {s : State} (h : HbOk s) {u : Nat} (hhl : s.hb.hl = .sleeping u) : s.now ≤ u ∧ u ≤ s.now + 2400 := by
  have b := h.hq.basic
  obtain ⟨b1, b2⟩ := b.wake u hhl
  have := h.hq.interval
  have := h.now_eq
  omega

/-- the deadline is reached or passed within the `adv` while the link is up: a `RESET` is output -/
theorem silence_reset (s : State) (n d : Nat) (h : HbOk s) (htl : s.hb.tl = .waiting d) (hc : s.hb.connected = true)
    (hd : d ≤ s.now + n) (hn : n ≤ advBound) : Out.reset ∈ (apiStep s (.adv n)).2 := by
  have hp := h.running_pending (by rw [htl]; simp)
  simp only [apiStep, doAdv_running s n hp]
  rw [← count_pos_iff_mem, count_reset_hbOut]
  have q := h.hq.clr
  have := finish_reset_some (h := clr s.hb) (d := d) (t := s.now + n) q htl hc
    (by show s.hb.now ≤ _; rw [h.now_eq]; omega) hd (by show _ - s.hb.now ≤ _; rw [h.now_eq]; omega)
  exact Nat.lt_of_le_of_lt (Nat.zero_le _) this

/-- **a `RESET` exactly at the deadline**: `adv` up to the pending deadline `d` (= last arm point + 2640) while the link is
up outputs exactly one `RESET`; the stub's reset returns at once and the next deadline is `d + 2640` -/
theorem silence_reset_exact (s : State) (d : Nat) (h : HbOk s) (htl : s.hb.tl = .waiting d) (hc : s.hb.connected = true) :
    (apiStep s (.adv (d - s.now))).2.count .reset = 1 ∧ (apiStep s (.adv (d - s.now))).1.hb.tl = .waiting (d + 2640) ∧
    (apiStep s (.adv (d - s.now))).1.now = d := by
  have hp := h.running_pending (by rw [htl]; simp)
  obtain ⟨d1, d2⟩ := h.deadline_le htl
  have e : s.now + (d - s.now) = d := by omega
  simp only [apiStep, doAdv_running s _ hp, e]
  rw [count_reset_hbOut]
  have q := h.hq.clr
  obtain ⟨r1, r2⟩ := finish_reset_exact (h := clr s.hb) (d := d) q htl hc
    (by show d - s.hb.now ≤ _; rw [h.now_eq]; unfold advBound; omega)
  exact ⟨r1, r2, trivial⟩

/-- while the link is down the heartbeat never resets the connection; at the deadline the next period starts -/
theorem silence_down (s : State) (n : Nat) (h : HbOk s) (hr : s.hb.tl ≠ .idle) (hc : s.hb.connected = false) (hn : n ≤ advBound) :
    Out.reset ∉ (apiStep s (.adv n)).2 := by
  have hp := h.running_pending hr
  simp only [apiStep, doAdv_running s n hp]
  rw [← count_pos_iff_mem, count_reset_hbOut]
  have q := h.hq.clr
  have e : resetEvs (hbStep s.hb (.finish (s.now + n))).trace = 0 :=
    finish_down (h := clr s.hb) (t := s.now + n) q hc (by show s.hb.now ≤ _; rw [h.now_eq]; omega)
      (by show _ - s.hb.now ≤ _; rw [h.now_eq]; omega)
  rw [e]
  exact Nat.lt_irrefl 0

theorem silence_down_exact (s : State) (d : Nat) (h : HbOk s) (htl : s.hb.tl = .waiting d) (hc : s.hb.connected = false) :
    (apiStep s (.adv (d - s.now))).1.hb.tl = .waiting (d + 2640) := by
  have hp := h.running_pending (by rw [htl]; simp)
  obtain ⟨d1, d2⟩ := h.deadline_le htl
  have e : s.now + (d - s.now) = d := by omega
  simp only [apiStep, doAdv_running s _ hp, e]
  exact finish_down_exact (h := clr s.hb) (d := d) h.hq.clr htl hc
    (by show d - s.hb.now ≤ _; rw [h.now_eq]; unfold advBound; omega)

/-- an `adv` that ends before the next wake-up and before the deadline: nothing at all is output -/
theorem beats_none (s : State) (n d u : Nat) (h : HbOk s) (htl : s.hb.tl = .waiting d) (hhl : s.hb.hl = .sleeping u)
    (h1 : s.now + n < u) (h2 : s.now + n < d) :
    (apiStep s (.adv n)).2 = [] ∧ (apiStep s (.adv n)).1.hb.tl = .waiting d ∧ (apiStep s (.adv n)).1.hb.hl = .sleeping u := by
  have hp := h.running_pending (by rw [htl]; simp)
  have q : Quiet (clr s.hb) (s.now + n) := ⟨h.hq.flag, h.hq.notResetting, by show s.hb.now ≤ _; rw [h.now_eq]; omega,
    fun d' e => by have e' : s.hb.tl = .waiting d' := e; rw [htl] at e'; cases e'; omega,
    fun u' e => by have e' : s.hb.hl = .sleeping u' := e; rw [hhl] at e'; cases e'; omega⟩
  have ef : hbStep s.hb (.finish (s.now + n)) = _ := finish_nothing q
    (fun d' e => by have e' : s.hb.tl = .waiting d' := e; rw [htl] at e'; cases e'; omega)
    (fun u' e => by have e' : s.hb.hl = .sleeping u' := e; rw [hhl] at e'; cases e'; omega)
  simp only [apiStep, doAdv_running s n hp, ef]
  exact ⟨rfl, htl, hhl⟩

/-- **one request per interval**: an `adv` exactly up to the wake-up `u` of the heartbeat loop (before the deadline) outputs
the heartbeat request - once, and only if the link is up - and schedules the next wake-up 2400 ticks later -/
theorem beats_one (s : State) (d u : Nat) (h : HbOk s) (htl : s.hb.tl = .waiting d) (hhl : s.hb.hl = .sleeping u)
    (hud : u < d) :
    (apiStep s (.adv (u - s.now))).2 = (if s.hb.connected then [.send .connected hbMessage false] else []) ∧
    (apiStep s (.adv (u - s.now))).1.hb.hl = .sleeping (u + 2400) ∧ (apiStep s (.adv (u - s.now))).1.hb.tl = .waiting d ∧
    (apiStep s (.adv (u - s.now))).1.now = u := by
  have hp := h.running_pending (by rw [htl]; simp)
  obtain ⟨u1, u2⟩ := h.wake_le hhl
  have e : s.now + (u - s.now) = u := by omega
  have ef : hbStep s.hb (.finish u) = _ := finish_one_beat (h := clr s.hb) (u := u) (d := d) h.hq.flag
    (by show s.hb.now ≤ u; rw [h.now_eq]; exact u1) htl hhl hud (by show 0 < s.hb.interval; rw [h.hq.interval]; omega)
  simp only [apiStep, doAdv_running s _ hp, e, ef]
  refine ⟨?_, ?_, htl, trivial⟩
  · show List.filterMap hbOut (if s.hb.connected = true then _ else _) = _
    cases hc : s.hb.connected <;> simp [clr, hbOut, List.filterMap_cons]
  · show HL.sleeping (u + s.hb.interval) = _
    rw [h.hq.interval]


/-! ### no false reset -/

/-- `responsive rem ops`: reading the op list alone, with `rem` ticks left before the deadline - every `adv` ends before
the deadline, every console-version frame (`isHeartbeatResponse`) gives 2640 fresh ticks; `init()` and `shutdown()` do not
occur; anything else (connection changes, other frames, undecodable frames, calls, subscriptions, views) is free -/
def responsive : Nat → List Op → Bool
  | _, [] => true
  | rem, .adv n :: ops => decide (n < rem) && responsive (rem - n) ops
  | rem, .msg _ m :: ops => responsive (if isHeartbeatResponse m then 2640 else rem) ops
  | _, .init :: _ => false
  | _, .shutdown :: _ => false
  | rem, _ :: ops => responsive rem ops

/-- connected, the manager running with deadline `d` -/
structure Alive (s : State) (d : Nat) : Prop where
  ok : HbOk s
  st : s.st = .CONNECTED
  tl : s.hb.tl = .waiting d

theorem alive_step {s : State} {d : Nat} (a : Alive s d) (op : Op) (ops : List Op)
    (hr : responsive (d - s.now) (op :: ops) = true) :
    Out.reset ∉ (apiStep s op).2 ∧ ∃ d', Alive (apiStep s op).1 d' ∧ responsive (d' - (apiStep s op).1.now) ops = true := by
  obtain ⟨ok, hst, htl⟩ := a
  obtain ⟨d1, d2⟩ := ok.deadline_le htl
  have hrun : s.hb.tl ≠ .idle := by rw [htl]; simp
  have hsub : s.sockSubscribed = true := ok.subscribed (ok.running.2 hrun)
  by_cases hp : Op.isPlain op = true
  · have hne : op ≠ .init := by rintro rfl; simp [responsive] at hr
    have hr' : responsive (d - s.now) ops = true := by
      cases op <;> simp [Op.isPlain] at hp <;> first | exact absurd rfl hne | simpa [responsive] using hr
    obtain ⟨h1, h2, h3, h4, h5, h6, h7⟩ := plain_step s op hp
    refine ⟨fun hm => (h4 _ hm).1 rfl, d, ⟨hbOk_step s op ok (fun n e => by subst e; simp [Op.isPlain] at hp), ?_, ?_⟩, ?_⟩
    · rw [(h6 hne).1]; exact hst
    · rw [h1]; exact htl
    · rw [h2]; exact hr'
  · cases op
    all_goals (try (exfalso; exact hp rfl))
    case shutdown => simp [responsive] at hr
    case conn up =>
      have hr' : responsive (d - s.now) ops = true := by simpa [responsive] using hr
      obtain ⟨st', e1, e2, e3⟩ := doConn_spec s up
      have ok' := hbOk_step s (.conn up) ok (fun n e => by cases e)
      have hst' : st' = .CONNECTED := by
        rcases e2 with e2 | ⟨_, e2⟩
        · rw [e2]; exact hst
        · rw [hst] at e2; cases e2
      refine ⟨fun hm => (e3 _ hm).1.1 rfl, d, ⟨ok', ?_, ?_⟩, ?_⟩
      · simp only [apiStep]; rw [e1]; exact hst'
      · simp only [apiStep]; rw [e1]
        show (hbStep s.hb (.conn up s.now)).tl = _
        rw [hbStep_conn_quiet ok.quiet]; exact htl
      · simp only [apiStep]; rw [e1]; exact hr'
    case msg toAddr m =>
      have hr' : responsive (if isHeartbeatResponse m then 2640 else d - s.now) ops = true := by
        simpa [responsive] using hr
      have ok' := hbOk_step s (.msg toAddr m) ok (fun n e => by cases e)
      have hnf : ¬ Finishing s (.msg toAddr m) := not_finishing_of_st (by rw [hst]; simp)
      have hst' : (apiStep s (.msg toAddr m)).1.st = .CONNECTED := by
        have hm := doMsg_mono s toAddr m
        rcases hm.st with h1 | ⟨_, _, h3⟩
        · simp only [apiStep]; rw [h1]; exact hst
        · rw [hst] at h3; simp [rank] at h3
      have hnow : (apiStep s (.msg toAddr m)).1.now = s.now := (doMsg_mono s toAddr m).now
      cases hresp : isHeartbeatResponse m with
      | false =>
        rw [hresp] at hr'
        have hhb := non_response_keeps_hb s toAddr m hresp hnf
        refine ⟨?_, d, ⟨ok', hst', by rw [hhb]; exact htl⟩, by rw [hnow]; simpa using hr'⟩
        intro hm
        rcases apiStep_out s _ _ hm with ⟨⟨h1, _⟩, _⟩ | h | ⟨_, h⟩ | ⟨h, _⟩
        · exact h1 rfl
        · -- a `RESET` could only come from the manager, which this frame does not feed
          simp only [apiStep] at hm
          rcases doMsg_spec s toAddr m with ⟨_, e⟩ | ⟨_, _, _, g2, _, g4⟩ | ⟨_, hst2, _⟩
          · rw [e] at hm; simp at hm
          · rcases g4 with ⟨_, e⟩ | ⟨hr2, _⟩
            · rw [e] at hm; exact (excOut_quiet _ g2 _ hm).1.1 rfl
            · rw [hresp] at hr2; cases hr2
          · rw [hst] at hst2; cases hst2
        · exact hnf h
        · cases h
      | true =>
        rw [hresp] at hr'
        have hhl : ∃ u, s.hb.hl = .sleeping u := by
          cases hh : s.hb.hl with
          | idle => exact absurd (ok.hq.basic.both.2 hh) hrun
          | sleeping u => exact ⟨u, rfl⟩
        obtain ⟨u, hhl⟩ := hhl
        obtain ⟨u1, _⟩ := ok.wake_le hhl
        obtain ⟨r1, _, _, _, _, _, r7, _⟩ := response_rearms s toAddr m d u hsub hresp htl ok.hq.flag hhl
          (Nat.le_of_eq ok.now_eq) d1 u1
        refine ⟨r7, s.now + 2640, ⟨ok', hst', by rw [r1, ok.hq.timeout]⟩, ?_⟩
        rw [hnow]
        have : s.now + 2640 - s.now = 2640 := by omega
        rw [this]; simpa using hr'
    case adv n =>
      have hr1 : n < d - s.now ∧ responsive (d - s.now - n) ops = true := by simpa [responsive] using hr
      obtain ⟨r1, r2, _⟩ := adv_before_deadline s n d htl ok.hq.flag (by omega)
      have ok' := hbOk_step s (.adv n) ok (fun n' e => by cases e; unfold advBound; omega)
      refine ⟨r1, d, ⟨ok', by rw [adv_st]; exact hst, r2⟩, ?_⟩
      rw [adv_now]
      have : d - (s.now + n) = d - s.now - n := by omega
      rw [this]; exact hr1.2

/-- **no false reset**: connected, the manager running; if a console-version frame arrives at least once in every window
of less than 2640 ticks (`responsive`), no `RESET` is ever output and the manager keeps waiting -/
theorem no_false_reset {s : State} {d : Nat} (a : Alive s d) (ops : List Op) (hr : responsive (d - s.now) ops = true) :
    Out.reset ∉ runOut s ops ∧ ∃ d', Alive (runS s ops) d' := by
  induction ops generalizing s d with
  | nil => exact ⟨by simp, d, a⟩
  | cons op ops ih =>
    obtain ⟨h1, d', a', hr'⟩ := alive_step a op ops hr
    obtain ⟨h2, d'', a''⟩ := ih a' hr'
    refine ⟨?_, d'', by rw [runS_cons]; exact a''⟩
    rw [runOut_cons, List.mem_append]
    rintro (h | h)
    · exact h1 h
    · exact h2 h

end PyAirtouch.Lemmas.Api5
