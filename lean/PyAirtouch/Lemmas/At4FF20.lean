import PyAirtouch.Model.At4.FF20
import PyAirtouch.Lemmas.TimerCommon
/-! Round trip and length lemmas for the AirTouch 4 quick-timer codec (0x1FFF20). -/
namespace PyAirtouch.Lemmas.At4FF20
open PyAirtouch.Model PyAirtouch.Model.At4.FF20 PyAirtouch.Gen.At4.X1FFF20QuickTimer
open PyAirtouch.Lemmas.TimerCommon

/-- whenever the encoder returns bytes, there are `size m` of them -/
theorem encode_length (m : Msg) (bs : Bytes) (h : encode m = .ok bs) : bs.length = size m :=
  QuickTimer.encode_length ops m bs h

theorem encodeBytes_length (m : Msg) : (encodeBytes m).length = size m := rfl

/-- on well-formed messages the encoder does not raise -/
theorem encode_ok (m : Msg) (h : WF m) : encode m = .ok (encodeBytes m) :=
  QuickTimer.encode_ok ops m h

/-- `decode(encode(m))` gives `m` back (the header is not consulted), nothing left over -/
theorem decode_encode (m : Msg) (h : WF m) (rest : Bytes) :
    decode (encodeBytes m ++ rest) (size m) = .ok (m, rest) :=
  QuickTimer.decode_encode ops (fun t => by cases t <;> rfl) (fun t => by cases t <;> decide) m h rest _

theorem wfBool_iff (m : Msg) : wfBool m = true ↔ WF m := QuickTimer.wfBool_iff m

end PyAirtouch.Lemmas.At4FF20
