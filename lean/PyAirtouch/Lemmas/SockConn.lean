import PyAirtouch.Model.Sock
/-!
# Connection-level invariants of the socket model (used by C07 and C15)

* `CoreInv`, `Shrink`, `Frame`, `exec_inv`, `exec_frame`, `exec_pc`, `exec_spawned`, `exec_api`: what one
  block (`exec`) may do to the socket's own fields;
* `upd_task`, `spawnApi_task`, …: where a row of the task table comes from after a step;
* `Inv` (holds in every `Reachable` state, `inv_reachable`): a held-open transport is the current
  one, `is_connected` iff there is a current one, `_connecting` excludes connected, `_connecting` iff
  exactly one task is inside `open_connection` (possibly with a cancellation pending), non-background
  tasks are API calls, and after `is_open` has been cleared every background task is cancelled;
* `RunCase` / `ExecCase`: `step` on a `run` label as a relation;
* `TrInv` / `CTr` (`ctr_reachable`): the trace's `openSet` is the list of held-open transports and
  every prefix of the trace has at most one;
* `closedNow`, `closing`, `disciplined`, `runD`, `ReachableD`, `CInv` (`cinv_reachableD`),
  `ClosedState`, `closed_step`, `quietEv`: `close()` under the calling discipline "no `open_socket()`
  / `close()` while a `close()` is in progress";
* `c15_reachableD`: the specification's C15 monitor accepts every such trace.
-/
namespace PyAirtouch.Lemmas.SockConn
open PyAirtouch.Model.Sock PyAirtouch.Spec.Trace

/-- connection `i` exists and the client still holds it open -/
def liveAt (c : Core) (i : Nat) : Prop := (c.conns[i]?.map ConnSt.isLive) = some true

/-- what `exec` may do to the socket's own state -/
structure CoreInv (c : Core) : Prop where
  live_rw : ∀ i, liveAt c i → c.rw = some i
  conn_rw : c.isConnected = c.rw.isSome
  connecting : c.connecting = true → c.isConnected = false

/-- `c'` differs from `c` only by queue / trace changes and connections that stopped being live -/
structure Shrink (c c' : Core) : Prop where
  now : c'.now = c.now
  isOpen : c'.isOpen = c.isOpen
  isConnected : c'.isConnected = c.isConnected
  connecting : c'.connecting = c.connecting
  rw : c'.rw = c.rw
  len : c'.conns.length = c.conns.length
  live : ∀ i, liveAt c' i → liveAt c i

theorem Shrink.refl (c : Core) : Shrink c c := ⟨rfl, rfl, rfl, rfl, rfl, rfl, fun _ h => h⟩

theorem Shrink.trans {a b c : Core} (h1 : Shrink a b) (h2 : Shrink b c) : Shrink a c :=
  ⟨h2.now.trans h1.now, h2.isOpen.trans h1.isOpen, h2.isConnected.trans h1.isConnected,
   h2.connecting.trans h1.connecting, h2.rw.trans h1.rw, h2.len.trans h1.len,
   fun i h => h1.live i (h2.live i h)⟩

theorem shrink_emit (c : Core) (e : Ev) : Shrink c (c.emit e) := ⟨rfl, rfl, rfl, rfl, rfl, rfl, fun _ h => h⟩

theorem liveAt_set_notLive (c : Core) (w i : Nat) (x : ConnSt) (hx : x.isLive = false)
    (h : liveAt { c with conns := c.conns.set w x } i) : liveAt c i ∧ i ≠ w := by
  unfold liveAt at *
  simp only [List.getElem?_set] at h
  grind

theorem shrink_doWrite (c : Core) (w : Nat) (e : Entry) : Shrink c (doWrite c w e).1 := by
  unfold doWrite
  split <;> try exact shrink_emit _ _
  · refine ⟨rfl, rfl, rfl, rfl, rfl, by simp [Core.emit], ?_⟩
    intro i h
    exact (liveAt_set_notLive c w i (.dying true) rfl h).1
  · exact Shrink.refl _


theorem shrink_drainLoop (w : Nat) (q : List Entry) : ∀ c : Core, Shrink c (drainLoop c w q).1 := by
  induction q with
  | nil => intro c; exact ⟨rfl, rfl, rfl, rfl, rfl, rfl, fun _ h => h⟩
  | cons e rest ih =>
    intro c
    simp only [drainLoop]
    split
    · exact ⟨rfl, rfl, rfl, rfl, rfl, rfl, fun _ h => h⟩
    split
    · exact (shrink_emit _ _).trans (ih _)
    · split
      · exact (shrink_emit _ _).trans (ih _)
      · have hw := shrink_doWrite c w e
        split
        · rename_i c' h; rw [h] at hw; exact hw.trans (ih _)
        · rename_i c' h; rw [h] at hw
          exact hw.trans ⟨rfl, rfl, rfl, rfl, rfl, rfl, fun _ h => h⟩
        · rename_i c' h; rw [h] at hw
          exact hw.trans ⟨rfl, rfl, rfl, rfl, rfl, rfl, fun _ h => h⟩

theorem shrink_drainLoop' {c c' : Core} {w : Nat} {q : List Entry} {st : DrainStop}
    (h : drainLoop c w q = (c', st)) : Shrink c c' := by
  have := shrink_drainLoop w q c; rw [h] at this; exact this

theorem shrink_requeue (c : Core) (e : Entry) : Shrink c (requeue c e) := by
  unfold requeue; split
  · exact shrink_emit _ _
  · exact ⟨rfl, rfl, rfl, rfl, rfl, rfl, fun _ h => h⟩

theorem shrink_closeConn (c : Core) (w : Nat) : Shrink c (closeConn c w) := by
  unfold closeConn; split
  · refine ⟨rfl, rfl, rfl, rfl, rfl, by simp [Core.emit], ?_⟩
    intro i h
    exact (liveAt_set_notLive c w i (.dying false) rfl h).1
  · exact Shrink.refl _

theorem closeConn_notLive (c : Core) (w : Nat) : ¬ liveAt (closeConn c w) w := by
  unfold closeConn; split
  · intro h; exact (liveAt_set_notLive c w w (.dying false) rfl h).2 rfl
  · rename_i h; unfold liveAt; intro h'
    cases hc : c.conns[w]? with
    | none => simp [hc] at h'
    | some x => cases x <;> simp_all [ConnSt.isLive]

theorem CoreInv.shrink {c c' : Core} (h : CoreInv c) (hs : Shrink c c') : CoreInv c' :=
  ⟨fun i hi => by rw [hs.rw]; exact h.live_rw i (hs.live i hi),
   by rw [hs.isConnected, hs.rw]; exact h.conn_rw,
   by rw [hs.isConnected, hs.connecting]; exact h.connecting⟩

/-- side condition on the continuation: a disconnect that resumes after `wait_closed(w)` relies on
    `w` no longer being held open -/
def KontOk (c : Core) : Kont → Prop
  | .discTail (some w) _ => ¬ liveAt c w
  | _ => True

theorem exec_inv (fuel : Nat) (c : Core) (sp : List Pc) (k : Kont) (h : CoreInv c) (hk : KontOk c k) :
    CoreInv (exec fuel c sp k).core := by
  fun_induction exec fuel c sp k
  case case4 c' hd ih =>
    exact ih (h.shrink (shrink_drainLoop' hd)) trivial
  case case5 c' e hd => exact h.shrink (shrink_drainLoop' hd)
  case case6 c' e hd ih =>
    exact ih (h.shrink ((shrink_drainLoop' hd).trans (shrink_requeue _ _))) trivial
  case case7 => exact h.shrink (shrink_closeConn _ _)
  case case9 =>
    refine ⟨?_, rfl, fun _ => rfl⟩
    intro i hi
    have hi' : liveAt _ i := hi
    have hrw := h.live_rw i hi'
    rw [hrw] at hk
    exact absurd hi' hk
  all_goals first | exact h | exact h.shrink (shrink_emit _ _) | (rename_i ih; exact ih h trivial)


/-! ### frame lemmas for `exec` -/

/-- like `Shrink`, but the client may also have let go of its current connection -/
structure Frame (c c' : Core) : Prop where
  now : c'.now = c.now
  isOpen : c'.isOpen = c.isOpen
  connecting : c'.connecting = c.connecting
  len : c'.conns.length = c.conns.length
  live : ∀ i, liveAt c' i → liveAt c i
  rw : c'.rw = c.rw ∨ c'.rw = none
  isConnected : c'.isConnected = c.isConnected ∨ c'.isConnected = false

theorem Shrink.frame {c c' : Core} (h : Shrink c c') : Frame c c' :=
  ⟨h.now, h.isOpen, h.connecting, h.len, h.live, .inl h.rw, .inl h.isConnected⟩

theorem Frame.refl (c : Core) : Frame c c := (Shrink.refl c).frame

theorem Frame.trans {a b c : Core} (h1 : Frame a b) (h2 : Frame b c) : Frame a c :=
  ⟨h2.now.trans h1.now, h2.isOpen.trans h1.isOpen, h2.connecting.trans h1.connecting, h2.len.trans h1.len,
   fun i h => h1.live i (h2.live i h),
   by rcases h2.rw with h | h
      · rw [h]; exact h1.rw
      · exact .inr h,
   by rcases h2.isConnected with h | h
      · rw [h]; exact h1.isConnected
      · exact .inr h⟩

theorem exec_frame (fuel : Nat) (c : Core) (sp : List Pc) (k : Kont) : Frame c (exec fuel c sp k).core := by
  fun_induction exec fuel c sp k
  case case4 c' hd ih => exact (shrink_drainLoop' hd).frame.trans ih
  case case5 c' e hd => exact (shrink_drainLoop' hd).frame
  case case6 c' e hd ih => exact ((shrink_drainLoop' hd).trans (shrink_requeue _ _)).frame.trans ih
  case case7 => exact (shrink_closeConn _ _).frame
  case case9 => exact ⟨rfl, rfl, rfl, rfl, fun _ h => h, .inr rfl, .inr rfl⟩
  all_goals first | exact Frame.refl _ | exact (shrink_emit _ _).frame | (rename_i ih; exact ih)

/-- program counters at which `exec` can leave a task -/
def suspPc : Pc → Bool
  | .drainAwait _ _ _ | .discWait _ _ | .notifyWait _ | .readWait _ | .finished => true
  | _ => false

/-- program counters of freshly scheduled background tasks -/
def spawnPc : Pc → Bool
  | .connStart | .readStart | .connDelay _ => true
  | _ => false

theorem exec_pc (fuel : Nat) (c : Core) (sp : List Pc) (k : Kont) : suspPc (exec fuel c sp k).pc = true := by
  fun_induction exec fuel c sp k <;> first | rfl | assumption

theorem exec_spawned (fuel : Nat) (c : Core) (sp : List Pc) (k : Kont) :
    ∀ p ∈ (exec fuel c sp k).spawned, p ∈ sp ∨ spawnPc p = true := by
  fun_induction exec fuel c sp k <;> grind [spawnPc]


/-! ### the task table -/

theorem upd_task {s : Sys} {t : Nat} {out : Out} {i : Nat} {k : Task} (h : (upd s t out).tasks[i]? = some k) :
    (i = t ∧ ∃ k0, s.tasks[t]? = some k0 ∧ k = { k0 with pc := out.pc }) ∨ (i ≠ t ∧ s.tasks[i]? = some k) ∨
      (s.tasks.length ≤ i ∧ k.bg = true ∧ k.pc ∈ out.spawned) := by
  simp only [upd, List.getElem?_append, List.length_modify, List.getElem?_modify, List.getElem?_map] at h
  split at h
  · by_cases hti : t = i
    · subst hti
      left
      cases hk : s.tasks[t]? with
      | none => simp [hk] at h
      | some k0 => simp [hk] at h; exact ⟨rfl, k0, rfl, h.symm⟩
    · right; left
      simp [hti] at h
      exact ⟨fun e => hti e.symm, h⟩
  · right; right
    cases hk : out.spawned[i - s.tasks.length]? with
    | none => simp [hk] at h
    | some q =>
      simp [hk] at h; subst h
      exact ⟨by omega, rfl, List.mem_of_getElem? hk⟩

theorem upd_task_self {s : Sys} {t : Nat} {out : Out} {k0 : Task} (h : s.tasks[t]? = some k0) :
    (upd s t out).tasks[t]? = some { k0 with pc := out.pc } := by
  have hlt : t < s.tasks.length := by
    rcases Nat.lt_or_ge t s.tasks.length with h' | h'
    · exact h'
    · rw [List.getElem?_eq_none h'] at h; cases h
  simp only [upd, List.getElem?_append, List.length_modify, hlt, ↓reduceIte, List.getElem?_modify, h]
  rfl

theorem upd_task_other {s : Sys} {t : Nat} {out : Out} {i : Nat} {k : Task} (hne : i ≠ t) (h : s.tasks[i]? = some k) :
    (upd s t out).tasks[i]? = some k := by
  have hlt : i < s.tasks.length := by
    rcases Nat.lt_or_ge i s.tasks.length with h' | h'
    · exact h'
    · rw [List.getElem?_eq_none h'] at h; cases h
  have : ¬ t = i := fun e => hne e.symm
  simp only [upd, List.getElem?_append, List.length_modify, hlt, ↓reduceIte, List.getElem?_modify, h, this]
  rfl

theorem spawnApi_task {s : Sys} {out : Out} {i : Nat} {k : Task} (h : (spawnApi s out).tasks[i]? = some k) :
    s.tasks[i]? = some k ∨ (i = s.tasks.length ∧ k = ⟨out.pc, false⟩) ∨
      (s.tasks.length < i ∧ k.bg = true ∧ k.pc ∈ out.spawned) := by
  simp only [spawnApi, List.append_assoc, List.getElem?_append, List.getElem?_map] at h
  split at h
  · exact .inl h
  · right
    rename_i hge
    cases hi : i - s.tasks.length with
    | zero => left; simp [hi] at h; exact ⟨by omega, h.symm⟩
    | succ m =>
      right
      simp [hi] at h
      cases hk : out.spawned[m]? with
      | none => simp [hk] at h
      | some q => simp [hk] at h; subst h; exact ⟨by omega, rfl, List.mem_of_getElem? hk⟩

theorem spawnApi_task_old {s : Sys} {out : Out} {i : Nat} {k : Task} (h : s.tasks[i]? = some k) :
    (spawnApi s out).tasks[i]? = some k := by
  have hlt : i < s.tasks.length := by
    rcases Nat.lt_or_ge i s.tasks.length with h' | h'
    · exact h'
    · rw [List.getElem?_eq_none h'] at h; cases h
  simp only [spawnApi, List.append_assoc, List.getElem?_append, hlt, ↓reduceIte, h]

theorem pcAt_eq {s : Sys} {t : Nat} {p : Pc} : pcAt s t = some p ↔ ∃ k, s.tasks[t]? = some k ∧ k.pc = p := by
  unfold pcAt; cases s.tasks[t]? <;> simp


/-! ### what API-call tasks (the non-background ones) can be doing -/

/-- continuations of `send`, `reset_connection` and `close` -/
def apiRet : Ret → Bool
  | .done | .closeTail => true
  | .resetTail r => apiRet r
  | _ => false

/-- continuations that end in the tail of `close` -/
def closeRet : Ret → Bool
  | .closeTail => true
  | .resetTail r => closeRet r
  | _ => false

def apiPc : Pc → Bool
  | .drainAwait _ _ r => apiRet r && !closeRet r
  | .discWait _ r | .notifyWait r => apiRet r
  | .closeGather | .finished => true
  | _ => false

/-- the task is executing `close` -/
def closePc : Pc → Bool
  | .drainAwait _ _ r | .discWait _ r | .notifyWait r => closeRet r
  | .closeGather => true
  | _ => false

def kApi : Kont → Bool
  | .drain r => apiRet r && !closeRet r
  | .ret r | .disconnect r | .discTail _ r => apiRet r

def kClose : Kont → Bool
  | .drain r | .ret r | .disconnect r | .discTail _ r => closeRet r

theorem exec_api (fuel : Nat) (c : Core) (sp : List Pc) (k : Kont) (hk : kApi k = true) :
    apiPc (exec fuel c sp k).pc = true ∧
      ∀ p ∈ (exec fuel c sp k).spawned, p ∈ sp ∨ (p = .connStart ∧ c.isOpen = true) := by
  fun_induction exec fuel c sp k
  case case4 c' hd ih => have := (shrink_drainLoop' hd).isOpen; grind [apiPc, kApi, apiRet, closeRet]
  case case6 c' e hd ih =>
    have := ((shrink_drainLoop' hd).trans (shrink_requeue c' e)).isOpen; grind [apiPc, kApi, apiRet, closeRet]
  all_goals grind [apiPc, kApi, apiRet, closeRet]

theorem exec_noClose (fuel : Nat) (c : Core) (sp : List Pc) (k : Kont) (hk : kClose k = false) :
    closePc (exec fuel c sp k).pc = false := by
  fun_induction exec fuel c sp k <;> grind [closePc, kClose, closeRet]


/-! ### the system invariant (every reachable state) -/

/-- the task is inside `open_connection` (possibly with a cancellation pending) -/
def openingPc : Pc → Bool
  | .connOpening | .cancelledOpening => true
  | _ => false

/-- what `close()` leaves of a background task -/
def cancelledPc : Pc → Bool
  | .finished | .cancelledOpening => true
  | _ => false

structure Inv (s : Sys) : Prop where
  core : CoreInv s.core
  opening_connecting : ∀ (i : Nat) (k : Model.Sock.Task), s.tasks[i]? = some k → openingPc k.pc = true → s.core.connecting = true
  opening_unique : ∀ (i j : Nat) (k k' : Model.Sock.Task), s.tasks[i]? = some k → s.tasks[j]? = some k' →
    openingPc k.pc = true → openingPc k'.pc = true → i = j
  connecting_opening : s.core.connecting = true → ∃ i : Nat, ∃ k : Model.Sock.Task, s.tasks[i]? = some k ∧ openingPc k.pc = true
  api : ∀ (i : Nat) (k : Model.Sock.Task), s.tasks[i]? = some k → k.bg = false → apiPc k.pc = true
  closed_bg : s.core.isOpen = false → ∀ (i : Nat) (k : Model.Sock.Task), s.tasks[i]? = some k → k.bg = true → cancelledPc k.pc = true

theorem spawnPc_not_opening {p : Pc} (h : spawnPc p = true) : openingPc p = false := by
  cases p <;> simp_all [spawnPc, openingPc]

/-- a task that is not inside `open_connection` runs a block that does not enter it -/
theorem inv_upd {s : Sys} {t : Nat} {k0 : Task} {out : Out} (hinv : Inv s) (ht : s.tasks[t]? = some k0)
    (hold : openingPc k0.pc = false) (hcore : CoreInv out.core)
    (hconn : out.core.connecting = s.core.connecting) (hopen : out.core.isOpen = s.core.isOpen)
    (hpc : openingPc out.pc = false) (hapi : k0.bg = false → apiPc out.pc = true)
    (hsp : ∀ p ∈ out.spawned, spawnPc p = true)
    (hclosed : s.core.isOpen = false → (k0.bg = true → cancelledPc out.pc = true) ∧ out.spawned = []) :
    Inv (upd s t out) := by
  refine ⟨hcore, ?_, ?_, ?_, ?_, ?_⟩
  · intro i k hk hop
    show out.core.connecting = true
    rw [hconn]
    rcases upd_task hk with ⟨_, k1, _, rfl⟩ | ⟨_, h⟩ | ⟨_, _, h⟩
    · simp [hpc] at hop
    · exact hinv.opening_connecting i k h hop
    · rw [spawnPc_not_opening (hsp _ h)] at hop; cases hop
  · intro i j k k' hk hk' hop hop'
    rcases upd_task hk with ⟨_, k1, _, rfl⟩ | ⟨_, h⟩ | ⟨_, _, h⟩
    · simp [hpc] at hop
    · rcases upd_task hk' with ⟨_, k1, _, rfl⟩ | ⟨_, h'⟩ | ⟨_, _, h'⟩
      · simp [hpc] at hop'
      · exact hinv.opening_unique i j k k' h h' hop hop'
      · rw [spawnPc_not_opening (hsp _ h')] at hop'; cases hop'
    · rw [spawnPc_not_opening (hsp _ h)] at hop; cases hop
  · intro hc
    have hc' : s.core.connecting = true := by rw [← hconn]; exact hc
    obtain ⟨i, k, hk, hop⟩ := hinv.connecting_opening hc'
    have hne : i ≠ t := by
      intro e; subst e; rw [ht] at hk; cases hk; rw [hold] at hop; cases hop
    exact ⟨i, k, upd_task_other hne hk, hop⟩
  · intro i k hk hbg
    rcases upd_task hk with ⟨_, k1, hk1, rfl⟩ | ⟨_, h⟩ | ⟨_, hb, _⟩
    · rw [ht] at hk1; cases hk1; exact hapi hbg
    · exact hinv.api i k h hbg
    · rw [hb] at hbg; cases hbg
  · intro ho i k hk hbg
    have ho' : s.core.isOpen = false := by rw [← hopen]; exact ho
    rcases upd_task hk with ⟨_, k1, hk1, rfl⟩ | ⟨_, h⟩ | ⟨_, _, h⟩
    · rw [ht] at hk1; cases hk1; exact (hclosed ho').1 hbg
    · exact hinv.closed_bg ho' i k h hbg
    · rw [(hclosed ho').2] at h; cases h


theorem suspPc_not_opening {p : Pc} (h : suspPc p = true) : openingPc p = false := by
  cases p <;> simp_all [suspPc, openingPc]

theorem apiPc_not_opening {p : Pc} (h : apiPc p = true) : openingPc p = false := by
  cases p <;> simp_all [apiPc, openingPc]

/-- generic preservation: a task that is not opening a connection runs a continuation -/
theorem inv_upd_exec {s : Sys} {t : Nat} {k0 : Task} {c0 : Core} {kont : Kont} (hinv : Inv s)
    (ht : s.tasks[t]? = some k0) (hold : openingPc k0.pc = false) (hnf : k0.pc ≠ .finished)
    (hs : Shrink s.core c0) (hk : KontOk c0 kont) (hapi : k0.bg = false → kApi kont = true) :
    Inv (upd s t (exec FUEL c0 [] kont)) := by
  have hfr := exec_frame FUEL c0 [] kont
  refine inv_upd hinv ht hold (exec_inv _ _ _ _ (hinv.core.shrink hs) hk) (hfr.connecting.trans hs.connecting)
    (hfr.isOpen.trans hs.isOpen) (suspPc_not_opening (exec_pc _ _ _ _)) (fun hb => (exec_api _ _ _ _ (hapi hb)).1) ?_ ?_
  · intro p hp
    rcases exec_spawned _ _ _ _ p hp with h | h
    · cases h
    · exact h
  · intro ho
    have hbg : k0.bg = false := by
      cases hb : k0.bg with
      | false => rfl
      | true =>
        have := hinv.closed_bg ho t k0 ht hb
        revert hold hnf this
        cases k0.pc <;> simp [cancelledPc, openingPc]
    refine ⟨fun hb => (by rw [hbg] at hb; cases hb), ?_⟩
    apply List.eq_nil_iff_forall_not_mem.mpr
    intro p hp
    rcases (exec_api _ _ _ _ (hapi hbg)).2 p hp with h | ⟨_, h⟩
    · cases h
    · rw [hs.isOpen, ho] at h; cases h

theorem inv_spawnApi {s : Sys} {out : Out} (hinv : Inv s) (hcore : CoreInv out.core)
    (hconn : out.core.connecting = s.core.connecting) (hpc : apiPc out.pc = true)
    (hsp : ∀ p ∈ out.spawned, spawnPc p = true)
    (hclosed : out.core.isOpen = false → out.spawned = [] ∧
      ∀ (i : Nat) (k : Model.Sock.Task), s.tasks[i]? = some k → k.bg = true → cancelledPc k.pc = true) :
    Inv (spawnApi s out) := by
  refine ⟨hcore, ?_, ?_, ?_, ?_, ?_⟩
  · intro i k hk hop
    show out.core.connecting = true
    rw [hconn]
    rcases spawnApi_task hk with h | ⟨_, rfl⟩ | ⟨_, _, h⟩
    · exact hinv.opening_connecting i k h hop
    · rw [apiPc_not_opening hpc] at hop; cases hop
    · rw [spawnPc_not_opening (hsp _ h)] at hop; cases hop
  · intro i j k k' hk hk' hop hop'
    rcases spawnApi_task hk with h | ⟨_, rfl⟩ | ⟨_, _, h⟩
    · rcases spawnApi_task hk' with h' | ⟨_, rfl⟩ | ⟨_, _, h'⟩
      · exact hinv.opening_unique i j k k' h h' hop hop'
      · rw [apiPc_not_opening hpc] at hop'; cases hop'
      · rw [spawnPc_not_opening (hsp _ h')] at hop'; cases hop'
    · rw [apiPc_not_opening hpc] at hop; cases hop
    · rw [spawnPc_not_opening (hsp _ h)] at hop; cases hop
  · intro hc
    have hc' : s.core.connecting = true := by rw [← hconn]; exact hc
    obtain ⟨i, k, hk, hop⟩ := hinv.connecting_opening hc'
    exact ⟨i, k, spawnApi_task_old hk, hop⟩
  · intro i k hk hbg
    rcases spawnApi_task hk with h | ⟨_, rfl⟩ | ⟨_, hb, _⟩
    · exact hinv.api i k h hbg
    · exact hpc
    · rw [hb] at hbg; cases hbg
  · intro ho i k hk hbg
    have ho' : out.core.isOpen = false := ho
    rcases spawnApi_task hk with h | ⟨_, rfl⟩ | ⟨_, _, h⟩
    · exact (hclosed ho').2 i k h hbg
    · cases hbg
    · rw [(hclosed ho').1] at h; cases h


theorem inv_spawnApi_exec {s : Sys} {c0 : Core} {kont : Kont} (hinv : Inv s) (hs : Shrink s.core c0)
    (hk : KontOk c0 kont) (hapi : kApi kont = true) : Inv (spawnApi s (exec FUEL c0 [] kont)) := by
  have hfr := exec_frame FUEL c0 [] kont
  refine inv_spawnApi hinv (exec_inv _ _ _ _ (hinv.core.shrink hs) hk) (hfr.connecting.trans hs.connecting)
    (exec_api _ _ _ _ hapi).1 ?_ ?_
  · intro p hp
    rcases exec_spawned _ _ _ _ p hp with h | h
    · cases h
    · exact h
  · intro ho
    have ho' : s.core.isOpen = false := by rw [← hs.isOpen, ← hfr.isOpen]; exact ho
    refine ⟨?_, hinv.closed_bg ho'⟩
    apply List.eq_nil_iff_forall_not_mem.mpr
    intro p hp
    rcases (exec_api _ _ _ _ hapi).2 p hp with h | ⟨_, h⟩
    · cases h
    · rw [hs.isOpen, ho'] at h; cases h

/-- the environment (or a queue / trace update) changed the socket state without opening anything -/
theorem inv_core {s : Sys} {c' : Core} (hinv : Inv s) (hs : Shrink s.core c') : Inv { s with core := c' } :=
  ⟨hinv.core.shrink hs,
   fun i k hk hop => by show c'.connecting = true; rw [hs.connecting]; exact hinv.opening_connecting i k hk hop,
   hinv.opening_unique,
   fun hc => hinv.connecting_opening (by rw [← hs.connecting]; exact hc),
   hinv.api,
   fun ho => hinv.closed_bg (by rw [← hs.isOpen]; exact ho)⟩

theorem shrink_set (c : Core) (w : Nat) (x : ConnSt) (h : x.isLive = true → liveAt c w) :
    Shrink c { c with conns := c.conns.set w x } := by
  refine ⟨rfl, rfl, rfl, rfl, rfl, by simp, ?_⟩
  intro i hi
  unfold liveAt at *
  simp only [List.getElem?_set] at hi
  grind

/-- the task inside `open_connection` comes out of it -/
theorem inv_upd_leave {s : Sys} {t : Nat} {k0 : Task} {out : Out} (hinv : Inv s) (ht : s.tasks[t]? = some k0)
    (hold : openingPc k0.pc = true) (hcore : CoreInv out.core)
    (hconn : out.core.connecting = false) (hopen : out.core.isOpen = s.core.isOpen)
    (hpc : openingPc out.pc = false) (hsp : ∀ p ∈ out.spawned, spawnPc p = true)
    (hclosed : s.core.isOpen = false → cancelledPc out.pc = true ∧ out.spawned = []) :
    Inv (upd s t out) := by
  have hbg : k0.bg = true := by
    cases hb : k0.bg with
    | true => rfl
    | false => have := apiPc_not_opening (hinv.api t k0 ht hb); rw [hold] at this; cases this
  refine ⟨hcore, ?_, ?_, ?_, ?_, ?_⟩
  · intro i k hk hop
    rcases upd_task hk with ⟨_, k1, _, rfl⟩ | ⟨hne, h⟩ | ⟨_, _, h⟩
    · simp [hpc] at hop
    · exact absurd (hinv.opening_unique i t k k0 h ht hop hold) hne
    · rw [spawnPc_not_opening (hsp _ h)] at hop; cases hop
  · intro i j k k' hk hk' hop hop'
    rcases upd_task hk with ⟨_, k1, _, rfl⟩ | ⟨hne, h⟩ | ⟨_, _, h⟩
    · simp [hpc] at hop
    · exact absurd (hinv.opening_unique i t k k0 h ht hop hold) hne
    · rw [spawnPc_not_opening (hsp _ h)] at hop; cases hop
  · intro hc
    have : out.core.connecting = true := hc
    rw [hconn] at this; cases this
  · intro i k hk hb
    rcases upd_task hk with ⟨_, k1, hk1, rfl⟩ | ⟨_, h⟩ | ⟨_, hb', _⟩
    · rw [ht] at hk1; cases hk1; rw [hbg] at hb; cases hb
    · exact hinv.api i k h hb
    · rw [hb'] at hb; cases hb
  · intro ho i k hk hb
    have ho' : s.core.isOpen = false := by rw [← hopen]; exact ho
    rcases upd_task hk with ⟨_, k1, hk1, rfl⟩ | ⟨_, h⟩ | ⟨_, _, h⟩
    · exact (hclosed ho').1
    · exact hinv.closed_bg ho' i k h hb
    · rw [(hclosed ho').2] at h; cases h

/-- a connection task passes the `_connect` guard and calls `open_connection` -/
theorem inv_upd_enter {s : Sys} {t : Nat} {k0 : Task} {c' : Core} (hinv : Inv s) (ht : s.tasks[t]? = some k0)
    (hbg : k0.bg = true) (hs : Shrink s.core c')
    (hc : s.core.connecting = false) (hnc : s.core.isConnected = false) (ho : s.core.isOpen = true) :
    Inv (upd s t ⟨{ c' with connecting := true }, .connOpening, []⟩) := by
  have hno : ∀ (i : Nat) (k : Model.Sock.Task), s.tasks[i]? = some k → openingPc k.pc = false := by
    intro i k hk
    cases hop : openingPc k.pc with
    | false => rfl
    | true => have := hinv.opening_connecting i k hk hop; rw [hc] at this; cases this
  have hci := hinv.core.shrink hs
  refine ⟨⟨hci.live_rw, hci.conn_rw, fun _ => by show c'.isConnected = false; rw [hs.isConnected]; exact hnc⟩,
    fun _ _ _ _ => rfl, ?_, fun _ => ⟨t, _, upd_task_self ht, rfl⟩, ?_, ?_⟩
  · intro i j k k' hk hk' hop hop'
    have key : ∀ (i : Nat) (k : Model.Sock.Task),
        (upd s t ⟨{ c' with connecting := true }, .connOpening, []⟩).tasks[i]? = some k →
        openingPc k.pc = true → i = t := by
      intro i k hk hop
      rcases upd_task hk with ⟨h, _⟩ | ⟨_, h⟩ | ⟨_, _, h⟩
      · exact h
      · rw [hno i k h] at hop; cases hop
      · cases h
    rw [key i k hk hop, key j k' hk' hop']
  · intro i k hk hb
    rcases upd_task hk with ⟨_, k1, hk1, rfl⟩ | ⟨_, h⟩ | ⟨_, hb', _⟩
    · rw [ht] at hk1; cases hk1; rw [hbg] at hb; cases hb
    · exact hinv.api i k h hb
    · rw [hb'] at hb; cases hb
  · intro ho'
    have : c'.isOpen = false := ho'
    rw [hs.isOpen, ho] at this; cases this

theorem inv_connectBlock {s : Sys} {t : Nat} {k0 : Task} (hinv : Inv s) (ht : s.tasks[t]? = some k0)
    (hpc : spawnPc k0.pc = true) : Inv (upd s t (connectBlock s.core)) := by
  have hbg : k0.bg = true := by
    cases hb : k0.bg with
    | true => rfl
    | false =>
      have := hinv.api t k0 ht hb
      revert hpc this; cases k0.pc <;> simp [spawnPc, apiPc]
  unfold connectBlock
  split
  · rename_i hcond
    refine inv_upd hinv ht (spawnPc_not_opening hpc) hinv.core rfl rfl rfl (fun _ => rfl) (by simp) ?_
    intro _; exact ⟨fun _ => rfl, rfl⟩
  · rename_i hcond
    simp only [Bool.or_eq_true, Bool.not_eq_eq_eq_not, Bool.not_true, not_or, Bool.not_eq_true,
      Bool.not_eq_false] at hcond
    exact inv_upd_enter hinv ht hbg (shrink_emit _ _) hcond.1.2 hcond.1.1 hcond.2


theorem coreInv_openOk {c : Core} (h : CoreInv c) (hc : c.connecting = true) (evs : List Ev) :
    CoreInv { c with conns := c.conns ++ [ConnSt.live false false], rw := some c.conns.length, connecting := false,
                     isConnected := true, trace := evs } := by
  have hnc := h.connecting hc
  have hrw : c.rw = none := by
    have := h.conn_rw; rw [hnc] at this
    cases hr : c.rw with
    | none => rfl
    | some x => simp [hr] at this
  refine ⟨?_, rfl, fun h => by cases h⟩
  intro i hi
  unfold liveAt at hi
  simp only [List.getElem?_append] at hi
  split at hi
  · have := h.live_rw i hi; rw [hrw] at this; cases this
  · rename_i hge
    cases hlen : i - c.conns.length with
    | zero => show some c.conns.length = some i; congr 1; omega
    | succ m => simp [hlen] at hi

theorem cancelTask_spec (k : Task) :
    (cancelTask k).bg = k.bg ∧ openingPc (cancelTask k).pc = openingPc k.pc ∧
    (k.bg = false → cancelTask k = k) ∧ (k.bg = true → cancelledPc (cancelTask k).pc = true) := by
  obtain ⟨pc, bg⟩ := k
  cases bg <;> cases pc <;> simp [cancelTask, openingPc, cancelledPc]

theorem inv_cancel {s : Sys} {c' : Core} (hinv : Inv s) (hs : Shrink s.core c') :
    Inv { core := { c' with isOpen := false }, tasks := s.tasks.map cancelTask } := by
  have hci := hinv.core.shrink hs
  refine ⟨⟨hci.live_rw, hci.conn_rw, hci.connecting⟩, ?_, ?_, ?_, ?_, ?_⟩
  · intro i k hk hop
    simp only [List.getElem?_map, Option.map_eq_some_iff] at hk
    obtain ⟨k1, hk1, rfl⟩ := hk
    rw [(cancelTask_spec k1).2.1] at hop
    show c'.connecting = true
    rw [hs.connecting]; exact hinv.opening_connecting i k1 hk1 hop
  · intro i j k k' hk hk' hop hop'
    simp only [List.getElem?_map, Option.map_eq_some_iff] at hk hk'
    obtain ⟨k1, hk1, rfl⟩ := hk
    obtain ⟨k2, hk2, rfl⟩ := hk'
    rw [(cancelTask_spec _).2.1] at hop hop'
    exact hinv.opening_unique i j k1 k2 hk1 hk2 hop hop'
  · intro hc
    have hc' : c'.connecting = true := hc
    rw [hs.connecting] at hc'
    obtain ⟨i, k, hk, hop⟩ := hinv.connecting_opening hc'
    refine ⟨i, cancelTask k, ?_, ?_⟩
    · simp [List.getElem?_map, hk]
    · rw [(cancelTask_spec k).2.1]; exact hop
  · intro i k hk hb
    simp only [List.getElem?_map, Option.map_eq_some_iff] at hk
    obtain ⟨k1, hk1, rfl⟩ := hk
    rw [(cancelTask_spec k1).1] at hb
    rw [(cancelTask_spec k1).2.2.1 hb]
    exact hinv.api i k1 hk1 hb
  · intro _ i k hk hb
    simp only [List.getElem?_map, Option.map_eq_some_iff] at hk
    obtain ⟨k1, hk1, rfl⟩ := hk
    rw [(cancelTask_spec k1).1] at hb
    exact (cancelTask_spec k1).2.2.2 hb

theorem inv_init : Inv init := by
  refine ⟨⟨fun i h => ?_, rfl, fun h => ?_⟩, fun i k hk => ?_, fun i j k k' hk => ?_,
    fun h => ?_, fun i k hk => ?_, fun _ i k hk => ?_⟩
  · simp [liveAt, init] at h
  · cases h
  · simp [init] at hk
  · simp [init] at hk
  · cases h
  · simp [init] at hk
  · simp [init] at hk


/-! ### `step` on a `run` label as a relation (one constructor per kind of block) -/

/-- the blocks that consist of running `exec`: program counter of the resumed task, the core it
    starts from and the continuation it runs -/
inductive ExecCase (s : Sys) : Pc → Core → Kont → Prop
  | drainOk (w : Nat) (e : Entry) (r : Ret) : ExecCase s (.drainAwait w e r) s.core (.drain r)
  | drainErr (w : Nat) (e : Entry) (r : Ret) : ¬ liveAt s.core w →
      ExecCase s (.drainAwait w e r) (requeue s.core e) (.disconnect (.resetTail r))
  | closed (w : Nat) (r : Ret) (exc : Bool) : s.core.conns[w]? = some (.dead exc) →
      ExecCase s (.discWait w r) s.core (.discTail (some w) r)
  | notified (r : Ret) : ExecCase s (.notifyWait r) s.core (.ret r)
  | readStart : ExecCase s .readStart s.core (.ret .readLoop)
  | readBad (c : Nat) : ExecCase s (.readWait c) s.core (.disconnect (.resetTail .readLoop))
  | readFail (c : Nat) : ExecCase s (.readWait c) s.core (.disconnect (.resetTail .done))
  | gathered : anyCancelPending s.tasks = false → ExecCase s .closeGather s.core (.disconnect .closeTail)

def connPc : Pc → Bool
  | .connStart | .connDelay _ => true
  | _ => false

inductive RunCase (s : Sys) (t : Nat) : Sys → Prop
  | exec (k0 : Model.Sock.Task) (pc : Pc) (c0 : Core) (kont : Kont) : s.tasks[t]? = some k0 → k0.pc = pc →
      ExecCase s pc c0 kont → RunCase s t (upd s t (exec FUEL c0 [] kont))
  | connect (k0 : Model.Sock.Task) : s.tasks[t]? = some k0 → connPc k0.pc = true →
      RunCase s t (upd s t (connectBlock s.core))
  | openOk (k0 : Model.Sock.Task) : s.tasks[t]? = some k0 → k0.pc = .connOpening →
      RunCase s t (upd s t
        ⟨({ s.core with conns := s.core.conns ++ [ConnSt.live false false], rw := some s.core.conns.length,
                        connecting := false, isConnected := true }.emit
            (.opened s.core.conns.length s.core.now)).emit (.notify true s.core.now),
         .notifyWait .connAfterNotify, []⟩)
  | openRefused (k0 : Model.Sock.Task) : s.tasks[t]? = some k0 → k0.pc = .connOpening →
      RunCase s t (upd s t
        ⟨{ s.core with connecting := false }.emit (.refused s.core.now), .finished,
         if !s.core.isConnected && s.core.isOpen then [.connDelay (s.core.now + RETRY_DELAY)] else []⟩)
  | cancelled (k0 : Model.Sock.Task) : s.tasks[t]? = some k0 → k0.pc = .cancelledOpening →
      RunCase s t (upd s t ⟨{ s.core with connecting := false }, .finished, []⟩)
  | readMsg (k0 : Model.Sock.Task) (c tag : Nat) : s.tasks[t]? = some k0 → k0.pc = .readWait c →
      RunCase s t (upd s t ⟨s.core.emit (.deliver (s.core.rw.getD 0) tag s.core.now), .notifyWait .readLoop, []⟩)
  | readEof (k0 : Model.Sock.Task) (c : Nat) : s.tasks[t]? = some k0 → k0.pc = .readWait c →
      RunCase s t (upd s t ⟨s.core, .finished, []⟩)

theorem step_run_cases {s s' : Sys} {t : Nat} {a : Answer} (h : step s (.run t a) = some s') : RunCase s t s' := by
  simp only [step] at h
  split at h
  all_goals (try (rename_i heq; rw [pcAt_eq] at heq; obtain ⟨k0, hk0, hpc⟩ := heq))
  · split at h
    · cases h; exact .connect k0 hk0 (by rw [hpc]; rfl)
    · cases h
  · cases h; exact .connect k0 hk0 (by rw [hpc]; rfl)
  · cases h; exact .openOk k0 hk0 hpc
  · cases h; exact .openRefused k0 hk0 hpc
  · cases h; exact .cancelled k0 hk0 hpc
  · cases h; exact .exec k0 _ _ _ hk0 hpc (.drainOk _ _ _)
  · split at h
    · cases h
    · rename_i hl
      cases h
      refine .exec k0 _ _ _ hk0 hpc (.drainErr _ _ _ ?_)
      intro hlive; unfold liveAt at hlive; rw [hlive] at hl; exact hl rfl
  · split at h
    · rename_i exc hd; cases h; exact .exec k0 _ _ _ hk0 hpc (.closed _ _ exc hd)
    · cases h
  · cases h; exact .exec k0 _ _ _ hk0 hpc (.notified _)
  · cases h; exact .exec k0 _ _ _ hk0 hpc .readStart
  · cases h; exact .readMsg k0 _ _ hk0 hpc
  · cases h; exact .exec k0 _ _ _ hk0 hpc (.readBad _)
  · split at h
    · split at h
      · cases h; exact .exec k0 _ _ _ hk0 hpc (.readFail _)
      · cases h; exact .readEof k0 _ hk0 hpc
    · cases h; exact .readEof k0 _ hk0 hpc
  · cases h; exact .exec k0 _ _ _ hk0 hpc (.readFail _)
  · split at h
    · cases h
    · rename_i hc; cases h
      exact .exec k0 _ _ _ hk0 hpc (.gathered (by simpa using hc))
  · cases h


theorem ExecCase.shrink {s : Sys} {pc : Pc} {c0 : Core} {kont : Kont} (h : ExecCase s pc c0 kont) :
    Shrink s.core c0 := by
  cases h <;> first | exact Shrink.refl _ | exact shrink_requeue _ _

theorem ExecCase.kontOk {s : Sys} {pc : Pc} {c0 : Core} {kont : Kont} (h : ExecCase s pc c0 kont) :
    KontOk c0 kont := by
  cases h <;> try trivial
  rename_i hd
  show ¬ liveAt _ _
  unfold liveAt; rw [hd]; simp [ConnSt.isLive]

theorem ExecCase.pc_ok {s : Sys} {pc : Pc} {c0 : Core} {kont : Kont} (h : ExecCase s pc c0 kont) :
    openingPc pc = false ∧ pc ≠ .finished ∧ (apiPc pc = true → kApi kont = true) ∧ closePc pc = kClose kont := by
  cases h <;> simp [openingPc, apiPc, kApi, apiRet, closePc, kClose, closeRet]
  intro h _; exact h

theorem inv_step {s s' : Sys} {l : Label} (hinv : Inv s) (h : step s l = some s') : Inv s' := by
  cases l with
  | advance t =>
    simp only [step] at h
    split at h
    · cases h
      exact ⟨⟨hinv.core.live_rw, hinv.core.conn_rw, hinv.core.connecting⟩, hinv.opening_connecting,
        hinv.opening_unique, hinv.connecting_opening, hinv.api, hinv.closed_bg⟩
    · cases h
  | envLost cid =>
    simp only [step] at h
    split at h
    · cases h
      exact inv_core hinv ((shrink_set _ _ _ (by simp [ConnSt.isLive])).trans (shrink_emit _ _))
    · cases h
  | envLostRan cid =>
    simp only [step] at h
    split at h
    · cases h
      exact inv_core hinv (shrink_set _ _ _ (by simp [ConnSt.isLive]))
    · cases h
  | envPause cid b =>
    simp only [step] at h
    split at h
    · rename_i hc; cases h
      exact inv_core hinv (shrink_set _ _ _ (fun _ => by simp [liveAt, hc, ConnSt.isLive]))
    · cases h
  | envFailWrites cid b =>
    simp only [step] at h
    split at h
    · rename_i hc; cases h
      exact inv_core hinv (shrink_set _ _ _ (fun _ => by simp [liveAt, hc, ConnSt.isLive]))
    · cases h
  | apiOpen =>
    simp only [step] at h
    split at h
    · cases h
      exact inv_spawnApi hinv (hinv.core.shrink (shrink_emit _ _)) rfl rfl (by simp)
        (fun ho => ⟨rfl, hinv.closed_bg ho⟩)
    · rename_i ho
      cases h
      have hci := hinv.core.shrink (shrink_emit s.core (.apiOpen s.core.now))
      refine inv_spawnApi hinv ⟨hci.live_rw, hci.conn_rw, hci.connecting⟩ rfl rfl (by simp [spawnPc]) ?_
      intro ho'; cases ho'
  | apiClose =>
    simp only [step] at h
    split at h
    · rename_i ho
      cases h
      refine inv_spawnApi hinv (hinv.core.shrink ((shrink_emit _ _).trans (shrink_emit _ _))) rfl rfl (by simp) ?_
      intro _
      exact ⟨rfl, hinv.closed_bg (by simpa [Core.emit] using ho)⟩
    · have hc := inv_cancel hinv (shrink_emit s.core (.apiClose s.core.now))
      split at h
      · cases h
        exact inv_spawnApi hc hc.core rfl rfl (by simp) (fun ho => ⟨rfl, hc.closed_bg ho⟩)
      · cases h
        exact inv_spawnApi_exec hc (Shrink.refl _) trivial rfl
  | apiReset =>
    simp only [step] at h
    cases h
    exact inv_spawnApi_exec hinv (shrink_emit _ _) trivial rfl
  | apiSend sid retries life encOk =>
    simp only [step] at h
    split at h
    · cases h
      exact inv_spawnApi hinv (hinv.core.shrink (shrink_emit _ _)) rfl rfl (by simp)
        (fun ho => ⟨rfl, hinv.closed_bg ho⟩)
    · split at h
      · cases h
        exact inv_spawnApi hinv (hinv.core.shrink ⟨rfl, rfl, rfl, rfl, rfl, rfl, fun _ h => h⟩) rfl rfl (by simp)
          (fun ho => ⟨rfl, hinv.closed_bg ho⟩)
      · cases h
        refine inv_spawnApi_exec hinv ?_ trivial rfl
        exact ⟨rfl, rfl, rfl, rfl, rfl, rfl, fun _ h => h⟩
  | run t a =>
    cases step_run_cases h with
    | exec k0 pc c0 kont hk0 hpc hc =>
      obtain ⟨h1, h2, h3, _⟩ := hc.pc_ok
      subst hpc
      exact inv_upd_exec hinv hk0 h1 h2 hc.shrink hc.kontOk (fun hb => h3 (hinv.api t k0 hk0 hb))
    | connect k0 hk0 hpc =>
      refine inv_connectBlock hinv hk0 ?_
      revert hpc; cases k0.pc <;> simp [connPc, spawnPc]
    | openOk k0 hk0 hpc =>
      have hop : openingPc k0.pc = true := by rw [hpc]; rfl
      have hcg := hinv.opening_connecting t k0 hk0 hop
      refine inv_upd_leave hinv hk0 hop (coreInv_openOk hinv.core hcg _) rfl rfl rfl (by simp) ?_
      intro ho
      have hbg : k0.bg = true := by
        cases hb : k0.bg with
        | true => rfl
        | false => have := hinv.api t k0 hk0 hb; rw [hpc] at this; cases this
      have := hinv.closed_bg ho t k0 hk0 hbg; rw [hpc] at this; cases this
    | openRefused k0 hk0 hpc =>
      have hop : openingPc k0.pc = true := by rw [hpc]; rfl
      have hci := hinv.core
      refine inv_upd_leave hinv hk0 hop ⟨hci.live_rw, hci.conn_rw, fun h => by cases h⟩ rfl rfl rfl ?_ ?_
      · intro p hp; dsimp only at hp; split at hp <;> simp at hp; subst hp; rfl
      · intro ho; refine ⟨rfl, ?_⟩; simp [ho]
    | cancelled k0 hk0 hpc =>
      have hop : openingPc k0.pc = true := by rw [hpc]; rfl
      have hci := hinv.core
      exact inv_upd_leave hinv hk0 hop ⟨hci.live_rw, hci.conn_rw, fun h => by cases h⟩ rfl rfl rfl (by simp)
        (fun _ => ⟨rfl, rfl⟩)
    | readMsg k0 c tag hk0 hpc =>
      have hbg : k0.bg = true := by
        cases hb : k0.bg with
        | true => rfl
        | false => have := hinv.api t k0 hk0 hb; rw [hpc] at this; cases this
      refine inv_upd hinv hk0 (by rw [hpc]; rfl) (hinv.core.shrink (shrink_emit _ _)) rfl rfl rfl
        (fun hb => by rw [hbg] at hb; cases hb) (by simp) ?_
      intro ho
      have := hinv.closed_bg ho t k0 hk0 hbg; rw [hpc] at this; cases this
    | readEof k0 c hk0 hpc =>
      exact inv_upd hinv hk0 (by rw [hpc]; rfl) hinv.core rfl rfl rfl (fun _ => rfl) (by simp)
        (fun _ => ⟨fun _ => rfl, rfl⟩)

theorem inv_run {ls : List Label} : ∀ {s s' : Sys}, Inv s → run s ls = some s' → Inv s' := by
  induction ls with
  | nil => intro s s' hinv h; simp only [run] at h; cases h; exact hinv
  | cons l ls ih =>
    intro s s' hinv h
    simp only [run] at h
    cases hs : step s l with
    | none => rw [hs] at h; cases h
    | some s1 => rw [hs] at h; exact ih (inv_step hinv hs) h

theorem inv_reachable {s : Sys} (h : Reachable s) : Inv s := by
  obtain ⟨ls, h⟩ := h
  exact inv_run inv_init h


/-! ### the observable trace and the set of live connections -/

/-- indices of the connections the client holds open, in increasing order -/
def liveIdx (conns : List ConnSt) : List Nat :=
  (List.range conns.length).filter (fun i => (conns[i]?.map ConnSt.isLive) == some true)

def openStep (s : List Nat) : Ev → List Nat
  | .opened c _ => s ++ [c]
  | .clientClose c _ | .lost c _ => s.filter (· ≠ c)
  | _ => s

theorem openSet_eq (tr : List Ev) : openSet tr = tr.foldl openStep [] := by
  rfl

theorem openSet_concat (tr : List Ev) (e : Ev) : openSet (tr ++ [e]) = openStep (openSet tr) e := by
  simp [openSet_eq, List.foldl_append]

theorem scp_concat (xs : List Ev) (e : Ev) : ∀ pre : List Ev,
    singleConnectionPrefixes pre (xs ++ [e]) =
      (singleConnectionPrefixes pre xs && decide ((openSet (pre ++ xs ++ [e])).length ≤ 1)) := by
  induction xs with
  | nil => intro pre; simp [singleConnectionPrefixes]
  | cons x xs ih =>
    intro pre
    simp only [List.cons_append, singleConnectionPrefixes, ih, Bool.and_assoc, List.append_assoc, List.nil_append]

theorem atMostOne_concat (tr : List Ev) (e : Ev) :
    atMostOneConnection (tr ++ [e]) = (atMostOneConnection tr && decide ((openSet (tr ++ [e])).length ≤ 1)) := by
  simpa [atMostOneConnection] using scp_concat tr e []

/-- events that do not change the set of open connections -/
def neutralEv : Ev → Bool
  | .opened _ _ | .clientClose _ _ | .lost _ _ => false
  | _ => true

structure TrInv (tr : List Ev) (conns : List ConnSt) : Prop where
  single : atMostOneConnection tr = true
  open_eq : openSet tr = liveIdx conns
  le_one : (liveIdx conns).length ≤ 1

theorem TrInv.neutral {tr : List Ev} {conns : List ConnSt} (h : TrInv tr conns) {e : Ev} (he : neutralEv e = true) :
    TrInv (tr ++ [e]) conns := by
  have hs : openSet (tr ++ [e]) = openSet tr := by
    rw [openSet_concat]; cases e <;> first | rfl | cases he
  refine ⟨?_, by rw [hs]; exact h.open_eq, h.le_one⟩
  rw [atMostOne_concat, hs, h.single, h.open_eq]; simpa using h.le_one

theorem TrInv.neutrals {conns : List ConnSt} (evs : List Ev) : ∀ {tr : List Ev}, TrInv tr conns →
    (∀ e ∈ evs, neutralEv e = true) → TrInv (tr ++ evs) conns := by
  induction evs with
  | nil => intro tr h _; simpa using h
  | cons e evs ih =>
    intro tr h he
    have := ih (h.neutral (he e (by simp))) (fun e' h' => he e' (by simp [h']))
    simpa using this

theorem liveIdx_set_notLive (conns : List ConnSt) (w : Nat) (x : ConnSt) (hx : x.isLive = false) :
    liveIdx (conns.set w x) = (liveIdx conns).filter (· ≠ w) := by
  unfold liveIdx
  rw [List.filter_filter, List.length_set]
  apply List.filter_congr
  intro i hi
  simp only [List.getElem?_set]
  grind

theorem liveIdx_set_same (conns : List ConnSt) (w : Nat) (x y : ConnSt) (hy : conns[w]? = some y)
    (hx : x.isLive = y.isLive) : liveIdx (conns.set w x) = liveIdx conns := by
  unfold liveIdx
  rw [List.length_set]
  apply List.filter_congr
  intro i hi
  simp only [List.getElem?_set]
  grind

theorem liveIdx_append_live (conns : List ConnSt) (p f : Bool) :
    liveIdx (conns ++ [ConnSt.live p f]) = liveIdx conns ++ [conns.length] := by
  unfold liveIdx
  simp only [List.length_append, List.length_singleton, List.range_succ, List.filter_append]
  congr 1
  · apply List.filter_congr
    intro i hi
    have : i < conns.length := List.mem_range.mp hi
    simp [List.getElem?_append, this]
  · simp [ConnSt.isLive]

theorem TrInv.remove {tr : List Ev} {conns : List ConnSt} (h : TrInv tr conns) (w : Nat) (x : ConnSt)
    (hx : x.isLive = false) {e : Ev} (he : ∀ s, openStep s e = s.filter (· ≠ w)) :
    TrInv (tr ++ [e]) (conns.set w x) := by
  have hs : openSet (tr ++ [e]) = liveIdx (conns.set w x) := by
    rw [openSet_concat, he, h.open_eq, liveIdx_set_notLive _ _ _ hx]
  have hl : (liveIdx (conns.set w x)).length ≤ 1 := by
    rw [liveIdx_set_notLive _ _ _ hx]
    exact Nat.le_trans (List.length_filter_le _ _) h.le_one
  refine ⟨?_, hs, hl⟩
  rw [atMostOne_concat, hs, h.single]; simpa using hl


theorem TrInv.set_same {tr : List Ev} {conns : List ConnSt} (h : TrInv tr conns) {w : Nat} {x y : ConnSt}
    (hy : conns[w]? = some y) (hx : x.isLive = y.isLive) : TrInv tr (conns.set w x) :=
  ⟨h.single, by rw [liveIdx_set_same _ _ _ _ hy hx]; exact h.open_eq,
   by rw [liveIdx_set_same _ _ _ _ hy hx]; exact h.le_one⟩

/-- the trace invariant of a socket state -/
def CTr (c : Core) : Prop := TrInv c.trace c.conns

theorem CTr.emit {c : Core} (h : CTr c) {e : Ev} (he : neutralEv e = true) : CTr (c.emit e) :=
  TrInv.neutral h he

theorem ctr_doWrite {c : Core} (h : CTr c) (w : Nat) (e : Entry) : CTr (doWrite c w e).1 := by
  unfold doWrite
  split
  · exact h.emit rfl
  · exact (TrInv.neutral h (e := .writeFault w e.sid c.now) rfl).remove w (.dying true) rfl (fun _ => rfl)
  · exact h.emit rfl
  · exact h.emit rfl
  · exact h.emit rfl
  · exact h

theorem ctr_drainLoop (w : Nat) (q : List Entry) : ∀ {c : Core}, CTr c → CTr (drainLoop c w q).1 := by
  induction q with
  | nil => intro c h; exact h
  | cons e rest ih =>
    intro c h
    simp only [drainLoop]
    split
    · exact h
    split
    · exact ih (h.emit rfl)
    · split
      · exact ih (h.emit rfl)
      · have hw := ctr_doWrite h w e
        split
        · rename_i c' h'; rw [h'] at hw; exact ih hw
        · rename_i c' h'; rw [h'] at hw; exact hw
        · rename_i c' h'; rw [h'] at hw; exact hw

theorem ctr_drainLoop' {c c' : Core} {w : Nat} {q : List Entry} {st : DrainStop} (h : CTr c)
    (hd : drainLoop c w q = (c', st)) : CTr c' := by
  have := ctr_drainLoop w q h; rw [hd] at this; exact this

theorem ctr_requeue {c : Core} (h : CTr c) (e : Entry) : CTr (requeue c e) := by
  unfold requeue; split
  · exact h.emit rfl
  · exact h

theorem ctr_closeConn {c : Core} (h : CTr c) (w : Nat) : CTr (closeConn c w) := by
  unfold closeConn; split
  · exact TrInv.remove h w (.dying false) rfl (fun _ => rfl)
  · exact h

theorem ctr_exec (fuel : Nat) (c : Core) (sp : List Pc) (k : Kont) (h : CTr c) : CTr (exec fuel c sp k).core := by
  fun_induction exec fuel c sp k
  case case4 c' hd ih => exact ih (ctr_drainLoop' h hd)
  case case5 c' e hd => exact ctr_drainLoop' h hd
  case case6 c' e hd ih => exact ih (ctr_requeue (ctr_drainLoop' h hd) e)
  case case7 => exact ctr_closeConn h _
  case case9 => exact TrInv.neutral h (e := .notify false _) rfl
  case case12 => exact h.emit rfl
  all_goals first | exact h | (rename_i ih; exact ih h)


theorem liveIdx_nil_of {c : Core} (h : ∀ i, ¬ liveAt c i) : liveIdx c.conns = [] := by
  unfold liveIdx
  apply List.filter_eq_nil_iff.mpr
  intro i _ hi
  exact h i (by simpa [liveAt] using hi)

theorem ExecCase.ctr {s : Sys} {pc : Pc} {c0 : Core} {kont : Kont} (h : ExecCase s pc c0 kont) (ht : CTr s.core) :
    CTr c0 := by
  cases h <;> first | exact ht | exact ctr_requeue ht _

theorem ctr_step {s s' : Sys} {l : Label} (hinv : Inv s) (ht : CTr s.core) (h : step s l = some s') :
    CTr s'.core := by
  cases l with
  | advance t =>
    simp only [step] at h
    split at h
    · cases h; exact ht
    · cases h
  | envLost cid =>
    simp only [step] at h
    split at h
    · cases h; exact TrInv.remove ht cid (.dying true) rfl (fun _ => rfl)
    · cases h
  | envLostRan cid =>
    simp only [step] at h
    split at h
    · rename_i e hc; cases h
      exact TrInv.set_same ht hc rfl
    · cases h
  | envPause cid b =>
    simp only [step] at h
    split at h
    · rename_i p f hc; cases h
      exact TrInv.set_same ht hc rfl
    · cases h
  | envFailWrites cid b =>
    simp only [step] at h
    split at h
    · rename_i p f hc; cases h
      exact TrInv.set_same ht hc rfl
    · cases h
  | apiOpen =>
    simp only [step] at h
    split at h <;> (cases h; exact ht.emit (e := .apiOpen _) rfl)
  | apiClose =>
    simp only [step] at h
    have h1 : CTr (s.core.emit (.apiClose s.core.now)) := ht.emit rfl
    split at h
    · cases h; exact h1.emit rfl
    · split at h
      · cases h; exact h1
      · cases h; exact ctr_exec _ _ _ _ h1
  | apiReset =>
    simp only [step] at h
    cases h
    exact ctr_exec _ _ _ _ (ht.emit rfl)
  | apiSend sid retries life encOk =>
    simp only [step] at h
    split at h
    · cases h; exact ht.emit rfl
    · have h1 : TrInv (s.core.trace ++ purgeEvents s.core.now s.core.queue) s.core.conns := by
        apply TrInv.neutrals _ ht
        intro e he
        simp only [purgeEvents, List.mem_map] at he
        obtain ⟨_, _, rfl⟩ := he; rfl
      split at h
      · cases h; exact TrInv.neutral h1 (e := .reject _ _ _) rfl
      · cases h; exact ctr_exec _ _ _ _ (TrInv.neutral h1 (e := .accept _ _ _ _ _) rfl)
  | run t a =>
    cases step_run_cases h with
    | exec k0 pc c0 kont hk0 hpc hc => exact ctr_exec _ _ _ _ (hc.ctr ht)
    | connect k0 hk0 hpc =>
      show CTr (connectBlock s.core).core
      unfold connectBlock; split
      · exact ht
      · exact TrInv.neutral ht (e := .attempt _) rfl
    | openOk k0 hk0 hpc =>
      have hcg := hinv.opening_connecting t k0 hk0 (by rw [hpc]; rfl)
      have hrw : s.core.rw = none := by
        have := hinv.core.conn_rw; rw [hinv.core.connecting hcg] at this
        cases hr : s.core.rw with
        | none => rfl
        | some x => simp [hr] at this
      have hnil : liveIdx s.core.conns = [] :=
        liveIdx_nil_of (fun i hi => by have := hinv.core.live_rw i hi; rw [hrw] at this; cases this)
      have h1 : TrInv (s.core.trace ++ [.opened s.core.conns.length s.core.now])
          (s.core.conns ++ [ConnSt.live false false]) := by
        have hs : openSet (s.core.trace ++ [.opened s.core.conns.length s.core.now]) =
            liveIdx (s.core.conns ++ [ConnSt.live false false]) := by
          rw [openSet_concat, liveIdx_append_live, ht.open_eq]; rfl
        have hl : (liveIdx (s.core.conns ++ [ConnSt.live false false])).length ≤ 1 := by
          rw [liveIdx_append_live, hnil]; simp
        refine ⟨?_, hs, hl⟩
        rw [atMostOne_concat, hs, ht.single]; simpa using hl
      exact TrInv.neutral h1 (e := .notify true _) rfl
    | openRefused k0 hk0 hpc => exact TrInv.neutral ht (e := .refused _) rfl
    | cancelled k0 hk0 hpc => exact ht
    | readMsg k0 c tag hk0 hpc => exact TrInv.neutral ht (e := .deliver _ _ _) rfl
    | readEof k0 c hk0 hpc => exact ht

theorem ctr_init : CTr init.core := ⟨rfl, rfl, by simp [liveIdx, init]⟩

theorem inv_ctr_run {ls : List Label} : ∀ {s s' : Sys}, Inv s → CTr s.core → run s ls = some s' → CTr s'.core := by
  induction ls with
  | nil => intro s s' _ ht h; simp only [run] at h; cases h; exact ht
  | cons l ls ih =>
    intro s s' hinv ht h
    simp only [run] at h
    cases hs : step s l with
    | none => rw [hs] at h; cases h
    | some s1 => rw [hs] at h; exact ih (inv_step hinv hs) (ctr_step hinv ht hs) h

theorem ctr_reachable {s : Sys} (h : Reachable s) : CTr s.core := by
  obtain ⟨ls, h⟩ := h
  exact inv_ctr_run inv_init ctr_init h


/-! ### `close()`: what the trace says about it -/

/-- `close()` has returned and `open_socket()` has not been called since: the last `apiOpen` /
    `apiCloseDone` event of the trace is an `apiCloseDone` -/
def closedNow (tr : List Ev) : Bool :=
  tr.foldl (fun b ev => match ev with
    | .apiCloseDone _ => true
    | .apiOpen _ => false
    | _ => b) false

/-- a `close()` call is in progress: the last `apiOpen` / `apiClose` / `apiCloseDone` event of the
    trace is an `apiClose` -/
def closing (tr : List Ev) : Bool :=
  tr.foldl (fun b ev => match ev with
    | .apiClose _ => true
    | .apiCloseDone _ | .apiOpen _ => false
    | _ => b) false

/-- events that matter to `closedNow` / `closing` -/
def apiEv : Ev → Bool
  | .apiOpen _ | .apiClose _ | .apiCloseDone _ => true
  | _ => false

theorem closedNow_concat (tr : List Ev) (e : Ev) :
    closedNow (tr ++ [e]) = match e with
      | .apiCloseDone _ => true
      | .apiOpen _ => false
      | _ => closedNow tr := by
  simp only [closedNow, List.foldl_append, List.foldl_cons, List.foldl_nil]

theorem closing_concat (tr : List Ev) (e : Ev) :
    closing (tr ++ [e]) = match e with
      | .apiClose _ => true
      | .apiCloseDone _ | .apiOpen _ => false
      | _ => closing tr := by
  simp only [closing, List.foldl_append, List.foldl_cons, List.foldl_nil]

/-- `c'` has the same `closing` / `closedNow` status as `c` -/
structure SameFlags (c c' : Core) : Prop where
  closing : closing c'.trace = closing c.trace
  closedNow : closedNow c'.trace = closedNow c.trace

theorem SameFlags.refl (c : Core) : SameFlags c c := ⟨rfl, rfl⟩
theorem SameFlags.trans {a b c : Core} (h1 : SameFlags a b) (h2 : SameFlags b c) : SameFlags a c :=
  ⟨h2.closing.trans h1.closing, h2.closedNow.trans h1.closedNow⟩

theorem sameFlags_emit (c : Core) {e : Ev} (he : apiEv e = false) : SameFlags c (c.emit e) := by
  constructor
  · show closing (c.trace ++ [e]) = _
    rw [closing_concat]; cases e <;> first | rfl | cases he
  · show closedNow (c.trace ++ [e]) = _
    rw [closedNow_concat]; cases e <;> first | rfl | cases he

theorem flags_append (evs : List Ev) : ∀ tr : List Ev, (∀ e ∈ evs, apiEv e = false) →
    closing (tr ++ evs) = closing tr ∧ closedNow (tr ++ evs) = closedNow tr := by
  induction evs with
  | nil => intro tr _; simp
  | cons e evs ih =>
    intro tr h
    have h1 := ih (tr ++ [e]) (fun e' he' => h e' (by simp [he']))
    have he := h e (by simp)
    have h2 : closing (tr ++ [e]) = closing tr := by rw [closing_concat]; cases e <;> first | rfl | cases he
    have h3 : closedNow (tr ++ [e]) = closedNow tr := by rw [closedNow_concat]; cases e <;> first | rfl | cases he
    simp only [List.append_assoc, List.singleton_append] at h1
    exact ⟨h1.1.trans h2, h1.2.trans h3⟩

theorem sameFlags_doWrite (c : Core) (w : Nat) (e : Entry) : SameFlags c (doWrite c w e).1 := by
  unfold doWrite
  split
  · exact sameFlags_emit _ rfl
  · exact (SameFlags.trans (a := c) (b := { c with conns := c.conns.set w (.dying true) }) ⟨rfl, rfl⟩
      (sameFlags_emit _ (e := .writeFault w e.sid c.now) rfl)).trans (sameFlags_emit _ (e := .lost w c.now) rfl)
  · exact sameFlags_emit _ rfl
  · exact sameFlags_emit _ rfl
  · exact sameFlags_emit _ rfl
  · exact SameFlags.refl _

theorem sameFlags_drainLoop (w : Nat) (q : List Entry) : ∀ c : Core, SameFlags c (drainLoop c w q).1 := by
  induction q with
  | nil => intro c; exact ⟨rfl, rfl⟩
  | cons e rest ih =>
    intro c
    simp only [drainLoop]
    split
    · exact ⟨rfl, rfl⟩
    split
    · exact (sameFlags_emit _ rfl).trans (ih _)
    · split
      · exact (sameFlags_emit _ rfl).trans (ih _)
      · have hw := sameFlags_doWrite c w e
        split
        · rename_i c' h; rw [h] at hw; exact hw.trans (ih _)
        · rename_i c' h; rw [h] at hw; exact hw.trans ⟨rfl, rfl⟩
        · rename_i c' h; rw [h] at hw; exact hw.trans ⟨rfl, rfl⟩

theorem sameFlags_drainLoop' {c c' : Core} {w : Nat} {q : List Entry} {st : DrainStop}
    (h : drainLoop c w q = (c', st)) : SameFlags c c' := by
  have := sameFlags_drainLoop w q c; rw [h] at this; exact this

theorem sameFlags_requeue (c : Core) (e : Entry) : SameFlags c (requeue c e) := by
  unfold requeue; split
  · exact sameFlags_emit _ rfl
  · exact ⟨rfl, rfl⟩

theorem sameFlags_closeConn (c : Core) (w : Nat) : SameFlags c (closeConn c w) := by
  unfold closeConn; split
  · exact SameFlags.trans (a := c) (b := { c with conns := c.conns.set w (.dying false) }) ⟨rfl, rfl⟩
      (sameFlags_emit _ (e := .clientClose w c.now) rfl)
  · exact SameFlags.refl _

/-- what the tail of `close` needs to know when it resumes -/
def CloseOk (c : Core) : Kont → Prop
  | .ret _ => c.rw = none
  | .discTail w _ => c.rw = none ∨ c.rw = w
  | .disconnect _ => True
  | .drain _ => False

/-- `exec` and the end of `close()`: either the `closing` / `closedNow` status is unchanged (and a task
    left inside `close` still knows enough about `rw`), or `close()` has just returned, after
    clearing `rw` -/
def CloseRes (c : Core) (k : Kont) (out : Out) : Prop :=
  (closing out.core.trace = closing c.trace ∧ closedNow out.core.trace = closedNow c.trace ∧
    (∀ w r, out.pc = .discWait w r → closeRet r = true → out.core.rw = none ∨ out.core.rw = some w) ∧
    (∀ r, out.pc = .notifyWait r → closeRet r = true → out.core.rw = none)) ∨
  (kClose k = true ∧ out.pc = .finished ∧ closing out.core.trace = false ∧
    closedNow out.core.trace = true ∧ out.core.rw = none)

theorem exec_close (fuel : Nat) (c : Core) (sp : List Pc) (k : Kont) (hok : kClose k = true → CloseOk c k) :
    CloseRes c k (exec fuel c sp k) := by
  unfold CloseRes
  fun_induction exec fuel c sp k
  case case4 c' hd ih =>
    have h1 := sameFlags_drainLoop' hd
    have h2 := (shrink_drainLoop' hd).rw
    have := h1.closing; have := h1.closedNow
    grind [kClose, CloseOk, closeRet]
  case case5 c' e hd =>
    have h1 := sameFlags_drainLoop' hd
    have := h1.closing; have := h1.closedNow
    grind [kClose, CloseOk, closeRet]
  case case6 c' e hd ih =>
    have h1 := (sameFlags_drainLoop' hd).trans (sameFlags_requeue c' e)
    have := h1.closing; have := h1.closedNow
    grind [kClose, CloseOk, closeRet]
  case case7 fuel c sp r w hw =>
    have h1 := sameFlags_closeConn c w
    have h2 := (shrink_closeConn c w).rw
    have := h1.closing; have := h1.closedNow
    grind [kClose, CloseOk, closeRet]
  case case9 fuel c sp r =>
    have h1 := sameFlags_emit { c with isConnected := false, rw := none } (e := .notify false c.now) rfl
    have := h1.closing; have := h1.closedNow
    grind [kClose, CloseOk, closeRet, Core.emit]
  case case12 n c sp =>
    have h1 := closing_concat c.trace (.apiCloseDone c.now)
    have h2 := closedNow_concat c.trace (.apiCloseDone c.now)
    grind [kClose, CloseOk, closeRet, Core.emit]
  all_goals grind [kClose, CloseOk, closeRet]


/-! ### the invariant of histories in which `open_socket` / `close` are not called during a `close` -/

def AllBgDone (s : Sys) : Prop :=
  ∀ (i : Nat) (k : Model.Sock.Task), s.tasks[i]? = some k → k.bg = true → k.pc = .finished

structure CInv (s : Sys) : Prop where
  excl : closing s.core.trace = true → closedNow s.core.trace = false
  closing_open : closing s.core.trace = true → s.core.isOpen = false
  closed_open : closedNow s.core.trace = true → s.core.isOpen = false
  close_api : ∀ (i : Nat) (k : Model.Sock.Task), s.tasks[i]? = some k → closePc k.pc = true → k.bg = false
  no_close_task : closing s.core.trace = false →
    ∀ (i : Nat) (k : Model.Sock.Task), s.tasks[i]? = some k → closePc k.pc = false
  one_close_task : ∀ (i j : Nat) (k k' : Model.Sock.Task), s.tasks[i]? = some k → s.tasks[j]? = some k' →
    closePc k.pc = true → closePc k'.pc = true → i = j
  close_disc : ∀ (i : Nat) (k : Model.Sock.Task) (w : Nat) (r : Ret), s.tasks[i]? = some k →
    k.pc = .discWait w r → closeRet r = true → (s.core.rw = none ∨ s.core.rw = some w) ∧ AllBgDone s
  close_notify : ∀ (i : Nat) (k : Model.Sock.Task) (r : Ret), s.tasks[i]? = some k →
    k.pc = .notifyWait r → closeRet r = true → s.core.rw = none ∧ AllBgDone s
  idle : s.core.isOpen = false → closing s.core.trace = false → s.core.rw = none ∧ AllBgDone s

theorem spawnPc_not_close {p : Pc} (h : spawnPc p = true) : closePc p = false := by
  cases p <;> simp_all [spawnPc, closePc]

theorem allBgDone_upd {s : Sys} {t : Nat} {k0 : Task} {out : Out} (h : AllBgDone s) (ht : s.tasks[t]? = some k0)
    (hbg : k0.bg = false) (hsp : out.spawned = []) : AllBgDone (upd s t out) := by
  intro i k hk hb
  rcases upd_task hk with ⟨_, k1, hk1, rfl⟩ | ⟨_, h'⟩ | ⟨_, _, h'⟩
  · rw [ht] at hk1; cases hk1; rw [hbg] at hb; cases hb
  · exact h i k h' hb
  · rw [hsp] at h'; cases h'

theorem allBgDone_spawnApi {s : Sys} {out : Out} (h : AllBgDone s) (hsp : out.spawned = []) :
    AllBgDone (spawnApi s out) := by
  intro i k hk hb
  rcases spawnApi_task hk with h' | ⟨_, rfl⟩ | ⟨_, _, h'⟩
  · exact h i k h' hb
  · cases hb
  · rw [hsp] at h'; cases h'

/-- the environment (or a queue / trace update) changed the socket state -/
theorem cinv_core {s : Sys} {c' : Core} (hc : CInv s) (hf : SameFlags s.core c') (hrw : c'.rw = s.core.rw)
    (ho : c'.isOpen = s.core.isOpen) : CInv { s with core := c' } := by
  refine ⟨?_, ?_, ?_, hc.close_api, ?_, hc.one_close_task, ?_, ?_, ?_⟩
  · show closing c'.trace = true → closedNow c'.trace = false
    rw [hf.closing, hf.closedNow]; exact hc.excl
  · show closing c'.trace = true → c'.isOpen = false
    rw [hf.closing, ho]; exact hc.closing_open
  · show closedNow c'.trace = true → c'.isOpen = false
    rw [hf.closedNow, ho]; exact hc.closed_open
  · show closing c'.trace = false → _
    rw [hf.closing]; exact hc.no_close_task
  · intro i k w r hk hp hr
    show (c'.rw = none ∨ c'.rw = some w) ∧ AllBgDone s
    rw [hrw]; exact hc.close_disc i k w r hk hp hr
  · intro i k r hk hp hr
    show c'.rw = none ∧ AllBgDone s
    rw [hrw]; exact hc.close_notify i k r hk hp hr
  · show c'.isOpen = false → closing c'.trace = false → c'.rw = none ∧ AllBgDone s
    rw [hf.closing, ho, hrw]; exact hc.idle

/-- an API event on a socket that is not in the middle of a `close()` -/
theorem cinv_core_idle {s : Sys} {c' : Core} (hc : CInv s) (hcl : closing s.core.trace = false)
    (hcl' : closing c'.trace = false) (hco : closedNow c'.trace = true → c'.isOpen = false)
    (hidle : c'.isOpen = false → s.core.isOpen = false ∧ c'.rw = s.core.rw) : CInv { s with core := c' } := by
  have hno := hc.no_close_task hcl
  refine ⟨?_, ?_, hco, hc.close_api, fun _ => hno, hc.one_close_task, ?_, ?_, ?_⟩
  · intro h; have : closing c'.trace = true := h; rw [hcl'] at this; cases this
  · intro h; have : closing c'.trace = true := h; rw [hcl'] at this; cases this
  · intro i k w r hk hp hr
    have := hno i k hk; rw [hp] at this; simp [closePc, hr] at this
  · intro i k r hk hp hr
    have := hno i k hk; rw [hp] at this; simp [closePc, hr] at this
  · intro ho _
    have ho' : c'.isOpen = false := ho
    obtain ⟨h1, h2⟩ := hidle ho'
    show c'.rw = none ∧ AllBgDone s
    rw [h2]; exact hc.idle h1 hcl

/-- a background task that still has something to do runs a block: `close()` cannot be past its
    `gather`, and the socket cannot be idle -/
theorem cinv_upd_bg {s : Sys} {t : Nat} {k0 : Task} {out : Out} (hc : CInv s) (ht : s.tasks[t]? = some k0)
    (hbg : k0.bg = true) (hnf : k0.pc ≠ .finished) (hf : SameFlags s.core out.core)
    (ho : out.core.isOpen = s.core.isOpen) (hpc : closePc out.pc = false)
    (hsp : ∀ p ∈ out.spawned, spawnPc p = true) : CInv (upd s t out) := by
  have hnall : ¬ AllBgDone s := fun h => hnf (h t k0 ht hbg)
  have horig : ∀ (i : Nat) (k : Model.Sock.Task), (upd s t out).tasks[i]? = some k → closePc k.pc = true →
      s.tasks[i]? = some k := by
    intro i k hk hcp
    rcases upd_task hk with ⟨_, k1, _, rfl⟩ | ⟨_, h⟩ | ⟨_, _, h⟩
    · rw [hpc] at hcp; cases hcp
    · exact h
    · rw [spawnPc_not_close (hsp _ h)] at hcp; cases hcp
  refine ⟨?_, ?_, ?_, ?_, ?_, ?_, ?_, ?_, ?_⟩
  · show closing out.core.trace = true → closedNow out.core.trace = false
    rw [hf.closing, hf.closedNow]; exact hc.excl
  · show closing out.core.trace = true → out.core.isOpen = false
    rw [hf.closing, ho]; exact hc.closing_open
  · show closedNow out.core.trace = true → out.core.isOpen = false
    rw [hf.closedNow, ho]; exact hc.closed_open
  · intro i k hk hcp; exact hc.close_api i k (horig i k hk hcp) hcp
  · intro hcl i k hk
    have hcl' : closing s.core.trace = false := by rw [← hf.closing]; exact hcl
    cases hcp : closePc k.pc with
    | false => rfl
    | true => rw [← hcp]; exact hc.no_close_task hcl' i k (horig i k hk hcp)
  · intro i j k k' hk hk' hcp hcp'
    exact hc.one_close_task i j k k' (horig i k hk hcp) (horig j k' hk' hcp') hcp hcp'
  · intro i k w r hk hp hr
    have hcp : closePc k.pc = true := by rw [hp]; exact hr
    exact absurd (hc.close_disc i k w r (horig i k hk hcp) hp hr).2 hnall
  · intro i k r hk hp hr
    have hcp : closePc k.pc = true := by rw [hp]; exact hr
    exact absurd (hc.close_notify i k r (horig i k hk hcp) hp hr).2 hnall
  · intro hop hcl
    have hop' : s.core.isOpen = false := by rw [← ho]; exact hop
    have hcl' : closing s.core.trace = false := by rw [← hf.closing]; exact hcl
    exact absurd (hc.idle hop' hcl').2 hnall


/-- an API-call task (`a`; new, or resumed) runs a block; `cl`: it is the task executing `close()` -/
theorem cinv_act {s s' : Sys} {a : Nat} {out : Out} (cl : Bool) (hc : CInv s) (hcore : s'.core = out.core)
    (horig : ∀ (i : Nat) (k : Model.Sock.Task), s'.tasks[i]? = some k →
      (i = a ∧ k.pc = out.pc ∧ k.bg = false) ∨ (i ≠ a ∧ s.tasks[i]? = some k) ∨ (k.bg = true ∧ k.pc ∈ out.spawned))
    (hopen : out.core.isOpen = s.core.isOpen) (hrw : out.core.rw = s.core.rw ∨ out.core.rw = none)
    (hsp : ∀ p ∈ out.spawned, p = .connStart) (hsp0 : s.core.isOpen = false → out.spawned = [])
    (hnc : closePc out.pc = true → cl = true)
    (hcl_closing : cl = true → closing s.core.trace = true)
    (hcl_others : cl = true → ∀ (i : Nat) (k : Model.Sock.Task), i ≠ a → s.tasks[i]? = some k → closePc k.pc = false)
    (hAll : cl = true → out.pc ≠ .closeGather → AllBgDone s)
    (hres : (closing out.core.trace = closing s.core.trace ∧ closedNow out.core.trace = closedNow s.core.trace ∧
        (∀ w r, out.pc = .discWait w r → closeRet r = true → out.core.rw = none ∨ out.core.rw = some w) ∧
        (∀ r, out.pc = .notifyWait r → closeRet r = true → out.core.rw = none)) ∨
      (cl = true ∧ out.pc = .finished ∧ closing out.core.trace = false ∧ closedNow out.core.trace = true ∧
        out.core.rw = none)) : CInv s' := by
  have hAllNew : AllBgDone s → s.core.isOpen = false → AllBgDone s' := by
    intro h ho i k hk hb
    rcases horig i k hk with ⟨_, _, hb'⟩ | ⟨_, h'⟩ | ⟨_, h'⟩
    · rw [hb'] at hb; cases hb
    · exact h i k h' hb
    · rw [hsp0 ho] at h'; cases h'
  have hspn : ∀ p ∈ out.spawned, closePc p = false := by
    intro p hp; rw [hsp p hp]; rfl
  -- where a task inside `close` in the new table comes from
  have hclose : ∀ (i : Nat) (k : Model.Sock.Task), s'.tasks[i]? = some k → closePc k.pc = true →
      (i = a ∧ k.pc = out.pc ∧ k.bg = false ∧ cl = true) ∨ (i ≠ a ∧ s.tasks[i]? = some k ∧ cl = false) := by
    intro i k hk hcp
    rcases horig i k hk with ⟨h1, h2, h3⟩ | ⟨h1, h2⟩ | ⟨_, h'⟩
    · exact .inl ⟨h1, h2, h3, hnc (by rw [← h2]; exact hcp)⟩
    · refine .inr ⟨h1, h2, ?_⟩
      cases hcl : cl with
      | false => rfl
      | true => have := hcl_others hcl i k h1 h2; rw [hcp] at this; cases this
    · rw [hspn _ h'] at hcp; cases hcp
  rw [show s' = { core := out.core, tasks := s'.tasks } by cases s'; simp at hcore; simp [hcore]]
  rcases hres with ⟨hf1, hf2, hd, hn⟩ | ⟨hcl, hfin, hf1, hf2, hrw0⟩
  · refine ⟨?_, ?_, ?_, ?_, ?_, ?_, ?_, ?_, ?_⟩
    · show closing out.core.trace = true → closedNow out.core.trace = false
      rw [hf1, hf2]; exact hc.excl
    · show closing out.core.trace = true → out.core.isOpen = false
      rw [hf1, hopen]; exact hc.closing_open
    · show closedNow out.core.trace = true → out.core.isOpen = false
      rw [hf2, hopen]; exact hc.closed_open
    · intro i k hk hcp
      rcases hclose i k hk hcp with ⟨_, _, hb, _⟩ | ⟨_, h', _⟩
      · exact hb
      · exact hc.close_api i k h' hcp
    · intro hcl' i k hk
      have hcl'' : closing s.core.trace = false := by rw [← hf1]; exact hcl'
      cases hcp : closePc k.pc with
      | false => rfl
      | true =>
        rcases hclose i k hk hcp with ⟨_, _, _, hcl⟩ | ⟨_, h', _⟩
        · rw [hcl_closing hcl] at hcl''; cases hcl''
        · rw [← hcp]; exact hc.no_close_task hcl'' i k h'
    · intro i j k k' hk hk' hcp hcp'
      rcases hclose i k hk hcp with ⟨hi, _, _, hcl⟩ | ⟨_, h1, hcl⟩
      · rcases hclose j k' hk' hcp' with ⟨hj, _, _, _⟩ | ⟨_, _, hcl'⟩
        · rw [hi, hj]
        · rw [hcl] at hcl'; cases hcl'
      · rcases hclose j k' hk' hcp' with ⟨_, _, _, hcl'⟩ | ⟨_, h2, _⟩
        · rw [hcl] at hcl'; cases hcl'
        · exact hc.one_close_task i j k k' h1 h2 hcp hcp'
    · intro i k w r hk hp hr
      have hcp : closePc k.pc = true := by rw [hp]; exact hr
      show (out.core.rw = none ∨ out.core.rw = some w) ∧ AllBgDone _
      rcases hclose i k hk hcp with ⟨_, hpc, _, hcl⟩ | ⟨_, h', _⟩
      · have ho := hc.closing_open (hcl_closing hcl)
        refine ⟨hd w r (by rw [← hpc, hp]) hr, hAllNew (hAll hcl ?_) ho⟩
        rw [← hpc, hp]; exact fun h => by cases h
      · obtain ⟨h1, h2⟩ := hc.close_disc i k w r h' hp hr
        have hcls : closing s.core.trace = true := by
          cases hx : closing s.core.trace with
          | true => rfl
          | false => have := hc.no_close_task hx i k h'; rw [hcp] at this; cases this
        refine ⟨?_, hAllNew h2 (hc.closing_open hcls)⟩
        rcases hrw with h | h
        · rw [h]; exact h1
        · exact .inl h
    · intro i k r hk hp hr
      have hcp : closePc k.pc = true := by rw [hp]; exact hr
      show out.core.rw = none ∧ AllBgDone _
      rcases hclose i k hk hcp with ⟨_, hpc, _, hcl⟩ | ⟨_, h', _⟩
      · have ho := hc.closing_open (hcl_closing hcl)
        refine ⟨hn r (by rw [← hpc, hp]) hr, hAllNew (hAll hcl ?_) ho⟩
        rw [← hpc, hp]; exact fun h => by cases h
      · obtain ⟨h1, h2⟩ := hc.close_notify i k r h' hp hr
        have hcls : closing s.core.trace = true := by
          cases hx : closing s.core.trace with
          | true => rfl
          | false => have := hc.no_close_task hx i k h'; rw [hcp] at this; cases this
        refine ⟨?_, hAllNew h2 (hc.closing_open hcls)⟩
        rcases hrw with h | h
        · rw [h]; exact h1
        · exact h
    · intro ho hcl'
      have ho' : s.core.isOpen = false := by rw [← hopen]; exact ho
      have hcl'' : closing s.core.trace = false := by rw [← hf1]; exact hcl'
      obtain ⟨h1, h2⟩ := hc.idle ho' hcl''
      refine ⟨?_, hAllNew h2 ho'⟩
      show out.core.rw = none
      rcases hrw with h | h
      · rw [h]; exact h1
      · exact h
  · have hcls := hcl_closing hcl
    have ho := hc.closing_open hcls
    have hno : ∀ (i : Nat) (k : Model.Sock.Task), s'.tasks[i]? = some k → closePc k.pc = false := by
      intro i k hk
      cases hcp : closePc k.pc with
      | false => rfl
      | true =>
        rcases hclose i k hk hcp with ⟨_, hpc, _, _⟩ | ⟨_, _, hcl'⟩
        · rw [hpc, hfin] at hcp; cases hcp
        · rw [hcl] at hcl'; cases hcl'
    refine ⟨?_, ?_, ?_, ?_, fun _ => hno, ?_, ?_, ?_, ?_⟩
    · intro h; have : closing out.core.trace = true := h; rw [hf1] at this; cases this
    · intro h; have : closing out.core.trace = true := h; rw [hf1] at this; cases this
    · intro _; show out.core.isOpen = false; rw [hopen]; exact ho
    · intro i k hk hcp; rw [hno i k hk] at hcp; cases hcp
    · intro i j k k' hk _ hcp; rw [hno i k hk] at hcp; cases hcp
    · intro i k w r hk hp hr
      have := hno i k hk; rw [hp] at this; simp [closePc, hr] at this
    · intro i k r hk hp hr
      have := hno i k hk; rw [hp] at this; simp [closePc, hr] at this
    · intro _ _
      exact ⟨hrw0, hAllNew (hAll hcl (by rw [hfin]; exact fun h => by cases h)) ho⟩


theorem ExecCase.sameFlags {s : Sys} {pc : Pc} {c0 : Core} {kont : Kont} (h : ExecCase s pc c0 kont) :
    SameFlags s.core c0 := by
  cases h <;> first | exact SameFlags.refl _ | exact sameFlags_requeue _ _

theorem upd_orig {s : Sys} {t : Nat} {k0 : Task} {out : Out} (ht : s.tasks[t]? = some k0) (hbg : k0.bg = false) :
    ∀ (i : Nat) (k : Model.Sock.Task), (upd s t out).tasks[i]? = some k →
      (i = t ∧ k.pc = out.pc ∧ k.bg = false) ∨ (i ≠ t ∧ s.tasks[i]? = some k) ∨ (k.bg = true ∧ k.pc ∈ out.spawned) := by
  intro i k hk
  rcases upd_task hk with ⟨h1, k1, hk1, rfl⟩ | ⟨h1, h2⟩ | ⟨_, h1, h2⟩
  · rw [ht] at hk1; cases hk1; exact .inl ⟨h1, rfl, hbg⟩
  · exact .inr (.inl ⟨h1, h2⟩)
  · exact .inr (.inr ⟨h1, h2⟩)

theorem spawnApi_orig {s : Sys} {out : Out} :
    ∀ (i : Nat) (k : Model.Sock.Task), (spawnApi s out).tasks[i]? = some k →
      (i = s.tasks.length ∧ k.pc = out.pc ∧ k.bg = false) ∨ (i ≠ s.tasks.length ∧ s.tasks[i]? = some k) ∨
        (k.bg = true ∧ k.pc ∈ out.spawned) := by
  intro i k hk
  rcases spawnApi_task hk with h | ⟨h1, rfl⟩ | ⟨_, h1, h2⟩
  · refine .inr (.inl ⟨?_, h⟩)
    intro e; subst e; simp at h
  · exact .inl ⟨h1, rfl, rfl⟩
  · exact .inr (.inr ⟨h1, h2⟩)

/-- the blocks run by `exec`, under the `close` discipline -/
theorem cinv_run_exec {s : Sys} {t : Nat} {k0 : Task} {pc : Pc} {c0 : Core} {kont : Kont} (hinv : Inv s) (hc : CInv s)
    (ht : s.tasks[t]? = some k0) (hpc : k0.pc = pc) (hcase : ExecCase s pc c0 kont) :
    CInv (upd s t (exec FUEL c0 [] kont)) := by
  obtain ⟨hno, hnf, hapi, hcp⟩ := hcase.pc_ok
  have hfr := exec_frame FUEL c0 [] kont
  have hsh := hcase.shrink
  have hsf := hcase.sameFlags
  cases hbg : k0.bg with
  | true =>
    have hk : kClose kont = false := by
      rw [← hcp]
      cases hx : closePc pc with
      | false => rfl
      | true => have := hc.close_api t k0 ht (by rw [hpc]; exact hx); rw [hbg] at this; cases this
    have hres := exec_close FUEL c0 [] kont (fun h => by rw [hk] at h; cases h)
    refine cinv_upd_bg hc ht hbg (by rw [hpc]; exact hnf) ?_ (hfr.isOpen.trans hsh.isOpen) (exec_noClose _ _ _ _ hk) ?_
    · rcases hres with ⟨h1, h2, _⟩ | ⟨h1, _⟩
      · exact hsf.trans ⟨h1, h2⟩
      · rw [hk] at h1; cases h1
    · intro p hp
      rcases exec_spawned _ _ _ _ p hp with h | h
      · cases h
      · exact h
  | false =>
    have hapi0 : apiPc pc = true := by rw [← hpc]; exact hinv.api t k0 ht hbg
    have hka := hapi hapi0
    have hex := exec_api FUEL c0 [] kont hka
    have hcls : closePc pc = true → closing s.core.trace = true := by
      intro hx
      cases hy : closing s.core.trace with
      | true => rfl
      | false => have := hc.no_close_task hy t k0 ht; rw [hpc, hx] at this; cases this
    -- the task executing `close()` is past `gather`, or about to pass it
    have hAll : closePc pc = true → AllBgDone s := by
      intro hx
      cases hcase with
      | closed w r exc hd => exact (hc.close_disc t k0 w r ht hpc hx).2
      | notified r => exact (hc.close_notify t k0 r ht hpc hx).2
      | gathered hg =>
        intro i k hk hb
        have h1 := hinv.closed_bg (hc.closing_open (hcls hx)) i k hk hb
        have h2 : ¬ (k.pc = .cancelledOpening) := by
          intro e
          have : anyCancelPending s.tasks = true := by
            simp only [anyCancelPending, List.any_eq_true]
            exact ⟨k, List.mem_of_getElem? hk, by simp [e]⟩
          rw [hg] at this; cases this
        revert h1 h2; cases k.pc <;> simp [cancelledPc]
      | drainOk w e r => simp [apiPc, closePc] at hapi0 hx; rw [hx] at hapi0; simp at hapi0
      | drainErr w e r _ => simp [apiPc, closePc] at hapi0 hx; rw [hx] at hapi0; simp at hapi0
      | readStart => cases hx
      | readBad c => cases hx
      | readFail c => cases hx
    have hok : kClose kont = true → CloseOk c0 kont := by
      intro hx
      rw [← hcp] at hx
      cases hcase with
      | closed w r exc hd => exact (hc.close_disc t k0 w r ht hpc hx).1
      | notified r => exact (hc.close_notify t k0 r ht hpc hx).1
      | gathered hg => trivial
      | drainOk w e r => simp [apiPc, closePc] at hapi0 hx; rw [hx] at hapi0; simp at hapi0
      | drainErr w e r _ => trivial
      | readStart => cases hx
      | readBad c => trivial
      | readFail c => trivial
    have hres := exec_close FUEL c0 [] kont hok
    refine cinv_act (closePc pc) hc rfl (upd_orig ht hbg) (hfr.isOpen.trans hsh.isOpen) ?_ ?_ ?_ ?_ hcls ?_
      (fun h _ => hAll h) ?_
    · rcases hfr.rw with h | h
      · exact .inl (h.trans hsh.rw)
      · exact .inr h
    · intro p hp
      rcases hex.2 p hp with h | ⟨h, _⟩
      · cases h
      · exact h
    · intro ho
      apply List.eq_nil_iff_forall_not_mem.mpr
      intro p hp
      rcases hex.2 p hp with h | ⟨_, h⟩
      · cases h
      · rw [hsh.isOpen, ho] at h; cases h
    · intro hx
      cases hy : kClose kont with
      | true => rw [hcp]; exact hy
      | false => rw [exec_noClose _ _ _ _ hy] at hx; cases hx
    · intro hx i k hne hk
      cases hy : closePc k.pc with
      | false => rfl
      | true => exact absurd (hc.one_close_task i t k k0 hk ht hy (by rw [hpc]; exact hx)) hne
    · rcases hres with ⟨h1, h2, h3, h4⟩ | ⟨h1, h2, h3, h4, h5⟩
      · exact .inl ⟨h1.trans hsf.closing, h2.trans hsf.closedNow, h3, h4⟩
      · exact .inr ⟨by rw [hcp]; exact h1, h2, h3, h4, h5⟩


theorem bg_of_not_api {s : Sys} {t : Nat} {k0 : Task} (hinv : Inv s) (ht : s.tasks[t]? = some k0)
    (h : apiPc k0.pc = false) : k0.bg = true := by
  cases hb : k0.bg with
  | true => rfl
  | false => have := hinv.api t k0 ht hb; rw [h] at this; cases this

/-- a new API-call task that is not `close()` and finishes at once -/
theorem cinv_spawnApi_plain {s : Sys} {out : Out} (hc : CInv s) (hf : SameFlags s.core out.core)
    (hrw : out.core.rw = s.core.rw) (ho : out.core.isOpen = s.core.isOpen) (hpc : closePc out.pc = false)
    (hsp : ∀ p ∈ out.spawned, p = .connStart) (hsp0 : s.core.isOpen = false → out.spawned = []) :
    CInv (spawnApi s out) :=
  cinv_act false hc rfl spawnApi_orig ho (.inl hrw) hsp hsp0 (fun h => by rw [hpc] at h; cases h)
    (fun h => by cases h) (fun h => by cases h) (fun h => by cases h)
    (.inl ⟨hf.closing, hf.closedNow, fun w r h hr => by rw [h] at hpc; simp [closePc, hr] at hpc,
      fun r h hr => by rw [h] at hpc; simp [closePc, hr] at hpc⟩)

/-- a new API-call task other than `close()` runs its first block -/
theorem cinv_spawnApi_exec {s : Sys} {c0 : Core} {kont : Kont} (hc : CInv s) (hs : Shrink s.core c0)
    (hf : SameFlags s.core c0) (hapi : kApi kont = true) (hk : kClose kont = false) :
    CInv (spawnApi s (exec FUEL c0 [] kont)) := by
  have hfr := exec_frame FUEL c0 [] kont
  have hex := exec_api FUEL c0 [] kont hapi
  have hres := exec_close FUEL c0 [] kont (fun h => by rw [hk] at h; cases h)
  have hpc := exec_noClose FUEL c0 [] kont hk
  refine cinv_act false hc rfl spawnApi_orig (hfr.isOpen.trans hs.isOpen) ?_ ?_ ?_
    (fun h => by rw [hpc] at h; cases h) (fun h => by cases h) (fun h => by cases h) (fun h => by cases h) ?_
  · rcases hfr.rw with h | h
    · exact .inl (h.trans hs.rw)
    · exact .inr h
  · intro p hp
    rcases hex.2 p hp with h | ⟨h, _⟩
    · cases h
    · exact h
  · intro ho
    apply List.eq_nil_iff_forall_not_mem.mpr
    intro p hp
    rcases hex.2 p hp with h | ⟨_, h⟩
    · cases h
    · rw [hs.isOpen, ho] at h; cases h
  · rcases hres with ⟨h1, h2, h3, h4⟩ | ⟨h1, _⟩
    · exact .inl ⟨h1.trans hf.closing, h2.trans hf.closedNow, h3, h4⟩
    · rw [hk] at h1; cases h1

/-- `close()` on an open socket: every background task is cancelled -/
theorem cinv_cancel {s : Sys} {c' : Core} (hc : CInv s) (hcl : closing s.core.trace = false)
    (ho : s.core.isOpen = true) (hcl' : closing c'.trace = true) (hco : closedNow c'.trace = closedNow s.core.trace) :
    CInv { core := { c' with isOpen := false }, tasks := s.tasks.map cancelTask } ∧
    ∀ (i : Nat) (k : Model.Sock.Task), (s.tasks.map cancelTask)[i]? = some k → closePc k.pc = false := by
  have hno : ∀ (i : Nat) (k : Model.Sock.Task), (s.tasks.map cancelTask)[i]? = some k → closePc k.pc = false := by
    intro i k hk
    simp only [List.getElem?_map, Option.map_eq_some_iff] at hk
    obtain ⟨k1, hk1, rfl⟩ := hk
    have h1 := hc.no_close_task hcl i k1 hk1
    obtain ⟨pc, bg⟩ := k1
    revert h1
    cases bg <;> cases pc <;> simp [cancelTask, closePc]
  refine ⟨⟨?_, fun _ => rfl, fun _ => rfl, ?_, fun _ => hno, ?_, ?_, ?_, ?_⟩, hno⟩
  · intro _
    show closedNow c'.trace = false
    rw [hco]
    cases hx : closedNow s.core.trace with
    | false => rfl
    | true => have := hc.closed_open hx; rw [ho] at this; cases this
  · intro i k hk hcp; rw [hno i k hk] at hcp; cases hcp
  · intro i j k k' hk _ hcp; rw [hno i k hk] at hcp; cases hcp
  · intro i k w r hk hp hr
    have := hno i k hk; rw [hp] at this; simp [closePc, hr] at this
  · intro i k r hk hp hr
    have := hno i k hk; rw [hp] at this; simp [closePc, hr] at this
  · intro _ h
    have : closing c'.trace = false := h
    rw [hcl'] at this; cases this

/-- the calling discipline: `open_socket()` and `close()` are not called while a `close()` is in progress -/
def disciplined (s : Sys) : Label → Bool
  | .apiOpen | .apiClose => !closing s.core.trace
  | _ => true

theorem cinv_step {s s' : Sys} {l : Label} (hinv : Inv s) (hc : CInv s) (hd : disciplined s l = true)
    (h : step s l = some s') : CInv s' := by
  cases l with
  | advance t =>
    simp only [step] at h
    split at h
    · cases h; exact cinv_core hc ⟨rfl, rfl⟩ rfl rfl
    · cases h
  | envLost cid =>
    simp only [step] at h
    split at h
    · cases h
      exact cinv_core hc (SameFlags.trans (a := s.core) (b := { s.core with conns := s.core.conns.set cid (.dying true) })
        ⟨rfl, rfl⟩ (sameFlags_emit _ (e := .lost cid s.core.now) rfl)) rfl rfl
    · cases h
  | envLostRan cid =>
    simp only [step] at h
    split at h
    · cases h; exact cinv_core hc ⟨rfl, rfl⟩ rfl rfl
    · cases h
  | envPause cid b =>
    simp only [step] at h
    split at h
    · cases h; exact cinv_core hc ⟨rfl, rfl⟩ rfl rfl
    · cases h
  | envFailWrites cid b =>
    simp only [step] at h
    split at h
    · cases h; exact cinv_core hc ⟨rfl, rfl⟩ rfl rfl
    · cases h
  | apiOpen =>
    have hcl : closing s.core.trace = false := by simpa [disciplined] using hd
    simp only [step] at h
    have h1 : closing (s.core.emit (.apiOpen s.core.now)).trace = false := closing_concat _ _
    have h2 : closedNow (s.core.emit (.apiOpen s.core.now)).trace = false := closedNow_concat _ _
    split at h
    · rename_i ho
      cases h
      have hc1 : CInv { s with core := s.core.emit (.apiOpen s.core.now) } :=
        cinv_core_idle hc hcl h1 (fun h => by rw [h2] at h; cases h) (fun h => by rw [ho] at h; cases h)
      exact cinv_spawnApi_plain (s := { s with core := s.core.emit (.apiOpen s.core.now) }) hc1 (SameFlags.refl _)
        rfl rfl rfl (by simp) (fun _ => rfl)
    · cases h
      have hc1 : CInv { s with core := { s.core.emit (.apiOpen s.core.now) with isOpen := true } } :=
        cinv_core_idle hc hcl h1 (fun h => by rw [h2] at h; cases h) (fun h => by cases h)
      exact cinv_spawnApi_plain (s := { s with core := { s.core.emit (.apiOpen s.core.now) with isOpen := true } })
        hc1 ⟨rfl, rfl⟩ rfl rfl rfl (by simp) (fun h => by cases h)
  | apiClose =>
    have hcl : closing s.core.trace = false := by simpa [disciplined] using hd
    simp only [step] at h
    split at h
    · rename_i ho
      have ho' : s.core.isOpen = false := by simpa [Core.emit] using ho
      cases h
      have hc1 : CInv { s with core := (s.core.emit (.apiClose s.core.now)).emit (.apiCloseDone s.core.now) } :=
        cinv_core_idle hc hcl (closing_concat _ _) (fun _ => ho') (fun _ => ⟨ho', rfl⟩)
      exact cinv_spawnApi_plain
        (s := { s with core := (s.core.emit (.apiClose s.core.now)).emit (.apiCloseDone s.core.now) }) hc1
        (SameFlags.refl _) rfl rfl rfl (by simp) (fun _ => rfl)
    · rename_i ho
      have ho' : s.core.isOpen = true := by simpa [Core.emit] using ho
      have hcl1 : closing (s.core.emit (.apiClose s.core.now)).trace = true := closing_concat _ _
      have hco1 : closedNow (s.core.emit (.apiClose s.core.now)).trace = closedNow s.core.trace :=
        closedNow_concat _ _
      obtain ⟨hc1, hno⟩ := cinv_cancel hc hcl ho' hcl1 hco1
      split at h
      · cases h
        refine cinv_act true hc1 rfl spawnApi_orig rfl (.inl rfl) (by simp) (fun _ => rfl) (fun _ => rfl)
          (fun _ => hcl1) (fun _ i k _ hk => hno i k hk) (fun _ h => absurd rfl h) ?_
        exact .inl ⟨rfl, rfl, fun w r h => (by cases h), fun r h => (by cases h)⟩
      · rename_i hbg
        cases h
        have hall : AllBgDone { core := { s.core.emit (.apiClose s.core.now) with isOpen := false },
                                tasks := s.tasks.map cancelTask } := by
          intro i k hk hb
          simp only [List.getElem?_map, Option.map_eq_some_iff] at hk
          obtain ⟨k1, hk1, rfl⟩ := hk
          have hb1 : k1.bg = true := by rw [← (cancelTask_spec k1).1]; exact hb
          have : k1.pc = .finished := by
            have hx : ¬ (s.tasks.any (fun k => k.bg && decide (k.pc ≠ .finished)) = true) := hbg
            simp only [List.any_eq_true, not_exists, not_and] at hx
            have := hx k1 (List.mem_of_getElem? hk1)
            simpa [hb1] using this
          obtain ⟨pc, bg⟩ := k1
          simp only at this hb1
          subst this; subst hb1
          rfl
        have hfr := exec_frame FUEL { s.core.emit (.apiClose s.core.now) with isOpen := false } []
          (.disconnect .closeTail)
        have hex := exec_api FUEL { s.core.emit (.apiClose s.core.now) with isOpen := false } []
          (.disconnect .closeTail) rfl
        have hres := exec_close FUEL { s.core.emit (.apiClose s.core.now) with isOpen := false } []
          (.disconnect .closeTail) (fun _ => trivial)
        refine cinv_act true hc1 rfl spawnApi_orig hfr.isOpen ?_ ?_ ?_ (fun _ => rfl)
          (fun _ => hcl1) (fun _ i k _ hk => hno i k hk) (fun _ _ => hall) ?_
        · rcases hfr.rw with h | h
          · exact .inl h
          · exact .inr h
        · intro p hp
          rcases hex.2 p hp with h | ⟨h, _⟩
          · cases h
          · exact h
        · intro _
          apply List.eq_nil_iff_forall_not_mem.mpr
          intro p hp
          rcases hex.2 p hp with h | ⟨_, h⟩
          · cases h
          · cases h
        · rcases hres with ⟨h1, h2, h3, h4⟩ | ⟨_, h2, h3, h4, h5⟩
          · exact .inl ⟨h1, h2, h3, h4⟩
          · exact .inr ⟨rfl, h2, h3, h4, h5⟩
  | apiReset =>
    simp only [step] at h
    cases h
    exact cinv_spawnApi_exec hc (shrink_emit _ _) (sameFlags_emit _ rfl) rfl rfl
  | apiSend sid retries life encOk =>
    simp only [step] at h
    split at h
    · cases h
      exact cinv_spawnApi_plain hc (sameFlags_emit _ rfl) rfl rfl rfl (by simp) (fun _ => rfl)
    · have hp : ∀ e ∈ purgeEvents s.core.now s.core.queue, apiEv e = false := by
        intro e he
        simp only [purgeEvents, List.mem_map] at he
        obtain ⟨_, _, rfl⟩ := he; rfl
      have hfl := flags_append _ s.core.trace hp
      split at h
      · cases h
        refine cinv_spawnApi_plain hc ?_ rfl rfl rfl (by simp) (fun _ => rfl)
        exact SameFlags.trans (b := { s.core with queue := purged s.core.now s.core.queue, trace := s.core.trace ++ purgeEvents s.core.now s.core.queue }) ⟨hfl.1, hfl.2⟩ (sameFlags_emit _ rfl)
      · cases h
        refine cinv_spawnApi_exec hc ⟨rfl, rfl, rfl, rfl, rfl, rfl, fun _ h => h⟩ ?_ rfl rfl
        exact SameFlags.trans (b := { s.core with queue := purged s.core.now s.core.queue, trace := s.core.trace ++ purgeEvents s.core.now s.core.queue }) ⟨hfl.1, hfl.2⟩
          (SameFlags.trans (b := { s.core with queue := purged s.core.now s.core.queue ++ [⟨sid, retries, s.core.now + life, encOk, false⟩], trace := s.core.trace ++ purgeEvents s.core.now s.core.queue }) ⟨rfl, rfl⟩ (sameFlags_emit _ rfl))
  | run t a =>
    cases step_run_cases h with
    | exec k0 pc c0 kont hk0 hpc hcase => exact cinv_run_exec hinv hc hk0 hpc hcase
    | connect k0 hk0 hpc =>
      have hbg := bg_of_not_api hinv hk0 (by revert hpc; cases k0.pc <;> simp [connPc, apiPc])
      have hnf : k0.pc ≠ .finished := by intro e; rw [e] at hpc; cases hpc
      unfold connectBlock
      split
      · exact cinv_upd_bg hc hk0 hbg hnf (SameFlags.refl _) rfl rfl (by simp)
      · exact cinv_upd_bg hc hk0 hbg hnf
          (SameFlags.trans (a := s.core) (b := { s.core with connecting := true }) ⟨rfl, rfl⟩
            (sameFlags_emit _ (e := .attempt s.core.now) rfl)) rfl rfl (by simp)
    | openOk k0 hk0 hpc =>
      have hbg := bg_of_not_api hinv hk0 (by rw [hpc]; rfl)
      refine cinv_upd_bg hc hk0 hbg (by rw [hpc]; exact fun h => by cases h) ?_ rfl rfl (by simp)
      constructor
      · show closing ((s.core.trace ++ [Ev.opened _ _]) ++ [Ev.notify true _]) = closing s.core.trace
        rw [closing_concat, closing_concat]
      · show closedNow ((s.core.trace ++ [Ev.opened _ _]) ++ [Ev.notify true _]) = closedNow s.core.trace
        rw [closedNow_concat, closedNow_concat]
    | openRefused k0 hk0 hpc =>
      have hbg := bg_of_not_api hinv hk0 (by rw [hpc]; rfl)
      refine cinv_upd_bg hc hk0 hbg (by rw [hpc]; exact fun h => by cases h) ?_ rfl rfl ?_
      · exact SameFlags.trans (a := s.core) (b := { s.core with connecting := false }) ⟨rfl, rfl⟩
          (sameFlags_emit _ (e := .refused s.core.now) rfl)
      · intro p hp; dsimp only at hp; split at hp <;> simp at hp; subst hp; rfl
    | cancelled k0 hk0 hpc =>
      have hbg := bg_of_not_api hinv hk0 (by rw [hpc]; rfl)
      exact cinv_upd_bg hc hk0 hbg (by rw [hpc]; exact fun h => by cases h) ⟨rfl, rfl⟩ rfl rfl (by simp)
    | readMsg k0 c tag hk0 hpc =>
      have hbg := bg_of_not_api hinv hk0 (by rw [hpc]; rfl)
      exact cinv_upd_bg hc hk0 hbg (by rw [hpc]; exact fun h => by cases h) (sameFlags_emit _ rfl) rfl rfl (by simp)
    | readEof k0 c hk0 hpc =>
      have hbg := bg_of_not_api hinv hk0 (by rw [hpc]; rfl)
      exact cinv_upd_bg hc hk0 hbg (by rw [hpc]; exact fun h => by cases h) ⟨rfl, rfl⟩ rfl rfl (by simp)


/-- run a label sequence, refusing those that break the calling discipline -/
def runD (s : Sys) : List Label → Option Sys
  | [] => some s
  | l :: ls => if disciplined s l then (step s l).bind (fun s' => runD s' ls) else none

/-- states reachable by histories that respect the calling discipline (every schedule, every
    environment behaviour, every other use of the API) -/
def ReachableD (s : Sys) : Prop := ∃ ls, runD init ls = some s

theorem runD_run {ls : List Label} : ∀ {s s' : Sys}, runD s ls = some s' → run s ls = some s' := by
  induction ls with
  | nil => intro s s' h; exact h
  | cons l ls ih =>
    intro s s' h
    simp only [runD] at h
    split at h
    · simp only [run]
      cases hs : step s l with
      | none => rw [hs] at h; cases h
      | some s1 => rw [hs] at h; exact ih h
    · cases h

theorem ReachableD.reachable {s : Sys} (h : ReachableD s) : Reachable s := by
  obtain ⟨ls, h⟩ := h
  exact ⟨ls, runD_run h⟩

theorem cinv_init : CInv init := by
  refine ⟨fun h => (by cases h), fun h => (by cases h), fun h => (by cases h), ?_, ?_, ?_, ?_, ?_, ?_⟩
  · intro i k hk; simp [init] at hk
  · intro _ i k hk; simp [init] at hk
  · intro i j k k' hk; simp [init] at hk
  · intro i k w r hk; simp [init] at hk
  · intro i k r hk; simp [init] at hk
  · intro _ _; exact ⟨rfl, fun i k hk => by simp [init] at hk⟩

theorem cinv_runD {ls : List Label} : ∀ {s s' : Sys}, Inv s → CInv s → runD s ls = some s' → CInv s' := by
  induction ls with
  | nil => intro s s' _ hc h; simp only [runD] at h; cases h; exact hc
  | cons l ls ih =>
    intro s s' hinv hc h
    simp only [runD] at h
    split at h
    · rename_i hd
      cases hs : step s l with
      | none => rw [hs] at h; cases h
      | some s1 => rw [hs] at h; exact ih (inv_step hinv hs) (cinv_step hinv hc hd hs) h
    · cases h

theorem cinv_reachableD {s : Sys} (h : ReachableD s) : CInv s := by
  obtain ⟨ls, h⟩ := h
  exact cinv_runD inv_init cinv_init h

/-- what a socket looks like between the return of `close()` and the next `open_socket()` -/
structure ClosedState (s : Sys) : Prop where
  isOpen : s.core.isOpen = false
  isConnected : s.core.isConnected = false
  rw : s.core.rw = none
  connecting : s.core.connecting = false
  no_live : ∀ i : Nat, (s.core.conns[i]?.map ConnSt.isLive) ≠ some true
  bg_done : ∀ k ∈ s.tasks, k.bg = true → k.pc = .finished
  api : ∀ k ∈ s.tasks, k.bg = false → apiPc k.pc = true

theorem closedState_of {s : Sys} (hinv : Inv s) (hc : CInv s) (h : closedNow s.core.trace = true) :
    ClosedState s := by
  have ho := hc.closed_open h
  have hcl : closing s.core.trace = false := by
    cases hx : closing s.core.trace with
    | false => rfl
    | true => have := hc.excl hx; rw [h] at this; cases this
  obtain ⟨hrw, hall⟩ := hc.idle ho hcl
  have hbg : ∀ k ∈ s.tasks, k.bg = true → k.pc = .finished := by
    intro k hk hb
    obtain ⟨i, hi⟩ := List.getElem?_of_mem hk
    exact hall i k hi hb
  refine ⟨ho, by rw [hinv.core.conn_rw, hrw]; rfl, hrw, ?_, ?_, hbg, ?_⟩
  · cases hx : s.core.connecting with
    | false => rfl
    | true =>
      obtain ⟨i, k, hk, hop⟩ := hinv.connecting_opening hx
      have hb := bg_of_not_api hinv hk (by revert hop; cases k.pc <;> simp [openingPc, apiPc])
      have := hall i k hk hb
      rw [this] at hop; cases hop
  · intro i hi
    have := hinv.core.live_rw i hi
    rw [hrw] at this; cases this
  · intro k hk hb
    obtain ⟨i, hi⟩ := List.getElem?_of_mem hk
    exact hinv.api i k hi hb


/-! ### after `close()` has returned -/

/-- the only events a closed socket can still produce -/
def quietEv : Ev → Bool
  | .apiClose _ | .apiCloseDone _ | .apiReset _ => true
  | .reject _ _ .notOpen => true
  | .qdrop _ _ .maxRetries => true
  | .notify false _ => true
  | _ => false

/-- `c'` extends the trace of `c` by quiet events only -/
def QuietExt (c c' : Core) : Prop := ∃ evs, c'.trace = c.trace ++ evs ∧ ∀ e ∈ evs, quietEv e = true

theorem QuietExt.refl (c : Core) : QuietExt c c := ⟨[], by simp, by simp⟩

theorem QuietExt.of_trace_eq {c c' : Core} (h : c'.trace = c.trace) : QuietExt c c' := ⟨[], by simp [h], by simp⟩

theorem QuietExt.trans {a b c : Core} (h1 : QuietExt a b) (h2 : QuietExt b c) : QuietExt a c := by
  obtain ⟨e1, h1, q1⟩ := h1
  obtain ⟨e2, h2, q2⟩ := h2
  refine ⟨e1 ++ e2, by rw [h2, h1, List.append_assoc], ?_⟩
  intro e he
  rcases List.mem_append.mp he with h | h
  · exact q1 e h
  · exact q2 e h

theorem quietExt_emit (c : Core) {e : Ev} (he : quietEv e = true) : QuietExt c (c.emit e) :=
  ⟨[e], rfl, by simpa using he⟩

/-- a disconnected socket without a current transport: `exec` neither writes nor connects -/
theorem exec_closed (fuel : Nat) (c : Core) (sp : List Pc) (k : Kont) (hconn : c.isConnected = false)
    (hrw : c.rw = none) :
    (exec fuel c sp k).core.isConnected = false ∧ (exec fuel c sp k).core.rw = none ∧
    (exec fuel c sp k).core.queue = c.queue ∧ (exec fuel c sp k).core.conns = c.conns ∧
    QuietExt c (exec fuel c sp k).core := by
  fun_induction exec fuel c sp k
  case case1 => exact ⟨hconn, hrw, rfl, rfl, QuietExt.refl _⟩
  case case2 ih => exact ih hconn hrw
  case case3 h _ _ => simp [hconn] at h
  case case4 h _ _ _ _ _ => simp [hconn] at h
  case case5 h _ _ _ _ _ => simp [hconn] at h
  case case6 h _ _ _ _ _ _ => simp [hconn] at h
  case case7 hw => rw [hrw] at hw; cases hw
  case case8 ih => exact ih hconn hrw
  case case9 => exact ⟨rfl, rfl, rfl, rfl, [_], rfl, by simp [quietEv]⟩
  case case10 ih => exact ih hconn hrw
  case case11 => exact ⟨hconn, hrw, rfl, rfl, QuietExt.refl _⟩
  case case12 => exact ⟨hconn, hrw, rfl, rfl, quietExt_emit _ rfl⟩
  case case13 ih => exact ih hconn hrw
  case case14 => exact ⟨hconn, hrw, rfl, rfl, QuietExt.refl _⟩
  case case15 ih => exact ih hconn hrw
  case case16 hw => rw [hrw] at hw; cases hw
  case case17 => exact ⟨hconn, hrw, rfl, rfl, QuietExt.refl _⟩


theorem closedState_upd {s : Sys} {t : Nat} {k0 : Task} {out : Out} (hcs : ClosedState s)
    (ht : s.tasks[t]? = some k0) (hbg : k0.bg = false) (ho : out.core.isOpen = false)
    (hc : out.core.isConnected = false) (hrw : out.core.rw = none) (hcg : out.core.connecting = false)
    (hconns : out.core.conns = s.core.conns) (hpc : apiPc out.pc = true) (hsp : out.spawned = []) :
    ClosedState (upd s t out) := by
  refine ⟨ho, hc, hrw, hcg, ?_, ?_, ?_⟩
  · intro i; show (out.core.conns[i]?.map ConnSt.isLive) ≠ some true
    rw [hconns]; exact hcs.no_live i
  · intro k hk hb
    obtain ⟨i, hi⟩ := List.getElem?_of_mem hk
    rcases upd_task hi with ⟨_, k1, hk1, rfl⟩ | ⟨_, h'⟩ | ⟨_, _, h'⟩
    · rw [ht] at hk1; cases hk1; rw [hbg] at hb; cases hb
    · exact hcs.bg_done k (List.mem_of_getElem? h') hb
    · rw [hsp] at h'; cases h'
  · intro k hk hb
    obtain ⟨i, hi⟩ := List.getElem?_of_mem hk
    rcases upd_task hi with ⟨_, k1, hk1, rfl⟩ | ⟨_, h'⟩ | ⟨_, hb', _⟩
    · exact hpc
    · exact hcs.api k (List.mem_of_getElem? h') hb
    · rw [hb'] at hb; cases hb

theorem closedState_spawnApi {s : Sys} {out : Out} (hcs : ClosedState s) (ho : out.core.isOpen = false)
    (hc : out.core.isConnected = false) (hrw : out.core.rw = none) (hcg : out.core.connecting = false)
    (hconns : out.core.conns = s.core.conns) (hpc : apiPc out.pc = true) (hsp : out.spawned = []) :
    ClosedState (spawnApi s out) := by
  refine ⟨ho, hc, hrw, hcg, ?_, ?_, ?_⟩
  · intro i; show (out.core.conns[i]?.map ConnSt.isLive) ≠ some true
    rw [hconns]; exact hcs.no_live i
  · intro k hk hb
    obtain ⟨i, hi⟩ := List.getElem?_of_mem hk
    rcases spawnApi_task hi with h' | ⟨_, rfl⟩ | ⟨_, _, h'⟩
    · exact hcs.bg_done k (List.mem_of_getElem? h') hb
    · cases hb
    · rw [hsp] at h'; cases h'
  · intro k hk hb
    obtain ⟨i, hi⟩ := List.getElem?_of_mem hk
    rcases spawnApi_task hi with h' | ⟨_, rfl⟩ | ⟨_, hb', _⟩
    · exact hcs.api k (List.mem_of_getElem? h') hb
    · exact hpc
    · rw [hb'] at hb; cases hb

/-- on a closed socket `exec` run by an API-call task keeps it closed and quiet -/
theorem exec_closedState {c0 : Core} {kont : Kont} (ho : c0.isOpen = false) (hc : c0.isConnected = false)
    (hrw : c0.rw = none) (hcg : c0.connecting = false) (hapi : kApi kont = true) :
    let out := exec FUEL c0 [] kont
    out.core.isOpen = false ∧ out.core.isConnected = false ∧ out.core.rw = none ∧ out.core.connecting = false ∧
    out.core.conns = c0.conns ∧ out.core.queue = c0.queue ∧ apiPc out.pc = true ∧ out.spawned = [] ∧
    QuietExt c0 out.core := by
  intro out
  have hfr := exec_frame FUEL c0 [] kont
  have hex := exec_api FUEL c0 [] kont hapi
  obtain ⟨h1, h2, h3, h4, h5⟩ := exec_closed FUEL c0 [] kont hc hrw
  refine ⟨hfr.isOpen.trans ho, h1, h2, hfr.connecting.trans hcg, h4, h3, hex.1, ?_, h5⟩
  apply List.eq_nil_iff_forall_not_mem.mpr
  intro p hp
  rcases hex.2 p hp with h | ⟨_, h⟩
  · cases h
  · rw [ho] at h; cases h

/-- **close is final**: from a closed socket every label other than `open_socket()` leads to a closed
    socket again and produces quiet events only -/
theorem closed_step {s s' : Sys} {l : Label} (hcs : ClosedState s) (hl : l ≠ .apiOpen) (h : step s l = some s') :
    ClosedState s' ∧ QuietExt s.core s'.core := by
  have hnl : ∀ {cid : Nat} {p f : Bool}, s.core.conns[cid]? = some (.live p f) → False := by
    intro cid p f hc
    exact hcs.no_live cid (by rw [hc]; rfl)
  cases l with
  | advance t =>
    simp only [step] at h
    split at h
    · cases h
      exact ⟨⟨hcs.isOpen, hcs.isConnected, hcs.rw, hcs.connecting, hcs.no_live, hcs.bg_done, hcs.api⟩, QuietExt.refl _⟩
    · cases h
  | envLost cid =>
    simp only [step] at h
    split at h
    · rename_i hc; exact (hnl hc).elim
    · cases h
  | envLostRan cid =>
    simp only [step] at h
    split at h
    · cases h
      refine ⟨⟨hcs.isOpen, hcs.isConnected, hcs.rw, hcs.connecting, ?_, hcs.bg_done, hcs.api⟩, QuietExt.refl _⟩
      intro i hi
      have : liveAt { s.core with conns := s.core.conns.set cid (.dead _) } i := hi
      exact hcs.no_live i (liveAt_set_notLive _ _ _ _ rfl this).1
    · cases h
  | envPause cid b =>
    simp only [step] at h
    split at h
    · rename_i hc; exact (hnl hc).elim
    · cases h
  | envFailWrites cid b =>
    simp only [step] at h
    split at h
    · rename_i hc; exact (hnl hc).elim
    · cases h
  | apiOpen => exact absurd rfl hl
  | apiClose =>
    simp only [step] at h
    split at h
    · cases h
      exact ⟨closedState_spawnApi hcs hcs.isOpen hcs.isConnected hcs.rw hcs.connecting rfl rfl rfl,
        (quietExt_emit _ rfl).trans (quietExt_emit _ rfl)⟩
    · rename_i ho
      have : s.core.isOpen = true := by simpa [Core.emit] using ho
      rw [hcs.isOpen] at this; cases this
  | apiReset =>
    simp only [step] at h
    cases h
    obtain ⟨h1, h2, h3, h4, h5, _, h7, h8, h9⟩ := exec_closedState (c0 := s.core.emit (.apiReset s.core.now))
      (kont := .disconnect (.resetTail .done)) hcs.isOpen hcs.isConnected hcs.rw hcs.connecting rfl
    exact ⟨closedState_spawnApi hcs h1 h2 h3 h4 h5 h7 h8, (quietExt_emit _ rfl).trans h9⟩
  | apiSend sid retries life encOk =>
    simp only [step] at h
    split at h
    · cases h
      exact ⟨closedState_spawnApi hcs hcs.isOpen hcs.isConnected hcs.rw hcs.connecting rfl rfl rfl,
        quietExt_emit _ rfl⟩
    · rename_i ho
      have : s.core.isOpen = true := by simpa using ho
      rw [hcs.isOpen] at this; cases this
  | run t a =>
    have hbgc : ∀ {k0 : Model.Sock.Task}, s.tasks[t]? = some k0 → k0.pc ≠ .finished → k0.bg = false := by
      intro k0 hk0 hnf
      cases hb : k0.bg with
      | false => rfl
      | true => exact absurd (hcs.bg_done k0 (List.mem_of_getElem? hk0) hb) hnf
    have hapic : ∀ {k0 : Model.Sock.Task}, s.tasks[t]? = some k0 → k0.pc ≠ .finished → apiPc k0.pc = true :=
      fun hk0 hnf => hcs.api _ (List.mem_of_getElem? hk0) (hbgc hk0 hnf)
    cases step_run_cases h with
    | exec k0 pc c0 kont hk0 hpc hcase =>
      obtain ⟨_, hnf0, hapi, _⟩ := hcase.pc_ok
      have hnf : k0.pc ≠ .finished := by rw [hpc]; exact hnf0
      have hka := hapi (by rw [← hpc]; exact hapic hk0 hnf)
      have hsh := hcase.shrink
      have hq0 : QuietExt s.core c0 ∧ c0.conns = s.core.conns := by
        cases hcase with
        | drainErr w e r _ =>
          refine ⟨?_, ?_⟩
          · unfold requeue; split
            · exact quietExt_emit _ rfl
            · exact QuietExt.of_trace_eq rfl
          · unfold requeue; split <;> rfl
        | _ => exact ⟨QuietExt.refl _, rfl⟩
      obtain ⟨h1, h2, h3, h4, h5, _, h7, h8, h9⟩ := exec_closedState (c0 := c0) (kont := kont)
        (hsh.isOpen.trans hcs.isOpen) (hsh.isConnected.trans hcs.isConnected) (hsh.rw.trans hcs.rw)
        (hsh.connecting.trans hcs.connecting) hka
      exact ⟨closedState_upd hcs hk0 (hbgc hk0 hnf) h1 h2 h3 h4 (h5.trans hq0.2) h7 h8, hq0.1.trans h9⟩
    | connect k0 hk0 hpc =>
      have := hapic hk0 (by intro e; rw [e] at hpc; cases hpc)
      revert hpc this; cases k0.pc <;> simp [connPc, apiPc]
    | openOk k0 hk0 hpc => have := hapic hk0 (by rw [hpc]; exact fun h => by cases h); rw [hpc] at this; cases this
    | openRefused k0 hk0 hpc => have := hapic hk0 (by rw [hpc]; exact fun h => by cases h); rw [hpc] at this; cases this
    | cancelled k0 hk0 hpc => have := hapic hk0 (by rw [hpc]; exact fun h => by cases h); rw [hpc] at this; cases this
    | readMsg k0 c tag hk0 hpc => have := hapic hk0 (by rw [hpc]; exact fun h => by cases h); rw [hpc] at this; cases this
    | readEof k0 c hk0 hpc => have := hapic hk0 (by rw [hpc]; exact fun h => by cases h); rw [hpc] at this; cases this

/-- `send()` on a closed socket is refused and leaves the queue alone -/
theorem closed_send {s s' : Sys} {sid retries life : Nat} {encOk : Bool} (hcs : ClosedState s)
    (h : step s (.apiSend sid retries life encOk) = some s') :
    s'.core.queue = s.core.queue ∧ s'.core.trace = s.core.trace ++ [.reject sid s.core.now .notOpen] := by
  simp only [step] at h
  split at h
  · cases h; exact ⟨rfl, rfl⟩
  · rename_i ho
    have : s.core.isOpen = true := by simpa using ho
    rw [hcs.isOpen] at this; cases this


theorem closed_run {ls : List Label} : ∀ {s s' : Sys}, ClosedState s → (∀ l ∈ ls, l ≠ .apiOpen) →
    run s ls = some s' → ClosedState s' ∧ QuietExt s.core s'.core := by
  induction ls with
  | nil => intro s s' hcs _ h; simp only [run] at h; cases h; exact ⟨hcs, QuietExt.refl _⟩
  | cons l ls ih =>
    intro s s' hcs hl h
    simp only [run] at h
    cases hs : step s l with
    | none => rw [hs] at h; cases h
    | some s1 =>
      rw [hs] at h
      obtain ⟨h1, h2⟩ := closed_step hcs (hl l (by simp)) hs
      obtain ⟨h3, h4⟩ := ih h1 (fun l' hl' => hl l' (by simp [hl'])) h
      exact ⟨h3, h2.trans h4⟩

/-- why the calling discipline also has to exclude a second `close()` during a `close()`: the
    second call returns at once, so `closedNow` holds, but the first call has not yet closed the
    transport (it is still held open and current) -/
theorem closedNow_needs_discipline :
    ∃ s, run init [.apiOpen, .run 1 .go, .run 1 .openOk, .apiClose, .apiClose] = some s ∧
      closedNow s.core.trace = true ∧ s.core.isConnected = true ∧ s.core.rw = some 0 ∧
      (s.core.conns[0]?.map ConnSt.isLive) = some true := by
  refine ⟨_, rfl, ?_⟩
  decide


/-! ### the C15 monitor of the specification on the traces of the model -/

/-- `closedNow`, started from an arbitrary status -/
def closedFrom (b : Bool) (tr : List Ev) : Bool :=
  tr.foldl (fun b ev => match ev with
    | .apiCloseDone _ => true
    | .apiOpen _ => false
    | _ => b) b

theorem closedNow_eq (tr : List Ev) : closedNow tr = closedFrom false tr := rfl

/-- what the monitor demands of one event, given whether the socket is closed -/
def evOk (closed : Bool) (e : Ev) : Bool := quietAfterClose closed [e]

theorem quietAfterClose_cons (b : Bool) (e : Ev) (tr : List Ev) :
    quietAfterClose b (e :: tr) = (evOk b e && quietAfterClose (closedFrom b [e]) tr) := by
  cases e with
  | reject sid t why => cases why <;> simp [quietAfterClose, evOk, closedFrom]
  | notify c t => cases c <;> simp [quietAfterClose, evOk, closedFrom]
  | _ => simp [quietAfterClose, evOk, closedFrom]

theorem quietAfterClose_concat (tr : List Ev) (e : Ev) : ∀ b : Bool,
    quietAfterClose b (tr ++ [e]) = (quietAfterClose b tr && evOk (closedFrom b tr) e) := by
  induction tr with
  | nil => intro b; simp [evOk, closedFrom, quietAfterClose]
  | cons x tr ih =>
    intro b
    rw [List.cons_append, quietAfterClose_cons, quietAfterClose_cons, ih, Bool.and_assoc]
    rfl

theorem c15_concat (tr : List Ev) (e : Ev) : c15 (tr ++ [e]) = (c15 tr && evOk (closedNow tr) e) :=
  quietAfterClose_concat tr e false

theorem evOk_open (e : Ev) : evOk false e = true := by
  cases e with
  | reject sid t why => cases why <;> rfl
  | notify c t => cases c <;> rfl
  | _ => simp [evOk, quietAfterClose]

theorem evOk_quiet {e : Ev} (b : Bool) (h : quietEv e = true) : evOk b e = true := by
  cases e with
  | reject sid t why => cases why <;> first | rfl | cases h
  | notify c t => cases c <;> first | rfl | cases h
  | qdrop sid t why => rfl
  | apiClose t => rfl
  | apiCloseDone t => rfl
  | apiReset t => rfl
  | _ => cases h

/-- the monitor accepts the trace so far and the socket is not closed: any event may follow -/
structure MonOpen (c : Core) : Prop where
  ok : c15 c.trace = true
  notClosed : closedNow c.trace = false

theorem c15_emit_open {c : Core} (h : MonOpen c) (e : Ev) : c15 (c.emit e).trace = true := by
  show c15 (c.trace ++ [e]) = true
  rw [c15_concat, h.ok, h.notClosed, evOk_open]; rfl

theorem MonOpen.emit {c : Core} (h : MonOpen c) {e : Ev} (he : apiEv e = false) : MonOpen (c.emit e) :=
  ⟨c15_emit_open h e, by rw [(sameFlags_emit c he).closedNow]; exact h.notClosed⟩

theorem MonOpen.of_trace_eq {c c' : Core} (h : MonOpen c) (ht : c'.trace = c.trace) : MonOpen c' :=
  ⟨by rw [ht]; exact h.ok, by rw [ht]; exact h.notClosed⟩

theorem monOpen_doWrite {c : Core} (h : MonOpen c) (w : Nat) (e : Entry) : MonOpen (doWrite c w e).1 := by
  unfold doWrite
  split
  · exact h.emit rfl
  · exact ((h.of_trace_eq (c' := { c with conns := c.conns.set w (.dying true) }) rfl).emit
      (e := .writeFault w e.sid c.now) rfl).emit (e := .lost w c.now) rfl
  · exact h.emit rfl
  · exact h.emit rfl
  · exact h.emit rfl
  · exact h

theorem monOpen_drainLoop (w : Nat) (q : List Entry) : ∀ {c : Core}, MonOpen c → MonOpen (drainLoop c w q).1 := by
  induction q with
  | nil => intro c h; exact h.of_trace_eq rfl
  | cons e rest ih =>
    intro c h
    simp only [drainLoop]
    split
    · exact h.of_trace_eq rfl
    split
    · exact ih (h.emit rfl)
    · split
      · exact ih (h.emit rfl)
      · have hw := monOpen_doWrite h w e
        split
        · rename_i c' h'; rw [h'] at hw; exact ih hw
        · rename_i c' h'; rw [h'] at hw; exact hw.of_trace_eq rfl
        · rename_i c' h'; rw [h'] at hw; exact hw.of_trace_eq rfl

theorem monOpen_drainLoop' {c c' : Core} {w : Nat} {q : List Entry} {st : DrainStop} (h : MonOpen c)
    (hd : drainLoop c w q = (c', st)) : MonOpen c' := by
  have := monOpen_drainLoop w q h; rw [hd] at this; exact this

theorem monOpen_requeue {c : Core} (h : MonOpen c) (e : Entry) : MonOpen (requeue c e) := by
  unfold requeue; split
  · exact h.emit rfl
  · exact h.of_trace_eq rfl

theorem monOpen_closeConn {c : Core} (h : MonOpen c) (w : Nat) : MonOpen (closeConn c w) := by
  unfold closeConn; split
  · exact (h.of_trace_eq (c' := { c with conns := c.conns.set w (.dying false) }) rfl).emit
      (e := .clientClose w c.now) rfl
  · exact h

/-- while the socket is not closed, whatever `exec` appends is accepted by the monitor (the only
    event that changes the status, `apiCloseDone`, is the last thing `exec` does) -/
theorem c15_exec (fuel : Nat) (c : Core) (sp : List Pc) (k : Kont) (h : MonOpen c) :
    c15 (exec fuel c sp k).core.trace = true := by
  fun_induction exec fuel c sp k
  case case4 c' hd ih => exact ih (monOpen_drainLoop' h hd)
  case case5 c' e hd => exact (monOpen_drainLoop' h hd).ok
  case case6 c' e hd ih => exact ih (monOpen_requeue (monOpen_drainLoop' h hd) e)
  case case7 => exact (monOpen_closeConn h _).ok
  case case9 fuel c sp r =>
    exact c15_emit_open (h.of_trace_eq (c' := { c with isConnected := false, rw := none }) rfl) _
  case case12 => exact c15_emit_open h _
  all_goals first | exact h.ok | (rename_i ih; exact ih h)

theorem c15_quietExt {c c' : Core} (h : c15 c.trace = true) (hq : QuietExt c c') : c15 c'.trace = true := by
  obtain ⟨evs, he, hq⟩ := hq
  rw [he]
  clear he
  induction evs generalizing c with
  | nil => simpa using h
  | cons e evs ih =>
    have h1 : c15 (c.emit e).trace = true := by
      show c15 (c.trace ++ [e]) = true
      rw [c15_concat, h, evOk_quiet _ (hq e (by simp))]; rfl
    have := ih h1 (fun e' he' => hq e' (by simp [he']))
    simpa [Core.emit] using this


theorem MonOpen.append {c c' : Core} (h : MonOpen c) (evs : List Ev) (ht : c'.trace = c.trace ++ evs)
    (he : ∀ e ∈ evs, apiEv e = false) : MonOpen c' := by
  induction evs generalizing c with
  | nil => exact h.of_trace_eq (by simpa using ht)
  | cons e evs ih =>
    exact ih (h.emit (he e (by simp))) (by simpa [Core.emit] using ht) (fun e' he' => he e' (by simp [he']))

theorem ExecCase.monOpen {s : Sys} {pc : Pc} {c0 : Core} {kont : Kont} (h : ExecCase s pc c0 kont)
    (hm : MonOpen s.core) : MonOpen c0 := by
  cases h <;> first | exact hm | exact monOpen_requeue hm _

/-- one step keeps the trace acceptable to the C15 monitor, provided that `closedNow` states are closed -/
theorem c15_step {s s' : Sys} {l : Label} (hcs : closedNow s.core.trace = true → ClosedState s)
    (hm : c15 s.core.trace = true) (h : step s l = some s') : c15 s'.core.trace = true := by
  cases hcn : closedNow s.core.trace with
  | true =>
    by_cases hl : l = .apiOpen
    · subst hl
      simp only [step] at h
      have : c15 (s.core.emit (.apiOpen s.core.now)).trace = true := by
        show c15 (s.core.trace ++ [_]) = true
        rw [c15_concat, hm]; rfl
      split at h <;> (cases h; exact this)
    · exact c15_quietExt hm (closed_step (hcs hcn) hl h).2
  | false =>
    have ho : MonOpen s.core := ⟨hm, hcn⟩
    cases l with
    | advance t =>
      simp only [step] at h
      split at h
      · cases h; exact hm
      · cases h
    | envLost cid =>
      simp only [step] at h
      split at h
      · cases h
        exact c15_emit_open (ho.of_trace_eq (c' := { s.core with conns := s.core.conns.set cid (.dying true) }) rfl) _
      · cases h
    | envLostRan cid =>
      simp only [step] at h
      split at h
      · cases h; exact hm
      · cases h
    | envPause cid b =>
      simp only [step] at h
      split at h
      · cases h; exact hm
      · cases h
    | envFailWrites cid b =>
      simp only [step] at h
      split at h
      · cases h; exact hm
      · cases h
    | apiOpen =>
      simp only [step] at h
      split at h <;> (cases h; exact c15_emit_open ho _)
    | apiClose =>
      simp only [step] at h
      have h1 : MonOpen (s.core.emit (.apiClose s.core.now)) :=
        ⟨c15_emit_open ho _, by
          show closedNow (s.core.trace ++ [_]) = false
          rw [closedNow_concat]; exact hcn⟩
      split at h
      · cases h; exact c15_emit_open h1 _
      · split at h
        · cases h; exact h1.ok
        · cases h
          exact c15_exec _ _ _ _ (h1.of_trace_eq (c' := { s.core.emit (.apiClose s.core.now) with isOpen := false }) rfl)
    | apiReset =>
      simp only [step] at h
      cases h
      exact c15_exec _ _ _ _ (ho.emit rfl)
    | apiSend sid retries life encOk =>
      simp only [step] at h
      split at h
      · cases h; exact c15_emit_open ho _
      · have hp : ∀ e ∈ purgeEvents s.core.now s.core.queue, apiEv e = false := by
          intro e he
          simp only [purgeEvents, List.mem_map] at he
          obtain ⟨_, _, rfl⟩ := he; rfl
        split at h
        · cases h
          exact c15_emit_open (ho.append _ (c' := { s.core with queue := purged s.core.now s.core.queue, trace := s.core.trace ++ purgeEvents s.core.now s.core.queue }) rfl hp) _
        · cases h
          refine c15_exec _ _ _ _ (MonOpen.emit ?_ rfl)
          exact ho.append _ (c' := { s.core with queue := purged s.core.now s.core.queue ++ [⟨sid, retries, s.core.now + life, encOk, false⟩], trace := s.core.trace ++ purgeEvents s.core.now s.core.queue }) rfl hp
    | run t a =>
      cases step_run_cases h with
      | exec k0 pc c0 kont hk0 hpc hcase => exact c15_exec _ _ _ _ (hcase.monOpen ho)
      | connect k0 hk0 hpc =>
        show c15 (connectBlock s.core).core.trace = true
        unfold connectBlock; split
        · exact hm
        · exact c15_emit_open (ho.of_trace_eq (c' := { s.core with connecting := true }) rfl) _
      | openOk k0 hk0 hpc =>
        have h1 : MonOpen (s.core.emit (.opened s.core.conns.length s.core.now)) := ho.emit rfl
        exact c15_emit_open (h1.of_trace_eq rfl) (.notify true s.core.now)
      | openRefused k0 hk0 hpc =>
        exact c15_emit_open (ho.of_trace_eq (c' := { s.core with connecting := false }) rfl) _
      | cancelled k0 hk0 hpc => exact hm
      | readMsg k0 c tag hk0 hpc => exact c15_emit_open ho _
      | readEof k0 c hk0 hpc => exact hm

theorem c15_runD {ls : List Label} : ∀ {s s' : Sys}, Inv s → CInv s → c15 s.core.trace = true →
    runD s ls = some s' → c15 s'.core.trace = true := by
  induction ls with
  | nil => intro s s' _ _ hm h; simp only [runD] at h; cases h; exact hm
  | cons l ls ih =>
    intro s s' hinv hc hm h
    simp only [runD] at h
    split at h
    · rename_i hd
      cases hs : step s l with
      | none => rw [hs] at h; cases h
      | some s1 =>
        rw [hs] at h
        exact ih (inv_step hinv hs) (cinv_step hinv hc hd hs) (c15_step (closedState_of hinv hc) hm hs) h
    · cases h

theorem c15_reachableD {s : Sys} (h : ReachableD s) : c15 s.core.trace = true := by
  obtain ⟨ls, h⟩ := h
  exact c15_runD inv_init cinv_init rfl h

end PyAirtouch.Lemmas.SockConn
