import PyAirtouch.Model.At5.C021
/-!
Round trip and length lemmas for the AirTouch 5 zone status codec (0xC021).

A zone temperature of exactly 0.0 °C is an ordinary well-formed value (the encoder tests
`if temperature is not None:`); `roundtrip_at_zero` is the concrete example.
-/
namespace PyAirtouch.Lemmas.At5C021
open PyAirtouch.Model PyAirtouch.Model.At5.Utils PyAirtouch.Model.At5.C021 PyAirtouch.Gen.At5.XC021ZoneStatus

/-- what `struct.pack` produces for a well-formed record -/
def recBytes (z : ZoneStatusData) : Bytes :=
  [z.zone_number % 64 + z.power_state.toNat * 64, z.control_method.toNat * 128 + z.damper_percentage % 128,
   (encSetPoint z.set_point).toNat, boolToBit z.has_sensor 7,
   encTemp z.temperature / 256 % 256, encTemp z.temperature % 256,
   boolToBit z.spill_active 1 + z.battery_status.toNat, 0]

theorem recBytes_length (z : ZoneStatusData) : (recBytes z).length = recSize := rfl

theorem encRec_length (z : ZoneStatusData) (bs : Bytes) (h : encRec z = .ok bs) : bs.length = recSize := by
  simp only [encRec, bind, Except.bind, pure, Except.pure] at h
  split at h
  · cases h
  · cases h; rfl

theorem encRecs_length (zs : List ZoneStatusData) (bs : Bytes) (h : encRecs zs = .ok bs) :
    bs.length = recSize * zs.length := by
  induction zs generalizing bs with
  | nil => cases h; rfl
  | cons z zs ih =>
    simp only [encRecs, bind, Except.bind, pure, Except.pure] at h
    split at h
    · cases h
    · rename_i b hb
      split at h
      · cases h
      · rename_i bs' hbs'
        cases h
        simp only [List.length_append, List.length_cons, encRec_length z b hb, ih bs' hbs', Nat.mul_add,
          Nat.mul_one, Nat.add_comm]

/-- the announced sizes describe the bytes produced -/
theorem encode_length (m : Msg) (bs : Bytes) (h : encode m = .ok bs) :
    bs.length = nonRepeatSize m + repeatSize m * repeatCount m := by
  cases m with
  | request => cases h; rfl
  | status zs =>
    simp only [nonRepeatSize, repeatSize, repeatCount, Nat.zero_add]
    exact encRecs_length zs bs h

/-- the set-point byte of a well-formed record: in range, and decodes to the set-point -/
theorem setPoint_facts (sp : Option Int) (h : ∀ v, sp = some v → 100 ≤ v ∧ v ≤ 354) :
    0 ≤ encSetPoint sp ∧ encSetPoint sp ≤ 255 ∧ decSetPoint (encSetPoint sp).toNat = sp := by
  cases sp with
  | none => simp [encSetPoint, decSetPoint, INVALID_SET_POINT]
  | some v =>
    obtain ⟨h1, h2⟩ := h v rfl
    have hv : v ≠ 0 := by omega
    simp only [encSetPoint, hv, ↓reduceIte, encodeSetPoint, decSetPoint, INVALID_SET_POINT, decodeSetPoint]
    refine ⟨by omega, by omega, ?_⟩
    have hne : (v - 100).toNat ≠ 255 := by omega
    simp only [hne, ↓reduceIte, Option.some.injEq]
    omega

/-- the temperature word of a well-formed record decodes to the temperature -/
theorem temp_facts (hs : Bool) (t : Option Int)
    (h : ∀ v, t = some v → hs = true ∧ -500 ≤ v ∧ v ≤ 1500) :
    decTemp hs (be16 (encTemp t / 256 % 256) (encTemp t % 256)) = t := by
  cases t with
  | none => cases hs <;> simp [encTemp, decTemp, be16, INVALID_TEMPERATURE, decodeTemperature,
      MAXIMUM_TEMPERATURE_tenths]
  | some v =>
    obtain ⟨h0, h1, h2⟩ := h v rfl
    subst h0
    obtain ⟨r, hr⟩ : ∃ r : Nat, v + 500 = (r : Int) := ⟨(v + 500).toNat, by omega⟩
    have hr1 : r ≤ 2000 := by omega
    have hm : mask11 (v + 500) = r := by simp only [mask11]; omega
    have hb : r / 256 % 256 * 256 + r % 256 = r := by omega
    have hmod : r % 2048 = r := by omega
    simp only [encTemp, encodeTemperature, hm, decTemp, be16, hb, hmod, decodeTemperature,
      MAXIMUM_TEMPERATURE_tenths, Bool.not_true, Bool.false_or]
    have hle : ¬ ((r : Int) - 500 > 1500) := by omega
    simp only [decide_eq_true_eq, hle, ↓reduceIte, Option.some.injEq]
    omega

theorem encRec_ok (z : ZoneStatusData) (h : WFRec z) : encRec z = .ok (recBytes z) := by
  obtain ⟨_, _, hs, _⟩ := h
  obtain ⟨h0, h1, _⟩ := setPoint_facts z.set_point hs
  simp only [encRec, packB_ok h0 h1, bind, Except.bind, pure, Except.pure, recBytes, be16Bytes,
    List.cons_append, List.nil_append]

theorem decRec_recBytes (z : ZoneStatusData) (h : WFRec z) (rest : Bytes) :
    decRec (recBytes z ++ rest) = .ok z := by
  obtain ⟨hz, hd, hs, ht⟩ := h
  obtain ⟨_, _, hsp⟩ := setPoint_facts z.set_point hs
  have htemp := temp_facts z.has_sensor z.temperature ht
  rcases z with ⟨zn, ps, spill, cm, sensor, bat, temp, damper, sp⟩
  simp only at hz hd hsp htemp
  have hps : ps.toNat < 4 := by cases ps <;> decide
  have hcm : cm.toNat < 2 := by cases cm <;> decide
  have hps' : ZonePowerState.ofNat? ps.toNat = some ps := by cases ps <;> rfl
  have hcm' : ZoneControlMethod.ofNat? cm.toNat = some cm := by cases cm <;> rfl
  have hbat' : SensorBatteryStatus.ofNat? ((boolToBit spill 1 + bat.toNat) % 2) = some bat := by
    cases spill <;> cases bat <;> rfl
  have hsens : bitToBool (boolToBit sensor 7) 7 = sensor := by cases sensor <;> decide
  have hspill : bitToBool (boolToBit spill 1 + bat.toNat) 1 = spill := by cases spill <;> cases bat <;> decide
  simp only [recBytes, List.cons_append, List.nil_append, decRec]
  have e1 : (zn % 64 + ps.toNat * 64) / 64 % 4 = ps.toNat := by omega
  have e2 : (cm.toNat * 128 + damper % 128) / 128 % 2 = cm.toNat := by omega
  have e3 : (zn % 64 + ps.toNat * 64) % 64 = zn := by omega
  have e4 : (cm.toNat * 128 + damper % 128) % 128 = damper := by omega
  rw [e1, e2, e3, e4, hps', hcm', hbat', hsens, hspill, htemp, hsp]

theorem encRecs_ok (zs : List ZoneStatusData) (h : ∀ z ∈ zs, WFRec z) :
    encRecs zs = .ok (zs.flatMap recBytes) := by
  induction zs with
  | nil => rfl
  | cons z zs ih =>
    simp only [encRecs, encRec_ok z (h z (by simp)), ih (fun x hx => h x (by simp [hx])), bind, Except.bind,
      pure, Except.pure, List.flatMap_cons]

theorem decRecs_recBytes (zs : List ZoneStatusData) (h : ∀ z ∈ zs, WFRec z) (rest : Bytes) :
    decRecs recSize zs.length (zs.flatMap recBytes ++ rest) = .ok (zs, rest) := by
  induction zs with
  | nil => rfl
  | cons z zs ih =>
    simp only [List.length_cons, List.flatMap_cons, List.append_assoc, decRecs]
    rw [decRec_recBytes z (h z (by simp))]
    simp only [bind, Except.bind]
    have hdrop : (recBytes z ++ (zs.flatMap recBytes ++ rest)).drop recSize = zs.flatMap recBytes ++ rest := by
      rw [← recBytes_length z, List.drop_left]
    rw [hdrop, ih (fun x hx => h x (by simp [hx]))]
    rfl

/-- a well-formed message can be encoded (no `struct.error`) -/
theorem encode_ok (m : Msg) (h : WF m) : ∃ bs, encode m = .ok bs := by
  cases m with
  | request => exact ⟨[], rfl⟩
  | status zs => exact ⟨_, encRecs_ok zs h⟩

/-- `decode(encode(m), header built from m)` gives `m` back, nothing left over -/
theorem decode_encode (m : Msg) (h : WF m) (rest : Bytes) :
    ∃ bs, encode m = .ok bs ∧
      decode (bs ++ rest) (nonRepeatSize m) (repeatSize m) (repeatCount m) = .ok (m, rest) := by
  cases m with
  | request => exact ⟨[], rfl, by simp [decode, repeatSize, repeatCount]⟩
  | status zs =>
    refine ⟨_, encRecs_ok zs h, ?_⟩
    have h8 : ¬ (recSize = 0 ∧ zs.length = 0) := by simp [recSize, STRUCT_size]
    simp only [decode, repeatSize, repeatCount, h8, ↓reduceIte, Nat.lt_irrefl]
    simp only [nonRepeatSize, List.drop_zero]
    rw [decRecs_recBytes zs h]
    rfl

/-! ### 0.0 °C round-trips -/

/-- zone 0 with a sensor reporting exactly 0.0 °C, as decoded from `00 00 ff 80 01 f4 00 00` -/
def zeroDegrees : ZoneStatusData :=
  { zone_number := 0, power_state := .OFF, spill_active := false, control_method := .DAMPER,
    has_sensor := true, battery_status := .NORMAL, temperature := some 0, damper_percentage := 0,
    set_point := none }

theorem zeroDegrees_wf : WF (.status [zeroDegrees]) := by
  intro z hz
  simp only [List.mem_singleton] at hz
  subst hz
  refine ⟨by decide, by decide, ?_, ?_⟩
  · intro sp h; cases h
  · intro t h
    cases h
    exact ⟨rfl, by decide, by decide⟩

/-- 0.0 °C is sent as the temperature code 0x01F4 and decodes to 0.0 °C again -/
theorem roundtrip_at_zero :
    encode (.status [zeroDegrees]) = .ok [0x00, 0x00, 0xFF, 0x80, 0x01, 0xF4, 0x00, 0x00] ∧
    decode [0x00, 0x00, 0xFF, 0x80, 0x01, 0xF4, 0x00, 0x00] 0 8 1 = .ok (.status [zeroDegrees], []) :=
  ⟨rfl, rfl⟩

/-! ### the run-time well-formedness test decides `WF` -/

theorem wfRecBool_iff (z : ZoneStatusData) : wfRecBool z = true ↔ WFRec z := by
  rcases z with ⟨zn, ps, spill, cm, sensor, bat, temp, damper, sp⟩
  simp only [wfRecBool, WFRec, Bool.and_eq_true, decide_eq_true_eq]
  constructor
  · rintro ⟨⟨⟨h1, h2⟩, h3⟩, h4⟩
    refine ⟨h1, h2, ?_, ?_⟩
    · intro v hv
      subst hv
      simpa only [Bool.and_eq_true, decide_eq_true_eq] using h3
    · intro v hv
      subst hv
      simp only [Bool.and_eq_true, decide_eq_true_eq] at h4
      exact ⟨h4.1.1, h4.1.2, h4.2⟩
  · rintro ⟨h1, h2, h3, h4⟩
    refine ⟨⟨⟨h1, h2⟩, ?_⟩, ?_⟩
    · cases sp with
      | none => rfl
      | some v => simpa only [Bool.and_eq_true, decide_eq_true_eq] using h3 v rfl
    · cases temp with
      | none => rfl
      | some v =>
        obtain ⟨a, b, c⟩ := h4 v rfl
        simp only [Bool.and_eq_true, decide_eq_true_eq]
        exact ⟨⟨a, b⟩, c⟩

theorem wfBool_iff (m : Msg) : wfBool m = true ↔ WF m := by
  cases m with
  | request => simp [wfBool, WF]
  | status zs =>
    simp only [wfBool, WF, List.all_eq_true]
    exact ⟨fun h z hz => (wfRecBool_iff z).1 (h z hz), fun h z hz => (wfRecBool_iff z).2 (h z hz)⟩

end PyAirtouch.Lemmas.At5C021
