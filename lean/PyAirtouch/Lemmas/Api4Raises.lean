import PyAirtouch.Lemmas.Api4Inv
/-!
# Whether subscribers raise is irrelevant: a step-for-step simulation between a run and the same run with every
"raises" flag erased
-/
set_option linter.unusedSimpArgs false
set_option linter.unusedVariables false
namespace PyAirtouch.Lemmas.Api4
open PyAirtouch.Model PyAirtouch.Model.Api4 PyAirtouch.Model.At4 PyAirtouch.Gen
open PyAirtouch.Model.TimerCommon (AcTimerState AcTimerStatusData)

/-! ### erasing the "raises" flag of every subscriber -/

def erSubs (l : List Sub) : List Sub := l.map fun sb => { sb with raises := false }
def erZone (z : ZoneObj) : ZoneObj := { z with subs := erSubs z.subs }
def erAc (a : AcObj) : AcObj := { a with subs := erSubs a.subs, stateSubs := erSubs a.stateSubs }
def er (s : State) : State :=
  { s with subs := erSubs s.subs, zoneObjs := s.zoneObjs.map erZone, acObjs := s.acObjs.map erAc }

def erOp : Op → Op
  | .sub t sid _ => .sub t sid false
  | op => op

theorem er_findAc (s : State) (k : Nat) : (er s).findAc k = (s.findAc k).map erAc := by
  simp only [State.findAc, er]
  cases s.acDict.lookup k with
  | none => rfl
  | some i => simp [List.getElem?_map]

theorem er_zoneOf (s : State) (k : Nat) : (er s).zoneOf k = (s.zoneOf k).map erZone := by
  simp only [State.zoneOf, er]
  cases s.zoneDict.lookup k with
  | none => rfl
  | some i => simp [List.getElem?_map]

theorem er_setAc (s : State) (k : Nat) (a : AcObj) : (er s).setAc k (erAc a) = er (s.setAc k a) := by
  simp only [State.setAc, er]
  cases s.acDict.lookup k with
  | none => rfl
  | some i => simp [List.map_set]

theorem er_setZone (s : State) (k : Nat) (z : ZoneObj) : (er s).setZone k (erZone z) = er (s.setZone k z) := by
  simp only [State.setZone, er]
  cases s.zoneDict.lookup k with
  | none => rfl
  | some i => simp [List.map_set]

theorem map_sid_erSubs {β} (l : List Sub) (f : String → β) :
    (erSubs l).map (fun sb => f sb.sid) = l.map (fun sb => f sb.sid) := by
  simp [erSubs, List.map_map]

theorem notifyAcAll_er (a : AcObj) : notifyAcAll (erAc a) = notifyAcAll a := by
  simp only [notifyAcAll, erAc, AcObj.acId]
  rw [map_sid_erSubs a.subs (fun sid => Ev.notifyAc a.status.ac_number true sid),
    map_sid_erSubs a.stateSubs (fun sid => Ev.notifyAc a.status.ac_number false sid)]

theorem notifyAcGeneral_er (a : AcObj) : notifyAcGeneral (erAc a) = notifyAcGeneral a := by
  simp only [notifyAcGeneral, erAc, AcObj.acId]
  exact map_sid_erSubs a.subs (fun sid => Ev.notifyAc a.status.ac_number true sid)

theorem er_acsOfZoneKey (s : State) (k : Nat) : acsOfZoneKey (er s) k = (acsOfZoneKey s k).map erAc := by
  simp only [acsOfZoneKey, er]
  cases s.zoneDict.lookup k with
  | none => rfl
  | some zi =>
    simp only [acsOfZone, List.filter_map]
    rfl

theorem er_updateAcStatus (s : State) (r : X2D.AcStatusData) :
    updateAcStatus (er s) r = (er (updateAcStatus s r).1, (updateAcStatus s r).2) := by
  unfold updateAcStatus
  rw [er_findAc]
  cases s.findAc r.ac_number with
  | none => rfl
  | some a =>
    simp only [Option.map_some]
    have : (erAc a).status = a.status := rfl
    rw [this]
    split
    · rfl
    · rw [← er_setAc]
      have e1 : ({ erAc a with status := r, errInfo := if r.error_code ≠ 0 then (erAc a).errInfo else none } : AcObj) =
          erAc { a with status := r, errInfo := if r.error_code ≠ 0 then a.errInfo else none } := rfl
      simp only [e1, notifyAcAll_er]

theorem er_updateAcTimer (s : State) (r : AcTimerStatusData) :
    updateAcTimer (er s) r = (er (updateAcTimer s r).1, (updateAcTimer s r).2) := by
  unfold updateAcTimer
  rw [er_findAc]
  cases s.findAc r.ac_number with
  | none => rfl
  | some a =>
    simp only [Option.map_some]
    have : (erAc a).timer = a.timer := rfl
    rw [this]
    split
    · rfl
    · rw [← er_setAc]
      have e1 : ({ erAc a with timer := r } : AcObj) = erAc { a with timer := r } := rfl
      simp only [e1, notifyAcAll_er]

theorem er_updateErrInfo (s : State) (m : FF10.AcErrorInformationMessage) :
    updateErrInfo (er s) m = (er (updateErrInfo s m).1, (updateErrInfo s m).2) := by
  unfold updateErrInfo
  rw [er_findAc]
  cases s.findAc m.ac_number with
  | none => rfl
  | some a =>
    simp only [Option.map_some]
    have : (erAc a).errInfo = a.errInfo := rfl
    rw [this]
    split
    · rfl
    · rw [← er_setAc]
      have e1 : ({ erAc a with errInfo := m.error_info } : AcObj) = erAc { a with errInfo := m.error_info } := rfl
      simp only [e1, notifyAcAll_er]

theorem er_updateGroupStatus (s : State) (g : X2B.GroupStatusData) :
    updateGroupStatus (er s) g = (er (updateGroupStatus s g).1, (updateGroupStatus s g).2) := by
  unfold updateGroupStatus
  rw [er_zoneOf]
  cases s.zoneOf g.group_number with
  | none => rfl
  | some z =>
    simp only [Option.map_some]
    have : (erZone z).status = z.status := rfl
    rw [this]
    split
    · rfl
    · rw [← er_setZone, er_acsOfZoneKey]
      have e1 : ({ erZone z with status := g } : ZoneObj) = erZone { z with status := g } := rfl
      have e2 : (erZone z).subs.map (fun sb => Ev.notifyZone g.group_number sb.sid) =
          z.subs.map (fun sb => Ev.notifyZone g.group_number sb.sid) :=
        map_sid_erSubs z.subs (fun sid => Ev.notifyZone g.group_number sid)
      simp only [e1, e2, List.flatMap_map, notifyAcGeneral_er]

theorem er_updateVersion (s : State) (v : FF30.ConsoleVersionMessage) :
    updateVersion (er s) v = (er (updateVersion s v).1, (updateVersion s v).2) := by
  unfold updateVersion
  have : (er s).version = s.version := rfl
  rw [this]
  split
  · rfl
  · have e2 : (er s).subs.map (fun sb => Ev.notifyAt sb.sid) = s.subs.map (fun sb => Ev.notifyAt sb.sid) :=
      map_sid_erSubs s.subs (fun sid => Ev.notifyAt sid)
    simp only [e2]
    rfl

theorem er_foldEv {α} (f : State → α → State × List Ev)
    (hf : ∀ s x, f (er s) x = (er (f s x).1, (f s x).2)) (s : State) (l : List α) :
    foldEv f (er s) l = (er (foldEv f s l).1, (foldEv f s l).2) := by
  induction l generalizing s with
  | nil => rfl
  | cons x xs ih => simp only [foldEv, hf, ih]


theorem er_addZone (s : State) (p : Nat × Bytes) : addZone (er s) p = er (addZone s p) := by
  simp [addZone, er, erZone, mkZone, erSubs]

theorem er_processGroupNames (s : State) (l : List (Nat × Bytes)) :
    processGroupNames (er s) l = er (processGroupNames s l) := by
  unfold processGroupNames
  induction l generalizing s with
  | nil => rfl
  | cons p ps ih => simp only [List.foldl_cons, er_addZone, ih]

theorem er_zonesForAbility (s : State) (single : Bool) (ab : FF11.AcAbility) :
    zonesForAbility (er s) single ab = zonesForAbility s single ab := rfl

theorem erAc_of_mkAc {ab : FF11.AcAbility} {zs : List Nat} {a : AcObj} (h : mkAc ab zs = some a) : erAc a = a := by
  obtain ⟨_, _, _, h1, h2⟩ := mkAc_number h
  cases a
  simp only at h1 h2
  subst h1 h2
  rfl

theorem er_addAc (s : State) (single : Bool) (ab : FF11.AcAbility) :
    addAc (er s) single ab = (addAc s single ab).map er := by
  unfold addAc
  rw [er_zonesForAbility]
  cases zonesForAbility s single ab with
  | none => rfl
  | some zs =>
    cases hm : mkAc ab zs with
    | none => simp [hm]
    | some a =>
      simp [hm, er, erAc_of_mkAc hm]

theorem er_processAbility (s : State) (single : Bool) (l : List FF11.AcAbility) :
    processAbility (er s) single l = (er (processAbility s single l).1, (processAbility s single l).2) := by
  induction l generalizing s with
  | nil => rfl
  | cons ab rest ih =>
    simp only [processAbility, er_addAc]
    cases addAc s single ab with
    | none => rfl
    | some s' => simp only [Option.map_some, ih]

theorem er_hbStart (s : State) : hbStart (er s) = (er (hbStart s).1, (hbStart s).2) := by
  unfold hbStart
  have : (er s).hb = s.hb := rfl
  rw [this]
  split <;> rfl

/-- the state `enterConnected` hands to `hbStart` -/
def connectedCore (s : State) : State :=
  { s with st := .CONNECTED, pollOrphans := s.pollOrphans ++ s.pollCur.toList, pollCur := some (s.now + Api4.GROUP_STATUS_TIMEOUT), initialised := true, initWaits := [] }

theorem enterConnected_eq (s : State) :
    enterConnected s = ((hbStart (connectedCore s)).1,
      [Ev.hbStart] ++ s.initWaits.map (fun _ => Ev.result "init True") ++ (hbStart (connectedCore s)).2) := rfl

theorem er_enterConnected (s : State) : enterConnected (er s) = (er (enterConnected s).1, (enterConnected s).2) := by
  rw [enterConnected_eq, enterConnected_eq]
  have e : connectedCore (er s) = er (connectedCore s) := rfl
  rw [e, er_hbStart]
  rfl


theorem er_rearmPolls (s : State) : rearmPolls (er s) = er (rearmPolls s) := rfl

theorem er_st (s : State) (x : AState) : ({ er s with st := x } : State) = er { s with st := x } := rfl

theorem er_processTimers (s : State) (l : List AcTimerStatusData) :
    processTimers (er s) l = (er (processTimers s l).1, (processTimers s l).2.1, (processTimers s l).2.2) := by
  unfold processTimers
  have : (er s).st = s.st := rfl
  rw [this, er_foldEv _ er_updateAcTimer]
  split
  · rfl
  · split <;> rfl

theorem er_onMessage (s : State) (m : RMsg) :
    onMessage (er s) m = (er (onMessage s m).1, (onMessage s m).2.1, (onMessage s m).2.2) := by
  have hst : (er s).st = s.st := rfl
  cases m with
  | extended sub =>
    cases sub with
    | consoleVer v =>
      cases v with
      | message v =>
        simp only [onMessage, hst, er_updateVersion]
        split
        · rfl
        · split <;> rfl
      | request => rfl
    | groupNames n =>
      cases n with
      | message n =>
        simp only [onMessage, hst, er_processGroupNames]
        split <;> rfl
      | request r => rfl
    | acAbility a =>
      cases a with
      | ability acs =>
        simp only [onMessage, hst, er_processAbility]
        split
        · cases hp : processAbility s (acs.length == 1) acs with
          | mk s' ok => cases ok <;> rfl
        · rfl
      | request r => rfl
    | errInfo e =>
      cases e with
      | message e => simp only [onMessage, er_updateErrInfo]
      | request r => rfl
    | quickTimer q => rfl
    | unsupported i r => rfl
  | groupCtrl c => rfl
  | groupStatus g =>
    cases g with
    | request => rfl
    | status l =>
      simp only [onMessage, hst, er_rearmPolls, er_foldEv _ er_updateGroupStatus, er_enterConnected]
      split
      · rfl
      · split <;> rfl
  | acCtrl c => rfl
  | acStatus a =>
    cases a with
    | request => rfl
    | status l =>
      simp only [onMessage, hst, er_foldEv _ er_updateAcStatus]
      split
      · rfl
      · split <;> rfl
  | acTimerCtrl c => exact er_processTimers s _
  | acTimerStatus t =>
    cases t with
    | request => rfl
    | status l => exact er_processTimers s _
  | unsupported i r => rfl

theorem er_hbOnMessage (s : State) (m : RMsg) : hbOnMessage (er s) m = er (hbOnMessage s m) := by
  unfold hbOnMessage; split <;> rfl

theorem er_recv (s : State) (m : RMsg) : recv (er s) m = (er (recv s m).1, (recv s m).2) := by
  unfold recv
  have : (er s).subscribed = s.subscribed := rfl
  simp only [this, er_onMessage]
  split
  · simp only [er_hbOnMessage]
  · simp only [er_hbOnMessage]

theorem er_onConn (s : State) (up : Bool) : onConn (er s) up = (er (onConn s up).1, (onConn s up).2) := by
  unfold onConn
  have h1 : (er s).subscribed = s.subscribed := rfl
  have h2 : (er s).st = s.st := rfl
  have h3 : (er s).sockOpen = s.sockOpen := rfl
  rw [h1, h2, h3]
  split
  · rfl
  · split
    · split <;> rfl
    · split
      · split <;> rfl
      · rfl

theorem er_tick (s : State) : tick (er s) = (er (tick s).1, (tick s).2) := by
  have hb : ∀ t : State, fireHbTimeout (er t) = (er (fireHbTimeout t).1, (fireHbTimeout t).2) := by
    intro t
    unfold fireHbTimeout
    have : (er t).hb = t.hb := rfl
    have h2 : (er t).now = t.now := rfl
    have h3 : (er t).sockConnected = t.sockConnected := rfl
    rw [this, h2, h3]
    split
    · split
      · split <;> rfl
      · rfl
    · rfl
  have hbt : ∀ t : State, fireBeat (er t) = (er (fireBeat t).1, (fireBeat t).2) := by
    intro t
    unfold fireBeat
    have : (er t).hb = t.hb := rfl
    have h2 : (er t).now = t.now := rfl
    have h3 : (er t).sockConnected = t.sockConnected := rfl
    rw [this, h2, h3]
    split
    · split <;> rfl
    · rfl
  have hp : ∀ t : State, firePolls (er t) = (er (firePolls t).1, (firePolls t).2) := fun t => rfl
  have hi : ∀ t : State, fireInitWaits (er t) = (er (fireInitWaits t).1, (fireInitWaits t).2) := fun t => rfl
  unfold tick
  have e0 : ({ er s with now := (er s).now + 1, hb := { (er s).hb with now := (er s).now + 1 } } : State) =
      er { s with now := s.now + 1, hb := { s.hb with now := s.now + 1 } } := rfl
  simp only [e0, hb, hp, hi, hbt]

theorem er_advance (n : Nat) (s : State) : advance n (er s) = (er (advance n s).1, (advance n s).2) := by
  induction n generalizing s with
  | zero => rfl
  | succ n ih => simp only [advance, er_tick, ih]


theorem er_airConditioners (s : State) : (er s).airConditioners = s.airConditioners.map erAc := by
  simp only [State.airConditioners, er, List.getElem?_map, List.map_filterMap]

theorem er_findZone (s : State) (i : Nat) : (er s).findZone i = s.findZone i := by
  simp only [State.findZone, er_airConditioners, List.flatMap_map]
  have h1 : (s.airConditioners.flatMap fun a => (erAc a).zones) = s.airConditioners.flatMap (·.zones) := rfl
  rw [h1]
  congr 1
  funext zi
  simp only [er, List.getElem?_map]
  cases s.zoneObjs[zi]? <;> rfl

theorem callAc_er (a : AcObj) (c : Call) : callAc (erAc a) c = callAc a c := by
  cases c <;> rfl

theorem callZone_er (z : ZoneObj) (c : Call) : callZone (erZone z) c = callZone z c := by
  cases c <;> rfl

theorem er_callResult (s : State) (c : Call) : callResult (er s) c = callResult s c := by
  unfold callResult
  cases c with
  | atCheckForUpdates => rfl
  | acSetPower i p => simp only [Call.acId?, er_findAc]; cases s.findAc i <;> simp [callAc_er]
  | acSetMode i m po => simp only [Call.acId?, er_findAc]; cases s.findAc i <;> simp [callAc_er]
  | acSetFanSpeed i f => simp only [Call.acId?, er_findAc]; cases s.findAc i <;> simp [callAc_er]
  | acSetTemp i t => simp only [Call.acId?, er_findAc]; cases s.findAc i <;> simp [callAc_er]
  | acSetTimerTime i tt hh mm => simp only [Call.acId?, er_findAc]; cases s.findAc i <;> simp [callAc_er]
  | acSetTimerDuration i tt secs => simp only [Call.acId?, er_findAc]; cases s.findAc i <;> simp [callAc_er]
  | acClearTimer i tt => simp only [Call.acId?, er_findAc]; cases s.findAc i <;> simp [callAc_er]
  | zoneSetPower i p =>
    simp only [Call.acId?, Call.zoneId?, er_findZone]
    cases s.findZone i with
    | none => rfl
    | some zi =>
      simp only [Option.bind_some, er, List.getElem?_map]
      cases s.zoneObjs[zi]? <;> simp [callZone_er]
  | zoneSetTemp i t =>
    simp only [Call.acId?, Call.zoneId?, er_findZone]
    cases s.findZone i with
    | none => rfl
    | some zi =>
      simp only [Option.bind_some, er, List.getElem?_map]
      cases s.zoneObjs[zi]? <;> simp [callZone_er]
  | zoneSetDamper i d =>
    simp only [Call.acId?, Call.zoneId?, er_findZone]
    cases s.findZone i with
    | none => rfl
    | some zi =>
      simp only [Option.bind_some, er, List.getElem?_map]
      cases s.zoneObjs[zi]? <;> simp [callZone_er]

theorem er_doCall (s : State) (c : Call) : doCall (er s) c = doCall s c := by
  unfold doCall
  rw [er_callResult]
  rfl

theorem erSubs_subAdd (l : List Sub) (sid : String) (r : Bool) :
    subAdd (erSubs l) { sid := sid, raises := false } = erSubs (subAdd l { sid := sid, raises := r }) := by
  unfold subAdd
  have : (erSubs l).any (fun x => x.sid == sid) = l.any (fun x => x.sid == sid) := by
    simp [erSubs, List.any_map]
    rfl
  simp only [this]
  split
  · rfl
  · simp [erSubs]

theorem erSubs_subRemove (l : List Sub) (sid : String) : subRemove (erSubs l) sid = erSubs (subRemove l sid) := by
  simp only [subRemove, erSubs, List.filter_map]
  rfl

theorem er_subUnsub (s : State) (t : Target) (f g : List Sub → List Sub) (hfg : ∀ l, g (erSubs l) = erSubs (f l)) :
    subUnsub (er s) t g = (er (subUnsub s t f).1, (subUnsub s t f).2) := by
  unfold subUnsub
  cases t with
  | airtouch =>
    simp only
    have : g (er s).subs = erSubs (f s.subs) := hfg s.subs
    simp only [this]
    rfl
  | ac i general =>
    simp only [er_findAc]
    cases s.findAc i with
    | none => rfl
    | some a =>
      simp only [Option.map_some]
      rw [← er_setAc]
      cases general with
      | true =>
        have : ({ erAc a with subs := g (erAc a).subs } : AcObj) = erAc { a with subs := f a.subs } := by
          simp only [erAc, hfg]
        simp [this]
      | false =>
        have : ({ erAc a with stateSubs := g (erAc a).stateSubs } : AcObj) = erAc { a with stateSubs := f a.stateSubs } := by
          simp only [erAc, hfg]
        simp [this]
  | zone i =>
    simp only [er_findZone]
    cases s.findZone i with
    | none => rfl
    | some zi =>
      simp only
      have hz : (er s).zoneObjs[zi]? = (s.zoneObjs[zi]?).map erZone := by simp [er, List.getElem?_map]
      rw [hz]
      cases s.zoneObjs[zi]? with
      | none => rfl
      | some z =>
        simp only [Option.map_some]
        have : ({ erZone z with subs := g (erZone z).subs } : ZoneObj) = erZone { z with subs := f z.subs } := by
          simp only [erZone, hfg]
        simp only [this, er, List.map_set]

theorem viewZone_er (z : ZoneObj) : viewZone (erZone z) = viewZone z := rfl

theorem viewAc_er (zs : List ZoneObj) (a : AcObj) : viewAc (zs.map erZone) (erAc a) = viewAc zs a := by
  unfold viewAc
  have h : ((erAc a).zones.filterMap ((zs.map erZone)[·]?)).mapM viewZone = (a.zones.filterMap (zs[·]?)).mapM viewZone := by
    have : (erAc a).zones = a.zones := rfl
    rw [this]
    generalize a.zones = l
    have hl : ∀ l : List Nat, l.filterMap ((zs.map erZone)[·]?) = (l.filterMap (zs[·]?)).map erZone := by
      intro l
      induction l with
      | nil => rfl
      | cons x xs ih =>
        simp only [List.filterMap_cons, List.getElem?_map]
        cases zs[x]? with
        | none => simpa using ih
        | some z => simp only [Option.map_some, List.map_cons]; rw [← ih]; simp [List.getElem?_map]
    rw [hl]
    generalize l.filterMap (zs[·]?) = zl
    induction zl with
    | nil => rfl
    | cons z zt ih => simp only [List.map_cons, List.mapM_cons, viewZone_er, ih]
  simp only [h]
  rfl

theorem viewAt_er (s : State) : viewAt (er s) = viewAt s := by
  unfold viewAt
  have h : (er s).airConditioners.mapM (viewAc (er s).zoneObjs) = s.airConditioners.mapM (viewAc s.zoneObjs) := by
    rw [er_airConditioners]
    have : (er s).zoneObjs = s.zoneObjs.map erZone := rfl
    rw [this]
    generalize s.airConditioners = l
    induction l with
    | nil => rfl
    | cons a as ih => simp only [List.map_cons, List.mapM_cons, viewAc_er, ih]
  simp only [h]
  rfl

/-- **whether subscribers raise is irrelevant**: the model run with every "raises" flag erased produces the same
    outputs, step for step, and reaches the erased state -/
theorem er_apiStep (s : State) (op : Op) : apiStep (er s) (erOp op) = (er (apiStep s op).1, (apiStep s op).2) := by
  cases op with
  | init =>
    simp only [erOp, apiStep, doInit]
    have : (er s).initialised = s.initialised := rfl
    rw [this]
    split <;> rfl
  | shutdown => rfl
  | conn up => exact er_onConn { s with sockConnected := up, hb := hbApply { s.hb with now := s.now } (.conn up) } up
  | msg mid payload =>
    simp only [erOp, apiStep]
    split
    · exact er_recv s _
    · rfl
  | recv m => exact er_recv s m
  | call c => simp only [erOp, apiStep, er_doCall]
  | callBad cls => rfl
  | sub t sid r =>
    exact er_subUnsub s t (subAdd · { sid := sid, raises := r }) (subAdd · { sid := sid, raises := false })
      (fun l => erSubs_subAdd l sid r)
  | unsub t sid => exact er_subUnsub s t (subRemove · sid) (subRemove · sid) (fun l => erSubs_subRemove l sid)
  | adv n => exact er_advance n s
  | view =>
    simp only [erOp, apiStep, viewAt_er]
    split <;> rfl

theorem er_run (s : State) (ops : List Op) : run (er s) (ops.map erOp) = (er (run s ops).1, (run s ops).2) := by
  induction ops generalizing s with
  | nil => rfl
  | cons op ops ih => simp only [List.map_cons, run, er_apiStep, ih]

end PyAirtouch.Lemmas.Api4
