import PyAirtouch.Model.SockX
import PyAirtouch.Lemmas.SockOrder
import PyAirtouch.Lemmas.SockLoss
/-!
# Invariants of the socket model extended with cancellation of API callers (`Model/SockX.lean`)

Every invariant of the base model that the C01 / C16 theorems rest on is re-established for `stepX`:
the `base` case is the existing per-step preservation lemma, the `cancel` case is proved here.

* `cancel_abs`: a cancellation is a step of the abstract queue / trace / in-flight system `AStep` (the entry held by
  the cancelled task leaves the in-flight set: `AStep.dropF`), hence `AInv` (`inv_of_reachableWFX`) and the
  bound on never-re-queued entries (`fresh_bound_of_reachableX`);
* `stepX_sinv`: the order invariant `SockOrder.SInv`;
* `tinv_reachableWFX`: the accounting invariant `SockLoss.SInv`;
* `astep_gone`: an identity that is in neither the queue nor the in-flight set, and that was used before, stays out
  for ever and is never written again (`gone_after_cancel`, `runX_gone`).
-/
namespace PyAirtouch.Lemmas.SockX
open PyAirtouch.Model.Sock PyAirtouch.Spec.Trace PyAirtouch.Lemmas.Sock

/-! ### the cancel step -/

theorem stepX_cancel {s s' : Sys} {t : Nat} (h : stepX s (.cancel t) = some s') :
    ∃ k, s.tasks[t]? = some k ∧ k.bg = false ∧ cancellable k.pc = true ∧
      s' = { s with tasks := s.tasks.modify t (fun k => { k with pc := .finished }) } := by
  simp only [stepX] at h
  split at h
  · rename_i k hk
    split at h
    · rename_i hc
      simp only [Bool.and_eq_true, Bool.not_eq_true'] at hc
      injection h with h
      exact ⟨k, hk, hc.1, hc.2, h.symm⟩
    · cases h
  · cases h

theorem stepX_cancel_core {s s' : Sys} {t : Nat} (h : stepX s (.cancel t) = some s') : s'.core = s.core := by
  obtain ⟨k, _, _, _, rfl⟩ := stepX_cancel h
  rfl

/-! ### label sequences -/

theorem sendSidsX_append (l₁ l₂ : List LabelX) : sendSidsX (l₁ ++ l₂) = sendSidsX l₁ ++ sendSidsX l₂ := by
  simp [sendSidsX, List.filterMap_append]

theorem sendSidsX_base (ls : List Label) : sendSidsX (ls.map LabelX.base) = sendSids ls := by
  induction ls with
  | nil => rfl
  | cons l ls ih =>
    simp only [List.map_cons, sendSidsX, sendSids, List.filterMap_cons] at ih ⊢
    cases l <;> simp [ih]

theorem runX_append (s : Sys) (l₁ l₂ : List LabelX) :
    runX s (l₁ ++ l₂) = (runX s l₁).bind (fun s' => runX s' l₂) := by
  induction l₁ generalizing s with
  | nil => simp [runX]
  | cons l ls ih =>
    simp only [List.cons_append, runX]
    cases stepX s l with
    | none => simp
    | some s' => simpa using ih s'

theorem runX_snoc (s s' : Sys) (ls : List LabelX) (l : LabelX) :
    runX s (ls ++ [l]) = some s' ↔ ∃ m, runX s ls = some m ∧ stepX m l = some s' := by
  rw [runX_append]
  cases h : runX s ls with
  | none => simp
  | some m =>
    simp only [Option.bind_some, runX, Option.some.injEq, exists_eq_left']
    cases stepX m l <;> simp

/-- induction over the extended history, newest label last -/
theorem runX_induction {P : List LabelX → Sys → Prop} (h0 : P [] init)
    (hs : ∀ ls s l s', runX init ls = some s → P ls s → stepX s l = some s' → P (ls ++ [l]) s') :
    ∀ ls s, runX init ls = some s → P ls s := by
  have key : ∀ ls pre m s, runX init pre = some m → P pre m → runX m ls = some s → P (pre ++ ls) s := by
    intro ls
    induction ls with
    | nil => intro pre m s _ hp h; simp only [runX, Option.some.injEq] at h; subst h; simpa using hp
    | cons l ls ih =>
      intro pre m s hm hp h
      simp only [runX] at h
      cases hst : stepX m l with
      | none => simp [hst] at h
      | some m' =>
        simp only [hst, Option.bind_some] at h
        have hm' : runX init (pre ++ [l]) = some m' := (runX_snoc _ _ _ _).2 ⟨m, hm, hst⟩
        have := ih (pre ++ [l]) m' s hm' (hs pre m l m' hm hp hst) h
        simpa using this
  intro ls s h
  simpa using key ls [] init s rfl h0 h

theorem ReachableX.induction {P : Sys → Prop} (h0 : P init)
    (hs : ∀ s l s', ReachableX s → P s → stepX s l = some s' → P s') : ∀ s, ReachableX s → P s := by
  intro s ⟨ls, h⟩
  exact runX_induction (P := fun _ s => P s) h0 (fun ls s l s' hr hp hst => hs s l s' ⟨ls, hr⟩ hp hst) ls s h

/-- the extended system contains the base system -/
theorem runX_base {ls : List Label} : ∀ {s s' : Sys}, run s ls = some s' → runX s (ls.map LabelX.base) = some s' := by
  induction ls with
  | nil => intro s s' h; exact h
  | cons l ls ih =>
    intro s s' h
    simp only [run] at h
    simp only [List.map_cons, runX, stepX]
    cases hs : step s l with
    | none => rw [hs] at h; cases h
    | some m => rw [hs] at h; exact ih h

theorem reachableX_of_reachable {s : Sys} (h : Reachable s) : ReachableX s :=
  let ⟨ls, h⟩ := h; ⟨ls.map LabelX.base, runX_base h⟩

theorem reachableWFX_of_reachableWF {s : Sys} (h : ReachableWF s) : ReachableWFX s :=
  let ⟨ls, hn, h⟩ := h; ⟨ls.map LabelX.base, by rw [sendSidsX_base]; exact hn, runX_base h⟩

theorem ReachableWFX.reachableX {s : Sys} (h : ReachableWFX s) : ReachableX s :=
  let ⟨ls, _, h⟩ := h; ⟨ls, h⟩

/-! ### a cancellation in the abstract queue / trace / in-flight system -/

def usedAfterX (u : List Nat) : LabelX → List Nat
  | .base l => usedAfter u l
  | .cancel _ => u

theorem usedAfterX_eq (u : List Nat) (l : LabelX) : usedAfterX u l = u ++ sendSidsX [l] := by
  cases l with
  | base l => cases l <;> simp [usedAfterX, usedAfter, sendSidsX]
  | cancel t => simp [usedAfterX, sendSidsX]

/-- the in-flight entries before and after task `t` is retired -/
theorem flOf_cancel_split {ts : List Task} {t : Nat} {k : Task} (hk : ts[t]? = some k) :
    (flOf ts).Perm (hold k.pc ++ flOf (ts.eraseIdx t)) ∧
    (flOf (ts.modify t (fun k => { k with pc := .finished }))).Perm (flOf (ts.eraseIdx t)) := by
  have hs := flOf_split (fun k => { k with pc := Pc.finished }) ts t k hk
  exact ⟨hs.1, by simpa [hold] using hs.2⟩

theorem flOf_cancel_subset {ts : List Task} {t : Nat} {k : Task} (hk : ts[t]? = some k) :
    ∀ x ∈ flOf (ts.modify t (fun k => { k with pc := .finished })), x ∈ flOf ts := by
  intro x hx
  obtain ⟨h1, h2⟩ := flOf_cancel_split hk
  exact h1.symm.subset (List.mem_append_right _ (h2.subset hx))

theorem cancel_abs (u : List Nat) {s s' : Sys} {t : Nat} (h : stepX s (.cancel t) = some s') :
    AStep (abs u s) (abs u s') := by
  obtain ⟨k, hk, _, _, rfl⟩ := stepX_cancel h
  obtain ⟨h1, h2⟩ := flOf_cancel_split hk
  have a1 : AStep (abs u s) (absC u s.core (hold k.pc ++ flOf (s.tasks.eraseIdx t))) := AStep.permF' h1.symm
  have a2 : AStep (absC u s.core (hold k.pc ++ flOf (s.tasks.eraseIdx t))) (absC u s.core (flOf (s.tasks.eraseIdx t))) :=
    AStep.dropF' (List.sublist_append_right _ _)
  refine (a1.trans a2).trans ?_
  unfold abs
  exact AStep.permF' h2

theorem stepX_abs (u : List Nat) (s s' : Sys) (l : LabelX) (h : stepX s l = some s') :
    AStep (abs u s) (abs (usedAfterX u l) s') := by
  cases l with
  | base l => exact step_abs u s s' l h
  | cancel t => exact cancel_abs u h

/-- a run of the extended model from any state is a run of the abstract system -/
theorem runX_abs_from : ∀ (ls : List LabelX) (u : List Nat) (s s' : Sys), runX s ls = some s' →
    AStep (abs u s) (abs (u ++ sendSidsX ls) s') := by
  intro ls
  induction ls with
  | nil =>
    intro u s s' h
    simp only [runX, Option.some.injEq] at h; subst h
    simpa [sendSidsX] using AStep.refl (abs u s)
  | cons l ls ih =>
    intro u s s' h
    simp only [runX] at h
    cases hst : stepX s l with
    | none => simp [hst] at h
    | some m =>
      simp only [hst, Option.bind_some] at h
      have h1 := stepX_abs u s m l hst
      have h2 := ih (usedAfterX u l) m s' h
      rw [usedAfterX_eq, List.append_assoc, ← sendSidsX_append] at h2
      rw [usedAfterX_eq] at h1
      exact h1.trans h2

theorem runX_abs (ls : List LabelX) (s : Sys) (h : runX init ls = some s) :
    AStep (abs [] init) (abs (sendSidsX ls) s) := by
  simpa using runX_abs_from ls [] init s h

theorem ainv_of_runX {ls : List LabelX} {s : Sys} (hn : (sendSidsX ls).Nodup) (h : runX init ls = some s) :
    AInv (abs (sendSidsX ls) s) :=
  (runX_abs ls s h).inv (fun _ => AInv.init) hn

theorem inv_of_reachableWFX {s : Sys} (h : ReachableWFX s) : ∃ u, AInv (abs u s) := by
  obtain ⟨ls, hn, h⟩ := h
  exact ⟨sendSidsX ls, ainv_of_runX hn h⟩

theorem fresh_bound_of_reachableX {s : Sys} (h : ReachableX s) : (fresh s.core.queue).length ≤ CAP := by
  obtain ⟨ls, h⟩ := h
  exact (runX_abs ls s h).fresh_bound (by simp [abs, absC, init, fresh])

/-! ### the order invariant -/

theorem cancel_sinv {u : List Nat} {s s' : Sys} {t : Nat} (hI : SockOrder.SInv u s)
    (h : stepX s (.cancel t) = some s') : SockOrder.SInv u s' := by
  obtain ⟨k, _, _, _, rfl⟩ := stepX_cancel h
  refine ⟨hI.1, ?_⟩
  intro k' hk'
  rcases SockOrder.mem_modify _ _ _ _ hk' with hk' | ⟨y, _, rfl⟩
  · exact hI.2 k' hk'
  · trivial

theorem stepX_sinv (u : List Nat) (s s' : Sys) (l : LabelX) (hI : SockOrder.SInv u s) (h : stepX s l = some s') :
    SockOrder.SInv (usedAfterX u l) s' := by
  cases l with
  | base l => exact SockOrder.step_sinv u s s' l hI h
  | cancel t => exact cancel_sinv hI h

theorem runX_sinv (ls : List LabelX) (s : Sys) (h : runX init ls = some s) : SockOrder.SInv (sendSidsX ls) s := by
  refine runX_induction (P := fun ls s => SockOrder.SInv (sendSidsX ls) s) SockOrder.SInv.init ?_ ls s h
  intro ls s l s' _ hp hst
  have := stepX_sinv (sendSidsX ls) s s' l hp hst
  rwa [usedAfterX_eq, ← sendSidsX_append] at this

/-- in a history without loss, every message is written at most once and in acceptance order -/
theorem once_in_orderX {s : Sys} (h : ReachableWFX s) (hn : SockOrder.noLoss s.core.trace = true) :
    (∀ sid, wireCount s.core.trace sid ≤ 1) ∧ (wiredSids s.core.trace).Sublist (acceptedSids s.core.trace) := by
  obtain ⟨ls, hnd, hr⟩ := h
  have hI := runX_sinv ls s hr
  obtain ⟨_, hs⟩ := hI.1.good hn
  have hsub : (wiredSids s.core.trace).Sublist (acceptedSids s.core.trace) :=
    (List.sublist_append_left _ _).trans hs
  have hnd' : (wiredSids s.core.trace).Nodup := (hnd.sublist hI.1.accU).sublist hsub
  refine ⟨fun sid => ?_, hsub⟩
  rw [SockOrder.wireCount_eq_count]
  exact List.nodup_iff_count.1 hnd' sid

/-! ### the accounting invariant -/

theorem cancel_tinv {s s' : Sys} {t : Nat} (hI : SockLoss.SInv s) (h : stepX s (.cancel t) = some s') :
    SockLoss.SInv s' := by
  obtain ⟨k, hk, _, _, rfl⟩ := stepX_cancel h
  exact SockLoss.TInv.subF hI _ (flOf_cancel_subset hk)

/-- the link between `is_open` and the sessions recorded in the trace (`SockLoss.OInv`) for the extended system: a
    cancellation changes no field of the socket -/
theorem oinv_reachableX {s : Sys} (h : ReachableX s) : SockLoss.OInv s.core := by
  refine ReachableX.induction (P := fun s => SockLoss.OInv s.core) (SockLoss.oinv_reachable ⟨[], rfl⟩) ?_ s h
  intro s l s' _ hp hst
  cases l with
  | cancel t => rw [stepX_cancel_core hst]; exact hp
  | base l => exact SockLoss.step_oinv hp hst

theorem tinv_reachableWFX {s : Sys} (h : ReachableWFX s) : SockLoss.SInv s := by
  obtain ⟨ls, hn, hr⟩ := h
  refine runX_induction (P := fun ls s => (sendSidsX ls).Nodup → SockLoss.SInv s) (fun _ => SockLoss.sinv_init) ?_ ls s hr hn
  intro ls s l s' hrun hp hst hnd
  rw [sendSidsX_append] at hnd
  have hnd0 : (sendSidsX ls).Nodup := (List.nodup_append.1 hnd).1
  cases l with
  | cancel t => exact cancel_tinv (hp hnd0) hst
  | base l =>
    have hinv : AInv (abs (sendSidsX ls) s) := ainv_of_runX hnd0 hrun
    have hrw : SockOrder.rwValid s.core := (runX_sinv ls s hrun).1.rwv
    refine SockLoss.step_tinv (hp hnd0) (fun w hw => hrw w hw) (oinv_reachableX ⟨ls, hrun⟩) ?_ hst
    intro sid r life ok hl
    subst hl
    cases hx : acceptedAt s.core.trace sid with
    | none => rfl
    | some x =>
      exfalso
      have hu : sid ∈ sendSidsX ls := hinv.accUsed sid x hx
      have := (List.nodup_append.1 hnd).2.2 sid hu sid (by simp [sendSidsX])
      exact this rfl

/-! ### an identity that has left the queue and the in-flight set never comes back -/

theorem wireCount_quiet (tr : List Ev) (ev : Ev) (s : Nat) (h : Quiet ev = true) :
    wireCount (tr ++ [ev]) s = wireCount tr s := by
  cases ev <;> simp_all [Quiet, wireCount, List.countP_append]

theorem wireCount_accept (tr : List Ev) (s sid t e r : Nat) (ok : Bool) :
    wireCount (tr ++ [.accept sid t e r ok]) s = wireCount tr s := by
  simp [wireCount, List.countP_append]

theorem wireCount_write_ne (tr : List Ev) (ev : Ev) (s sid now : Nat) (h : IsWrite ev sid now) (hne : sid ≠ s) :
    wireCount (tr ++ [ev]) s = wireCount tr s := by
  obtain ⟨cid, rfl | rfl | rfl⟩ := h <;> simp [wireCount, List.countP_append, hne]

/-- identity `sid` has been used by a `send`, and no entry of the queue or of the in-flight set carries it -/
def GoneA (sid : Nat) (a : Abs) : Prop :=
  sid ∈ a.used ∧ (∀ x ∈ a.queue, x.sid ≠ sid) ∧ (∀ x ∈ a.fl, x.sid ≠ sid)

theorem astep_gone {a b : Abs} (h : AStep a b) (sid : Nat) : b.used.Nodup → GoneA sid a →
    GoneA sid b ∧ writeAttempts b.trace sid = writeAttempts a.trace sid ∧ wireCount b.trace sid = wireCount a.trace sid := by
  induction h with
  | refl a => exact fun _ hg => ⟨hg, rfl, rfl⟩
  | trans h1 h2 ih1 ih2 =>
    intro hn hg
    obtain ⟨g1, w1, c1⟩ := ih1 (hn.sublist h2.used_sublist) hg
    obtain ⟨g2, w2, c2⟩ := ih2 hn g1
    exact ⟨g2, w2.trans w1, c2.trans c1⟩
  | tick a t h => exact fun _ hg => ⟨hg, rfl, rfl⟩
  | note a ev hq => exact fun _ hg => ⟨hg, writeAttempts_quiet _ _ _ hq, wireCount_quiet _ _ _ hq⟩
  | dropQ a q' hs => exact fun _ hg => ⟨⟨hg.1, fun x hx => hg.2.1 x (hs.subset hx), hg.2.2⟩, rfl, rfl⟩
  | dropF a fl' hs => exact fun _ hg => ⟨⟨hg.1, hg.2.1, fun x hx => hg.2.2 x (hs.subset hx)⟩, rfl, rfl⟩
  | permF a fl' hs => exact fun _ hg => ⟨⟨hg.1, hg.2.1, fun x hx => hg.2.2 x (hs.subset hx)⟩, rfl, rfl⟩
  | write a e rest wev hq hlt hw =>
    intro _ hg
    have hne : e.sid ≠ sid := hg.2.1 e (by simp [hq])
    refine ⟨⟨hg.1, fun x hx => hg.2.1 x (by simp [hq, hx]), ?_⟩, ?_, wireCount_write_ne _ _ _ _ _ hw hne⟩
    · intro x hx
      rcases List.mem_cons.1 hx with rfl | hx
      · exact hne
      · exact hg.2.2 x hx
    · rw [writeAttempts_write _ _ _ _ _ hw, if_neg hne]; rfl
  | writeNone a e rest hq =>
    intro _ hg
    have hne : e.sid ≠ sid := hg.2.1 e (by simp [hq])
    refine ⟨⟨hg.1, fun x hx => hg.2.1 x (by simp [hq, hx]), ?_⟩, rfl, rfl⟩
    intro x hx
    rcases List.mem_cons.1 hx with rfl | hx
    · exact hne
    · exact hg.2.2 x hx
  | requeue a e fl' hf hk =>
    intro _ hg
    have hne : e.sid ≠ sid := hg.2.2 e (by simp [hf])
    refine ⟨⟨hg.1, ?_, fun x hx => hg.2.2 x (by simp [hf, hx])⟩, rfl, rfl⟩
    intro x hx
    rcases List.mem_cons.1 hx with rfl | hx
    · exact hne
    · exact hg.2.1 x hx
  | burn a sid' => exact fun _ hg => ⟨⟨List.mem_append_left _ hg.1, hg.2.1, hg.2.2⟩, rfl, rfl⟩
  | accept a sid' r life ok hcap =>
    intro hn hg
    have hne : sid' ≠ sid := by
      intro heq
      subst heq
      simp only [List.nodup_append, List.mem_singleton] at hn
      exact hn.2.2 sid' hg.1 sid' rfl rfl
    refine ⟨⟨List.mem_append_left _ hg.1, ?_, hg.2.2⟩, writeAttempts_accept _ _ _ _ _ _ _, wireCount_accept _ _ _ _ _ _ _⟩
    intro x hx
    rcases List.mem_append.1 hx with hx | hx
    · exact hg.2.1 x hx
    · rw [List.mem_singleton.1 hx]; exact hne

theorem mem_flOf_iff {ts : List Task} {x : Entry} :
    x ∈ flOf ts ↔ ∃ k ∈ ts, ∃ w r, k.pc = .drainAwait w x r := by
  simp only [flOf, List.mem_flatMap]
  constructor
  · rintro ⟨k, hk, hx⟩
    refine ⟨k, hk, ?_⟩
    cases hp : k.pc <;> rw [hp] at hx <;> simp [hold] at hx
    subst hx
    exact ⟨_, _, rfl⟩
  · rintro ⟨k, hk, w, r, hp⟩
    exact ⟨k, hk, by rw [hp]; simp [hold]⟩

/-- right after the caller holding `e` in `drain()` is cancelled, `e`'s identity is in neither the queue nor the
    in-flight set -/
theorem gone_after_cancel {ls : List LabelX} {m m' : Sys} {t w : Nat} {e : Entry} {r : Ret}
    (hn : (sendSidsX ls).Nodup) (hr : runX init ls = some m) (hpc : pcAt m t = some (.drainAwait w e r))
    (hc : stepX m (.cancel t) = some m') : GoneA e.sid (abs (sendSidsX ls) m') := by
  have hinv := ainv_of_runX hn hr
  obtain ⟨k, hk, _, _, rfl⟩ := stepX_cancel hc
  have hkp : k.pc = .drainAwait w e r := by
    unfold pcAt at hpc
    simpa [hk] using hpc
  obtain ⟨h1, h2⟩ := flOf_cancel_split hk
  rw [hkp] at h1
  have he : e ∈ flOf m.tasks := h1.symm.subset (by simp [hold])
  obtain ⟨t0, r0, ha, _⟩ := hinv.flying e he
  have hu : ((m.core.queue ++ e :: flOf (m.tasks.eraseIdx t)).map (·.sid)).Nodup := by
    have := hinv.uniq
    exact (List.Perm.nodup_iff ((List.Perm.append_left m.core.queue h1).map _)).1 this
  have hp : (m.core.queue ++ e :: flOf (m.tasks.eraseIdx t)).Perm (e :: (m.core.queue ++ flOf (m.tasks.eraseIdx t))) :=
    List.perm_middle
  have hu' := (List.Perm.nodup_iff (hp.map _)).1 hu
  simp only [List.map_cons, List.nodup_cons, List.mem_map, List.mem_append] at hu'
  refine ⟨hinv.accUsed _ _ ha, ?_, ?_⟩
  · intro x hx heq
    exact hu'.1 ⟨x, .inl hx, heq⟩
  · intro x hx heq
    exact hu'.1 ⟨x, .inr (h2.subset hx), heq⟩

/-- … and it stays so along every continuation, during which it is never written again -/
theorem runX_gone {u : List Nat} {s s' : Sys} {ls : List LabelX} {sid : Nat} (hn : (u ++ sendSidsX ls).Nodup)
    (hg : GoneA sid (abs u s)) (hr : runX s ls = some s') :
    GoneA sid (abs (u ++ sendSidsX ls) s') ∧ writeAttempts s'.core.trace sid = writeAttempts s.core.trace sid ∧
      wireCount s'.core.trace sid = wireCount s.core.trace sid :=
  astep_gone (runX_abs_from ls u s s' hr) sid hn hg

/-! ### histories that respect the calling discipline of `close()` and the EOF rule (`SockHeal.fair`), with cancellations -/

/-- `runX` restricted to base labels that are `fair` (see `Lemmas/SockHealInv.lean`: no `open_socket()` / `close()` while a
    `close()` is in progress; a reader is not told "EOF" on a transport lost with an exception); cancellations are free -/
def runXH (s : Sys) : List LabelX → Option Sys
  | [] => some s
  | .base l :: ls => if SockHeal.fair s l then (step s l).bind (fun s' => runXH s' ls) else none
  | .cancel t :: ls => (stepX s (.cancel t)).bind (fun s' => runXH s' ls)

theorem runXH_runX {ls : List LabelX} : ∀ {s s' : Sys}, runXH s ls = some s' → runX s ls = some s' := by
  induction ls with
  | nil => intro s s' h; exact h
  | cons l ls ih =>
    intro s s' h
    cases l with
    | base l =>
      simp only [runXH] at h
      split at h
      · simp only [runX, stepX]
        cases hs : step s l with
        | none => rw [hs] at h; cases h
        | some m => rw [hs] at h; exact ih h
      · cases h
    | cancel t =>
      simp only [runXH] at h
      simp only [runX]
      cases hs : stepX s (.cancel t) with
      | none => rw [hs] at h; cases h
      | some m => rw [hs] at h; exact ih h

end PyAirtouch.Lemmas.SockX
