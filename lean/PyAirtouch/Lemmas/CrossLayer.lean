import PyAirtouch.Lemmas.Frame
import PyAirtouch.Lemmas.Registry4
import PyAirtouch.Lemmas.Registry5
import PyAirtouch.Lemmas.Api4Reach
import PyAirtouch.Lemmas.Api5Run
import PyAirtouch.Model.ApiCmd5
/-!
# Cross-layer lemmas: bytes on the wire → receive path → registry decoders → API ops

The three layers of the model are composed here:

* `Frame` (receive path `feed` / `feedAll`, send path `frame`),
* the registries (`At4.Registry`, `At5.Registry`: `encodeMsg`, `decodeMsg`, `WFMsg`),
* the API state machines (`Api4`, `Api5`).

## the wire

`Wire` is a frame as it travels: a header and the payload bytes (`Wire.bytes`: header bytes, payload, check bytes, as the
send-path model `Frame.frame` computes them).  `Wire.WF`: the header fields fit their struct fields, the header announces
the payload's length, the payload is made of bytes.  `Sent = Wire × Msg` pairs a frame with the message the registry's
decoder makes of its payload (`Sent.Good`).  Two sources of good frames:

* `wireOf t f pid m` - the registry's encoder applied to a well-formed message (`Sendable`), any addresses, any packet
  id (`wireOf_good`, by the C03 round trip `msg_ok`); `consoleWire pid m` is `wireOf 0xB0 (0x90 if extended else 0x80) pid m`
  (the header `Api4.harnessHeader` builds, with packet id `pid`); `writeFrame_wireOf`: `Wire.bytes` is what
  `Registry.writeFrame` writes;
* `unknownWire t f pid id raw` - a frame of a type the registry does not know (`unknownWire_good`, decoded to
  `Msg.unsupported id raw`).

## the results

* `feedAll_frames` (generic): a concatenation of complete frames (`IsFrame`), cut into segments in any way, is delivered
  frame by frame, in order, nothing else, and the buffer ends empty;
* `At4.stream_delivers`, `At5.stream_delivers` and the `…_raw` variants for the receive path that does not decode
  payloads (`rawProto`: what a driver sees that hands payload bytes on);
* `At4.apiStep_msg_eq_recv`, `At4.run_msg_eq_recv`: op `msg <type> <payload>` of the AirTouch 4 API model is op `recv m`
  for a good frame; `At5.parseMsg_good`: the same for the AirTouch 5 driver's `parseMsg`.
-/
namespace PyAirtouch.Lemmas.CrossLayer
open PyAirtouch.Model PyAirtouch.Model.Frame PyAirtouch.Lemmas.Frame

/-! ## generic: a stream of complete frames -/

section Generic
variable {H M : Type}

/-- `fr` is a complete frame: whatever follows it, the receive path delivers `(h, m)` and leaves what follows -/
def IsFrame (p : Proto H M) (h : H) (m : M) (fr : Bytes) : Prop :=
  ∀ rest, parseOne p (fr ++ rest) = .deliver h m rest

/-- the bytes of a list of frames `(header, message, bytes)` -/
def streamOf (fs : List (H × M × Bytes)) : Bytes := (fs.map (·.2.2)).flatten

theorem streamOf_cons (x : H × M × Bytes) (fs : List (H × M × Bytes)) :
    streamOf (x :: fs) = x.2.2 ++ streamOf fs := rfl

theorem parseAll_frames (p : Proto H M) (hpos : 0 < p.headerLength) (fs : List (H × M × Bytes))
    (hfs : ∀ x ∈ fs, IsFrame p x.1 x.2.1 x.2.2) :
    ∀ f, (streamOf fs).length < f →
      parseAll p f (streamOf fs) = (fs.map (fun x => (x.1, x.2.1)), ⟨[], false⟩) := by
  induction fs with
  | nil =>
    intro f hf
    cases f with
    | zero => omega
    | succ f =>
      rw [parseAll_succ]
      have : parseOne p (streamOf ([] : List (H × M × Bytes))) = .needMore := by
        rw [parseOne_eq]
        simp only [streamOf, List.map_nil, List.flatten_nil, List.length_nil, hpos, ↓reduceIte]
      rw [this]
      rfl
  | cons x fs ih =>
    intro f hf
    cases f with
    | zero => omega
    | succ f =>
      have hx := hfs x List.mem_cons_self (streamOf fs)
      rw [parseAll_succ, streamOf_cons, hx]
      have hc := (parseOne_deliver_consumes p hx).1
      rw [streamOf_cons] at hf
      have hlt : (streamOf fs).length < f := by omega
      simp only
      rw [ih (fun y hy => hfs y (List.mem_cons_of_mem _ hy)) f hlt]
      rfl

/-- the whole stream at once -/
theorem feed_frames (p : Proto H M) (hpos : 0 < p.headerLength) (fs : List (H × M × Bytes))
    (hfs : ∀ x ∈ fs, IsFrame p x.1 x.2.1 x.2.2) :
    feed p ⟨[], false⟩ (streamOf fs) = (fs.map (fun x => (x.1, x.2.1)), ⟨[], false⟩) := by
  unfold feed
  simp only [Bool.false_eq_true, ↓reduceIte, List.nil_append]
  exact parseAll_frames p hpos fs hfs _ (Nat.lt_succ_self _)

/-- **any segmentation** of a concatenation of complete frames: each frame is delivered, once, in order, nothing else
    is, and the receiver ends with an empty buffer, alive -/
theorem feedAll_frames (p : Proto H M) (hpos : 0 < p.headerLength) (fs : List (H × M × Bytes))
    (hfs : ∀ x ∈ fs, IsFrame p x.1 x.2.1 x.2.2) (segs : List Bytes) (hsegs : segs.flatten = streamOf fs) :
    feedAll p ⟨[], false⟩ segs = (fs.map (fun x => (x.1, x.2.1)), ⟨[], false⟩) := by
  rw [feedAll_eq_feed_flatten p hpos, hsegs]
  exact feed_frames p hpos fs hfs

/-- the finest segmentation: one byte per segment -/
theorem flatten_singletons (l : Bytes) : (l.map fun b => [b]).flatten = l := by
  induction l with
  | nil => rfl
  | cons b l ih => simp only [List.map_cons, List.flatten_cons, ih]; rfl

end Generic

/-! ## AirTouch 4 -/

namespace At4
open PyAirtouch.Model.At4 PyAirtouch.Model.At4.Registry PyAirtouch.Model.Api4
open PyAirtouch.Lemmas.Registry4 PyAirtouch.Lemmas.Api4

/-- a frame as it travels: header and payload bytes -/
structure Wire where
  hdr : Hdr
  payload : Bytes

/-- the header fields fit their struct fields, the announced length is the payload's, the payload is bytes -/
def Wire.WF (w : Wire) : Prop :=
  At4.Hdr.WF w.hdr ∧ w.hdr.message_length = w.payload.length ∧ AllBytes w.payload

/-- the bytes on the wire, by the send-path model: header bytes, payload, CRC over checksum data and payload -/
def Wire.bytes (w : Wire) : Bytes :=
  match At4.Hdr.encode w.hdr with
  | .ok (hb, ck) => (Frame.frame hb ck w.payload).getD []
  | .error _ => []

/-- the receive path without the registry: payloads are handed on undecoded -/
def rawProto : Frame.Proto Hdr Bytes :=
  { headerLength := At4.Hdr.headerLength, decodeHdr := At4.Hdr.decode, msgLen := fun h => h.message_length,
    decodeMsg := fun _ bs => .ok (bs, []) }

theorem Wire.bytes_eq (w : Wire) (hw : w.WF) :
    w.bytes = [0x55, 0x55, w.hdr.to_address, w.hdr.from_address, w.hdr.packet_id, w.hdr.message_id,
        w.hdr.message_length / 256 % 256, w.hdr.message_length % 256] ++ w.payload ++
      PyAirtouch.Spec.checkBytes ([w.hdr.to_address, w.hdr.from_address, w.hdr.packet_id, w.hdr.message_id,
        w.hdr.message_length / 256 % 256, w.hdr.message_length % 256] ++ w.payload) := by
  obtain ⟨⟨hb, ck⟩, he⟩ := (at4_encode_ok_iff _).mpr hw.1
  obtain ⟨-, hck, hhb⟩ := at4_encode_eq _ hb ck he
  obtain ⟨-, -, -, hckb⟩ := at4_hdr_checksum_span _ hb ck hw.1 he
  simp only [Wire.bytes, he, frame_isSome hb ck w.payload hckb hw.2.2, Option.getD_some]
  rw [hhb, hck]
  rfl

/-- a well-formed frame whose payload the decoder of `p` accepts is a complete frame for `p` -/
theorem wire_isFrame {M : Type} (p : Frame.Proto Hdr M) (hpl : p.headerLength = At4.Hdr.headerLength)
    (hpd : p.decodeHdr = At4.Hdr.decode) (hpm : p.msgLen = fun h => h.message_length)
    (w : Wire) (hw : w.WF) (m : M) (hdec : p.decodeMsg w.hdr w.payload = .ok (m, [])) :
    IsFrame p w.hdr m w.bytes := by
  intro rest
  obtain ⟨⟨hb, ck⟩, he⟩ := (at4_encode_ok_iff _).mpr hw.1
  obtain ⟨-, -, -, hckb⟩ := at4_hdr_checksum_span _ hb ck hw.1 he
  have hfr := frame_isSome hb ck w.payload hckb hw.2.2
  have hb' : w.bytes = hb ++ w.payload ++ PyAirtouch.Spec.checkBytes (ck ++ w.payload) := by
    simp only [Wire.bytes, he, hfr, Option.getD_some]
  rw [hb']
  exact at4_frame_roundtrip p hpl hpd hpm w.hdr m hb ck w.payload _ rest hw.1 he hw.2.1 hdec hw.2.2 hfr

/-- a frame and what the registry's decoder makes of its payload -/
abbrev Sent := Wire × Msg

def Sent.Good (x : Sent) : Prop := x.1.WF ∧ decodeMsg x.1.hdr x.1.payload = .ok (x.2, [])

/-- the byte stream of a list of frames -/
def wireStream (xs : List Sent) : Bytes := (xs.map (·.1.bytes)).flatten

theorem wireStream_append (a b : List Sent) : wireStream (a ++ b) = wireStream a ++ wireStream b := by
  simp [wireStream]

theorem stream_delivers (xs : List Sent) (hx : ∀ x ∈ xs, x.Good) (segs : List Bytes)
    (hsegs : segs.flatten = wireStream xs) :
    feedAll proto ⟨[], false⟩ segs = (xs.map (fun x => (x.1.hdr, x.2)), ⟨[], false⟩) := by
  have h := feedAll_frames proto (by decide) (xs.map fun x => (x.1.hdr, x.2, x.1.bytes))
    (by
      intro y hy
      obtain ⟨x, hxm, rfl⟩ := List.mem_map.mp hy
      exact wire_isFrame proto rfl rfl rfl x.1 (hx x hxm).1 x.2 (hx x hxm).2)
    segs (by rw [hsegs]; simp [wireStream, streamOf, List.map_map, Function.comp_def])
  rw [h]
  simp [List.map_map, Function.comp_def]

theorem stream_delivers_raw (xs : List Sent) (hx : ∀ x ∈ xs, x.Good) (segs : List Bytes)
    (hsegs : segs.flatten = wireStream xs) :
    feedAll rawProto ⟨[], false⟩ segs = (xs.map (fun x => (x.1.hdr, x.1.payload)), ⟨[], false⟩) := by
  have h := feedAll_frames rawProto (by decide) (xs.map fun x => (x.1.hdr, x.1.payload, x.1.bytes))
    (by
      intro y hy
      obtain ⟨x, hxm, rfl⟩ := List.mem_map.mp hy
      exact wire_isFrame rawProto rfl rfl rfl x.1 (hx x hxm).1 x.1.payload rfl)
    segs (by rw [hsegs]; simp [wireStream, streamOf, List.map_map, Function.comp_def])
  rw [h]
  simp [List.map_map, Function.comp_def]

/-! ### frames of registry messages -/

/-- what the registry's encoder writes (`[]` when it raises) -/
def payloadOf (m : Msg) : Bytes :=
  match encodeMsg m with
  | .ok bs => bs
  | .error _ => []

/-- a message the send path accepts: well formed, and its payload fits the 16-bit length field -/
def Sendable (m : Msg) : Prop := WFMsg m ∧ (payloadOf m).length < 65536

/-- the frame of `m` with addresses `t`, `f` and packet id `pid` -/
def wireOf (t f pid : Nat) (m : Msg) : Wire :=
  ⟨⟨t, f, pid, m.messageId, (payloadOf m).length⟩, payloadOf m⟩

/-- run-time test of `Sendable` -/
theorem sendable_of_bool (m : Msg) (h : (wfMsgBool m && decide ((payloadOf m).length < 65536)) = true) :
    Sendable m := by
  simp only [Bool.and_eq_true, decide_eq_true_eq] at h
  exact ⟨(wfMsgBool_iff _).mp h.1, h.2⟩

theorem encodeMsg_payloadOf (m : Msg) (hwf : WFMsg m) : encodeMsg m = .ok (payloadOf m) := by
  obtain ⟨bs, h⟩ := encodeMsg_ok m hwf
  simp only [payloadOf, h]

theorem wireOf_good (t f pid : Nat) (ht : t < 256) (hf : f < 256) (hpid : pid < 256) (m : Msg) (hm : Sendable m) :
    Sent.Good (wireOf t f pid m, m) := by
  obtain ⟨-, hdec, hb⟩ := msg_ok m hm.1 _ (encodeMsg_payloadOf m hm.1)
  exact ⟨⟨⟨ht, hf, hpid, messageId_lt m hm.1, hm.2⟩, rfl, hb⟩, hdec t f pid⟩

/-- `Wire.bytes` is what `_write(header, message)` hands to the stream writer -/
theorem writeFrame_wireOf (t f pid : Nat) (ht : t < 256) (hf : f < 256) (hpid : pid < 256) (m : Msg)
    (hm : Sendable m) : writeFrame (wireOf t f pid m).hdr m = .ok (wireOf t f pid m).bytes := by
  have hg := (wireOf_good t f pid ht hf hpid m hm).1
  obtain ⟨⟨hb, ck⟩, he⟩ := (at4_encode_ok_iff _).mpr hg.1
  obtain ⟨-, -, -, hckb⟩ := at4_hdr_checksum_span _ hb ck hg.1 he
  have hfr := frame_isSome hb ck (payloadOf m) hckb hg.2.2
  have he' : At4.Hdr.encode ⟨t, f, pid, m.messageId, (payloadOf m).length⟩ = .ok (hb, ck) := he
  simp only [writeFrame, wireOf, Wire.bytes, he', encodeMsg_payloadOf m hm.1, hfr, bind, Except.bind, pure,
    Except.pure, Option.getD_some]

/-- the client's own send path is the case `t = 0x80 / 0x90`, `f = 0xB0` -/
theorem frameOf_wireOf (pid : Nat) (hpid : pid < 256) (m : Msg) (hm : Sendable m) :
    frameOf pid m = .ok (wireOf (mkHeader pid m 0).to_address Gen.At4.Hdr.ADDRESS_CLIENT pid m).bytes := by
  have hsz := (msg_ok m hm.1 _ (encodeMsg_payloadOf m hm.1)).1
  have ht : (mkHeader pid m 0).to_address < 256 := by
    simp only [mkHeader]; split <;> decide
  have := writeFrame_wireOf (mkHeader pid m 0).to_address Gen.At4.Hdr.ADDRESS_CLIENT pid ht (by decide) hpid m hm
  simp only [frameOf, hsz, bind, Except.bind]
  exact this

/-- the `from_address` of a console frame: 0x90 for the extended message type, else 0x80 (`Api4.harnessHeader`) -/
def consoleFrom (mid : Nat) : Nat := if mid = 0x1F then 0x90 else 0x80

/-- a console frame: to the client (0xB0), packet id `pid` -/
def consoleWire (pid : Nat) (m : Msg) : Wire := wireOf 0xB0 (consoleFrom m.messageId) pid m

def consoleSent (pid : Nat) (m : Msg) : Sent := (consoleWire pid m, m)

theorem consoleFrom_lt (mid : Nat) : consoleFrom mid < 256 := by unfold consoleFrom; split <;> decide

theorem consoleSent_good (pid : Nat) (hpid : pid < 256) (m : Msg) (hm : Sendable m) : (consoleSent pid m).Good :=
  wireOf_good _ _ pid (by decide) (consoleFrom_lt _) hpid m hm

theorem consoleWire_hdr (pid : Nat) (m : Msg) :
    (consoleWire pid m).hdr = { harnessHeader m.messageId (payloadOf m).length with packet_id := pid } := rfl

/-- a frame of a type the registry has no decoder for -/
def unknownSent (t f pid id : Nat) (raw : Bytes) : Sent := (⟨⟨t, f, pid, id, raw.length⟩, raw⟩, .unsupported id raw)

theorem unknownSent_good (t f pid id : Nat) (raw : Bytes) (ht : t < 256) (hf : f < 256) (hpid : pid < 256)
    (hid : id < 256) (hunk : id ∉ Gen.At4.Registry.decoderIds) (hlen : raw.length < 65536) (hraw : AllBytes raw) :
    (unknownSent t f pid id raw).Good :=
  ⟨⟨⟨ht, hf, hpid, hid, hlen⟩, rfl, hraw⟩, decodeMsg_unknown id hunk t f pid raw⟩

/-! ### from a delivered frame to an API op -/

/-- the decoders read the header's message id and length only -/
theorem decodeMsg_hdr_irrel (h h' : Hdr) (b : Bytes) (hid : h.message_id = h'.message_id)
    (hlen : h.message_length = h'.message_length) : decodeMsg h b = decodeMsg h' b := by
  unfold decodeMsg decodeExt
  rw [hid, hlen]

/-- the API op for a delivered `(header, message)`: the AirTouch 4 API does not look at the header -/
def recvOp (d : Hdr × Msg) : Op := .recv d.2

/-- the driver's op for a delivered `(header, payload bytes)`: `msg <message id> <payload>` -/
def msgOp (d : Hdr × Bytes) : Op := .msg d.1.message_id d.2

theorem decodeTop_good (x : Sent) (hx : x.Good) : decodeTop x.1.hdr.message_id x.1.payload = .ok x.2 := by
  unfold decodeTop
  rw [decodeMsg_hdr_irrel (harnessHeader x.1.hdr.message_id x.1.payload.length) x.1.hdr x.1.payload rfl
    hx.1.2.1.symm, hx.2]
  rfl

theorem apiStep_msg_eq_recv (s : State) (x : Sent) (hx : x.Good) :
    apiStep s (msgOp (x.1.hdr, x.1.payload)) = apiStep s (recvOp (x.1.hdr, x.2)) := by
  simp only [msgOp, recvOp, apiStep, decodeTop_good x hx]

theorem run_msg_eq_recv (xs : List Sent) (hx : ∀ x ∈ xs, x.Good) (s : State) :
    run s (xs.map fun x => msgOp (x.1.hdr, x.1.payload)) = run s (xs.map fun x => recvOp (x.1.hdr, x.2)) := by
  induction xs generalizing s with
  | nil => rfl
  | cons x xs ih =>
    simp only [List.map_cons, run]
    rw [apiStep_msg_eq_recv s x (hx x List.mem_cons_self),
      ih (fun y hy => hx y (List.mem_cons_of_mem _ hy))]

theorem run_pre_msg_eq_recv (pre : List Op) (xs : List Sent) (hx : ∀ x ∈ xs, x.Good) (s : State) :
    run s (pre ++ xs.map fun x => msgOp (x.1.hdr, x.1.payload)) =
      run s (pre ++ xs.map fun x => recvOp (x.1.hdr, x.2)) := by
  rw [run_append, run_append, run_msg_eq_recv xs hx]

end At4

/-! ## AirTouch 5 -/

namespace At5
open PyAirtouch.Model.At5 PyAirtouch.Model.At5.Registry PyAirtouch.Model.Api5
open PyAirtouch.Lemmas.Registry5

/-- a frame as it travels: header and payload bytes -/
structure Wire where
  hdr : Hdr
  payload : Bytes

/-- the header fields fit their struct fields (both outer length fields included), the announced length is the
    payload's, the payload is bytes -/
def Wire.WF (w : Wire) : Prop :=
  At5.Hdr.WF w.hdr ∧ w.hdr.message_length = w.payload.length ∧ AllBytes w.payload

/-- the bytes on the wire, by the send-path model: header bytes, payload, CRC over checksum data and payload -/
def Wire.bytes (w : Wire) : Bytes :=
  match At5.Hdr.encode w.hdr with
  | .ok (hb, ck) => (Frame.frame hb ck w.payload).getD []
  | .error _ => []

/-- the receive path without the registry: payloads are handed on undecoded -/
def rawProto : Frame.Proto Hdr Bytes :=
  { headerLength := At5.Hdr.headerLength, decodeHdr := At5.Hdr.decode, msgLen := fun h => h.message_length,
    decodeMsg := fun _ bs => .ok (bs, []) }

theorem Wire.bytes_eq (w : Wire) (hw : w.WF) :
    w.bytes = [0x55, 0x55, 0x55, 0xAB, 0, 0] ++ be16Bytes (10 + w.hdr.message_length + 2) ++
        be16Bytes (10 + w.hdr.message_length + 2) ++ [0x55, 0x55, 0x55, 0xAA] ++
        [w.hdr.to_address, w.hdr.from_address, w.hdr.packet_id, w.hdr.message_id,
          w.hdr.message_length / 256 % 256, w.hdr.message_length % 256] ++ w.payload ++
      PyAirtouch.Spec.checkBytes ([w.hdr.to_address, w.hdr.from_address, w.hdr.packet_id, w.hdr.message_id,
        w.hdr.message_length / 256 % 256, w.hdr.message_length % 256] ++ w.payload) := by
  obtain ⟨⟨hb, ck⟩, he⟩ := (at5_encode_ok_iff _).mpr hw.1
  obtain ⟨-, hck, hhb⟩ := at5_encode_eq _ hb ck he
  obtain ⟨-, -, -, hckb⟩ := at5_hdr_checksum_span _ hb ck hw.1 he
  simp only [Wire.bytes, he, frame_isSome hb ck w.payload hckb hw.2.2, Option.getD_some]
  rw [hhb, hck]

/-- a well-formed frame whose payload the decoder of `p` accepts is a complete frame for `p` -/
theorem wire_isFrame {M : Type} (p : Frame.Proto Hdr M) (hpl : p.headerLength = At5.Hdr.headerLength)
    (hpd : p.decodeHdr = At5.Hdr.decode) (hpm : p.msgLen = fun h => h.message_length)
    (w : Wire) (hw : w.WF) (m : M) (hdec : p.decodeMsg w.hdr w.payload = .ok (m, [])) :
    IsFrame p w.hdr m w.bytes := by
  intro rest
  obtain ⟨⟨hb, ck⟩, he⟩ := (at5_encode_ok_iff _).mpr hw.1
  obtain ⟨-, -, -, hckb⟩ := at5_hdr_checksum_span _ hb ck hw.1 he
  have hfr := frame_isSome hb ck w.payload hckb hw.2.2
  have hb' : w.bytes = hb ++ w.payload ++ PyAirtouch.Spec.checkBytes (ck ++ w.payload) := by
    simp only [Wire.bytes, he, hfr, Option.getD_some]
  rw [hb']
  exact at5_frame_roundtrip p hpl hpd hpm w.hdr m hb ck w.payload _ rest hw.1 he hw.2.1 hdec hw.2.2 hfr

/-- a frame and what the registry's decoder makes of its payload -/
abbrev Sent := Wire × Msg

def Sent.Good (x : Sent) : Prop := x.1.WF ∧ decodeMsg x.1.hdr x.1.payload = .ok (x.2, [])

/-- the byte stream of a list of frames -/
def wireStream (xs : List Sent) : Bytes := (xs.map (·.1.bytes)).flatten

theorem wireStream_append (a b : List Sent) : wireStream (a ++ b) = wireStream a ++ wireStream b := by
  simp [wireStream]

theorem stream_delivers (xs : List Sent) (hx : ∀ x ∈ xs, x.Good) (segs : List Bytes)
    (hsegs : segs.flatten = wireStream xs) :
    feedAll proto ⟨[], false⟩ segs = (xs.map (fun x => (x.1.hdr, x.2)), ⟨[], false⟩) := by
  have h := feedAll_frames proto (by decide) (xs.map fun x => (x.1.hdr, x.2, x.1.bytes))
    (by
      intro y hy
      obtain ⟨x, hxm, rfl⟩ := List.mem_map.mp hy
      exact wire_isFrame proto rfl rfl rfl x.1 (hx x hxm).1 x.2 (hx x hxm).2)
    segs (by rw [hsegs]; simp [wireStream, streamOf, List.map_map, Function.comp_def])
  rw [h]
  simp [List.map_map, Function.comp_def]

theorem stream_delivers_raw (xs : List Sent) (hx : ∀ x ∈ xs, x.Good) (segs : List Bytes)
    (hsegs : segs.flatten = wireStream xs) :
    feedAll rawProto ⟨[], false⟩ segs = (xs.map (fun x => (x.1.hdr, x.1.payload)), ⟨[], false⟩) := by
  have h := feedAll_frames rawProto (by decide) (xs.map fun x => (x.1.hdr, x.1.payload, x.1.bytes))
    (by
      intro y hy
      obtain ⟨x, hxm, rfl⟩ := List.mem_map.mp hy
      exact wire_isFrame rawProto rfl rfl rfl x.1 (hx x hxm).1 x.1.payload rfl)
    segs (by rw [hsegs]; simp [wireStream, streamOf, List.map_map, Function.comp_def])
  rw [h]
  simp [List.map_map, Function.comp_def]

/-! ### frames of registry messages -/

/-- what the registry's encoder writes (`[]` when it raises) -/
def payloadOf (m : Msg) : Bytes :=
  match encodeMsg m with
  | .ok bs => bs
  | .error _ => []

/-- a message the send path accepts: well formed, and its payload fits the 16-bit length fields (the outer ones carry
    `10 + length + 2`) -/
def Sendable (m : Msg) : Prop := WFMsg m ∧ At5.Hdr.dataLength (payloadOf m).length < 65536

/-- the frame of `m` with addresses `t`, `f` and packet id `pid` -/
def wireOf (t f pid : Nat) (m : Msg) : Wire :=
  ⟨⟨t, f, pid, m.messageId, (payloadOf m).length⟩, payloadOf m⟩

/-- run-time test of `Sendable` -/
theorem sendable_of_bool (m : Msg)
    (h : (wfMsgBool m && decide (At5.Hdr.dataLength (payloadOf m).length < 65536)) = true) : Sendable m := by
  simp only [Bool.and_eq_true, decide_eq_true_eq] at h
  exact ⟨(wfMsgBool_iff _).mp h.1, h.2⟩

theorem encodeMsg_payloadOf (m : Msg) (hwf : WFMsg m) : encodeMsg m = .ok (payloadOf m) := by
  obtain ⟨bs, h⟩ := encodeMsg_ok m hwf
  simp only [payloadOf, h]

theorem wireOf_good (t f pid : Nat) (ht : t < 256) (hf : f < 256) (hpid : pid < 256) (m : Msg) (hm : Sendable m) :
    Sent.Good (wireOf t f pid m, m) := by
  obtain ⟨-, hdec, hb⟩ := msg_ok m hm.1 _ (encodeMsg_payloadOf m hm.1)
  have hlen : (payloadOf m).length < 65536 := by
    have := hm.2
    simp only [At5.Hdr.dataLength] at this
    omega
  exact ⟨⟨⟨ht, hf, hpid, messageId_lt m hm.1, hlen, hm.2⟩, rfl, hb⟩, hdec t f pid⟩

/-- `Wire.bytes` is what `_write(header, message)` hands to the stream writer -/
theorem writeFrame_wireOf (t f pid : Nat) (ht : t < 256) (hf : f < 256) (hpid : pid < 256) (m : Msg)
    (hm : Sendable m) : writeFrame (wireOf t f pid m).hdr m = .ok (wireOf t f pid m).bytes := by
  have hg := (wireOf_good t f pid ht hf hpid m hm).1
  obtain ⟨⟨hb, ck⟩, he⟩ := (at5_encode_ok_iff _).mpr hg.1
  obtain ⟨-, -, -, hckb⟩ := at5_hdr_checksum_span _ hb ck hg.1 he
  have hfr := frame_isSome hb ck (payloadOf m) hckb hg.2.2
  have he' : At5.Hdr.encode ⟨t, f, pid, m.messageId, (payloadOf m).length⟩ = .ok (hb, ck) := he
  simp only [writeFrame, wireOf, Wire.bytes, he', encodeMsg_payloadOf m hm.1, hfr, bind, Except.bind, pure,
    Except.pure, Option.getD_some]

/-- the `from_address` of a console frame: 0x90 for the extended message type, else 0x80 (`ApiCmd5.parseMsg`) -/
def consoleFrom (mid : Nat) : Nat := if mid ≠ 0x1F then 0x80 else 0x90

/-- a console frame: to the client (0xB0), packet id `pid` -/
def consoleWire (pid : Nat) (m : Msg) : Wire := wireOf 0xB0 (consoleFrom m.messageId) pid m

def consoleSent (pid : Nat) (m : Msg) : Sent := (consoleWire pid m, m)

theorem consoleFrom_lt (mid : Nat) : consoleFrom mid < 256 := by unfold consoleFrom; split <;> decide

theorem consoleSent_good (pid : Nat) (hpid : pid < 256) (m : Msg) (hm : Sendable m) : (consoleSent pid m).Good :=
  wireOf_good _ _ pid (by decide) (consoleFrom_lt _) hpid m hm

/-- a frame of a type the registry has no decoder for -/
def unknownSent (t f pid id : Nat) (raw : Bytes) : Sent := (⟨⟨t, f, pid, id, raw.length⟩, raw⟩, .unsupported id raw)

theorem unknownSent_good (t f pid id : Nat) (raw : Bytes) (ht : t < 256) (hf : f < 256) (hpid : pid < 256)
    (hid : id < 256) (hunk : id ∉ Gen.At5.Registry.decoderIds) (hlen : At5.Hdr.dataLength raw.length < 65536)
    (hraw : AllBytes raw) : (unknownSent t f pid id raw).Good := by
  have hl : raw.length < 65536 := by
    simp only [At5.Hdr.dataLength] at hlen
    omega
  exact ⟨⟨⟨ht, hf, hpid, hid, hl, hlen⟩, rfl, hraw⟩, decodeMsg_unknown id hunk t f pid raw⟩

/-! ### from a delivered frame to an API op -/

/-- the decoders read the header's message id and length only -/
theorem decodeMsg_hdr_irrel (h h' : Hdr) (b : Bytes) (hid : h.message_id = h'.message_id)
    (hlen : h.message_length = h'.message_length) : decodeMsg h b = decodeMsg h' b := by
  unfold decodeMsg decodeExt
  rw [hid, hlen]

/-- the API op for a delivered `(header, message)`: the header's `to_address` goes with the message (the zero-zone
    echo rule reads it) -/
def frameOp (d : Hdr × Msg) : Op := .msg d.1.to_address d.2

/-- the driver's op for a delivered `(header, payload bytes)`: `msg <message id> <payload> <to_address>`, parsed by
    `ApiCmd5.parseMsg` -/
def payloadOp (d : Hdr × Bytes) : Op := ApiCmd5.parseMsg d.1.message_id d.2 d.1.to_address

theorem parseMsg_good (x : Sent) (hx : x.Good) :
    payloadOp (x.1.hdr, x.1.payload) = frameOp (x.1.hdr, x.2) := by
  have h := decodeMsg_hdr_irrel
    { to_address := x.1.hdr.to_address, from_address := if x.1.hdr.message_id ≠ 0x1F then 0x80 else 0x90,
      packet_id := 1, message_id := x.1.hdr.message_id, message_length := x.1.payload.length }
    x.1.hdr x.1.payload rfl hx.1.2.1.symm
  simp only [payloadOp, frameOp, ApiCmd5.parseMsg]
  rw [h, hx.2]
  simp

theorem map_payloadOp (xs : List Sent) (hx : ∀ x ∈ xs, x.Good) :
    (xs.map fun x => payloadOp (x.1.hdr, x.1.payload)) = xs.map fun x => frameOp (x.1.hdr, x.2) :=
  List.map_congr_left fun x hxm => parseMsg_good x (hx x hxm)

end At5

end PyAirtouch.Lemmas.CrossLayer

