import PyAirtouch.Lemmas.SockHeal
/-!
# Healing of the socket model, part 3: nothing queued is lost silently

`Fate c c'`: the trace of `c'` extends the trace of `c`, and every entry queued in `c` is still queued
in `c'` (same `sid`) or the extension contains an event that says what happened to it: a write attempt
(`wire`, `deadWrite`, `writeFault`) or a drop (`qdrop`, with its reason).  Holds for every step of the
model except `open_socket()` on a socket that is not open (`step_fate`), hence along every run without
`open_socket()` calls (`run_fate`) - in particular along the benign runs of `never_wedges_fate`.

Since /repo 3897b77 `open_socket()` on a closed socket empties the send queue (`self._message_queue.clear()`) and logs
nothing about the entries it discards; `reopen_not_fate` is the history in which `Fate` fails for that step.
-/
namespace PyAirtouch.Lemmas.SockHeal
open PyAirtouch.Model.Sock PyAirtouch.Spec.Trace PyAirtouch.Lemmas.Sock PyAirtouch.Lemmas.SockConn

/-- `ev` tells what happened to message `sid` -/
def fateEv (sid : Nat) : Ev → Bool
  | .wire _ s _ | .deadWrite _ s _ | .writeFault _ s _ | .qdrop s _ _ => s == sid
  | _ => false

/-- entry `e` is still in `q'`, or `evs` says what happened to it -/
def Kept (q' : List Entry) (evs : List Ev) (e : Entry) : Prop :=
  (∃ e' ∈ q', e'.sid = e.sid) ∨ ∃ ev ∈ evs, fateEv e.sid ev = true

def Fate (c c' : Core) : Prop := ∃ evs, c'.trace = c.trace ++ evs ∧ ∀ e ∈ c.queue, Kept c'.queue evs e

theorem Fate.refl (c : Core) : Fate c c := ⟨[], by simp, fun e he => .inl ⟨e, he, rfl⟩⟩

theorem Fate.trans {a b c : Core} (h1 : Fate a b) (h2 : Fate b c) : Fate a c := by
  obtain ⟨ev1, t1, k1⟩ := h1
  obtain ⟨ev2, t2, k2⟩ := h2
  refine ⟨ev1 ++ ev2, by rw [t2, t1, List.append_assoc], ?_⟩
  intro e he
  rcases k1 e he with ⟨e', he', hs⟩ | ⟨ev, hev, hf⟩
  · rcases k2 e' he' with ⟨e'', he'', hs'⟩ | ⟨ev, hev, hf⟩
    · exact .inl ⟨e'', he'', hs'.trans hs⟩
    · exact .inr ⟨ev, List.mem_append_right _ hev, hs ▸ hf⟩
  · exact .inr ⟨ev, List.mem_append_left _ hev, hf⟩

/-- queue unchanged (or grown), trace extended -/
theorem Fate.of_sub {c c' : Core} (evs : List Ev) (ht : c'.trace = c.trace ++ evs)
    (hq : ∀ e ∈ c.queue, ∃ e' ∈ c'.queue, e'.sid = e.sid) : Fate c c' :=
  ⟨evs, ht, fun e he => .inl (hq e he)⟩

theorem Fate.same {c c' : Core} (ht : c'.trace = c.trace) (hq : c'.queue = c.queue) : Fate c c' :=
  Fate.of_sub [] (by simp [ht]) (fun e he => ⟨e, hq ▸ he, rfl⟩)

theorem Fate.emit (c : Core) (ev : Ev) : Fate c (c.emit ev) :=
  Fate.of_sub [ev] rfl (fun e he => ⟨e, he, rfl⟩)

theorem doWrite_fate (c : Core) (w : Nat) (e : Entry) (hw : w < c.conns.length) :
    ∃ evs, (doWrite c w e).1.trace = c.trace ++ evs ∧ (∃ ev ∈ evs, fateEv e.sid ev = true) ∧
      (doWrite c w e).1.conns.length = c.conns.length := by
  unfold doWrite
  split
  · exact ⟨[.wire w e.sid c.now], rfl, ⟨_, List.mem_singleton.2 rfl, by simp [fateEv]⟩, rfl⟩
  · exact ⟨[.writeFault w e.sid c.now, .lost w c.now], by simp [Core.emit], ⟨.writeFault w e.sid c.now, by simp, by simp [fateEv]⟩,
      by simp [Core.emit]⟩
  · exact ⟨[.deadWrite w e.sid c.now], rfl, ⟨_, List.mem_singleton.2 rfl, by simp [fateEv]⟩, rfl⟩
  · exact ⟨[.deadWrite w e.sid c.now], rfl, ⟨_, List.mem_singleton.2 rfl, by simp [fateEv]⟩, rfl⟩
  · exact ⟨[.deadWrite w e.sid c.now], rfl, ⟨_, List.mem_singleton.2 rfl, by simp [fateEv]⟩, rfl⟩
  · exfalso
    rename_i hn
    rw [List.getElem?_eq_getElem hw] at hn
    cases hn

theorem Kept.pre {q : List Entry} {evs : List Ev} {e : Entry} (pre : List Ev) (h : Kept q evs e) :
    Kept q (pre ++ evs) e := by
  rcases h with h | ⟨ev, hev, hf⟩
  · exact .inl h
  · exact .inr ⟨ev, List.mem_append_right _ hev, hf⟩

theorem drainLoop_fate (w : Nat) : ∀ (q : List Entry) (c : Core), w < c.conns.length →
    ∃ evs, (drainLoop c w q).1.trace = c.trace ++ evs ∧ ∀ e ∈ q, Kept (drainLoop c w q).1.queue evs e := by
  intro q
  induction q with
  | nil => intro c _; exact ⟨[], by simp [drainLoop], fun e he => by cases he⟩
  | cons e rest ih =>
    intro c hw
    simp only [drainLoop]
    split
    · exact ⟨[], by simp, fun x hx => .inl ⟨x, hx, rfl⟩⟩
    split
    · obtain ⟨evs, h1, h2⟩ := ih (c.emit (.qdrop e.sid c.now .expired)) hw
      refine ⟨[.qdrop e.sid c.now .expired] ++ evs, by rw [h1]; simp [Core.emit], ?_⟩
      intro x hx
      rcases List.mem_cons.1 hx with rfl | hx
      · exact .inr ⟨_, List.mem_append_left _ (List.mem_singleton.2 rfl), by simp [fateEv]⟩
      · exact (h2 x hx).pre _
    · split
      · obtain ⟨evs, h1, h2⟩ := ih (c.emit (.qdrop e.sid c.now .encErr)) hw
        refine ⟨[.qdrop e.sid c.now .encErr] ++ evs, by rw [h1]; simp [Core.emit], ?_⟩
        intro x hx
        rcases List.mem_cons.1 hx with rfl | hx
        · exact .inr ⟨_, List.mem_append_left _ (List.mem_singleton.2 rfl), by simp [fateEv]⟩
        · exact (h2 x hx).pre _
      · obtain ⟨evw, w1, ⟨ev, hev, hf⟩, w3⟩ := doWrite_fate c w e hw
        split
        · rename_i c' heq
          rw [heq] at w1 w3
          obtain ⟨evs, h1, h2⟩ := ih c' (by rw [w3]; exact hw)
          refine ⟨evw ++ evs, by rw [h1, w1, List.append_assoc], ?_⟩
          intro x hx
          rcases List.mem_cons.1 hx with rfl | hx
          · exact .inr ⟨ev, List.mem_append_left _ hev, hf⟩
          · exact (h2 x hx).pre _
        · rename_i c' heq
          rw [heq] at w1
          refine ⟨evw, w1, ?_⟩
          intro x hx
          rcases List.mem_cons.1 hx with rfl | hx
          · exact .inr ⟨ev, hev, hf⟩
          · exact .inl ⟨x, hx, rfl⟩
        · rename_i c' heq
          rw [heq] at w1
          refine ⟨evw, w1, ?_⟩
          intro x hx
          rcases List.mem_cons.1 hx with rfl | hx
          · exact .inr ⟨ev, hev, hf⟩
          · exact .inl ⟨x, hx, rfl⟩

theorem requeue_fate (c : Core) (e : Entry) : Fate c (requeue c e) := by
  unfold requeue
  split
  · exact Fate.emit _ _
  · exact Fate.of_sub [] (by simp) (fun x hx => ⟨x, List.mem_cons_of_mem _ hx, rfl⟩)

theorem closeConn_fate (c : Core) (w : Nat) : Fate c (closeConn c w) := by
  unfold closeConn
  split
  · exact Fate.of_sub [.clientClose w c.now] rfl (fun x hx => ⟨x, hx, rfl⟩)
  · exact Fate.refl _

theorem exec_fate (fuel : Nat) (c : Core) (sp : List Pc) (k : Kont) (hrw : rwValid c) :
    Fate c (exec fuel c sp k).core := by
  fun_induction exec fuel c sp k
  case case4 fuel c sp r hcon w hw c' hd ih =>
    have hf : Fate c c' := by
      have := drainLoop_fate w c.queue c (hrw w hw)
      rw [hd] at this; exact this
    exact hf.trans (ih (rwValid_shrink (shrink_drainLoop' hd) hrw))
  case case5 fuel c sp r hcon w hw c' e hd =>
    have := drainLoop_fate w c.queue c (hrw w hw)
    rw [hd] at this; exact this
  case case6 fuel c sp r hcon w hw c' e hd ih =>
    have hf : Fate c c' := by
      have := drainLoop_fate w c.queue c (hrw w hw)
      rw [hd] at this; exact this
    exact (hf.trans (requeue_fate c' e)).trans
      (ih (rwValid_shrink ((shrink_drainLoop' hd).trans (shrink_requeue c' e)) hrw))
  case case7 => exact closeConn_fate _ _
  case case9 fuel c sp r =>
    exact Fate.of_sub [.notify false c.now] rfl (fun x hx => ⟨x, hx, rfl⟩)
  case case12 => exact Fate.emit _ _
  all_goals first | exact Fate.refl _ | (rename_i ih; exact ih hrw)

theorem purge_fate (c : Core) :
    Fate c { c with queue := purged c.now c.queue, trace := c.trace ++ purgeEvents c.now c.queue } := by
  refine ⟨purgeEvents c.now c.queue, rfl, ?_⟩
  intro e he
  by_cases hx : c.now < e.expiry
  · exact .inl ⟨e, by simp [purged, he, hx], rfl⟩
  · refine .inr ⟨.qdrop e.sid c.now .expired, ?_, by simp [fateEv]⟩
    simp only [purgeEvents, List.mem_map, List.mem_filter, List.mem_reverse]
    exact ⟨e, ⟨he, by simp; omega⟩, rfl⟩

theorem execCase_fate {s : Sys} {pc : Pc} {c0 : Core} {kont : Kont} (h : ExecCase s pc c0 kont) : Fate s.core c0 := by
  cases h <;> first | exact Fate.refl _ | exact requeue_fate _ _

/-- an acceptance -/
def isAcc : Ev → Bool
  | .accept .. => true
  | _ => false

/-- an abstract step extends the trace; it adds `accept` events only together with new identities in `used` -/
theorem astep_ext {a b : Abs} (h : AStep a b) :
    ∃ evs us, b.trace = a.trace ++ evs ∧ b.used = a.used ++ us ∧ (us = [] → ∀ ev ∈ evs, isAcc ev = false) := by
  induction h with
  | refl a => exact ⟨[], [], by simp, by simp, fun _ ev hev => by cases hev⟩
  | trans _ _ ih1 ih2 =>
    obtain ⟨e1, u1, h1, g1, k1⟩ := ih1
    obtain ⟨e2, u2, h2, g2, k2⟩ := ih2
    refine ⟨e1 ++ e2, u1 ++ u2, by rw [h2, h1, List.append_assoc], by rw [g2, g1, List.append_assoc], ?_⟩
    intro hu ev hev
    simp only [List.append_eq_nil_iff] at hu
    rcases List.mem_append.1 hev with hev | hev
    · exact k1 hu.1 ev hev
    · exact k2 hu.2 ev hev
  | note a ev hq =>
    refine ⟨[ev], [], rfl, by simp, fun _ ev' hev' => ?_⟩
    rw [List.mem_singleton.1 hev']
    cases ev <;> first | rfl | cases hq
  | write a e rest wev _ _ hw =>
    refine ⟨[wev], [], rfl, by simp, fun _ ev' hev' => ?_⟩
    rw [List.mem_singleton.1 hev']
    obtain ⟨cid, rfl | rfl | rfl⟩ := hw <;> rfl
  | burn a sid => exact ⟨[], [sid], by simp, rfl, fun h => by cases h⟩
  | accept a sid r life ok _ => exact ⟨[_], [sid], rfl, rfl, fun h => by cases h⟩
  | _ => exact ⟨[], [], by simp, by simp, fun _ ev hev => by cases hev⟩

/-- every step extends the trace (no hypothesis on the label) -/
theorem step_trace_ext {s s' : Sys} {l : Label} (hst : step s l = some s') :
    ∃ evs, s'.core.trace = s.core.trace ++ evs := by
  obtain ⟨evs, _, h, _⟩ := astep_ext (step_abs [] s s' l hst)
  exact ⟨evs, h⟩

/-- … and only `send()` adds an `accept` event -/
theorem step_ext_noacc {s s' : Sys} {l : Label} (hst : step s l = some s')
    (hl : ∀ sid r life ok, l ≠ .apiSend sid r life ok) :
    ∃ evs, s'.core.trace = s.core.trace ++ evs ∧ ∀ ev ∈ evs, isAcc ev = false := by
  obtain ⟨evs, us, h, hu, hk⟩ := astep_ext (step_abs [] s s' l hst)
  refine ⟨evs, h, hk ?_⟩
  have : usedAfter [] l = [] := by
    cases l <;> first | rfl | exact absurd rfl (hl _ _ _ _)
  simpa [abs, absC, this] using hu.symm

/-- the code between two suspension points adds no `accept` event -/
theorem exec_ext_noacc (c : Core) (k : Kont) :
    ∃ evs, (exec FUEL c [] k).core.trace = c.trace ++ evs ∧ ∀ ev ∈ evs, isAcc ev = false := by
  obtain ⟨evs, us, h, hu, hk⟩ := astep_ext (exec_abs' [] c k []).1
  refine ⟨evs, h, hk ?_⟩
  simpa [absC] using hu.symm

/-- One step of the model keeps or accounts for every queued entry - except `open_socket()` on a socket that is not
    open: since /repo 3897b77 that call starts the new session with an empty queue (`self._message_queue.clear()`)
    and logs nothing about the entries it discards.  Hence the hypothesis `hno` (the label is not a re-open of a
    closed socket); `reopen_not_fate` below is the history in which the statement fails without it. -/
theorem step_fate {s s' : Sys} {l : Label} (hrw : rwValid s.core) (hno : l = .apiOpen → s.core.isOpen = true)
    (hst : step s l = some s') :
    Fate s.core s'.core := by
  cases l with
  | advance t =>
    simp only [step] at hst; split at hst <;> cases hst; exact Fate.same rfl rfl
  | envLost cid =>
    simp only [step] at hst; split at hst <;> cases hst
    exact Fate.of_sub [.lost cid s.core.now] rfl (fun x hx => ⟨x, hx, rfl⟩)
  | envLostRan cid => simp only [step] at hst; split at hst <;> cases hst; exact Fate.same rfl rfl
  | envPause cid b => simp only [step] at hst; split at hst <;> cases hst; exact Fate.same rfl rfl
  | envFailWrites cid b => simp only [step] at hst; split at hst <;> cases hst; exact Fate.same rfl rfl
  | apiOpen =>
    simp only [step] at hst
    split at hst
    · cases hst; exact Fate.emit _ _
    · rename_i hc
      exact absurd (hno rfl) (by simpa [Core.emit] using hc)
  | apiClose =>
    simp only [step] at hst
    split at hst
    · cases hst; exact (Fate.emit _ _).trans (Fate.emit _ _)
    · have h0 : Fate s.core { s.core.emit (.apiClose s.core.now) with isOpen := false } :=
        Fate.of_sub [.apiClose s.core.now] rfl (fun x hx => ⟨x, hx, rfl⟩)
      split at hst
      · cases hst; exact h0
      · cases hst; exact h0.trans (exec_fate _ _ _ _ hrw)
  | apiReset =>
    simp only [step] at hst
    cases hst
    exact (Fate.emit _ _).trans (exec_fate _ _ _ _ hrw)
  | apiSend sid retries life encOk =>
    simp only [step] at hst
    split at hst
    · cases hst; exact Fate.emit _ _
    · split at hst
      · cases hst; exact (purge_fate s.core).trans (Fate.emit _ _)
      · cases hst
        refine ((purge_fate s.core).trans ?_).trans (exec_fate _ _ _ _ hrw)
        exact Fate.of_sub [.accept sid s.core.now (s.core.now + life) retries encOk] rfl
          (fun x hx => ⟨x, List.mem_append_left _ hx, rfl⟩)
  | run t a =>
    cases step_run_cases hst with
    | exec k0 pc c0 kont hk0 hpc hc =>
      exact (execCase_fate hc).trans (exec_fate _ _ _ _ (rwValid_shrink hc.shrink hrw))
    | connect k0 hk0 hpc =>
      show Fate s.core (connectBlock s.core).core
      unfold connectBlock
      split
      · exact Fate.refl _
      · exact Fate.of_sub [.attempt s.core.now] rfl (fun x hx => ⟨x, hx, rfl⟩)
    | openOk k0 hk0 hpc =>
      exact Fate.of_sub [.opened s.core.conns.length s.core.now, .notify true s.core.now] (by simp [upd, Core.emit])
        (fun x hx => ⟨x, hx, rfl⟩)
    | openRefused k0 hk0 hpc =>
      exact Fate.of_sub [.refused s.core.now] rfl (fun x hx => ⟨x, hx, rfl⟩)
    | cancelled k0 hk0 hpc => exact Fate.same rfl rfl
    | readMsg k0 c tag hk0 hpc => exact Fate.emit _ _
    | readEof k0 c hk0 hpc => exact Fate.refl _

/-- The history in which `step_fate` fails without `hno`: a message is accepted while the link is down, the socket is
    closed (the entry stays queued) and opened again.  The re-open empties the queue and appends nothing but its own
    `apiOpen` event to the trace. -/
theorem reopen_not_fate : ∃ s s', Reachable s ∧ step s .apiOpen = some s' ∧ s.core.queue.map (·.sid) = [1] ∧
    s'.core.queue = [] ∧ ¬ Fate s.core s'.core := by
  refine ⟨_, _, ⟨[.apiOpen, .apiSend 1 2 240 true, .apiClose, .run 3 .go, .run 3 .go], rfl⟩, rfl, by decide, by decide, ?_⟩
  rintro ⟨evs, ht, hk⟩
  have hevs : evs = [.apiOpen 0] := List.append_cancel_left (ht.symm.trans (by decide))
  subst hevs
  rcases hk ⟨1, 2, 240, true, false⟩ (by decide) with ⟨e', he', _⟩ | ⟨ev, hev, hf⟩
  · exact List.not_mem_nil he'
  · rw [List.mem_singleton.1 hev] at hf; cases hf

/-- along a run without `open_socket()` calls (since /repo 3897b77 a re-open of a closed socket discards the queue
    without a log record, see `step_fate`) -/
theorem run_fate : ∀ (ls : List Label) (s s' : Sys), HInv1 s → (∀ l ∈ ls, l ≠ .apiOpen) → run s ls = some s' →
    Fate s.core s'.core := by
  intro ls
  induction ls with
  | nil => intro s s' _ _ h; simp only [run, Option.some.injEq] at h; subst h; exact Fate.refl _
  | cons l ls ih =>
    intro s s' h1 hno h
    simp only [run] at h
    cases hs : step s l with
    | none => rw [hs] at h; cases h
    | some s1 =>
      rw [hs] at h
      exact (step_fate h1.rwv (fun hl => absurd hl (hno l (by simp))) hs).trans
        (ih s1 s' (hinv1_step h1 hs) (fun l' hl' => hno l' (by simp [hl'])) h)

/-- benign label sequences contain no API call -/
theorem benignRun_no_open {d : Nat} : ∀ (ls : List Label) (s : Sys), benignRun d s ls = true → ∀ l ∈ ls, l ≠ .apiOpen := by
  intro ls
  induction ls with
  | nil => intro s _ l hl; cases hl
  | cons l0 ls ih =>
    intro s hb l hl
    simp only [benignRun, Bool.and_eq_true] at hb
    rcases List.mem_cons.1 hl with rfl | hl
    · intro hl0; subst hl0; simp [benign] at hb
    · cases hs : step s l0 with
      | none => rw [hs] at hb; simp at hb
      | some s1 => rw [hs] at hb; exact ih s1 hb.2 l hl

/-- the events a run appends to the trace -/
theorem fate_suffix {c c' : Core} (h : Fate c c') (hq : c'.queue = []) :
    ∀ e ∈ c.queue, ∃ ev ∈ c'.trace.drop c.trace.length, fateEv e.sid ev = true := by
  obtain ⟨evs, ht, hk⟩ := h
  intro e he
  rw [ht, List.drop_left]
  rcases hk e he with ⟨e', he', _⟩ | h
  · rw [hq] at he'; cases he'
  · exact h

/-- `never_wedges`, with the fate of the queued messages: each entry that was queued has, in the part of
    the trace written during the healing, a write attempt or a drop with its reason -/
theorem never_wedges_fate {s : Sys} (h : ReachableH s) (ho : s.core.isOpen = true) :
    ∃ ls s', benignRun (s.core.now + RETRY_DELAY) s ls = true ∧ run s ls = some s' ∧ Healed s' ∧
      s'.core.now ≤ s.core.now + RETRY_DELAY ∧
      ∀ e ∈ s.core.queue, ∃ ev ∈ s'.core.trace.drop s.core.trace.length, fateEv e.sid ev = true := by
  obtain ⟨ls, s', h1, h2, h3, h4⟩ := never_wedges h ho
  exact ⟨ls, s', h1, h2, h3, h4, fate_suffix (run_fate ls s s' (hinv1_reachable h.reachable) (benignRun_no_open ls s h1) h2) h3.queue⟩

end PyAirtouch.Lemmas.SockHeal
