import PyAirtouch.Model.Api4
/-!
# Public calls: the policy table and the translations of the enum arguments (definitions used by `Props/C02At4`
and `Props/C11At4`, and the per-object policy lemmas)
-/
set_option linter.unusedVariables false
namespace PyAirtouch.Lemmas.Api4
open PyAirtouch.Model PyAirtouch.Model.Api4 PyAirtouch.Model.At4 PyAirtouch.Gen

/-- the policy table of the public calls -/
def expectedPolicy : Call → Policy
  | .acSetPower _ .TOGGLE => .nonIdempotent
  | _ => .idempotent

/-- the output of a call that raises `ValueError` -/
def valueError : List Ev := [Ev.result "ValueError"]

/-- an `AcControlMessage` without set-point control -/
def acCtl (a : AcObj) (pw : At4.X2CAcCtrl.AcPowerControl) (md : At4.X2CAcCtrl.AcModeControl)
    (fs : At4.X2CAcCtrl.AcFanSpeedControl) : OutMsg :=
  .reg (.acCtrl { ac_number := a.status.ac_number, power := pw, mode := md, fan_speed := fs, set_point_control := .none })

/-- the translation of the mode argument -/
def modeCtl : ApiEnums.AcMode → At4.X2CAcCtrl.AcModeControl
  | .AUTO => .AUTO | .HEAT => .HEAT | .DRY => .DRY | .FAN => .FAN | .COOL => .COOL

/-- the translation of the fan-speed argument (`INTELLIGENT_AUTO` has no AirTouch 4 counterpart) -/
def fanCtl : ApiEnums.AcFanSpeed → Option At4.X2CAcCtrl.AcFanSpeedControl
  | .AUTO => some .AUTO | .QUIET => some .QUIET | .LOW => some .LOW | .MEDIUM => some .MEDIUM | .HIGH => some .HIGH
  | .POWERFUL => some .POWERFUL | .TURBO => some .TURBO | .INTELLIGENT_AUTO => none

/-- the translation of the zone power argument -/
def zonePowerCtl : ApiEnums.ZonePowerState → At4.X2AGroupCtrl.GroupPowerControl
  | .OFF => .TURN_OFF | .ON => .TURN_ON | .TURBO => .TURBO

theorem callAc_policy (a : AcObj) (c : Call) (p : Policy) (m : OutMsg) (h : callAc a c = .ok (p, m)) :
    p = expectedPolicy c := by
  cases c with
  | atCheckForUpdates => cases h
  | acSetPower i pc => cases pc <;> cases h <;> rfl
  | acSetMode i md po =>
    simp only [callAc] at h
    split at h
    · cases md <;> cases po <;> cases h <;> rfl
    · cases h
  | acSetFanSpeed i f =>
    simp only [callAc] at h
    split at h
    · cases f <;> cases h <;> rfl
    · cases h
  | acSetTemp i t => cases h; rfl
  | acSetTimerTime i tt hh mm =>
    simp only [callAc] at h
    split at h
    · cases h; rfl
    · cases h
  | acSetTimerDuration i tt secs => cases tt <;> cases h <;> rfl
  | acClearTimer i tt => cases h; rfl
  | zoneSetPower i p => cases h
  | zoneSetTemp i t => cases h
  | zoneSetDamper i d => cases h

theorem callZone_policy (z : ZoneObj) (c : Call) (p : Policy) (m : OutMsg) (h : callZone z c = .ok (p, m)) :
    p = .idempotent := by
  cases c with
  | zoneSetPower i pw =>
    simp only [callZone] at h
    split at h
    · cases pw <;> cases h <;> rfl
    · cases h
  | zoneSetTemp i t =>
    simp only [callZone] at h
    split at h
    · split at h <;> cases h <;> rfl
    · cases h
  | zoneSetDamper i d =>
    simp only [callZone] at h
    split at h
    · cases h
    · cases h; rfl
  | atCheckForUpdates => cases h
  | acSetPower i pc => cases h
  | acSetMode i md po => cases h
  | acSetFanSpeed i f => cases h
  | acSetTemp i t => cases h
  | acSetTimerTime i tt hh mm => cases h
  | acSetTimerDuration i tt secs => cases h
  | acClearTimer i tt => cases h

theorem callResult_policy (s : State) (c : Call) (p : Policy) (m : OutMsg) (hr : callResult s c = .ok (p, m)) :
    p = expectedPolicy c := by
  cases c with
  | atCheckForUpdates => cases hr; rfl
  | acSetPower i pc =>
    simp only [callResult, Call.acId?] at hr
    split at hr <;> first | exact callAc_policy _ _ _ _ hr | cases hr
  | acSetMode i md po =>
    simp only [callResult, Call.acId?] at hr
    split at hr <;> first | exact callAc_policy _ _ _ _ hr | cases hr
  | acSetFanSpeed i f =>
    simp only [callResult, Call.acId?] at hr
    split at hr <;> first | exact callAc_policy _ _ _ _ hr | cases hr
  | acSetTemp i t =>
    simp only [callResult, Call.acId?] at hr
    split at hr <;> first | exact callAc_policy _ _ _ _ hr | cases hr
  | acSetTimerTime i tt hh mm =>
    simp only [callResult, Call.acId?] at hr
    split at hr <;> first | exact callAc_policy _ _ _ _ hr | cases hr
  | acSetTimerDuration i tt secs =>
    simp only [callResult, Call.acId?] at hr
    split at hr <;> first | exact callAc_policy _ _ _ _ hr | cases hr
  | acClearTimer i tt =>
    simp only [callResult, Call.acId?] at hr
    split at hr <;> first | exact callAc_policy _ _ _ _ hr | cases hr
  | zoneSetPower i pw =>
    simp only [callResult, Call.acId?, Call.zoneId?] at hr
    split at hr <;> first | (have := callZone_policy _ _ _ _ hr; subst this; rfl) | cases hr
  | zoneSetTemp i t =>
    simp only [callResult, Call.acId?, Call.zoneId?] at hr
    split at hr <;> first | (have := callZone_policy _ _ _ _ hr; subst this; rfl) | cases hr
  | zoneSetDamper i d =>
    simp only [callResult, Call.acId?, Call.zoneId?] at hr
    split at hr <;> first | (have := callZone_policy _ _ _ _ hr; subst this; rfl) | cases hr

end PyAirtouch.Lemmas.Api4
