import PyAirtouch.Lemmas.Registry4
import PyAirtouch.Lemmas.Registry5
import PyAirtouch.Spec.At4Read
import PyAirtouch.Spec.At5Read
/-!
# C04: what the control encoders write, read according to the vendor documents

Encoder direction for the four *control* messages (AirTouch 4: 0x2A group control, 0x2C AC control; AirTouch 5:
0xC0/0x20 zone control, 0xC0/0x22 AC control).

For every kind
* `meaning<Kind>` maps the model message (Python field and enum member names) into the record type of the vendor
  reader.  It is written from the *names* of the members (`TURN_ON ↦ on`, `UNCHANGED ↦ keep`, …), not from their
  numeric codes: it is the statement of what each member is supposed to mean.  Raw pass-through fields of the Spec
  records that carry no meaning (`value`, `reserved`, `setpointValue`, `valueRaw`, the retained code of `keep n`) are
  filled with what the vendor document prescribes ("Keep 0", "Set to 0x3f when …") or, where it prescribes nothing,
  with what its own examples transmit; this is said at each definition.
* `encode_reads_<kind>`: the vendor reader applied to the encoder's bytes returns exactly `meaning m`.
* `addresses_<kind>`, `changes_exactly_<kind>`, `value_exact_<kind>` and the boundary theorems are the clauses of C04.

The frame clause (to 0x80 / 0x90, from 0xB0, length, check bytes) is at the end: `frame_bytes_g4`, `frame_bytes_g5`,
`frame_reads_g4`, `frame_reads_g5` and the four end-to-end theorems `wire_<kind>`.
-/
namespace PyAirtouch.Lemmas.SpecCmd
open PyAirtouch.Model

/-! ## `WF` is decidable (through the run-time tests `wfBool`), so that closed instances can be checked by `decide` -/

instance (m : At4.X2A.Msg) : Decidable (At4.X2A.WF m) := decidable_of_iff _ (At4X2A.wfBool_iff m)
instance (m : At4.X2C.Msg) : Decidable (At4.X2C.WF m) := decidable_of_iff _ (At4X2C.wfBool_iff m)
instance (m : At5.C020.Msg) : Decidable (At5.C020.WF m) := decidable_of_iff _ (At5C020.wfBool_iff m)
instance (m : At5.C022.Msg) : Decidable (At5.C022.WF m) := decidable_of_iff _ (At5C022.wfBool_iff m)
instance (m : At4.Registry.Msg) : Decidable (At4.Registry.WFMsg m) := decidable_of_iff _ (Registry4.wfMsgBool_iff m)
instance (m : At5.Registry.Msg) : Decidable (At5.Registry.WFMsg m) := decidable_of_iff _ (Registry5.wfMsgBool_iff m)

/-! ## AirTouch 4 bit fields (vendor numbering Bit8 = msb … Bit1 = lsb) -/

theorem bits4_8_6 (b : Nat) (h : b < 256) : Spec.At4.bits b 8 6 = b / 32 := by
  unfold Spec.At4.bits; omega
theorem bits4_5_4 (b : Nat) : Spec.At4.bits b 5 4 = b / 8 % 4 := by
  unfold Spec.At4.bits; omega
theorem bits4_3_1 (b : Nat) : Spec.At4.bits b 3 1 = b % 8 := by
  unfold Spec.At4.bits; omega
theorem bits4_8_7 (b : Nat) (h : b < 256) : Spec.At4.bits b 8 7 = b / 64 := by
  unfold Spec.At4.bits; omega
theorem bits4_6_1 (b : Nat) : Spec.At4.bits b 6 1 = b % 64 := by
  unfold Spec.At4.bits; omega
theorem bits4_8_5 (b : Nat) (h : b < 256) : Spec.At4.bits b 8 5 = b / 16 := by
  unfold Spec.At4.bits; omega
theorem bits4_4_1 (b : Nat) : Spec.At4.bits b 4 1 = b % 16 := by
  unfold Spec.At4.bits; omega

theorem allBytes4_four (a b c d : Nat) (ha : a < 256) (hb : b < 256) (hc : c < 256) (hd : d < 256) :
    Spec.At4.allBytes [a, b, c, d] = true := by
  simp [Spec.At4.allBytes, ha, hb, hc, hd]

/-! ## AirTouch 4, 0x2A group control -/

section G2A
open PyAirtouch.Model.At4 PyAirtouch.Gen.At4.X2AGroupCtrl

/-- `GroupPowerControl`: TOGGLE = "Change to next state", TURN_OFF, TURN_ON, TURBO, UNCHANGED = "Keep power state" -/
def meaningGroupPower : GroupPowerControl → Spec.At4.GroupPowerCmd
  | .TOGGLE => .next
  | .TURN_OFF => .off
  | .TURN_ON => .on
  | .TURBO => .turbo
  | .UNCHANGED => .keep

/-- `GroupControlMethod`: CHANGE, DAMPER = percentage control, TEMPERATURE, UNCHANGED = keep -/
def meaningGroupMethod : GroupControlMethod → Spec.At4.GroupControlMethodCmd
  | .CHANGE => .change
  | .DAMPER => .percentage
  | .TEMPERATURE => .temperature
  | .UNCHANGED => .keep

/-- `GroupSetting`: `GroupIncreaseDecrease` members, `GroupDamperControl(open_percentage)`,
    `GroupSetPointControl(set_point)` (whole °C, the Spec side is in tenths), `None` = keep -/
def meaningGroupSetting : X2A.GroupSetting → Spec.At4.GroupSettingCmd
  | .incDec .DECREASE => .decrease
  | .incDec .INCREASE => .increase
  | .damper p => .setOpenPercentage p
  | .setPoint sp => .setTargetSetpoint ((sp : Int) * 10)
  | .none => .keep

/-- Byte3 as transmitted: the percentage / the set-point when the setting carries one; the document gives no value
    for the other settings ("Valid when bit8-6 of byte2 are 100 or 101"), its examples transmit 0x00 -/
def meaningGroupValueRaw : X2A.GroupSetting → Nat
  | .damper p => p
  | .setPoint sp => sp
  | _ => 0

/-- the intended reading of a `GroupControlMessage` (Byte4: "Keep 0") -/
def meaning2A (m : X2A.Msg) : Spec.At4.GroupControl :=
  { group := m.group_number
    setting := meaningGroupSetting m.setting
    controlMethod := meaningGroupMethod m.control_method
    power := meaningGroupPower m.power
    value := meaningGroupValueRaw m.setting
    reserved := 0 }

/-- the three bit fields of Byte2 as the vendor reader extracts them -/
theorem encB2_fields_2A (pw : GroupPowerControl) (cm : GroupControlMethod) (st : X2A.GroupSetting) :
    (X2A.encSetting st).1 + X2A.encMethod cm + pw.toNat < 256 ∧
    ((X2A.encSetting st).1 + X2A.encMethod cm + pw.toNat) / 32 = (X2A.encSetting st).1 / 32 ∧
    ((X2A.encSetting st).1 + X2A.encMethod cm + pw.toNat) / 8 % 4 = cm.toNat ∧
    ((X2A.encSetting st).1 + X2A.encMethod cm + pw.toNat) % 8 = pw.toNat := by
  have hq : pw.toNat < 8 := by cases pw <;> decide
  have he : X2A.encMethod cm = cm.toNat * 8 ∧ cm.toNat < 4 := by cases cm <;> decide
  obtain ⟨he1, he2⟩ := he
  have hk : ∃ k, k < 8 ∧ (X2A.encSetting st).1 = k * 32 := by
    cases st with
    | incDec v => exact ⟨v.toNat, by cases v <;> decide, rfl⟩
    | damper p => exact ⟨SET_PERCENTAGE, by decide, rfl⟩
    | setPoint sp => exact ⟨SET_SETPOINT, by decide, rfl⟩
    | none => exact ⟨KEEP_SETTING, by decide, rfl⟩
  obtain ⟨k, hk8, hk⟩ := hk
  rw [hk, he1]
  omega

theorem readGroupPower_meaning (pw : GroupPowerControl) :
    Spec.At4.readGroupPowerCmd pw.toNat = meaningGroupPower pw := by cases pw <;> rfl

theorem readGroupMethod_meaning (cm : GroupControlMethod) :
    Spec.At4.readGroupControlMethodCmd cm.toNat = meaningGroupMethod cm := by cases cm <;> rfl

theorem readGroupSetting_meaning (st : X2A.GroupSetting) :
    Spec.At4.readGroupSettingCmd ((X2A.encSetting st).1 / 32) (X2A.encSetting st).2 = meaningGroupSetting st := by
  cases st with
  | incDec v => cases v <;> rfl
  | damper p => simp [X2A.encSetting, SET_PERCENTAGE, Spec.At4.readGroupSettingCmd, meaningGroupSetting]
  | setPoint sp =>
    simp [X2A.encSetting, SET_SETPOINT, Spec.At4.readGroupSettingCmd, meaningGroupSetting, Spec.At4.degToTenths]
  | none => rfl

theorem encSetting_value_raw (st : X2A.GroupSetting) : (X2A.encSetting st).2 = meaningGroupValueRaw st := by
  cases st <;> rfl

/-- **0x2A**: whatever the encoder returns is read by the vendor reader as `meaning2A m`
    (the encoder returns bytes exactly for the well-formed messages, `At4X2A.encode_ok_iff`) -/
theorem encode_reads_2A' (m : X2A.Msg) (bs : Bytes) (h : X2A.encode m = .ok bs) :
    Spec.At4.readGroupControl bs = some (meaning2A m) := by
  unfold X2A.encode at h
  split at h
  · rename_i hc
    obtain ⟨hg, hb2, hv⟩ := hc
    cases h
    rcases m with ⟨gn, pw, cm, st⟩
    obtain ⟨-, f1, f2, f3⟩ := encB2_fields_2A pw cm st
    simp only [X2A.encB2] at hb2
    simp only at hg hv
    have hall := allBytes4_four _ _ _ _ hg hb2 hv (by decide : 0 < 256)
    simp only [X2A.encodeBytes, X2A.encB2, Spec.At4.readGroupControl, hall, Bool.not_true, Bool.false_eq_true,
      ↓reduceIte, bits4_8_6 _ hb2, bits4_5_4, bits4_3_1, f1, f2, f3, readGroupPower_meaning,
      readGroupMethod_meaning, readGroupSetting_meaning, meaning2A]
    rw [encSetting_value_raw]
  · cases h

/-- **0x2A**: for every well-formed message the encoder succeeds with 4 bytes which the vendor reader reads as
    `meaning2A m` -/
theorem encode_reads_2A (m : X2A.Msg) (hwf : X2A.WF m) :
    ∃ bs, X2A.encode m = .ok bs ∧ bs.length = 4 ∧ Spec.At4.readGroupControl bs = some (meaning2A m) :=
  ⟨_, At4X2A.encode_ok m hwf, rfl, encode_reads_2A' m _ (At4X2A.encode_ok m hwf)⟩

/-- (a) the group addressed is the message's group -/
theorem addresses_2A (m : X2A.Msg) (bs : Bytes) (h : X2A.encode m = .ok bs) :
    (Spec.At4.readGroupControl bs).map (·.group) = some m.group_number := by
  rw [encode_reads_2A' m bs h]; rfl

/-- (b) the attributes the command does not keep are exactly those whose field is not the keep member -/
theorem changedAttrs_meaning2A (m : X2A.Msg) :
    (meaning2A m).changedAttrs =
      (if m.setting = .none then [] else ["setting"]) ++
      (if m.control_method = .UNCHANGED then [] else ["control_method"]) ++
      (if m.power = .UNCHANGED then [] else ["power"]) := by
  rcases m with ⟨gn, pw, cm, st⟩
  have h1 : (meaningGroupSetting st = .keep) = (st = .none) := by
    cases st with
    | incDec v => cases v <;> simp [meaningGroupSetting]
    | damper p => simp [meaningGroupSetting]
    | setPoint sp => simp [meaningGroupSetting]
    | none => simp [meaningGroupSetting]
  have h2 : (meaningGroupMethod cm = .keep) = (cm = .UNCHANGED) := by cases cm <;> simp [meaningGroupMethod]
  have h3 : (meaningGroupPower pw = .keep) = (pw = .UNCHANGED) := by cases pw <;> simp [meaningGroupPower]
  simp only [Spec.At4.GroupControl.changedAttrs, meaning2A, h1, h2, h3]

theorem changes_exactly_2A (m : X2A.Msg) (bs : Bytes) (h : X2A.encode m = .ok bs) :
    (Spec.At4.readGroupControl bs).map Spec.At4.GroupControl.changedAttrs = some (
      (if m.setting = .none then [] else ["setting"]) ++
      (if m.control_method = .UNCHANGED then [] else ["control_method"]) ++
      (if m.power = .UNCHANGED then [] else ["power"])) := by
  rw [encode_reads_2A' m bs h, Option.map_some, changedAttrs_meaning2A]

/-- (c) set-point (whole °C, read in tenths) and open percentage are read back exactly, over the whole range the
    encoder accepts (0 … 255) -/
theorem value_exact_2A (gn : Nat) (pw : GroupPowerControl) (cm : GroupControlMethod) (v : Nat) (bs : Bytes) :
    (X2A.encode ⟨gn, pw, cm, .setPoint v⟩ = .ok bs →
      (Spec.At4.readGroupControl bs).map (·.setting) = some (.setTargetSetpoint ((v : Int) * 10))) ∧
    (X2A.encode ⟨gn, pw, cm, .damper v⟩ = .ok bs →
      (Spec.At4.readGroupControl bs).map (·.setting) = some (.setOpenPercentage v)) := by
  constructor <;> intro h <;> rw [encode_reads_2A' _ bs h] <;> rfl

/-- boundary of the encodable range: a set-point or percentage above 255 (or a group number above 255) is refused
    by the encoder (`struct.error`), nothing is transmitted -/
theorem value_boundary_2A (gn : Nat) (pw : GroupPowerControl) (cm : GroupControlMethod) (v : Nat) (hv : 256 ≤ v) :
    X2A.encode ⟨gn, pw, cm, .setPoint v⟩ = .error .structError ∧
    X2A.encode ⟨gn, pw, cm, .damper v⟩ = .error .structError := by
  constructor <;> apply At4X2A.encode_error <;> simp only [X2A.WF, X2A.WFSetting] <;> omega

/-- the vendor's own validity conditions (group 0-15, documented codes only, Byte4 = 0) hold for groups 0 … 15 -/
theorem wellFormed_2A (m : X2A.Msg) (hg : m.group_number ≤ 15) : (meaning2A m).wellFormed = true := by
  rcases m with ⟨gn, pw, cm, st⟩
  simp only at hg
  rcases st with v | p | sp | _
  · cases v <;> cases pw <;>
      simp [Spec.At4.GroupControl.wellFormed, meaning2A, meaningGroupSetting, meaningGroupPower, hg]
  all_goals
    cases pw <;> simp [Spec.At4.GroupControl.wellFormed, meaning2A, meaningGroupSetting, meaningGroupPower, hg]

end G2A

/-! ## AirTouch 4, 0x2C AC control -/

section G2C
open PyAirtouch.Model.At4 PyAirtouch.Gen.At4.X2CAcCtrl

/-- `AcPowerControl`: TOGGLE = "Change on/off state", TURN_OFF, TURN_ON, UNCHANGED = "Keep power state" -/
def meaningAcPower4 : AcPowerControl → Spec.At4.AcPowerCmd
  | .TOGGLE => .toggle
  | .TURN_OFF => .off
  | .TURN_ON => .on
  | .UNCHANGED => .keep

/-- `AcModeControl`; UNCHANGED = "Keep mode setting".  The Spec's `keep` retains the transmitted code ("Other": all
    such codes mean the same); the document's examples transmit `1111` -/
def meaningAcMode4 : AcModeControl → Spec.At4.AcModeCmd
  | .AUTO => .set .auto
  | .HEAT => .set .heat
  | .DRY => .set .dry
  | .FAN => .set .fan
  | .COOL => .set .cool
  | .UNCHANGED => .keep 15

/-- `AcFanSpeedControl`; UNCHANGED = "Keep fan speed setting" (retained code `1111` as in the document's examples) -/
def meaningAcFan4 : AcFanSpeedControl → Spec.At4.AcFanCmd
  | .AUTO => .set .auto
  | .QUIET => .set .quiet
  | .LOW => .set .low
  | .MEDIUM => .set .medium
  | .HIGH => .set .high
  | .POWERFUL => .set .powerful
  | .TURBO => .set .turbo
  | .UNCHANGED => .keep 15

/-- `AcSetPointControl`: `AcIncreaseDecrease` members, `AcSetPointValue(set_point)` (whole °C, the Spec side is in
    tenths), `None` = "Keep current setpoint" -/
def meaningAcSetpoint4 : X2C.AcSetPointControl → Spec.At4.AcSetpointCmd
  | .incDec .INCREASE => .increase
  | .incDec .DECREASE => .decrease
  | .value sp => .set ((sp : Int) * 10)
  | .none => .keep

/-- Byte3 Bit6-1 as transmitted: the set-point when one is set, otherwise "Set to 0x3f when bit8-7 in byte3 are
    not 01" -/
def meaningAcSetpointRaw4 : X2C.AcSetPointControl → Nat
  | .value sp => sp
  | _ => 0x3f

/-- the intended reading of an AirTouch 4 `AcControlMessage` (Byte4: "Keep 0") -/
def meaning2C (m : X2C.Msg) : Spec.At4.AcControl :=
  { ac := m.ac_number
    power := meaningAcPower4 m.power
    mode := meaningAcMode4 m.mode
    fanSpeed := meaningAcFan4 m.fan_speed
    setpoint := meaningAcSetpoint4 m.set_point_control
    setpointValue := meaningAcSetpointRaw4 m.set_point_control
    reserved := 0 }

/-- what the encoder's mask (`& 0x3F`) makes of an out-of-domain set-point -/
def maskSc : X2C.AcSetPointControl → X2C.AcSetPointControl
  | .value sp => .value (sp % 64)
  | c => c

/-- what the encoder's masks (`& 0x3F`) make of out-of-domain numbers -/
def mask2C (m : X2C.Msg) : X2C.Msg :=
  { m with ac_number := m.ac_number % 64, set_point_control := maskSc m.set_point_control }

theorem mask2C_wf (m : X2C.Msg) (h : X2C.WF m) : mask2C m = m := by
  rcases m with ⟨ac, pw, md, fs, sc⟩
  obtain ⟨h1, h2⟩ := h
  simp only at h1 h2
  cases sc with
  | value sp =>
    simp only [X2C.WFSetPointControl] at h2
    simp only [mask2C, maskSc, Nat.mod_eq_of_lt h1, Nat.mod_eq_of_lt h2]
  | incDec v => simp only [mask2C, maskSc, Nat.mod_eq_of_lt h1]
  | none => simp only [mask2C, maskSc, Nat.mod_eq_of_lt h1]

theorem encB1_fields_2C (pw : AcPowerControl) (ac : Nat) :
    X2C.encPower pw + X2C.encAcNumber ac < 256 ∧
    (X2C.encPower pw + X2C.encAcNumber ac) / 64 = pw.toNat ∧
    (X2C.encPower pw + X2C.encAcNumber ac) % 64 = ac % 64 := by
  have h : X2C.encPower pw = pw.toNat * 64 ∧ pw.toNat < 4 := by cases pw <;> decide
  obtain ⟨h1, h2⟩ := h
  rw [h1]; unfold X2C.encAcNumber; omega

theorem encB2_fields_2C (md : AcModeControl) (fs : AcFanSpeedControl) :
    X2C.encMode md + X2C.encFanSpeed fs < 256 ∧
    Spec.At4.readAcModeCmd ((X2C.encMode md + X2C.encFanSpeed fs) / 16) = meaningAcMode4 md ∧
    Spec.At4.readAcFanCmd ((X2C.encMode md + X2C.encFanSpeed fs) % 16) = meaningAcFan4 fs := by
  cases md <;> cases fs <;> decide

theorem encB3_fields_2C (sc : X2C.AcSetPointControl) :
    X2C.encSetPointControl sc < 256 ∧
    Spec.At4.readAcSetpointCmd (X2C.encSetPointControl sc / 64) (meaningAcSetpointRaw4 (maskSc sc)) =
      meaningAcSetpoint4 (maskSc sc) ∧
    X2C.encSetPointControl sc % 64 = meaningAcSetpointRaw4 (maskSc sc) := by
  cases sc with
  | incDec v => cases v <;> decide
  | none => decide
  | value sp =>
    have e : X2C.encSetPointControl (.value sp) = 64 + sp % 64 := by
      simp [X2C.encSetPointControl, SET_POINT_CONTROL_VALUE]
    have e1 : (64 + sp % 64) / 64 = 1 := by omega
    have e2 : (64 + sp % 64) % 64 = sp % 64 := by omega
    rw [e, e1, e2]
    refine ⟨by omega, ?_, rfl⟩
    simp [Spec.At4.readAcSetpointCmd, maskSc, meaningAcSetpoint4, meaningAcSetpointRaw4, Spec.At4.degToTenths]

/-- the vendor reading of the encoder's bytes, for EVERY message: the meaning of the masked message -/
theorem read_encodeBytes_2C (m : X2C.Msg) :
    Spec.At4.readAcControl (X2C.encodeBytes m) = some (meaning2C (mask2C m)) := by
  rcases m with ⟨ac, pw, md, fs, sc⟩
  obtain ⟨a1, a2, a3⟩ := encB1_fields_2C pw ac
  obtain ⟨b1, b2, b3⟩ := encB2_fields_2C md fs
  obtain ⟨c1, c2, c3⟩ := encB3_fields_2C sc
  have hall := allBytes4_four _ _ _ _ a1 b1 c1 (by decide : 0 < 256)
  simp only [X2C.encodeBytes, X2C.encB1, X2C.encB2, Spec.At4.readAcControl, hall, Bool.not_true,
    Bool.false_eq_true, ↓reduceIte, bits4_8_7 _ a1, bits4_6_1, bits4_8_5 _ b1, bits4_4_1, a2, a3, b2, b3, c2, c3,
    bits4_8_7 _ c1]
  cases pw <;> rfl

/-- **0x2C**: for every well-formed message the encoder succeeds with 4 bytes which the vendor reader reads as
    `meaning2C m` -/
theorem encode_reads_2C (m : X2C.Msg) (hwf : X2C.WF m) :
    ∃ bs, X2C.encode m = .ok bs ∧ bs.length = 4 ∧ Spec.At4.readAcControl bs = some (meaning2C m) := by
  refine ⟨_, At4X2C.encode_ok m, rfl, ?_⟩
  rw [read_encodeBytes_2C, mask2C_wf m hwf]

theorem encode_reads_2C' (m : X2C.Msg) (hwf : X2C.WF m) (bs : Bytes) (h : X2C.encode m = .ok bs) :
    Spec.At4.readAcControl bs = some (meaning2C m) := by
  obtain ⟨bs', h1, -, h3⟩ := encode_reads_2C m hwf
  cases h1.symm.trans h
  exact h3

/-- `WF` (AC number below 64) is needed: AC number 64 is transmitted as AC 0 -/
theorem encode_reads_2C_needs_wf :
    X2C.encode ⟨64, .TURN_ON, .UNCHANGED, .UNCHANGED, .none⟩ = .ok [0xC0, 0xFF, 0x3F, 0x00] ∧
    (Spec.At4.readAcControl [0xC0, 0xFF, 0x3F, 0x00]).map (·.ac) = some 0 := by
  constructor <;> decide

/-- (a) the AC addressed is the message's AC -/
theorem addresses_2C (m : X2C.Msg) (hwf : X2C.WF m) (bs : Bytes) (h : X2C.encode m = .ok bs) :
    (Spec.At4.readAcControl bs).map (·.ac) = some m.ac_number := by
  rw [encode_reads_2C' m hwf bs h]; rfl

/-- (b) the attributes the command does not keep are exactly those whose field is not the keep member -/
theorem changedAttrs_meaning2C (m : X2C.Msg) :
    (meaning2C m).changedAttrs =
      (if m.power = .UNCHANGED then [] else ["power"]) ++
      (if m.mode = .UNCHANGED then [] else ["mode"]) ++
      (if m.fan_speed = .UNCHANGED then [] else ["fan_speed"]) ++
      (if m.set_point_control = .none then [] else ["setpoint"]) := by
  rcases m with ⟨ac, pw, md, fs, sc⟩
  have h1 : (if meaningAcPower4 pw = .keep then [] else ["power"]) =
      (if pw = .UNCHANGED then [] else ["power"]) := by cases pw <;> rfl
  have h2 : (match meaningAcMode4 md with | .keep _ => [] | .set _ => ["mode"]) =
      (if md = .UNCHANGED then [] else ["mode"]) := by cases md <;> rfl
  have h3 : (match meaningAcFan4 fs with | .keep _ => [] | .set _ => ["fan_speed"]) =
      (if fs = .UNCHANGED then [] else ["fan_speed"]) := by cases fs <;> rfl
  have h4 : (match meaningAcSetpoint4 sc with | .keep => [] | _ => ["setpoint"]) =
      (if sc = .none then [] else ["setpoint"]) := by
    cases sc with
    | incDec v => cases v <;> rfl
    | value sp => rfl
    | none => rfl
  show (if meaningAcPower4 pw = .keep then [] else ["power"]) ++
      (match meaningAcMode4 md with | .keep _ => [] | .set _ => ["mode"]) ++
      (match meaningAcFan4 fs with | .keep _ => [] | .set _ => ["fan_speed"]) ++
      (match meaningAcSetpoint4 sc with | .keep => [] | _ => ["setpoint"]) = _
  rw [h1, h2, h3, h4]

theorem changes_exactly_2C (m : X2C.Msg) (hwf : X2C.WF m) (bs : Bytes) (h : X2C.encode m = .ok bs) :
    (Spec.At4.readAcControl bs).map Spec.At4.AcControl.changedAttrs = some (
      (if m.power = .UNCHANGED then [] else ["power"]) ++
      (if m.mode = .UNCHANGED then [] else ["mode"]) ++
      (if m.fan_speed = .UNCHANGED then [] else ["fan_speed"]) ++
      (if m.set_point_control = .none then [] else ["setpoint"])) := by
  rw [encode_reads_2C' m hwf bs h, Option.map_some, changedAttrs_meaning2C]

/-- (c) the set-point (whole °C, read in tenths) is read back exactly over the whole 6-bit range 0 … 63 -/
theorem value_exact_2C (ac : Nat) (pw : AcPowerControl) (md : AcModeControl) (fs : AcFanSpeedControl) (sp : Nat)
    (hac : ac < 64) (hsp : sp < 64) (bs : Bytes) (h : X2C.encode ⟨ac, pw, md, fs, .value sp⟩ = .ok bs) :
    (Spec.At4.readAcControl bs).map (·.setpoint) = some (.set ((sp : Int) * 10)) ∧
    (Spec.At4.readAcControl bs).map (·.setpointValue) = some sp := by
  have hwf : X2C.WF ⟨ac, pw, md, fs, .value sp⟩ := ⟨hac, hsp⟩
  rw [encode_reads_2C' _ hwf bs h]; exact ⟨rfl, rfl⟩

/-- boundary of the 6-bit set-point field: the encoder does not refuse a set-point of 64 °C (outside `WF`), it
    masks it, and the vendor reading of what is transmitted is "set 0 °C" -/
theorem value_boundary_2C_refuted :
    X2C.encode ⟨0, .UNCHANGED, .UNCHANGED, .UNCHANGED, .value 64⟩ = .ok [0x00, 0xFF, 0x40, 0x00] ∧
    (Spec.At4.readAcControl [0x00, 0xFF, 0x40, 0x00]).map (·.setpoint) = some (.set 0) ∧
    ¬ X2C.WF ⟨0, .UNCHANGED, .UNCHANGED, .UNCHANGED, .value 64⟩ := by
  refine ⟨by decide, by decide, ?_⟩
  simp [X2C.WF, X2C.WFSetPointControl]

/-- in general a set-point `sp ≥ 64` is read as `sp mod 64` -/
theorem value_boundary_2C (ac : Nat) (pw : AcPowerControl) (md : AcModeControl) (fs : AcFanSpeedControl) (sp : Nat) :
    ∃ bs, X2C.encode ⟨ac, pw, md, fs, .value sp⟩ = .ok bs ∧
      (Spec.At4.readAcControl bs).map (·.setpoint) = some (.set (((sp % 64 : Nat) : Int) * 10)) ∧
      (Spec.At4.readAcControl bs).map (·.ac) = some (ac % 64) := by
  refine ⟨_, At4X2C.encode_ok _, ?_, ?_⟩ <;> rw [read_encodeBytes_2C] <;> rfl

/-- the vendor's own validity conditions (AC 0-3, Byte4 = 0, 0x3f when no value is set) hold for ACs 0 … 3 -/
theorem wellFormed_2C (m : X2C.Msg) (hac : m.ac_number ≤ 3) : (meaning2C m).wellFormed = true := by
  rcases m with ⟨ac, pw, md, fs, sc⟩
  simp only at hac
  rcases sc with v | sp | _
  · cases v <;> simp [Spec.At4.AcControl.wellFormed, meaning2C, meaningAcSetpoint4, meaningAcSetpointRaw4, hac]
  · simp [Spec.At4.AcControl.wellFormed, meaning2C, meaningAcSetpoint4, hac]
  · simp [Spec.At4.AcControl.wellFormed, meaning2C, meaningAcSetpoint4, meaningAcSetpointRaw4, hac]

end G2C

/-! ## AirTouch 5: bit fields, the 0xC0 sub-header and the repeat data, as the vendor reader sees them -/

section G5
open PyAirtouch.Model.At5 PyAirtouch.Model.At5.Registry PyAirtouch.Model.At5.Utils

theorem bits5_6_1 (b : Nat) : Spec.At5.bits b 6 1 = b % 64 := by
  simp [Spec.At5.bits]
theorem bits5_8_7 (b : Nat) (h : b < 256) : Spec.At5.bits b 8 7 = b / 64 := by
  simp only [Spec.At5.bits, Nat.shiftRight_eq_div_pow]; omega
theorem bits5_8_6 (b : Nat) (h : b < 256) : Spec.At5.bits b 8 6 = b / 32 := by
  simp only [Spec.At5.bits, Nat.shiftRight_eq_div_pow]; omega
theorem bits5_5_4 (b : Nat) : Spec.At5.bits b 5 4 = b / 8 % 4 := by
  simp only [Spec.At5.bits, Nat.shiftRight_eq_div_pow]
theorem bits5_3_1 (b : Nat) : Spec.At5.bits b 3 1 = b % 8 := by
  simp [Spec.At5.bits]
theorem bits5_4_1 (b : Nat) : Spec.At5.bits b 4 1 = b % 16 := by
  simp [Spec.At5.bits]
theorem bits5_8_5 (b : Nat) (h : b < 256) : Spec.At5.bits b 8 5 = b / 16 := by
  simp only [Spec.At5.bits, Nat.shiftRight_eq_div_pow]; omega

theorem be16_rt (v : Nat) (h : v < 65536) : v / 256 % 256 * 256 + v % 256 = v := by omega

/-- the eight bytes the model's 0xC0 wrapper writes, read as the vendor's sub-header (4.a) -/
theorem readSubMessage_cs (id nr rl rc : Nat) (body : Bytes) (hnr : nr < 65536) (hrl : rl < 65536)
    (hrc : rc < 65536) :
    Spec.At5.readSubMessage (csSubHeaderBytes id nr rl rc ++ body) =
      if body.length = nr + rl * rc then
        some { hdr := { subType := id, reserved := 0, normalLen := nr, eachLen := rl, count := rc }
               normal := body.take nr
               records := Spec.At5.splitRecords rl rc (body.drop nr) }
      else none := by
  have e1 := be16_rt nr hnr
  have e2 := be16_rt rl hrl
  have e3 := be16_rt rc hrc
  simp only [csSubHeaderBytes, be16Bytes, List.cons_append, List.nil_append, Spec.At5.readSubMessage,
    Spec.At5.be16, e1, e2, e3]

/-- `k`-byte records written one after the other are split and read back one by one -/
theorem readAll_flatMap {α β : Type} (k : Nat) (rd : List Nat → Option β) (rb : α → Bytes) (f : α → β) :
    ∀ (xs : List α), (∀ x ∈ xs, (rb x).length = k) → (∀ x ∈ xs, rd (rb x) = some (f x)) →
      Spec.At5.readAll rd (Spec.At5.splitRecords k xs.length (xs.flatMap rb)) = some (xs.map f)
  | [], _, _ => rfl
  | x :: xs, hlen, hrd => by
    have hl : (rb x).length = k := hlen x (by simp)
    have ih := readAll_flatMap k rd rb f xs (fun y hy => hlen y (by simp [hy])) (fun y hy => hrd y (by simp [hy]))
    have ht : (rb x ++ xs.flatMap rb).take k = rb x := by rw [← hl]; simp
    have hd : (rb x ++ xs.flatMap rb).drop k = xs.flatMap rb := by rw [← hl]; simp
    simp only [List.length_cons, List.flatMap_cons, Spec.At5.splitRecords, Spec.At5.readAll, ht, hd,
      hrd x (by simp), ih, List.map_cons]

/-! ## AirTouch 5, 0xC0 / 0x20 zone control -/

section C020
open PyAirtouch.Gen.At5.XC020ZoneCtrl

/-- `ZonePowerControl`: TOGGLE = "Change on/off state", TURN_OFF, TURN_ON, TURBO, UNCHANGED = "Keep power state" -/
def meaningZonePower : ZonePowerControl → Spec.At5.ZonePowerCmd
  | .TOGGLE => .change
  | .TURN_OFF => .off
  | .TURN_ON => .on
  | .TURBO => .turbo
  | .UNCHANGED => .keep

/-- the zone setting value field: `ZoneIncreaseDecrease` members, `ZoneDamperControl` = "Set open percentage",
    `ZoneSetPointControl` = "Set target setpoint", `None` = "Keep setting value" -/
def meaningZoneSetting : Option C020.ZoneSetting → Spec.At5.ZoneSettingCmd
  | some (.incDec .DECREASE) => .decrease
  | some (.incDec .INCREASE) => .increase
  | some (.damper _) => .setPercentage
  | some (.setPoint _) => .setSetpoint
  | none => .keep

/-- the value to set: `open_percentage` in percent, `set_point` in tenths of a degree -/
def meaningZoneValue : Option C020.ZoneSetting → Spec.At5.ZoneValue
  | some (.damper p) => .percentage p
  | some (.setPoint sp) => .setpoint sp
  | _ => .keep

/-- Byte3 as transmitted: the percentage; "(setpoint * 10) - 100"; where no value is carried the document's example
    transmits 0xFF -/
def meaningZoneValueRaw : Option C020.ZoneSetting → Nat
  | some (.damper p) => p
  | some (.setPoint sp) => (sp - 100).toNat
  | _ => 0xFF

/-- the intended reading of one `ZoneControlData`.  The message type has no control-type field: the control type is
    always kept.  Byte1 Bit8-7 and Byte4 are "Keep 0". -/
def meaningZoneRec (z : C020.ZoneControlData) : Spec.At5.ZoneControl :=
  { zone := z.zone_number
    setting := meaningZoneSetting z.zone_setting
    controlType := .keep
    power := meaningZonePower z.zone_power
    value := meaningZoneValue z.zone_setting
    valueRaw := meaningZoneValueRaw z.zone_setting
    reservedZero := true }

def meaningC020 (m : C020.Msg) : List Spec.At5.ZoneControl := m.zone_control.map meaningZoneRec

/-- the ranges the vendor document gives and the model's `WF` (= what the encoder accepts) does not: zone index in six
    bits (Byte1 Bit6-1), "When set percentage: 0-100", "When set temperature: 0-250" (set-point up to 35.0 °C) -/
def DocRange020 (z : C020.ZoneControlData) : Prop :=
  z.zone_number < 64 ∧
  match z.zone_setting with
  | some (.damper p) => p ≤ 100
  | some (.setPoint sp) => sp ≤ 350
  | _ => True

instance (z : C020.ZoneControlData) : Decidable (DocRange020 z) := by
  unfold DocRange020
  rcases z.zone_setting with _ | (_ | _ | _) <;> infer_instance

theorem readZonePower_meaning (pw : ZonePowerControl) :
    Spec.At5.ZonePowerCmd.ofCode pw.toNat = meaningZonePower pw := by cases pw <;> rfl

/-- one record: the vendor reader on the four bytes the encoder writes -/
theorem readZoneControlRecord_recBytes (z : C020.ZoneControlData) (hwf : C020.WFRec z) (hdoc : DocRange020 z) :
    Spec.At5.readZoneControlRecord (At5C020.recBytes z) = some (meaningZoneRec z) := by
  rcases z with ⟨zn, pw, st⟩
  obtain ⟨hz, hs⟩ := hwf
  obtain ⟨hz64, hd⟩ := hdoc
  simp only at hz hs hz64 hd
  have hq : pw.toNat < 8 := by cases pw <;> decide
  have key : ∀ k, k < 8 → k * 32 + pw.toNat < 256 ∧ (k * 32 + pw.toNat) / 32 = k ∧
      (k * 32 + pw.toNat) / 8 % 4 = 0 ∧ (k * 32 + pw.toNat) % 8 = pw.toNat := by
    intro k hk; omega
  have h87 : Spec.At5.bits zn 8 7 = 0 := by rw [bits5_8_7 zn hz]; omega
  have h61 : Spec.At5.bits zn 6 1 = zn := by rw [bits5_6_1]; omega
  rcases st with _ | (v | p | sp)
  · obtain ⟨k0, k1, k2, k3⟩ := key UNCHANGED (by decide)
    simp only [At5C020.recBytes, C020.encSetting, Spec.At5.readZoneControlRecord, bits5_8_6 _ k0, bits5_5_4,
      bits5_3_1, k1, k2, k3, h87, h61, readZonePower_meaning, meaningZoneRec]
    rfl
  · obtain ⟨k0, k1, k2, k3⟩ := key v.toNat (by cases v <;> decide)
    simp only [At5C020.recBytes, C020.encSetting, Spec.At5.readZoneControlRecord, bits5_8_6 _ k0, bits5_5_4,
      bits5_3_1, k1, k2, k3, h87, h61, readZonePower_meaning, meaningZoneRec]
    cases v <;> rfl
  · obtain ⟨k0, k1, k2, k3⟩ := key SET_PERCENTAGE (by decide)
    simp only [At5C020.recBytes, C020.encSetting, Spec.At5.readZoneControlRecord, bits5_8_6 _ k0, bits5_5_4,
      bits5_3_1, k1, k2, k3, h87, h61, readZonePower_meaning, meaningZoneRec]
    simp [SET_PERCENTAGE, Spec.At5.ZoneSettingCmd.ofCode, Spec.At5.zoneValueOf, hd, meaningZoneSetting,
      meaningZoneValue, meaningZoneValueRaw, Spec.At5.ZoneControlTypeCmd.ofCode]
  · obtain ⟨k0, k1, k2, k3⟩ := key SET_SETPOINT (by decide)
    simp only [C020.WFSetting] at hs
    have hd' : sp ≤ 350 := hd
    have hraw : sp - 100 ≤ 250 := by omega
    have hback : Spec.At5.setpointTenths (sp - 100).toNat = sp := by
      unfold Spec.At5.setpointTenths; omega
    simp only [At5C020.recBytes, C020.encSetting, Spec.At5.readZoneControlRecord, bits5_8_6 _ k0, bits5_5_4,
      bits5_3_1, k1, k2, k3, h87, h61, readZonePower_meaning, meaningZoneRec]
    simp [SET_SETPOINT, Spec.At5.ZoneSettingCmd.ofCode, Spec.At5.zoneValueOf, hraw, hback, meaningZoneSetting,
      meaningZoneValue, meaningZoneValueRaw, Spec.At5.ZoneControlTypeCmd.ofCode, encodeSetPoint]

theorem recBytes020_length (z : C020.ZoneControlData) : (At5C020.recBytes z).length = 4 := rfl

/-- what the registry's encoder (0xC0 wrapper + leaf) writes for a well-formed zone control message -/
theorem encodeMsg_C020 (m : C020.Msg) (hwf : C020.WF m) (hcount : m.zone_control.length < 65536) :
    encodeMsg (.controlStatus (.zoneCtrl m)) =
      .ok (csSubHeaderBytes 0x20 0 4 m.zone_control.length ++ m.zone_control.flatMap At5C020.recBytes) := by
  have he : C020.encode m = .ok (m.zone_control.flatMap At5C020.recBytes) := At5C020.encRecs_ok m.zone_control hwf
  simp only [encodeMsg, encodeCs, CsSub.dims, CsSub.messageId, CsSub.encode, he, bind, Except.bind, pure,
    Except.pure, C020.nonRepeatSize, C020.repeatSize, C020.repeatCount, C020.recSize, STRUCT_size, MESSAGE_ID]
  rw [if_pos ⟨by decide, by decide, by decide, hcount⟩]

theorem flatMap_length_const {α : Type} (rb : α → Bytes) (k : Nat) (xs : List α)
    (h : ∀ x ∈ xs, (rb x).length = k) : (xs.flatMap rb).length = k * xs.length := by
  induction xs with
  | nil => rfl
  | cons x xs ih =>
    simp only [List.flatMap_cons, List.length_append, List.length_cons, h x (by simp),
      ih (fun y hy => h y (by simp [hy])), Nat.mul_add, Nat.mul_one, Nat.add_comm]

/-- **0xC0/0x20**: for every well-formed message within the vendor's ranges, with any number of records that fits
    the 16-bit count, the registry's encoder succeeds and the vendor reader applied to its bytes (8-byte sub-header +
    records) returns the meanings of the records, one by one, in order -/
theorem encode_reads_C020 (m : C020.Msg) (hwf : C020.WF m) (hdoc : ∀ z ∈ m.zone_control, DocRange020 z)
    (hcount : m.zone_control.length < 65536) :
    ∃ bs, encodeMsg (.controlStatus (.zoneCtrl m)) = .ok bs ∧ bs.length = 8 + 4 * m.zone_control.length ∧
      Spec.At5.readZoneControl bs = some (meaningC020 m) ∧
      Spec.At5.readControlStatus bs = some (.zoneControl (meaningC020 m)) := by
  have hlen : (m.zone_control.flatMap At5C020.recBytes).length = 4 * m.zone_control.length :=
    flatMap_length_const _ 4 _ (fun z _ => recBytes020_length z)
  have hsub := readSubMessage_cs 0x20 0 4 m.zone_control.length (m.zone_control.flatMap At5C020.recBytes)
    (by decide) (by decide) hcount
  rw [if_pos (by rw [hlen]; omega)] at hsub
  have hrecs := readAll_flatMap 4 Spec.At5.readZoneControlRecord At5C020.recBytes meaningZoneRec m.zone_control
    (fun z _ => recBytes020_length z) (fun z hz => readZoneControlRecord_recBytes z (hwf z hz) (hdoc z hz))
  have hread : Spec.At5.readZoneControl
      (csSubHeaderBytes 0x20 0 4 m.zone_control.length ++ m.zone_control.flatMap At5C020.recBytes) =
      some (meaningC020 m) := by
    simp only [Spec.At5.readZoneControl, hsub, Spec.At5.subTypeZoneControl, List.drop_zero, hrecs, meaningC020,
      and_self, ↓reduceIte]
  refine ⟨_, encodeMsg_C020 m hwf hcount, ?_, hread, ?_⟩
  · simp only [List.length_append, Registry5.csSubHeaderBytes_length, hlen]
  · simp only [Spec.At5.readControlStatus, hsub, Spec.At5.subTypeZoneControl, ↓reduceIte, hread, Option.map_some]

theorem encode_reads_C020' (m : C020.Msg) (hwf : C020.WF m) (hdoc : ∀ z ∈ m.zone_control, DocRange020 z)
    (hcount : m.zone_control.length < 65536) (bs : Bytes)
    (h : encodeMsg (.controlStatus (.zoneCtrl m)) = .ok bs) :
    Spec.At5.readZoneControl bs = some (meaningC020 m) := by
  obtain ⟨bs', h1, -, h3, -⟩ := encode_reads_C020 m hwf hdoc hcount
  cases h1.symm.trans h
  exact h3

/-- (a) record by record, the zone addressed is the record's zone -/
theorem addresses_C020 (m : C020.Msg) (hwf : C020.WF m) (hdoc : ∀ z ∈ m.zone_control, DocRange020 z)
    (hcount : m.zone_control.length < 65536) (bs : Bytes)
    (h : encodeMsg (.controlStatus (.zoneCtrl m)) = .ok bs) :
    (Spec.At5.readZoneControl bs).map (·.map (·.zone)) = some (m.zone_control.map (·.zone_number)) := by
  rw [encode_reads_C020' m hwf hdoc hcount bs h]
  simp [meaningC020, meaningZoneRec, Function.comp_def]

/-- (b) a record changes the value exactly when it has a zone setting, the power exactly when the power field is not
    UNCHANGED, and never the control type -/
theorem changes_meaningZoneRec (z : C020.ZoneControlData) :
    (meaningZoneRec z).changes =
      (if z.zone_setting = none then [] else ["value"]) ++
      (if z.zone_power = .UNCHANGED then [] else ["power"]) := by
  rcases z with ⟨zn, pw, st⟩
  rcases st with _ | (v | p | sp)
  · cases pw <;> rfl
  · cases v <;> cases pw <;> rfl
  · cases pw <;>
      simp [Spec.At5.ZoneControl.changes, Spec.At5.ZoneControl.changesValue, meaningZoneRec, meaningZoneSetting,
        meaningZoneValue, meaningZonePower]
  · cases pw <;>
      simp [Spec.At5.ZoneControl.changes, Spec.At5.ZoneControl.changesValue, meaningZoneRec, meaningZoneSetting,
        meaningZoneValue, meaningZonePower]

theorem changes_exactly_C020 (m : C020.Msg) (hwf : C020.WF m) (hdoc : ∀ z ∈ m.zone_control, DocRange020 z)
    (hcount : m.zone_control.length < 65536) (bs : Bytes)
    (h : encodeMsg (.controlStatus (.zoneCtrl m)) = .ok bs) :
    (Spec.At5.readZoneControl bs).map (·.map (·.changes)) = some (m.zone_control.map fun z =>
      (if z.zone_setting = none then [] else ["value"]) ++
      (if z.zone_power = .UNCHANGED then [] else ["power"])) := by
  rw [encode_reads_C020' m hwf hdoc hcount bs h]
  simp [meaningC020, Function.comp_def, changes_meaningZoneRec]

/-- (c) set-point (tenths, 10.0 … 35.0 °C) and open percentage (0 … 100) are read back exactly -/
theorem value_exact_C020 (zn : Nat) (pw : ZonePowerControl) (hzn : zn < 64) (bs : Bytes) :
    (∀ sp : Int, 100 ≤ sp → sp ≤ 350 →
      encodeMsg (.controlStatus (.zoneCtrl ⟨[⟨zn, pw, some (.setPoint sp)⟩]⟩)) = .ok bs →
      (Spec.At5.readZoneControl bs).map (·.map (·.value)) = some [.setpoint sp]) ∧
    (∀ p : Nat, p ≤ 100 →
      encodeMsg (.controlStatus (.zoneCtrl ⟨[⟨zn, pw, some (.damper p)⟩]⟩)) = .ok bs →
      (Spec.At5.readZoneControl bs).map (·.map (·.value)) = some [.percentage p]) := by
  constructor
  · intro sp h1 h2 h
    have hwf : C020.WF ⟨[⟨zn, pw, some (.setPoint sp)⟩]⟩ := by
      intro z hz; simp only [List.mem_singleton] at hz; subst hz
      exact ⟨show zn < 256 by omega, h1, show sp ≤ 355 by omega⟩
    have hdoc : ∀ z ∈ (⟨[⟨zn, pw, some (.setPoint sp)⟩]⟩ : C020.Msg).zone_control, DocRange020 z := by
      intro z hz; simp only [List.mem_singleton] at hz; subst hz; exact ⟨hzn, h2⟩
    rw [encode_reads_C020' _ hwf hdoc (show 1 < 65536 by decide) bs h]; rfl
  · intro p h1 h
    have hwf : C020.WF ⟨[⟨zn, pw, some (.damper p)⟩]⟩ := by
      intro z hz; simp only [List.mem_singleton] at hz; subst hz
      exact ⟨show zn < 256 by omega, show p < 256 by omega⟩
    have hdoc : ∀ z ∈ (⟨[⟨zn, pw, some (.damper p)⟩]⟩ : C020.Msg).zone_control, DocRange020 z := by
      intro z hz; simp only [List.mem_singleton] at hz; subst hz; exact ⟨hzn, h1⟩
    rw [encode_reads_C020' _ hwf hdoc (show 1 < 65536 by decide) bs h]; rfl

/-- `DocRange020` is needed (1): a well-formed message for zone 64 is transmitted with Byte1 = 0x40, which the
    vendor reads as zone 0 with a reserved bit set -/
theorem encode_reads_C020_needs_zone_lt_64 :
    C020.WF ⟨[⟨64, .TURN_ON, none⟩]⟩ ∧
    encodeMsg (.controlStatus (.zoneCtrl ⟨[⟨64, .TURN_ON, none⟩]⟩)) =
      .ok [0x20, 0, 0, 0, 0, 4, 0, 1, 0x40, 0x03, 0xFF, 0x00] ∧
    (Spec.At5.readZoneControl [0x20, 0, 0, 0, 0, 4, 0, 1, 0x40, 0x03, 0xFF, 0x00]).map
      (·.map fun c => (c.zone, c.reservedZero)) = some [(0, false)] := by
  refine ⟨?_, by decide, by decide⟩
  intro z hz; simp only [List.mem_singleton] at hz; subst hz; exact ⟨by decide, trivial⟩

/-- `DocRange020` is needed (2), boundary of the set-point byte: 35.1 … 35.5 °C are well-formed and encodable
    (codes 251 … 255) but the document defines the value only for 0-250 ("Other: Keep setting value"): the vendor
    reading of the transmitted record changes nothing -/
theorem value_boundary_C020_setpoint_refuted :
    C020.WF ⟨[⟨0, .UNCHANGED, some (.setPoint 351)⟩]⟩ ∧
    encodeMsg (.controlStatus (.zoneCtrl ⟨[⟨0, .UNCHANGED, some (.setPoint 351)⟩]⟩)) =
      .ok [0x20, 0, 0, 0, 0, 4, 0, 1, 0x00, 0xA0, 0xFB, 0x00] ∧
    (Spec.At5.readZoneControl [0x20, 0, 0, 0, 0, 4, 0, 1, 0x00, 0xA0, 0xFB, 0x00]).map
      (·.map fun c => (c.value, c.changes)) = some [(.keep, [])] := by
  refine ⟨?_, by decide, by decide⟩
  intro z hz; simp only [List.mem_singleton] at hz; subst hz
  exact ⟨by decide, by decide, by decide⟩

/-- `DocRange020` is needed (3), boundary of the percentage: 101 … 255 are well-formed and encodable but the
    document defines "0-100" only: the vendor reading of the transmitted record changes nothing -/
theorem value_boundary_C020_percentage_refuted :
    C020.WF ⟨[⟨0, .UNCHANGED, some (.damper 101)⟩]⟩ ∧
    encodeMsg (.controlStatus (.zoneCtrl ⟨[⟨0, .UNCHANGED, some (.damper 101)⟩]⟩)) =
      .ok [0x20, 0, 0, 0, 0, 4, 0, 1, 0x00, 0x80, 0x65, 0x00] ∧
    (Spec.At5.readZoneControl [0x20, 0, 0, 0, 0, 4, 0, 1, 0x00, 0x80, 0x65, 0x00]).map
      (·.map fun c => (c.value, c.changes)) = some [(.keep, [])] := by
  refine ⟨?_, by decide, by decide⟩
  intro z hz; simp only [List.mem_singleton] at hz; subst hz
  exact ⟨by decide, show (101 : Nat) < 256 by decide⟩

/-- outside `WF`: set-points below 10.0 °C or above 35.5 °C (and percentages / zone numbers above 255) are refused by
    the encoder (`struct.error`), nothing is transmitted -/
theorem value_boundary_C020_unencodable (zn : Nat) (pw : ZonePowerControl) (sp : Int) (h : sp < 100 ∨ 355 < sp) :
    C020.encode ⟨[⟨zn, pw, some (.setPoint sp)⟩]⟩ = .error .structError := by
  have hp : packB (encodeSetPoint sp) = .error .structError := by
    unfold packB encodeSetPoint; rw [if_neg (by omega)]
  have e1 : ∀ v, packB v = .ok v.toNat ∨ packB v = .error .structError := by
    intro v; unfold packB; split <;> simp
  rcases e1 (zn : Int) with a | a <;> rcases e1 ((SET_SETPOINT * 32 + pw.toNat : Nat) : Int) with b | b <;>
    simp only [C020.encode, C020.encRecs, C020.encRec, C020.encSetting, bind, Except.bind, hp, a, b]

end C020

/-! ## AirTouch 5, 0xC0 / 0x22 AC control -/

section C022
open PyAirtouch.Gen.At5.XC022AcCtrl

/-- `AcPowerControl`: TOGGLE = "Change on/off status", TURN_OFF, TURN_ON, SET_TO_AWAY, SET_TO_SLEEP,
    UNCHANGED = "Keep power setting" -/
def meaningAcPower5 : AcPowerControl → Spec.At5.AcPowerCmd
  | .TOGGLE => .change
  | .TURN_OFF => .off
  | .TURN_ON => .on
  | .SET_TO_AWAY => .away
  | .SET_TO_SLEEP => .sleep
  | .UNCHANGED => .keep

def meaningAcMode5 : AcModeControl → Spec.At5.AcModeCmd
  | .AUTO => .auto
  | .HEAT => .heat
  | .DRY => .dry
  | .FAN => .fan
  | .COOL => .cool
  | .UNCHANGED => .keep

def meaningAcFan5 : AcFanSpeedControl → Spec.At5.AcFanCmd
  | .AUTO => .auto
  | .QUIET => .quiet
  | .LOW => .low
  | .MEDIUM => .medium
  | .HIGH => .high
  | .POWERFUL => .powerful
  | .TURBO => .turbo
  | .INTELLIGENT_AUTO => .intelligentAuto
  | .UNCHANGED => .keep

/-- `set_point: float | None` (here tenths): `None` = "Keep setpoint value", a value = "Change setpoint" to it -/
def meaningAcSetpoint5 : Option Int → Spec.At5.AcSetpointCmd
  | none => .keep
  | some sp => .set sp

/-- Byte4 as transmitted: "Data to be sent = (setpoint * 10) - 100"; when the set-point is kept the document's
    examples transmit 0xFF -/
def meaningAcSetpointRaw5 : Option Int → Nat
  | none => 0xFF
  | some sp => (sp - 100).toNat

/-- the intended reading of one AirTouch 5 `AcControlData` -/
def meaningAcRec (c : C022.AcControlData) : Spec.At5.AcControl :=
  { ac := c.ac_number
    power := meaningAcPower5 c.power
    mode := meaningAcMode5 c.mode
    fanSpeed := meaningAcFan5 c.fan_speed
    setpoint := meaningAcSetpoint5 c.set_point
    setpointValueRaw := meaningAcSetpointRaw5 c.set_point }

def meaningC022 (m : C022.Msg) : List Spec.At5.AcControl := m.ac_control.map meaningAcRec

theorem encByte1_fields_C022 (ac : Nat) (pw : AcPowerControl) (hac : ac < 16) :
    ac % 16 + pw.toNat % 16 * 16 < 256 ∧ (ac % 16 + pw.toNat % 16 * 16) % 16 = ac ∧
    Spec.At5.AcPowerCmd.ofCode ((ac % 16 + pw.toNat % 16 * 16) / 16) = meaningAcPower5 pw := by
  have h : pw.toNat % 16 = pw.toNat ∧ pw.toNat < 16 := by cases pw <;> decide
  obtain ⟨h1, h2⟩ := h
  rw [h1]
  have e : (ac % 16 + pw.toNat * 16) / 16 = pw.toNat := by omega
  rw [e]
  refine ⟨by omega, by omega, ?_⟩
  cases pw <;> rfl

theorem encByte2_fields_C022 (md : AcModeControl) (fs : AcFanSpeedControl) :
    md.toNat % 16 * 16 + fs.toNat % 16 < 256 ∧
    Spec.At5.AcModeCmd.ofCode ((md.toNat % 16 * 16 + fs.toNat % 16) / 16) = meaningAcMode5 md ∧
    Spec.At5.AcFanCmd.ofCode ((md.toNat % 16 * 16 + fs.toNat % 16) % 16) = meaningAcFan5 fs := by
  cases md <;> cases fs <;> decide

/-- one record: the vendor reader on the four bytes the encoder writes -/
theorem readAcControlRecord_recBytes (c : C022.AcControlData) (hwf : C022.WFRec c) :
    Spec.At5.readAcControlRecord (At5C022.recBytes c) = some (meaningAcRec c) := by
  rcases c with ⟨ac, pw, md, fs, sp⟩
  obtain ⟨hac, hs⟩ := hwf
  simp only at hac hs
  obtain ⟨a1, a2, a3⟩ := encByte1_fields_C022 ac pw hac
  obtain ⟨b1, b2, b3⟩ := encByte2_fields_C022 md fs
  cases sp with
  | none =>
    simp only [At5C022.recBytes, Spec.At5.readAcControlRecord, bits5_4_1, bits5_8_5 _ a1, bits5_8_5 _ b1, a2, a3,
      b2, b3, C022.encSetPoint, meaningAcRec]
    rfl
  | some v =>
    obtain ⟨h1, h2⟩ := hs v rfl
    have hv : v ≠ 0 := by omega
    have hback : Spec.At5.setpointTenths (v - 100).toNat = v := by unfold Spec.At5.setpointTenths; omega
    simp only [At5C022.recBytes, Spec.At5.readAcControlRecord, bits5_4_1, bits5_8_5 _ a1, bits5_8_5 _ b1, a2, a3,
      b2, b3, C022.encSetPoint, hv, ↓reduceIte, meaningAcRec, encodeSetPoint, hback, SET_POINT_CHANGE,
      meaningAcSetpoint5, meaningAcSetpointRaw5]

theorem recBytes022_length (c : C022.AcControlData) : (At5C022.recBytes c).length = 4 := rfl

/-- what the registry's encoder (0xC0 wrapper + leaf) writes for a well-formed AC control message -/
theorem encodeMsg_C022 (m : C022.Msg) (hwf : C022.WF m) (hcount : m.ac_control.length < 65536) :
    encodeMsg (.controlStatus (.acCtrl m)) =
      .ok (csSubHeaderBytes 0x22 0 4 m.ac_control.length ++ m.ac_control.flatMap At5C022.recBytes) := by
  have he : C022.encode m = .ok (m.ac_control.flatMap At5C022.recBytes) := At5C022.encRecs_ok m.ac_control hwf
  simp only [encodeMsg, encodeCs, CsSub.dims, CsSub.messageId, CsSub.encode, he, bind, Except.bind, pure,
    Except.pure, C022.nonRepeatSize, C022.repeatSize, C022.repeatCount, C022.recSize, STRUCT_size, MESSAGE_ID]
  rw [if_pos ⟨by decide, by decide, by decide, hcount⟩]

/-- **0xC0/0x22**: for every well-formed message, with any number of records that fits the 16-bit count, the
    registry's encoder succeeds and the vendor reader applied to its bytes (8-byte sub-header + records) returns the
    meanings of the records, one by one, in order -/
theorem encode_reads_C022 (m : C022.Msg) (hwf : C022.WF m) (hcount : m.ac_control.length < 65536) :
    ∃ bs, encodeMsg (.controlStatus (.acCtrl m)) = .ok bs ∧ bs.length = 8 + 4 * m.ac_control.length ∧
      Spec.At5.readAcControl bs = some (meaningC022 m) ∧
      Spec.At5.readControlStatus bs = some (.acControl (meaningC022 m)) := by
  have hlen : (m.ac_control.flatMap At5C022.recBytes).length = 4 * m.ac_control.length :=
    flatMap_length_const _ 4 _ (fun c _ => recBytes022_length c)
  have hsub := readSubMessage_cs 0x22 0 4 m.ac_control.length (m.ac_control.flatMap At5C022.recBytes)
    (by decide) (by decide) hcount
  rw [if_pos (by rw [hlen]; omega)] at hsub
  have hrecs := readAll_flatMap 4 Spec.At5.readAcControlRecord At5C022.recBytes meaningAcRec m.ac_control
    (fun c _ => recBytes022_length c) (fun c hc => readAcControlRecord_recBytes c (hwf c hc))
  have hread : Spec.At5.readAcControl
      (csSubHeaderBytes 0x22 0 4 m.ac_control.length ++ m.ac_control.flatMap At5C022.recBytes) =
      some (meaningC022 m) := by
    simp only [Spec.At5.readAcControl, hsub, Spec.At5.subTypeAcControl, List.drop_zero, hrecs, meaningC022,
      and_self, ↓reduceIte]
  refine ⟨_, encodeMsg_C022 m hwf hcount, ?_, hread, ?_⟩
  · simp only [List.length_append, Registry5.csSubHeaderBytes_length, hlen]
  · simp only [Spec.At5.readControlStatus, hsub, Spec.At5.subTypeAcControl, Spec.At5.subTypeZoneControl,
      Spec.At5.subTypeZoneStatus, Nat.reduceEqDiff, ↓reduceIte, hread, Option.map_some]

theorem encode_reads_C022' (m : C022.Msg) (hwf : C022.WF m) (hcount : m.ac_control.length < 65536) (bs : Bytes)
    (h : encodeMsg (.controlStatus (.acCtrl m)) = .ok bs) :
    Spec.At5.readAcControl bs = some (meaningC022 m) := by
  obtain ⟨bs', h1, -, h3, -⟩ := encode_reads_C022 m hwf hcount
  cases h1.symm.trans h
  exact h3

/-- `WF` (AC number below 16) is needed: AC number 16 is transmitted as AC 0 -/
theorem encode_reads_C022_needs_wf :
    encodeMsg (.controlStatus (.acCtrl ⟨[⟨16, .TURN_ON, .UNCHANGED, .UNCHANGED, none⟩]⟩)) =
      .ok [0x22, 0, 0, 0, 0, 4, 0, 1, 0x30, 0xFF, 0x00, 0xFF] ∧
    (Spec.At5.readAcControl [0x22, 0, 0, 0, 0, 4, 0, 1, 0x30, 0xFF, 0x00, 0xFF]).map (·.map (·.ac)) = some [0] := by
  constructor <;> decide

/-- (a) record by record, the AC addressed is the record's AC -/
theorem addresses_C022 (m : C022.Msg) (hwf : C022.WF m) (hcount : m.ac_control.length < 65536) (bs : Bytes)
    (h : encodeMsg (.controlStatus (.acCtrl m)) = .ok bs) :
    (Spec.At5.readAcControl bs).map (·.map (·.ac)) = some (m.ac_control.map (·.ac_number)) := by
  rw [encode_reads_C022' m hwf hcount bs h]
  simp [meaningC022, meaningAcRec, Function.comp_def]

/-- (b) the attributes a record does not keep are exactly those whose field is not the keep member / `None` -/
theorem changes_meaningAcRec (c : C022.AcControlData) :
    (meaningAcRec c).changes =
      (if c.power = .UNCHANGED then [] else ["power"]) ++
      (if c.mode = .UNCHANGED then [] else ["mode"]) ++
      (if c.fan_speed = .UNCHANGED then [] else ["fan_speed"]) ++
      (if c.set_point = none then [] else ["setpoint"]) := by
  rcases c with ⟨ac, pw, md, fs, sp⟩
  have h1 : (if meaningAcPower5 pw != .keep then ["power"] else []) =
      (if pw = .UNCHANGED then [] else ["power"]) := by cases pw <;> rfl
  have h2 : (if meaningAcMode5 md != .keep then ["mode"] else []) =
      (if md = .UNCHANGED then [] else ["mode"]) := by cases md <;> rfl
  have h3 : (if meaningAcFan5 fs != .keep then ["fan_speed"] else []) =
      (if fs = .UNCHANGED then [] else ["fan_speed"]) := by cases fs <;> rfl
  have h4 : (if meaningAcSetpoint5 sp != .keep then ["setpoint"] else []) =
      (if sp = none then [] else ["setpoint"]) := by
    cases sp with
    | none => rfl
    | some v => simp [meaningAcSetpoint5]
  show (if meaningAcPower5 pw != .keep then ["power"] else []) ++
      (if meaningAcMode5 md != .keep then ["mode"] else []) ++
      (if meaningAcFan5 fs != .keep then ["fan_speed"] else []) ++
      (if meaningAcSetpoint5 sp != .keep then ["setpoint"] else []) = _
  rw [h1, h2, h3, h4]

theorem changes_exactly_C022 (m : C022.Msg) (hwf : C022.WF m) (hcount : m.ac_control.length < 65536) (bs : Bytes)
    (h : encodeMsg (.controlStatus (.acCtrl m)) = .ok bs) :
    (Spec.At5.readAcControl bs).map (·.map (·.changes)) = some (m.ac_control.map fun c =>
      (if c.power = .UNCHANGED then [] else ["power"]) ++
      (if c.mode = .UNCHANGED then [] else ["mode"]) ++
      (if c.fan_speed = .UNCHANGED then [] else ["fan_speed"]) ++
      (if c.set_point = none then [] else ["setpoint"])) := by
  rw [encode_reads_C022' m hwf hcount bs h]
  simp [meaningC022, Function.comp_def, changes_meaningAcRec]

/-- (c) the set-point (tenths) is read back exactly over the whole encodable range 10.0 … 35.5 °C -/
theorem value_exact_C022 (ac : Nat) (pw : AcPowerControl) (md : AcModeControl) (fs : AcFanSpeedControl)
    (sp : Int) (hac : ac < 16) (h1 : 100 ≤ sp) (h2 : sp ≤ 355) (bs : Bytes)
    (h : encodeMsg (.controlStatus (.acCtrl ⟨[⟨ac, pw, md, fs, some sp⟩]⟩)) = .ok bs) :
    (Spec.At5.readAcControl bs).map (·.map (·.setpoint)) = some [.set sp] := by
  have hwf : C022.WF ⟨[⟨ac, pw, md, fs, some sp⟩]⟩ := by
    intro c hc; simp only [List.mem_singleton] at hc; subst hc
    refine ⟨hac, ?_⟩
    intro v hv
    simp only [Option.some.injEq] at hv; subst hv; exact ⟨h1, h2⟩
  rw [encode_reads_C022' _ hwf (show 1 < 65536 by decide) bs h]; rfl

/-- boundary of the set-point byte: below 10.0 °C (except exactly 0.0, see below) and above 35.5 °C the encoder
    refuses (`struct.error`), nothing is transmitted -/
theorem value_boundary_C022_unencodable (ac : Nat) (pw : AcPowerControl) (md : AcModeControl)
    (fs : AcFanSpeedControl) (sp : Int) (h : sp < 100 ∨ 355 < sp) (h0 : sp ≠ 0) :
    C022.encode ⟨[⟨ac, pw, md, fs, some sp⟩]⟩ = .error .structError := by
  have hp : packB (encodeSetPoint sp) = .error .structError := by
    unfold packB encodeSetPoint; rw [if_neg (by omega)]
  simp only [C022.encode, C022.encRecs, C022.encRec, C022.encSetPoint, h0, ↓reduceIte, bind, Except.bind, hp]

/-- … but a set-point of exactly 0.0 (outside `WF`) is neither refused nor transmitted as a value: the encoder's
    `if set_point:` treats it as absent and the vendor reading of the record is "keep" -/
theorem value_boundary_C022_zero_refuted :
    encodeMsg (.controlStatus (.acCtrl ⟨[⟨0, .UNCHANGED, .UNCHANGED, .UNCHANGED, some 0⟩]⟩)) =
      .ok [0x22, 0, 0, 0, 0, 4, 0, 1, 0x00, 0xFF, 0x00, 0xFF] ∧
    (Spec.At5.readAcControl [0x22, 0, 0, 0, 0, 4, 0, 1, 0x00, 0xFF, 0x00, 0xFF]).map
      (·.map fun c => (c.setpoint, c.changes)) = some [(.keep, [])] ∧
    ¬ C022.WF ⟨[⟨0, .UNCHANGED, .UNCHANGED, .UNCHANGED, some 0⟩]⟩ := by
  refine ⟨by decide, by decide, ?_⟩
  intro h
  have := (h _ (List.mem_singleton.mpr rfl)).2 0 rfl
  omega

end C022

end G5

/-! ## The frame clause

`frameOf pid m` is the model of `send(m)` + `_write` (size → header factory with packet id `pid` → header encoder →
message encoder → CRC).  Everything below is derived from the existing frame lemmas (`Registry4/5.frameOf_inv`,
`msg_ok`, `Frame.at4/at5_encode_eq`, `Frame.frame_eq` which already states the check bytes as `Spec.checkBytes`). -/

theorem checkBytes_length (bs : List Nat) : (Spec.checkBytes bs).length = 2 := rfl

theorem checkBytes_allBytes (bs : List Nat) (h : ∀ b ∈ bs, b < 256) : AllBytes (Spec.checkBytes bs) := by
  have hlt := Crc.crc16Modbus_lt bs h
  intro b hb
  simp only [Spec.checkBytes, List.mem_cons, List.not_mem_nil, or_false] at hb
  omega

section Frame4
open PyAirtouch.Model.At4 PyAirtouch.Model.At4.Registry

/-- the first address byte the AirTouch 4 send path writes: 0x90 for the extended type 0x1F, else 0x80 -/
def toAddr (messageId : Nat) : Nat := if messageId = 0x1F then 0x90 else 0x80

/-- address, packet id, type, length (high byte first): the six bytes between the header and the data -/
def innerHeader (pid messageId len : Nat) : Bytes :=
  [toAddr messageId, 0xB0, pid, messageId, len / 256 % 256, len % 256]

theorem direction_to (id pid len : Nat) (data crc : List Nat) :
    (⟨toAddr id, 0xB0, pid, id, len, data, crc⟩ : Spec.At4.Frame).direction = .toAirTouch := by
  unfold Spec.At4.Frame.direction toAddr
  split <;> simp [Spec.At4.addrClient, Spec.At4.addrAirTouch, Spec.At4.addrAirTouchExtended]

/-- the 0x90 address is used for, and only for, type 0x1F -/
theorem addressOk_to (id pid len : Nat) (data crc : List Nat) :
    (⟨toAddr id, 0xB0, pid, id, len, data, crc⟩ : Spec.At4.Frame).addressOk = true := by
  simp only [Spec.At4.Frame.addressOk, Spec.At4.Frame.extendedAddr, direction_to]
  unfold toAddr
  by_cases h : id = 0x1F <;> simp [h, Spec.At4.typeExtended, Spec.At4.addrAirTouchExtended]

/-- **frame clause, AirTouch 4, byte level**: the transmitted frame is `55 55 | to from id type len_hi len_lo |
    payload | check`, with to = 0x90 iff the type is 0x1F (else 0x80), from = 0xB0, the length field = the number of
    payload bytes, and the check bytes = the vendor CRC16 (high byte first) of address … payload -/
theorem frame_bytes_g4 (pid : Nat) (m : Msg) (hwf : WFMsg m) (fr : Bytes) (h : frameOf pid m = .ok fr) :
    ∃ payload, encodeMsg m = .ok payload ∧ AllBytes payload ∧ payload.length < 65536 ∧ pid < 256 ∧
      m.messageId < 256 ∧
      fr = [0x55, 0x55] ++ innerHeader pid m.messageId payload.length ++ payload ++
            Spec.checkBytes (innerHeader pid m.messageId payload.length ++ payload) := by
  obtain ⟨n, hb, ck, payload, hs, he, hm, hf⟩ := Registry4.frameOf_inv pid m fr h
  obtain ⟨hsz, -, hbytes⟩ := Registry4.msg_ok m hwf payload hm
  have hn : n = payload.length := RegistryCommon.except_ok_inj (hs.symm.trans hsz)
  subst hn
  obtain ⟨hwfh, hck, hhb⟩ := Frame.at4_encode_eq _ hb ck he
  obtain ⟨-, -, -, hckb⟩ := Frame.at4_hdr_checksum_span _ hb ck hwfh he
  have hfr := Frame.frame_eq hb ck payload fr hckb hbytes hf
  obtain ⟨-, -, hp, hid, hl⟩ := hwfh
  refine ⟨payload, hm, hbytes, hl, hp, hid, ?_⟩
  have hck' : ck = innerHeader pid m.messageId payload.length := by rw [hck]; rfl
  rw [hfr, hhb, hck']

/-- the individual clauses of the property, on the bytes of the frame -/
theorem frame_fields_g4 (pid : Nat) (m : Msg) (hwf : WFMsg m) (fr : Bytes) (h : frameOf pid m = .ok fr) :
    ∃ payload, encodeMsg m = .ok payload ∧
      fr.take 2 = [0x55, 0x55] ∧
      fr.getD 2 0 = (if m.messageId = 0x1F then 0x90 else 0x80) ∧
      fr.getD 3 0 = 0xB0 ∧ fr.getD 4 0 = pid ∧ fr.getD 5 0 = m.messageId ∧
      be16 (fr.getD 6 0) (fr.getD 7 0) = payload.length ∧
      (fr.drop 8).take payload.length = payload ∧
      fr.length = 8 + payload.length + 2 ∧
      fr.drop (8 + payload.length) = Spec.checkBytes ((fr.drop 2).take (6 + payload.length)) := by
  obtain ⟨payload, hm, -, hl, -, -, rfl⟩ := frame_bytes_g4 pid m hwf fr h
  refine ⟨payload, hm, rfl, rfl, rfl, rfl, rfl, ?_, ?_, ?_, ?_⟩
  · simp only [innerHeader, List.cons_append, List.nil_append, List.getD_cons_succ, List.getD_cons_zero, be16]
    omega
  · simp [innerHeader]
  · simp only [innerHeader, List.cons_append, List.nil_append, List.length_cons, List.length_append,
      checkBytes_length]
    omega
  · have e : ∀ (c : Bytes), ([0x55, 0x55] ++ innerHeader pid m.messageId payload.length ++ payload ++ c) =
        ([0x55, 0x55] ++ innerHeader pid m.messageId payload.length ++ payload) ++ c := fun c => rfl
    have l8 : ([0x55, 0x55] ++ innerHeader pid m.messageId payload.length ++ payload).length =
        8 + payload.length := by simp [innerHeader]; omega
    have l6 : (innerHeader pid m.messageId payload.length ++ payload).length = 6 + payload.length := by
      simp [innerHeader]; omega
    have d2 : ∀ (c : Bytes), ([0x55, 0x55] ++ innerHeader pid m.messageId payload.length ++ payload ++ c).drop 2 =
        (innerHeader pid m.messageId payload.length ++ payload) ++ c := fun c => by simp
    rw [d2, ← l6, List.take_left, e, ← l8, List.drop_left]

/-- **frame clause, AirTouch 4, in the vendor reader's words**: the transmitted bytes are exactly one frame of the
    document (section 3) with good check bytes, a coherent address, direction "to AirTouch", the packet id, the
    message type and the payload as data -/
theorem frame_reads_g4 (pid : Nat) (m : Msg) (hwf : WFMsg m) (fr : Bytes) (h : frameOf pid m = .ok fr) :
    ∃ payload f, encodeMsg m = .ok payload ∧ Spec.At4.readFrame fr = some f ∧
      f.addr1 = (if m.messageId = 0x1F then 0x90 else 0x80) ∧ f.addr2 = 0xB0 ∧ f.msgId = pid ∧
      f.msgType = m.messageId ∧ f.dataLen = payload.length ∧ f.data = payload ∧
      Spec.At4.frameOk f = true ∧ f.addressOk = true ∧ f.direction = .toAirTouch := by
  obtain ⟨payload, hm, hbytes, hl, hp, hid, rfl⟩ := frame_bytes_g4 pid m hwf fr h
  have hto : toAddr m.messageId < 256 := by unfold toAddr; split <;> decide
  have hih : AllBytes (innerHeader pid m.messageId payload.length) := by
    intro b hb
    simp only [innerHeader, List.mem_cons, List.not_mem_nil, or_false] at hb
    omega
  have hckd : AllBytes (innerHeader pid m.messageId payload.length ++ payload) :=
    RegistryCommon.allBytes_append.mpr ⟨hih, hbytes⟩
  have hcrc := checkBytes_allBytes _ hckd
  have hall : Spec.At4.allBytes ([0x55, 0x55] ++ innerHeader pid m.messageId payload.length ++ payload ++
      Spec.checkBytes (innerHeader pid m.messageId payload.length ++ payload)) = true := by
    simp only [Spec.At4.allBytes, List.all_eq_true, decide_eq_true_eq]
    intro b hb
    simp only [List.append_assoc, List.mem_append] at hb
    rcases hb with hb | hb | hb | hb
    · simp only [List.mem_cons, List.not_mem_nil, or_false] at hb; omega
    · exact hih b hb
    · exact hbytes b hb
    · exact hcrc b hb
  have hlen : payload.length / 256 % 256 * 256 + payload.length % 256 = payload.length := by omega
  obtain ⟨crc, hcrcdef⟩ : ∃ crc, crc = Spec.checkBytes (innerHeader pid m.messageId payload.length ++ payload) :=
    ⟨_, rfl⟩
  rw [← hcrcdef] at hall ⊢
  have hcl : crc.length = 2 := by rw [hcrcdef]; rfl
  have hpre : Spec.At4.readFramePrefix ([0x55, 0x55] ++ innerHeader pid m.messageId payload.length ++ payload ++ crc) =
      some ({ addr1 := toAddr m.messageId, addr2 := 0xB0, msgId := pid, msgType := m.messageId,
              dataLen := payload.length, data := payload, check := crc }, []) := by
    have hall' := hall
    simp only [innerHeader, List.cons_append, List.nil_append] at hall'
    simp only [innerHeader, List.cons_append, List.nil_append, Spec.At4.readFramePrefix, hlen, hall',
      Spec.At4.headerByte, List.length_append, hcl, Nat.le_refl, and_self, ↓reduceIte, List.take_left',
      List.drop_left', List.take_of_length_le (Nat.le_of_eq hcl), Nat.add_comm payload.length 2]
    simp [hcl]
    omega
  refine ⟨payload, (⟨toAddr m.messageId, 0xB0, pid, m.messageId, payload.length, payload, crc⟩ : Spec.At4.Frame), hm,
    by simp only [Spec.At4.readFrame, hpre], rfl, rfl, rfl, rfl, rfl, rfl, ?_, ?_, ?_⟩
  · have e : payload.length / 256 = payload.length / 256 % 256 := by omega
    simp only [Spec.At4.frameOk, Spec.At4.Frame.checkedBytes, hcrcdef, innerHeader, beq_iff_eq]
    rw [← e]
  · exact addressOk_to _ _ _ _ _
  · exact direction_to _ _ _ _ _

end Frame4

/-! ### AirTouch 4 control messages, end to end: public message object → transmitted frame → vendor reading -/

section Wire4
open PyAirtouch.Model.At4 PyAirtouch.Model.At4.Registry

/-- the whole frame the send path writes for a group control message, read by the vendor reader (frame with good
    check, address 0x80 0xB0, type 0x2A, 4 data bytes), is the command `meaning2A m` -/
theorem wire_2A (pid : Nat) (hpid : pid < 256) (m : X2A.Msg) (hwf : X2A.WF m) :
    ∃ fr, frameOf pid (.groupCtrl m) = .ok fr ∧ fr.length = 14 ∧ fr.getD 2 0 = 0x80 ∧ fr.getD 3 0 = 0xB0 ∧
      Spec.At4.readWire fr = some (.groupControl (meaning2A m)) := by
  have hwfm : WFMsg (.groupCtrl m) := hwf
  obtain ⟨fr, hfr⟩ := Registry4.frameOf_ok (.groupCtrl m) pid hwfm hpid (by
    intro n hn; cases hn; exact (by decide : (4 : Nat) < 65536))
  obtain ⟨payload, f, hm, hrf, ha1, ha2, -, hty, -, hdata, hok, haddr, hdir⟩ := frame_reads_g4 pid _ hwfm fr hfr
  obtain ⟨payload', hm', -, h2, h3, -, -, -, -, hlen, -⟩ := frame_fields_g4 pid _ hwfm fr hfr
  cases hm.symm.trans hm'
  have hread := encode_reads_2A' m payload hm
  have hpl : payload.length = 4 := At4X2A.encode_length m payload hm
  refine ⟨fr, hfr, by rw [hlen, hpl], h2, h3, ?_⟩
  have hmt : Spec.At4.readMsgType f.msgType = .groupControl := by rw [hty]; rfl
  simp only [Spec.At4.readWire, hrf, Option.bind_some, Spec.At4.readMessage, hok, haddr, hdir, Bool.and_self,
    Bool.not_true, Bool.false_eq_true, ↓reduceIte, Spec.At4.readMessageToAirTouch, hmt, hdata, hread,
    Option.map_some]

/-- the same for an AirTouch 4 AC control message (type 0x2C) -/
theorem wire_2C (pid : Nat) (hpid : pid < 256) (m : X2C.Msg) (hwf : X2C.WF m) :
    ∃ fr, frameOf pid (.acCtrl m) = .ok fr ∧ fr.length = 14 ∧ fr.getD 2 0 = 0x80 ∧ fr.getD 3 0 = 0xB0 ∧
      Spec.At4.readWire fr = some (.acControl (meaning2C m)) := by
  have hwfm : WFMsg (.acCtrl m) := hwf
  obtain ⟨fr, hfr⟩ := Registry4.frameOf_ok (.acCtrl m) pid hwfm hpid (by
    intro n hn; cases hn; exact (by decide : (4 : Nat) < 65536))
  obtain ⟨payload, f, hm, hrf, ha1, ha2, -, hty, -, hdata, hok, haddr, hdir⟩ := frame_reads_g4 pid _ hwfm fr hfr
  obtain ⟨payload', hm', -, h2, h3, -, -, -, -, hlen, -⟩ := frame_fields_g4 pid _ hwfm fr hfr
  cases hm.symm.trans hm'
  have hread := encode_reads_2C' m hwf payload hm
  have hpl : payload.length = 4 := At4X2C.encode_length m payload hm
  refine ⟨fr, hfr, by rw [hlen, hpl], h2, h3, ?_⟩
  have hmt : Spec.At4.readMsgType f.msgType = .acControl := by rw [hty]; rfl
  simp only [Spec.At4.readWire, hrf, Option.bind_some, Spec.At4.readMessage, hok, haddr, hdir, Bool.and_self,
    Bool.not_true, Bool.false_eq_true, ↓reduceIte, Spec.At4.readMessageToAirTouch, hmt, hdata, hread,
    Option.map_some]

end Wire4

/-! ### AirTouch 5 frames

The model's (and the implementation's) AirTouch 5 header is 20 bytes: a 10-byte outer wrapper that the vendor document
does not describe (`55 55 55 AB 00 00 | 10+len+2 | 10+len+2`, see the header comment of `Spec/At5Read.lean`)
followed by the documented package `55 55 55 AA | address | id | type | length | data | check`.  The vendor reader is
therefore applied to the frame without its first 10 bytes.  (The "redundant bytes" rule 3.h is implemented by
neither side.) -/

section Frame5
open PyAirtouch.Model.At5 PyAirtouch.Model.At5.Registry

/-- the undocumented outer wrapper in front of the documented package -/
def outerWrapper (len : Nat) : Bytes :=
  [0x55, 0x55, 0x55, 0xAB, 0, 0] ++ be16Bytes (10 + len + 2) ++ be16Bytes (10 + len + 2)

theorem outerWrapper_length (len : Nat) : (outerWrapper len).length = 10 := rfl

/-- **frame clause, AirTouch 5, byte level**: after the 10-byte outer wrapper the transmitted frame is
    `55 55 55 AA | to from id type len_hi len_lo | payload | check`, with to = 0x90 iff the type is 0x1F (else 0x80),
    from = 0xB0, the length field = the number of payload bytes, and the check bytes = the vendor CRC16 (high byte
    first) of address … payload -/
theorem frame_bytes_g5 (pid : Nat) (m : Msg) (hwf : WFMsg m) (fr : Bytes) (h : frameOf pid m = .ok fr) :
    ∃ payload, encodeMsg m = .ok payload ∧ AllBytes payload ∧ payload.length < 65536 ∧ pid < 256 ∧
      m.messageId < 256 ∧
      fr = outerWrapper payload.length ++ [0x55, 0x55, 0x55, 0xAA] ++ innerHeader pid m.messageId payload.length ++
            payload ++ Spec.checkBytes (innerHeader pid m.messageId payload.length ++ payload) := by
  obtain ⟨n, hb, ck, payload, hs, he, hm, hf⟩ := Registry5.frameOf_inv pid m fr h
  obtain ⟨hsz, -, hbytes⟩ := Registry5.msg_ok m hwf payload hm
  have hn : n = payload.length := RegistryCommon.except_ok_inj (hs.symm.trans hsz)
  subst hn
  obtain ⟨hwfh, hck, hhb⟩ := Frame.at5_encode_eq _ hb ck he
  obtain ⟨-, -, -, hckb⟩ := Frame.at5_hdr_checksum_span _ hb ck hwfh he
  have hfr := Frame.frame_eq hb ck payload fr hckb hbytes hf
  obtain ⟨-, -, hp, hid, hl, -⟩ := hwfh
  refine ⟨payload, hm, hbytes, hl, hp, hid, ?_⟩
  have hck' : ck = innerHeader pid m.messageId payload.length := by rw [hck]; rfl
  rw [hfr, hhb, hck']
  rfl

/-- the individual clauses of the property, on the bytes of the frame (offsets 10 … are those of the documented
    package: 14 = to-address, 15 = from-address, 16 = id, 17 = type, 18-19 = length, 20 … = data) -/
theorem frame_fields_g5 (pid : Nat) (m : Msg) (hwf : WFMsg m) (fr : Bytes) (h : frameOf pid m = .ok fr) :
    ∃ payload, encodeMsg m = .ok payload ∧
      (fr.drop 10).take 4 = [0x55, 0x55, 0x55, 0xAA] ∧
      fr.getD 14 0 = (if m.messageId = 0x1F then 0x90 else 0x80) ∧
      fr.getD 15 0 = 0xB0 ∧ fr.getD 16 0 = pid ∧ fr.getD 17 0 = m.messageId ∧
      be16 (fr.getD 18 0) (fr.getD 19 0) = payload.length ∧
      (fr.drop 20).take payload.length = payload ∧
      fr.length = 20 + payload.length + 2 ∧
      fr.drop (20 + payload.length) = Spec.checkBytes ((fr.drop 14).take (6 + payload.length)) := by
  obtain ⟨payload, hm, -, hl, -, -, rfl⟩ := frame_bytes_g5 pid m hwf fr h
  refine ⟨payload, hm, rfl, rfl, rfl, rfl, rfl, ?_, ?_, ?_, ?_⟩
  · simp only [outerWrapper, be16Bytes, innerHeader, List.cons_append, List.nil_append, List.getD_cons_succ,
      List.getD_cons_zero, be16]
    omega
  · simp [outerWrapper, be16Bytes, innerHeader]
  · simp only [outerWrapper, be16Bytes, innerHeader, List.cons_append, List.nil_append, List.length_cons,
      List.length_append, checkBytes_length]
    omega
  · have l20 : (outerWrapper payload.length ++ [0x55, 0x55, 0x55, 0xAA] ++
        innerHeader pid m.messageId payload.length ++ payload).length = 20 + payload.length := by
      simp [outerWrapper, be16Bytes, innerHeader]; omega
    have l6 : (innerHeader pid m.messageId payload.length ++ payload).length = 6 + payload.length := by
      simp [innerHeader]; omega
    have d14 : ∀ (c : Bytes), (outerWrapper payload.length ++ [0x55, 0x55, 0x55, 0xAA] ++
        innerHeader pid m.messageId payload.length ++ payload ++ c).drop 14 =
        (innerHeader pid m.messageId payload.length ++ payload) ++ c := fun c => by
      simp [outerWrapper, be16Bytes]
    rw [d14, ← l6, List.take_left, ← l20, List.drop_left]

/-- **frame clause, AirTouch 5, in the vendor reader's words**: behind the outer wrapper the transmitted bytes are
    exactly one package of the document (section 3) with good check bytes, the address `to 0xB0`, the packet id, the
    message type and the payload as data -/
theorem frame_reads_g5 (pid : Nat) (m : Msg) (hwf : WFMsg m) (fr : Bytes) (h : frameOf pid m = .ok fr) :
    ∃ payload f, encodeMsg m = .ok payload ∧ fr.take 10 = outerWrapper payload.length ∧
      Spec.At5.readFrame (fr.drop 10) = some f ∧
      f.address = [if m.messageId = 0x1F then 0x90 else 0x80, 0xB0] ∧ f.msgId = pid ∧
      f.msgType = m.messageId ∧ f.dataLen = payload.length ∧ f.data = payload ∧
      Spec.At5.frameOk (fr.drop 10) = true := by
  obtain ⟨payload, hm, hbytes, hl, hp, hid, rfl⟩ := frame_bytes_g5 pid m hwf fr h
  obtain ⟨crc, hcrcdef⟩ : ∃ crc, crc = Spec.checkBytes (innerHeader pid m.messageId payload.length ++ payload) :=
    ⟨_, rfl⟩
  rw [← hcrcdef]
  have hcl : crc.length = 2 := by rw [hcrcdef]; rfl
  have hlen : payload.length / 256 % 256 * 256 + payload.length % 256 = payload.length := by omega
  have hdrop : (outerWrapper payload.length ++ [0x55, 0x55, 0x55, 0xAA] ++
      innerHeader pid m.messageId payload.length ++ payload ++ crc).drop 10 =
      [0x55, 0x55, 0x55, 0xAA] ++ innerHeader pid m.messageId payload.length ++ payload ++ crc := by
    simp [outerWrapper, be16Bytes]
  have htake : (outerWrapper payload.length ++ [0x55, 0x55, 0x55, 0xAA] ++
      innerHeader pid m.messageId payload.length ++ payload ++ crc).take 10 = outerWrapper payload.length := by
    simp [outerWrapper, be16Bytes]
  have hrf : Spec.At5.readFrame ([0x55, 0x55, 0x55, 0xAA] ++ innerHeader pid m.messageId payload.length ++
      payload ++ crc) =
      some ⟨[toAddr m.messageId, 0xB0], pid, m.messageId, payload.length, payload, crc⟩ := by
    simp only [innerHeader, List.cons_append, List.nil_append, Spec.At5.readFrame, Spec.At5.be16, hlen,
      Spec.At5.header, List.length_append, hcl, true_and, ↓reduceIte, List.take_left', List.drop_left']
  refine ⟨payload, _, hm, htake, by rw [hdrop]; exact hrf, rfl, rfl, rfl, rfl, rfl, ?_⟩
  rw [hdrop]
  have hck : Spec.At5.checkedBytes ([0x55, 0x55, 0x55, 0xAA] ++ innerHeader pid m.messageId payload.length ++
      payload ++ crc) = innerHeader pid m.messageId payload.length ++ payload := by
    have l6 : (innerHeader pid m.messageId payload.length ++ payload).length = 6 + payload.length := by
      simp [innerHeader]; omega
    have e : ([0x55, 0x55, 0x55, 0xAA] ++ innerHeader pid m.messageId payload.length ++ payload ++ crc).length - 6 =
        (innerHeader pid m.messageId payload.length ++ payload).length := by
      simp [innerHeader, hcl]
    have d4 : ([0x55, 0x55, 0x55, 0xAA] ++ innerHeader pid m.messageId payload.length ++ payload ++ crc).drop 4 =
        (innerHeader pid m.messageId payload.length ++ payload) ++ crc := by simp
    rw [Spec.At5.checkedBytes, e, d4, List.take_left]
  simp only [Spec.At5.frameOk, hrf, hck]
  rw [← hcrcdef]
  exact beq_self_eq_true _

end Frame5

/-! ### AirTouch 5 control messages, end to end -/

section Wire5
open PyAirtouch.Model.At5 PyAirtouch.Model.At5.Registry

/-- the whole frame the send path writes for a zone control message: behind the outer wrapper a package of the
    document with good check, address 0x80 0xB0, type 0xC0, whose data the vendor reads as the zone control commands
    `meaningC020 m` (the bound on the number of records is what fits the 16-bit outer length field) -/
theorem wire_C020 (pid : Nat) (hpid : pid < 256) (m : C020.Msg) (hwf : C020.WF m)
    (hdoc : ∀ z ∈ m.zone_control, DocRange020 z) (hcount : 8 + 4 * m.zone_control.length + 12 < 65536) :
    ∃ fr f, frameOf pid (.controlStatus (.zoneCtrl m)) = .ok fr ∧
      Spec.At5.readFrame (fr.drop 10) = some f ∧ Spec.At5.frameOk (fr.drop 10) = true ∧
      f.address = Spec.At5.addrToAirtouch ∧ f.msgId = pid ∧
      Spec.At5.MsgType.ofCode f.msgType = .controlStatus ∧
      Spec.At5.readControlStatus f.data = some (.zoneControl (meaningC020 m)) := by
  have hc : m.zone_control.length < 65536 := by omega
  have hwfm : WFMsg (.controlStatus (.zoneCtrl m)) := ⟨hwf, hc⟩
  obtain ⟨bs, hbs, hbl, -, hcs⟩ := encode_reads_C020 m hwf hdoc hc
  obtain ⟨fr, hfr⟩ := Registry5.frameOf_ok _ pid hwfm hpid (by
    intro n hn
    have := (Registry5.msg_ok _ hwfm bs hbs).1
    cases hn.symm.trans this
    omega)
  obtain ⟨payload, f, hm, -, hrf, ha, hid, hty, -, hdata, hok⟩ := frame_reads_g5 pid _ hwfm fr hfr
  cases hm.symm.trans hbs
  refine ⟨fr, f, hfr, hrf, hok, ha, hid, by rw [hty]; rfl, by rw [hdata]; exact hcs⟩

/-- the same for an AirTouch 5 AC control message -/
theorem wire_C022 (pid : Nat) (hpid : pid < 256) (m : C022.Msg) (hwf : C022.WF m)
    (hcount : 8 + 4 * m.ac_control.length + 12 < 65536) :
    ∃ fr f, frameOf pid (.controlStatus (.acCtrl m)) = .ok fr ∧
      Spec.At5.readFrame (fr.drop 10) = some f ∧ Spec.At5.frameOk (fr.drop 10) = true ∧
      f.address = Spec.At5.addrToAirtouch ∧ f.msgId = pid ∧
      Spec.At5.MsgType.ofCode f.msgType = .controlStatus ∧
      Spec.At5.readControlStatus f.data = some (.acControl (meaningC022 m)) := by
  have hc : m.ac_control.length < 65536 := by omega
  have hwfm : WFMsg (.controlStatus (.acCtrl m)) := ⟨hwf, hc⟩
  obtain ⟨bs, hbs, hbl, -, hcs⟩ := encode_reads_C022 m hwf hc
  obtain ⟨fr, hfr⟩ := Registry5.frameOf_ok _ pid hwfm hpid (by
    intro n hn
    have := (Registry5.msg_ok _ hwfm bs hbs).1
    cases hn.symm.trans this
    omega)
  obtain ⟨payload, f, hm, -, hrf, ha, hid, hty, -, hdata, hok⟩ := frame_reads_g5 pid _ hwfm fr hfr
  cases hm.symm.trans hbs
  refine ⟨fr, f, hfr, hrf, hok, ha, hid, by rw [hty]; rfl, by rw [hdata]; exact hcs⟩

end Wire5

end PyAirtouch.Lemmas.SpecCmd
