import PyAirtouch.Lemmas.Api5
/-!
# Reference functions used in the statements of the AirTouch 5 API property theorems (`Props.C10At5`, `Props.C11At5`)

Written by hand from the names of the protocol values and the docstrings of `pyairtouch.api`; they do not look at
the generated tables.
-/
namespace PyAirtouch.Lemmas.Api5
open PyAirtouch.Model PyAirtouch.Model.Api5
open PyAirtouch.Model.TimerCommon (AcTimerState AcTimerStatusData)
open PyAirtouch.Gen PyAirtouch.Gen.Api5

/-- the mode a user selected: the two automatic variants are AUTO -/
def selectedModeSpec : Gen.At5.XC023AcStatus.AcMode → ApiEnums.AcMode
  | .AUTO | .AUTO_HEAT | .AUTO_COOL => .AUTO
  | .HEAT => .HEAT | .DRY => .DRY | .FAN => .FAN | .COOL => .COOL

/-- the mode the unit is running in: the automatic variants name it -/
def activeModeSpec : Gen.At5.XC023AcStatus.AcMode → ApiEnums.AcMode
  | .AUTO => .AUTO | .AUTO_HEAT => .HEAT | .AUTO_COOL => .COOL
  | .HEAT => .HEAT | .DRY => .DRY | .FAN => .FAN | .COOL => .COOL

/-- the fan speed a user selected: every Intelligent Auto variant is INTELLIGENT_AUTO -/
def selectedFanSpec : Gen.At5.XC023AcStatus.AcFanSpeed → ApiEnums.AcFanSpeed
  | .AUTO => .AUTO | .QUIET => .QUIET | .LOW => .LOW | .MEDIUM => .MEDIUM | .HIGH => .HIGH
  | .POWERFUL => .POWERFUL | .TURBO => .TURBO
  | .INTELLIGENT_AUTO_QUIET | .INTELLIGENT_AUTO_LOW | .INTELLIGENT_AUTO_MEDIUM | .INTELLIGENT_AUTO_HIGH
  | .INTELLIGENT_AUTO_POWERFUL | .INTELLIGENT_AUTO_TURBO => .INTELLIGENT_AUTO

/-- the speed the fan is running at: `INTELLIGENT_AUTO_X ↦ X` -/
def concreteFanSpec : Gen.At5.XC023AcStatus.AcFanSpeed → ApiEnums.AcFanSpeed
  | .AUTO => .AUTO | .QUIET | .INTELLIGENT_AUTO_QUIET => .QUIET | .LOW | .INTELLIGENT_AUTO_LOW => .LOW
  | .MEDIUM | .INTELLIGENT_AUTO_MEDIUM => .MEDIUM | .HIGH | .INTELLIGENT_AUTO_HIGH => .HIGH
  | .POWERFUL | .INTELLIGENT_AUTO_POWERFUL => .POWERFUL | .TURBO | .INTELLIGENT_AUTO_TURBO => .TURBO

/-- what a timer control for `tt := t` carries for the two timers -/
def timerPair (a : AcObj) (tt : ApiEnums.AcTimerType) (t : AcTimerState) : AcTimerState × AcTimerState :=
  match tt with
  | .ON_TIMER => (t, a.timer.off_timer)
  | .OFF_TIMER => (a.timer.on_timer, t)

end PyAirtouch.Lemmas.Api5
