import PyAirtouch.Lemmas.Api4Reach
import PyAirtouch.Props.C09At4
/-!
# C09 (AirTouch 4), continued: the handshake end to end, from a fresh object

`Props/C09At4` states the handshake stage by stage.  Here the stages are composed into one statement about the op
list

    init, conn 1, n₁, ⟨version⟩, n₂, ⟨names⟩, n₃, ⟨abilities⟩, n₄, ⟨AC status⟩, n₅, ⟨timers⟩, n₆, ⟨group status⟩, n₇

run on the fresh object `State.initial`, for every consistent installation description (`Consistent`) and arbitrary
noise `n₁ … n₇` (`Junk st nᵢ`: arriving messages / frames / connection losses none of which is of the class that
answers the request outstanding in state `st`; in `CONNECTED` that is any passive op list).

`exposedModel`, `describedModel`, `nameOf`, `Consistent` are defined in `Lemmas/Api4Reach`; the order of an
air-conditioner's zones is `Lemmas.Api4.describedIds` (see `describedIds_cases_at4`, `pySetOrder_large_at4`).
-/
set_option linter.unusedVariables false
set_option linter.unusedSimpArgs false
namespace PyAirtouch.Props.C09
open PyAirtouch.Model PyAirtouch.Model.Api4 PyAirtouch.Model.At4 PyAirtouch.Lemmas.Api4 PyAirtouch.Gen
open PyAirtouch.Model.TimerCommon (AcTimerState AcTimerStatusData)
open PyAirtouch.Lemmas.Api4Reach

/- definitions and auxiliary lemmas live in `PyAirtouch.Props.C09.At4`; the theorems `…_at4` in `PyAirtouch.Props.C09` -/
namespace At4

/-- the six answers of the console -/
structure Answers where
  version : FF30.ConsoleVersionMessage
  names : List (Nat × Bytes)
  abilities : List FF11.AcAbility
  acStatus : List X2D.AcStatusData
  timers : List AcTimerStatusData
  groups : List X2B.GroupStatusData

def Answers.verMsg (a : Answers) : RMsg := .extended (.consoleVer (.message a.version))
def Answers.namesMsg (a : Answers) : RMsg := .extended (.groupNames (.message { group_names := a.names }))
def Answers.abilityMsg (a : Answers) : RMsg := .extended (.acAbility (.ability a.abilities))
def Answers.acStatusMsg (a : Answers) : RMsg := .acStatus (.status a.acStatus)
def Answers.timerMsg (a : Answers) : RMsg := .acTimerStatus (.status a.timers)
def Answers.groupMsg (a : Answers) : RMsg := .groupStatus (.status a.groups)

/-- what arrives in between -/
structure Noise where
  n₁ : List Op
  n₂ : List Op
  n₃ : List Op
  n₄ : List Op
  n₅ : List Op
  n₆ : List Op
  n₇ : List Op

/-- each `nᵢ` contains only passive ops none of which delivers the answer awaited at that point -/
def Noise.Valid (z : Noise) : Prop :=
  Junk .INIT_VERSION z.n₁ ∧ Junk .INIT_GROUP_NAMES z.n₂ ∧ Junk .INIT_AC_ABILITY z.n₃ ∧ Junk .INIT_AC_STATUS z.n₄ ∧
  Junk .INIT_AC_TIMER_STATUS z.n₅ ∧ Junk .INIT_GROUP_STATUS z.n₆ ∧ Junk .CONNECTED z.n₇

def Noise.none : Noise := ⟨[], [], [], [], [], [], []⟩

/-- the connection is lost at some point before the last answer -/
def Noise.lostConn (z : Noise) : Bool := (z.n₁ ++ z.n₂ ++ z.n₃ ++ z.n₄ ++ z.n₅ ++ z.n₆).any dropsConn

/-- everything up to the last answer -/
def beforeLast (a : Answers) (z : Noise) : List Op :=
  [.init, .conn true] ++ z.n₁ ++ [.recv a.verMsg] ++ z.n₂ ++ [.recv a.namesMsg] ++ z.n₃ ++ [.recv a.abilityMsg] ++
    z.n₄ ++ [.recv a.acStatusMsg] ++ z.n₅ ++ [.recv a.timerMsg] ++ z.n₆

/-- the whole op list -/
def handshakeOps (a : Answers) (z : Noise) : List Op := beforeLast a z ++ [.recv a.groupMsg] ++ z.n₇

/-! ### the stages as `hsScript` -/

def steps2 (a : Answers) (z : Noise) : List (List Op × RMsg) := [(z.n₁, a.verMsg), (z.n₂, a.namesMsg)]

def steps5 (a : Answers) (z : Noise) : List (List Op × RMsg) :=
  [(z.n₁, a.verMsg), (z.n₂, a.namesMsg), (z.n₃, a.abilityMsg), (z.n₄, a.acStatusMsg), (z.n₅, a.timerMsg)]

/-- what comes after the ability answer -/
def afterAbility (a : Answers) (z : Noise) : List Op :=
  z.n₄ ++ [.recv a.acStatusMsg] ++ z.n₅ ++ [.recv a.timerMsg] ++ z.n₆ ++ [.recv a.groupMsg] ++ z.n₇

theorem beforeLast_eq (a : Answers) (z : Noise) :
    beforeLast a z = [.init, .conn true] ++ (hsScript (steps5 a z) ++ z.n₆) := by
  simp [beforeLast, hsScript, steps5, List.append_assoc]

theorem handshakeOps_eq (a : Answers) (z : Noise) :
    handshakeOps a z =
      [.init, .conn true] ++ ((hsScript (steps2 a z) ++ z.n₃) ++ ([.recv a.abilityMsg] ++ afterAbility a z)) := by
  simp [handshakeOps, beforeLast, hsScript, steps2, afterAbility, List.append_assoc]

theorem steps5_eq (a : Answers) (z : Noise) :
    hsScript (steps5 a z) ++ z.n₆ =
      (hsScript (steps2 a z) ++ z.n₃) ++ ([.recv a.abilityMsg] ++
        (z.n₄ ++ [.recv a.acStatusMsg] ++ z.n₅ ++ [.recv a.timerMsg] ++ z.n₆)) := by
  simp [hsScript, steps5, steps2, List.append_assoc]

theorem validSteps5 (a : Answers) (z : Noise) (hz : z.Valid) : ValidSteps .INIT_VERSION (steps5 a z) := by
  obtain ⟨h1, h2, h3, h4, h5, _, _⟩ := hz
  exact ⟨h1, rfl, h2, rfl, h3, rfl, h4, rfl, h5, rfl, trivial⟩

/-- the ability answer is the third stage and no other -/
theorem steps5_ability (a : Answers) (z : Noise) (pre : List (List Op × RMsg)) (j : List Op)
    (acs : List FF11.AcAbility) (post : List (List Op × RMsg))
    (h : steps5 a z = pre ++ (j, .extended (.acAbility (.ability acs))) :: post) :
    pre = steps2 a z ∧ j = z.n₃ ∧ acs = a.abilities := by
  rcases pre with _ | ⟨p1, _ | ⟨p2, _ | ⟨p3, _ | ⟨p4, _ | ⟨p5, _ | ⟨p6, pre⟩⟩⟩⟩⟩⟩ <;>
    simp [steps5, steps2, Answers.verMsg, Answers.namesMsg, Answers.abilityMsg, Answers.acStatusMsg,
      Answers.timerMsg] at h ⊢
  obtain ⟨rfl, rfl, ⟨rfl, rfl⟩, _⟩ := h
  exact ⟨⟨rfl, rfl⟩, rfl, rfl⟩

/-! ### the state right after `init()` and the connection -/

theorem afterConn_facts :
    afterConn.st = .INIT_VERSION ∧ afterConn.subscribed = true ∧ afterConn.initialised = false ∧
    afterConn.initWaits = [40] ∧ afterConn.sockConnected = true ∧
    modelView afterConn = ⟨[], [], [], []⟩ ∧
    (run State.initial [.init, .conn true]).2 = [Ev.opened, Ev.send .connected versionRequest] := by
  refine ⟨by decide, by decide, by decide, by decide, by decide, rfl, rfl⟩

theorem afterConn_inv : Inv afterConn := Inv_run Inv_initial _

theorem afterConn_reach : Reach4 afterConn := ⟨_, rfl⟩

/-! ### up to the ability answer: the model -/

theorem modelView_recv_names (s : State) (hsub : s.subscribed = true) (hst : s.st = .INIT_GROUP_NAMES)
    (n : FF12.GroupNamesMessage) :
    modelView (recv s (.extended (.groupNames (.message n)))).1 = modelView (processGroupNames s n.group_names) := by
  simp only [recv, hsub, ↓reduceIte, onMessage, hst, modelView_hbOnMessage]
  rfl

theorem shape_recv_ability (s : State) (hsub : s.subscribed = true) (hst : s.st = .INIT_AC_ABILITY)
    (acs : List FF11.AcAbility) (hok : (processAbility s (acs.length == 1) acs).2 = true) :
    shape (recv s (.extended (.acAbility (.ability acs)))).1 = shape (processAbility s (acs.length == 1) acs).1 := by
  simp only [recv, hsub, ↓reduceIte, onMessage, hst, shape_hbOnMessage]
  cases hp : processAbility s (acs.length == 1) acs with
  | mk s' ok =>
    rw [hp] at hok
    simp only at hok
    subst hok
    rfl

/-- the states in which the names answer and the ability answer arrive -/
def atNames (a : Answers) (z : Noise) : State := (run afterConn (z.n₁ ++ [.recv a.verMsg] ++ z.n₂)).1
def atAbility (a : Answers) (z : Noise) : State := (run afterConn (hsScript (steps2 a z) ++ z.n₃)).1

theorem atAbility_eq (a : Answers) (z : Noise) :
    atAbility a z = (run (recv (atNames a z) a.namesMsg).1 z.n₃).1 := by
  simp [atAbility, atNames, hsScript, steps2, run_append, run, apiStep]

theorem atNames_eq (a : Answers) (z : Noise) :
    atNames a z = (run (recv (run afterConn z.n₁).1 a.verMsg).1 z.n₂).1 := by
  simp [atNames, run_append, run, apiStep]

theorem before_ability (a : Answers) (z : Noise) (hz : z.Valid) :
    modelView (atNames a z) = ⟨[], [], [], []⟩ ∧
    modelView (atAbility a z) = modelView (processGroupNames (atNames a z) a.names) ∧
    (atAbility a z).st = .INIT_AC_ABILITY ∧ (atAbility a z).subscribed = true := by
  obtain ⟨c1, c2, _, _, _, c6, _⟩ := afterConn_facts
  obtain ⟨z1, z2, z3, _⟩ := hz
  rw [atAbility_eq, atNames_eq]
  -- n₁
  obtain ⟨j1, j2, _⟩ := junk_run afterConn z.n₁ (by rw [c1]; exact z1)
  have m1 := modelView_junk_run afterConn z.n₁ (by rw [c1]; exact z1) (by rw [c1]; intro h; cases h)
    (congrArg ModelView.acDict c6)
  generalize (run afterConn z.n₁).1 = t1 at j1 j2 m1 ⊢
  generalize hu1 : (recv t1 a.verMsg).1 = u1
  have st1 : t1.st = .INIT_VERSION := j1.trans c1
  have sub1 : t1.subscribed = true := j2.trans c2
  -- version
  have su1 : u1.st = .INIT_GROUP_NAMES := by
    rw [← hu1]
    exact (recv_answer t1 sub1 a.verMsg (by rw [st1]; rfl) (by rw [st1]; intro h; cases h)
      (by intro acs h; cases h)).1.trans (by rw [st1]; rfl)
  have subu1 : u1.subscribed = true := by
    rw [← hu1]; exact (congrArg SockView.subscribed (sockView_recv t1 a.verMsg)).trans sub1
  have mu1 : modelView u1 = ⟨[], [], [], []⟩ := by
    rw [← hu1]; exact (modelView_recv_version_aux t1 sub1 st1 a.version).trans (m1.trans c6)
  -- n₂
  obtain ⟨k1, k2, _⟩ := junk_run u1 z.n₂ (by rw [su1]; exact z2)
  have m2 := modelView_junk_run u1 z.n₂ (by rw [su1]; exact z2) (by rw [su1]; intro h; cases h)
    (congrArg ModelView.acDict mu1)
  generalize (run u1 z.n₂).1 = t2 at k1 k2 m2 ⊢
  have st2 : t2.st = .INIT_GROUP_NAMES := k1.trans su1
  have sub2 : t2.subscribed = true := k2.trans subu1
  have mt2 : modelView t2 = ⟨[], [], [], []⟩ := m2.trans mu1
  -- names
  generalize hu2 : (recv t2 a.namesMsg).1 = u2
  have su2 : u2.st = .INIT_AC_ABILITY := by
    rw [← hu2]
    exact (recv_answer t2 sub2 a.namesMsg (by rw [st2]; rfl) (by rw [st2]; intro h; cases h)
      (by intro acs h; cases h)).1.trans (by rw [st2]; rfl)
  have subu2 : u2.subscribed = true := by
    rw [← hu2]; exact (congrArg SockView.subscribed (sockView_recv t2 a.namesMsg)).trans sub2
  have mu2 : modelView u2 = modelView (processGroupNames t2 a.names) := by
    rw [← hu2]; exact modelView_recv_names t2 sub2 st2 _
  have au2 : u2.acDict = [] := by
    rw [show u2.acDict = (processGroupNames t2 a.names).acDict from congrArg ModelView.acDict mu2,
      (processGroupNames_model t2 a.names).2.1]
    exact congrArg ModelView.acDict mt2
  -- n₃
  obtain ⟨l1, l2, _⟩ := junk_run u2 z.n₃ (by rw [su2]; exact z3)
  have m3 := modelView_junk_run u2 z.n₃ (by rw [su2]; exact z3) (by rw [su2]; intro h; cases h) au2
  exact ⟨mt2, m3.trans mu2, l1.trans su2, l2.trans subu2⟩

/-- **the ability answer is accepted** (no `KeyError`) **and builds the described installation** -/
theorem ability_ok (a : Answers) (z : Noise) (hc : Consistent a.names a.abilities) (hz : z.Valid) :
    (processAbility (atAbility a z) (a.abilities.length == 1) a.abilities).2 = true ∧
    exposedModel (processAbility (atAbility a z) (a.abilities.length == 1) a.abilities).1 =
      describedModel a.names a.abilities := by
  obtain ⟨b1, b2, b3, b4⟩ := before_ability a z hz
  exact model_of_description (atNames a z) (Inv_run afterConn_inv _) b1 a.names a.abilities hc (atAbility a z) b2
    (Inv_run afterConn_inv _)

/-! ### after the ability answer: nothing changes the exposed installation -/

theorem passive_hsScript (st : AState) (steps : List (List Op × RMsg)) (hv : ValidSteps st steps) :
    ∀ op ∈ hsScript steps, passive op = true := by
  induction steps generalizing st with
  | nil => intro op h; simp [hsScript] at h
  | cons p rest ih =>
    obtain ⟨j, m⟩ := p
    obtain ⟨hj, _, hr⟩ := hv
    intro op h
    rw [hsScript_cons] at h
    rcases List.mem_append.mp h with h | h
    · exact (hj op h).1
    · rcases List.mem_append.mp h with h | h
      · simp only [List.mem_singleton] at h; subst h; rfl
      · exact ih _ hr op h

theorem passive_afterAbility (a : Answers) (z : Noise) (hz : z.Valid) : ∀ op ∈ afterAbility a z, passive op = true := by
  obtain ⟨_, _, _, h4, h5, h6, h7⟩ := hz
  intro op ho
  simp only [afterAbility, List.mem_append, List.mem_singleton] at ho
  rcases ho with (((((h | rfl) | h) | rfl) | h) | rfl) | h
  · exact (h4 op h).1
  · rfl
  · exact (h5 op h).1
  · rfl
  · exact (h6 op h).1
  · rfl
  · exact (h7 op h).1

/-- the final object model -/
theorem end_model (a : Answers) (z : Noise) (hc : Consistent a.names a.abilities) (hz : z.Valid) :
    exposedModel (run State.initial (handshakeOps a z)).1 = describedModel a.names a.abilities := by
  obtain ⟨ok, hm⟩ := ability_ok a z hc hz
  obtain ⟨_, _, b3, b4⟩ := before_ability a z hz
  have e : (run State.initial (handshakeOps a z)).1 =
      (run (recv (atAbility a z) a.abilityMsg).1 (afterAbility a z)).1 := by
    rw [handshakeOps_eq, run_append, run_append, run_append]
    simp only [run, apiStep]
    rfl
  rw [e]
  generalize hu : (recv (atAbility a z) a.abilityMsg).1 = u3
  have hinv : Inv u3 := by rw [← hu]; exact Inv_recv (Inv_run afterConn_inv _) _
  have hsub : u3.subscribed = true := by
    rw [← hu]; exact (congrArg SockView.subscribed (sockView_recv (atAbility a z) a.abilityMsg)).trans b4
  have hst : u3.st = .INIT_AC_STATUS := by
    rw [← hu]
    exact (recv_answer (atAbility a z) b4 a.abilityMsg (by rw [b3]; rfl) (by rw [b3]; intro h; cases h)
      (by intro acs h; cases h; exact ok)).1.trans (by rw [b3]; rfl)
  have hsh : shape u3 = shape (processAbility (atAbility a z) (a.abilities.length == 1) a.abilities).1 := by
    rw [← hu]; exact shape_recv_ability (atAbility a z) b4 b3 a.abilities ok
  rw [exposedModel_of_shape (shape_passive_run hinv hsub (by rw [hst]; decide) (afterAbility a z)
    (passive_afterAbility a z hz)), exposedModel_of_shape hsh, hm]

/-! ### the control flow and the outputs -/

theorem lostConn_eq (a : Answers) (z : Noise) : (hsScript (steps5 a z) ++ z.n₆).any dropsConn = z.lostConn := by
  simp [hsScript, steps5, Noise.lostConn, List.any_append, dropsConn, Bool.or_assoc]

/-- the state in which the last answer arrives -/
theorem before_last (a : Answers) (z : Noise) (hc : Consistent a.names a.abilities) (hz : z.Valid) :
    (run State.initial (beforeLast a z)).1.st = .INIT_GROUP_STATUS ∧
    (run State.initial (beforeLast a z)).1.subscribed = true ∧
    (run State.initial (beforeLast a z)).1.initialised = false ∧
    (run State.initial (beforeLast a z)).1.initWaits = [40] ∧
    hbIdle (run State.initial (beforeLast a z)).1.hb = true ∧
    (run State.initial (beforeLast a z)).1.sockConnected = !z.lostConn ∧
    hsSends (run State.initial (beforeLast a z)).2 = handshakeRequests ∧
    (∀ c, Ev.subscriberExc c ∉ (run State.initial (beforeLast a z)).2) ∧
    (∀ t, Ev.result t ∉ (run State.initial (beforeLast a z)).2) := by
  obtain ⟨c1, c2, c3, c4, c5, c6, c7⟩ := afterConn_facts
  have hv5 := validSteps5 a z hz
  obtain ⟨_, _, _, _, _, z6, _⟩ := hz
  -- the five stages
  obtain ⟨r1, r2, r3, _⟩ := handshake_run afterConn c2 (steps5 a z) (by rw [c1]; exact hv5) (by rw [c1]; decide)
    (by rw [c1]; simp [stage, steps5]) (by
      intro pre j acs post heq
      obtain ⟨rfl, rfl, rfl⟩ := steps5_ability a z pre j acs post heq
      exact (ability_ok a z hc (by exact ⟨hv5.1, hv5.2.2.1, hv5.2.2.2.2.1, hv5.2.2.2.2.2.2.1, hv5.2.2.2.2.2.2.2.2.1, z6, ‹_›⟩)).1)
  have hst5 : (run afterConn (hsScript (steps5 a z))).1.st = .INIT_GROUP_STATUS := by
    rw [c1] at r1
    have : stage (run afterConn (hsScript (steps5 a z))).1.st = 7 := r1
    cases hf : (run afterConn (hsScript (steps5 a z))).1.st <;> simp [hf, stage] at this
    rfl
  -- n₆
  obtain ⟨j1, j2, _, _, j5⟩ := junk_run (run afterConn (hsScript (steps5 a z))).1 z.n₆ (by rw [hst5]; exact z6)
  have e : run State.initial (beforeLast a z) =
      ((run (run afterConn (hsScript (steps5 a z))).1 z.n₆).1,
        [Ev.opened, Ev.send .connected versionRequest] ++
          ((run afterConn (hsScript (steps5 a z))).2 ++ (run (run afterConn (hsScript (steps5 a z))).1 z.n₆).2)) := by
    rw [beforeLast_eq, run_append, run_append, c7]
    rfl
  have eL : run afterConn (hsScript (steps5 a z) ++ z.n₆) =
      ((run (run afterConn (hsScript (steps5 a z))).1 z.n₆).1,
        (run afterConn (hsScript (steps5 a z))).2 ++ (run (run afterConn (hsScript (steps5 a z))).1 z.n₆).2) :=
    run_append _ _ _
  have hL : ∀ op ∈ hsScript (steps5 a z) ++ z.n₆, passive op = true := by
    intro op ho
    rcases List.mem_append.mp ho with h | h
    · exact passive_hsScript _ _ hv5 op h
    · exact (z6 op h).1
  have hst6 : (run afterConn (hsScript (steps5 a z) ++ z.n₆)).1.st = .INIT_GROUP_STATUS := by
    rw [eL]; exact j1.trans hst5
  have hle : stage (run afterConn (hsScript (steps5 a z) ++ z.n₆)).1.st ≤ 7 := by rw [hst6]; decide
  obtain ⟨_, p2, p3⟩ := passive_run afterConn c2 _ hL
  have p3' := p3 hle
  have piv := initView_passive_run afterConn c2 _ hL hle
  have ppl := plain_passive_run afterConn c2 _ hL hle
  obtain ⟨psc, _⟩ := sockConnected_passive_run afterConn _ hL
  have hreach : Reach4 (run afterConn (hsScript (steps5 a z) ++ z.n₆)).1 := afterConn_reach.run _
  have hfacts := reach_sockFacts hreach
  rw [hst6, c1] at p3'
  rw [lostConn_eq, c5] at psc
  rw [eL] at hst6 p2 p3' piv ppl psc hfacts
  rw [e]
  simp only at hst6 p2 p3' piv ppl psc hfacts ⊢
  have hi : (run (run afterConn (hsScript (steps5 a z))).1 z.n₆).1.initialised = false :=
    (congrArg Prod.fst piv).trans c3
  refine ⟨hst6, p2, hi, (congrArg Prod.snd piv).trans c4, ?_, ?_, ?_, ?_, ?_⟩
  · rw [hfacts.hb_iff, hi]; rfl
  · rw [psc]; simp
  · rw [hsSends_append, p3']; rfl
  · intro c hc'
    rcases List.mem_append.mp hc' with h | h
    · simp at h
    · rcases List.mem_append.mp h with h | h
      · exact r3 c h
      · exact j5 c h
  · intro t ht
    rcases List.mem_append.mp ht with h | h
    · simp at h
    · exact ppl.not_mem (e := Ev.result t) rfl h

end At4
open At4

/-! ### end to end -/

/-- **C09 end to end.**  A fresh object; `init()`; the connection; the six answers of a consistent installation
    description, with arbitrary noise before, between and after them.  Then

    1. the state is `CONNECTED` and the initialised event is set;
    2. the messages sent (error-information requests, which unsolicited or answering AC statuses with an error code
       cause, excepted) are exactly the six handshake requests in order, followed - unless the connection was lost
       meanwhile - by the first heartbeat request, which `HeartbeatManager.start()` sends at once;
    3. no handler raised;
    4. `RESULT init True` is printed exactly once, there is no other `RESULT`, and
    5. it is printed by the op that delivers the last answer;
    6. the object model the API exposes is exactly the described one: the described air-conditioners (number, name)
       in message order, each with exactly its described zones (id, name) in `describedIds` order. -/
theorem handshake_end_to_end_at4 (a : Answers) (z : Noise) (hc : Consistent a.names a.abilities) (hz : z.Valid) :
    (run State.initial (handshakeOps a z)).1.st = .CONNECTED ∧
    (run State.initial (handshakeOps a z)).1.initialised = true ∧
    hsSends (run State.initial (handshakeOps a z)).2 =
      handshakeRequests ++ (if z.lostConn then [] else [hbMessage]) ∧
    (∀ c, Ev.subscriberExc c ∉ (run State.initial (handshakeOps a z)).2) ∧
    ((run State.initial (handshakeOps a z)).2.count (Ev.result "init True") = 1 ∧
      ∀ t, Ev.result t ∈ (run State.initial (handshakeOps a z)).2 → t = "init True") ∧
    (apiStep (run State.initial (beforeLast a z)).1 (.recv a.groupMsg)).2.count (Ev.result "init True") = 1 ∧
    exposedModel (run State.initial (handshakeOps a z)).1 = describedModel a.names a.abilities := by
  refine ⟨?_, ?_, ?_, ?_, ?_, ?_, end_model a z hc hz⟩
  all_goals
    obtain ⟨b1, b2, b3, b4, b5, b6, b7, b8, b9⟩ := before_last a z hc hz
    obtain ⟨_, _, _, _, _, _, z7⟩ := hz
    have e : run State.initial (handshakeOps a z) =
        ((run (recv (run State.initial (beforeLast a z)).1 a.groupMsg).1 z.n₇).1,
          (run State.initial (beforeLast a z)).2 ++
            ((recv (run State.initial (beforeLast a z)).1 a.groupMsg).2 ++
              (run (recv (run State.initial (beforeLast a z)).1 a.groupMsg).1 z.n₇).2)) := by
      rw [handshakeOps, List.append_assoc, run_append, run_append]
      simp only [run, apiStep, List.append_nil]
    generalize hE0 : (run State.initial (beforeLast a z)).2 = E0 at b7 b8 b9 e
    generalize (run State.initial (beforeLast a z)).1 = t6 at b1 b2 b3 b4 b5 b6 e ⊢
    obtain ⟨f1, f2, f3, f4, f5, f6, f7, f8, f9⟩ := recv_final_answer t6 b2 a.groups b1
    obtain ⟨E, hE, hev⟩ := recv_completes_events t6 a.groups b2 b1
    have eg : a.groupMsg = .groupStatus (.status a.groups) := rfl
    rw [← eg] at f1 f2 f3 f4 f5 f6 f7 f8 f9 hev
    obtain ⟨j1, j2, j3, j4, j5⟩ := junk_run (recv t6 a.groupMsg).1 z.n₇ (by rw [f1]; exact z7)
    have jpl := plain_junk_run (recv t6 a.groupMsg).1 z.n₇ (by rw [f1]; exact z7)
    have hpl6 : ∀ t, Ev.result t ∈ (recv t6 a.groupMsg).2 → t = "init True" := by
      intro t ht
      rw [hev, b4] at ht
      simp only [List.map_cons, List.map_nil, List.mem_append, List.mem_singleton, reduceCtorEq, or_false] at ht
      rcases ht with (ht | ht) | ht
      · exact absurd ht (hE.not_mem (e := Ev.result t) rfl)
      · cases ht; rfl
      · split at ht
        · simp [hbEv] at ht
        · cases ht
  · rw [e]; exact j1.trans f1
  · rw [e]; exact (congrArg HsView.initialised j3).trans f2
  · rw [e]
    simp only [hsSends_append, b7, f8, j4, b5, b6, List.append_nil, Bool.true_and]
    cases z.lostConn <;> rfl
  · rw [e]
    intro c hc'
    rcases List.mem_append.mp hc' with h | h
    · exact b8 c h
    · rcases List.mem_append.mp h with h | h
      · exact f9 c h
      · exact j5 c h
  · rw [e]
    simp only [List.count_append, f7, b4, List.length_singleton]
    refine ⟨?_, ?_⟩
    · rw [List.count_eq_zero.mpr (b9 _), jpl.count_zero (e := Ev.result "init True") rfl]
    · intro t ht
      rcases List.mem_append.mp ht with h | h
      · exact absurd h (b9 t)
      · rcases List.mem_append.mp h with h | h
        · exact hpl6 t h
        · exact absurd h (jpl.not_mem (e := Ev.result t) rfl)
  · show (recv t6 a.groupMsg).2.count (Ev.result "init True") = 1
    rw [f7, b4]; rfl

/-- `Consistent` follows from a condition that mentions only the two messages' fields: distinct group numbers,
    distinct AC numbers, complete mode / fan tables, and per record - a bitmap of named groups, or no bitmap in the only
    record, or a `start_group` / `group_count` range of named groups -/
theorem consistent_of_syntactic_at4 (names : List (Nat × Bytes)) (acs : List FF11.AcAbility)
    (h : SyntacticallyConsistent names acs) : Consistent names acs := consistent_of_syntactic h

/-- **… without noise**: `init, conn 1` and the six answers.  Seven messages are sent: the six requests, then the first
    heartbeat request. -/
theorem handshake_clean_at4 (a : Answers) (hc : Consistent a.names a.abilities) :
    handshakeOps a Noise.none =
      [.init, .conn true, .recv a.verMsg, .recv a.namesMsg, .recv a.abilityMsg, .recv a.acStatusMsg, .recv a.timerMsg,
        .recv a.groupMsg] ∧
    (run State.initial (handshakeOps a Noise.none)).1.st = .CONNECTED ∧
    (run State.initial (handshakeOps a Noise.none)).1.initialised = true ∧
    hsSends (run State.initial (handshakeOps a Noise.none)).2 = handshakeRequests ++ [hbMessage] ∧
    (∀ c, Ev.subscriberExc c ∉ (run State.initial (handshakeOps a Noise.none)).2) ∧
    (run State.initial (handshakeOps a Noise.none)).2.count (Ev.result "init True") = 1 ∧
    exposedModel (run State.initial (handshakeOps a Noise.none)).1 = describedModel a.names a.abilities := by
  have hz : Noise.none.Valid := by
    refine ⟨?_, ?_, ?_, ?_, ?_, ?_, ?_⟩ <;> intro op h <;> cases h
  obtain ⟨h1, h2, h3, h4, h5, _, h7⟩ := handshake_end_to_end_at4 a Noise.none hc hz
  exact ⟨rfl, h1, h2, h3, h4, h5.1, h7⟩

/-! ### every reachable state (`Lemmas/Api4Reach`) -/

/-- the facts `Model/Api4.lean` relies on without proof, for every state reachable from the fresh object: the
    socket-open facts (`SockFacts`), every pending deadline ahead of the clock (`Ahead`), the heap invariant, the
    heartbeat invariant -/
theorem reachable_facts_at4 (s : State) (h : Reach4 s) : SockFacts s ∧ Ahead s ∧ Inv s ∧ HbWf s :=
  ⟨reach_sockFacts h, reach_ahead h, reach_inv h, reach_hbWf h⟩

/-- state `≠ CLOSED`, a running heartbeat, a live current poll task, a non-empty dictionary, the initialised event:
    each implies an open socket -/
theorem socket_open_at4 (s : State) (h : Reach4 s)
    (hx : s.st ≠ .CLOSED ∨ hbIdle s.hb = false ∨ s.pollCur.isSome = true ∨ s.acDict ≠ [] ∨ s.zoneDict ≠ [] ∨
      s.initialised = true) : s.sockOpen = true := by
  rcases hx with hx | hx | hx | hx | hx | hx
  · exact (open_iff_not_closed h).mpr hx
  · exact (open_of_hb_running h hx).1
  · cases hp : s.pollCur with
    | none => rw [hp] at hx; cases hx
    | some d => exact (open_of_poll h hp).1
  · exact open_of_model h (Or.inl hx)
  · exact open_of_model h (Or.inr (Or.inl hx))
  · exact (open_of_initialised h hx).1

/-- `CONNECTED` ⇒ initialised ⇔ live current poll ⇔ heartbeat running; the converse of the first implication needs
    the calling discipline -/
theorem initialised_facts_at4 (s : State) (h : Reach4 s) :
    (s.st = .CONNECTED → s.initialised = true) ∧ (s.initialised = true ↔ s.pollCur.isSome = true) ∧
    (s.initialised = true ↔ hbIdle s.hb = false) ∧ (s.initialised = true → s.initWaits = []) ∧
    (ReachD4 s → (s.initialised = true ↔ s.st = .CONNECTED)) := by
  have f := reach_sockFacts h
  refine ⟨f.connected_init, by rw [f.poll_iff], ?_, f.init_nowaits, fun hd => (reachD_discFacts hd).init_iff⟩
  rw [f.hb_iff]; cases s.initialised <;> simp

/-- … and is false without it: `init, conn 1, ⟨six answers⟩, init` -/
theorem initialised_not_connected_at4 :
    ∃ s, Reach4 s ∧ s.initialised = true ∧ s.pollCur.isSome = true ∧ s.acDict ≠ [] ∧ s.st = .CONNECTING :=
  ⟨_, poll_without_connected.1, poll_without_connected.2.2.2.1, by rw [poll_without_connected.2.2.1]; rfl,
    poll_without_connected.2.2.2.2.2.1, poll_without_connected.2.1⟩

/-- under the discipline there is no zone and no air-conditioner before the names answer has been processed: a
    non-empty dictionary means state `INIT_AC_ABILITY` or later (`initialised_not_connected_at4`: not so without the
    discipline) -/
theorem model_empty_before_names_at4 (s : State) (h : ReachD4 s) (hst : stage s.st ≤ 3) :
    s.zoneDict = [] ∧ s.acDict = [] ∧ s.zoneObjs = [] ∧ s.acObjs = [] := by
  have := reachD_earlyEmpty h hst
  exact ⟨congrArg ModelView.zoneDict this, congrArg ModelView.acDict this, congrArg ModelView.zoneObjs this,
    congrArg ModelView.acObjs this⟩

/-! ### non-vacuity -/

namespace At4

def demoAnswersA : Answers :=
  { version := { update_available := false, versions := [[49]] }, names := [(0, [97]), (1, [98])],
    abilities := [demoAbility], acStatus := [demoAcStatus], timers := [demoTimer], groups := [demoGroup] }

/-- the noise of `demoSteps`, and more after `CONNECTED` -/
def demoNoise : Noise :=
  { n₁ := [.recv (.acStatus (.status [demoAcStatus])), .msg 0x99 [1, 2], .conn false]
    n₂ := [.recv demoVersionMsg]
    n₃ := [.recv (.extended (.consoleVer .request))]
    n₄ := []
    n₅ := [.recv (.extended (.errInfo (.message { ac_number := 0, error_info := some [69] })))]
    n₆ := [.recv demoAcStatusMsg]
    n₇ := [.recv demoAcStatusMsg, .recv demoGroupMsg, .conn false, .recv demoNamesMsg] }

theorem demo_consistent : Consistent demoAnswersA.names demoAnswersA.abilities := by
  unfold Consistent; decide

theorem demoNoise_valid : demoNoise.Valid := by
  simp only [Noise.Valid, demoNoise, Junk]
  decide

example : demoNoise.lostConn = true := by decide

example : describedModel demoAnswersA.names demoAnswersA.abilities = [(0, [65, 67], [(0, [97]), (1, [98])])] := by
  decide

example : exposedModel (run State.initial (handshakeOps demoAnswersA demoNoise)).1 =
    [(0, [65, 67], [(0, [97]), (1, [98])])] := by
  rw [(handshake_end_to_end_at4 demoAnswersA demoNoise demo_consistent demoNoise_valid).2.2.2.2.2.2]; decide

example : hsSends (run State.initial (handshakeOps demoAnswersA Noise.none)).2 = handshakeRequests ++ [hbMessage] :=
  (handshake_clean_at4 demoAnswersA demo_consistent).2.2.2.1

/-- two air-conditioners: a bitmap `{1, 8}` (CPython iterates it as `8, 1`) and a `start_group` / `group_count` range -/
def twoAcs : List FF11.AcAbility :=
  [{ demoAbility with ac_number := 0, groups := some [1, 8] },
   { demoAbility with ac_number := 1, ac_name := [66], groups := none, start_group := 2, group_count := 2 }]

def nineNames : List (Nat × Bytes) := [(1, [97]), (2, [98]), (3, [99]), (8, [100])]

example : Consistent nineNames twoAcs := by unfold Consistent; decide

example : SyntacticallyConsistent nineNames twoAcs := by
  unfold SyntacticallyConsistent; decide

example : describedModel nineNames twoAcs =
    [(0, [65, 67], [(8, [100]), (1, [97])]), (1, [66], [(2, [98]), (3, [99])])] := by decide

/-- the single-AC fallback: every named group, in names-message order -/
example : describedModel nineNames [{ demoAbility with groups := none }] =
    [(0, [65, 67], [(1, [97]), (2, [98]), (3, [99]), (8, [100])])] := by decide

/-- not consistent: a group without a name (`ability_keyerror_at4` says what happens then) -/
example : ¬ Consistent nineNames [{ demoAbility with groups := some [0, 1] }] := by unfold Consistent; decide

example : Reach4 demo ∧ ReachD4 demo := ⟨demo_reachD.reach, demo_reachD⟩

example : demo.sockOpen = true := socket_open_at4 demo demo_reachD.reach (Or.inl (by decide))

example : demo.initialised = true ∧ demo.initWaits = [] :=
  ⟨(initialised_facts_at4 demo demo_reachD.reach).1 demo_connected,
   (initialised_facts_at4 demo demo_reachD.reach).2.2.2.1 ((initialised_facts_at4 demo demo_reachD.reach).1 demo_connected)⟩

example : ReachD4 afterConn ∧ stage afterConn.st ≤ 3 := ⟨⟨[.init, .conn true], by decide, rfl⟩, by decide⟩

end At4

end PyAirtouch.Props.C09
