import PyAirtouch.Lemmas.Api4Events
import PyAirtouch.Lemmas.Api4Calls
import PyAirtouch.Lemmas.Api4Demo
/-!
# C02 (AirTouch 4): which retry policy the API hands to `socket.send`

* every public call: `RETRY_NON_IDEMPOTENT` exactly for the accumulating command (AC power `TOGGLE`),
  `RETRY_IDEMPOTENT` for every other command;
* everything the API sends on its own initiative (handshake requests, heartbeat, status refresh after a
  reconnect, the 300 s group poll, error-information requests) is a request sent with `RETRY_CONNECTED`.
The three `Policy` values are the generated socket constants (`Gen.Policies`).
-/
set_option linter.unusedVariables false
set_option linter.unusedSimpArgs false
namespace PyAirtouch.Props.C02
open PyAirtouch.Model PyAirtouch.Model.Api4 PyAirtouch.Model.At4 PyAirtouch.Lemmas.Api4 PyAirtouch.Gen
open PyAirtouch.Model.TimerCommon (AcTimerState AcTimerStatusData)

/-- the model's three policies are the socket module's constants -/
theorem policies_are_generated_at4 :
    Policy.idempotent.pair = Gen.retryIdempotent ∧ Policy.nonIdempotent.pair = Gen.retryNonIdempotent ∧
    Policy.connected.pair = Gen.retryConnected := ⟨rfl, rfl, rfl⟩

/-- **policy table, public calls**: for every state, call and argument, whatever the call sends is sent with
    `RETRY_NON_IDEMPOTENT` if it is AC power `TOGGLE` and with `RETRY_IDEMPOTENT` otherwise -/
theorem call_policy_at4 (s : State) (c : Call) (p : Policy) (m : OutMsg)
    (h : Ev.send p m ∈ (apiStep s (.call c)).2) : p = expectedPolicy c := by
  simp only [apiStep, doCall] at h
  cases hr : callResult s c with
  | error e => simp [hr] at h
  | ok pm =>
    obtain ⟨p', m'⟩ := pm
    simp only [hr] at h
    split at h
    · simp only [List.mem_cons, Ev.send.injEq, reduceCtorEq, List.mem_nil_iff, or_false] at h
      obtain ⟨rfl, rfl⟩ := h
      exact callResult_policy s c _ _ hr
    · simp at h

/-- `TOGGLE` really is sent non-idempotently, every other accepted AC power control idempotently -/
theorem toggle_only_at4 (c : Call) : expectedPolicy c = .nonIdempotent ↔ ∃ i, c = .acSetPower i .TOGGLE := by
  constructor
  · intro h
    cases c with
    | acSetPower i pc => cases pc <;> first | exact ⟨i, rfl⟩ | cases h
    | _ => cases h
  · rintro ⟨i, rfl⟩; rfl

/-- **policy table, everything else**: whatever any other op makes the API send (handshake, heartbeat, refresh
    after a reconnect, group poll, error-information request) is a request sent with `RETRY_CONNECTED` -/
theorem own_initiative_policy_at4 (s : State) (op : Op) (hop : ∀ c, op ≠ .call c) (p : Policy) (m : OutMsg)
    (h : Ev.send p m ∈ (apiStep s op).2) : p = .connected ∧ isRequest m = true := by
  have key : ∀ e ∈ (apiStep s op).2, ConnReq e := by
    cases op with
    | init =>
      simp only [apiStep, doInit]
      split <;> (intro e he; simp at he; rcases he with rfl | rfl <;> exact connReq_of_not_send rfl)
    | shutdown =>
      intro e he
      simp only [apiStep, doShutdown, List.mem_cons, List.mem_nil_iff, or_false] at he
      rcases he with rfl | rfl | rfl <;> exact connReq_of_not_send rfl
    | conn up => exact connReq_onConn _ up
    | msg mid payload =>
      simp only [apiStep]
      split
      · exact connReq_recv s _
      · intro e he; simp only [List.mem_singleton] at he; subst he; exact connReq_of_not_send rfl
    | recv m => exact connReq_recv s m
    | call c => exact absurd rfl (hop c)
    | callBad cls => intro e he; simp only [apiStep, List.mem_singleton] at he; subst he; exact connReq_of_not_send rfl
    | sub t sid r =>
      intro e he
      simp only [apiStep, subUnsub] at he
      cases t with
      | airtouch => cases he
      | ac i g =>
        simp only at he
        split at he
        · simp only [List.mem_singleton] at he; subst he; exact connReq_of_not_send rfl
        · cases he
      | zone i =>
        simp only at he
        split at he
        · simp only [List.mem_singleton] at he; subst he; exact connReq_of_not_send rfl
        · split at he
          · cases he
          · simp only [List.mem_singleton] at he; subst he; exact connReq_of_not_send rfl
    | unsub t sid =>
      intro e he
      simp only [apiStep, subUnsub] at he
      cases t with
      | airtouch => cases he
      | ac i g =>
        simp only at he
        split at he
        · simp only [List.mem_singleton] at he; subst he; exact connReq_of_not_send rfl
        · cases he
      | zone i =>
        simp only at he
        split at he
        · simp only [List.mem_singleton] at he; subst he; exact connReq_of_not_send rfl
        · split at he
          · cases he
          · simp only [List.mem_singleton] at he; subst he; exact connReq_of_not_send rfl
    | adv n => exact connReq_advance n s
    | view =>
      simp only [apiStep]
      split <;> (intro e he; simp only [List.mem_singleton] at he; subst he; exact connReq_of_not_send rfl)
  exact key _ h p m rfl

/-! ### non-vacuity -/

example : Ev.send .nonIdempotent (.reg (.acCtrl { ac_number := 0, power := .TOGGLE, mode := .UNCHANGED, fan_speed := .UNCHANGED, set_point_control := .none }))
    ∈ (apiStep demo (.call (.acSetPower 0 .TOGGLE))).2 := by decide
example : Ev.send .idempotent (.reg (.acCtrl { ac_number := 0, power := .TURN_ON, mode := .UNCHANGED, fan_speed := .UNCHANGED, set_point_control := .none }))
    ∈ (apiStep demo (.call (.acSetPower 0 .TURN_ON))).2 := by decide
example : demo.pollCur = some 2400 ∧
    Ev.send .connected groupStatusRequest ∈ (apiStep { demo with now := 2399 } (.adv 1)).2 := by decide
example : (apiStep demo (.conn true)).2 = [Ev.send .connected acStatusRequest, Ev.send .connected groupStatusRequest] := by decide
example : Ev.send .connected (errInfoRequest 0)
    ∈ (apiStep demo (.recv (.acStatus (.status [{ demoAcStatus with error_code := 5 }])))).2 := by decide

end PyAirtouch.Props.C02
