import PyAirtouch.Lemmas.SockQueue
/-!
# C01 — what reaches the wire

For every history of the model `PyAirtouch.Model.Sock` whose sends carry pairwise distinct
identities: every frame written to a transport is a whole frame of a message that was accepted
before.
-/
namespace PyAirtouch.Props.C01
open PyAirtouch.Model.Sock PyAirtouch.Spec.Trace PyAirtouch.Lemmas.Sock

theorem C01_wire_only_submitted {s : Sys} : ReachableWF s → wireOnlySubmitted s.core.trace = true := by
  intro h
  obtain ⟨u, hinv⟩ := inv_of_reachableWF h
  simp only [wireOnlySubmitted, List.all_eq_true]
  intro ev hev
  have hw : WriteOk s.core.trace ev := hinv.writes ev hev
  cases ev <;> simp only [WriteOk] at hw ⊢
  all_goals
    obtain ⟨t0, e, r, ok, h1, h2⟩ := hw
    simp [h1]

/-- a message queued while the link is down is written once the connection is up -/
example : ∃ s, ReachableWF s ∧ wireCount s.core.trace 1 = 1 :=
  ⟨_, ⟨[.apiOpen, .apiSend 1 2 240 true, .run 1 .go, .run 1 .openOk, .run 1 .go], by decide, rfl⟩, by decide⟩

end PyAirtouch.Props.C01
