import PyAirtouch.Model.Sock
/-! placeholder until the proof files are merged -/
namespace PyAirtouch.Props.C01
theorem C01_placeholder : True := trivial
end PyAirtouch.Props.C01
