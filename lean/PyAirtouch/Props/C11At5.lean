import PyAirtouch.Lemmas.Api5Defs
/-!
# C11 (AirTouch 5) — commands: refusals, exactly one send, set-point arithmetic, quick timers

`s.ac? id = some (r, a)` says that the public AC list has an AC `id` (object `a`); `s.zone? id = some (r, z)` that a
zone `id` is reachable through the zone lists of the public ACs (as the harness looks zones up).  All statements hold
for every state.
-/
namespace PyAirtouch.Props.C11
open PyAirtouch.Model PyAirtouch.Model.Api5 PyAirtouch.Model.At5 PyAirtouch.Model.At5.Registry
open PyAirtouch.Model.TimerCommon (AcTimerState AcTimerStatusData)
open PyAirtouch.Gen PyAirtouch.Gen.Api5 PyAirtouch.Lemmas.Api5

def exAbility : FF11.AcAbility :=
  { ac_number := 1, ac_name := [], start_zone := 0, zone_count := 1, ac_mode_support := [], fan_speed_support := [],
    min_cool_set_point := 17, max_cool_set_point := 30, min_heat_set_point := 16, max_heat_set_point := 28 }

/-- AC 1 supporting HEAT / COOL and LOW / HIGH, with zone 0 (no sensor) attached -/
def exState : State :=
  { State.new [] [] [] [] with
    st := .CONNECTED, sockOpen := true, sockSubscribed := true,
    aobjs := [newAc exAbility [0] [.HEAT, .COOL] [.LOW, .HIGH]], acs := [(1, 0)],
    zobjs := [{ newZone 0 [] with fwd := [0] }], zones := [(0, 0)] }

/-! ## 1. refusals: `ValueError`, nothing sent, nothing changed -/

theorem C11_unsupported_mode_refused_at5 (s : State) (id r : Nat) (a : AcObj) (m : ApiEnums.AcMode) (po : Bool)
    (h : s.ac? id = some (r, a)) (hm : m ∉ a.supportedModes) :
    apiStep s (.callAc id (.setMode m po)) = (s, [.result "ValueError"]) := by
  simp [apiStep, h, acCall, hm, raise, callOut]

example : (apiStep exState (.callAc 1 (.setMode .DRY true))).2 = [.result "ValueError"] := by decide

theorem C11_unsupported_fan_speed_refused_at5 (s : State) (id r : Nat) (a : AcObj) (f : ApiEnums.AcFanSpeed)
    (h : s.ac? id = some (r, a)) (hf : f ∉ a.supportedFanSpeeds) :
    apiStep s (.callAc id (.setFanSpeed f)) = (s, [.result "ValueError"]) := by
  simp [apiStep, h, acCall, hf, raise, callOut]

example : (apiStep exState (.callAc 1 (.setFanSpeed .TURBO))).2 = [.result "ValueError"] := by decide

theorem C11_unsupported_power_control_refused_at5 (s : State) (id r : Nat) (a : AcObj) (p : ApiEnums.AcPowerControl)
    (h : s.ac? id = some (r, a)) (hp : p ∉ supportedPowerControls) :
    apiStep s (.callAc id (.setPower p)) = (s, [.result "ValueError"]) := by
  simp [apiStep, h, acCall, hp, raise, callOut]

/-- … but an AirTouch 5 AC supports every power control (the hypothesis above is never met) -/
theorem C11_all_power_controls_supported_at5 (p : ApiEnums.AcPowerControl) : p ∈ supportedPowerControls := by
  cases p <;> decide

theorem C11_unsupported_zone_power_refused_at5 (s : State) (id r : Nat) (z : ZoneObj) (p : ApiEnums.ZonePowerState)
    (h : s.zone? id = some (r, z)) (hp : p ∉ supportedZonePowerStates) :
    apiStep s (.callZone id (.setPower p)) = (s, [.result "ValueError"]) := by
  simp [apiStep, h, zoneCall, hp, raise, callOut]

/-- … likewise every zone power state is supported -/
theorem C11_all_zone_power_states_supported_at5 (p : ApiEnums.ZonePowerState) : p ∈ supportedZonePowerStates := by
  cases p <;> decide

theorem C11_damper_out_of_range_refused_at5 (s : State) (id r : Nat) (z : ZoneObj) (p : Int)
    (h : s.zone? id = some (r, z)) (hp : p < 0 ∨ 100 < p) :
    apiStep s (.callZone id (.setDamperPercentage p)) = (s, [.result "ValueError"]) := by
  have : (p < 0 ∨ p > 100) := hp
  simp [apiStep, h, zoneCall, this, raise, callOut]

example : (apiStep exState (.callZone 0 (.setDamperPercentage 101))).2 = [.result "ValueError"] ∧
    (apiStep exState (.callZone 0 (.setDamperPercentage (-1)))).2 = [.result "ValueError"] := by decide

theorem C11_set_point_without_sensor_refused_at5 (s : State) (id r : Nat) (z : ZoneObj) (t : Int)
    (h : s.zone? id = some (r, z)) (hs : z.status.has_sensor = false) :
    apiStep s (.callZone id (.setTargetTemperature t)) = (s, [.result "ValueError"]) := by
  simp [apiStep, h, zoneCall, hs, raise, callOut]

example : (apiStep exState (.callZone 0 (.setTargetTemperature 2100))).2 = [.result "ValueError"] := by decide

/-! ## 2. every call leaves the state alone and sends exactly one message iff it answers OK -/

/-- every AC call: state unchanged; either one `SEND` followed by `RESULT OK`, or only `RESULT <exception>` -/
theorem C11_ac_call_one_send_at5 (s : State) (id : Nat) (c : AcCall) :
    (apiStep s (.callAc id c)).1 = s ∧
    ((∃ p m b, (apiStep s (.callAc id c)).2 = [.send p m b, .result "OK"]) ∨
     (∃ e, (apiStep s (.callAc id c)).2 = [.result e] ∧ e ≠ "OK")) := by
  simp only [apiStep]
  cases h : s.ac? id with
  | none => exact ⟨rfl, .inr ⟨"KeyError", rfl, by decide⟩⟩
  | some ra =>
    obtain ⟨r, a⟩ := ra
    obtain ⟨h1, h2⟩ := acCall_shape s a c
    refine ⟨h1, ?_⟩
    rcases h2 with ⟨p, m, b, ho, he⟩ | ⟨e, ho, he, hne⟩
    · exact .inl ⟨p, m, b, by simp [callOut, ho, he]⟩
    · exact .inr ⟨e, by simp [callOut, ho, he], hne⟩

theorem C11_zone_call_one_send_at5 (s : State) (id : Nat) (c : ZoneCall) :
    (apiStep s (.callZone id c)).1 = s ∧
    ((∃ p m b, (apiStep s (.callZone id c)).2 = [.send p m b, .result "OK"]) ∨
     (∃ e, (apiStep s (.callZone id c)).2 = [.result e] ∧ e ≠ "OK")) := by
  simp only [apiStep]
  cases h : s.zone? id with
  | none => exact ⟨rfl, .inr ⟨"KeyError", rfl, by decide⟩⟩
  | some rz =>
    obtain ⟨r, z⟩ := rz
    obtain ⟨h1, h2⟩ := zoneCall_shape s z c
    refine ⟨h1, ?_⟩
    rcases h2 with ⟨p, m, b, ho, he⟩ | ⟨e, ho, he, hne⟩
    · exact .inl ⟨p, m, b, by simp [callOut, ho, he]⟩
    · exact .inr ⟨e, by simp [callOut, ho, he], hne⟩

/-- an accepted `set_mode`: exactly the one control message for this AC -/
theorem C11_set_mode_sends_at5 (s : State) (id r : Nat) (a : AcObj) (m : ApiEnums.AcMode) (po : Bool)
    (c : Gen.At5.XC022AcCtrl.AcModeControl) (h : s.ac? id = some (r, a)) (hopen : s.sockOpen = true)
    (hm : m ∈ a.supportedModes) (hc : API_MODE_CONTROL_MAPPING m = some c) :
    apiStep s (.callAc id (.setMode m po)) =
      (s, [.send .idempotent (msgAcControl ⟨a.id, if po then .TURN_ON else .UNCHANGED, c, .UNCHANGED, none⟩) false, .result "OK"]) := by
  cases po <;> simp [apiStep, h, acCall, hm, hc, sendAcControl, sendMsg, hopen, callOut]

example : (apiStep exState (.callAc 1 (.setMode .HEAT true))).2 =
    [.send .idempotent (msgAcControl ⟨1, .TURN_ON, .HEAT, .UNCHANGED, none⟩) false, .result "OK"] := by decide

theorem C11_set_fan_speed_sends_at5 (s : State) (id r : Nat) (a : AcObj) (f : ApiEnums.AcFanSpeed)
    (c : Gen.At5.XC022AcCtrl.AcFanSpeedControl) (h : s.ac? id = some (r, a)) (hopen : s.sockOpen = true)
    (hf : f ∈ a.supportedFanSpeeds) (hc : API_FAN_SPEED_CONTROL_MAPPING f = some c) :
    apiStep s (.callAc id (.setFanSpeed f)) =
      (s, [.send .idempotent (msgAcControl ⟨a.id, .UNCHANGED, .UNCHANGED, c, none⟩) false, .result "OK"]) := by
  simp [apiStep, h, acCall, hf, hc, sendAcControl, sendMsg, hopen, callOut]

example : (apiStep exState (.callAc 1 (.setFanSpeed .HIGH))).2 =
    [.send .idempotent (msgAcControl ⟨1, .UNCHANGED, .UNCHANGED, .HIGH, none⟩) false, .result "OK"] := by decide

theorem C11_set_power_sends_at5 (s : State) (id r : Nat) (a : AcObj) (p : ApiEnums.AcPowerControl)
    (c : Gen.At5.XC022AcCtrl.AcPowerControl) (h : s.ac? id = some (r, a)) (hopen : s.sockOpen = true)
    (hc : API_POWER_CONTROL_MAPPING p = some c) :
    apiStep s (.callAc id (.setPower p)) =
      (s, [.send (if c = .TOGGLE then .nonIdempotent else .idempotent)
            (msgAcControl ⟨a.id, c, .UNCHANGED, .UNCHANGED, none⟩)
            false, .result "OK"]) := by
  have hp := C11_all_power_controls_supported_at5 p
  simp [apiStep, h, acCall, hp, hc, sendAcControl, sendMsg, hopen, callOut]

example : (apiStep exState (.callAc 1 (.setPower .SET_TO_SLEEP))).2 =
    [.send .idempotent (msgAcControl ⟨1, .SET_TO_SLEEP, .UNCHANGED, .UNCHANGED, none⟩) false, .result "OK"] := by decide

/-! ## 3. set-points -/

/-- `set_target_temperature` on an AC: one control message whose set-point is the argument rounded to 0.1 °C
(`roundTenths`, Python's `round(x, 1)`) and clipped into the limits of the current mode -/
theorem C11_ac_set_point_sends_at5 (s : State) (id r : Nat) (a : AcObj) (t : Int)
    (h : s.ac? id = some (r, a)) (hopen : s.sockOpen = true) :
    apiStep s (.callAc id (.setTargetTemperature t)) =
      (s, [.send .idempotent (msgAcControl ⟨a.id, .UNCHANGED, .UNCHANGED, .UNCHANGED, some (clip a.minTarget a.maxTarget (roundTenths t)).1⟩)
            (clip a.minTarget a.maxTarget (roundTenths t)).2, .result "OK"]) := by
  simp [apiStep, h, acCall, sendAcControl, sendMsg, hopen, callOut]

/-- rounding: the result is a whole number of tenths within 0.05 °C of the argument (hundredths); an argument with
one decimal is not changed -/
theorem C11_rounding_at5 (t : Int) :
    10 * roundTenths t - t ≤ 5 ∧ t - 10 * roundTenths t ≤ 5 ∧ roundTenths (10 * (roundTenths t)) = roundTenths t :=
  ⟨(roundTenths_close t).1, (roundTenths_close t).2, roundTenths_exact _⟩

/-- clipping (for limits `lo ≤ hi`, whole degrees): inside the range the rounded value is kept, below / above it the
limit is sent; the result always lies in the range -/
theorem C11_clipping_at5 (lo hi : Nat) (r : Int) (h : lo ≤ hi) :
    10 * (lo : Int) ≤ (clip lo hi r).1 ∧ (clip lo hi r).1 ≤ 10 * (hi : Int) ∧
    (10 * (lo : Int) ≤ r → r ≤ 10 * (hi : Int) → (clip lo hi r).1 = r) ∧
    (r ≤ 10 * (lo : Int) → (clip lo hi r).1 = 10 * (lo : Int)) ∧
    (10 * (hi : Int) ≤ r → (clip lo hi r).1 = 10 * (hi : Int)) :=
  ⟨(clip_range lo hi r h).1, (clip_range lo hi r h).2, clip_id lo hi r, clip_low lo hi r h, clip_high lo hi r h⟩

/-- 21.55 → 21.6 (the double nearest to 21.55 lies above the tie); 21.25 → 21.2 and 21.75 → 21.8 (exact ties, half to
even); 31.0 in AUTO mode with limits 16 … 30 → the limit 30 -/
example : roundTenths 2155 = 216 ∧ roundTenths 2125 = 212 ∧ roundTenths 2175 = 218 ∧ roundTenths (-2155) = -216 ∧
    (apiStep exState (.callAc 1 (.setTargetTemperature 3100))).2 =
      [.send .idempotent (msgAcControl ⟨1, .UNCHANGED, .UNCHANGED, .UNCHANGED, some 300⟩) true, .result "OK"] ∧
    (apiStep exState (.callAc 1 (.setTargetTemperature 2155))).2 =
      [.send .idempotent (msgAcControl ⟨1, .UNCHANGED, .UNCHANGED, .UNCHANGED, some 216⟩) false, .result "OK"] := by decide

/-- `set_target_temperature` on a zone with a sensor: rounded only, never clipped -/
theorem C11_zone_set_point_sends_at5 (s : State) (id r : Nat) (z : ZoneObj) (t : Int)
    (h : s.zone? id = some (r, z)) (hopen : s.sockOpen = true) (hs : z.status.has_sensor = true) :
    apiStep s (.callZone id (.setTargetTemperature t)) =
      (s, [.send .idempotent (msgZoneControl ⟨z.id, .UNCHANGED, some (.setPoint (roundTenths t))⟩) false, .result "OK"]) := by
  simp [apiStep, h, zoneCall, hs, sendZoneControl, sendMsg, hopen, callOut]

def exSensorState : State :=
  { exState with zobjs := [{ newZone 0 [] with fwd := [0], status := { (newZone 0 []).status with has_sensor := true } }] }

/-- 99.99 °C on a zone: sent as 100.0 °C -/
example : (apiStep exSensorState (.callZone 0 (.setTargetTemperature 9999))).2 =
    [.send .idempotent (msgZoneControl ⟨0, .UNCHANGED, some (.setPoint 1000)⟩) false, .result "OK"] := by decide

theorem C11_damper_sends_at5 (s : State) (id r : Nat) (z : ZoneObj) (p : Nat)
    (h : s.zone? id = some (r, z)) (hopen : s.sockOpen = true) (hp : p ≤ 100) :
    apiStep s (.callZone id (.setDamperPercentage p)) =
      (s, [.send .idempotent (msgZoneControl ⟨z.id, .UNCHANGED, some (.damper p)⟩) false, .result "OK"]) := by
  have h1 : ¬ ((p : Int) < 0 ∨ (p : Int) > 100) := by omega
  simp [apiStep, h, zoneCall, h1, sendZoneControl, sendMsg, hopen, callOut]

example : (apiStep exState (.callZone 0 (.setDamperPercentage 100))).2 =
    [.send .idempotent (msgZoneControl ⟨0, .UNCHANGED, some (.damper 100)⟩) false, .result "OK"] := by decide

theorem C11_zone_power_sends_at5 (s : State) (id r : Nat) (z : ZoneObj) (p : ApiEnums.ZonePowerState)
    (c : Gen.At5.XC020ZoneCtrl.ZonePowerControl) (h : s.zone? id = some (r, z)) (hopen : s.sockOpen = true)
    (hc : API_ZONE_POWER_MAPPING p = some c) :
    apiStep s (.callZone id (.setPower p)) =
      (s, [.send (if c = .TOGGLE then .nonIdempotent else .idempotent)
            (msgZoneControl ⟨z.id, c, none⟩) false, .result "OK"]) := by
  have hp := C11_all_zone_power_states_supported_at5 p
  simp [apiStep, h, zoneCall, hp, hc, sendZoneControl, sendMsg, hopen, callOut]

example : (apiStep exState (.callZone 0 (.setPower .TURBO))).2 =
    [.send .idempotent (msgZoneControl ⟨0, .TURBO, none⟩) false, .result "OK"] := by decide

/-! ## 4. quick timers: the other timer is re-sent exactly as last reported -/

theorem C11_set_quick_timer_time_at5 (s : State) (id r : Nat) (a : AcObj) (tt : ApiEnums.AcTimerType) (hour minute : Nat)
    (h : s.ac? id = some (r, a)) (hopen : s.sockOpen = true) (hh : hour < 24) (hm : minute < 60) :
    apiStep s (.callAc id (.setQuickTimerTime tt hour minute)) =
      (s, [.send .idempotent (msgTimerControl ⟨a.id, (timerPair a tt ⟨false, hour, minute⟩).1, (timerPair a tt ⟨false, hour, minute⟩).2⟩)
            false, .result "OK"]) := by
  cases tt <;> simp [apiStep, h, acCall, hh, hm, sendTimerControl, sendMsg, hopen, callOut, timerPair]

theorem C11_clear_quick_timer_at5 (s : State) (id r : Nat) (a : AcObj) (tt : ApiEnums.AcTimerType)
    (h : s.ac? id = some (r, a)) (hopen : s.sockOpen = true) :
    apiStep s (.callAc id (.clearQuickTimer tt)) =
      (s, [.send .idempotent (msgTimerControl ⟨a.id, (timerPair a tt ⟨true, 0, 0⟩).1, (timerPair a tt ⟨true, 0, 0⟩).2⟩)
            false, .result "OK"]) := by
  cases tt <;> simp [apiStep, h, acCall, sendTimerControl, sendMsg, hopen, callOut, timerPair]

/-- the duration form goes out as the quick-timer message of that timer only -/
theorem C11_set_quick_timer_duration_at5 (s : State) (id r : Nat) (a : AcObj) (tt : ApiEnums.AcTimerType) (secs : Nat)
    (c : Gen.At5.X1FFF49QuickTimer.TimerType) (h : s.ac? id = some (r, a)) (hopen : s.sockOpen = true)
    (hc : API_TIMER_TYPE_MAPPING tt = some c) :
    apiStep s (.callAc id (.setQuickTimerDuration tt secs)) =
      (s, [.send .idempotent (msgQuickTimer a.id c secs) false, .result "OK"]) := by
  simp [apiStep, h, acCall, hc, sendMsg, hopen, callOut]

def exTimerState : State :=
  { exState with aobjs := [{ newAc exAbility [0] [.HEAT] [.LOW] with timer := ⟨1, ⟨false, 6, 45⟩, ⟨false, 22, 15⟩⟩ }] }

/-- console reported ON 06:45 / OFF 22:15; setting OFF to 23:00 re-sends ON 06:45, clearing ON re-sends OFF 22:15 -/
example : (apiStep exTimerState (.callAc 1 (.setQuickTimerTime .OFF_TIMER 23 0))).2 =
      [.send .idempotent (msgTimerControl ⟨1, ⟨false, 6, 45⟩, ⟨false, 23, 0⟩⟩) false, .result "OK"] ∧
    (apiStep exTimerState (.callAc 1 (.clearQuickTimer .ON_TIMER))).2 =
      [.send .idempotent (msgTimerControl ⟨1, ⟨true, 0, 0⟩, ⟨false, 22, 15⟩⟩) false, .result "OK"] := by decide

end PyAirtouch.Props.C11
