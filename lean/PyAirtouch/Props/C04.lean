import PyAirtouch.Lemmas.SpecCmd
/-!
# C04 — commands on the wire mean what the vendor protocol says

Encoder direction, for the four control messages (AirTouch 4: 0x2A group control, 0x2C AC control; AirTouch 5:
0xC0/0x20 zone control, 0xC0/0x22 AC control).  `g4_` / `g5_` = AirTouch 4 / 5.  Restatements only; the proofs and the
`meaning…` tables (model enum member names ↦ vendor vocabulary) are in `Lemmas/SpecCmd.lean`.

* `C04_g?_encode_reads_<kind>` — for EVERY well-formed message (the model's `WF`; for AirTouch 5 any number of records
  that fits the count field) the encoder succeeds and the reader written from the vendor document, applied to the
  encoder's bytes (AirTouch 5: the 8-byte sub-header + records the 0xC0 wrapper writes), returns exactly `meaning m`
  (record by record, same order).  Added hypothesis, AirTouch 5 zone control only: `DocRange020` (zone index in six
  bits, percentage ≤ 100, set-point ≤ 35.0 °C) — the ranges the document gives and `WF` does not; the three
  `…_needs_…` / `…_refuted` theorems show each is needed.
* `C04_g?_addresses_<kind>` — the AC / zone / group number read is the message's.
* `C04_g?_changes_exactly_<kind>` — the attributes not read as "keep" are exactly the fields that are not the
  keep / UNCHANGED / `None` member.
* `C04_g?_value_exact_<kind>`, `C04_g?_value_boundary_<kind>…` — set-points and percentages are read back exactly over
  the admissible range; at the boundary of the encodable range the encoder refuses (`struct.error`: 0x2A above 255;
  AirTouch 5 set-points below 10.0 / above 35.5 °C) or — outside `WF` — masks (`…_refuted`: 0x2C set-point 64 is sent
  as 0; AirTouch 5 AC set-point 0.0 is sent as "keep").
* `C04_g?_frame_bytes`, `C04_g?_frame_fields`, `C04_g?_frame_reads` — frame clause, for every well-formed message of
  the registry (not only the control messages): to-address 0x80, 0x90 iff the type is 0x1F; from-address 0xB0; length
  field = number of payload bytes; last two bytes = `Spec.checkBytes` (CRC-16/MODBUS, high byte first) of address …
  payload; read by the vendor's frame reader it is one frame with good check bytes and that address / id / type / data.
* `C04_g?_wire_<kind>` — end to end: message object → `frameOf` (the model of `send` + `_write`) → vendor frame reader →
  vendor command reader = `meaning m`.
-/
namespace PyAirtouch.Props.C04
open PyAirtouch.Model PyAirtouch.Lemmas.SpecCmd

/-! ## AirTouch 4, 0x2A group control -/
theorem C04_g4_encode_reads_2A : type_of% @encode_reads_2A := @encode_reads_2A
theorem C04_g4_encode_reads_2A' : type_of% @encode_reads_2A' := @encode_reads_2A'
theorem C04_g4_addresses_2A : type_of% @addresses_2A := @addresses_2A
theorem C04_g4_changedAttrs_meaning2A : type_of% @changedAttrs_meaning2A := @changedAttrs_meaning2A
theorem C04_g4_changes_exactly_2A : type_of% @changes_exactly_2A := @changes_exactly_2A
theorem C04_g4_value_exact_2A : type_of% @value_exact_2A := @value_exact_2A
theorem C04_g4_value_boundary_2A : type_of% @value_boundary_2A := @value_boundary_2A
theorem C04_g4_wellFormed_2A : type_of% @wellFormed_2A := @wellFormed_2A

/-! ## AirTouch 4, 0x2C AC control -/
theorem C04_g4_encode_reads_2C : type_of% @encode_reads_2C := @encode_reads_2C
theorem C04_g4_encode_reads_2C' : type_of% @encode_reads_2C' := @encode_reads_2C'
theorem C04_g4_read_encodeBytes_2C : type_of% @read_encodeBytes_2C := @read_encodeBytes_2C
theorem C04_g4_encode_reads_2C_needs_wf : type_of% @encode_reads_2C_needs_wf := @encode_reads_2C_needs_wf
theorem C04_g4_addresses_2C : type_of% @addresses_2C := @addresses_2C
theorem C04_g4_changedAttrs_meaning2C : type_of% @changedAttrs_meaning2C := @changedAttrs_meaning2C
theorem C04_g4_changes_exactly_2C : type_of% @changes_exactly_2C := @changes_exactly_2C
theorem C04_g4_value_exact_2C : type_of% @value_exact_2C := @value_exact_2C
theorem C04_g4_value_boundary_2C : type_of% @value_boundary_2C := @value_boundary_2C
theorem C04_g4_value_boundary_2C_refuted : type_of% @value_boundary_2C_refuted := @value_boundary_2C_refuted
theorem C04_g4_wellFormed_2C : type_of% @wellFormed_2C := @wellFormed_2C

/-! ## AirTouch 5, 0xC0/0x20 zone control -/
theorem C04_g5_encode_reads_C020 : type_of% @encode_reads_C020 := @encode_reads_C020
theorem C04_g5_encode_reads_C020' : type_of% @encode_reads_C020' := @encode_reads_C020'
theorem C04_g5_readZoneControlRecord_recBytes : type_of% @readZoneControlRecord_recBytes :=
  @readZoneControlRecord_recBytes
theorem C04_g5_addresses_C020 : type_of% @addresses_C020 := @addresses_C020
theorem C04_g5_changes_meaningZoneRec : type_of% @changes_meaningZoneRec := @changes_meaningZoneRec
theorem C04_g5_changes_exactly_C020 : type_of% @changes_exactly_C020 := @changes_exactly_C020
theorem C04_g5_value_exact_C020 : type_of% @value_exact_C020 := @value_exact_C020
theorem C04_g5_encode_reads_C020_needs_zone_lt_64 : type_of% @encode_reads_C020_needs_zone_lt_64 :=
  @encode_reads_C020_needs_zone_lt_64
theorem C04_g5_value_boundary_C020_setpoint_refuted : type_of% @value_boundary_C020_setpoint_refuted :=
  @value_boundary_C020_setpoint_refuted
theorem C04_g5_value_boundary_C020_percentage_refuted : type_of% @value_boundary_C020_percentage_refuted :=
  @value_boundary_C020_percentage_refuted
theorem C04_g5_value_boundary_C020_unencodable : type_of% @value_boundary_C020_unencodable :=
  @value_boundary_C020_unencodable

/-! ## AirTouch 5, 0xC0/0x22 AC control -/
theorem C04_g5_encode_reads_C022 : type_of% @encode_reads_C022 := @encode_reads_C022
theorem C04_g5_encode_reads_C022' : type_of% @encode_reads_C022' := @encode_reads_C022'
theorem C04_g5_readAcControlRecord_recBytes : type_of% @readAcControlRecord_recBytes := @readAcControlRecord_recBytes
theorem C04_g5_encode_reads_C022_needs_wf : type_of% @encode_reads_C022_needs_wf := @encode_reads_C022_needs_wf
theorem C04_g5_addresses_C022 : type_of% @addresses_C022 := @addresses_C022
theorem C04_g5_changes_meaningAcRec : type_of% @changes_meaningAcRec := @changes_meaningAcRec
theorem C04_g5_changes_exactly_C022 : type_of% @changes_exactly_C022 := @changes_exactly_C022
theorem C04_g5_value_exact_C022 : type_of% @value_exact_C022 := @value_exact_C022
theorem C04_g5_value_boundary_C022_unencodable : type_of% @value_boundary_C022_unencodable :=
  @value_boundary_C022_unencodable
theorem C04_g5_value_boundary_C022_zero_refuted : type_of% @value_boundary_C022_zero_refuted :=
  @value_boundary_C022_zero_refuted

/-! ## Frame clause and end-to-end theorems -/
theorem C04_g4_frame_bytes : type_of% @frame_bytes_g4 := @frame_bytes_g4
theorem C04_g4_frame_fields : type_of% @frame_fields_g4 := @frame_fields_g4
theorem C04_g4_frame_reads : type_of% @frame_reads_g4 := @frame_reads_g4
theorem C04_g4_wire_2A : type_of% @wire_2A := @wire_2A
theorem C04_g4_wire_2C : type_of% @wire_2C := @wire_2C
theorem C04_g5_frame_bytes : type_of% @frame_bytes_g5 := @frame_bytes_g5
theorem C04_g5_frame_fields : type_of% @frame_fields_g5 := @frame_fields_g5
theorem C04_g5_frame_reads : type_of% @frame_reads_g5 := @frame_reads_g5
theorem C04_g5_wire_C020 : type_of% @wire_C020 := @wire_C020
theorem C04_g5_wire_C022 : type_of% @wire_C022 := @wire_C022
/-- the to-address constants of both header factories (already C03): extended 0x90, normal 0x80, from 0xB0 -/
theorem C04_g4_toAddress_values : type_of% @PyAirtouch.Lemmas.Registry4.toAddress_values :=
  @PyAirtouch.Lemmas.Registry4.toAddress_values
theorem C04_g5_toAddress_values : type_of% @PyAirtouch.Lemmas.Registry5.toAddress_values :=
  @PyAirtouch.Lemmas.Registry5.toAddress_values

/-! ## Non-vacuity: the vendor documents' own example commands

Each example builds the model message for the command the document describes in words, shows that the send path
writes exactly the bytes printed in the document, and instantiates the theorems above. -/

section Examples4
open PyAirtouch.Model.At4 PyAirtouch.Model.At4.Registry

/-- AirTouch 4 v1.6, 4.a "Turn off the second group" -/
def g4GroupOff : X2A.Msg := ⟨1, .TURN_OFF, .UNCHANGED, .none⟩
/-- 4.a "Set first group to percentage control" -/
def g4GroupPercentage : X2A.Msg := ⟨0, .UNCHANGED, .DAMPER, .none⟩
/-- 4.c "Turn off the second AC" -/
def g4AcOff : X2C.Msg := ⟨1, .TURN_OFF, .UNCHANGED, .UNCHANGED, .none⟩
/-- not in the document: set-point 24 °C on AC 3 and nothing else -/
def g4AcSetpoint : X2C.Msg := ⟨3, .UNCHANGED, .UNCHANGED, .UNCHANGED, .value 24⟩

-- the send path writes the document's bytes (packet id 1)
example : frameOf 1 (.groupCtrl g4GroupOff) = .ok Spec.At4.exGroupOff := by decide +kernel
example : frameOf 1 (.groupCtrl g4GroupPercentage) = .ok Spec.At4.exGroupPercentage := by decide +kernel
example : frameOf 1 (.acCtrl g4AcOff) = .ok Spec.At4.exAcOff := by decide +kernel

-- the meaning tables give the document's reading of its own examples
example : meaning2A g4GroupOff =
    { group := 1, setting := .keep, controlMethod := .keep, power := .off, value := 0, reserved := 0 } := rfl
example : meaning2C g4AcOff =
    { ac := 1, power := .off, mode := .keep 15, fanSpeed := .keep 15, setpoint := .keep, setpointValue := 0x3f,
      reserved := 0 } := rfl
example : Spec.At4.readWire Spec.At4.exGroupOff = some (.groupControl (meaning2A g4GroupOff)) := by decide +kernel
example : Spec.At4.readWire Spec.At4.exAcOff = some (.acControl (meaning2C g4AcOff)) := by decide +kernel

-- the theorems apply (hypotheses satisfiable) and give these readings
example : X2A.WF g4GroupOff := by decide
example : X2C.WF g4AcOff ∧ X2C.WF g4AcSetpoint := by decide
example : ∃ bs, X2A.encode g4GroupOff = .ok bs ∧ bs.length = 4 ∧
    Spec.At4.readGroupControl bs = some (meaning2A g4GroupOff) := C04_g4_encode_reads_2A g4GroupOff (by decide)
example : (Spec.At4.readGroupControl [0x01, 0x02, 0x00, 0x00]).map Spec.At4.GroupControl.changedAttrs =
    some ["power"] := C04_g4_changes_exactly_2A g4GroupOff _ (by decide)
example : (Spec.At4.readGroupControl [0x00, 0x10, 0x00, 0x00]).map Spec.At4.GroupControl.changedAttrs =
    some ["control_method"] := C04_g4_changes_exactly_2A g4GroupPercentage _ (by decide)
example : (Spec.At4.readAcControl [0x81, 0xff, 0x3f, 0x00]).map Spec.At4.AcControl.changedAttrs = some ["power"] :=
  C04_g4_changes_exactly_2C g4AcOff (by decide) _ (by decide)
example : (Spec.At4.readAcControl [0x03, 0xff, 0x58, 0x00]).map Spec.At4.AcControl.changedAttrs = some ["setpoint"] ∧
    (Spec.At4.readAcControl [0x03, 0xff, 0x58, 0x00]).map (·.setpoint) = some (.set 240) :=
  ⟨C04_g4_changes_exactly_2C g4AcSetpoint (by decide) _ (by decide),
   (C04_g4_value_exact_2C 3 .UNCHANGED .UNCHANGED .UNCHANGED 24 (by decide) (by decide) _ (by decide)).1⟩
example : ∃ fr, frameOf 1 (.groupCtrl g4GroupOff) = .ok fr ∧ fr.length = 14 ∧ fr.getD 2 0 = 0x80 ∧
    fr.getD 3 0 = 0xB0 ∧ Spec.At4.readWire fr = some (.groupControl (meaning2A g4GroupOff)) :=
  C04_g4_wire_2A 1 (by decide) g4GroupOff (by decide)
-- the frame clause applied to an extended (0x1F) message: to-address 0x90
example : ∃ fr, frameOf 1 (.extended (.consoleVer .request)) = .ok fr ∧ fr.getD 2 0 = 0x90 ∧ fr.getD 3 0 = 0xB0 := by
  obtain ⟨fr, h⟩ := PyAirtouch.Lemmas.Registry4.frameOf_ok (.extended (.consoleVer .request)) 1
    (by decide +kernel) (by decide) (by intro n hn; cases hn; decide)
  obtain ⟨_, _, _, h2, h3, _⟩ := C04_g4_frame_fields 1 _ (by decide +kernel) fr h
  exact ⟨fr, h, h2, h3⟩

end Examples4

section Examples5
open PyAirtouch.Model.At5 PyAirtouch.Model.At5.Registry

/-- AirTouch 5 v1.2, 4.a.i "Turn off the second zone" -/
def g5ZoneOff : C020.Msg := ⟨[⟨1, .TURN_OFF, none⟩]⟩
/-- not in the document: zone 3 to 50 % and zone 4 to 24.0 °C in one message -/
def g5ZoneTwo : C020.Msg := ⟨[⟨3, .UNCHANGED, some (.damper 50)⟩, ⟨4, .UNCHANGED, some (.setPoint 240)⟩]⟩
/-- 4.a.iii "Turn off the second AC" -/
def g5AcOff : C022.Msg := ⟨[⟨1, .TURN_OFF, .UNCHANGED, .UNCHANGED, none⟩]⟩
/-- 4.a.iii "Set the first AC to cool mode and second AC 26 degree" -/
def g5AcTwo : C022.Msg :=
  ⟨[⟨0, .UNCHANGED, .COOL, .UNCHANGED, none⟩, ⟨1, .UNCHANGED, .UNCHANGED, .UNCHANGED, some 260⟩]⟩

-- the registry's encoder writes the document's data bytes …
example : encodeMsg (.controlStatus (.zoneCtrl g5ZoneOff)) = .ok Spec.At5.exZoneControlData := by decide +kernel
example : encodeMsg (.controlStatus (.acCtrl g5AcOff)) = .ok Spec.At5.exAcControlOffData := by decide +kernel
example : encodeMsg (.controlStatus (.acCtrl g5AcTwo)) = .ok Spec.At5.exAcControlTwoData := by decide +kernel
-- … and the send path the document's frames behind the 10-byte outer wrapper (packet ids 0x0F and 1 as printed)
example : frameOf 0x0F (.controlStatus (.zoneCtrl g5ZoneOff)) =
    .ok (outerWrapper 12 ++ Spec.At5.exZoneControlFrame) := by decide +kernel
example : frameOf 1 (.controlStatus (.acCtrl g5AcOff)) =
    .ok (outerWrapper 12 ++ Spec.At5.exAcControlOffFrame) := by decide +kernel

example : meaningC020 g5ZoneOff =
    [{ zone := 1, setting := .keep, controlType := .keep, power := .off, value := .keep, valueRaw := 0xFF,
       reservedZero := true }] := rfl
example : meaningC022 g5AcTwo =
    [{ ac := 0, power := .keep, mode := .cool, fanSpeed := .keep, setpoint := .keep, setpointValueRaw := 0xFF },
     { ac := 1, power := .keep, mode := .keep, fanSpeed := .keep, setpoint := .set 260, setpointValueRaw := 0xA0 }] := by
  decide

-- the theorems apply (hypotheses satisfiable) and give these readings
example : C020.WF g5ZoneTwo ∧ (∀ z ∈ g5ZoneTwo.zone_control, DocRange020 z) := by decide
example : Spec.At5.readZoneControl Spec.At5.exZoneControlData = some (meaningC020 g5ZoneOff) :=
  C04_g5_encode_reads_C020' g5ZoneOff (by decide) (by decide) (by decide) _ (by decide +kernel)
example : (Spec.At5.readZoneControl Spec.At5.exZoneControlData).map (·.map (·.changes)) = some [["power"]] :=
  C04_g5_changes_exactly_C020 g5ZoneOff (by decide) (by decide) (by decide) _ (by decide +kernel)
example : Spec.At5.readAcControl Spec.At5.exAcControlTwoData = some (meaningC022 g5AcTwo) :=
  C04_g5_encode_reads_C022' g5AcTwo (by decide) (by decide) _ (by decide +kernel)
example : (Spec.At5.readAcControl Spec.At5.exAcControlTwoData).map (·.map (·.changes)) =
    some [["mode"], ["setpoint"]] :=
  C04_g5_changes_exactly_C022 g5AcTwo (by decide) (by decide) _ (by decide +kernel)
example : ∃ fr f, frameOf 1 (.controlStatus (.acCtrl g5AcOff)) = .ok fr ∧
    Spec.At5.readFrame (fr.drop 10) = some f ∧ Spec.At5.frameOk (fr.drop 10) = true ∧
    f.address = Spec.At5.addrToAirtouch ∧ f.msgId = 1 ∧ Spec.At5.MsgType.ofCode f.msgType = .controlStatus ∧
    Spec.At5.readControlStatus f.data = some (.acControl (meaningC022 g5AcOff)) :=
  C04_g5_wire_C022 1 (by decide) g5AcOff (by decide) (by decide)
-- the frame clause applied to an extended (0x1F) message: to-address 0x90
example : ∃ fr, frameOf 1 (.extended (.consoleVer .request)) = .ok fr ∧ fr.getD 14 0 = 0x90 ∧ fr.getD 15 0 = 0xB0 := by
  obtain ⟨fr, h⟩ := PyAirtouch.Lemmas.Registry5.frameOf_ok (.extended (.consoleVer .request)) 1
    (by decide +kernel) (by decide) (by intro n hn; cases hn; decide)
  obtain ⟨_, _, _, h14, h15, _⟩ := C04_g5_frame_fields 1 _ (by decide +kernel) fr h
  exact ⟨fr, h, h14, h15⟩

end Examples5

end PyAirtouch.Props.C04
