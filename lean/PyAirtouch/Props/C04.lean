/- placeholder until the control-encoder theorems are merged -/
import PyAirtouch.Spec.At4Read
