import PyAirtouch.Lemmas.Frame
import PyAirtouch.Model.At4.Registry
/-! # C06 — receive path: what the check covers, and damaged frames are never delivered -/
namespace PyAirtouch.Props.C06

/-! ### The receive path: span of the check, and "delivered only if valid" -/

/-- the check covers address … payload: for AirTouch 4 the header bytes after the 2-byte prefix -/
theorem C06_span_at4 : type_of% @PyAirtouch.Lemmas.Frame.at4_hdr_checksum_span := @PyAirtouch.Lemmas.Frame.at4_hdr_checksum_span
/-- … for AirTouch 5 the last six header bytes (the outer header and both prefixes are excluded) -/
theorem C06_span_at5 : type_of% @PyAirtouch.Lemmas.Frame.at5_hdr_checksum_span := @PyAirtouch.Lemmas.Frame.at5_hdr_checksum_span
/-- whatever the byte stream: a frame reaches the decoder and the subscribers only if `validate` accepted its check bytes -/
theorem C06_delivered_only_if_valid : type_of% @PyAirtouch.Lemmas.Frame.parseOne_deliver_valid :=
  @PyAirtouch.Lemmas.Frame.parseOne_deliver_valid
/-- a frame whose check bytes do not validate is rejected (the read loop then resets the connection, see C17_reject_resets) -/
theorem C06_bad_check_rejected : type_of% @PyAirtouch.Lemmas.Frame.parseOne_bad_crc := @PyAirtouch.Lemmas.Frame.parseOne_bad_crc


-- non-vacuity: the vendor frame with one flipped payload-side bit is rejected by the AirTouch 4 receive path
open PyAirtouch.Model in
example : (match Frame.parseOne At4.Registry.proto [0x55, 0x55, 0x80, 0xb0, 0x01, 0x2b, 0x00, 0x00, 0xf5, 0x2e] with | .reject none => true | _ => false) = true := by
  decide +kernel

end PyAirtouch.Props.C06
