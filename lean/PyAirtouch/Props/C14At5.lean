import PyAirtouch.Lemmas.Api5Time
/-!
# C14 (AirTouch 5) — refresh after a reconnect, no polling, unchanged reports are silent

* a "connected" notification outside the CONNECTING state sends exactly the AC status request followed by the zone
  status request, both with the connected-only policy, and changes nothing else;
* the AirTouch 5 object owns no poll loop: passing time can only (1) time out a waiting `init()` and (2) drive the
  heartbeat manager (heartbeat request, connection reset).  No status request is ever sent by a timer and no entity
  changes; with the heartbeat manager idle, passing time emits nothing but `init()` time-outs;
* a status report that repeats the current state changes nothing and notifies nobody.
-/
namespace PyAirtouch.Props.C14
open PyAirtouch.Model PyAirtouch.Model.Api5 PyAirtouch.Model.At5 PyAirtouch.Model.At5.Registry
open PyAirtouch.Model.TimerCommon (AcTimerState AcTimerStatusData)
open PyAirtouch.Gen PyAirtouch.Gen.Api5 PyAirtouch.Lemmas.Api5

/-! ## 1. refresh after a reconnect -/

theorem C14_reconnect_refresh_at5 (s : State) (hsub : s.sockSubscribed = true) (hopen : s.sockOpen = true)
    (hst : s.st ≠ .CONNECTING) :
    (apiStep s (.conn true)).2 =
      [.send .connected msgAcStatusRequest false, .send .connected msgZoneStatusRequest false] ∧
    ∃ hb', (apiStep s (.conn true)).1 = { s with hb := hb' } := by
  simp [apiStep, doConn, hbFeed, hsub, handleConnection, hst, sendMsg, hopen, HR.andThen, excOut]

/-- losing the connection sends nothing and changes nothing (but the socket's flag seen by the heartbeat manager) -/
theorem C14_disconnect_silent_at5 (s : State) :
    (apiStep s (.conn false)).2 = [] ∧ ∃ hb', (apiStep s (.conn false)).1 = { s with hb := hb' } := by
  by_cases hs : s.sockSubscribed = true <;> simp [apiStep, doConn, hbFeed, handleConnection, hs, excOut]

def exAbility : FF11.AcAbility :=
  { ac_number := 1, ac_name := [], start_zone := 0, zone_count := 1, ac_mode_support := [], fan_speed_support := [],
    min_cool_set_point := 17, max_cool_set_point := 30, min_heat_set_point := 16, max_heat_set_point := 28 }

def exAc : AcObj := { newAc exAbility [0] [.HEAT] [.LOW] with subs := ["g"], subsState := ["t"] }

def exState : State :=
  { State.new [] [] [] [] with
    st := .CONNECTED, sockOpen := true, sockSubscribed := true, initialised := true,
    aobjs := [exAc], acs := [(1, 0)], zobjs := [{ newZone 0 [] with fwd := [0], subs := ["z"] }], zones := [(0, 0)] }

example : (apiStep exState (.conn true)).2 =
    [.send .connected msgAcStatusRequest false, .send .connected msgZoneStatusRequest false] := by decide

/-! ## 2. no poll loop -/

/-- whatever the state: time passing emits only `init()` time-outs, heartbeat requests and heartbeat resets … -/
theorem C14_no_poll_loop_at5 (s : State) (n : Nat) (o : Out) (h : o ∈ (apiStep s (.adv n)).2) :
    o = .result "init False" ∨ o = .send .connected hbMessage false ∨ o = .reset :=
  doAdv_out s n o h

/-- … in particular never a status request -/
theorem C14_timers_never_request_status_at5 (s : State) (n : Nat) (p : Policy) (b : Bool) :
    Out.send p msgAcStatusRequest b ∉ (apiStep s (.adv n)).2 ∧ Out.send p msgZoneStatusRequest b ∉ (apiStep s (.adv n)).2 ∧
    Out.send p msgAcTimerStatusRequest b ∉ (apiStep s (.adv n)).2 := by
  refine ⟨?_, ?_, ?_⟩ <;> intro h <;> rcases doAdv_out s n _ h with h | h | h <;> cases h

/-- … and time passing touches no entity, no subscriber, not the state machine: only the clock, the heartbeat manager
and the list of waiting `init()` calls -/
theorem C14_time_changes_nothing_else_at5 (s : State) (n : Nat) :
    ∃ hb' pend', (apiStep s (.adv n)).1 = { s with hb := hb', now := s.now + n, pendingInits := pend' } := by
  simp only [apiStep, doAdv]
  have key : ∀ (due : List Nat) (acc : State × List Out),
      ∃ hb', (due.foldl (fun (acc : State × List Out) d =>
        ((hbFeed acc.1 (.finish d)).1, acc.2 ++ (hbFeed acc.1 (.finish d)).2 ++ [Out.result "init False"])) acc).1 =
        { acc.1 with hb := hb' } := by
    intro due
    induction due with
    | nil => intro acc; exact ⟨acc.1.hb, rfl⟩
    | cons d due ih =>
      intro acc
      obtain ⟨hb', h⟩ := ih ((hbFeed acc.1 (.finish d)).1, acc.2 ++ (hbFeed acc.1 (.finish d)).2 ++ [Out.result "init False"])
      exact ⟨hb', by rw [List.foldl_cons, h]; rfl⟩
  obtain ⟨hb', h⟩ := key (s.pendingInits.filter (· ≤ s.now + n)) (s, [])
  exact ⟨_, _, by rw [h]; rfl⟩

/-- before the handshake has completed (heartbeat manager idle) passing time emits nothing but the time-outs of waiting
`init()` calls -/
theorem C14_idle_time_at5 (s : State) (n : Nat) (hi : HbIdle s.hb) :
    (apiStep s (.adv n)).2 = (s.pendingInits.filter (· ≤ s.now + n)).map (fun _ => Out.result "init False") :=
  (doAdv_idle s n hi).1

/-- ten minutes pass on a connected, idle-heartbeat system: nothing at all -/
example : (apiStep exState (.adv 4800)).2 = [] := by
  rw [C14_idle_time_at5 exState 4800 ⟨rfl, rfl⟩]; rfl

/-! ## 3. an unchanged refresh is silent -/

theorem C14_unchanged_ac_status_silent_at5 (s : State) (toAddr : Nat) (l : List C023.AcStatusData)
    (hsub : s.sockSubscribed = true) (hst : s.st = .CONNECTED) (hopen : s.sockOpen = true)
    (h : ∀ d ∈ l, ∀ r a, s.acRef d.ac_number = some r → s.aobjs[r]? = some a → a.status = d) :
    apiStep s (.msg toAddr (.controlStatus (.acStatus (.status l)))) = (s, []) := by
  rw [apiStep_acStatus_connected s toAddr l hsub hst hopen]
  exact runSteps_silent _ _ _ (fun d hd => acStatusStep_same s d (h d hd))

theorem C14_unchanged_zone_status_silent_at5 (s : State) (toAddr : Nat) (l : List C021.ZoneStatusData)
    (hsub : s.sockSubscribed = true) (hst : s.st = .CONNECTED)
    (h : ∀ d ∈ l, ∀ r z, s.zones.lookup d.zone_number = some r → s.zobjs[r]? = some z → z.status = d) :
    apiStep s (.msg toAddr (.controlStatus (.zoneStatus (.status l)))) = (s, []) := by
  rw [apiStep_zoneStatus_connected s toAddr l hsub hst]
  exact runSteps_silent _ _ _ (fun d hd => zoneStatusStep_same s d (h d hd))

theorem C14_unchanged_ac_timer_silent_at5 (s : State) (toAddr : Nat) (l : List AcTimerStatusData)
    (hsub : s.sockSubscribed = true) (hst : s.st = .CONNECTED)
    (h : ∀ d ∈ l, ∀ r a, s.acRef d.ac_number = some r → s.aobjs[r]? = some a → a.timer = d) :
    apiStep s (.msg toAddr (.controlStatus (.acTimerStatus (.status l)))) = (s, []) := by
  rw [apiStep_acTimer_connected s toAddr l hsub hst]
  exact runSteps_silent _ _ _ (fun d hd => acTimerStep_same s d (h d hd))

/-- the console answers the refresh with the state the API already has (and a record for an AC it does not know):
nothing is emitted although every entity has subscribers -/
example :
    (apiStep exState (.msg 176 (.controlStatus (.acStatus (.status [exAc.status, { exAc.status with ac_number := 9 }]))))).2 = [] ∧
    (apiStep exState (.msg 176 (.controlStatus (.zoneStatus (.status [(newZone 0 []).status]))))).2 = [] ∧
    (apiStep exState (.msg 176 (.controlStatus (.acTimerStatus (.status [exAc.timer]))))).2 = [] := by decide

end PyAirtouch.Props.C14
