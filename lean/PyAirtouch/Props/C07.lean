import PyAirtouch.Model.Sock
/-! placeholder until the proof files are merged -/
namespace PyAirtouch.Props.C07
theorem C07_placeholder : True := trivial
end PyAirtouch.Props.C07
