import PyAirtouch.Lemmas.SockConn
/-!
# C07 — the client never holds two connections; abandoned ones are closed

`conns[i]` is the transport returned by the `i`-th successful `open_connection`; it is *held open*
iff it is `live` (neither the client nor the network has closed it).  `rw` is the index of the
client's current reader/writer pair.  Every statement holds for every reachable state, i.e. for
every label sequence: every schedule of the tasks and every behaviour of the environment.
-/
namespace PyAirtouch.Props.C07
open PyAirtouch.Model.Sock PyAirtouch.Spec.Trace PyAirtouch.Lemmas.SockConn

/-- every transport the client still holds open is its current reader/writer -/
theorem C07_held_open_is_current {s : Sys} (h : Reachable s) :
    ∀ i : Nat, (s.core.conns[i]?.map ConnSt.isLive) = some true → s.core.rw = some i :=
  (inv_reachable h).core.live_rw

/-- non-vacuity: after open, connect, `reset_connection` and a reconnect, transport 1 is held open -/
example : ∃ s, Reachable s ∧ (s.core.conns[1]?.map ConnSt.isLive) = some true ∧ s.core.conns.length = 2 :=
  ⟨_, ⟨[.apiOpen, .run 1 .go, .run 1 .openOk, .run 1 .go, .apiReset, .envLostRan 0, .run 3 .go, .run 3 .go,
        .run 4 .go, .run 4 .openOk], rfl⟩, by decide⟩

/-- the client never holds two connections open -/
theorem C07_at_most_one_connection {s : Sys} (h : Reachable s) :
    ∀ i j : Nat, (s.core.conns[i]?.map ConnSt.isLive) = some true →
      (s.core.conns[j]?.map ConnSt.isLive) = some true → i = j := by
  intro i j hi hj
  have h1 := C07_held_open_is_current h i hi
  have h2 := C07_held_open_is_current h j hj
  rw [h1] at h2; exact Option.some.inj h2

/-- non-vacuity: a state with a held-open transport (and an older, closed one) -/
example : ∃ s, Reachable s ∧ (s.core.conns[1]?.map ConnSt.isLive) = some true ∧
    (s.core.conns[0]?.map ConnSt.isLive) = some false :=
  ⟨_, ⟨[.apiOpen, .run 1 .go, .run 1 .openOk, .run 1 .go, .apiReset, .envLostRan 0, .run 3 .go, .run 3 .go,
        .run 4 .go, .run 4 .openOk], rfl⟩, by decide⟩

/-- every connection ever opened that is not the current one is closing or closed -/
theorem C07_abandoned_are_closed {s : Sys} (h : Reachable s) :
    ∀ i : Nat, i < s.core.conns.length → s.core.rw ≠ some i →
      (s.core.conns[i]?.map ConnSt.isLive) = some false := by
  intro i hi hrw
  rw [List.getElem?_eq_getElem hi]
  cases hl : s.core.conns[i].isLive with
  | false => simp [hl]
  | true =>
    exact absurd (C07_held_open_is_current h i (by rw [List.getElem?_eq_getElem hi]; simp [hl])) hrw

/-- non-vacuity: transport 0 was abandoned by `reset_connection`; transport 1 is current -/
example : ∃ s, Reachable s ∧ 0 < s.core.conns.length ∧ s.core.rw ≠ some 0 ∧ s.core.rw = some 1 :=
  ⟨_, ⟨[.apiOpen, .run 1 .go, .run 1 .openOk, .run 1 .go, .apiReset, .envLostRan 0, .run 3 .go, .run 3 .go,
        .run 4 .go, .run 4 .openOk], rfl⟩, by decide⟩

/-- `is_connected` is set exactly when the client has a current reader/writer -/
theorem C07_connected_iff_current {s : Sys} (h : Reachable s) : s.core.isConnected = s.core.rw.isSome :=
  (inv_reachable h).core.conn_rw

/-- non-vacuity: a reachable connected state -/
example : ∃ s, Reachable s ∧ s.core.isConnected = true ∧ s.core.rw = some 0 :=
  ⟨_, ⟨[.apiOpen, .run 1 .go, .run 1 .openOk], rfl⟩, by decide⟩

/-- while `_connecting` is set the client is not connected -/
theorem C07_connecting_excludes_connected {s : Sys} (h : Reachable s) :
    s.core.connecting = true → s.core.isConnected = false :=
  (inv_reachable h).core.connecting

/-- non-vacuity: a reachable state with `_connecting` set -/
example : ∃ s, Reachable s ∧ s.core.connecting = true :=
  ⟨_, ⟨[.apiOpen, .run 1 .go], rfl⟩, by decide⟩

/-- at most one task is inside `open_connection` -/
theorem C07_one_opening_task {s : Sys} (h : Reachable s) :
    ∀ t t', pcAt s t = some .connOpening → pcAt s t' = some .connOpening → t = t' := by
  intro t t' ht ht'
  obtain ⟨k, hk, hp⟩ := pcAt_eq.mp ht
  obtain ⟨k', hk', hp'⟩ := pcAt_eq.mp ht'
  exact (inv_reachable h).opening_unique t t' k k' hk hk' (by rw [hp]; rfl) (by rw [hp']; rfl)

/-- non-vacuity: task 1 is inside `open_connection` while a second `_connect` task (scheduled by
    `reset_connection`) has run and given up -/
example : ∃ s, Reachable s ∧ pcAt s 1 = some .connOpening ∧ pcAt s 3 = some .finished :=
  ⟨_, ⟨[.apiOpen, .run 1 .go, .apiReset, .run 2 .go, .run 3 .go], rfl⟩, by decide⟩

/-- … and while one is, `_connecting` is set (so `_connect` refuses to start another) -/
theorem C07_opening_sets_connecting {s : Sys} (h : Reachable s) :
    ∀ t, pcAt s t = some .connOpening → s.core.connecting = true := by
  intro t ht
  obtain ⟨k, hk, hp⟩ := pcAt_eq.mp ht
  exact (inv_reachable h).opening_connecting t k hk (by rw [hp]; rfl)

/-- non-vacuity: as above -/
example : ∃ s, Reachable s ∧ pcAt s 1 = some .connOpening :=
  ⟨_, ⟨[.apiOpen, .run 1 .go], rfl⟩, by decide⟩

/-- the observable trace: at no point of any history are two transports open at once
    (`opened` events not yet followed by the matching `clientClose` / `lost`) -/
theorem C07_trace_single {s : Sys} (h : Reachable s) : atMostOneConnection s.core.trace = true :=
  (ctr_reachable h).single

/-- non-vacuity: a reachable trace with two `opened` events (the first transport closed in between) -/
example : ∃ s, Reachable s ∧ (s.core.trace.filter (fun e => match e with | .opened _ _ => true | _ => false)).length = 2 :=
  ⟨_, ⟨[.apiOpen, .run 1 .go, .run 1 .openOk, .run 1 .go, .apiReset, .envLostRan 0, .run 3 .go, .run 3 .go,
        .run 4 .go, .run 4 .openOk], rfl⟩, by decide⟩

/-- the transports the trace shows as open are exactly the ones the client holds open -/
theorem C07_trace_openSet {s : Sys} (h : Reachable s) : openSet s.core.trace = liveIdx s.core.conns :=
  (ctr_reachable h).open_eq

/-- non-vacuity: in that state the trace shows exactly transport 1 as open -/
example : ∃ s, Reachable s ∧ openSet s.core.trace = [1] :=
  ⟨_, ⟨[.apiOpen, .run 1 .go, .run 1 .openOk, .run 1 .go, .apiReset, .envLostRan 0, .run 3 .go, .run 3 .go,
        .run 4 .go, .run 4 .openOk], rfl⟩, by decide⟩

end PyAirtouch.Props.C07
