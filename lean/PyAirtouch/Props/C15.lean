import PyAirtouch.Lemmas.SockConn
/-!
# C15 — close is final

Vocabulary (defined in `PyAirtouch.Lemmas.SockConn`):

* `closedNow tr` — the last `apiOpen` / `apiCloseDone` event of the trace is an `apiCloseDone`: a
  `close()` call has returned and `open_socket()` has not been called since;
* `closing tr` — the last `apiOpen` / `apiClose` / `apiCloseDone` event is an `apiClose`: a `close()`
  call has started and no `close()` has returned since;
* `disciplined s l` — the **calling discipline** assumed by `C15_closed_state`: the labels `apiOpen`
  and `apiClose` are not issued while `closing s.core.trace`.  Nothing else is restricted: `send`,
  `reset_connection`, every schedule of the tasks and every behaviour of the environment are allowed
  at any time, also during a `close()`;
* `runD` / `ReachableD` — `run` / `Reachable` restricted to disciplined label sequences;
* `ClosedState s` — the socket is closed: not open, not connected, no current transport, not
  connecting, no transport held open, every background task finished, and every remaining task is
  an API call (`send`, `reset_connection`, `close`) that may still be suspended;
* `quietEv e` — the events a closed socket can still produce: `apiClose`, `apiCloseDone`, `apiReset`,
  `reject _ _ notOpen`, `qdrop _ _ maxRetries` (a `send` that was suspended in `drain()` when the
  socket was closed gives up) and `notify false`.

The discipline is needed: a second `close()` issued while the first one is still waiting returns at
once (`is_open` is already false), so `closedNow` holds although the first call has not yet closed
the transport — see `closedNow_needs_discipline` in the lemma file.
-/
namespace PyAirtouch.Props.C15
open PyAirtouch.Model.Sock PyAirtouch.Spec.Trace PyAirtouch.Lemmas.SockConn

/-- once `close()` has returned (and until the next `open_socket()`), the socket is closed -/
theorem C15_closed_state {s : Sys} (h : ReachableD s) (hc : closedNow s.core.trace = true) :
    s.core.isOpen = false ∧ s.core.isConnected = false ∧ s.core.rw = none ∧ s.core.connecting = false ∧
    (∀ i : Nat, (s.core.conns[i]?.map ConnSt.isLive) ≠ some true) ∧
    (∀ k ∈ s.tasks, k.bg = true → k.pc = .finished) := by
  have hcs := closedState_of (inv_reachable h.reachable) (cinv_reachableD h) hc
  exact ⟨hcs.isOpen, hcs.isConnected, hcs.rw, hcs.connecting, hcs.no_live, hcs.bg_done⟩

/-- non-vacuity: open, connect, start reading, two sends (the second left suspended in `drain()`
    because the transport paused writing), then a complete `close()`: cancel, gather, close the
    transport, wait, notify, return.  The suspended `send` (task 4) is still there. -/
example : ∃ s, ReachableD s ∧ closedNow s.core.trace = true ∧ s.tasks.length = 6 ∧
    (∃ e, pcAt s 4 = some (.drainAwait 0 e .done)) :=
  ⟨_, ⟨[.apiOpen, .run 1 .go, .run 1 .openOk, .run 1 .go, .run 2 .go, .apiSend 7 2 100 true, .envPause 0 true,
        .apiSend 8 2 100 true, .apiClose, .run 5 .go, .envLostRan 0, .run 5 .go, .run 5 .go], rfl⟩,
   by decide, by decide, ⟨_, rfl⟩⟩

/-- the same, packaged with the fact that the remaining tasks are API calls -/
theorem C15_closed_state' {s : Sys} (h : ReachableD s) (hc : closedNow s.core.trace = true) : ClosedState s :=
  closedState_of (inv_reachable h.reachable) (cinv_reachableD h) hc

/-- non-vacuity: as above -/
example : ∃ s, ReachableD s ∧ closedNow s.core.trace = true :=
  ⟨_, ⟨[.apiOpen, .run 1 .go, .run 1 .openOk, .run 1 .go, .run 2 .go, .apiSend 7 2 100 true, .envPause 0 true,
        .apiSend 8 2 100 true, .apiClose, .run 5 .go, .envLostRan 0, .run 5 .go, .run 5 .go], rfl⟩,
   by decide⟩

/-- a closed socket stays closed and quiet under every label except `open_socket()`: whatever is
    scheduled and whatever the environment does, the step appends only quiet events to the trace -/
theorem C15_quiet_after_close {s s' : Sys} {l : Label} (hcs : ClosedState s) (hl : l ≠ .apiOpen)
    (h : step s l = some s') :
    ClosedState s' ∧ s'.core.trace.take s.core.trace.length = s.core.trace ∧
    ∀ e ∈ s'.core.trace.drop s.core.trace.length, quietEv e = true := by
  obtain ⟨h1, evs, h2, h3⟩ := closed_step hcs hl h
  refine ⟨h1, by simp [h2], ?_⟩
  intro e he
  rw [h2, List.drop_left] at he
  exact h3 e he

/-- non-vacuity: in the closed state above the suspended `send` is resumed with an error from
    `drain()`; it re-queues its message, runs `_disconnect` and notifies "disconnected" -/
example : ∃ s s', ReachableD s ∧ closedNow s.core.trace = true ∧ step s (.run 4 .drainErr) = some s' ∧
    s'.core.trace.drop s.core.trace.length = [.notify false 0] :=
  ⟨_, _, ⟨[.apiOpen, .run 1 .go, .run 1 .openOk, .run 1 .go, .run 2 .go, .apiSend 7 2 100 true, .envPause 0 true,
        .apiSend 8 2 100 true, .apiClose, .run 5 .go, .envLostRan 0, .run 5 .go, .run 5 .go], rfl⟩,
   by decide, rfl, by decide⟩

/-- in particular: no connection attempt, no new transport, nothing written, no "connected" notification -/
theorem C15_no_activity_after_close {s s' : Sys} {l : Label} (hcs : ClosedState s) (hl : l ≠ .apiOpen)
    (h : step s l = some s') :
    ∀ e ∈ s'.core.trace.drop s.core.trace.length,
      (∀ t, e ≠ .attempt t) ∧ (∀ c t, e ≠ .opened c t) ∧ (∀ c sid t, e ≠ .wire c sid t) ∧
      (∀ c sid t, e ≠ .deadWrite c sid t) ∧ (∀ c sid t, e ≠ .writeFault c sid t) ∧
      (∀ sid t x r ok, e ≠ .accept sid t x r ok) ∧ (∀ c tag t, e ≠ .deliver c tag t) ∧
      (∀ t, e ≠ .notify true t) := by
  intro e he
  have hq := (C15_quiet_after_close hcs hl h).2.2 e he
  refine ⟨?_, ?_, ?_, ?_, ?_, ?_, ?_, ?_⟩ <;> (intros; intro heq; subst heq; cases hq)

/-- non-vacuity: `reset_connection()` on the closed socket above -/
example : ∃ s s', ReachableD s ∧ closedNow s.core.trace = true ∧ step s .apiReset = some s' ∧
    s'.core.trace.drop s.core.trace.length = [.apiReset 0, .notify false 0] :=
  ⟨_, _, ⟨[.apiOpen, .run 1 .go, .run 1 .openOk, .run 1 .go, .run 2 .go, .apiSend 7 2 100 true, .envPause 0 true,
        .apiSend 8 2 100 true, .apiClose, .run 5 .go, .envLostRan 0, .run 5 .go, .run 5 .go], rfl⟩,
   by decide, rfl, by decide⟩

/-- `send()` on a closed socket is refused with `NotOpenError` and the queue is left unchanged -/
theorem C15_send_after_close {s s' : Sys} {sid retries life : Nat} {encOk : Bool} (hcs : ClosedState s)
    (h : step s (.apiSend sid retries life encOk) = some s') :
    s'.core.queue = s.core.queue ∧ s'.core.trace = s.core.trace ++ [.reject sid s.core.now .notOpen] :=
  closed_send hcs h

/-- non-vacuity: `send()` on the closed socket above -/
example : ∃ s s', ReachableD s ∧ closedNow s.core.trace = true ∧ step s (.apiSend 9 2 100 true) = some s' :=
  ⟨_, _, ⟨[.apiOpen, .run 1 .go, .run 1 .openOk, .run 1 .go, .run 2 .go, .apiSend 7 2 100 true, .envPause 0 true,
        .apiSend 8 2 100 true, .apiClose, .run 5 .go, .envLostRan 0, .run 5 .go, .run 5 .go], rfl⟩,
   by decide, rfl⟩

/-- over any number of steps: as long as `open_socket()` is not called, a closed socket stays closed
    and everything it appends to the trace is quiet -/
theorem C15_quiet_run {ls : List Label} {s s' : Sys} (hcs : ClosedState s) (hl : ∀ l ∈ ls, l ≠ .apiOpen)
    (h : run s ls = some s') :
    ClosedState s' ∧ s'.core.trace.take s.core.trace.length = s.core.trace ∧
    ∀ e ∈ s'.core.trace.drop s.core.trace.length, quietEv e = true := by
  obtain ⟨h1, evs, h2, h3⟩ := closed_run hcs hl h
  refine ⟨h1, by simp [h2], ?_⟩
  intro e he
  rw [h2, List.drop_left] at he
  exact h3 e he

/-- non-vacuity: on the closed socket above: time passes, `reset_connection()`, the stale `send` fails,
    a `send()`, a second `close()`, and all their continuations -/
example : ∃ s s', ReachableD s ∧ closedNow s.core.trace = true ∧
    run s [.advance 5, .apiReset, .run 4 .drainErr, .run 6 .go, .run 4 .go, .apiSend 9 2 100 true, .apiClose] = some s' ∧
    s'.core.trace.length = s.core.trace.length + 6 :=
  ⟨_, _, ⟨[.apiOpen, .run 1 .go, .run 1 .openOk, .run 1 .go, .run 2 .go, .apiSend 7 2 100 true, .envPause 0 true,
        .apiSend 8 2 100 true, .apiClose, .run 5 .go, .envLostRan 0, .run 5 .go, .run 5 .go], rfl⟩,
   by decide, rfl, by decide⟩

/-- the specification's C15 monitor (`Spec.Trace.c15`, the function that also judges recordings of the
    real client) accepts the trace of every history that respects the calling discipline: after
    an `apiCloseDone` and until the next `apiOpen` there is no connection attempt, no transport
    opened, nothing written, no "connected" notification, no message delivered, no send accepted
    or refused for overflow -/
theorem C15_trace_monitor {s : Sys} (h : ReachableD s) : c15 s.core.trace = true :=
  c15_reachableD h

/-- non-vacuity: open, use, close, activity on the closed socket, open again and reconnect -/
example : ∃ s, ReachableD s ∧ closedNow s.core.trace = false ∧ s.core.trace.length = 22 ∧
    s.core.rw = some 1 :=
  ⟨_, ⟨[.apiOpen, .run 1 .go, .run 1 .openOk, .run 1 .go, .run 2 .go, .apiSend 7 2 100 true, .envPause 0 true,
        .apiSend 8 2 100 true, .apiClose, .run 5 .go, .envLostRan 0, .run 5 .go, .run 5 .go,
        .advance 5, .apiReset, .run 4 .drainErr, .run 6 .go, .run 4 .go, .apiSend 9 2 100 true, .apiClose,
        .apiOpen, .run 10 .go, .run 10 .openOk], rfl⟩,
   by decide⟩

/-! ### a new session starts with an empty send queue (/repo 3897b77)

`close()` leaves the send queue alone: messages that were waiting for a connection stay in it, and a sender that was
suspended in `drain()` when `close()` ran can put its message back (the retry path) after `close()` has returned.  Before
/repo 3897b77 a later `open_socket()` transmitted those messages on the new session's connection, ahead of the next
session's handshake.  `open_socket()` on a socket that is not open now empties the queue first. -/

/-- `open_socket()` on a socket that is not open starts the new session with an empty send queue, whatever the earlier
    session left in it -/
theorem C15_reopen_starts_empty {s s' : Sys} (_ : Reachable s) (hclosed : s.core.isOpen = false)
    (h : step s .apiOpen = some s') : s'.core.queue = [] := by
  simp only [step] at h
  split at h
  · rename_i ho
    rw [show (s.core.emit (.apiOpen s.core.now)).isOpen = s.core.isOpen from rfl, hclosed] at ho
    cases ho
  · cases h; rfl

/-- non-vacuity, a message that was waiting for a connection: open (every attempt refused), `send(1)` is accepted and
    queued, a complete `close()`; the socket is closed (`closedNow`), the entry is still queued; `open_socket()` empties
    the queue and schedules the connect task -/
example : ∃ s s', ReachableD s ∧ closedNow s.core.trace = true ∧ s.core.isOpen = false ∧
    s.core.queue.map (·.sid) = [1] ∧ step s .apiOpen = some s' ∧ s'.core.queue = [] ∧ s'.core.isOpen = true ∧
    pcAt s' 6 = some .connStart :=
  ⟨_, _, ⟨[.apiOpen, .run 1 .go, .run 1 .openRefused, .apiSend 1 2 240 true, .apiClose, .run 4 .go, .run 4 .go], rfl⟩,
    by decide, by decide, by decide, rfl, by decide, by decide, by decide⟩

/-- non-vacuity, the retry path after `close()` has returned: `send(7)` is written and its caller blocks in `drain()` (the
    transport stopped accepting data); a complete `close()`; only then the blocked caller's `drain()` raises and it puts
    message 7 back into the queue of the closed socket; `open_socket()` discards it - without the clearing it would be the
    first frame of the next session -/
example : ∃ s s', ReachableD s ∧ closedNow s.core.trace = true ∧ s.core.isOpen = false ∧
    s.core.queue = [⟨7, 1, 100, true, true⟩] ∧ step s .apiOpen = some s' ∧ s'.core.queue = [] :=
  ⟨_, _, ⟨[.apiOpen, .run 1 .go, .run 1 .openOk, .run 1 .go, .run 2 .go, .envPause 0 true, .apiSend 7 2 100 true,
          .apiClose, .run 4 .go, .envLostRan 0, .run 4 .go, .run 4 .go, .run 3 .drainErr], rfl⟩,
    by decide, by decide, by decide, rfl, by decide⟩

end PyAirtouch.Props.C15
