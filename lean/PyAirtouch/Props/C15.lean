import PyAirtouch.Model.Sock
/-! placeholder until the proof files are merged -/
namespace PyAirtouch.Props.C15
theorem C15_placeholder : True := trivial
end PyAirtouch.Props.C15
