import PyAirtouch.Lemmas.Crc
/-!
# C06 — the checksum is CRC-16/MODBUS (property theorems only; helper lemmas live in `Lemmas/`)
-/
namespace PyAirtouch.Props.C06
open PyAirtouch.Gen PyAirtouch.Model PyAirtouch.Spec PyAirtouch.Lemmas.Crc

/-- byte strings: every element is a byte -/
def Bytes (bs : List Nat) : Prop := ∀ b ∈ bs, b < 256

/-- Each of the 256 words of the table in the source (regenerated on every run) is eight shifts of
    the reflected polynomial 0xA001 applied to its index. -/
theorem C06_table_is_bitwise : ∀ i : Fin 256, crcTable.getD i.val 0 =
    bitStep (bitStep (bitStep (bitStep (bitStep (bitStep (bitStep (bitStep i.val))))))) :=
  table_spec

/-- the table has exactly 256 entries, so the masked index never falls outside it -/
theorem C06_table_index_in_range (crc val : Nat) : ((val ^^^ crc) &&& 0x00FF) < crcTable.length := by
  rw [table_length]
  have := Nat.and_two_pow_sub_one_eq_mod (val ^^^ crc) 8
  have h2 : (val ^^^ crc) &&& 0xFF = (val ^^^ crc) % 256 := by simpa using this
  rw [h2]; omega

/-- For **every** byte string, `calculate` returns the CRC-16/MODBUS check bytes (initial value
    0xFFFF, reflected polynomial 0xA001), high byte first; `to_bytes` never overflows. -/
theorem C06_calculate_eq_modbus (bs : List Nat) (h : Bytes bs) :
    crcCalculate bs = some (checkBytes bs) := by
  unfold crcCalculate checkBytes
  rw [register_eq_modbus bs h]
  have hlt := crc16Modbus_lt bs h
  have hlen : crcChecksumLength = 2 := by decide
  rw [hlen]
  simp only [toBytesBig]
  have h0 : crc16Modbus bs / 256 / 256 = 0 := by omega
  have h1 : crc16Modbus bs / 256 % 256 = crc16Modbus bs / 256 := by omega
  simp [h0, h1]

/-- `validate` accepts exactly the correct two check bytes -/
theorem C06_validate_iff (d k : List Nat) (hd : Bytes d) (hk : k.length = 2) :
    crcValidate d k = .result (decide (k = checkBytes d)) := by
  unfold crcValidate
  have hlen : crcChecksumLength = 2 := by decide
  rw [hlen, C06_calculate_eq_modbus d hd]
  simp only [hk, ne_eq, not_true_eq_false, ↓reduceIte]
  congr 1
  by_cases h : k = checkBytes d
  · simp [h]
  · simp only [h, decide_false, beq_eq_false_iff_ne, ne_eq]
    exact fun e => h e.symm

/-- a check value that is not two bytes long raises `ValueError` (it is never accepted) -/
theorem C06_validate_wrong_length (d k : List Nat) (hk : k.length ≠ 2) :
    crcValidate d k = .valueError := by
  unfold crcValidate
  have hlen : crcChecksumLength = 2 := by decide
  simp [hlen, hk]

-- non-vacuity: the vendor's group-status request frame (AirTouch 4 protocol v1.6, 0x2B example)
example : Bytes [0x80, 0xb0, 0x01, 0x2b, 0x00, 0x00] ∧
    crcValidate [0x80, 0xb0, 0x01, 0x2b, 0x00, 0x00] [0xf5, 0x2f] = .result true ∧
    crcValidate [0x80, 0xb0, 0x01, 0x2b, 0x00, 0x00] [0xf5, 0x2e] = .result false := by
  refine ⟨by intro b hb; simp at hb; omega, by decide +kernel, by decide +kernel⟩

end PyAirtouch.Props.C06
