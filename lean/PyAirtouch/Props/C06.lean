import PyAirtouch.Lemmas.Crc
import PyAirtouch.Lemmas.CrcDetect
/-!
# C06 — the checksum is CRC-16/MODBUS (property theorems only; helper lemmas live in `Lemmas/`)
-/
namespace PyAirtouch.Props.C06
open PyAirtouch.Gen PyAirtouch.Model PyAirtouch.Spec PyAirtouch.Lemmas.Crc PyAirtouch.Lemmas.CrcDetect

/-- Each of the 256 words of the table in the source (regenerated on every run) is eight shifts of
    the reflected polynomial 0xA001 applied to its index. -/
theorem C06_table_is_bitwise : ∀ i : Fin 256, crcTable.getD i.val 0 =
    bitStep (bitStep (bitStep (bitStep (bitStep (bitStep (bitStep (bitStep i.val))))))) :=
  table_spec

/-- the table has exactly 256 entries, so the masked index never falls outside it -/
theorem C06_table_index_in_range (crc val : Nat) : ((val ^^^ crc) &&& 0x00FF) < crcTable.length := by
  rw [table_length]
  have := Nat.and_two_pow_sub_one_eq_mod (val ^^^ crc) 8
  have h2 : (val ^^^ crc) &&& 0xFF = (val ^^^ crc) % 256 := by simpa using this
  rw [h2]; omega

/-- For **every** byte string, `calculate` returns the CRC-16/MODBUS check bytes (initial value
    0xFFFF, reflected polynomial 0xA001), high byte first; `to_bytes` never overflows. -/
theorem C06_calculate_eq_modbus (bs : List Nat) (h : Bytes bs) :
    crcCalculate bs = some (checkBytes bs) := by
  unfold crcCalculate checkBytes
  rw [register_eq_modbus bs h]
  have hlt := crc16Modbus_lt bs h
  have hlen : crcChecksumLength = 2 := by decide
  rw [hlen]
  simp only [toBytesBig]
  have h0 : crc16Modbus bs / 256 / 256 = 0 := by omega
  have h1 : crc16Modbus bs / 256 % 256 = crc16Modbus bs / 256 := by omega
  simp [h0, h1]

/-- `validate` accepts exactly the correct two check bytes -/
theorem C06_validate_iff (d k : List Nat) (hd : Bytes d) (hk : k.length = 2) :
    crcValidate d k = .result (decide (k = checkBytes d)) := by
  unfold crcValidate
  have hlen : crcChecksumLength = 2 := by decide
  rw [hlen, C06_calculate_eq_modbus d hd]
  simp only [hk, ne_eq, not_true_eq_false, ↓reduceIte]
  congr 1
  by_cases h : k = checkBytes d
  · simp [h]
  · simp only [h, decide_false, beq_eq_false_iff_ne, ne_eq]
    exact fun e => h e.symm

/-- a check value that is not two bytes long raises `ValueError` (it is never accepted) -/
theorem C06_validate_wrong_length (d k : List Nat) (hk : k.length ≠ 2) :
    crcValidate d k = .valueError := by
  unfold crcValidate
  have hlen : crcChecksumLength = 2 := by decide
  simp [hlen, hk]

-- non-vacuity: the vendor's group-status request frame (AirTouch 4 protocol v1.6, 0x2B example)
example : Bytes [0x80, 0xb0, 0x01, 0x2b, 0x00, 0x00] ∧
    crcValidate [0x80, 0xb0, 0x01, 0x2b, 0x00, 0x00] [0xf5, 0x2f] = .result true ∧
    crcValidate [0x80, 0xb0, 0x01, 0x2b, 0x00, 0x00] [0xf5, 0x2e] = .result false := by
  refine ⟨by intro b hb; simp at hb; omega, by decide +kernel, by decide +kernel⟩


/-! ### Damage detection

A received frame is `(xorL d e, xorL (checkBytes d) ke)`: covered bytes `d` damaged by the error
pattern `e`, the two check bytes (sent high byte first) damaged by `ke`.  `weight` counts damaged
bits; `bitsOf` lists bits in the order CRC-16/MODBUS consumes them (byte by byte, least
significant bit first); `reg0 e` is the register the error pattern alone produces from 0. -/

theorem xorL_bytes (a b : List Nat) (ha : Bytes a) (hb : Bytes b) : Bytes (xorL a b) := by
  induction a generalizing b with
  | nil => intro x hx; cases b <;> simp [xorL] at hx
  | cons x xs ih =>
    cases b with
    | nil => intro y hy; simp [xorL] at hy
    | cons y ys =>
      intro z hz
      simp only [xorL, List.mem_cons] at hz
      rcases hz with rfl | hz
      · exact Nat.xor_lt_two_pow (n := 8) (ha x (by simp)) (hb y (by simp))
      · exact ih ys (fun w hw => ha w (by simp [hw])) (fun w hw => hb w (by simp [hw])) z hz

/-- Exact characterisation: the damaged frame passes `validate` iff the error pattern's register
    equals the error on the check value (linearity of the CRC register). -/
theorem C06_undetected_iff (d e ke : List Nat) (hd : Bytes d) (he : Bytes e) (hk : Bytes ke)
    (hlen : e.length = d.length) (hk2 : ke.length = 2) :
    crcValidate (xorL d e) (xorL (checkBytes d) ke) = .result (decide (reg0 e = word2 ke)) := by
  have hb : Bytes (xorL d e) := xorL_bytes d e hd he
  have hl : (xorL (checkBytes d) ke).length = 2 := by
    obtain ⟨a, b, rfl⟩ := pair_of_length_two ke hk2
    simp [checkBytes, xorL]
  rw [C06_validate_iff _ _ hb hl]
  congr 1
  have := undetected_iff d e ke hd he hk hlen hk2
  by_cases h : reg0 e = word2 ke
  · simp only [h, decide_true, decide_eq_true_eq]; exact (this.mpr h).symm
  · simp only [h, decide_false, decide_eq_false_iff_not]; exact fun hh => h (this.mp hh.symm)

/-- any single damaged bit, in the covered bytes or in the check bytes, is rejected -/
theorem C06_detects_single_bit (d e ke : List Nat) (hd : Bytes d) (he : Bytes e) (hk : Bytes ke)
    (hlen : e.length = d.length) (hk2 : ke.length = 2) (hw : weight e + weight ke = 1) :
    crcValidate (xorL d e) (xorL (checkBytes d) ke) = .result false := by
  rw [C06_undetected_iff d e ke hd he hk hlen hk2]
  simp [detects_single_bit d e ke hd he hk hlen hk2 hw]

/-- any two damaged bits anywhere in a frame whose covered part is at most 4093 bytes (every
    frame of this protocol is far shorter; the polynomial's period is 32 767 bit positions) -/
theorem C06_detects_double_bit (d e ke : List Nat) (hd : Bytes d) (he : Bytes e) (hk : Bytes ke)
    (hlen : e.length = d.length) (hk2 : ke.length = 2) (hw : weight e + weight ke = 2)
    (hshort : d.length ≤ 4093) :
    crcValidate (xorL d e) (xorL (checkBytes d) ke) = .result false := by
  rw [C06_undetected_iff d e ke hd he hk hlen hk2]
  simp [detects_double_bit d e ke hd he hk hlen hk2 hw hshort]

/-- any non-zero error confined to 16 consecutive bit positions of the covered bytes -/
theorem C06_detects_burst16_in_covered_bytes (d e : List Nat) (hd : Bytes d) (he : Bytes e)
    (hlen : e.length = d.length) (hb : Burst16 (bitsOf e)) (hw : weight e ≠ 0) :
    crcValidate (xorL d e) (xorL (checkBytes d) [0, 0]) = .result false := by
  have hk : Bytes [0, 0] := by intro b hb; simp at hb; omega
  rw [C06_undetected_iff d e [0, 0] hd he hk hlen rfl]
  have := detects_burst16_in_covered_bytes' d e [0, 0] hd he hk hlen rfl rfl hb hw
  simp [this]

/-- any non-zero error confined to the two check bytes -/
theorem C06_detects_errors_confined_to_check_bytes (d e ke : List Nat) (hd : Bytes d) (he : Bytes e)
    (hk : Bytes ke) (hlen : e.length = d.length) (hk2 : ke.length = 2)
    (hwe : weight e = 0) (hwk : weight ke ≠ 0) :
    crcValidate (xorL d e) (xorL (checkBytes d) ke) = .result false := by
  rw [C06_undetected_iff d e ke hd he hk hlen hk2]
  simp [detects_errors_confined_to_check_bytes d e ke hd he hk hlen hk2 hwe hwk]

/-- Limit of the class, kept visible: "every burst of at most 16 bits at every position" is *false*
    for the vendor's frame format, because the check value travels high byte first.  A 9-bit burst
    straddling the last covered byte and the first check byte passes validation. -/
theorem C06_burst16_across_check_boundary_witness :
    ∃ d e ke : List Nat, Bytes d ∧ Bytes e ∧ Bytes ke ∧ e.length = d.length ∧ ke.length = 2 ∧
      Burst16 (bitsOf (e ++ ke)) ∧ weight e ≠ 0 ∧ weight ke ≠ 0 ∧
      crcValidate (xorL d e) (xorL (checkBytes d) ke) = .result true := by
  obtain ⟨d, e, ke, hd, he, hk, hlen, hk2, hb, _, hwe, hwk, hv⟩ := burst16_across_check_boundary_witness
  refine ⟨d, e, ke, hd, he, hk, hlen, hk2, hb, hwe, hwk, ?_⟩
  rw [C06_undetected_iff d e ke hd he hk hlen hk2]
  have := (undetected_iff d e ke hd he hk hlen hk2).mp hv
  simp [this]

-- non-vacuity of the damage hypotheses: one flipped bit in the vendor's request frame
example : weight [0, 0, 0, 4, 0, 0] + weight [0, 0] = 1 ∧
    crcValidate (xorL [0x80, 0xb0, 0x01, 0x2b, 0x00, 0x00] [0, 0, 0, 4, 0, 0]) (xorL [0xf5, 0x2f] [0, 0]) = .result false := by
  decide +kernel


end PyAirtouch.Props.C06
