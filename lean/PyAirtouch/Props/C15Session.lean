import PyAirtouch.Model.Session
/-!
# C15 (last sentence): "A later init() works as on a fresh object and rebuilds the model from scratch"
  - for handshake handlers that are still suspended in an application callback when `shutdown()` is called

Model: `Model/Session.lean` (tie: `harness/sessharness.py`, the real AirTouch 4 / 5 objects over a stub socket, driver
command `sess new`).  Theorems about `step guardNew` (the code of /repo ced1c59):

* `C15S_inv`                       every suspended handler carries a session number ≤ the current one, in every reachable state
* `C15S_shutdown_makes_stale`      after `shutdown()` every suspended handler is stale (its session number is smaller)
* `C15S_stale_for_ever`            whatever happens afterwards (any ops, any number of further sessions), a handler that was
                                   suspended before the shutdown is still stale when its turn comes
* `C15S_stale_release_inert`       the release of a stale handler sends nothing, starts no heartbeat, leaves the phase alone
* `C15S_reinit_like_fresh`         after a shutdown, with any number of old handlers still suspended, ANY later op sequence gives -
                                   op by op - the outputs of a fresh object that is given the same ops without the releases of
                                   the old handlers; those releases are inert
* `C15S_current_release_advances`  (the repair does not break the normal path) a handler of the current session whose step is
                                   still current moves the handshake on
* `C15S_old_guard_refuted`         the state-only re-check of /repo ≤ 95fa6d2 fails the property: the recorded history
-/
namespace PyAirtouch.Props.C15Session
open PyAirtouch.Model.Session

def Inv (s : St) : Prop := ∀ h ∈ s.held, h.session ≤ s.session
def Stale (s : St) (h : Handler) : Prop := h.session < s.session

theorem step_session_mono (g) (s : St) (op : Op) : s.session ≤ (step g s op).1.session := by
  cases op <;> simp only [step, quiet] <;> (try split) <;> (try split) <;> simp

theorem step_held_sub (g) (s : St) (op : Op) :
    ∀ h ∈ (step g s op).1.held, h ∈ s.held ∨ h.session = (step g s op).1.session := by
  intro h hh
  cases op with
  | init => left; simpa [step] using hh
  | shutdown => left; simpa [step] using hh
  | frame i => simp only [step, quiet] at hh ⊢; split at hh <;> (left; simpa using hh)
  | hold i =>
    simp only [step, quiet] at hh ⊢
    split at hh
    · simp only [List.mem_append, List.mem_singleton] at hh
      rcases hh with hh | hh
      · left; exact hh
      · right; subst hh; split <;> simp
    · left; simpa using hh
  | release =>
    simp only [step, quiet] at hh ⊢
    split at hh
    · left; simpa using hh
    · rename_i h0 rest heq
      split at hh <;> (left; rw [heq]; exact List.mem_cons_of_mem _ (by simpa using hh))

theorem step_inv (g) (s : St) (op : Op) (hi : Inv s) : Inv (step g s op).1 := by
  intro h hh
  rcases step_held_sub g s op h hh with h1 | h1
  · exact Nat.le_trans (hi h h1) (step_session_mono g s op)
  · omega

theorem run_inv (g) (s : St) (ops : List Op) (hi : Inv s) : Inv (run g s ops).1 := by
  induction ops generalizing s with
  | nil => simpa [run]
  | cons op ops ih => simpa [run] using ih _ (step_inv g s op hi)

/-- every reachable state -/
theorem C15S_inv (ops : List Op) : Inv (run guardNew {} ops).1 :=
  run_inv _ _ _ (by intro h hh; simp at hh)

theorem C15S_shutdown_makes_stale (s : St) (hi : Inv s) :
    ∀ h ∈ (step guardNew s .shutdown).1.held, Stale (step guardNew s .shutdown).1 h := by
  intro h hh
  simp only [step] at hh ⊢
  have := hi h hh
  simp only [Stale]; omega

/-- handlers with a session number below `k` stay below the current session number along any run that starts at or above `k` -/
theorem run_stale (g) (k : Nat) (s : St) (ops : List Op) (hk : k ≤ s.session) :
    ∀ h ∈ (run g s ops).1.held, h.session < k → h ∈ s.held ∧ Stale (run g s ops).1 h := by
  induction ops generalizing s with
  | nil => intro h hh hlt; simp only [run] at hh ⊢; exact ⟨hh, by simp only [Stale]; omega⟩
  | cons op ops ih =>
    intro h hh hlt
    simp only [run] at hh ⊢
    have hk' : k ≤ (step g s op).1.session := Nat.le_trans hk (step_session_mono g s op)
    obtain ⟨h1, h2⟩ := ih _ hk' h hh hlt
    refine ⟨?_, h2⟩
    rcases step_held_sub g s op h h1 with h3 | h3
    · exact h3
    · omega

theorem C15S_stale_for_ever (s : St) (ops : List Op) :
    let s1 := (step guardNew s .shutdown).1
    ∀ h ∈ (run guardNew s1 ops).1.held, h.session ≤ s.session → Stale (run guardNew s1 ops).1 h := by
  intro s1 h hh hle
  exact (run_stale guardNew (s.session + 1) s1 ops (by simp [s1, step]) h hh (by omega)).2

theorem C15S_stale_release_inert (s : St) (h : Handler) (rest : List Handler) (hs : s.held = h :: rest) (hst : Stale s h) :
    step guardNew s .release = ({ s with held := rest }, { phase := s.phase }) := by
  simp only [Stale] at hst
  simp only [step, hs, guardNew]
  have : (s.session == h.session) = false := by simp; omega
  simp [this]

theorem C15S_current_release_advances (s : St) (h : Handler) (rest : List Handler) (hs : s.held = h :: rest)
    (h1 : h.session = s.session) (h2 : h.step = s.phase) (h3 : s.phase < 8) :
    (step guardNew s .release).1.phase = (advance s.phase).1 ∧ (step guardNew s .release).2.sends = (advance s.phase).2.1
      ∧ (step guardNew s .release).2.hbstart = (advance s.phase).2.2 := by
  simp only [step, hs, guardNew, h1, h2]
  simp [h3]

/-! ## a later init() works as on a fresh object -/

/-- the ops a fresh object is compared on: the first `n` releases (those of the old session's handlers) taken out -/
def dropReleases : Nat → List Op → List Op
  | _, [] => []
  | 0, ops => ops
  | n + 1, .release :: ops => dropReleases n ops
  | n + 1, op :: ops => op :: dropReleases (n + 1) ops

/-- the outputs with those of the first `n` releases taken out -/
def dropOuts : Nat → List Op → List Out → List Out
  | _, [], _ => []
  | _, _, [] => []
  | 0, _, outs => outs
  | n + 1, .release :: ops, _ :: outs => dropOuts n ops outs
  | n + 1, _ :: ops, o :: outs => o :: dropOuts (n + 1) ops outs

/-- the outputs of the first `n` releases -/
def releaseOuts : Nat → List Op → List Out → List (Nat × Out)
  | _, [], _ => []
  | _, _, [] => []
  | 0, _, _ => []
  | n + 1, .release :: ops, o :: outs => (0, o) :: releaseOuts n ops outs
  | n + 1, _ :: ops, _ :: outs => releaseOuts (n + 1) ops outs

theorem run_length (g) (s : St) (ops : List Op) : (run g s ops).2.length = ops.length := by
  induction ops generalizing s with
  | nil => simp [run]
  | cons op ops ih => simp [run, ih]

theorem dropReleases_zero (ops : List Op) : dropReleases 0 ops = ops := by cases ops <;> simp [dropReleases]
theorem releaseOuts_zero (ops : List Op) (outs : List Out) : releaseOuts 0 ops outs = [] := by
  cases ops <;> cases outs <;> simp [releaseOuts]
theorem dropOuts_zero (ops : List Op) (outs : List Out) (h : outs.length = ops.length) : dropOuts 0 ops outs = outs := by
  cases ops <;> cases outs <;> simp_all [dropOuts]

/-- `s1` (the re-used object, `k` sessions ahead, `old` stale handlers in front) simulates `s2` (the fresh object) -/
structure Sim (k : Nat) (old : List Handler) (s1 s2 : St) : Prop where
  phase : s1.phase = s2.phase
  session : s1.session = s2.session + k
  old_stale : ∀ h ∈ old, h.session < k
  kpos : old ≠ [] → 0 < k
  held : s1.held = old ++ s2.held.map (fun h => { h with session := h.session + k })

theorem release_nil (g) (s : St) (hs : s.held = []) : step g s .release = quiet s := by simp [step, hs]

theorem release_cons (g) (s : St) (h : Handler) (rest : List Handler) (hs : s.held = h :: rest) :
    step g s .release = if h.step < 8 ∧ g s h = true then
        ({ s with phase := (advance s.phase).1, held := rest },
         { phase := (advance s.phase).1, sends := (advance s.phase).2.1, hbstart := (advance s.phase).2.2 })
      else ({ s with held := rest }, { phase := s.phase }) := by simp [step, hs]

theorem sim_step_other (k old s1 s2) (hs : Sim k old s1 s2) (op : Op) (hop : op ≠ .release ∨ old = []) :
    Sim k old (step guardNew s1 op).1 (step guardNew s2 op).1 ∧ (step guardNew s1 op).2 = (step guardNew s2 op).2 := by
  obtain ⟨hp, hse, hold, hk, hh⟩ := hs
  cases op with
  | init => exact ⟨⟨by simp [step], by simp [step, hse], hold, hk, by simp [step, hh]⟩, by simp [step]⟩
  | shutdown => exact ⟨⟨by simp [step], by simp [step, hse]; omega, hold, hk, by simp [step, hh]⟩, by simp [step]⟩
  | frame i =>
    simp only [step, quiet, hp]
    split
    · exact ⟨⟨by simp, by simp [hse], hold, hk, by simp [hh]⟩, by simp⟩
    · exact ⟨⟨by simp [hp], by simp [hse], hold, hk, by simp [hh]⟩, by simp⟩
  | hold i =>
    simp only [step, quiet, hp]
    split
    · exact ⟨⟨by simp, by simp [hse], hold, hk, by simp [hh, hse]⟩, by simp⟩
    · exact ⟨⟨by simp [hp], by simp [hse], hold, hk, by simp [hh]⟩, by simp⟩
  | release =>
    have ho : old = [] := by rcases hop with h | h; exact absurd rfl h; exact h
    subst ho
    simp only [List.nil_append] at hh
    cases h2 : s2.held with
    | nil =>
      have hh' : s1.held = [] := by simpa [h2] using hh
      rw [release_nil _ s1 hh', release_nil _ s2 h2]
      exact ⟨⟨hp, hse, hold, hk, by simp [quiet, hh', h2]⟩, by simp [quiet, hp]⟩
    | cons h rest =>
      have hh' : s1.held = { step := h.step, session := h.session + k }
          :: rest.map (fun h => { h with session := h.session + k }) := by simpa [h2] using hh
      have eg : guardNew s1 { step := h.step, session := h.session + k } = guardNew s2 h := by
        simp only [guardNew, hp, hse]
        by_cases c : s2.session = h.session
        · rw [c]; simp
        · have e1 : (s2.session + k == h.session + k) = false := by
            rw [beq_eq_false_iff_ne]; omega
          have e2 : (s2.session == h.session) = false := by
            rw [beq_eq_false_iff_ne]; exact c
          rw [e1, e2]
      rw [release_cons _ s1 _ _ hh', release_cons _ s2 _ _ h2, eg]
      by_cases c : h.step < 8 ∧ guardNew s2 h = true
      · rw [if_pos c, if_pos c]
        exact ⟨⟨by simp [hp], by simp [hse], hold, hk, by simp⟩, by simp [hp]⟩
      · rw [if_neg c, if_neg c]
        exact ⟨⟨by simp [hp], by simp [hse], hold, hk, by simp⟩, by simp [hp]⟩

theorem sim_step_old_release (k h old s1 s2) (hs : Sim k (h :: old) s1 s2) :
    Sim k old (step guardNew s1 .release).1 s2 ∧ (step guardNew s1 .release).2 = { phase := s1.phase } := by
  obtain ⟨hp, hse, hold, hk, hh⟩ := hs
  have hst : Stale s1 h := by
    have := hold h (List.mem_cons_self); simp only [Stale]; omega
  have := C15S_stale_release_inert s1 h (old ++ s2.held.map (fun h => { h with session := h.session + k })) (by simpa using hh) hst
  rw [this]
  refine ⟨⟨hp, hse, fun x hx => hold x (List.mem_cons_of_mem _ hx), fun _ => hk (by simp), rfl⟩, rfl⟩

theorem sim_run (k : Nat) (old : List Handler) (s1 s2 : St) (ops : List Op) (hs : Sim k old s1 s2) :
    dropOuts old.length ops (run guardNew s1 ops).2 = (run guardNew s2 (dropReleases old.length ops)).2
    ∧ ∀ p ∈ releaseOuts old.length ops (run guardNew s1 ops).2, p.2.sends = 0 ∧ p.2.hbstart = false ∧ p.2.suspended = false := by
  induction ops generalizing old s1 s2 with
  | nil => simp [run, dropOuts, dropReleases, releaseOuts]
  | cons op ops ih =>
    cases old with
    | nil =>
      obtain ⟨h1, h2⟩ := sim_step_other k [] s1 s2 hs op (Or.inr rfl)
      have := ih [] _ _ h1
      simp only [List.length_nil, dropReleases_zero, releaseOuts_zero, dropOuts_zero _ _ (run_length _ _ _)] at this ⊢
      refine ⟨?_, by simp⟩
      simp only [run, h2, this.1]
    | cons h old =>
      by_cases hr : op = .release
      · subst hr
        obtain ⟨h1, h2⟩ := sim_step_old_release k h old s1 s2 hs
        have := ih old _ _ h1
        simp only [List.length_cons, run, dropOuts, dropReleases, releaseOuts]
        refine ⟨this.1, ?_⟩
        intro p hp
        simp only [List.mem_cons] at hp
        rcases hp with hp | hp
        · subst hp; simp [h2]
        · exact this.2 p hp
      · obtain ⟨h1, h2⟩ := sim_step_other k (h :: old) s1 s2 hs op (Or.inl hr)
        have := ih (h :: old) _ _ h1
        simp only [List.length_cons] at this ⊢
        cases op with
        | release => exact absurd rfl hr
        | init => simp only [run, dropOuts, dropReleases, releaseOuts, h2]; exact ⟨by rw [this.1], this.2⟩
        | shutdown => simp only [run, dropOuts, dropReleases, releaseOuts, h2]; exact ⟨by rw [this.1], this.2⟩
        | frame i => simp only [run, dropOuts, dropReleases, releaseOuts, h2]; exact ⟨by rw [this.1], this.2⟩
        | hold i => simp only [run, dropOuts, dropReleases, releaseOuts, h2]; exact ⟨by rw [this.1], this.2⟩

/-- **A later init() works as on a fresh object.**  Take any reachable state `s` of the object (any handlers suspended), call
    `shutdown()`, then let anything happen (`ops`: new sessions, frames, new suspended handlers, releases in any order).  Op by op,
    what the object sends, the handshake phase it is in, when it starts its heartbeat and which handlers it suspends are what a
    FRESH object shows on the same ops without the releases of the old handlers; and those releases send nothing and start nothing. -/
theorem C15S_reinit_like_fresh (pre ops : List Op) :
    let s := (run guardNew {} pre).1
    let s1 := (step guardNew s .shutdown).1
    let n := s.held.length
    dropOuts n ops (run guardNew s1 ops).2 = (run guardNew {} (dropReleases n ops)).2
    ∧ ∀ p ∈ releaseOuts n ops (run guardNew s1 ops).2, p.2.sends = 0 ∧ p.2.hbstart = false ∧ p.2.suspended = false := by
  intro s s1 n
  have hi : Inv s := C15S_inv pre
  have hs : Sim (s.session + 1) s.held s1 {} := by
    refine ⟨by simp [s1, step], by simp [s1, step], ?_, fun _ => by omega, by simp [s1, step]⟩
    intro h hh; have := hi h hh; omega
  exact sim_run (s.session + 1) s.held s1 {} ops hs

/-! ## non-vacuity and the refutation of the earlier re-check -/

/-- a handler suspended in the AC status step, shutdown, a new session that has reached the same step again -/
def abaHistory : List Op :=
  [.init, .frame 0, .frame 1, .frame 2, .hold 3, .shutdown, .init, .frame 0, .frame 1, .frame 2, .release, .frame 3, .frame 4, .frame 5]

/-- /repo ced1c59: the release (11th op) is inert, the new session's own AC status answer (12th op) moves the handshake on, the
    object becomes initialised with the last answer - exactly a fresh object's outputs -/
example : ((run guardNew {} abaHistory).2.drop 10).map (fun o => (o.phase, o.sends, o.hbstart))
    = [(5, 0, false), (6, 1, false), (7, 1, false), (8, 0, true)] := by decide

/-- /repo ≤ 95fa6d2: the old handler moves the NEW session from the AC status step to the timer step (a request is sent), and the new
    session's own AC status answer then arrives in the wrong step and is ignored (no request, phase unchanged): the status is never
    loaded, yet the handshake completes.  `C15S_reinit_like_fresh` is false for `guardOld`. -/
theorem C15S_old_guard_refuted :
    ((run guardOld {} abaHistory).2.drop 10).map (fun o => (o.phase, o.sends, o.hbstart))
      = [(6, 1, false), (6, 0, false), (7, 1, false), (8, 0, true)]
    ∧ ((run guardOld {} abaHistory).2.drop 10).map (fun o => (o.phase, o.sends, o.hbstart))
      ≠ ((run guardNew {} abaHistory).2.drop 10).map (fun o => (o.phase, o.sends, o.hbstart)) := by decide

/-- the premises of `C15S_stale_release_inert` and of `C15S_current_release_advances` are met by reachable states -/
example : (run guardNew {} (abaHistory.take 10)).1.held = [{ step := 5, session := 0 }]
    ∧ Stale (run guardNew {} (abaHistory.take 10)).1 { step := 5, session := 0 } := by
  refine ⟨by decide, by simp only [Stale]; decide⟩
example : let s := (run guardNew {} [.init, .frame 0, .frame 1, .frame 2, .hold 3]).1
    s.held = [{ step := 5, session := 0 }] ∧ s.session = 0 ∧ s.phase = 5 := by decide

end PyAirtouch.Props.C15Session
