import PyAirtouch.Lemmas.Api4Heartbeat
import PyAirtouch.Props.C08
/-!
# C08 (AirTouch 4): the heartbeat as wired into the API object

`Props/C08.lean` is about the heartbeat model `Heartbeat.HB` alone.  This file is about the model of
`pyairtouch/at4/api.py` (`Model/Api4.lean`), which embeds an `HB` in its state and drives it from `apiStep`:

1. the heartbeat is started exactly by the message that completes the handshake and stopped by `shutdown()` only;
2. the message it emits and the messages it accepts as responses;
3. `HbWf`, an invariant of every reachable API state, under which every op acts on the embedded `HB` as a run of
   enabled labels of the heartbeat model - so all theorems of `Props/C08.lean` hold for the `hb` of every
   reachable API state - and the API-level consequences: a `RESET` exactly one timeout after the last arm point,
   a heartbeat request every interval, no `RESET` along a responsive run.

Time is in ticks of 1/8 s: interval 2400 (300 s), timeout 2640 (330 s).  `hbEv` is the output event
`SEND CONNECTED ExtendedMessage(ConsoleVersionRequest())`.
-/
set_option linter.unusedVariables false
set_option linter.unusedSimpArgs false
namespace PyAirtouch.Props.C08
open PyAirtouch.Model PyAirtouch.Model.Api4 PyAirtouch.Model.At4 PyAirtouch.Lemmas.Api4 PyAirtouch.Gen
open PyAirtouch.Model.Heartbeat (HB TL HL Label Reachable)
open PyAirtouch.Spec.Heartbeat (HEv)

/-! ## 0. the parameters -/

/-- interval 300 s, timeout 330 s, in ticks of 1/8 s; the API object is built with them -/
theorem hb_params_at4 :
    heartbeatDefaultIntervalField = 2400 ∧ heartbeatDefaultTimeoutField = 2640 ∧
    State.initial.hb.interval = heartbeatDefaultIntervalField ∧
    State.initial.hb.timeout = heartbeatDefaultTimeoutField ∧ hbIdle State.initial.hb = true :=
  ⟨rfl, rfl, rfl, rfl, rfl⟩

example : heartbeatDefaultIntervalField = 300 * 8 ∧ heartbeatDefaultTimeoutField = 330 * 8 := by decide

/-! ## 1. started exactly when the handshake completes, stopped by `shutdown()` only -/

/-- The group status received in `INIT_GROUP_STATUS` with the heartbeat idle: `HBSTART`, every waiting `init()`
    answers `True`, the initialised event is set, and the embedded heartbeat is in its started state - deadline
    one timeout ahead, armed now, the first iteration of the heartbeat loop already taken (next wake-up one interval
    ahead); the first heartbeat request is output iff the socket is connected. -/
theorem hb_started_on_connected_at4 (s : State) (l : List X2B.GroupStatusData) (hsub : s.subscribed = true)
    (hst : s.st = .INIT_GROUP_STATUS) (hidle : hbIdle s.hb = true)
    (hi : s.hb.interval = heartbeatDefaultIntervalField) (ht : s.hb.timeout = heartbeatDefaultTimeoutField) :
    Ev.hbStart ∈ (apiStep s (.recv (.groupStatus (.status l)))).2 ∧
    (apiStep s (.recv (.groupStatus (.status l)))).2.count (Ev.result "init True") = s.initWaits.length ∧
    (apiStep s (.recv (.groupStatus (.status l)))).1.initialised = true ∧
    (apiStep s (.recv (.groupStatus (.status l)))).1.st = .CONNECTED ∧
    (apiStep s (.recv (.groupStatus (.status l)))).1.hb.tl = .waiting (s.now + 2640) ∧
    (apiStep s (.recv (.groupStatus (.status l)))).1.hb.hl = .sleeping (s.now + 2400) ∧
    (apiStep s (.recv (.groupStatus (.status l)))).1.hb.lastArm = s.now ∧
    (apiStep s (.recv (.groupStatus (.status l)))).1.hb.flag = false ∧
    (apiStep s (.recv (.groupStatus (.status l)))).1.hb.interval = 2400 ∧
    (apiStep s (.recv (.groupStatus (.status l)))).1.hb.timeout = 2640 ∧
    (apiStep s (.recv (.groupStatus (.status l)))).2.count hbEv = (if s.sockConnected then 1 else 0) ∧
    (hbEv ∈ (apiStep s (.recv (.groupStatus (.status l)))).2 ↔ s.sockConnected = true) := by
  obtain ⟨a1, a2, _, _, _, a6, a7, _, _⟩ := recv_final_answer s hsub l hst
  have hc : completes s (.groupStatus (.status l)) = true := (completes_iff s _).mpr ⟨hst, l, rfl⟩
  have hv := hbView_recv s (.groupStatus (.status l))
  have e1 : (recv s (.groupStatus (.status l))).1.hb = recvHB s (.groupStatus (.status l)) := congrArg HbView.hb hv
  have e2 : recvHB s (.groupStatus (.status l)) = startedHB { s.hb with now := s.now } := by
    simp only [recvHB, hsub, hc, Bool.and_self, ↓reduceIte, startHB, hidle]
  obtain ⟨f1, f2, f3, f4, f5, f6, f7, f8, f9, f10⟩ :=
    startedHB_fields (h := { s.hb with now := s.now }) hidle
  have hcnt := (recv_counts s (.groupStatus (.status l))).2.2.2
  have hcnt' : (recv s (.groupStatus (.status l))).2.count hbEv = (if s.sockConnected then 1 else 0) := by
    rw [hcnt]
    simp only [recvTrace, hsub, hc, Bool.and_self, ↓reduceIte, hidle, numBeats]
    cases s.sockConnected <;> simp [List.countP_cons, isBeatEv]
  simp only [apiStep]
  rw [e1, e2]
  refine ⟨a6, a7, a2, a1, ?_, ?_, f3, f4, ?_, ?_, hcnt', ?_⟩
  · rw [f1]; simp only; rw [ht]; rfl
  · rw [f2]; simp only; rw [hi]; rfl
  · rw [f6]; exact hi
  · rw [f7]; exact ht
  · rw [← List.count_pos_iff, hcnt']
    cases s.sockConnected <;> simp

/-- which message an op delivers -/
theorem opMsg_iff_at4 (op : Op) (m : RMsg) :
    opMsg op = some m ↔ op = .recv m ∨ ∃ mid p, op = .msg mid p ∧ decodeTop mid p = .ok m := by
  cases op with
  | recv m' => simp [opMsg]
  | msg mid p =>
    simp only [opMsg, reduceCtorEq, Op.msg.injEq, false_or]
    cases hd : decodeTop mid p with
    | ok m' =>
      constructor
      · intro h; simp only [Option.some.injEq] at h; subst h; exact ⟨mid, p, ⟨rfl, rfl⟩, hd⟩
      · rintro ⟨_, _, ⟨rfl, rfl⟩, h⟩; rw [hd] at h; cases h; rfl
    | error e =>
      constructor
      · intro h; cases h
      · rintro ⟨_, _, ⟨rfl, rfl⟩, h⟩; rw [hd] at h; cases h
  | _ => simp [opMsg]

/-- For every state and every op: `HBSTART` is output only by the delivery (`recv` / a decodable `msg`) of a group
    status message in state `INIT_GROUP_STATUS` to the subscribed API object - the step into `CONNECTED` that sets
    the initialised event - and by every such delivery; an op that sets the initialised event outputs `HBSTART`; and
    a delivered message that makes an `init()` answer `True` outputs `HBSTART`. -/
theorem hbStart_only_on_connected_at4 (s : State) (op : Op) :
    (Ev.hbStart ∈ (apiStep s op).2 ↔
      ∃ l, opMsg op = some (.groupStatus (.status l)) ∧ s.subscribed = true ∧ s.st = .INIT_GROUP_STATUS) ∧
    (Ev.hbStart ∈ (apiStep s op).2 →
      (apiStep s op).1.st = .CONNECTED ∧ (apiStep s op).1.initialised = true) ∧
    (s.initialised = false → (apiStep s op).1.initialised = true → Ev.hbStart ∈ (apiStep s op).2) ∧
    (∀ m, opMsg op = some m → Ev.result "init True" ∈ (apiStep s op).2 → Ev.hbStart ∈ (apiStep s op).2) := by
  have hiff : Ev.hbStart ∈ (apiStep s op).2 ↔
      ∃ l, opMsg op = some (.groupStatus (.status l)) ∧ s.subscribed = true ∧ s.st = .INIT_GROUP_STATUS := by
    rw [hbStart_iff_completes]
    constructor
    · rintro ⟨m, hm, hsub, hc⟩
      obtain ⟨hst, l, rfl⟩ := (completes_iff s m).mp hc
      exact ⟨l, hm, hsub, hst⟩
    · rintro ⟨l, hm, hsub, hst⟩
      exact ⟨_, hm, hsub, (completes_iff s _).mpr ⟨hst, l, rfl⟩⟩
  refine ⟨hiff, ?_, initialised_set_only_with_hbStart s op, ?_⟩
  · intro h
    obtain ⟨l, hm, hsub, hst⟩ := hiff.mp h
    rw [apiStep_of_opMsg hm]
    exact recv_state_completes s l hsub hst
  · intro m hm hres
    rw [apiStep_of_opMsg hm] at hres ⊢
    by_cases hx : (s.subscribed && completes s m) = true
    · have := (recv_counts s m).2.2.1
      rw [hx] at this
      simp only [↓reduceIte] at this
      exact List.count_pos_iff.mp (by omega)
    · exact absurd hres ((plain_recv s m (by simpa using hx)).not_mem rfl)

/-- For every state and every op: a running heartbeat becomes idle only by `shutdown()`; `HBSTOP` is output by
    `shutdown()` and by nothing else; `shutdown()` leaves the heartbeat idle; no op changes the parameters. -/
theorem hb_stopped_only_by_shutdown_at4 (s : State) (op : Op) :
    (hbIdle s.hb = false → hbIdle (apiStep s op).1.hb = true → op = .shutdown) ∧
    (Ev.hbStop ∈ (apiStep s op).2 ↔ op = .shutdown) ∧
    hbIdle (apiStep s .shutdown).1.hb = true ∧
    (apiStep s op).1.hb.interval = s.hb.interval ∧ (apiStep s op).1.hb.timeout = s.hb.timeout := by
  have e1 : (apiStep s op).1.hb = opHB s op := congrArg HbView.hb (hbView_apiStep s op)
  refine ⟨?_, hbStop_iff_shutdown s op, ?_, by rw [e1]; exact (opHB_params s op).1,
    by rw [e1]; exact (opHB_params s op).2⟩
  · intro h0 h1
    by_cases hop : op = .shutdown
    · exact hop
    · rw [e1, (hbKeep_opHB s op hop).running h0] at h1; cases h1
  · simp only [apiStep, doShutdown, hbApply, Heartbeat.step, Heartbeat.HB.emit, Option.getD_some, hbIdle]
    split <;> simp_all

/-- A handshake completed again while the heartbeat runs (`init()` repeated without `shutdown()`): `HBSTART` is
    output, but the heartbeat is left exactly as it is - `start()` on a running heartbeat does nothing; in
    particular the deadline is not re-armed. -/
theorem rehandshake_keeps_heartbeat_at4 (s : State) (l : List X2B.GroupStatusData) (hsub : s.subscribed = true)
    (hst : s.st = .INIT_GROUP_STATUS) (hrun : hbIdle s.hb = false) :
    Ev.hbStart ∈ (apiStep s (.recv (.groupStatus (.status l)))).2 ∧
    (apiStep s (.recv (.groupStatus (.status l)))).1.hb = s.hb ∧
    hbEv ∉ (apiStep s (.recv (.groupStatus (.status l)))).2 := by
  have hc : completes s (.groupStatus (.status l)) = true := (completes_iff s _).mpr ⟨hst, l, rfl⟩
  refine ⟨(hbStart_iff_completes s _).mpr ⟨_, rfl, hsub, hc⟩, ?_, ?_⟩
  · have e1 : (apiStep s (.recv (.groupStatus (.status l)))).1.hb = recvHB s (.groupStatus (.status l)) :=
      congrArg HbView.hb (hbView_recv s _)
    rw [e1]
    simp only [recvHB, hsub, hc, Bool.and_self, ↓reduceIte, startHB, hrun, Bool.false_eq_true]
  · have := (recv_counts s (.groupStatus (.status l))).2.2.2
    have h0 : numBeats (recvTrace s (.groupStatus (.status l))) = 0 := by
      simp [recvTrace, hsub, hc, hrun, numBeats]
    rw [h0] at this
    exact List.count_eq_zero.mp this

/-! ### non-vacuity -/

/-- `init()` again on the connected demo state at tick 10, and the handshake up to the last message (its version
    message is a heartbeat response: the deadline is 10 + 2640) -/
def reinitBeforeLast : State := (run demo ([.adv 10, .init, .conn true] ++ (demoAnswers.take 5).map Op.recv)).1

example : reinitBeforeLast.subscribed = true ∧ reinitBeforeLast.st = .INIT_GROUP_STATUS ∧
    hbIdle reinitBeforeLast.hb = false ∧ reinitBeforeLast.hb.tl = .waiting 2650 ∧ reinitBeforeLast.now = 10 := by decide

/-- the state before the last handshake message -/
def beforeLast : State := (run State.initial ([.init, .conn true] ++ (demoAnswers.take 5).map Op.recv)).1

example : beforeLast.subscribed = true ∧ beforeLast.st = .INIT_GROUP_STATUS ∧ hbIdle beforeLast.hb = true ∧
    beforeLast.hb.interval = heartbeatDefaultIntervalField ∧ beforeLast.hb.timeout = heartbeatDefaultTimeoutField ∧
    beforeLast.sockConnected = true ∧ beforeLast.initialised = false ∧ beforeLast.initWaits.length = 1 := by decide

example : Ev.hbStart ∈ (apiStep beforeLast (.recv demoGroupMsg)).2 ∧
    hbEv ∈ (apiStep beforeLast (.recv demoGroupMsg)).2 := by decide

example : hbIdle demo.hb = false ∧ hbIdle (apiStep demo .shutdown).1.hb = true ∧
    Ev.hbStop ∈ (apiStep demo .shutdown).2 := by decide

/-! ## 2. the message emitted and the response matcher -/

/-- the heartbeat message is the extended console-version request, sent with the connected-only policy
    (no retries, lifetime 8 ticks = 1 s) -/
theorem hb_message_at4 :
    hbMessage = versionRequest ∧ hbMessage = .reg (.extended (.consoleVer .request)) ∧
    hbEv = Ev.send .connected hbMessage ∧
    Policy.connected.pair = Gen.retryConnected ∧ Gen.retryConnected = (0, 8) :=
  ⟨rfl, rfl, rfl, rfl, rfl⟩

/-- whatever the heartbeat loop outputs is that event -/
theorem fireBeat_outputs_at4 (s : State) : ∀ e ∈ (fireBeat s).2, e = Ev.send .connected hbMessage := by
  rw [fireBeat_eq]
  simp only [beatEvs]
  intro e he
  repeat' split at he
  all_goals simp at he
  exact he

/-- the matcher as the code has it: an extended message whose sub-message has the console-version message id -/
theorem isHeartbeatResponse_iff_at4 (m : RMsg) :
    isHeartbeatResponse m = true ↔
      ∃ sub, m = .extended sub ∧ sub.messageId = Gen.At4.X1FFF30ConsoleVer.MESSAGE_ID := by
  cases m with
  | extended sub => simp [isHeartbeatResponse]
  | _ => simp [isHeartbeatResponse]

/-- … concretely: true for an extended message carrying a console-version sub-message - the version message *and*
    the version request - and for an extended message with an undecoded sub-message whose id is `0xFF30` (a value
    the decoder never builds, `decoder_never_builds_unsupported_ff30_at4`); false for everything else -/
theorem isHeartbeatResponse_cases_at4 :
    (∀ v, isHeartbeatResponse (.extended (.consoleVer (.message v))) = true) ∧
    isHeartbeatResponse (.extended (.consoleVer .request)) = true ∧
    (∀ id raw, isHeartbeatResponse (.extended (.unsupported id raw)) = (id == 0xFF30)) ∧
    (∀ x, isHeartbeatResponse (.extended (.errInfo x)) = false) ∧
    (∀ x, isHeartbeatResponse (.extended (.groupNames x)) = false) ∧
    (∀ x, isHeartbeatResponse (.extended (.acAbility x)) = false) ∧
    (∀ x, isHeartbeatResponse (.extended (.quickTimer x)) = false) ∧
    (∀ x, isHeartbeatResponse (.acStatus x) = false) ∧
    (∀ x, isHeartbeatResponse (.groupStatus x) = false) ∧
    (∀ x, isHeartbeatResponse (.acTimerStatus x) = false) ∧
    (∀ x, isHeartbeatResponse (.acTimerCtrl x) = false) ∧
    (∀ x, isHeartbeatResponse (.acCtrl x) = false) ∧
    (∀ x, isHeartbeatResponse (.groupCtrl x) = false) ∧
    (∀ id raw, isHeartbeatResponse (.unsupported id raw) = false) := by
  refine ⟨fun _ => rfl, rfl, fun _ _ => rfl, fun _ => rfl, fun _ => rfl, fun _ => rfl, fun _ => rfl, fun _ => rfl,
    fun _ => rfl, fun _ => rfl, fun _ => rfl, fun _ => rfl, fun _ => rfl, fun _ _ => rfl⟩

example : Gen.At4.X1FFF30ConsoleVer.MESSAGE_ID = 0xFF30 := by decide

/-- the sub-message decoder never yields an undecoded sub-message with the console-version id -/
theorem decoder_never_builds_unsupported_ff30_at4 (subId subLen : Nat) (body rest raw : Bytes) (id : Nat)
    (h : At4.Registry.decodeSub subId subLen body = .ok (.unsupported id raw, rest)) : id ≠ 0xFF30 := by
  unfold At4.Registry.decodeSub at h
  have hm : ∀ {M : Type} (f : M → At4.Registry.ExtSub) (r : Except DecErr (M × Bytes)),
      (∀ x, f x ≠ .unsupported id raw) → At4.Registry.mapMsg f r ≠ .ok (.unsupported id raw, rest) := by
    intro M f r hf hr
    unfold At4.Registry.mapMsg at hr
    split at hr
    · simp only [Except.ok.injEq, Prod.mk.injEq] at hr; exact hf _ hr.1
    · cases hr
  repeat' split at h
  · exact absurd h (hm _ _ (fun x hx => by cases hx))
  · exact absurd h (hm _ _ (fun x hx => by cases hx))
  · exact absurd h (hm _ _ (fun x hx => by cases hx))
  · exact absurd h (hm _ _ (fun x hx => by cases hx))
  · exact absurd h (hm _ _ (fun x hx => by cases hx))
  · next h5 =>
    simp only [Except.ok.injEq, Prod.mk.injEq, At4.Registry.ExtSub.unsupported.injEq] at h
    rw [← h.1.1]; exact h5

/-- A message the matcher rejects does not touch the embedded heartbeat - unless it is the group status that
    completes the handshake while the heartbeat is idle (which starts it).  In particular in state `CONNECTED`,
    and whenever the heartbeat is running, deadline and arm point are unchanged. -/
theorem non_response_does_not_rearm_at4 (s : State) (m : RMsg) (h : isHeartbeatResponse m = false) :
    (apiStep s (.recv m)).1.hb = (if s.subscribed && completes s m then startHB s.now s.hb else s.hb) ∧
    ((s.subscribed && completes s m && hbIdle s.hb) = false → (apiStep s (.recv m)).1.hb = s.hb) ∧
    (s.st = .CONNECTED → (apiStep s (.recv m)).1.hb = s.hb) ∧
    (hbIdle s.hb = false → (apiStep s (.recv m)).1.hb = s.hb) := by
  have e1 : (apiStep s (.recv m)).1.hb = recvHB s m := congrArg HbView.hb (hbView_recv s m)
  have e2 : recvHB s m = (if s.subscribed && completes s m then startHB s.now s.hb else s.hb) := by
    simp only [recvHB, h, Bool.false_eq_true, ↓reduceIte]
  have e3 : (s.subscribed && completes s m && hbIdle s.hb) = false → (apiStep s (.recv m)).1.hb = s.hb := by
    intro hx
    rw [e1, e2]
    split
    · next hc =>
      rw [hc] at hx
      simp only [Bool.true_and] at hx
      simp only [startHB, hx, Bool.false_eq_true, ↓reduceIte]
    · rfl
  refine ⟨e1.trans e2, e3, ?_, ?_⟩
  · intro hst
    apply e3
    have : completes s m = false := by simp [completes, hst]
    simp [this]
  · intro hi
    apply e3
    simp [hi]

/-- A message the matcher accepts, delivered while the timeout loop waits: the deadline moves to now + timeout and
    the arm point to now; the event is consumed at once; the heartbeat loop is untouched. -/
theorem response_rearms_at4 (s : State) (m : RMsg) (d : Nat) (h : isHeartbeatResponse m = true)
    (hw : s.hb.tl = .waiting d) :
    (apiStep s (.recv m)).1.hb.tl = .waiting (s.now + s.hb.timeout) ∧
    (apiStep s (.recv m)).1.hb.lastArm = s.now ∧
    (apiStep s (.recv m)).1.hb.flag = false ∧
    (apiStep s (.recv m)).1.hb.hl = s.hb.hl ∧
    (apiStep s (.recv m)).1.hb.trace = s.hb.trace ++ [.resp s.now] := by
  have e1 : (apiStep s (.recv m)).1.hb = recvHB s m := congrArg HbView.hb (hbView_recv s m)
  have hc : completes s m = false := by
    cases hx : completes s m with
    | false => rfl
    | true => rw [completes_not_response hx] at h; cases h
  have e2 : recvHB s m = respondedHB { s.hb with now := s.now } := by
    simp only [recvHB, hc, Bool.and_false, Bool.false_eq_true, ↓reduceIte, h]
  obtain ⟨f1, f2, f3, f4, f5, f6, f7, f8, f9, f10⟩ := respondedHB_waiting (h := { s.hb with now := s.now }) hw
  rw [e1, e2]
  exact ⟨f1, f2, f4, f3, f7⟩

/-! ### non-vacuity -/

example : isHeartbeatResponse demoVersionMsg = true ∧ isHeartbeatResponse demoGroupMsg = false ∧
    isHeartbeatResponse demoAcStatusMsg = false := by decide

example : demo.hb.tl = .waiting 2640 ∧ demo.hb.hl = .sleeping 2400 ∧ demo.hb.lastArm = 0 ∧ demo.now = 0 := by decide

/-- a version message 10 ticks after the handshake moves the deadline from 2640 to 2650; a group status does not -/
example : (run demo [.adv 10, .recv demoVersionMsg]).1.hb.tl = .waiting 2650 ∧
    (run demo [.adv 10, .recv demoVersionMsg]).1.hb.lastArm = 10 ∧
    (run demo [.adv 10, .recv demoGroupMsg]).1.hb.tl = .waiting 2640 := by decide

/-! ## 3. the invariant `HbWf` and the bridge to `Props/C08.lean` -/

/-- `HbWf s`: the embedded heartbeat's clock is the API object's clock; it is a reachable state of the heartbeat
    model with interval 2400 and timeout 2640; no response event is pending; no reset is in progress; a pending
    deadline and a pending wake-up lie strictly ahead; its connection flag is the socket's. -/
theorem hbWf_def_at4 (s : State) :
    HbWf s ↔ (s.hb.now = s.now ∧ Reachable heartbeatDefaultIntervalField heartbeatDefaultTimeoutField s.hb ∧
      s.hb.flag = false ∧ s.hb.tl ≠ .resetting ∧ (∀ d, s.hb.tl = .waiting d → s.now < d) ∧
      (∀ u, s.hb.hl = .sleeping u → s.now < u) ∧ s.hb.connected = s.sockConnected) :=
  ⟨fun ⟨a, b, c, d, e, f, g⟩ => ⟨a, b, c, d, e, f, g⟩, fun ⟨a, b, c, d, e, f, g⟩ => ⟨a, b, c, d, e, f, g⟩⟩

theorem hbWf_initial_at4 : HbWf State.initial := hbWf_initial

/-- preserved by EVERY op -/
theorem hbWf_step_at4 {s : State} (op : Op) (wf : HbWf s) : HbWf (apiStep s op).1 := hbWf_apiStep op wf

theorem hbWf_run_from_at4 {s : State} (ops : List Op) (wf : HbWf s) : HbWf (run s ops).1 := hbWf_run ops wf

/-- hence it holds in every state reachable from the initial one -/
theorem hbWf_run_at4 (ops : List Op) : HbWf (run State.initial ops).1 := hbWf_run ops hbWf_initial

theorem demo_hbWf_at4 : HbWf demo := hbWf_run demoOps hbWf_initial

/-- One `tick` acts on the embedded heartbeat as the labels `advance (now+1)`, then - if the deadline is due -
    `tlFire, tlResetDone` (socket connected) or `tlFire` (not connected), then - if the wake-up is due - `hlBeat`,
    each of them enabled; the `RESET`s / heartbeat requests output are the `reset` / `beat` events recorded, all
    stamped `now + 1`. -/
theorem tick_hb_run_at4 : type_of% @tick_hb_run := @tick_hb_run

example (c : Bool) (t : Nat) (h : HB) : tickLabels c t h =
    [.advance t] ++
    (match h.tl with
     | .waiting d => if d ≤ t then (if c then [.tlFire, .tlResetDone] else [.tlFire]) else []
     | _ => []) ++
    (match h.hl with
     | .sleeping u => if u ≤ t then [.hlBeat] else []
     | .idle => []) := rfl

/-- Every op acts on the embedded heartbeat as the run `opLabels s op` of the heartbeat model (`adv n`: the labels
    of `n` ticks; `conn up`: `conn up`; `shutdown`: `stop, conn false`; a delivered message: `start, hlBeat` when it
    completes the handshake with the heartbeat idle, `response, tlWake` when the matcher accepts it while the
    timeout loop waits, nothing otherwise; every other op: nothing); the events recorded are `opTrace s op`, stamped
    within the op's time span; the `RESET`s output are the `reset` events recorded. -/
theorem apiStep_hb_run_at4 : type_of% @apiStep_hb_run := @apiStep_hb_run

/-- the heartbeat requests output by the clock or by a delivered message are the `beat` events recorded -/
theorem beat_count_at4 : type_of% @beat_count_apiStep := @beat_count_apiStep

/-- the same for whole scripts -/
theorem run_hb_run_at4 : type_of% @run_hb_run := @run_hb_run

/-- from the initial state: the `RESET`s a script outputs are exactly the `reset` events in the heartbeat's trace -/
theorem reset_outputs_are_trace_resets_at4 (ops : List Op) :
    (run State.initial ops).2.count Ev.reset = numResets (run State.initial ops).1.hb.trace :=
  (run_initial_trace ops).2

/-- no op but `adv` outputs `RESET` -/
theorem reset_only_by_clock_at4 (s : State) (op : Op) (h : Ev.reset ∈ (apiStep s op).2) : ∃ n, op = .adv n :=
  reset_only_adv s op h

/-- the embedded heartbeat of every reachable API state is a reachable state of the heartbeat model -/
theorem hb_reachable_at4 (ops : List Op) :
    Reachable heartbeatDefaultIntervalField heartbeatDefaultTimeoutField (run State.initial ops).1.hb :=
  hb_reachable ops

/-! ### the theorems of `Props/C08.lean` on API states -/

theorem deadline_never_missed_at4 {s : State} (wf : HbWf s) :
    (∀ d, s.hb.tl = .waiting d → s.hb.now ≤ d ∧ d = s.hb.lastArm + s.hb.timeout) ∧
    s.hb.timeout = heartbeatDefaultTimeoutField ∧ s.hb.interval = heartbeatDefaultIntervalField :=
  C08_deadline_never_missed wf.reach

theorem reset_only_after_full_silence_at4 {s : State} (wf : HbWf s) :
    ∀ r, HEv.reset r ∈ s.hb.trace → heartbeatDefaultTimeoutField ≤ r ∧
      ∀ x, HEv.resp x ∈ s.hb.trace → ¬ (r - heartbeatDefaultTimeoutField < x ∧ x < r) :=
  C08_reset_only_after_full_silence wf.reach

theorem reset_origin_at4 {s : State} (wf : HbWf s) :
    ∀ r, HEv.reset r ∈ s.hb.trace → ∃ k a, r = a + (k + 1) * heartbeatDefaultTimeoutField ∧
      (HEv.start a ∈ s.hb.trace ∨ HEv.resp a ∈ s.hb.trace ∨ HEv.resetDone a ∈ s.hb.trace) ∧
      ∀ x, HEv.resp x ∈ s.hb.trace → x ≤ a ∨ r ≤ x :=
  C08_reset_origin wf.reach

theorem wake_never_missed_at4 {s : State} (wf : HbWf s) {u : Nat} (hu : s.hb.hl = .sleeping u) : s.hb.now ≤ u :=
  C08_wake_never_missed wf.reach hu

/-- … in every state reachable from the initial one -/
theorem reset_only_after_full_silence_run_at4 (ops : List Op) :
    ∀ r, HEv.reset r ∈ (run State.initial ops).1.hb.trace → 2640 ≤ r ∧
      ∀ x, HEv.resp x ∈ (run State.initial ops).1.hb.trace → ¬ (r - 2640 < x ∧ x < r) :=
  reset_only_after_full_silence_at4 (hbWf_run_at4 ops)

/-! ### (i) silence is detected: a `RESET` exactly one timeout after the last arm point -/

/-- With the timeout loop waiting for `d`: `d` is the last arm point + 2640 and lies ahead.  During one `adv n` (no
    message in between) the timeout expires at `d`, `d + 2640`, `d + 5280`, … as far as the clock gets; each expiry
    outputs one `RESET` iff the socket is connected, and re-arms at once. -/
theorem silence_detected_at4 {s : State} (d : Nat) (wf : HbWf s) (hw : s.hb.tl = .waiting d) :
    d = s.hb.lastArm + 2640 ∧ s.now < d ∧
    (∀ n, (apiStep s (.adv n)).2.count Ev.reset =
      (if s.sockConnected then deadlinesUpTo d 2640 (s.now + n) else 0)) ∧
    (∀ n, (apiStep s (.adv n)).1.hb.tl = .waiting (d + 2640 * deadlinesUpTo d 2640 (s.now + n))) ∧
    (∀ n, (apiStep s (.adv n)).1.hb.lastArm =
      (if deadlinesUpTo d 2640 (s.now + n) = 0 then s.hb.lastArm
       else d + 2640 * (deadlinesUpTo d 2640 (s.now + n) - 1))) := by
  have hb := deadline_never_missed_at4 wf
  have hd := (hb.1 d hw).2
  rw [hb.2.1] at hd
  refine ⟨hd, wf.deadline d hw, fun n => (advance_resets n d wf hw).1, fun n => (advance_resets n d wf hw).2, ?_⟩
  intro n
  have wf' := hbWf_step_at4 (.adv n) wf
  have hb' := deadline_never_missed_at4 wf'
  have hd' := (hb'.1 _ (advance_resets n d wf hw).2).2
  rw [hb'.2.1] at hd'
  have h2640 : heartbeatDefaultTimeoutField = 2640 := rfl
  have hT : hbT = 2640 := rfl
  rw [h2640] at hd hd'
  rw [hT] at hd'
  split
  · next h0 => rw [h0] at hd'; omega
  · next h0 =>
    generalize deadlinesUpTo d 2640 (s.now + n) = K at h0 hd'
    cases K with
    | zero => exact absurd rfl h0
    | succ K => simp only [Nat.add_sub_cancel]; rw [Nat.mul_add] at hd'; omega

/-- nothing before the deadline; exactly one `RESET` when the clock reaches it (socket connected), the next deadline
    2640 ticks after it -/
theorem reset_at_deadline_at4 {s : State} (d : Nat) (wf : HbWf s) (hw : s.hb.tl = .waiting d)
    (hconn : s.sockConnected = true) :
    (∀ n, s.now + n < d → Ev.reset ∉ (apiStep s (.adv n)).2 ∧ (apiStep s (.adv n)).1.hb.tl = .waiting d) ∧
    (apiStep s (.adv (d - s.now))).2.count Ev.reset = 1 ∧
    (apiStep s (.adv (d - s.now))).1.hb.tl = .waiting (d + 2640) ∧
    (apiStep s (.adv (d - s.now))).1.hb.lastArm = d ∧
    (apiStep s (.adv (d - s.now))).1.now = d := by
  obtain ⟨_, hlt, a1, a2, a3⟩ := silence_detected_at4 d wf hw
  have e3 : deadlinesUpTo d 2640 d = 1 := by simp [deadlinesUpTo]
  have e2 : s.now + (d - s.now) = d := by omega
  refine ⟨?_, ?_, ?_, ?_, ?_⟩
  · intro n hn
    have h1 := a1 n
    have h2 := a2 n
    rw [deadlinesUpTo_before _ _ _ hn] at h1 h2
    simp only [hconn, ↓reduceIte] at h1
    exact ⟨List.count_eq_zero.mp h1, by simpa using h2⟩
  · have := a1 (d - s.now); rw [e2, e3, hconn] at this; exact this
  · have := a2 (d - s.now); rw [e2, e3] at this; exact this
  · have := a3 (d - s.now); rw [e2, e3] at this; simpa using this
  · rw [apiStep_now]; exact e2

/-- with the socket not connected no `RESET` is ever output by the clock; the deadline still moves on -/
theorem no_reset_while_disconnected_at4 {s : State} (d : Nat) (wf : HbWf s) (hw : s.hb.tl = .waiting d)
    (hconn : s.sockConnected = false) :
    (∀ n, Ev.reset ∉ (apiStep s (.adv n)).2) ∧
    (apiStep s (.adv (d - s.now))).1.hb.tl = .waiting (d + 2640) := by
  obtain ⟨_, hlt, a1, a2, _⟩ := silence_detected_at4 d wf hw
  have e3 : deadlinesUpTo d 2640 d = 1 := by simp [deadlinesUpTo]
  have e2 : s.now + (d - s.now) = d := by omega
  refine ⟨fun n => ?_, ?_⟩
  · have := a1 n
    simp only [hconn, Bool.false_eq_true, ↓reduceIte] at this
    exact List.count_eq_zero.mp this
  · have := a2 (d - s.now); rw [e2, e3] at this; exact this

/-! ### (ii) a heartbeat request every interval -/

/-- With the heartbeat loop sleeping until `u`: during one `adv n` it wakes at `u`, `u + 2400`, `u + 4800`, … as far
    as the clock gets and outputs one heartbeat request each time iff the socket is connected (nothing else the
    clock does outputs that event). -/
theorem beats_every_interval_at4 {s : State} (u : Nat) (wf : HbWf s) (hw : s.hb.hl = .sleeping u) :
    s.now < u ∧ u ≤ s.now + 2400 ∧
    (∀ n, (apiStep s (.adv n)).2.count hbEv = (if s.sockConnected then deadlinesUpTo u 2400 (s.now + n) else 0)) ∧
    (∀ n, (apiStep s (.adv n)).1.hb.hl = .sleeping (u + 2400 * deadlinesUpTo u 2400 (s.now + n))) := by
  have hb := (Lemmas.Heartbeat.reachable_basic wf.reach).wake u hw
  have hi := (Lemmas.Heartbeat.reachable_basic wf.reach).interval_eq
  have h2400 : heartbeatDefaultIntervalField = 2400 := rfl
  rw [hi, h2400, wf.now_eq] at hb
  exact ⟨wf.wake u hw, hb.2, fun n => (advance_beats n u wf hw).1, fun n => (advance_beats n u wf hw).2⟩

/-! ### (iii) no false reset -/

/-- `responsive rem ops`: `rem` ticks are left until the deadline; an `adv n` needs `n < rem`; a delivered message
    accepted by the matcher puts `rem` back to 2640; `shutdown` is not allowed; anything else leaves `rem` alone. -/
theorem responsive_def_at4 (rem : Nat) (op : Op) (ops : List Op) :
    responsive rem [] = true ∧
    responsive rem (op :: ops) =
      (match op with
       | .adv n => decide (n < rem) && responsive (rem - n) ops
       | .shutdown => false
       | _ =>
         match opMsg op with
         | some m => responsive (if isHeartbeatResponse m then 2640 else rem) ops
         | none => responsive rem ops) := by
  refine ⟨rfl, ?_⟩
  cases op <;> rfl

/-- **If a console-version message is received at least once in every window of less than 2640 ticks, no `RESET`
    is ever output**: along a responsive script (starting with the `d - now` ticks left until the deadline) no
    `RESET` is output and the timeout loop is still waiting, its deadline ahead. -/
theorem no_false_reset_at4 (ops : List Op) {s : State} {d : Nat} (wf : HbWf s) (hw : s.hb.tl = .waiting d)
    (hr : responsive (d - s.now) ops = true) :
    Ev.reset ∉ (run s ops).2 ∧ ∃ d', (run s ops).1.hb.tl = .waiting d' ∧ (run s ops).1.now < d' :=
  responsive_run ops wf hw hr

/-- the link to `C08_no_false_reset`: if the labels by which a script drives the heartbeat form a `GoodRun` (every
    iteration of the heartbeat loop is followed by a consumed response within `timeout − interval` = 240 ticks), the
    script outputs no `RESET` -/
theorem no_false_reset_goodrun_at4 (ops : List Op)
    (hg : Lemmas.Heartbeat.GoodRun (heartbeatDefaultTimeoutField - heartbeatDefaultIntervalField)
      (runLabels State.initial ops)) :
    Ev.reset ∉ (run State.initial ops).2 := by
  obtain ⟨a1, _, _⟩ := run_hb_run ops hbWf_initial
  have hno := C08_no_false_reset (i := heartbeatDefaultIntervalField) (t := heartbeatDefaultTimeoutField)
    (by decide) _ _ a1 hg
  have h0 : numResets (run State.initial ops).1.hb.trace = 0 := by
    unfold numResets
    rw [List.countP_eq_zero]
    intro e he hr
    cases e <;> simp [isResetEv] at hr
    exact hno _ he
  have := reset_outputs_are_trace_resets_at4 ops
  rw [h0] at this
  exact List.count_eq_zero.mp this

/-! ### non-vacuity -/

set_option maxRecDepth 8192 in
example : Lemmas.Heartbeat.GoodRun (heartbeatDefaultTimeoutField - heartbeatDefaultIntervalField)
    (runLabels State.initial (demoOps ++ [.adv 20, .recv demoVersionMsg, .adv 5])) := by decide

example : runLabels State.initial (demoOps ++ [.adv 2, .recv demoVersionMsg, .conn false]) =
    [.conn true, .start, .hlBeat, .advance 1, .advance 2, .response, .tlWake, .conn false] := by decide

example : ¬ Ev.hbStart ∈ (apiStep demo (.recv demoGroupMsg)).2 := by decide

example : HbWf demo ∧ demo.hb.tl = .waiting 2640 ∧ demo.hb.hl = .sleeping 2400 ∧ demo.sockConnected = true ∧
    demo.now = 0 ∧ demo.hb.lastArm = 0 :=
  ⟨demo_hbWf_at4, by decide⟩

example : deadlinesUpTo 2640 2640 2639 = 0 ∧ deadlinesUpTo 2640 2640 2640 = 1 ∧ deadlinesUpTo 2640 2640 5279 = 1 ∧
    deadlinesUpTo 2640 2640 5280 = 2 ∧ deadlinesUpTo 2400 2400 7200 = 3 := by decide

/-- 2639 ticks of silence after the handshake: no `RESET` -/
example : (apiStep demo (.adv 2639)).2.count Ev.reset = 0 := by
  rw [(silence_detected_at4 2640 demo_hbWf_at4 (by decide)).2.2.1]; decide

/-- 2640 ticks: one `RESET`, the next deadline at 5280 -/
example : (apiStep demo (.adv 2640)).2.count Ev.reset = 1 ∧ (apiStep demo (.adv 2640)).1.hb.tl = .waiting 5280 := by
  have h := reset_at_deadline_at4 2640 demo_hbWf_at4 (by decide) (by decide)
  have e : 2640 - demo.now = 2640 := by decide
  rw [e] at h
  exact ⟨h.2.1, h.2.2.1⟩

/-- 2 h of silence (57600 ticks): 21 `RESET`s and 24 heartbeat requests -/
example : (apiStep demo (.adv 57600)).2.count Ev.reset = 21 ∧ (apiStep demo (.adv 57600)).2.count hbEv = 24 := by
  constructor
  · rw [(silence_detected_at4 2640 demo_hbWf_at4 (by decide)).2.2.1]; decide
  · rw [(beats_every_interval_at4 2400 demo_hbWf_at4 (by decide)).2.2.1]; decide

/-- the socket loses its connection right after the handshake: the clock outputs no `RESET` -/
example : Ev.reset ∉ (apiStep (apiStep demo (.conn false)).1 (.adv 10000)).2 :=
  (no_reset_while_disconnected_at4 2640 (hbWf_step_at4 _ demo_hbWf_at4) (by decide) (by decide)).1 10000

/-- a responsive script: 7239 ticks, a version message after 2000 and after 4600 -/
example : responsive (2640 - 0) [.adv 2000, .recv demoVersionMsg, .adv 2600, .recv demoVersionMsg, .adv 2639] = true := by
  decide

example : Ev.reset ∉ (run demo [.adv 2000, .recv demoVersionMsg, .adv 2600, .recv demoVersionMsg, .adv 2639]).2 :=
  (no_false_reset_at4 _ demo_hbWf_at4 (d := 2640) (by decide) (by decide)).1

/-- … and one tick more at the end is not responsive -/
example : responsive (2640 - 0) [.adv 2000, .recv demoVersionMsg, .adv 2600, .recv demoVersionMsg, .adv 2640] = false := by
  decide

/-- a message the matcher rejects does not help -/
example : responsive (2640 - 0) [.adv 2000, .recv demoGroupMsg, .adv 640] = false := by decide

end PyAirtouch.Props.C08
