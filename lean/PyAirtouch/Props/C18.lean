import PyAirtouch.Lemmas.Discovery
/-!
# C18 — discovery

Theorems about the model `PyAirtouch.Model.Discovery` of the UDP discovery client
(`atN/comms/discovery.py`, `comms/discovery.py`, `factory.discover`) against the independent
specification `PyAirtouch.Spec.Discovery` (vendor response format, request schedule).
`c` ranges over the two configurations `cfg4`, `cfg5`; `toSpec` renames the fields of the model's
`Response` into those of the specification's.
-/
namespace PyAirtouch.Props.C18
open PyAirtouch.Model PyAirtouch.Model.Discovery PyAirtouch.Lemmas.Discovery
open PyAirtouch.Spec.Discovery (readResponse marker4 marker5 expectedRequests returnTime expectedResponses)

/-- A datagram yields an entry exactly when it is in the vendor response format of the generation,
    and then with exactly its host, serial, id and name — for every datagram. -/
theorem C18_received_eq_spec {c : Cfg} (hc : c = cfg4 ∨ c = cfg5) (d : Bytes) (r : Response) :
    received c d = .added r ↔ readResponse c.gen d = some (toSpec r) := by
  rcases hc with rfl | rfl
  · exact received4_eq_spec d r
  · exact received5_eq_spec d r

/-- an AirTouch 5 response whose name contains commas and multi-byte text -/
example :
    let d := "192.168.1.9,23F4A1,AirTouch5,11223,Café, étage 2,左".toUTF8.toList.map (·.toNat)
    let r : Response := ⟨5, "11223".toUTF8.toList.map (·.toNat), some ("Café, étage 2,左".toUTF8.toList.map (·.toNat)),
      "23F4A1".toUTF8.toList.map (·.toNat), "192.168.1.9".toUTF8.toList.map (·.toNat)⟩
    received cfg5 d = .added r ∧ readResponse cfg5.gen d = some (toSpec r) := by decide +kernel

/-- Datagrams of any other form (echo of the request, wrong number of parts, marker elsewhere,
    invalid UTF-8, empty) add nothing. -/
theorem C18_nonresponse_adds_nothing {c : Cfg} (hc : c = cfg4 ∨ c = cfg5) (d : Bytes) :
    readResponse c.gen d = none → ∀ r, received c d ≠ .added r := by
  intro h r hr
  rw [C18_received_eq_spec hc] at hr
  rw [h] at hr; cases hr

/-- the echo of the request, the empty datagram, too few parts, the marker in the wrong field,
    an invalid UTF-8 serial -/
example :
    readResponse 5 Gen.Discovery.At5.requestData = none ∧ readResponse 4 Gen.Discovery.At4.requestData = none ∧
    readResponse 5 [] = none ∧ readResponse 4 [] = none ∧
    readResponse 5 ("10.0.0.2,AB,AirTouch5,77".toUTF8.toList.map (·.toNat)) = none ∧
    readResponse 4 ("10.0.0.2,AirTouch4,AB,77".toUTF8.toList.map (·.toNat)) = none ∧
    readResponse 4 ([49, 44, 255, 44] ++ marker4 ++ [44, 55]) = none ∧
    received cfg4 ([49, 44, 255, 44] ++ marker4 ++ [44, 55]) = .raised .unicodeError ∧
    received cfg4 ("10.0.0.2,AirTouch4,AB,77".toUTF8.toList.map (·.toNat)) = .decodeErrorLogged := by
  decide +kernel

/-- the request string itself is not in the response format and is ignored -/
theorem C18_request_echo_ignored {c : Cfg} (hc : c = cfg4 ∨ c = cfg5) :
    readResponse c.gen c.requestData = none ∧ received c c.requestData = .ignored := by
  rcases hc with rfl | rfl <;> decide

example : received cfg5 cfg5.requestData = .ignored ∧ cfg5.requestData ≠ [] := by decide

/-- a datagram in the response format always passes the model's `match` pre-filter: it contains
    `,AirTouchN,` (the marker is the third comma-separated field) and is not the request -/
theorem C18_response_contains_marker {c : Cfg} (hc : c = cfg4 ∨ c = cfg5) (d : Bytes) :
    (readResponse c.gen d).isSome → contains c.responseId d = true ∧ d ≠ c.requestData := by
  intro h
  obtain ⟨s, hs⟩ := Option.isSome_iff_exists.1 h
  have hne : d ≠ c.requestData := by
    intro e; rw [e, (C18_request_echo_ignored hc).1] at hs; cases hs
  have hr : received c d = .added (ofSpec s) := (C18_received_eq_spec hc d _).2 (by rw [hs, toSpec_ofSpec])
  refine ⟨?_, hne⟩
  unfold received at hr
  split at hr
  · cases hr
  · rename_i hm
    have hb : (d == c.requestData) = false := by simpa using hne
    simpa [«match», hb] using hm

example : contains cfg4.responseId ("10.0.0.2,AB,AirTouch4,77".toUTF8.toList.map (·.toNat)) = true ∧
    (readResponse cfg4.gen ("10.0.0.2,AB,AirTouch4,77".toUTF8.toList.map (·.toNat))).isSome := by decide +kernel

/-- An AirTouch 5 datagram assembled from valid parts is added with exactly these parts; the name
    may contain commas. -/
theorem C18_valid_response_parts (host serial aid name : Bytes)
    (hh : ∀ b ∈ host, b ≠ 44) (hs : ∀ b ∈ serial, b ≠ 44) (ha : ∀ b ∈ aid, b ≠ 44)
    (vh : utf8Valid host = true) (vs : utf8Valid serial = true) (va : utf8Valid aid = true)
    (vn : utf8Valid name = true) :
    received cfg5 (host ++ [44] ++ serial ++ [44] ++ marker5 ++ [44] ++ aid ++ [44] ++ name)
      = .added ⟨5, aid, some name, serial, host⟩ := by
  rw [received5_eq_spec]
  have hm : ∀ b ∈ marker5, b ≠ 44 := by decide +kernel
  have e : host ++ [44] ++ serial ++ [44] ++ marker5 ++ [44] ++ aid ++ [44] ++ name
      = host ++ 44 :: (serial ++ 44 :: (marker5 ++ 44 :: (aid ++ 44 :: name))) := by simp
  rw [e]
  simp only [readResponse, Nat.reduceEqDiff, if_false]
  rw [splitFirst_cons _ _ _ hh, splitFirst_cons _ _ _ hs, splitFirst_cons _ _ _ hm, splitFirst_cons _ _ _ ha,
    splitFirst_zero]
  rw [utf8Valid_eq] at vh vs va vn
  simp [vh, vs, va, vn, toSpec]

example :
    received cfg5 (("192.168.1.9".toUTF8.toList.map (·.toNat)) ++ [44] ++ ("23F4A1".toUTF8.toList.map (·.toNat)) ++ [44]
        ++ marker5 ++ [44] ++ ("11223".toUTF8.toList.map (·.toNat)) ++ [44] ++ ("Café, étage 2,左".toUTF8.toList.map (·.toNat)))
      = .added ⟨5, "11223".toUTF8.toList.map (·.toNat), some ("Café, étage 2,左".toUTF8.toList.map (·.toNat)),
          "23F4A1".toUTF8.toList.map (·.toNat), "192.168.1.9".toUTF8.toList.map (·.toNat)⟩ := by
  decide +kernel

/-- The AirTouch 4 analogue; the id is the rest of the datagram (`split(b",", 3)`), so it needs no
    comma-freeness. -/
theorem C18_valid_response_parts4 (host serial aid : Bytes)
    (hh : ∀ b ∈ host, b ≠ 44) (hs : ∀ b ∈ serial, b ≠ 44)
    (vh : utf8Valid host = true) (vs : utf8Valid serial = true) (va : utf8Valid aid = true) :
    received cfg4 (host ++ [44] ++ serial ++ [44] ++ marker4 ++ [44] ++ aid)
      = .added ⟨4, aid, none, serial, host⟩ := by
  rw [received4_eq_spec]
  have hm : ∀ b ∈ marker4, b ≠ 44 := by decide +kernel
  have e : host ++ [44] ++ serial ++ [44] ++ marker4 ++ [44] ++ aid
      = host ++ 44 :: (serial ++ 44 :: (marker4 ++ 44 :: aid)) := by simp
  rw [e]
  simp only [readResponse, if_true]
  rw [splitFirst_cons _ _ _ hh, splitFirst_cons _ _ _ hs, splitFirst_cons _ _ _ hm, splitFirst_zero]
  rw [utf8Valid_eq] at vh vs va
  simp [vh, vs, va, toSpec]

example :
    received cfg4 (("192.168.1.9".toUTF8.toList.map (·.toNat)) ++ [44] ++ ("98:D8:63:AA".toUTF8.toList.map (·.toNat)) ++ [44]
        ++ marker4 ++ [44] ++ ("11223".toUTF8.toList.map (·.toNat)))
      = .added ⟨4, "11223".toUTF8.toList.map (·.toNat), none,
          "98:D8:63:AA".toUTF8.toList.map (·.toNat), "192.168.1.9".toUTF8.toList.map (·.toNat)⟩ := by
  decide +kernel

/-- The request schedule, for every arrival list (`search` is total by construction: structural
    recursion on the remaining request count).  At most three requests at 0, 4, 8 (4 ticks = 0.5 s
    apart); the request at `t` is sent iff no valid response arrived strictly before `t`; the search
    returns at the end of the first interval in which a valid response arrived, at the latest at 12. -/
theorem C18_search_requests {c : Cfg} (hc : c = cfg4 ∨ c = cfg5) (arr : List (Nat × Bytes)) :
    (search c arr).1.Sublist [0, 4, 8] ∧
    (search c arr).1 = expectedRequests c.gen arr ∧
    (∀ t ∈ [0, 4, 8], t ∈ (search c arr).1 ↔ ∀ a ∈ arr, a.1 < t → readResponse c.gen a.2 = none) ∧
    (search c arr).2.1 = returnTime c.gen arr ∧
    (search c arr).2.1 ≤ 12 ∧
    (∀ t ∈ [0, 4, 8], (∃ a ∈ arr, t ≤ a.1 ∧ a.1 < t + 4 ∧ (readResponse c.gen a.2).isSome) →
      (∀ a ∈ arr, a.1 < t → readResponse c.gen a.2 = none) → (search c arr).2.1 = t + 4) ∧
    ((∀ a ∈ arr, a.1 < 12 → readResponse c.gen a.2 = none) → (search c arr).2.1 = 12) := by
  have H : Agree c c.gen := by rcases hc with rfl | rfl; exact agree4; exact agree5
  have q0 := quiet_zero c.gen arr
  have key : ∀ t, (∃ a ∈ arr, t ≤ a.1 ∧ a.1 < t + 4 ∧ (readResponse c.gen a.2).isSome) → ¬ Quiet c.gen arr (t + 4) := by
    rintro t ⟨a, ha, _, h2, h3⟩ q
    rw [q a ha h2] at h3; cases h3
  rcases search_cases H arr with ⟨q4, hs, he⟩ | ⟨q4, q8, hs, he⟩ | ⟨q8, hs, he⟩
  · have q8 : ¬ Quiet c.gen arr 8 := fun h => q4 (quiet_mono (by omega) h)
    refine ⟨by rw [hs]; exact (by decide : [0].Sublist [0, 4, 8]), by rw [hs, he], ?_, by simp [hs, returnTime, he], by simp [hs], ?_, ?_⟩
    · intro t ht
      simp only [List.mem_cons, List.not_mem_nil, or_false] at ht
      rcases ht with rfl | rfl | rfl
      · rw [hs]; exact iff_of_true (by simp) q0
      · rw [hs]; exact iff_of_false (by simp) q4
      · rw [hs]; exact iff_of_false (by simp) q8
    · intro t ht hex hq
      simp only [List.mem_cons, List.not_mem_nil, or_false] at ht
      rcases ht with rfl | rfl | rfl
      · simp [hs]
      · exact absurd hq q4
      · exact absurd hq q8
    · intro hq; exact absurd (quiet_mono (by omega) hq) q4
  · refine ⟨by rw [hs]; exact (by decide : [0, 4].Sublist [0, 4, 8]), by rw [hs, he], ?_, by simp [hs, returnTime, he], by simp [hs], ?_, ?_⟩
    · intro t ht
      simp only [List.mem_cons, List.not_mem_nil, or_false] at ht
      rcases ht with rfl | rfl | rfl
      · rw [hs]; exact iff_of_true (by simp) q0
      · rw [hs]; exact iff_of_true (by simp) q4
      · rw [hs]; exact iff_of_false (by simp) q8
    · intro t ht hex hq
      simp only [List.mem_cons, List.not_mem_nil, or_false] at ht
      rcases ht with rfl | rfl | rfl
      · exact absurd q4 (key 0 hex)
      · simp [hs]
      · exact absurd hq q8
    · intro hq; exact absurd (quiet_mono (by omega) hq) q8
  · have q4 : Quiet c.gen arr 4 := quiet_mono (by omega) q8
    refine ⟨by rw [hs]; exact (by decide : [0, 4, 8].Sublist [0, 4, 8]), by rw [hs, he], ?_, by simp [hs, returnTime, he], by simp [hs], ?_, ?_⟩
    · intro t ht
      simp only [List.mem_cons, List.not_mem_nil, or_false] at ht
      rcases ht with rfl | rfl | rfl
      · rw [hs]; exact iff_of_true (by simp) q0
      · rw [hs]; exact iff_of_true (by simp) q4
      · rw [hs]; exact iff_of_true (by simp) q8
    · intro t ht hex hq
      simp only [List.mem_cons, List.not_mem_nil, or_false] at ht
      rcases ht with rfl | rfl | rfl
      · exact absurd q4 (key 0 hex)
      · exact absurd q8 (key 4 hex)
      · simp [hs]
    · intro _; simp [hs]

/-- noise at 1, a valid response at 5 and again at 6, a late one at 9: requests at 0 and 4, return at 8 -/
example :
    let v := "10.0.0.2,AB,AirTouch4,77".toUTF8.toList.map (·.toNat)
    let arr := [(1, [1, 2, 3]), (5, v), (6, v), (9, "10.0.0.3,CD,AirTouch4,78".toUTF8.toList.map (·.toNat))]
    (search cfg4 arr).1 = [0, 4] ∧ (search cfg4 arr).2.1 = 8 ∧ (search cfg4 arr).2.2.length = 1 ∧
    (search cfg4 []).1 = [0, 4, 8] ∧ (search cfg4 []).2.1 = 12 := by decide +kernel

/-- The collected responses are duplicate-free and are exactly the expected ones (as a set: the
    model keeps the first occurrence of a duplicate, the specification's `dedup` the last). -/
theorem C18_search_responses {c : Cfg} (hc : c = cfg4 ∨ c = cfg5) (arr : List (Nat × Bytes)) :
    (search c arr).2.2.Nodup ∧
    ∀ r, r ∈ (search c arr).2.2 ↔ toSpec r ∈ expectedResponses c.gen arr := by
  have H : Agree c c.gen := by rcases hc with rfl | rfl; exact agree4; exact agree5
  have aux : ∀ t, Quiet c.gen arr t → (search c arr).2.2 = W c arr t → returnTime c.gen arr = t + 4 →
      (search c arr).2.2.Nodup ∧ ∀ r, r ∈ (search c arr).2.2 ↔ toSpec r ∈ expectedResponses c.gen arr := by
    intro t q hs hr
    rw [hs]
    refine ⟨nodup_W _ _ _, fun r => ?_⟩
    rw [mem_W H, mem_expectedResponses, hr]
    constructor
    · rintro ⟨a, ha, _, h2, h3⟩; exact ⟨a, ha, h2, h3⟩
    · rintro ⟨a, ha, h2, h3⟩
      refine ⟨a, ha, ?_, h2, h3⟩
      apply Nat.le_of_not_lt
      intro hlt; rw [q a ha hlt] at h3; cases h3
  rcases search_cases H arr with ⟨_, hs, he⟩ | ⟨q4, _, hs, he⟩ | ⟨q8, hs, he⟩
  · exact aux 0 (quiet_zero _ _) (by rw [hs]) (by simp [returnTime, he])
  · exact aux 4 q4 (by rw [hs]) (by simp [returnTime, he])
  · exact aux 8 q8 (by rw [hs]) (by simp [returnTime, he])

/-- two distinct consoles and a repeated answer within the first interval -/
example :
    let v := "10.0.0.2,AB,AirTouch5,77,Home".toUTF8.toList.map (·.toNat)
    let w := "10.0.0.3,CD,AirTouch5,78,Up, stairs".toUTF8.toList.map (·.toNat)
    let arr := [(1, v), (2, w), (3, v), (5, "10.0.0.4,EF,AirTouch5,79,Late".toUTF8.toList.map (·.toNat))]
    (search cfg5 arr).2.2.length = 2 ∧ (expectedResponses 5 arr).length = 2 ∧
    (search cfg5 arr).2.2.map toSpec = (expectedResponses 5 arr).reverse := by decide +kernel

/-- The client built for a response: fixed TCP port of the generation, host / id / serial of the
    response; AirTouch 4 consoles are named "AirTouch 4", AirTouch 5 ones by the datagram's name. -/
theorem C18_factory (aid serial host name : Bytes) :
    clientOf ⟨4, aid, none, serial, host⟩
      = ⟨4, host, 9004, aid, "AirTouch 4".toUTF8.toList.map (·.toNat), serial⟩ ∧
    clientOf ⟨5, aid, some name, serial, host⟩ = ⟨5, host, 9005, aid, name, serial⟩ := by
  constructor <;> rfl

example : (clientOf ⟨5, [55], some [72, 44, 105], [65], [49]⟩).port = 9005 ∧
    (clientOf ⟨5, [55], some [72, 44, 105], [65], [49]⟩).name = [72, 44, 105] ∧
    (clientOf ⟨4, [55], none, [65], [49]⟩).port = 9004 := by decide

/-- The outcome of a search depends only on WHICH datagrams arrived at which instants, not on how
    the arrivals are listed: a network that duplicates datagrams (UDP may) or delivers the datagrams
    of one instant in another order changes neither the request schedule, nor the return instant,
    nor the set of consoles reported.  (`arr` and `arr'` have the same members.) -/
theorem C18_search_listing_independent {c : Cfg} (hc : c = cfg4 ∨ c = cfg5) (arr arr' : List (Nat × Bytes))
    (h : ∀ a, a ∈ arr ↔ a ∈ arr') :
    (search c arr).1 = (search c arr').1 ∧ (search c arr).2.1 = (search c arr').2.1 ∧
    ∀ r, r ∈ (search c arr).2.2 ↔ r ∈ (search c arr').2.2 := by
  have H : Agree c c.gen := by rcases hc with rfl | rfl; exact agree4; exact agree5
  have hq : ∀ t, Quiet c.gen arr t ↔ Quiet c.gen arr' t := fun t =>
    ⟨fun q a ha => q a ((h a).2 ha), fun q a ha => q a ((h a).1 ha)⟩
  have hsent : (search c arr).1 = (search c arr').1 ∧ (search c arr).2.1 = (search c arr').2.1 := by
    rcases search_cases H arr with ⟨q4, hs, _⟩ | ⟨q4, q8, hs, _⟩ | ⟨q8, hs, _⟩ <;>
    rcases search_cases H arr' with ⟨q4', hs', _⟩ | ⟨q4', q8', hs', _⟩ | ⟨q8', hs', _⟩
    · simp [hs, hs']
    · exact absurd ((hq 4).2 q4') q4
    · exact absurd ((hq 4).2 (quiet_mono (by omega) q8')) q4
    · exact absurd ((hq 4).1 q4) q4'
    · simp [hs, hs']
    · exact absurd ((hq 8).2 q8') q8
    · exact absurd ((hq 4).1 (quiet_mono (by omega) q8)) q4'
    · exact absurd ((hq 8).1 q8) q8'
    · simp [hs, hs']
  refine ⟨hsent.1, hsent.2, fun r => ?_⟩
  have hr : returnTime c.gen arr = returnTime c.gen arr' := by
    rw [← (C18_search_requests hc arr).2.2.2.1, ← (C18_search_requests hc arr').2.2.2.1]; exact hsent.2
  rw [(C18_search_responses hc arr).2 r, (C18_search_responses hc arr').2 r,
    mem_expectedResponses, mem_expectedResponses, hr]
  constructor
  · rintro ⟨a, ha, h1, h2⟩; exact ⟨a, (h a).1 ha, h1, h2⟩
  · rintro ⟨a, ha, h1, h2⟩; exact ⟨a, (h a).2 ha, h1, h2⟩

/-- a duplicated and reordered listing of the same arrivals: same schedule, same two consoles -/
example :
    let v := "10.0.0.2,AB,AirTouch5,77,Home".toUTF8.toList.map (·.toNat)
    let w := "10.0.0.3,CD,AirTouch5,78,Up".toUTF8.toList.map (·.toNat)
    (∀ a, a ∈ [(5, v), (5, w)] ↔ a ∈ [(5, w), (5, v), (5, w)]) ∧
    (search cfg5 [(5, v), (5, w)]).1 = [0, 4] ∧ (search cfg5 [(5, w), (5, v), (5, w)]).1 = [0, 4] ∧
    (search cfg5 [(5, v), (5, w)]).2.2.length = 2 ∧ (search cfg5 [(5, w), (5, v), (5, w)]).2.2.length = 2 := by
  refine ⟨fun a => ?_, ?_⟩
  · simp only [List.mem_cons, List.not_mem_nil, or_false]
    constructor
    · rintro (h | h)
      · exact Or.inr (Or.inl h)
      · exact Or.inl h
    · rintro (h | h | h)
      · exact Or.inr h
      · exact Or.inl h
      · exact Or.inr h
  · decide +kernel

/-- Every console that answered in the vendor format before the search returned is reported, and
    exactly once: the number of entries built from one well-formed answer `s` is one, however often
    and from however many arrivals it was received. -/
theorem C18_each_answering_console_once {c : Cfg} (hc : c = cfg4 ∨ c = cfg5) (arr : List (Nat × Bytes))
    (a : Nat × Bytes) (ha : a ∈ arr) (s : PyAirtouch.Spec.Discovery.Response)
    (hs : readResponse c.gen a.2 = some s) (ht : a.1 < (search c arr).2.1) :
    ((search c arr).2.2.filter (fun r => decide (toSpec r = s))).length = 1 := by
  have hnd := (C18_search_responses hc arr).1
  have hmem : ∃ r, r ∈ (search c arr).2.2 ∧ toSpec r = s := by
    have : s ∈ expectedResponses c.gen arr := by
      rw [mem_expectedResponses, ← (C18_search_requests hc arr).2.2.2.1]; exact ⟨a, ha, ht, hs⟩
    refine ⟨ofSpec s, ?_, toSpec_ofSpec s⟩
    rw [(C18_search_responses hc arr).2, toSpec_ofSpec]; exact this
  obtain ⟨r, hr, rfl⟩ := hmem
  have hfil : (search c arr).2.2.filter (fun x => decide (toSpec x = toSpec r)) =
      (search c arr).2.2.filter (fun x => x == r) := by
    apply List.filter_congr; intro x _
    by_cases hx : x = r
    · simp [hx]
    · have : toSpec x ≠ toSpec r := fun e => hx (toSpec_inj e)
      simp [hx, this]
  rw [hfil, ← List.count_eq_length_filter]
  have h1 := List.nodup_iff_count.1 hnd r
  have h2 := List.count_pos_iff.2 hr
  omega

end PyAirtouch.Props.C18
