import PyAirtouch.Model.Discovery
/-! placeholder until the proof file is merged -/
namespace PyAirtouch.Props.C18
theorem C18_placeholder : True := trivial
end PyAirtouch.Props.C18
