import PyAirtouch.Lemmas.SockHealFate
/-!
# C07 (healing clause) — the client can never be wedged

Model: `PyAirtouch.Model.Sock`.  Vocabulary (defined in `Lemmas/SockHealInv.lean`; the strategy is in
`Lemmas/SockHeal.lean`, the accounting of queued messages in `Lemmas/SockHealFate.lean`):

* `ReachableH s` — `s` is reachable by a history that respects (a) the calling discipline of `close()`
  (`disciplined`: no `open_socket()` / `close()` while a `close()` is in progress) and (b) the EOF rule
  (`eofOk`: a reader is not told "EOF" on a transport that was lost *with an exception*; asyncio hands it
  the exception, label `readErr`).  Everything else is free: every schedule, refusals, peer resets,
  write faults, corrupt input, paused transports, any use of `send` / `reset_connection`.
  Both restrictions are necessary: `C07_wedge_without_eof_rule`, `C07_wedge_without_discipline`.
* `benign d s l` — label `l` is one a well-behaved network produces in state `s`, with deadline `d`:
  `advance t` with `t ≤ d`; `envLostRan` (a pending `connection_lost` runs); `envPause _ false`,
  `envFailWrites _ false`; `run t a` with `a ∈ {go, openOk, drainOk}`, or `drainErr` / `readErr` for a task
  blocked on a transport that is not live, or `readEof` for a reader of a transport the client closed.
  Not benign: `envLost`, `envPause _ true`, `envFailWrites _ true`, `openRefused`, `readBad`, `readMsg`,
  `readEof` / `readErr` on a live transport, every API call.
* `Healed s` — open, connected, not connecting, `rw = some w` with `conns[w] = live false false`, queue
  empty, at least one task blocked in `readWait w`, and every task is `finished` or in `readWait w`.
  ("Exactly one reader" is not attainable: `C07_two_readers_reachable`, `C07_two_readers_persist`.)
-/
namespace PyAirtouch.Props.C07
open PyAirtouch.Model.Sock PyAirtouch.Spec.Trace PyAirtouch.Lemmas.SockConn PyAirtouch.Lemmas.SockHeal

/-- **never wedged (AG EF healed, with a time bound).**  From every state reachable under the calling
    discipline and the EOF rule in which the socket is open (under the discipline this implies that no
    `close()` is in progress: `C07_open_not_closing`), there is a finite sequence of benign labels, in
    which the clock never passes `now + RETRY_DELAY`, that leads to a healed state. -/
theorem C07_never_wedges {s : Sys} (h : ReachableH s) (ho : s.core.isOpen = true) :
    ∃ ls s', benignRun (s.core.now + RETRY_DELAY) s ls = true ∧ run s ls = some s' ∧ Healed s' ∧
      s'.core.now ≤ s.core.now + RETRY_DELAY :=
  never_wedges h ho

def refusedState : List Label := [.apiOpen, .run 1 .go, .run 1 .openRefused]

/-- non-vacuity: after a refused connection attempt (only a delayed retry is pending) the client is not
    healed; waiting for the retry delay and one successful attempt heal it -/
example : ∃ s, ReachableH s ∧ s.core.isOpen = true ∧ ¬ Healed s ∧
    ∃ ls s', benignRun (s.core.now + RETRY_DELAY) s ls = true ∧ run s ls = some s' ∧ Healed s' ∧
      s'.core.now ≤ s.core.now + RETRY_DELAY :=
  ⟨_, ⟨refusedState, rfl⟩, by decide, not_healed_of_healedB (by decide),
    [.advance 16, .run 2 .go, .run 2 .openOk, .run 2 .go, .run 3 .go], _, by decide, rfl,
    healed_of_healedB (by decide), by decide⟩

def writeFaultState : List Label :=
  [.apiOpen, .run 1 .go, .run 1 .openOk, .run 1 .go, .run 2 .go, .envPause 0 true, .apiSend 1 2 240 true,
   .envFailWrites 0 true, .apiSend 2 2 240 true]

/-- non-vacuity: a write fault under a blocked drain (two `send` tasks suspended in `drain()` on a
    transport that is closing with an error, the reader still blocked on it); the healing sequence needs
    no waiting at all, and both messages are written to the new transport -/
example : ∃ s, ReachableH s ∧ s.core.isOpen = true ∧ ¬ Healed s ∧
    ∃ ls s', benignRun (s.core.now + RETRY_DELAY) s ls = true ∧ run s ls = some s' ∧ Healed s' ∧
      s'.core.now ≤ s.core.now + RETRY_DELAY ∧ wiredSids (s'.core.trace.drop s.core.trace.length) = [2, 1] :=
  ⟨_, ⟨writeFaultState, rfl⟩, by decide, not_healed_of_healedB (by decide),
    [.envLostRan 0, .run 3 .drainErr, .run 3 .go, .run 3 .go, .run 4 .drainErr, .run 4 .go, .run 2 .readErr,
     .run 2 .go, .run 5 .go, .run 5 .openOk, .run 5 .go, .run 8 .go, .run 6 .go, .run 7 .go], _, by decide, rfl,
    healed_of_healedB (by decide), by decide, by decide⟩

/-- **nothing queued is lost silently while healing.**  `C07_never_wedges`, and moreover every entry
    that was queued in `s` has, in the part of the trace written during the healing, an event that says
    what happened to it (`fateEv`): a write attempt (`wire`, or `writeFault` on a transport that fails - the
    entry is then re-queued or dropped `maxRetries`; `deadWrite` is in `fateEv` too but is never produced, see
    `C02_no_write_on_lost_connection`) or a `qdrop` with its reason (`expired`, `encErr`, `maxRetries`). -/
theorem C07_never_wedges_fate {s : Sys} (h : ReachableH s) (ho : s.core.isOpen = true) :
    ∃ ls s', benignRun (s.core.now + RETRY_DELAY) s ls = true ∧ run s ls = some s' ∧ Healed s' ∧
      s'.core.now ≤ s.core.now + RETRY_DELAY ∧
      ∀ e ∈ s.core.queue, ∃ ev ∈ s'.core.trace.drop s.core.trace.length, fateEv e.sid ev = true :=
  never_wedges_fate h ho

def queuedState : List Label :=
  [.apiOpen, .apiSend 1 2 240 true, .apiSend 2 0 240 false, .apiSend 3 0 8 true, .run 1 .go, .run 1 .openRefused]

/-- non-vacuity: three messages queued while the first attempt is refused (one unencodable, one that
    expires during the retry delay); the healing sequence writes the first and drops the other two,
    with their reasons -/
example : ∃ s, ReachableH s ∧ s.core.isOpen = true ∧ s.core.queue.length = 3 ∧
    ∃ ls s', benignRun (s.core.now + RETRY_DELAY) s ls = true ∧ run s ls = some s' ∧ Healed s' ∧
      s'.core.trace.drop s.core.trace.length =
        [.attempt 16, .opened 0 16, .notify true 16, .wire 0 1 16, .qdrop 2 16 .encErr, .qdrop 3 16 .expired] :=
  ⟨_, ⟨queuedState, rfl⟩, by decide, by decide,
    [.advance 16, .run 5 .go, .run 5 .openOk, .run 5 .go, .run 6 .go], _, by decide, rfl,
    healed_of_healedB (by decide), by decide⟩

/-- **no deadlock.**  In a reachable open state that is not healed some benign label is enabled, and it
    is the first label of a benign sequence that heals. -/
theorem C07_progress_possible {s : Sys} (h : ReachableH s) (ho : s.core.isOpen = true) (hn : ¬ Healed s) :
    ∃ l s1 s', benign (s.core.now + RETRY_DELAY) s l = true ∧ step s l = some s1 ∧
      BReach (s.core.now + RETRY_DELAY) s1 s' ∧ Healed s' :=
  progress_possible h ho hn

/-- non-vacuity: the state after a refused attempt satisfies the hypotheses -/
example : ∃ s, ReachableH s ∧ s.core.isOpen = true ∧ ¬ Healed s :=
  ⟨_, ⟨refusedState, rfl⟩, by decide, not_healed_of_healedB (by decide)⟩

/-- **a reconnect is pending.**  While the socket is open, not connected and no `close()` is in progress,
    some task is a connection attempt (`connStart`, `connOpening`, or `connDelay d` with
    `d ≤ now + RETRY_DELAY`) or is inside a `_connect` / `reset_connection` that will schedule one
    (`reconnPc`). -/
theorem C07_reconnect_pending {s : Sys} (h : ReachableH s) (ho : s.core.isOpen = true)
    (hcl : closing s.core.trace = false) (hd : s.core.isConnected = false) :
    ∃ k ∈ s.tasks, reconnPc k.pc = true ∧ ∀ d, k.pc = .connDelay d → d ≤ s.core.now + RETRY_DELAY :=
  reconnect_pending h ho hcl hd

/-- non-vacuity: after a refused attempt the pending reconnect is the delayed retry -/
example : ∃ s, ReachableH s ∧ s.core.isOpen = true ∧ closing s.core.trace = false ∧ s.core.isConnected = false ∧
    pcAt s 2 = some (.connDelay 16) :=
  ⟨_, ⟨refusedState, rfl⟩, by decide, by decide, by decide, by decide⟩

/-- **the current transport is watched.**  While the socket is open and has a current transport `w`, either
    a task is waiting for `w` to finish closing (and will then clear it), or `w` was not closed by the client
    and some task is, or will become or start, a reader of `w` (`chainPc`). -/
theorem C07_current_watched {s : Sys} (h : ReachableH s) (ho : s.core.isOpen = true) (w : Nat)
    (hw : s.core.rw = some w) :
    (∃ k ∈ s.tasks, ∃ r, k.pc = .discWait w r) ∨
    (clientClosed s.core w = false ∧ ∃ k ∈ s.tasks, chainPc w k.pc = true) :=
  current_watched h ho w hw

/-- non-vacuity: in the write-fault state transport 0 is current and the reader still watches it -/
example : ∃ s, ReachableH s ∧ s.core.isOpen = true ∧ s.core.rw = some 0 ∧ pcAt s 2 = some (.readWait 0) :=
  ⟨_, ⟨writeFaultState, rfl⟩, by decide, by decide, by decide⟩

/-- under the calling discipline an open socket has no `close()` in progress -/
theorem C07_open_not_closing {s : Sys} (h : ReachableD s) (ho : s.core.isOpen = true) :
    closing s.core.trace = false :=
  open_not_closing h ho

/-- non-vacuity: open again after a completed `close()` -/
example : ∃ s, ReachableD s ∧ s.core.isOpen = true ∧ s.core.trace.length = 5 :=
  ⟨_, ⟨[.apiOpen, .apiClose, .run 2 .go, .run 2 .go, .apiOpen], rfl⟩, by decide, by decide⟩

/-! ### the hypotheses are necessary -/

/-- **Without the EOF rule the model can be wedged.**  The history respects the calling discipline; the
    peer resets transport 0 (`envLost 0`) and the reader is then told "EOF" (`readEof`) instead of being
    handed the exception: `_read` sees `writer.is_closing()` and returns without `reset_connection()`.  The
    socket is open, `is_connected` is still set, every task has finished: no benign label sequence
    heals.  (Since `_drain_message_queue` returns at once when the writer is closing, a later `send` no longer
    notices either: its message just stays queued.  Only `reset_connection()` / `close()` get out of this state.) -/
theorem C07_wedge_without_eof_rule :
    ∃ s, runD init [.apiOpen, .run 1 .go, .run 1 .openOk, .run 1 .go, .run 2 .go, .envLost 0, .run 2 .readEof,
                    .envLostRan 0] = some s ∧
      s.core.isOpen = true ∧ closing s.core.trace = false ∧ s.core.isConnected = true ∧
      ∀ d s', BReach d s s' → ¬ Healed s' := by
  refine ⟨_, rfl, by decide, by decide, by decide, ?_⟩
  intro d s' hr
  exact stuck_never_heals ⟨by decide, by decide⟩ hr

/-- **Without the calling discipline the model can be wedged.**  `open_socket()` is called while a
    `close()` is in progress: the new `_connect` sees `is_connected` and returns, then the `close()`
    disconnects.  The history contains no `readEof` at all; the final state is open, not connected, no
    `close()` in progress, every task has finished: no benign label sequence heals. -/
theorem C07_wedge_without_discipline :
    ∃ s, run init [.apiOpen, .run 1 .go, .run 1 .openOk, .apiClose, .apiOpen, .run 4 .go, .run 2 .go, .envLostRan 0,
                   .run 2 .go, .run 2 .go] = some s ∧
      s.core.isOpen = true ∧ closing s.core.trace = false ∧ s.core.isConnected = false ∧
      ∀ d s', BReach d s s' → ¬ Healed s' := by
  refine ⟨_, rfl, by decide, by decide, by decide, ?_⟩
  intro d s' hr
  exact stuck_never_heals ⟨by decide, by decide⟩ hr

/-! ### two readers -/

def twoReaders : List Label :=
  [.apiOpen, .run 1 .go, .run 1 .openOk, .apiReset, .envLostRan 0, .run 2 .go, .run 2 .go, .run 1 .go, .run 3 .go,
   .run 3 .openOk, .run 4 .go, .run 3 .go, .run 6 .go, .advance 16, .run 5 .go]

/-- **two readers on one transport.**  `reset_connection()` during the connection notification: the first
    `_connect` finishes after the reconnect and its `_read` task attaches to the *new* reader, next to the
    `_read` task of the second `_connect`.  The state is `Healed` in the sense above. -/
theorem C07_two_readers_reachable :
    ∃ s, runH init twoReaders = some s ∧ pcAt s 4 = some (.readWait 1) ∧ pcAt s 6 = some (.readWait 1) ∧
      s.core.conns[1]? = some (.live false false) ∧ Healed s :=
  ⟨_, rfl, by decide, by decide, by decide, healed_of_healedB (by decide)⟩

/-- … and no benign label sequence gets rid of the second reader: the task table does not change
    (readers of a live transport are only woken by input or by a fault) -/
theorem C07_two_readers_persist :
    ∃ s, runH init twoReaders = some s ∧ ∀ d s', BReach d s s' → s'.tasks = s.tasks :=
  ⟨_, rfl, fun _ _ hr => readers_persist (w := 1) (by decide) (by decide) hr⟩

end PyAirtouch.Props.C07
