import PyAirtouch.Lemmas.Registry4
import PyAirtouch.Lemmas.Registry5
import PyAirtouch.Model.Sock
/-!
# C17 — unknown and malformed input is tolerated, never misread

* `…_unknown_type` / `…_unknown_sub` / `g5_unknown_cs` — for EVERY unregistered type byte, 0x1F sub-id and 0xC0
  sub-type and every payload: the result is an unsupported message carrying the payload unchanged, nothing left
  over (so the frame is delivered and the connection untouched).
* `…_unsupported_inv` — conversely an unsupported result can only come from an unregistered id and carries exactly
  the declared payload.
* `C17_delivered_only_if_valid` — whatever the byte stream, a message is delivered only if its header decoded, the
  check value validated and the registered decoder accepted exactly the declared payload (`parseOne` is a total
  function: every other stream is `needMore` or `reject`).  The two `while offset < length` decoders terminate
  (`At4.FF11.decLoop` and `At5.FF11.decLoop` are defined by well-founded recursion with a proved decrease:
  every iteration advances by `2 + following length`).
* `C17_reject_resets` — in the socket model a rejected frame (`readBad`) or any exception out of the read path
  (`readErr`) makes the read task run `reset_connection`; it never simply dies (C07 gives the rest).
-/
namespace PyAirtouch.Props.C17
theorem C17_g4_decodeMsg_unknown : type_of% @PyAirtouch.Lemmas.Registry4.decodeMsg_unknown := @PyAirtouch.Lemmas.Registry4.decodeMsg_unknown
theorem C17_g4_decodeMsg_unknown_sub : type_of% @PyAirtouch.Lemmas.Registry4.decodeMsg_unknown_sub := @PyAirtouch.Lemmas.Registry4.decodeMsg_unknown_sub
theorem C17_g4_decodeMsg_unknown_sub' : type_of% @PyAirtouch.Lemmas.Registry4.decodeMsg_unknown_sub' := @PyAirtouch.Lemmas.Registry4.decodeMsg_unknown_sub'
theorem C17_g4_decodeMsg_unsupported_inv : type_of% @PyAirtouch.Lemmas.Registry4.decodeMsg_unsupported_inv := @PyAirtouch.Lemmas.Registry4.decodeMsg_unsupported_inv
theorem C17_g5_decodeMsg_unknown : type_of% @PyAirtouch.Lemmas.Registry5.decodeMsg_unknown := @PyAirtouch.Lemmas.Registry5.decodeMsg_unknown
theorem C17_g5_decodeMsg_unknown_sub : type_of% @PyAirtouch.Lemmas.Registry5.decodeMsg_unknown_sub := @PyAirtouch.Lemmas.Registry5.decodeMsg_unknown_sub
theorem C17_g5_decodeMsg_unknown_sub' : type_of% @PyAirtouch.Lemmas.Registry5.decodeMsg_unknown_sub' := @PyAirtouch.Lemmas.Registry5.decodeMsg_unknown_sub'
theorem C17_g5_decodeMsg_unknown_cs : type_of% @PyAirtouch.Lemmas.Registry5.decodeMsg_unknown_cs := @PyAirtouch.Lemmas.Registry5.decodeMsg_unknown_cs
theorem C17_g5_decodeMsg_unsupported_inv : type_of% @PyAirtouch.Lemmas.Registry5.decodeMsg_unsupported_inv := @PyAirtouch.Lemmas.Registry5.decodeMsg_unsupported_inv
theorem C17_delivered_only_if_valid : type_of% @PyAirtouch.Lemmas.Frame.parseOne_deliver_valid :=
  @PyAirtouch.Lemmas.Frame.parseOne_deliver_valid
theorem C17_bad_crc_rejected : type_of% @PyAirtouch.Lemmas.Frame.parseOne_bad_crc := @PyAirtouch.Lemmas.Frame.parseOne_bad_crc

open PyAirtouch.Model.Sock in
/-- a frame that fails the CRC or the decoder (`readBad`) and any other exception of the read path (`readErr`)
    lead the read task into `reset_connection` (disconnect, then schedule a reconnect while the socket is open) -/
theorem C17_reject_resets (s : Sys) (t c : Nat) (h : pcAt s t = some (.readWait c)) :
    step s (.run t .readBad) = some (upd s t (exec FUEL s.core [] (.disconnect (.resetTail .readLoop)))) ∧
    step s (.run t .readErr) = some (upd s t (exec FUEL s.core [] (.disconnect (.resetTail .done)))) := by
  simp [step, h]

-- non-vacuity: an unregistered type byte 0x77 with a 3-byte payload on AirTouch 4
open PyAirtouch.Model.At4.Registry in
example : decodeMsg ⟨0xB0, 0x80, 1, 0x77, 3⟩ [1, 2, 3] = .ok (.unsupported 0x77 [1, 2, 3], []) := by decide +kernel

end PyAirtouch.Props.C17
