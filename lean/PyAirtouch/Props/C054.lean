import PyAirtouch.Lemmas.SpecAgree4
/-!
# C05 (AirTouch 4) — what the decoders read is what the vendor document says

For the six AirTouch 4 status kinds (0x2B group status, 0x2D AC status, 0x1F/FF11 AC ability, FF12 group names,
FF10 AC error information, FF30 console version):

* `C05_g4_decode_agrees_<kind>` — for EVERY payload (all elements `< 256`) and every announced length: if the model
  decoder returns the response message with nothing left over, the reader written from the vendor document returns
  records that agree with it record by record (`Agree…`: the field correspondence of `harness/specmap.py`, each named
  relaxation an explicit disjunct).  Added hypotheses, each with a `…_refuted` witness showing it is needed:
  FF12 `msgLen = b.length` (what the receive path guarantees); FF10 / FF30 "the length byte does not exceed the bytes
  that follow".  FF11 (AC ability) holds for EVERY "following length" (the decoder advances by that byte, as the vendor
  reader does; the former hypothesis "documented following lengths 22 / 24 only" is gone): `…_FF11` whenever the vendor
  reading exists, `…_FF11_strong` proves it exists when the announced bytes are there (`msgLen ≤ b.length`, what the
  receive path guarantees; `…_FF11_needs_length`, and `…_FF11_vendor_reads_iff`: that is the exact condition).
* `C05_g4_request_form_<kind>` — a payload decoded as the request form sharing the id is `none` / zero records for
  the vendor's response reader.
* `C05_g4_undefined_rejected_<kind>` (2B, 2D: the kinds whose public type has enum fields) — a payload whose vendor
  reading holds an undefined code is rejected (`.error`), never decoded to a defined value.
-/
namespace PyAirtouch.Props.C05
open PyAirtouch.Model PyAirtouch.Model.At4 PyAirtouch.Lemmas.SpecAgree4

theorem C05_g4_decode_agrees_2B : type_of% @decode_agrees_2B := @decode_agrees_2B
theorem C05_g4_request_form_2B : type_of% @request_form_2B := @request_form_2B
theorem C05_g4_undefined_rejected_2B : type_of% @undefined_rejected_2B := @undefined_rejected_2B

theorem C05_g4_decode_agrees_2D : type_of% @decode_agrees_2D := @decode_agrees_2D
theorem C05_g4_temperature_exact_2D : type_of% @temperature_exact_2D := @temperature_exact_2D
theorem C05_g4_request_form_2D : type_of% @request_form_2D := @request_form_2D
theorem C05_g4_undefined_rejected_2D : type_of% @undefined_rejected_2D := @undefined_rejected_2D

theorem C05_g4_decode_agrees_FF12 : type_of% @decode_agrees_FF12 := @decode_agrees_FF12
theorem C05_g4_decode_agrees_FF12_short_refuted : type_of% @decode_agrees_FF12_short_refuted :=
  @decode_agrees_FF12_short_refuted
theorem C05_g4_collapse_nodup : type_of% @collapse_nodup := @collapse_nodup
theorem C05_g4_request_form_FF12 : type_of% @request_form_FF12 := @request_form_FF12

theorem C05_g4_decode_agrees_FF10 : type_of% @decode_agrees_FF10 := @decode_agrees_FF10
theorem C05_g4_decode_agrees_FF10_refuted : type_of% @decode_agrees_FF10_refuted := @decode_agrees_FF10_refuted
theorem C05_g4_request_form_FF10 : type_of% @request_form_FF10 := @request_form_FF10

theorem C05_g4_decode_agrees_FF30 : type_of% @decode_agrees_FF30 := @decode_agrees_FF30
theorem C05_g4_decode_agrees_FF30_refuted : type_of% @decode_agrees_FF30_refuted := @decode_agrees_FF30_refuted
theorem C05_g4_request_form_FF30 : type_of% @request_form_FF30 := @request_form_FF30

theorem C05_g4_decode_agrees_FF11 : type_of% @decode_agrees_FF11 := @decode_agrees_FF11
theorem C05_g4_decode_agrees_FF11_strong : type_of% @decode_agrees_FF11_strong := @decode_agrees_FF11_strong
theorem C05_g4_decode_agrees_FF11_needs_length : type_of% @decode_agrees_FF11_needs_length :=
  @decode_agrees_FF11_needs_length
theorem C05_g4_decode_FF11_vendor_reads_iff : type_of% @decode_FF11_vendor_reads_iff := @decode_FF11_vendor_reads_iff
theorem C05_g4_decode_FF11_long_record : type_of% @decode_FF11_long_record := @decode_FF11_long_record
theorem C05_g4_request_form_FF11 : type_of% @request_form_FF11 := @request_form_FF11

/-! ## Non-vacuity: the vendor document's own example payloads, decoded by both sides -/

/-- 4.b example, two groups: `40 64 00 00 ff 00 | 41 e4 1a 80 61 80` -/
def vendor2B : Bytes := [0x40, 0x64, 0x00, 0x00, 0xff, 0x00, 0x41, 0xe4, 0x1a, 0x80, 0x61, 0x80]

-- group 0: on, percentage 100 %, no sensor (set-point and temperature absent through the two relaxations);
-- group 1: on, temperature control, set-point 26 °C, 28.0 °C
example : ∃ recs, Spec.At4.readGroupStatus vendor2B = some recs ∧ AgreeList AgreeGroupStatus
    [⟨0, .ON, .DAMPER, false, false, false, .NORMAL, none, 100, none⟩,
     ⟨1, .ON, .TEMPERATURE, false, false, true, .NORMAL, some 280, 100, some 26⟩] recs :=
  C05_g4_decode_agrees_2B vendor2B 12 (by decide) _ (by rfl)

example : Spec.At4.readGroupStatus vendor2B = some
    [⟨0, .on, .percentage, 100, false, false, 0, false, none, false⟩,
     ⟨1, .on, .temperature, 100, false, false, 260, true, some 280, false⟩] := by decide

-- undefined group power code `10` in the second group of the same payload
example : ∃ e, X2B.decode (vendor2B.set 6 0x81) 12 = .error e :=
  C05_g4_undefined_rejected_2B (vendor2B.set 6 0x81) _ (by rfl) ⟨_, List.mem_cons_of_mem _ (List.mem_cons_self ..), 2, rfl⟩

/-- 4.d example, two ACs: `40 42 1a 00 61 80 00 00 | 01 00 1a 00 61 80 ff fe` -/
def vendor2D : Bytes :=
  [0x40, 0x42, 0x1a, 0x00, 0x61, 0x80, 0x00, 0x00, 0x01, 0x00, 0x1a, 0x00, 0x61, 0x80, 0xff, 0xfe]

example : ∃ recs, Spec.At4.readAcStatus vendor2D = some recs ∧ AgreeList AgreeAcStatus
    [⟨0, .ON, .COOL, .LOW, false, false, 26, 280, 0⟩, ⟨1, .OFF, .AUTO, .AUTO, false, false, 26, 280, 65534⟩] recs :=
  C05_g4_decode_agrees_2D vendor2D 16 (by decide) _ (by rfl)

example : Spec.At4.readAcStatus vendor2D = some
    [⟨0, .on, .cool, .low, false, false, 260, some 280, 0⟩, ⟨1, .off, .auto, .auto, false, false, 260, some 280, 65534⟩] := by
  decide

-- the "not available" temperature (Byte5 = 0xff): the relaxation's disjunct is inhabited, value 154.0 + 0.4
example : ∃ recs, Spec.At4.readAcStatus [0x40, 0x42, 0x1a, 0x00, 0xff, 0x80, 0, 0] = some recs ∧ AgreeList AgreeAcStatus
    [⟨0, .ON, .COOL, .LOW, false, false, 26, 1544, 0⟩] recs :=
  C05_g4_decode_agrees_2D _ 8 (by decide) _ (by rfl)

/-- KNOWN FINDING `C05:sentinel:AT4_2D_TEMPERATURE_HAS_NO_ABSENT_VALUE`, as a theorem about the model of the decoder: the
    statement "the documented not-available sentinels decode to absent values" FAILS for the AC status temperature - the vendor
    reading of this payload has no temperature, the decoder (whose field is a plain number) returns 154.4 degC.  This is why
    `C05_g4_decode_agrees_2D` carries the second disjunct in `AgreeAcStatus`; without it the theorem would be false. -/
theorem C05_g4_sentinel_decodes_to_number_2D :
    (Spec.At4.readAcStatus [0x40, 0x42, 0x1a, 0x00, 0xff, 0x80, 0, 0]).map (fun recs => recs.map (·.temperature)) = some [none] ∧
    X2D.decode [0x40, 0x42, 0x1a, 0x00, 0xff, 0x80, 0, 0] 8 = .ok (.status [⟨0, .ON, .COOL, .LOW, false, false, 26, 1544, 0⟩], []) := by
  constructor <;> rfl

-- undefined AC mode code `0101` in the first AC
example : ∃ e, X2D.decode (vendor2D.set 1 0x52) 16 = .error e :=
  C05_g4_undefined_rejected_2D (vendor2D.set 1 0x52) _ (by rfl) ⟨_, List.mem_cons_self .., Or.inr (Or.inl ⟨5, rfl⟩)⟩

/-- 4.e.iii example, three groups "Living", "Kitchen", "Bedroom" -/
def vendorFF12 : Bytes := [0x00, 0x4c, 0x69, 0x76, 0x69, 0x6e, 0x67, 0x00, 0x00,
  0x01, 0x4b, 0x69, 0x74, 0x63, 0x68, 0x65, 0x6e, 0x00, 0x02, 0x42, 0x65, 0x64, 0x72, 0x6f, 0x6f, 0x6d, 0x00]

example : ∃ recs, Spec.At4.readGroupNames ([0xFF, 0x12] ++ vendorFF12) = some recs ∧ AgreeGroupNames
    [(0, [0x4c, 0x69, 0x76, 0x69, 0x6e, 0x67]), (1, [0x4b, 0x69, 0x74, 0x63, 0x68, 0x65, 0x6e]),
     (2, [0x42, 0x65, 0x64, 0x72, 0x6f, 0x6f, 0x6d])] recs :=
  C05_g4_decode_agrees_FF12 vendorFF12 27 (by decide) rfl ⟨_⟩ (by rfl)

-- a repeated group number: the mapping keeps the first position and the last name ("B" for group 7)
example : ∃ recs, Spec.At4.readGroupNames ([0xFF, 0x12] ++ [7, 0x41, 0, 0, 0, 0, 0, 0, 0, 7, 0x42, 0, 0, 0, 0, 0, 0, 0]) = some recs ∧
    AgreeGroupNames [(7, [0x42])] recs :=
  C05_g4_decode_agrees_FF12 _ 18 (by decide) rfl ⟨_⟩ (by rfl)

/-- 4.e.ii example: AC 0, "ER: FFFE" -/
def vendorFF10 : Bytes := [0x00, 0x08, 0x45, 0x52, 0x3a, 0x20, 0x46, 0x46, 0x46, 0x45]

example : ∃ s, Spec.At4.readAcError ([0xFF, 0x10] ++ vendorFF10) = some s ∧
    AgreeAcError ⟨0, some [0x45, 0x52, 0x3a, 0x20, 0x46, 0x46, 0x46, 0x45]⟩ s :=
  C05_g4_decode_agrees_FF10 vendorFF10 10 (by decide)
    (by intro ac n body h; injection h with _ h; injection h with h1 h2; subst h1 h2; decide) _ (by rfl)

/-- 4.e.iv example: no update, "1.3.3|1.3.3" -/
def vendorFF30 : Bytes := [0x00, 0x0b, 0x31, 0x2e, 0x33, 0x2e, 0x33, 0x7c, 0x31, 0x2e, 0x33, 0x2e, 0x33]

example : ∃ s, Spec.At4.readConsoleVersion ([0xFF, 0x30] ++ vendorFF30) = some s ∧
    AgreeConsoleVersion ⟨false, [[0x31, 0x2e, 0x33, 0x2e, 0x33], [0x31, 0x2e, 0x33, 0x2e, 0x33]]⟩ s :=
  C05_g4_decode_agrees_FF30 vendorFF30 13 (by decide)
    (by intro u n body h; injection h with _ h; injection h with h1 h2; subst h1 h2; decide) _ (by rfl)

/-- 4.e.i example: AC 0 "UNIT", following length 22, groups 0-3, modes 0x17, fan speeds 0x1d, 17-31 °C -/
def vendorFF11 : Bytes := [0x00, 0x16, 0x55, 0x4e, 0x49, 0x54, 0, 0, 0, 0, 0, 0, 0, 0, 0, 0, 0, 0,
  0x00, 0x04, 0x17, 0x1d, 0x11, 0x1f]

def isOneAbility : Except DecErr (FF11.Msg × Bytes) → Bool
  | .ok (.ability [_], []) => true
  | _ => false

-- the decoder accepts it (one AC) and the announced 24 bytes are there, so both theorems apply
example : isOneAbility (FF11.decode vendorFF11 24) = true := by decide +kernel
example : (Spec.At4.readAcAbility ([0xFF, 0x11] ++ vendorFF11)).map (·.map fun r => (r.ac, r.followingLength, r.name)) =
    some [(0, 22, [0x55, 0x4e, 0x49, 0x54])] := by decide

example (acs : List FF11.AcAbility) (h : FF11.decode vendorFF11 24 = .ok (.ability acs, [])) :
    ∃ recs, Spec.At4.readAcAbility ([0xFF, 0x11] ++ vendorFF11) = some recs ∧ AgreeList AgreeAcAbility acs recs :=
  C05_g4_decode_agrees_FF11_strong vendorFF11 24 (by decide) acs h (by decide)

-- a longer record (following length 46: the described bytes, display bytes `05 80`, 22 bytes of a future console):
-- the decoder accepts it as ONE AC with groups {0, 2, 15}, the vendor reader reads one record of following length 46
-- with 22 undescribed bytes, and the theorem applies
example : isOneAbility (FF11.decode ff11LongRecord 48) = true := by decide +kernel
example : (Spec.At4.readAcAbility ([0xFF, 0x11] ++ ff11LongRecord)).map
      (·.map fun r => (r.ac, r.followingLength, r.name, r.extra.length)) =
    some [(0, 46, [0x55, 0x4e, 0x49, 0x54], 22)] := by decide +kernel

example (acs : List FF11.AcAbility) (h : FF11.decode ff11LongRecord 48 = .ok (.ability acs, [])) :
    ∃ recs, Spec.At4.readAcAbility ([0xFF, 0x11] ++ ff11LongRecord) = some recs ∧ AgreeList AgreeAcAbility acs recs :=
  C05_g4_decode_agrees_FF11_strong ff11LongRecord 48 (by decide) acs h (by decide)

end PyAirtouch.Props.C05
