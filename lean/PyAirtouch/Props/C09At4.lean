import PyAirtouch.Lemmas.Api4Install
import PyAirtouch.Lemmas.Api4Demo
/-!
# C09 (AirTouch 4): the initialisation handshake

`stage` numbers the nine states (`CLOSED` 0 … `CONNECTED` 8); `handshakeRequests` is
`[version, names, abilities, AC status, timer status, group status]`; `hsSends evs` are the messages sent in
`evs` other than error-information requests; `answerKind st m` says that `m` is of the class that answers the
request outstanding in state `st`; `passive op` are the socket events other than "connection established"
(`recv`, `msg`, `conn 0`).  Reconnections (`conn 1` outside `CONNECTING`) are characterised in `Props/C14At4`.
-/
set_option linter.unusedVariables false
set_option linter.unusedSimpArgs false
namespace PyAirtouch.Props.C09
open PyAirtouch.Model PyAirtouch.Model.Api4 PyAirtouch.Model.At4 PyAirtouch.Lemmas.Api4 PyAirtouch.Gen

/-! ### `init()` -/

/-- `init()`: state `CONNECTING`, callbacks subscribed, socket opened; if the initialised event is not set the
    call waits until `now + 40` ticks (5 s), otherwise it returns `True` at once -/
theorem init_at4 (s : State) :
    (apiStep s .init).1.st = .CONNECTING ∧ (apiStep s .init).1.subscribed = true ∧
    (apiStep s .init).1.sockOpen = true ∧
    (s.initialised = false → (apiStep s .init).2 = [Ev.opened] ∧
        (apiStep s .init).1.initWaits = s.initWaits ++ [s.now + Api4.INIT_TIMEOUT] ∧
        (apiStep s .init).1.initialised = false) ∧
    (s.initialised = true → (apiStep s .init).2 = [Ev.opened, Ev.result "init True"]) := by
  simp only [apiStep, doInit]
  cases hi : s.initialised <;> simp

/-- `init()` waits at most 5 s (40 ticks of 1/8 s) -/
theorem init_timeout_value_at4 : Api4.INIT_TIMEOUT = 40 := rfl

example : Api4.INIT_TIMEOUT = 5 * 8 := by decide

/-- the connection comes up: the version request, state `INIT_VERSION` -/
theorem first_request_at4 (s : State) (hsub : s.subscribed = true) (hst : s.st = .CONNECTING) (ho : s.sockOpen = true) :
    (apiStep s (.conn true)).2 = [Ev.send .connected versionRequest] ∧ (apiStep s (.conn true)).1.st = .INIT_VERSION := by
  simp [apiStep, onConn, hsub, hst, ho]

/-! ### one step -/

/-- a message that is not the awaited answer (unsolicited, duplicate of an earlier step, premature, request,
    unknown): the state does not move, nothing but error-information requests is sent, no handler raises -/
theorem not_answer_ignored_at4 (s : State) (m : RMsg) (h : answerKind s.st m = false) :
    (apiStep s (.recv m)).1.st = s.st ∧ hsSends (apiStep s (.recv m)).2 = [] ∧
    ∀ c, Ev.subscriberExc c ∉ (apiStep s (.recv m)).2 :=
  recv_not_answer s m h

/-- the awaited answer: the next state, and exactly the next request (for the ability message under the condition
    that every listed group has a name, see `ability_keyerror_iff_at4`) -/
theorem answer_advances_at4 (s : State) (hsub : s.subscribed = true) (m : RMsg) (h : answerKind s.st m = true)
    (hne : s.st ≠ .INIT_GROUP_STATUS)
    (hab : ∀ acs, m = .extended (.acAbility (.ability acs)) → (processAbility s (acs.length == 1) acs).2 = true) :
    (apiStep s (.recv m)).1.st = nextState s.st ∧
    hsSends (apiStep s (.recv m)).2 = (requestOnLeaving s.st).toList ∧
    ∀ c, Ev.subscriberExc c ∉ (apiStep s (.recv m)).2 :=
  recv_answer s hsub m h hne hab

/-- the last answer: `CONNECTED`, the initialised event set, every waiting `init()` answers `True`, the heartbeat is
    started (`HBSTART`, and it runs afterwards), a new poll task waits 300 s; the only send besides
    error-information requests is the heartbeat's first beat -/
theorem last_answer_at4 (s : State) (hsub : s.subscribed = true) (l : List X2B.GroupStatusData)
    (hs : s.st = .INIT_GROUP_STATUS) :
    (apiStep s (.recv (.groupStatus (.status l)))).1.st = .CONNECTED ∧
    (apiStep s (.recv (.groupStatus (.status l)))).1.initialised = true ∧
    (apiStep s (.recv (.groupStatus (.status l)))).1.initWaits = [] ∧
    (apiStep s (.recv (.groupStatus (.status l)))).1.pollCur = some (s.now + Api4.GROUP_STATUS_TIMEOUT) ∧
    hbIdle (apiStep s (.recv (.groupStatus (.status l)))).1.hb = false ∧
    Ev.hbStart ∈ (apiStep s (.recv (.groupStatus (.status l)))).2 ∧
    (apiStep s (.recv (.groupStatus (.status l)))).2.count (Ev.result "init True") = s.initWaits.length ∧
    hsSends (apiStep s (.recv (.groupStatus (.status l)))).2 =
      (if hbIdle s.hb && s.sockConnected then [hbMessage] else []) ∧
    ∀ c, Ev.subscriberExc c ∉ (apiStep s (.recv (.groupStatus (.status l)))).2 :=
  recv_final_answer s hsub l hs

/-- an ability message listing a group without a name: `KeyError` out of the handler, the state is NOT advanced -/
theorem ability_keyerror_at4 (s : State) (hsub : s.subscribed = true) (acs : List FF11.AcAbility)
    (hs : s.st = .INIT_AC_ABILITY) (hf : (processAbility s (acs.length == 1) acs).2 = false) :
    (apiStep s (.recv (.extended (.acAbility (.ability acs))))).1.st = .INIT_AC_ABILITY ∧
    (apiStep s (.recv (.extended (.acAbility (.ability acs))))).2 = [Ev.subscriberExc "KeyError"] :=
  recv_ability_keyerror s hsub acs hs hf

/-- … which happens exactly when some record describes a group that has no name (or, for a hand-built record,
    lacks a key of the mode / fan-speed tables) -/
theorem ability_keyerror_iff_at4 (s : State) (hinv : Inv s) (acs : List FF11.AcAbility) :
    (processAbility s (acs.length == 1) acs).2 = false ↔
      ∃ ab ∈ acs, (∃ g ∈ describedIds (s.zoneDict.map (·.1)) (acs.length == 1) ab, s.zoneDict.lookup g = none) ∨
        (mkAc ab []).isNone :=
  processAbility_fails_iff s hinv _ acs

/-! ### sequences -/

/-- **requests in order**: over any sequence of arriving frames / messages / connection losses the state only moves
    forward, and while the handshake is incomplete the messages sent (error-information requests excepted) are
    exactly the handshake requests between the first and the last state: a contiguous segment of
    `[version, names, abilities, AC status, timer status, group status]`, each sent in the step that consumed the
    answer to the previous one -/
theorem requests_in_order_at4 (s : State) (hsub : s.subscribed = true) (ops : List Op)
    (hops : ∀ op ∈ ops, passive op = true) :
    stage s.st ≤ stage (run s ops).1.st ∧
    (stage (run s ops).1.st ≤ 7 →
      hsSends (run s ops).2 =
        (handshakeRequests.drop (stage s.st - 1)).take (stage (run s ops).1.st - stage s.st)) := by
  obtain ⟨h1, _, h3⟩ := passive_run s hsub ops hops
  exact ⟨h1, h3⟩

/-- from `init()` on: the requests sent are a prefix of the six handshake requests -/
theorem requests_prefix_at4 (s : State) (hsub : s.subscribed = true) (hst : s.st = .CONNECTING) (ho : s.sockOpen = true)
    (ops : List Op) (hops : ∀ op ∈ ops, passive op = true)
    (hle : stage (run s (.conn true :: ops)).1.st ≤ 7) :
    hsSends (run s (.conn true :: ops)).2 = handshakeRequests.take (stage (run s (.conn true :: ops)).1.st - 1) := by
  obtain ⟨f1, f2⟩ := first_request_at4 s hsub hst ho
  have hsub1 : (apiStep s (.conn true)).1.subscribed = true := by simp [apiStep, onConn, hsub, hst, ho]
  simp only [run] at hle ⊢
  obtain ⟨h1, h2⟩ := requests_in_order_at4 (apiStep s (.conn true)).1 hsub1 ops hops
  rw [f2] at h1 h2
  have e2 : stage Api4.AirTouchState.INIT_VERSION = 2 := rfl
  rw [e2] at h1 h2
  rw [hsSends_append, f1, h2 hle]
  have : stage (run (apiStep s (.conn true)).1 ops).1.st - 1 = (stage (run (apiStep s (.conn true)).1 ops).1.st - 2) + 1 := by
    omega
  rw [this]
  rfl

/-- **the handshake completes**: start in `INIT_VERSION` (version request outstanding); six stages, each "anything
    that is not the awaited answer, then a message of the answering class" (the ability answer naming only named
    groups); then the state is `CONNECTED`, the initialised event is set, the heartbeat has been started and
    runs, and no handler raised -/
theorem handshake_completes_at4 (s : State) (hsub : s.subscribed = true) (hst : s.st = .INIT_VERSION)
    (steps : List (List Op × RMsg)) (hlen : steps.length = 6) (hv : ValidSteps .INIT_VERSION steps)
    (hab : ∀ pre j acs post, steps = pre ++ (j, .extended (.acAbility (.ability acs))) :: post →
      (processAbility (run s (hsScript pre ++ j)).1 (acs.length == 1) acs).2 = true) :
    (run s (hsScript steps)).1.st = .CONNECTED ∧ (run s (hsScript steps)).1.initialised = true ∧
    hbIdle (run s (hsScript steps)).1.hb = false ∧ Ev.hbStart ∈ (run s (hsScript steps)).2 ∧
    ∀ c, Ev.subscriberExc c ∉ (run s (hsScript steps)).2 := by
  have hs2 : stage s.st = 2 := by rw [hst]; rfl
  obtain ⟨h1, h2, h3, h4⟩ := handshake_run s hsub steps (by rw [hst]; exact hv) (by omega) (by omega) hab
  have hne : steps ≠ [] := by intro h; rw [h] at hlen; cases hlen
  obtain ⟨k1, k2, k3⟩ := h4 hne (by omega)
  refine ⟨?_, k1, k2, k3, h3⟩
  have : stage (run s (hsScript steps)).1.st = 8 := by omega
  cases hf : (run s (hsScript steps)).1.st <;> simp [hf, stage] at this
  rfl

/-! ### what is exposed -/

/-- the names message: every named group (distinct numbers) becomes a zone with that id, that name and the
    default status; from an empty dictionary the zones are exactly the named groups, in message order -/
theorem exposed_zones_at4 (s : State) (hinv : Inv s) (names : List (Nat × Bytes)) (hnd : (names.map (·.1)).Nodup) :
    (∀ p ∈ names, (processGroupNames s names).zoneOf p.1 = some (mkZone p.1 p.2)) ∧
    (s.zoneDict = [] → (processGroupNames s names).zoneDict.map (·.1) = names.map (·.1)) :=
  ⟨fun p hp => processGroupNames_spec hinv names hnd p hp,
   fun h0 => keys_processGroupNames_fresh s h0 names hnd⟩

/-- the ability message (distinct AC numbers, no `KeyError`): every record gets an air-conditioner with that
    record, no subscribers, and **each zone under the right air-conditioner** - the group bitmap when present (in
    CPython's set order), all named zones for a single air-conditioner without bitmap, the `start_group` /
    `group_count` range otherwise -/
theorem exposed_air_conditioners_at4 (s : State) (hinv : Inv s) (hnd : (s.zoneDict.map (·.1)).Nodup)
    (acs : List FF11.AcAbility) (hnum : (acs.map (·.ac_number)).Nodup)
    (hok : (processAbility s (acs.length == 1) acs).2 = true) (ab : FF11.AcAbility) (hab : ab ∈ acs) :
    ∃ a, (processAbility s (acs.length == 1) acs).1.findAc ab.ac_number = some a ∧ a.ability = ab ∧
      a.subs = [] ∧ a.stateSubs = [] ∧
      a.zones.map (zoneIdAt s) = (describedIds (s.zoneDict.map (·.1)) (acs.length == 1) ab).map some :=
  (processAbility_spec hinv hnd _ acs hnum hok ab hab).2.2

theorem describedIds_cases_at4 (named : List Nat) (ab : FF11.AcAbility) :
    (∀ gs, ab.groups = some gs → ∀ single, describedIds named single ab = pySetOrder gs) ∧
    (ab.groups = none → describedIds named true ab = named) ∧
    (ab.groups = none → describedIds named false ab = List.range' ab.start_group ab.group_count) := by
  refine ⟨?_, ?_, ?_⟩
  · intro gs h single; simp [describedIds, h]
  · intro h; simp [describedIds, h]
  · intro h; simp [describedIds, h]

/-- CPython's iteration order of the decoded group set: ascending for five or more groups; the same elements in
    any case -/
theorem pySetOrder_large_at4 (gs : List Nat) (h : 5 ≤ gs.length) : pySetOrder gs = gs := by
  unfold pySetOrder
  have : ¬ gs.length ≤ 4 := by omega
  simp [this]

/-- after the ability answer nothing that arrives changes the exposed installation (same objects under the
    same numbers, ids, names, ability records, zone lists) -/
theorem installation_stable_at4 (s : State) (hinv : Inv s) (hsub : s.subscribed = true) (h5 : 5 ≤ stage s.st)
    (ops : List Op) (hops : ∀ op ∈ ops, passive op = true) : shape (run s ops).1 = shape s :=
  shape_passive_run hinv hsub h5 ops hops

/-! ### the answers stop -/

/-- while the handshake is incomplete the initialised event stays as it was and the waiting `init()` calls keep
    waiting, whatever frames arrive -/
theorem incomplete_keeps_waiting_at4 (s : State) (hsub : s.subscribed = true) (ops : List Op)
    (hops : ∀ op ∈ ops, passive op = true) (hle : stage (run s ops).1.st ≤ 7) :
    (run s ops).1.initialised = s.initialised ∧ (run s ops).1.initWaits = s.initWaits := by
  have := initView_passive_run s hsub ops hops hle
  exact ⟨congrArg Prod.fst this, congrArg Prod.snd this⟩

/-- … and then `init()` yields `False` exactly when its 5 s are over (`RESULT init False` once, at the deadline),
    the initialised event still unset, nothing raised, nobody notified -/
theorem init_times_out_at4 (s : State) (d : Nat) (hi : s.initialised = false) (hw : s.initWaits = [d]) (hd : s.now < d) :
    (apiStep s (.adv (d - s.now - 1))).2.count initFalse = 0 ∧
    (apiStep s (.adv (d - s.now))).2.count initFalse = 1 ∧
    (apiStep s (.adv (d - s.now))).1.initialised = false ∧
    (apiStep s (.adv (d - s.now))).1.initWaits = [] ∧
    ∀ e ∈ (apiStep s (.adv (d - s.now))).2, (∀ c, e ≠ Ev.subscriberExc c) ∧ e.isNotify = false := by
  obtain ⟨a1, _, _⟩ := advance_init (d - s.now - 1) s d hi hw hd
  obtain ⟨b1, b2, b3⟩ := advance_init (d - s.now) s d hi hw hd
  have e1 : s.now + (d - s.now - 1) < d := by omega
  have e2 : ¬ s.now + (d - s.now) < d := by omega
  simp only [e1, ↓reduceIte] at a1
  simp only [e2, ↓reduceIte] at b1 b2
  exact ⟨a1, b1, congrArg InitClock.initialised b2, congrArg InitClock.initWaits b2, b3⟩

/-! ### non-vacuity -/

example : afterConn.st = .INIT_VERSION ∧ afterConn.subscribed = true ∧ afterConn.initialised = false ∧
    afterConn.initWaits = [40] ∧ afterConn.now < 40 := by decide

example : ValidSteps .INIT_VERSION demoSteps := by
  simp only [demoSteps, ValidSteps, Junk, nextState]
  decide

example : (run afterConn (hsScript demoSteps)).1.st = .CONNECTED ∧
    hsSends (run afterConn (hsScript demoSteps)).2 =
      [namesRequest, abilityRequest, acStatusRequest, timerStatusRequest, groupStatusRequest] := by decide

example : hsSends (run (apiStep State.initial .init).1 [.conn true, .recv demoVersionMsg, .recv demoNamesMsg]).2 =
    handshakeRequests.take 3 := by decide

example : (apiStep afterConn (.adv 40)).2 = [initFalse] := by decide

/-- the state in which the last answer is awaited, and what the last answer does there -/
example : (run afterConn (hsScript (demoSteps.take 5))).1.st = .INIT_GROUP_STATUS ∧
    (apiStep (run afterConn (hsScript (demoSteps.take 5))).1 (.recv demoGroupMsg)).2 =
      [Ev.hbStart, Ev.result "init True"] := by decide      -- (the junk contained `conn 0`: no first beat)

example : Inv demo ∧ 5 ≤ stage demo.st ∧ demo.subscribed = true := ⟨demo_inv, by decide, by decide⟩

example : (demo.findAc 0).map (fun a => a.zones.map (zoneIdAt demo)) = some [some 0, some 1] := by decide

example : pySetOrder [1, 8] = [8, 1] ∧ pySetOrder [0, 8] = [0, 8] ∧ pySetOrder [3, 9, 11] = [11, 9, 3] := by decide

/-- a group without a name: `KeyError`, state kept -/
example : (apiStep (run afterConn [.recv demoVersionMsg, .recv demoNamesMsg]).1
    (.recv (.extended (.acAbility (.ability [{ demoAbility with groups := some [0, 5] }]))))).2 =
      [Ev.subscriberExc "KeyError"] := by decide

end PyAirtouch.Props.C09
