import PyAirtouch.Lemmas.Api5Heartbeat
import PyAirtouch.Props.C08
import PyAirtouch.Props.C09At5
/-!
# C08 (AirTouch 5) — the heartbeat manager as wired into the API object

`Props/C08.lean` proves property C08 for the heartbeat model `Model.Heartbeat` on its own.  This file proves that the
AirTouch 5 API model (`Model.Api5`) drives that model the way the property needs it:

1. the manager is started exactly by the frame that completes the handshake, stopped by `shutdown()` only, its parameters
   (2400 / 2640 ticks of 1/8 s = 300 s / 330 s) never change;
2. what it sends is the console-version request with the connected-only policy, what it accepts as a response is an
   extended message carrying a console-version sub-message; no other frame re-arms the deadline;
3. `adv n` drives the embedded manager by `n` ticks: a ghost manager that is fed the same inputs but keeps its whole
   trace is `Reachable` in the heartbeat model and stays equivalent (`HbEquiv`) to the embedded one, and the `RESET`s the
   API outputs are the `reset` events of the ghost - so every theorem of `Props/C08.lean` speaks about the API object.
   API-level corollaries: a `RESET` exactly 2640 ticks after the last arm point and not earlier; no `RESET` while console
   version frames keep arriving; one request per 2400 ticks.

Model limit: the scheduler of `Model.Heartbeat` has a fuel of 100000 actions per `adv`; statements that need the
scheduler to finish carry `n ≤ advBound` (= 6·10⁷ ticks, 86 days per single `adv`).
-/
namespace PyAirtouch.Props.C08
open PyAirtouch.Model PyAirtouch.Model.Api5 PyAirtouch.Model.At5 PyAirtouch.Model.At5.Registry
open PyAirtouch.Model.Heartbeat PyAirtouch.Spec.Heartbeat PyAirtouch.Lemmas.Heartbeat
open PyAirtouch.Gen PyAirtouch.Gen.Api5 PyAirtouch.Lemmas.Api5
open PyAirtouch.Props.C09 (exS0 exVersion exNames exAbilities exAcStatus exTimers exZones)

/-! ## 0. the example states -/

/-- the handshake of `Props/C09At5.lean` up to the last request: waiting for the zone status -/
def exWaiting5 : State :=
  runS exS0 [.init, .conn true, .msg 176 exVersion, .msg 176 exNames, .msg 176 exAbilities, .msg 176 exAcStatus,
    .msg 176 exTimers]

/-- … completed: connected, the heartbeat manager running -/
def exConn5 : State := runS exWaiting5 [.msg 176 exZones]

theorem exWaiting5_facts_at5 : exWaiting5.sockSubscribed = true ∧ exWaiting5.st = .INIT_ZONE_STATUS ∧
    exWaiting5.hb.tl = .idle ∧ exWaiting5.hb.hl = .idle ∧ exWaiting5.hb.now = 0 ∧ exWaiting5.now = 0 ∧
    exWaiting5.hb.connected = true ∧ exWaiting5.pendingInits = [40] ∧ exWaiting5.initialised = false := by decide

theorem exConn5_facts_at5 : exConn5.st = .CONNECTED ∧ exConn5.initialised = true ∧ exConn5.hb.tl = .waiting 2640 ∧
    exConn5.hb.hl = .sleeping 2400 ∧ exConn5.hb.connected = true ∧ exConn5.hb.flag = false ∧ exConn5.now = 0 ∧
    exConn5.hb.now = 0 ∧ exConn5.pendingInits = [] ∧ exConn5.sockSubscribed = true := by decide

theorem exConn5_ok_at5 : HbOk exConn5 := by
  have : exConn5 = runS exS0 [.init, .conn true, .msg 176 exVersion, .msg 176 exNames, .msg 176 exAbilities,
      .msg 176 exAcStatus, .msg 176 exTimers, .msg 176 exZones] := rfl
  rw [this]
  refine hbOk_run _ _ (hbOk_new [] [] [] []) ?_
  intro o ho n e
  subst e
  simp at ho

/-! ## 1. started exactly when the handshake completes, stopped by `shutdown()` only -/

/-- (a) the frame that completes the handshake (`answers .INIT_ZONE_STATUS`: a zone-status message, or the echo of the
request addressed to the client) while the manager is not running: the API becomes CONNECTED, every waiting `init()`
answers `True`, `HBSTART` is output, and the manager is in its started state - deadline `now + 2640`, next wake-up
`now + 2400` (both tasks took their first step at once), parameters 2400 / 2640; the first heartbeat request is output
iff the link is up.  `pre`: the notifications of the zone-status update that precedes `CONNECTED` in the handler -/
theorem hb_started_on_connected_at5 : type_of% @hb_started_on_connected := @hb_started_on_connected

/-- the two frames that complete the handshake -/
theorem completing_frames_at5 (toAddr : Nat) (m : Msg) :
    answers .INIT_ZONE_STATUS toAddr m = true ↔
      (∃ l, m = .controlStatus (.zoneStatus (.status l))) ∨
      (m = .controlStatus (.zoneStatus .request) ∧ toAddr = Gen.At5.Hdr.ADDRESS_CLIENT) := by
  constructor
  · intro h
    rcases answers_zoneStatus_inv h with h | ⟨h1, h2⟩
    · exact .inl h
    · exact .inr ⟨h1, by simpa using h2⟩
  · rintro (⟨l, rfl⟩ | ⟨rfl, rfl⟩) <;> simp [answers]

/-- the zone-status message, in full -/
theorem hb_started_by_zone_status_at5 (s : State) (toAddr : Nat) (l : List C021.ZoneStatusData)
    (hsub : s.sockSubscribed = true) (hst : s.st = .INIT_ZONE_STATUS) (hi : HbIdle s.hb) (hn : s.hb.now ≤ s.now)
    (hiv : s.hb.interval = Gen.Api5.heartbeatInterval) (hto : s.hb.timeout = Gen.Api5.heartbeatTimeout) :
    let r := apiStep s (.msg toAddr (.controlStatus (.zoneStatus (.status l))))
    Out.hbStart ∈ r.2 ∧ r.2.count (.result "init True") = s.pendingInits.length ∧
    r.1.initialised = true ∧ r.1.st = .CONNECTED ∧
    r.1.hb.tl = .waiting (s.now + 2640) ∧ r.1.hb.hl = .sleeping (s.now + 2400) ∧
    r.1.hb.interval = Gen.Api5.heartbeatInterval ∧ r.1.hb.timeout = Gen.Api5.heartbeatTimeout ∧
    (Out.send .connected hbMessage false ∈ r.2 ↔ s.hb.connected = true) := by
  intro r
  obtain ⟨h1, h2, _, h4, h5, _, _, _, h9, h10, _, pre, hp, ho⟩ :=
    hb_started_on_connected s toAddr (.controlStatus (.zoneStatus (.status l))) hsub hst rfl hi hn hiv hto
  have hpre : ∀ x, x ∈ pre → x.isNotify = true := hp
  refine ⟨by show _ ∈ (apiStep _ _).2; rw [ho]; simp, ?_, h2, h1, h4, h5, h9, h10, ?_⟩
  · show (apiStep _ _).2.count _ = _
    rw [ho]
    have c1 : pre.count (.result "init True") = 0 :=
      List.count_eq_zero.2 (fun hm => by simpa [Out.isNotify] using hpre _ hm)
    have c2 : (s.pendingInits.map fun _ => Out.result "init True").count (.result "init True") = s.pendingInits.length := by
      induction s.pendingInits with
      | nil => rfl
      | cons a l ih => simp [ih]
    simp only [List.count_append, c1, c2]
    cases s.hb.connected <;> simp
  · show _ ∈ (apiStep _ _).2 ↔ _
    rw [ho]
    cases hc : s.hb.connected
    · simp only [List.mem_append, List.mem_singleton, List.mem_map, reduceCtorEq, or_false, Bool.false_eq_true, if_false,
        List.not_mem_nil, and_false, exists_false, iff_false]
      intro hm
      simpa [Out.isNotify] using hpre _ hm
    · simp

/-- the handshake of `Props/C09At5.lean`: its last frame starts the manager at time 0 with the link up -/
example : (apiStep exWaiting5 (.msg 176 exZones)).2 = [.hbStart, .result "init True", .send .connected hbMessage false] ∧
    (apiStep exWaiting5 (.msg 176 exZones)).1.hb.tl = .waiting 2640 ∧
    (apiStep exWaiting5 (.msg 176 exZones)).1.hb.hl = .sleeping 2400 := by decide

example : Out.hbStart ∈ (apiStep exWaiting5 (.msg 176 exZones)).2 :=
  (hb_started_by_zone_status_at5 exWaiting5 176 [] (by decide) (by decide) ⟨by decide, by decide⟩ (by decide) (by decide)
    (by decide)).1

/-- … and so does the echo of the request when it is addressed to the client (a console without zones) -/
example : (apiStep exWaiting5 (.msg 176 (.controlStatus (.zoneStatus .request)))).2 =
      [.hbStart, .result "init True", .send .connected hbMessage false] ∧
    (apiStep exWaiting5 (.msg 144 (.controlStatus (.zoneStatus .request)))).2 = [] := by decide

/-- (b) `HBSTART` is output by exactly one kind of op, in any state whatsoever: a frame, while the API listens to the
socket in state INIT_ZONE_STATUS, that answers the zone-status request (`Finishing`); afterwards the API is CONNECTED and
initialised -/
theorem hbStart_only_on_connected_at5 (s : State) (op : Op) (h : Out.hbStart ∈ (apiStep s op).2) :
    (∃ toAddr m, op = .msg toAddr m ∧ answers .INIT_ZONE_STATUS toAddr m = true) ∧ s.sockSubscribed = true ∧
    s.st = .INIT_ZONE_STATUS ∧ (apiStep s op).1.st = .CONNECTED ∧ (apiStep s op).1.initialised = true := by
  have hf := (hbStart_iff s op).1 h
  obtain ⟨p1, p2, _⟩ := finishing_post hf
  obtain ⟨toAddr, m, e, hsub, hst, ha⟩ := hf
  exact ⟨⟨toAddr, m, e, ha⟩, hsub, hst, p1, p2⟩

theorem hbStart_iff_at5 : type_of% @hbStart_iff := @hbStart_iff

/-- conversely: an op that sets the event outputs `HBSTART` -/
theorem initialised_set_outputs_hbStart_at5 (s : State) (op : Op) (h0 : s.initialised = false)
    (h1 : (apiStep s op).1.initialised = true) : Out.hbStart ∈ (apiStep s op).2 :=
  (hbStart_iff s op).2 (initialised_only_by_finishing s op h0 h1)

/-- a frame that makes a waiting `init()` answer `True` outputs `HBSTART` too -/
theorem init_true_implies_hbStart_at5 (s : State) (toAddr : Nat) (m : Msg)
    (h : Out.result "init True" ∈ (apiStep s (.msg toAddr m)).2) : Out.hbStart ∈ (apiStep s (.msg toAddr m)).2 := by
  rcases apiStep_out s _ _ h with ⟨_, h1⟩ | h1 | ⟨_, h1⟩ | ⟨h1, _⟩
  · exact absurd rfl (h1 toAddr m rfl "init True")
  · cases h1
  · exact (hbStart_iff s _).2 h1
  · cases h1

example : Out.hbStart ∈ (apiStep exWaiting5 (.msg 176 exZones)).2 ∧ exWaiting5.initialised = false ∧
    (apiStep exWaiting5 (.msg 176 exZones)).1.initialised = true ∧
    Out.result "init True" ∈ (apiStep exWaiting5 (.msg 176 exZones)).2 := by decide

/-- (c) a running manager is stopped by `shutdown()` only - any state, any op -/
theorem hb_stopped_only_by_shutdown_at5 : type_of% @hb_stopped_only_by_shutdown := @hb_stopped_only_by_shutdown

/-- `HBSTOP` is output by `shutdown()` and by nothing else -/
theorem hbStop_iff_shutdown_at5 : type_of% @hbStop_iff := @hbStop_iff

/-- no op ever changes the manager's parameters -/
theorem hb_params_const_at5 : type_of% @hb_params_const := @hb_params_const

/-- the pure fact behind (c): a manager that is running is still running after any input but `stop` -/
theorem feed_keeps_running_at5 : type_of% @feed_idle_back := @feed_idle_back

example : ¬ HbIdle exConn5.hb ∧ HbIdle (apiStep exConn5 .shutdown).1.hb ∧ Out.hbStop ∈ (apiStep exConn5 .shutdown).2 := by
  refine ⟨?_, ?_, ?_⟩
  · intro h; have := h.1; revert this; decide
  · exact ⟨by decide, by decide⟩
  · decide

example : (apiStep exConn5 (.conn false)).1.hb.tl = .waiting 2640 ∧ (apiStep exConn5 (.adv 100)).1.hb.tl = .waiting 2640 := by
  decide

/-! ## 2. the message emitted, the response matcher -/

/-- the heartbeat request is the console-version request; its policy is `CONNECTED`: no retry, 8 ticks (1 s) of life -/
theorem hbMessage_at5 : hbMessage = msgConsoleVersionRequest ∧ msgConsoleVersionRequest = .extended (.consoleVer .request) ∧
    Policy.connected.value = Gen.retryConnected ∧ Gen.retryConnected = (0, 8) := ⟨rfl, rfl, rfl, rfl⟩

/-- whatever the manager makes the API output is that request (with that policy) or a `RESET` -/
theorem hbFeed_sends_at5 (s : State) (i : HIn) (p : Policy) (m : Msg) (b : Bool) (h : Out.send p m b ∈ (hbFeed s i).2) :
    p = .connected ∧ m = hbMessage ∧ b = false := by
  rcases hbFeed_out s i _ h with h | h
  · cases h; exact ⟨rfl, rfl, rfl⟩
  · cases h

/-- the matcher, as the model has it: an extended message whose sub-message has the console-version id -/
theorem isHeartbeatResponse_iff_at5 : type_of% @isHeartbeatResponse_iff := @isHeartbeatResponse_iff

/-- … concretely -/
theorem isHeartbeatResponse_cases_at5 : type_of% @isHeartbeatResponse_cases := @isHeartbeatResponse_cases

/-- every console-version sub-message is accepted - the version message and (the matcher looks at the id only) the request -/
theorem consoleVer_is_response_at5 (v : FF30.ConsoleVersionMessage) :
    isHeartbeatResponse (.extended (.consoleVer (.message v))) = true ∧
    isHeartbeatResponse (.extended (.consoleVer .request)) = true := ⟨rfl, rfl⟩

/-- no control/status message and no other extended sub-message is -/
theorem other_frames_are_no_response_at5 :
    (∀ x, isHeartbeatResponse (.controlStatus x) = false) ∧
    (∀ x, isHeartbeatResponse (.controlStatus (.acStatus x)) = false) ∧
    (∀ x, isHeartbeatResponse (.controlStatus (.zoneStatus x)) = false) ∧
    (∀ x, isHeartbeatResponse (.controlStatus (.acTimerStatus x)) = false) ∧
    (∀ x, isHeartbeatResponse (.controlStatus (.acTimerCtrl x)) = false) ∧
    (∀ x, isHeartbeatResponse (.controlStatus (.acCtrl x)) = false) ∧
    (∀ x, isHeartbeatResponse (.controlStatus (.zoneCtrl x)) = false) ∧
    (∀ x, isHeartbeatResponse (.extended (.errInfo x)) = false) ∧
    (∀ x, isHeartbeatResponse (.extended (.zoneNames x)) = false) ∧
    (∀ x, isHeartbeatResponse (.extended (.acAbility x)) = false) ∧
    (∀ x, isHeartbeatResponse (.extended (.quickTimer x)) = false) ∧
    (∀ id raw, isHeartbeatResponse (.unsupported id raw) = false) :=
  ⟨fun _ => rfl, fun _ => rfl, fun _ => rfl, fun _ => rfl, fun _ => rfl, fun _ => rfl, fun _ => rfl,
   fun _ => rfl, fun _ => rfl, fun _ => rfl, fun _ => rfl, fun _ _ => rfl⟩

/-- a frame that is not a response, while CONNECTED: the manager is untouched (the deadline is not re-armed) -/
theorem non_response_does_not_rearm_at5 (s : State) (toAddr : Nat) (m : Msg) (hst : s.st = .CONNECTED)
    (hr : isHeartbeatResponse m = false) : (apiStep s (.msg toAddr m)).1.hb = s.hb :=
  non_response_keeps_hb s toAddr m hr (not_finishing_of_st (by rw [hst]; simp))

/-- in any state: a frame that is not a response leaves the manager untouched unless it outputs `HBSTART` -/
theorem non_response_keeps_hb_at5 (s : State) (toAddr : Nat) (m : Msg) (hr : isHeartbeatResponse m = false)
    (hs : Out.hbStart ∉ (apiStep s (.msg toAddr m)).2) : (apiStep s (.msg toAddr m)).1.hb = s.hb :=
  non_response_keeps_hb s toAddr m hr (fun hf => hs ((hbStart_iff s _).2 hf))

/-- a response while the manager waits for one (nothing overdue): the deadline is re-armed to `now + timeout`, the arm point
is `now`; no `RESET`, no `HBSTART` -/
theorem response_rearms_at5 : type_of% @response_rearms := @response_rearms

/-- a zone status 1000 ticks after the start re-arms nothing; a console version does (and is processed as an update) -/
example :
    (runS exConn5 [.adv 1000, .msg 176 exZones]).hb.tl = .waiting 2640 ∧
    (runS exConn5 [.adv 1000, .msg 176 exVersion]).hb.tl = .waiting 3640 ∧
    (runS exConn5 [.adv 1000, .msg 176 exVersion]).hb.lastArm = 1000 ∧
    (runS exConn5 [.adv 1000, .msg 176 (.extended (.consoleVer .request))]).hb.tl = .waiting 3640 := by decide

example : (apiStep exConn5 (.msg 176 exVersion)).1.hb.tl = .waiting (exConn5.now + exConn5.hb.timeout) :=
  (response_rearms_at5 exConn5 176 exVersion 2640 2400 (by decide) rfl (by decide) (by decide) (by decide) (by decide)
    (by decide) (by decide)).1

/-! ## 3. the bridge to `Props/C08.lean` -/

/-- (a) every `feed` of the deterministic scheduler is a run of the heartbeat model -/
theorem feed_is_run_at5 : type_of% @feed_run := @feed_run

/-- one `hbFeed`, followed by a ghost manager that keeps the whole trace -/
theorem hbFeed_track_at5 : type_of% @hbFeed_track := @hbFeed_track

/-- the manager after any op is the manager fed `feedsOf s op` (the inputs listed in the model, in order), and the `RESET`s
of the op are the `reset` events recorded on the way - except that `shutdown` and `conn` discard them -/
theorem apiStep_feeds_at5 : type_of% @apiStep_feeds := @apiStep_feeds

/-- one op: the ghost follows by a run of the heartbeat model, stays equivalent, and records a new `reset` iff the op
outputs `RESET`.  `Quiet s.hb s.now` (nothing pending is overdue; part of `HbOk`) is what makes `shutdown` / `conn`, which
discard the manager's report, hide nothing -/
theorem apiStep_track_at5 : type_of% @apiStep_track := @apiStep_track
theorem apiStep_track_count_at5 : type_of% @apiStep_track_count := @apiStep_track_count
/-- without that hypothesis: the ghost still follows, and no `RESET` is output that the ghost did not record -/
theorem apiStep_track_any_at5 : type_of% @apiStep_track_any := @apiStep_track_any

/-- the hypothesis is needed (for the ghost that is fed the same inputs): a hand-made state whose manager is 2360 ticks
overdue; `shutdown()` makes it catch up - it records the reset that was due at 2640 - and discards the report -/
def exOverdue5 : State := { exConn5 with now := 5000 }

example : (apiStep exOverdue5 .shutdown).2.count .reset = 0 ∧
    resetEvs (hbSteps exOverdue5.hb (feedsOf exOverdue5 .shutdown)).2 = 1 := by decide

/-- op lists from a fresh object (every single `adv` at most `advBound` ticks): a `Reachable` state of the heartbeat model
shadows the embedded manager, and the number of `RESET`s output so far is the number of `reset` events in its trace -/
theorem C08_bridge_at5 : type_of% @new_track := @new_track
/-- … for arbitrary op lists: shadowed all the same; every `RESET` output is a recorded `reset` -/
theorem C08_bridge_any_at5 : type_of% @new_track_any := @new_track_any
/-- … and from any state that satisfies the invariant -/
theorem run_track_at5 : type_of% @run_track_count := @run_track_count

/-- `C08_deadline_never_missed` for the API object: after any op list the embedded manager's clock has not passed a
pending deadline or wake-up, and its parameters are 2400 / 2640 -/
theorem C08_deadline_never_missed_at5 (a b c d : Bytes) (ops : List Op) :
    let s := runS (State.new a b c d) ops
    (∀ dl, s.hb.tl = .waiting dl → s.hb.now ≤ dl) ∧ (∀ u, s.hb.hl = .sleeping u → s.hb.now ≤ u) ∧
    s.hb.timeout = 2640 ∧ s.hb.interval = 2400 := by
  intro s
  obtain ⟨g, hr, e, _⟩ := new_track_any a b c d ops
  obtain ⟨h1, h2, h3⟩ := C08_deadline_never_missed hr
  refine ⟨fun dl hd => ?_, fun u hu => ?_, ?_, ?_⟩
  · have := (h1 dl (by rw [e.tl]; exact hd)).1
    rw [e.now] at this; exact this
  · have := C08_wake_never_missed hr (u := u) (by rw [e.hl]; exact hu)
    rw [e.now] at this; exact this
  · rw [← e.timeout]; exact h2
  · rw [← e.interval]; exact h3

/-- `C08_reset_only_after_full_silence` and `C08_reset_origin` for the API object: as many `reset` events as `RESET`s
output are in the trace of a reachable ghost; each of them comes at least 2640 ticks after time 0, has no response in the
2640 ticks before it, and lies a whole number of timeouts after a recorded arm point (start, response, completed reset)
with no response in between -/
theorem C08_reset_only_after_full_silence_at5 (a b c d : Bytes) (ops : List Op) (hb : AdvBounded ops) :
    ∃ g, Reachable 2400 2640 g ∧ HbEquiv g (runS (State.new a b c d) ops).hb ∧
      (runOut (State.new a b c d) ops).count .reset = resetEvs g.trace ∧
      (∀ r, HEv.reset r ∈ g.trace → 2640 ≤ r ∧ ∀ x, HEv.resp x ∈ g.trace → ¬ (r - 2640 < x ∧ x < r)) ∧
      (∀ r, HEv.reset r ∈ g.trace → ∃ k o, r = o + (k + 1) * 2640 ∧
        (HEv.start o ∈ g.trace ∨ HEv.resp o ∈ g.trace ∨ HEv.resetDone o ∈ g.trace) ∧
        ∀ x, HEv.resp x ∈ g.trace → x ≤ o ∨ r ≤ x) := by
  obtain ⟨g, hr, e, c⟩ := new_track a b c d ops hb
  exact ⟨g, hr, e, c, C08_reset_only_after_full_silence hr, C08_reset_origin hr⟩

/-- the example handshake followed by 330 s of silence: one `RESET`, and the ghost of the bridge has one `reset` -/
example : ∃ g, Reachable 2400 2640 g ∧ resetEvs g.trace = 1 := by
  obtain ⟨g, hr, _, c, _⟩ := C08_reset_only_after_full_silence_at5 [] [] [] []
    [.init, .conn true, .msg 176 exVersion, .msg 176 exNames, .msg 176 exAbilities, .msg 176 exAcStatus,
      .msg 176 exTimers, .msg 176 exZones, .adv 2640]
    (by intro o ho n e; subst e; simp at ho; subst ho; decide)
  refine ⟨g, hr, ?_⟩
  rw [← c]
  have e : runOut (State.new [] [] [] []) [.init, .conn true, .msg 176 exVersion, .msg 176 exNames, .msg 176 exAbilities,
      .msg 176 exAcStatus, .msg 176 exTimers, .msg 176 exZones, .adv 2640] =
      runOut exS0 [.init, .conn true, .msg 176 exVersion, .msg 176 exNames, .msg 176 exAbilities,
      .msg 176 exAcStatus, .msg 176 exTimers, .msg 176 exZones] ++ (apiStep exConn5 (.adv 2640)).2 := by
    rw [show ([.init, .conn true, .msg 176 exVersion, .msg 176 exNames, .msg 176 exAbilities, .msg 176 exAcStatus,
      .msg 176 exTimers, .msg 176 exZones, .adv 2640] : List Op) =
      [.init, .conn true, .msg 176 exVersion, .msg 176 exNames, .msg 176 exAbilities, .msg 176 exAcStatus,
      .msg 176 exTimers, .msg 176 exZones] ++ [.adv 2640] from rfl, runOut_append]
    simp only [runOut_cons, runOut_nil, List.append_nil]
    rfl
  rw [e, List.count_append]
  have c1 : (runOut exS0 [.init, .conn true, .msg 176 exVersion, .msg 176 exNames, .msg 176 exAbilities,
      .msg 176 exAcStatus, .msg 176 exTimers, .msg 176 exZones]).count .reset = 0 := by decide
  have c2 := (silence_reset_exact exConn5 2640 exConn5_ok_at5 (by decide) (by decide)).1
  have e0 : 2640 - exConn5.now = 2640 := by decide
  rw [e0] at c2
  rw [c1, c2]

/-! ### (b) `adv n` drives the embedded manager by `n` ticks -/

/-- the invariant of the API object, spelled out: the embedded manager satisfies the timing invariant of
`Lemmas.Heartbeat` for 2400 / 2640, its clock is the API's clock, the event is consumed, no reset is in progress, a
pending deadline lies within `[now, now + 2640]` and is `lastArm + 2640`, a pending wake-up within `[now, now + 2400]`,
both tasks exist together, the manager runs exactly while the API is initialised, and then no `init()` is waiting and the
API listens to the socket -/
theorem hbOk_bounds_at5 {s : State} (h : HbOk s) :
    s.hb.now = s.now ∧ s.hb.flag = false ∧ s.hb.tl ≠ .resetting ∧
    (∀ d, s.hb.tl = .waiting d → s.now ≤ d ∧ d ≤ s.now + 2640 ∧ d = s.hb.lastArm + 2640) ∧
    (∀ u, s.hb.hl = .sleeping u → s.now ≤ u ∧ u ≤ s.now + 2400) ∧
    (s.hb.tl = .idle ↔ s.hb.hl = .idle) ∧ s.hb.interval = Gen.Api5.heartbeatInterval ∧
    s.hb.timeout = Gen.Api5.heartbeatTimeout ∧ s.hb.lastArm ≤ s.now ∧
    (s.initialised = true ↔ s.hb.tl ≠ .idle) ∧ (s.initialised = true → s.pendingInits = [] ∧ s.sockSubscribed = true) := by
  refine ⟨h.now_eq, h.hq.flag, h.hq.notResetting, fun d hd => ⟨(h.deadline_le hd).1, (h.deadline_le hd).2, ?_⟩,
    fun u hu => h.wake_le hu, h.hq.basic.both, h.hq.interval, h.hq.timeout, ?_, h.running,
    fun e => ⟨h.pending e, h.subscribed e⟩⟩
  · have := (h.hq.basic.deadline d hd).2
    rw [h.hq.timeout] at this; exact this
  · have := h.hq.basic.arm_le
    rw [h.now_eq] at this; exact this

/-- it holds for a fresh object … -/
theorem hbOk_new_at5 : type_of% @hbOk_new := @hbOk_new
/-- … and is preserved by every op; for `adv n` under the proviso `n ≤ advBound` (the fuel of the model's scheduler) -/
theorem hbOk_step_at5 : type_of% @hbOk_step := @hbOk_step
theorem hbOk_run_at5 : type_of% @hbOk_run := @hbOk_run
theorem advBound_at5 : advBound = 60000000 := rfl

/-- the API's clock advances by `n`, and (invariant, `n ≤ advBound`) the embedded clock follows -/
theorem adv_drives_by_n_at5 (s : State) (n : Nat) :
    (apiStep s (.adv n)).1.now = s.now + n ∧
    (HbOk s → n ≤ advBound → (apiStep s (.adv n)).1.hb.now = s.now + n ∧ HbOk (apiStep s (.adv n)).1) := by
  refine ⟨adv_now s n, fun h hn => ?_⟩
  have h' := hbOk_step s (.adv n) h (fun n' e => by cases e; exact hn)
  exact ⟨by rw [h'.now_eq, adv_now], h'⟩

example : HbOk exConn5 ∧ (apiStep exConn5 (.adv 777)).1.hb.now = 777 :=
  ⟨exConn5_ok_at5, by
    have := ((adv_drives_by_n_at5 exConn5 777).2 exConn5_ok_at5 (by decide)).1
    have e0 : exConn5.now = 0 := by decide
    rw [e0] at this; simpa using this⟩

/-! ### (c) API-level corollaries -/

/-- (i) **silence is detected at the deadline, not earlier.**  Whatever the rest of the state: an `adv` that ends before the
pending deadline `d` outputs no `RESET` and leaves `d` pending (no assumption about the fuel) -/
theorem no_reset_before_deadline_at5 : type_of% @adv_before_deadline := @adv_before_deadline

/-- … under the invariant (`d = lastArm + 2640`), link up: an `adv` that reaches or passes `d` outputs a `RESET` … -/
theorem silence_detected_at5 : type_of% @silence_reset := @silence_reset

/-- … and the `adv` that ends exactly at `d` outputs exactly one; the reset of the stub socket returns at once and the next
deadline is `d + 2640` -/
theorem silence_detected_exact_at5 : type_of% @silence_reset_exact := @silence_reset_exact

/-- link down: the heartbeat never resets; at the deadline the next period simply starts -/
theorem no_reset_while_down_at5 : type_of% @silence_down := @silence_down
theorem deadline_moves_on_while_down_at5 : type_of% @silence_down_exact := @silence_down_exact

/-- 329.875 s of silence after the handshake: nothing; at 330 s: `RESET` -/
example : Out.reset ∉ (apiStep exConn5 (.adv 2639)).2 ∧ (apiStep exConn5 (.adv 2639)).1.hb.tl = .waiting 2640 := by
  have := no_reset_before_deadline_at5 exConn5 2639 2640 (by decide) (by decide) (by decide)
  exact ⟨this.1, this.2.1⟩

example : (apiStep exConn5 (.adv 2640)).2.count .reset = 1 ∧ (apiStep exConn5 (.adv 2640)).1.hb.tl = .waiting 5280 := by
  have := silence_detected_exact_at5 exConn5 2640 exConn5_ok_at5 (by decide) (by decide)
  have e0 : 2640 - exConn5.now = 2640 := by decide
  rw [e0] at this
  exact ⟨this.1, this.2.1⟩

example : Out.reset ∈ (apiStep exConn5 (.adv 1000000)).2 :=
  silence_detected_at5 exConn5 1000000 2640 exConn5_ok_at5 (by decide) (by decide) (by decide) (by decide)

/-- the link goes down first: no `RESET` at 330 s, the deadline moves on -/
example : Out.reset ∉ (apiStep (apiStep exConn5 (.conn false)).1 (.adv 2640)).2 := by
  have ok := hbOk_step exConn5 (.conn false) exConn5_ok_at5 (fun n e => by cases e)
  exact no_reset_while_down_at5 _ 2640 ok (by decide) (by decide) (by decide)

/-- (ii) **no false reset** -/
theorem no_false_reset_at5 : type_of% @no_false_reset := @no_false_reset

/-- a console version frame every 2639 ticks, with connection changes, other frames and calls in between: never a `RESET` -/
example : Out.reset ∉ runOut exConn5 [.adv 2639, .msg 176 exVersion, .conn false, .adv 2000, .conn true, .callAt,
    .msg 176 exZones, .adv 639, .msg 176 (.extended (.consoleVer .request)), .adv 2639] :=
  (no_false_reset_at5 ⟨exConn5_ok_at5, by decide, (by decide : exConn5.hb.tl = .waiting 2640)⟩ _ (by decide)).1

/-- the check is tight: one tick more of silence and the `RESET` comes -/
example : responsive 2640 [.adv 2640] = false ∧ Out.reset ∈ (apiStep exConn5 (.adv 2640)).2 :=
  ⟨by decide, silence_detected_at5 exConn5 2640 2640 exConn5_ok_at5 (by decide) (by decide) (by decide) (by decide)⟩

/-- relation to `C08_no_false_reset`: the ghost of the bridge has no `reset` event either -/
theorem no_false_reset_ghost_at5 (a b c d : Bytes) (pre ops : List Op) (hb : AdvBounded (pre ++ ops)) (dl : Nat)
    (ha : Alive (runS (State.new a b c d) pre) dl) (hr : responsive (dl - (runS (State.new a b c d) pre).now) ops = true) :
    ∃ g, Reachable 2400 2640 g ∧ HbEquiv g (runS (State.new a b c d) (pre ++ ops)).hb ∧
      resetEvs g.trace = (runOut (State.new a b c d) pre).count .reset := by
  obtain ⟨g, hreach, e, c⟩ := new_track a b c d (pre ++ ops) hb
  refine ⟨g, hreach, e, ?_⟩
  rw [← c, runOut_append, List.count_append]
  have := (no_false_reset ha ops hr).1
  rw [List.count_eq_zero.2 this]
  rfl

/-- (iii) **one request per interval** -/
theorem beats_none_between_at5 : type_of% @beats_none := @beats_none
theorem beats_every_interval_at5 : type_of% @beats_one := @beats_one

/-- after the handshake (first request at 0): nothing for 2399 ticks, the second request at 2400, the third at 4800 (after
a response at 2500 that keeps the connection alive) -/
example : (apiStep exConn5 (.adv 2399)).2 = [] := (beats_none_between_at5 exConn5 2399 2640 2400 exConn5_ok_at5 (by decide) (by decide)
  (by decide) (by decide)).1

example : (apiStep exConn5 (.adv 2400)).2 = [.send .connected hbMessage false] ∧
    (apiStep exConn5 (.adv 2400)).1.hb.hl = .sleeping 4800 := by
  have := beats_every_interval_at5 exConn5 2640 2400 exConn5_ok_at5 (by decide) (by decide) (by decide)
  have e0 : 2400 - exConn5.now = 2400 := by decide
  rw [e0] at this
  exact ⟨by rw [this.1]; decide, this.2.1⟩

end PyAirtouch.Props.C08
