import PyAirtouch.Lemmas.SockQueue
/-!
# C02 — retry discipline

For every history of the model `PyAirtouch.Model.Sock` whose sends carry pairwise distinct
identities (`ReachableWF`): no message is put on a transport at or after its expiry, and no message
is attempted more than `1 + retries` times.  The statements use the monitors of
`PyAirtouch.Spec.Trace` that also judge recordings of the implementation.
-/
namespace PyAirtouch.Props.C02
open PyAirtouch.Model.Sock PyAirtouch.Spec.Trace PyAirtouch.Lemmas.Sock

/-- every write attempt for a message happens strictly before the expiry fixed at acceptance -/
theorem C02_never_at_or_after_expiry {s : Sys} :
    ReachableWF s → neverAtOrAfterExpiry s.core.trace = true := by
  intro h
  obtain ⟨u, hinv⟩ := inv_of_reachableWF h
  simp only [neverAtOrAfterExpiry, List.all_eq_true]
  intro ev hev
  have hw : WriteOk s.core.trace ev := hinv.writes ev hev
  cases ev <;> simp only [WriteOk] at hw ⊢
  all_goals
    obtain ⟨t0, e, r, ok, h1, h2⟩ := hw
    simp [h1, h2]

/-- a message with life 8 is written at time 5 (connection up), then a second one is accepted and
    written; the hypothesis is satisfiable and the monitor sees real write events -/
example : ∃ s, ReachableWF s ∧ writeAttempts s.core.trace 1 = 1 ∧ writeAttempts s.core.trace 2 = 1 :=
  ⟨_, ⟨[.apiOpen, .apiSend 1 2 8 true, .run 1 .go, .run 1 .openOk, .advance 5, .run 1 .go, .apiSend 2 0 8 true],
    by decide, rfl⟩, by decide, by decide⟩

/-- a message is attempted at most once plus its number of retries -/
theorem C02_attempts_bounded {s : Sys} : ReachableWF s → attemptsBounded s.core.trace = true := by
  intro h
  obtain ⟨u, hinv⟩ := inv_of_reachableWF h
  simp only [attemptsBounded, List.all_eq_true]
  intro ev hev
  cases ev <;> simp only [decide_eq_true_eq]
  rename_i sid t e r ok
  exact hinv.bounded sid t e r ok (hinv.accepts sid t e r ok hev)

/-- one retry allowed; the write faults, `drain()` raises, the entry is re-queued, a new connection
    is opened and the message is written again: two attempts, the bound `1 + 1` is attained -/
example : ∃ s, ReachableWF s ∧ writeAttempts s.core.trace 1 = 2 ∧
    acceptedAt s.core.trace 1 = some (0, 240, 1, true) :=
  ⟨_, ⟨[.apiOpen, .run 1 .go, .run 1 .openOk, .envFailWrites 0 true, .apiSend 1 1 240 true,
        .envLostRan 0, .run 2 .drainErr, .run 2 .go, .run 2 .go, .run 3 .go, .run 3 .openOk, .run 3 .go],
    by decide, rfl⟩, by decide, by decide⟩

end PyAirtouch.Props.C02
