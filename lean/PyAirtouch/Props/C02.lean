import PyAirtouch.Model.Sock
/-! placeholder until the proof files are merged -/
namespace PyAirtouch.Props.C02
theorem C02_placeholder : True := trivial
end PyAirtouch.Props.C02
