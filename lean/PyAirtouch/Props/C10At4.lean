import PyAirtouch.Lemmas.Api4Connected
import PyAirtouch.Lemmas.Api4Demo
/-!
# C10 (AirTouch 4): the API objects report what the console last said

All statements are about `Model.Api4.apiStep` (a sequence of arriving messages is `run s (msgs.map Op.recv)`,
written `recvAll s msgs`).  `Inv` is the heap invariant of reachable states (`Lemmas.Api4.Inv_initial`,
`Inv_apiStep`).  `lastFor key k l` is the last record of `l` whose number is `k`.
-/
set_option linter.unusedVariables false
namespace PyAirtouch.Props.C10
open PyAirtouch.Model PyAirtouch.Model.Api4 PyAirtouch.Model.At4 PyAirtouch.Lemmas.Api4 PyAirtouch.Gen
open PyAirtouch.Model.TimerCommon (AcTimerState AcTimerStatusData)

/-! ### the stored records -/

/-- After any sequence of messages in state `CONNECTED` the stored AC status of air-conditioner `k` is the record
    of the most recent AC-status message mentioning `k` (the last such record inside that message); if none
    mentions it the record is unchanged; an unknown `k` stays unknown. -/
theorem stored_ac_status_at4 (s : State) (hinv : Inv s) (hst : s.st = .CONNECTED) (hsub : s.subscribed = true)
    (msgs : List RMsg) (k : Nat) :
    ((recvAll s msgs).1.findAc k).map (·.status) =
      (s.findAc k).map fun a => (lastFor (·.ac_number) k (msgs.flatMap acStatusRecords)).getD a.status := by
  rw [findAc_recvAll hinv hst hsub, Option.map_map]
  congr 1; funext a
  exact foldl_steps_proj (acStep k) (·.status) (·.ac_number) k acStatusRecords (acStep_status k) msgs a

example :
    ((recvAll demo [.acStatus (.status [{ demoAcStatus with set_point := 25 }, { demoAcStatus with ac_number := 3 }]),
                    .acTimerStatus (.status [demoTimer]),
                    .acStatus (.status [{ demoAcStatus with set_point := 19 }])]).1.findAc 0).map (·.status)
      = some { demoAcStatus with set_point := 19 } := by
  rw [stored_ac_status_at4 demo demo_inv demo_connected demo_subscribed]; decide

/-- the same for the AC timer status (an `AcTimerControlMessage`, which is a subclass instance of the
    timer-status message, counts) -/
theorem stored_ac_timer_at4 (s : State) (hinv : Inv s) (hst : s.st = .CONNECTED) (hsub : s.subscribed = true)
    (msgs : List RMsg) (k : Nat) :
    ((recvAll s msgs).1.findAc k).map (·.timer) =
      (s.findAc k).map fun a => (lastFor (·.ac_number) k (msgs.flatMap acTimerRecords)).getD a.timer := by
  rw [findAc_recvAll hinv hst hsub, Option.map_map]
  congr 1; funext a
  exact foldl_steps_proj (acStep k) (·.timer) (·.ac_number) k acTimerRecords (acStep_timer k) msgs a

example :
    ((recvAll demo [.acTimerCtrl { ac_timer_status := [{ demoTimer with on_timer := { disabled := true, hour := 0, minute := 0 } }] }]).1.findAc 0).map (·.timer)
      = some { demoTimer with on_timer := { disabled := true, hour := 0, minute := 0 } } := by
  rw [stored_ac_timer_at4 demo demo_inv demo_connected demo_subscribed]; decide

/-- the same for the group status of zone `k` -/
theorem stored_group_status_at4 (s : State) (hinv : Inv s) (hst : s.st = .CONNECTED) (hsub : s.subscribed = true)
    (msgs : List RMsg) (k : Nat) :
    ((recvAll s msgs).1.zoneOf k).map (·.status) =
      (s.zoneOf k).map fun z => (lastFor (·.group_number) k (msgs.flatMap groupRecords)).getD z.status := by
  rw [zoneOf_recvAll hinv hst hsub, Option.map_map]
  congr 1; funext z
  exact foldl_steps_proj (zoneStep k) (·.status) (·.group_number) k groupRecords (zoneStep_status k) msgs z

example :
    ((recvAll demo [.groupStatus (.status [{ demoGroup with damper_percentage := 10 }, { demoGroup with group_number := 9 }])]).1.zoneOf 1).map (·.status)
      = some { demoGroup with damper_percentage := 10 } := by
  rw [stored_group_status_at4 demo demo_inv demo_connected demo_subscribed]; decide

/-- An error-information message is processed in *every* state: the text of the named air-conditioner
    becomes the message's text, nothing else about any air-conditioner changes. -/
theorem stored_error_info_at4 (s : State) (hinv : Inv s) (hsub : s.subscribed = true)
    (e : FF10.AcErrorInformationMessage) (k : Nat) :
    (apiStep s (.recv (.extended (.errInfo (.message e))))).1.findAc k =
      (s.findAc k).map fun a => if k = e.ac_number then { a with errInfo := e.error_info } else a := by
  simp only [apiStep, recv, hsub, ↓reduceIte, findAc_hbOnMessage, onMessage, findAc_updateErrInfo hinv]
  rfl

example : ((apiStep demo (.recv (.extended (.errInfo (.message { ac_number := 0, error_info := some [69] }))))).1.findAc 0).map (·.errInfo)
    = some (some [69]) := by
  rw [stored_error_info_at4 demo demo_inv demo_subscribed]; decide

/-- a status change to error code 0 clears the stored text, a change to a non-zero code keeps it -/
theorem error_text_after_status_at4 (r : X2D.AcStatusData) (a : AcObj) (h : a.status ≠ r) :
    (acAfterStatus r a).errInfo = if r.error_code = 0 then none else a.errInfo := by
  simp only [acAfterStatus, h, ↓reduceIte]
  by_cases hc : r.error_code = 0 <;> simp [hc]

example : ∃ r a, a.status ≠ r ∧ a.errInfo = some [69] ∧ (acAfterStatus r a).errInfo = none :=
  ⟨demoAcStatus, { (mkAc demoAbility []).get (by decide) with errInfo := some [69] }, by decide, rfl, by decide⟩

/-- in state `CONNECTED` a console-version message replaces the stored version; no other message touches it -/
theorem stored_version_at4 (s : State) (hst : s.st = .CONNECTED) (hsub : s.subscribed = true) (m : RMsg) :
    (apiStep s (.recv m)).1.version = (versionOf m).getD s.version := by
  have hb : ∀ t : State, (hbOnMessage t m).version = t.version := by
    intro t; unfold hbOnMessage; split <;> rfl
  have hfs : ∀ (t : State) l, (foldEv updateAcStatus t l).1.version = t.version := by
    intro t l; rw [foldEv_frame_ac _ updateAcStatus_frame]
  have hft : ∀ (t : State) l, (foldEv updateAcTimer t l).1.version = t.version := by
    intro t l; rw [foldEv_frame_ac _ updateAcTimer_frame]
  have hfg : ∀ (t : State) l, (foldEv updateGroupStatus t l).1.version = t.version := by
    intro t l; rw [foldEv_frame_zone _ updateGroupStatus_frame]
  simp only [apiStep, recv, hsub, ↓reduceIte, hb]
  cases m with
  | extended sub =>
    cases sub with
    | consoleVer v =>
      cases v with
      | message v =>
        simp only [onMessage, hst, reduceCtorEq, ↓reduceIte, updateVersion, versionOf, Option.getD_some]
        split
        · assumption
        · rfl
      | request => rfl
    | groupNames n => cases n <;> simp only [onMessage, hst, reduceCtorEq, ↓reduceIte] <;> rfl
    | acAbility a => cases a <;> simp only [onMessage, hst, reduceCtorEq, ↓reduceIte] <;> rfl
    | errInfo e =>
      cases e with
      | message e => simp only [onMessage]; rw [updateErrInfo_frame]; rfl
      | request r => rfl
    | quickTimer q => rfl
    | unsupported i r => rfl
  | groupCtrl c => rfl
  | groupStatus g =>
    cases g with
    | request => rfl
    | status l => simp only [onMessage, hst, reduceCtorEq, ↓reduceIte, hfg]; rfl
  | acCtrl c => rfl
  | acStatus a =>
    cases a with
    | request => rfl
    | status l => simp only [onMessage, hst, reduceCtorEq, ↓reduceIte, hfs]; rfl
  | acTimerCtrl c => simp only [onMessage, processTimers, hst, reduceCtorEq, ↓reduceIte, hft]; rfl
  | acTimerStatus t =>
    cases t with
    | request => rfl
    | status l => simp only [onMessage, processTimers, hst, reduceCtorEq, ↓reduceIte, hft]; rfl
  | unsupported i r => rfl

example : (apiStep demo (.recv (.extended (.consoleVer (.message { update_available := true, versions := [[50]] }))))).1.version
    = { update_available := true, versions := [[50]] } := by
  rw [stored_version_at4 demo demo_connected demo_subscribed]; rfl

/-! ### unknown ids change nothing -/

theorem unknown_ac_status_at4 (s : State) (l : List X2D.AcStatusData)
    (h : ∀ r ∈ l, s.findAc r.ac_number = none) : foldEv updateAcStatus s l = (s, []) := by
  induction l with
  | nil => rfl
  | cons r rs ih =>
    have h1 : updateAcStatus s r = (s, []) := by simp [updateAcStatus, h r List.mem_cons_self]
    simp only [foldEv, h1, ih (fun x hx => h x (List.mem_cons_of_mem _ hx))]
    rfl

theorem unknown_ac_timer_at4 (s : State) (l : List AcTimerStatusData)
    (h : ∀ r ∈ l, s.findAc r.ac_number = none) : foldEv updateAcTimer s l = (s, []) := by
  induction l with
  | nil => rfl
  | cons r rs ih =>
    have h1 : updateAcTimer s r = (s, []) := by simp [updateAcTimer, h r List.mem_cons_self]
    simp only [foldEv, h1, ih (fun x hx => h x (List.mem_cons_of_mem _ hx))]
    rfl

theorem unknown_group_status_at4 (s : State) (l : List X2B.GroupStatusData)
    (h : ∀ g ∈ l, s.zoneOf g.group_number = none) : foldEv updateGroupStatus s l = (s, []) := by
  induction l with
  | nil => rfl
  | cons r rs ih =>
    have h1 : updateGroupStatus s r = (s, []) := by simp [updateGroupStatus, h r List.mem_cons_self]
    simp only [foldEv, h1, ih (fun x hx => h x (List.mem_cons_of_mem _ hx))]
    rfl

/-- an AC-status message that only mentions unknown air-conditioners is a no-op: same state, no output -/
theorem unknown_ac_status_message_at4 (s : State) (hst : s.st = .CONNECTED) (hsub : s.subscribed = true)
    (l : List X2D.AcStatusData) (h : ∀ r ∈ l, s.findAc r.ac_number = none) :
    apiStep s (.recv (.acStatus (.status l))) = (s, []) := by
  simp only [apiStep, recv, hsub, ↓reduceIte, onMessage, hst, reduceCtorEq, unknown_ac_status_at4 s l h]
  rfl

example : ∀ r ∈ [{ demoAcStatus with ac_number := 3 }], demo.findAc r.ac_number = none := by decide

theorem unknown_error_info_at4 (s : State) (e : FF10.AcErrorInformationMessage) (h : s.findAc e.ac_number = none) :
    updateErrInfo s e = (s, []) := by
  simp [updateErrInfo, h]

/-! ### the getters are total: no `KeyError` from a mapping table -/

theorem tables_total_at4 :
    (∀ x ∈ At4.X2BGroupStatus.GroupPowerState.all, (Api4.ZONE_POWER_STATE_MAPPING.lookup x).isSome) ∧
    (∀ x ∈ At4.X2BGroupStatus.GroupControlMethod.all, (Api4.ZONE_CONTROL_METHOD_MAPPING.lookup x).isSome) ∧
    (∀ x ∈ At4.X2BGroupStatus.SensorBatteryStatus.all, (Api4.SENSOR_BATTERY_STATUS_MAPPING.lookup x).isSome) ∧
    (∀ x ∈ At4.X2DAcStatus.AcPowerState.all, (Api4.AC_POWER_STATE_MAPPING.lookup x).isSome) ∧
    (∀ x ∈ At4.X2DAcStatus.AcMode.all, (Api4.AC_SELECTED_MODE_MAPPING.lookup x).isSome) ∧
    (∀ x ∈ At4.X2DAcStatus.AcMode.all, (Api4.AC_ACTIVE_MODE_MAPPING.lookup x).isSome) ∧
    (∀ x ∈ At4.X2DAcStatus.AcFanSpeed.all, (Api4.AC_FAN_SPEED_MAPPING.lookup x).isSome) ∧
    (∀ x ∈ ApiEnums.AcTimerType.all, (Api4.API_TIMER_TYPE_MAPPING.lookup x).isSome) ∧
    (∀ x ∈ ApiEnums.ZonePowerState.all, (Api4.API_ZONE_POWER_MAPPING.lookup x).isSome) := by
  decide

theorem zone_getters_total_at4 (z : ZoneObj) :
    (∃ v, z.powerState = .ok v) ∧ (∃ v, z.controlMethod = .ok v) ∧ (∃ v, z.batteryStatus = .ok v) := by
  refine ⟨?_, ?_, ?_⟩
  · unfold ZoneObj.powerState; cases z.status.power_state <;> exact ⟨_, rfl⟩
  · unfold ZoneObj.controlMethod; cases z.status.control_method <;> exact ⟨_, rfl⟩
  · unfold ZoneObj.batteryStatus; cases z.status.battery_status <;> exact ⟨_, rfl⟩

theorem ac_getters_total_at4 (a : AcObj) :
    (∃ v, a.powerState = .ok v) ∧ (∃ v, a.selectedMode = .ok v) ∧ (∃ v, a.activeMode = .ok v) ∧
    (∃ v, a.fanSpeed = .ok v) := by
  refine ⟨?_, ?_, ?_, ?_⟩
  · unfold AcObj.powerState; cases a.status.power_state <;> exact ⟨_, rfl⟩
  · unfold AcObj.selectedMode; cases a.status.mode <;> exact ⟨_, rfl⟩
  · unfold AcObj.activeMode; cases a.status.mode <;> exact ⟨_, rfl⟩
  · unfold AcObj.fanSpeed; cases a.status.fan_speed <;> exact ⟨_, rfl⟩

example : (demo.findAc 0).map (fun a => (a.selectedMode, a.activeMode, a.fanSpeed)) =
    some (.ok .AUTO, .ok .HEAT, .ok .LOW) := by rfl

/-- the whole zone view is computable for every stored record -/
theorem view_zone_total_at4 (z : ZoneObj) : ∃ t, viewZone z = .ok t := by
  obtain ⟨⟨p, hp⟩, ⟨c, hc⟩, ⟨b, hb⟩⟩ := zone_getters_total_at4 z
  simp only [viewZone, hp, hc, hb]
  exact ⟨_, rfl⟩

/-! ### AUTO variants -/

/-- selected mode is AUTO for AUTO / AUTO_HEAT / AUTO_COOL; the active mode tells HEAT / COOL apart -/
theorem auto_modes_at4 (a : AcObj) :
    (a.status.mode = .AUTO → a.selectedMode = .ok .AUTO ∧ a.activeMode = .ok .AUTO) ∧
    (a.status.mode = .AUTO_HEAT → a.selectedMode = .ok .AUTO ∧ a.activeMode = .ok .HEAT) ∧
    (a.status.mode = .AUTO_COOL → a.selectedMode = .ok .AUTO ∧ a.activeMode = .ok .COOL) ∧
    (∀ m, a.status.mode = m → m ≠ .AUTO → m ≠ .AUTO_HEAT → m ≠ .AUTO_COOL → a.selectedMode = a.activeMode) := by
  refine ⟨?_, ?_, ?_, ?_⟩
  · intro h; simp only [AcObj.selectedMode, AcObj.activeMode, h]; exact ⟨rfl, rfl⟩
  · intro h; simp only [AcObj.selectedMode, AcObj.activeMode, h]; exact ⟨rfl, rfl⟩
  · intro h; simp only [AcObj.selectedMode, AcObj.activeMode, h]; exact ⟨rfl, rfl⟩
  · intro m h h1 h2 h3
    simp only [AcObj.selectedMode, AcObj.activeMode, h]
    cases m <;> first | rfl | contradiction

example : ∃ a : AcObj, a.status.mode = .AUTO_COOL := ⟨{ (mkAc demoAbility []).get (by decide) with status := { demoAcStatus with mode := .AUTO_COOL } }, rfl⟩

/-! ### error details, quick timers -/

/-- `error_info` is present iff the error code is non-zero, and then carries that code and the stored text -/
theorem error_info_iff_at4 (a : AcObj) :
    (a.errorInfo.isSome ↔ a.status.error_code ≠ 0) ∧
    (a.status.error_code ≠ 0 → a.errorInfo = some (a.status.error_code, a.errInfo)) := by
  unfold AcObj.errorInfo
  by_cases h : a.status.error_code = 0 <;> simp [h]

example : ∃ a : AcObj, a.errorInfo = some (7, some [69]) :=
  ⟨{ (mkAc demoAbility []).get (by decide) with status := { demoAcStatus with error_code := 7 }, errInfo := some [69] }, by decide⟩

/-- `next_quick_timer` is `None` iff the timer is disabled; an enabled timer with a valid time of day is
    reported as that time -/
theorem quick_timer_iff_at4 (a : AcObj) (tt : ApiEnums.AcTimerType) :
    (a.nextQuickTimer tt = .ok none ↔ (a.timerState tt).disabled = true) ∧
    ((a.timerState tt).disabled = false → (a.timerState tt).hour < 24 → (a.timerState tt).minute < 60 →
      a.nextQuickTimer tt = .ok (some ((a.timerState tt).hour, (a.timerState tt).minute))) := by
  unfold AcObj.nextQuickTimer
  constructor
  · constructor
    · intro h
      by_cases hd : (a.timerState tt).disabled = true
      · exact hd
      · have hd' : (a.timerState tt).disabled = false := by simpa using hd
        simp only [hd', Bool.false_eq_true, ↓reduceIte] at h
        split at h
        · simp at h
        · cases h
    · intro hd; simp [hd]
  · intro hd hh hm; simp [hd, hh, hm]

example : (demo.findAc 0).map (fun a => (a.nextQuickTimer .ON_TIMER, a.nextQuickTimer .OFF_TIMER)) =
    some (.ok (some (7, 30)), .ok none) := by rfl

/-- FINDING (getter not total): the timer-status decoder yields hours up to 31 and minutes up to 63; for an
    enabled timer outside the range of `datetime.time` the getter raises `ValueError` -/
theorem quick_timer_value_error_at4 (a : AcObj) (tt : ApiEnums.AcTimerType)
    (hd : (a.timerState tt).disabled = false) (h : 24 ≤ (a.timerState tt).hour ∨ 60 ≤ (a.timerState tt).minute) :
    a.nextQuickTimer tt = .error .valueError := by
  unfold AcObj.nextQuickTimer
  have : ¬ ((a.timerState tt).hour < 24 ∧ (a.timerState tt).minute < 60) := by omega
  simp [hd, this]

example : ∃ a : AcObj, a.nextQuickTimer .ON_TIMER = .error .valueError :=
  ⟨{ (mkAc demoAbility []).get (by decide) with timer := { demoTimer with on_timer := { disabled := false, hour := 31, minute := 0 } } }, by rfl⟩

end PyAirtouch.Props.C10
