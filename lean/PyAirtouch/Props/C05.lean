import PyAirtouch.Model.At4.Registry
import PyAirtouch.Model.At5.Registry
/-! placeholder until the decoder = vendor-reading theorems are merged -/
namespace PyAirtouch.Props.C05
theorem C05_placeholder : True := trivial
end PyAirtouch.Props.C05
