import PyAirtouch.Lemmas.Heartbeat
/-!
# C08 — heartbeat period and silence detection

Theorems about the model `PyAirtouch.Model.Heartbeat` of `HeartbeatManager`.  Every statement holds
for every label sequence (every interleaving of the two tasks, the environment and the clock) and
for arbitrary `interval` and `timeout`; the only assumption about the runtime is the guard of
`advance` (a timer fires when it is due).  Times are ticks.
-/
namespace PyAirtouch.Props.C08
open PyAirtouch.Model.Heartbeat PyAirtouch.Spec.Heartbeat PyAirtouch.Lemmas.Heartbeat

/-! ## 1. the deadline -/

/-- time never passes a pending deadline, and the deadline is exactly `timeout` after the latest arm
point; the parameters never change -/
theorem C08_deadline_never_missed {i t : Nat} {h : HB} (hr : Reachable i t h) :
    (∀ d, h.tl = .waiting d → h.now ≤ d ∧ d = h.lastArm + h.timeout) ∧ h.timeout = t ∧ h.interval = i :=
  have b := reachable_basic hr
  ⟨b.deadline, b.timeout_eq, b.interval_eq⟩

example : ∃ h, Reachable 2400 2640 h ∧ h.tl = .waiting 2645 ∧ h.now = 2405 ∧ h.lastArm = 5 :=
  ⟨_, ⟨exBeat, rfl⟩, by decide⟩

/-! ## 2. arm points -/

/-- the latest arm point only moves at `start`, when a response is consumed, when a reset completes
and at an expiry while the link is down — and then it moves to the current instant -/
theorem C08_arm_points {h h' : HB} {l : Label} (hs : step h l = some h')
    (hne : h'.lastArm ≠ h.lastArm) :
    (l = .start ∨ l = .tlWake ∨ l = .tlResetDone ∨ (l = .tlFire ∧ h.connected = false)) ∧
      h'.lastArm = h.now := by
  cases l <;> simp only [step, HB.emit, enterTimeout] at hs
  all_goals (repeat' split at hs)
  all_goals (first | cases hs | skip)
  all_goals grind

example : ∃ h h', Reachable 2400 2640 h ∧ step h .tlWake = some h' ∧ h'.lastArm ≠ h.lastArm :=
  ⟨_, _, ⟨exBeat ++ [.response], rfl⟩, rfl, by decide⟩

/-! ## 3. a reset only after a full `timeout` of silence -/

/-- an expiry while the link is up issues a reset, exactly `timeout` after the latest arm point -/
theorem C08_reset_at_deadline {i t : Nat} {h h' : HB} (hr : Reachable i t h)
    (hs : step h .tlFire = some h') (hc : h.connected = true) :
    h'.trace = h.trace ++ [.reset h.now] ∧ h.now = h.lastArm + t := by
  have b := reachable_basic hr
  have hd := b.deadline
  have ht := b.timeout_eq
  simp only [step, HB.emit, enterTimeout] at hs
  repeat' split at hs
  all_goals (first | cases hs | skip)
  all_goals grind

example : ∃ h h', Reachable 2400 2640 h ∧ step h .tlFire = some h' ∧ h.connected = true :=
  ⟨_, _, ⟨exDue, rfl⟩, rfl, by decide⟩

/-- conversely the only step that adds a `reset` event is an expiry while the link is up -/
theorem C08_reset_only_by_expiry {h h' : HB} {l : Label} {r : Nat} (hs : step h l = some h')
    (hin : HEv.reset r ∈ h'.trace) (hout : HEv.reset r ∉ h.trace) :
    l = .tlFire ∧ h.connected = true ∧ r = h.now ∧ h'.trace = h.trace ++ [.reset h.now] :=
  step_reset hs hin hout

example : ∃ h h' l r, Reachable 2400 2640 h ∧ step h l = some h' ∧ HEv.reset r ∈ h'.trace ∧
    HEv.reset r ∉ h.trace :=
  ⟨_, _, .tlFire, 2645, ⟨exDue, rfl⟩, rfl, by decide, by decide⟩

/-- in the recorded events: a reset never comes earlier than `timeout`, and no response lies in the
`timeout` ticks before it (responses at the very instant of the reset may be recorded on either
side of it) -/
theorem C08_reset_only_after_full_silence {i t : Nat} {h : HB} (hr : Reachable i t h) :
    ∀ r, HEv.reset r ∈ h.trace → t ≤ r ∧ ∀ x, HEv.resp x ∈ h.trace → ¬ (r - t < x ∧ x < r) := by
  intro r hrm
  have k := reachable_traceInv hr
  refine ⟨k.reset_ge r hrm, fun x hx => ?_⟩
  have := k.reset_quiet r x hrm hx
  omega

example : ∃ h, Reachable 2400 2640 h ∧ HEv.reset 2645 ∈ h.trace ∧ HEv.resp 5 ∈ h.trace :=
  ⟨_, ⟨[.conn true, .advance 5, .start, .response, .tlWake, .hlBeat, .advance 2405, .hlBeat,
        .advance 2645, .tlFire], rfl⟩, by decide, by decide⟩

/-- every recorded reset comes a whole number `k + 1` of timeouts after a recorded arm point `a` (a
`start`, a response, a completed reset; `k` expiries in between found the link down), and no
response at all lies strictly between `a` and the reset -/
theorem C08_reset_origin {i t : Nat} {h : HB} (hr : Reachable i t h) :
    ∀ r, HEv.reset r ∈ h.trace → ∃ k a, r = a + (k + 1) * t ∧
      (HEv.start a ∈ h.trace ∨ HEv.resp a ∈ h.trace ∨ HEv.resetDone a ∈ h.trace) ∧
      ∀ x, HEv.resp x ∈ h.trace → x ≤ a ∨ r ≤ x :=
  (reachable_armInv hr).reset_origin

/-- link down at the first expiry (2645), up again, reset at the second: 5285 = 5 + 2·2640 -/
example : ∃ h, Reachable 2400 2640 h ∧ HEv.reset 5285 ∈ h.trace ∧ HEv.start 5 ∈ h.trace :=
  ⟨_, ⟨[.advance 5, .start, .hlBeat, .advance 2405, .hlBeat, .advance 2645, .tlFire, .conn true,
        .advance 4805, .hlBeat, .advance 5285, .tlFire], rfl⟩, by decide, by decide⟩

/-! ## 4. silence is detected -/

/-- the clock cannot be moved past a pending deadline … -/
theorem C08_silence_detected {h h' : HB} {d t' : Nat} (hw : h.tl = .waiting d)
    (hs : step h (.advance t') = some h') : t' ≤ d := by
  simp only [step, hw] at hs
  grind

example : ∃ h h', Reachable 2400 2640 h ∧ h.tl = .waiting 2645 ∧ step h (.advance 2645) = some h' :=
  ⟨_, _, ⟨exBeat ++ [.hlBeat], rfl⟩, by decide, rfl⟩

/-- … on any path: without an expiry, a consumed response or `stop` the same deadline stays pending
and the clock stays on this side of it -/
theorem C08_silence_detected_run {i t : Nat} {h h' : HB} {d : Nat} {ls : List Label}
    (hr : Reachable i t h) (hw : h.tl = .waiting d) (hrun : run h ls = some h')
    (hls : ∀ l ∈ ls, l ≠ .tlFire ∧ l ≠ .tlWake ∧ l ≠ .stop) :
    h'.tl = .waiting d ∧ h'.now ≤ d ∧ h'.lastArm = h.lastArm :=
  run_keeps_deadline ls h h' hrun hw ((reachable_basic hr).deadline d hw).1 hls

example : ∃ h h' ls, Reachable 2400 2640 h ∧ h.tl = .waiting 2645 ∧ run h ls = some h' ∧ ls.length = 3 ∧
    ∀ l ∈ ls, l ≠ .tlFire ∧ l ≠ .tlWake ∧ l ≠ .stop :=
  ⟨_, _, [.hlBeat, .conn false, .advance 2645], ⟨exBeat, rfl⟩, by decide, rfl, rfl, by decide⟩

/-- when the deadline is reached the expiry is enabled; it resets the connection iff the link is up,
and otherwise starts a new period at once -/
theorem C08_expiry_enabled {h : HB} {d : Nat} (hw : h.tl = .waiting d) (hn : h.now = d) :
    ∃ h', step h .tlFire = some h' ∧
      (h.connected = true → h'.trace = h.trace ++ [.reset d] ∧ h'.tl = .resetting) ∧
      (h.connected = false → h'.trace = h.trace ∧ h'.tl = .waiting (d + h.timeout) ∧ h'.lastArm = d) := by
  cases hc : h.connected <;> simp [step, hw, hn, hc, HB.emit, enterTimeout]

example : ∃ h, Reachable 2400 2640 h ∧ h.tl = .waiting 2645 ∧ h.now = 2645 :=
  ⟨_, ⟨exDue, rfl⟩, by decide⟩

/-! ## 5. the period -/

/-- time never passes a pending wake-up of the heartbeat loop -/
theorem C08_wake_never_missed {i t : Nat} {h : HB} {u : Nat} (hr : Reachable i t h)
    (hu : h.hl = .sleeping u) : h.now ≤ u :=
  ((reachable_basic hr).wake u hu).1

example : ∃ h, Reachable 2400 2640 h ∧ h.hl = .sleeping 2405 := ⟨_, ⟨exBeat, rfl⟩, by decide⟩

/-- every iteration of the heartbeat loop happens exactly at its wake-up time, schedules the next
one `interval` later, and sends a request iff the link is up -/
theorem C08_period {i t : Nat} {h h' : HB} (hr : Reachable i t h) (hs : step h .hlBeat = some h') :
    ∃ u, h.hl = .sleeping u ∧ h.now = u ∧ h'.hl = .sleeping (u + i) ∧
      (h.connected = true → h'.trace = h.trace ++ [.beat u]) ∧
      (h.connected = false → h'.trace = h.trace) := by
  have b := reachable_basic hr
  have hw := b.wake
  have hi := b.interval_eq
  simp only [step, HB.emit] at hs
  repeat' split at hs
  all_goals (first | cases hs | skip)
  all_goals grind

example : ∃ h h', Reachable 2400 2640 h ∧ step h .hlBeat = some h' ∧ h.now = 2405 :=
  ⟨_, _, ⟨exBeat, rfl⟩, rfl, by decide⟩

/-! ## 6. no false reset -/

/-- If every iteration of the heartbeat loop, at an instant `b`, is followed by a consumed response
before time reaches `b + (timeout − interval)` (`GoodRun`, a check on the label sequence alone), the
connection is never reset.  Nothing has to be assumed about the link: an iteration during which the
link is down sends no request, so it can only be "answered" by a stray response. -/
theorem C08_no_false_reset {i t : Nat} (hit : i < t) :
    ∀ ls h, run (init i t) ls = some h → GoodRun (t - i) ls → ∀ r, HEv.reset r ∉ h.trace := by
  intro ls h hr hg
  obtain ⟨s', hsim⟩ := sim_run (m := t - i) (by omega) (by omega) ls _ h _ (sim_init i t (t - i)) hr hg
  exact hsim.no_reset

/-- three requests at 5, 2405, 4805 answered after 0, 239 and 100 ticks (`timeout − interval = 240`) -/
example : ∃ h, run (init 2400 2640) exGood = some h ∧ GoodRun (2640 - 2400) exGood ∧
    HEv.beat 4805 ∈ h.trace ∧ HEv.resp 4905 ∈ h.trace ∧ h.now = 7000 ∧ h.tl = .waiting 7545 :=
  ⟨_, rfl, by decide, by decide, by decide, by decide, by decide⟩

/-- the bound is tight: one tick more and a reset can happen although every request is answered -/
example : ∃ ls h, run (init 2400 2640) ls = some h ∧ GoodRun (2640 - 2400 + 1) ls ∧
    HEv.reset 2645 ∈ h.trace :=
  ⟨[.conn true, .advance 5, .start, .hlBeat, .response, .tlWake,
    .advance 2405, .hlBeat, .advance 2645, .tlFire], _, rfl, by decide, by decide⟩

/-- … in fact the deadline is never even reached, so the timeout never expires -/
theorem C08_no_expiry {i t : Nat} (hit : i < t) :
    ∀ ls h, run (init i t) ls = some h → GoodRun (t - i) ls →
      h.tl ≠ .resetting ∧ ∀ d, h.tl = .waiting d → h.now < d := by
  intro ls h hr hg
  obtain ⟨s', hsim⟩ := sim_run (m := t - i) (by omega) (by omega) ls _ h _ (sim_init i t (t - i)) hr hg
  exact ⟨hsim.not_resetting, sim_lt (by omega) hsim⟩

example : ∃ h, run (init 2400 2640) exGood = some h ∧ GoodRun (2640 - 2400) exGood ∧ h.tl = .waiting 7545 :=
  ⟨_, rfl, by decide, by decide⟩

end PyAirtouch.Props.C08
