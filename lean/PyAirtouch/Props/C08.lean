import PyAirtouch.Model.Heartbeat
/-! placeholder until the proof files are merged -/
namespace PyAirtouch.Props.C08
theorem C08_placeholder : True := trivial
end PyAirtouch.Props.C08
